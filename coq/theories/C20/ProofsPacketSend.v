(** C20 — sender completeness for non-empty messages (helper of ProofsPacket.v). *)
From Coq Require Import List ZArith NArith Bool Arith Lia.
From Kardia Require Import Generated.C20Facts C20.Model C20.Spec.
Import ListNotations.

(** sendRoutine: call sendPacketMsg until it reports "exhausted"; result: final channels,
    packets written (in order), whether exhaustion was reached within the fuel *)
Fixpoint drain (fuel : nat) (maxp : nat) (cs : list chan) : list chan * list packet * bool :=
  match fuel with
  | O => (cs, [], false)
  | S f =>
      let '(cs1, op, exhausted) := send_packet_msg maxp cs in
      if exhausted then (cs1, [], true)
      else let '(cs2, ps, done) := drain f maxp cs1 in
           (cs2, match op with Some p => p :: ps | None => ps end, done)
  end.

(* ------------------------------------------------------------------ *)
(** * list helpers *)

Lemma upd_nth_length : forall A (f : A -> A) l i, length (upd_nth i f l) = length l.
Proof.
  intros A f. induction l as [|x t IH]; intros i; destruct i; cbn [upd_nth length];
    try reflexivity. rewrite IH. reflexivity.
Qed.

Lemma nth_error_upd_nth_eq : forall A (f : A -> A) l i x,
  nth_error l i = Some x -> nth_error (upd_nth i f l) i = Some (f x).
Proof.
  intros A f. induction l as [|y t IH]; intros i x H; destruct i; cbn [nth_error] in H; try discriminate.
  - inversion H. reflexivity.
  - cbn [upd_nth nth_error]. apply IH. assumption.
Qed.

Lemma nth_error_upd_nth_neq : forall A (f : A -> A) l i j,
  j <> i -> nth_error (upd_nth i f l) j = nth_error l j.
Proof.
  intros A f. induction l as [|y t IH]; intros i j H;
    destruct i; destruct j; cbn [upd_nth nth_error]; try reflexivity; try lia.
  apply IH. lia.
Qed.

Lemma in_upd_nth : forall A (y : A) l i x, In x (upd_nth i (fun _ => y) l) -> x = y \/ In x l.
Proof.
  intros A y. induction l as [|z t IH]; intros i x H;
    [destruct i; destruct H|].
  destruct i; cbn [upd_nth] in H; destruct H as [<-|H].
  - left. reflexivity.
  - right. right. assumption.
  - right. left. reflexivity.
  - destruct (IH _ _ H) as [->|H']; [left; reflexivity|right; right; assumption].
Qed.

Lemma map_upd_nth_same : forall A B (g : A -> B) (y : A) l i x,
  nth_error l i = Some x -> g x = g y -> map g (upd_nth i (fun _ => y) l) = map g l.
Proof.
  intros A B g y. induction l as [|z t IH]; intros i x H Hg; [destruct i; discriminate|].
  destruct i; cbn [nth_error] in H; cbn [upd_nth map].
  - inversion H; subst. rewrite Hg. reflexivity.
  - rewrite (IH _ _ H Hg). reflexivity.
Qed.

Lemma proj_cons_msg_send : forall id ch eof data rest,
  proj id (PktMsg ch eof data :: rest) =
  if (byte_of_int32 ch =? id)%N then PktMsg ch eof data :: proj id rest else proj id rest.
Proof. reflexivity. Qed.

Lemma byte_of_int32_of_N : forall id, (id < 256)%N -> byte_of_int32 (Z.of_N id) = id.
Proof.
  intros id H. unfold byte_of_int32. rewrite Z.mod_small by lia. apply N2Z.id.
Qed.

(* ------------------------------------------------------------------ *)
(** * one channel *)

Definition cid (c : chan) : N := ch_id (desc c).
Definition good (c : chan) : Prop := forall m, In m (queue c) -> m <> [].
Definition idle (c : chan) : Prop := queue c = [] /\ sending c = [].
(** messages counted in sendQueueSize: the one in progress and the queued ones *)
Definition owed (c : chan) : Z :=
  ((match sending c with [] => 0 | _ => 1 end) + Z.of_nat (length (queue c)))%Z.
Definition bal (c : chan) : Z := (qsize c - owed c)%Z.
Definition cur (maxp : nat) (id : N) (s : bytes) : list packet :=
  match s with [] => [] | _ => packetise id maxp s end.
(** the packets the channel still has to emit *)
Definition pend (maxp : nat) (c : chan) : list packet :=
  cur maxp (cid c) (sending c) ++ packets_of (cid c) maxp (queue c).
Definition isp (c : chan) : chan := snd (is_send_pending c).
Definition bump (n : Z) (c : chan) : chan :=
  upd_send c (queue c) (qsize c) (sending c) (recently_sent c + n)%Z.

Definition rel (maxp : nat) (c c1 : chan) (ps : list packet) : Prop :=
  desc c1 = desc c /\ good c1 /\ bal c1 = bal c /\ pend maxp c = ps ++ pend maxp c1.

Lemma packetise_fuel_indep : forall id maxp, 0 < maxp -> forall f f' m,
  length m < f -> length m < f' -> packetise_fuel f id maxp m = packetise_fuel f' id maxp m.
Proof.
  intros id maxp Hp. induction f as [|f IH]; intros f' m H H'; [lia|].
  destruct f' as [|f']; [lia|]. cbn [packetise_fuel].
  destruct (length m <=? maxp) eqn:E; [reflexivity|].
  apply Nat.leb_gt in E. f_equal. apply IH; rewrite skipn_length; lia.
Qed.

Lemma isp_rel : forall maxp c, good c ->
  rel maxp c (isp c) [] /\
  (fst (is_send_pending c) = true -> sending (isp c) <> []) /\
  (fst (is_send_pending c) = false -> idle c /\ isp c = c).
Proof.
  intros maxp c Hg. unfold isp, is_send_pending.
  destruct (sending c) as [|b s] eqn:Es.
  - destruct (queue c) as [|m q] eqn:Eq; cbn [fst snd].
    + split; [|split].
      * split; [reflexivity|]. split; [assumption|]. split; reflexivity.
      * discriminate.
      * intros _. split; [split; assumption|reflexivity].
    + assert (Hm : m <> []) by (apply Hg; rewrite Eq; left; reflexivity).
      split; [|split].
      * split; [reflexivity|]. split; [|split].
        -- intros m' Hm'. cbn [upd_send queue] in Hm'. apply Hg. rewrite Eq. right. assumption.
        -- unfold bal, owed. cbn [upd_send queue sending qsize]. rewrite Es, Eq.
           destruct m as [|b t]; [congruence|]. cbn [length]. lia.
        -- unfold pend, cid. cbn [upd_send queue sending desc app]. rewrite Es, Eq.
           destruct m as [|b t]; [congruence|]. reflexivity.
      * intros _. cbn [upd_send sending]. assumption.
      * discriminate.
  - cbn [fst snd]. split; [|split].
    + split; [reflexivity|]. split; [assumption|]. split; reflexivity.
    + intros _. rewrite Es. discriminate.
    + discriminate.
Qed.

Lemma cur_ne : forall maxp id s, s <> [] -> cur maxp id s = packetise id maxp s.
Proof. intros maxp id [|b t] H; [congruence|reflexivity]. Qed.

Lemma owed_ne : forall c, sending c <> [] -> owed c = (1 + Z.of_nat (length (queue c)))%Z.
Proof. intros c H. unfold owed. destruct (sending c); [congruence|reflexivity]. Qed.

Lemma owed_nil : forall c, sending c = [] -> owed c = Z.of_nat (length (queue c)).
Proof. intros c H. unfold owed. rewrite H. lia. Qed.

Lemma next_rel : forall maxp c n p c', 0 < maxp -> good c -> sending c <> [] ->
  next_packet maxp c = (p, c') ->
  rel maxp c (bump n c') [p] /\ exists eof data, p = PktMsg (Z.of_N (cid c)) eof data.
Proof.
  intros maxp c n p c' Hp Hg Hs H. unfold next_packet in H. cbv zeta in H.
  destruct (length (sending c) <=? maxp) eqn:E; inversion H; subst p c'; clear H.
  - apply Nat.leb_le in E. rewrite Nat.min_r by assumption. rewrite firstn_all.
    split; [|eexists; eexists; reflexivity].
    split; [reflexivity|]. split; [exact Hg|]. split.
    + unfold bal. rewrite (owed_ne c Hs). rewrite owed_nil by reflexivity.
      unfold bump. cbn [upd_send queue qsize]. lia.
    + unfold pend. rewrite (cur_ne _ _ _ Hs). unfold cid, bump.
      cbn [upd_send queue sending desc cur app]. unfold packetise. cbn [packetise_fuel].
      apply Nat.leb_le in E. rewrite E. reflexivity.
  - apply Nat.leb_gt in E. rewrite Nat.min_l by lia.
    split; [|eexists; eexists; reflexivity].
    assert (Hsk : length (skipn maxp (sending c)) = length (sending c) - maxp) by apply skipn_length.
    assert (Hne2 : skipn maxp (sending c) <> []).
    { intros Heq. rewrite Heq in Hsk. cbn [length] in Hsk. lia. }
    split; [reflexivity|]. split; [exact Hg|]. split.
    + unfold bal. rewrite (owed_ne c Hs).
      rewrite (owed_ne (bump n (upd_send c (queue c) (qsize c) (skipn maxp (sending c)) (recently_sent c))) Hne2).
      unfold bump. cbn [upd_send queue qsize]. lia.
    + unfold pend. rewrite (cur_ne _ _ _ Hs). unfold cid, bump.
      cbn [upd_send queue sending desc]. rewrite (cur_ne _ _ _ Hne2).
      unfold packetise at 1. cbn [packetise_fuel].
      apply Nat.leb_gt in E. rewrite E. cbn [app]. f_equal. f_equal.
      unfold packetise. apply Nat.leb_gt in E.
      apply packetise_fuel_indep; [assumption|lia|lia].
Qed.

Lemma rel_trans : forall maxp a b c ps qs,
  rel maxp a b ps -> rel maxp b c qs -> rel maxp a c (ps ++ qs).
Proof.
  intros maxp a b c ps qs (D1 & G1 & B1 & P1) (D2 & G2 & B2 & P2).
  split; [congruence|]. split; [assumption|]. split; [congruence|].
  rewrite P1, P2. apply app_assoc.
Qed.

(* ------------------------------------------------------------------ *)
(** * selection and one sendPacketMsg *)

Lemma select_loop_spec : forall cs idx best cs1 r, select_loop cs idx best = (cs1, r) ->
  cs1 = map isp cs /\
  match r with
  | Some i => (exists br, best = Some (i, br)) \/
              (idx <= i /\ exists c, nth_error cs (i - idx) = Some c /\ fst (is_send_pending c) = true)
  | None => best = None /\ forall c, In c cs -> fst (is_send_pending c) = false
  end.
Proof.
  induction cs as [|c rest IH]; intros idx best cs1 r H; cbn [select_loop] in H.
  - inversion H; subst. split; [reflexivity|]. destruct best as [[i br]|].
    + left. eexists. reflexivity.
    + split; [reflexivity|]. intros c [].
  - destruct (is_send_pending c) as [pending c'] eqn:Hc. cbv zeta in H.
    match type of H with context [select_loop rest (S idx) ?b] => remember b as best' eqn:Hb end.
    destruct (select_loop rest (S idx) best') as [rest' r'] eqn:Hr.
    inversion H; subst cs1 r. clear H.
    apply IH in Hr. destruct Hr as [-> Hr]. split.
    { cbn [map]. change (isp c) with (snd (is_send_pending c)). rewrite Hc. reflexivity. }
    destruct r' as [i|].
    + destruct Hr as [[br Hbr]|[Hle (c2 & Hn & Hp2)]].
      * subst best'. destruct pending.
        -- destruct best as [[bi bbr]|].
           ++ match type of Hbr with context [f32_lt ?a ?b] => destruct (f32_lt a b) end.
              ** inversion Hbr; subst. right. split; [lia|]. exists c.
                 rewrite Nat.sub_diag. split; [reflexivity|]. rewrite Hc. reflexivity.
              ** left. eexists. eassumption.
           ++ inversion Hbr; subst. right. split; [lia|]. exists c.
              rewrite Nat.sub_diag. split; [reflexivity|]. rewrite Hc. reflexivity.
        -- left. eexists. eassumption.
      * right. split; [lia|]. exists c2.
        replace (i - idx) with (S (i - S idx)) by lia. cbn [nth_error]. split; assumption.
    + destruct Hr as [Hnone Hall]. subst best'. destruct pending.
      * destruct best as [[bi bbr]|]; [|discriminate].
        match type of Hnone with context [f32_lt ?a ?b] => destruct (f32_lt a b) end; discriminate.
      * split; [assumption|]. intros c2 [<-|Hin]; [rewrite Hc; reflexivity|].
        apply Hall. assumption.
Qed.

Lemma send_cases : forall maxp cs cs' op ex, send_packet_msg maxp cs = (cs', op, ex) ->
  (ex = true /\ op = None /\ cs' = map isp cs /\
   forall c, In c cs -> fst (is_send_pending c) = false) \/
  (ex = false /\ exists i ci n p c',
     nth_error cs i = Some ci /\ fst (is_send_pending ci) = true /\
     next_packet maxp (isp ci) = (p, c') /\ op = Some p /\
     cs' = upd_nth i (fun _ => bump n c') (map isp cs)).
Proof.
  intros maxp cs cs' op ex H. unfold send_packet_msg in H.
  destruct (select_loop cs 0 None) as [cs1 sel] eqn:Hs.
  apply select_loop_spec in Hs. destruct Hs as [-> Hs].
  destruct sel as [i|].
  - destruct Hs as [[br Hbr]|[_ (ci & Hi & Hpend)]]; [discriminate|].
    rewrite Nat.sub_0_r in Hi.
    rewrite (map_nth_error isp _ _ Hi) in H.
    destruct (next_packet maxp (isp ci)) as [p c'] eqn:Hn.
    inversion H; subst. right. split; [reflexivity|].
    eexists i, ci, _, p, c'. repeat split; eassumption.
  - destruct Hs as [_ Hall]. inversion H; subst. left. repeat split. assumption.
Qed.

(* ------------------------------------------------------------------ *)
(** * draining *)

Fixpoint total (maxp : nat) (cs : list chan) : nat :=
  match cs with [] => 0 | c :: t => length (pend maxp c) + total maxp t end.

Lemma total_map_isp : forall maxp cs, (forall c, In c cs -> good c) ->
  total maxp (map isp cs) = total maxp cs.
Proof.
  intros maxp. induction cs as [|c t IH]; intros Hg; [reflexivity|].
  cbn [map total]. rewrite IH by (intros; apply Hg; right; assumption).
  destruct (isp_rel maxp c (Hg c (or_introl eq_refl))) as [(_ & _ & _ & P) _].
  rewrite P. reflexivity.
Qed.

Lemma total_upd : forall maxp y l i x, nth_error l i = Some x ->
  length (pend maxp x) = S (length (pend maxp y)) ->
  S (total maxp (upd_nth i (fun _ => y) l)) = total maxp l.
Proof.
  intros maxp y. induction l as [|z t IH]; intros i x H Hl; destruct i; cbn [nth_error] in H;
    try discriminate.
  - inversion H; subst. cbn [upd_nth total]. lia.
  - cbn [upd_nth total]. rewrite <- (IH _ _ H Hl). lia.
Qed.

Lemma idle_pend : forall maxp c, idle c -> pend maxp c = [].
Proof. intros maxp c [Hq Hs]. unfold pend. rewrite Hq, Hs. reflexivity. Qed.

Lemma drain_spec : forall maxp ds, 0 < maxp ->
  NoDup (map ch_id ds) -> (forall d, In d ds -> (ch_id d < 256)%N) ->
  forall fuel cs, map desc cs = ds -> (forall c, In c cs -> good c) -> total maxp cs < fuel ->
  exists cs' ps, drain fuel maxp cs = (cs', ps, true) /\ length cs' = length cs /\
    forall j c, nth_error cs j = Some c ->
      exists c', nth_error cs' j = Some c' /\ desc c' = desc c /\ bal c' = bal c /\ idle c' /\
                 proj (cid c) ps = pend maxp c.
Proof.
  intros maxp ds Hp Hnd H256. induction fuel as [|fuel IH]; intros cs Hds Hgood Htot; [lia|].
  cbn [drain]. destruct (send_packet_msg maxp cs) as [[cs1 op] ex] eqn:Hs.
  apply send_cases in Hs.
  destruct Hs as [(-> & -> & -> & Hnp)|(-> & i & ci & n & p & c' & Hi & Hpend & Hnext & -> & ->)].
  - exists (map isp cs), []. split; [reflexivity|]. split; [apply map_length|].
    intros j c Hj. exists (isp c). split; [apply map_nth_error; assumption|].
    assert (Hin : In c cs) by (eapply nth_error_In; eassumption).
    destruct (isp_rel maxp c (Hgood c Hin)) as (_ & _ & Hidle).
    destruct (Hidle (Hnp c Hin)) as [Hid ->].
    split; [reflexivity|]. split; [reflexivity|]. split; [assumption|].
    rewrite idle_pend by assumption. reflexivity.
  - assert (Hini : In ci cs) by (eapply nth_error_In; eassumption).
    destruct (isp_rel maxp ci (Hgood ci Hini)) as (R1 & Hne & _).
    specialize (Hne Hpend).
    assert (Hg1 : good (isp ci)) by (destruct R1 as (_ & G & _); exact G).
    destruct (next_rel maxp (isp ci) n p c' Hp Hg1 Hne Hnext) as (R2 & eof & data & Hpk).
    pose proof (rel_trans _ _ _ _ _ _ R1 R2) as R. cbn [app] in R.
    set (c'' := bump n c') in *.
    set (cs1 := upd_nth i (fun _ => c'') (map isp cs)).
    assert (Hi1 : nth_error (map isp cs) i = Some (isp ci)) by (apply map_nth_error; assumption).
    assert (Hds1 : map desc cs1 = ds).
    { unfold cs1. rewrite (map_upd_nth_same _ _ desc c'' _ _ _ Hi1).
      - rewrite map_map. rewrite <- Hds. apply map_ext_in. intros a Ha.
        destruct (isp_rel maxp a (Hgood a Ha)) as ((D & _) & _). exact D.
      - destruct R2 as (D & _). symmetry. exact D. }
    assert (Hgood1 : forall c, In c cs1 -> good c).
    { intros c Hc. apply in_upd_nth in Hc. destruct Hc as [->|Hc].
      - destruct R as (_ & G & _). exact G.
      - apply in_map_iff in Hc. destruct Hc as (a & <- & Ha).
        destruct (isp_rel maxp a (Hgood a Ha)) as ((_ & G & _) & _). exact G. }
    assert (Htot1 : total maxp cs1 < fuel).
    { assert (S (total maxp cs1) = total maxp (map isp cs)).
      { unfold cs1. apply (total_upd maxp c'' _ _ _ Hi1).
        destruct R2 as (_ & _ & _ & P). rewrite P. reflexivity. }
      rewrite total_map_isp in H by assumption. lia. }
    destruct (IH cs1 Hds1 Hgood1 Htot1) as (cs' & ps' & Hd & Hlen & Hall).
    rewrite Hd. exists cs', (p :: ps'). split; [reflexivity|]. split.
    { rewrite Hlen. unfold cs1. rewrite upd_nth_length. apply map_length. }
    intros j c Hj.
    assert (Hinc : In c cs) by (eapply nth_error_In; eassumption).
    destruct (Nat.eq_dec j i) as [->|Hji].
    + rewrite Hi in Hj. inversion Hj; subst c. clear Hj.
      assert (H1 : nth_error cs1 i = Some c'').
      { unfold cs1. apply (nth_error_upd_nth_eq _ (fun _ => c'') _ _ _ Hi1). }
      destruct (Hall _ _ H1) as (cf & Hcf & Dcf & Bcf & Icf & Pcf).
      destruct R as (D & G & B & P).
      exists cf. split; [assumption|]. split; [congruence|]. split; [congruence|].
      split; [assumption|].
      assert (Hcid : cid c'' = cid ci) by (unfold cid; rewrite D; reflexivity).
      assert (Hcid1 : cid (isp ci) = cid ci).
      { unfold cid. destruct R1 as (D1 & _). rewrite D1. reflexivity. }
      rewrite P. rewrite Hpk. rewrite proj_cons_msg_send. rewrite Hcid1.
      rewrite byte_of_int32_of_N.
      * rewrite N.eqb_refl. rewrite <- Hpk. f_equal. rewrite <- Hcid. exact Pcf.
      * apply H256. rewrite <- Hds. apply in_map. assumption.
    + assert (H1 : nth_error cs1 j = Some (isp c)).
      { unfold cs1. rewrite nth_error_upd_nth_neq by assumption. apply map_nth_error. assumption. }
      destruct (Hall _ _ H1) as (cf & Hcf & Dcf & Bcf & Icf & Pcf).
      destruct (isp_rel maxp c (Hgood c Hinc)) as ((D & G & B & P) & _).
      exists cf. split; [assumption|]. split; [congruence|]. split; [congruence|].
      split; [assumption|].
      assert (Hcid : cid (isp c) = cid c) by (unfold cid; rewrite D; reflexivity).
      assert (Hcid1 : cid (isp ci) = cid ci).
      { unfold cid. destruct R1 as (D1 & _). rewrite D1. reflexivity. }
      rewrite P. cbn [app]. rewrite Hpk. rewrite proj_cons_msg_send. rewrite Hcid1.
      rewrite byte_of_int32_of_N by (apply H256; rewrite <- Hds; apply in_map; assumption).
      assert (Hneq : (cid ci =? cid c)%N = false).
      { apply N.eqb_neq. intros Heq. apply Hji.
        assert (Hl : j < length (map ch_id ds)).
        { rewrite map_length. rewrite <- Hds. rewrite map_length.
          apply nth_error_Some. congruence. }
        apply (proj1 (NoDup_nth_error (map ch_id ds)) Hnd j i Hl).
        rewrite <- Hds. rewrite map_map.
        rewrite (map_nth_error (fun x => ch_id (desc x)) _ _ Hj).
        rewrite (map_nth_error (fun x => ch_id (desc x)) _ _ Hi).
        unfold cid in Heq. rewrite Heq. reflexivity. }
      rewrite Hneq. rewrite <- Hcid. exact Pcf.
Qed.
