(** C10 — balances: execution only moves balances between accounts (the sum over all accounts
    never increases: it is conserved except for what SELFDESTRUCT-to-self destroys), no balance
    becomes negative, and an externally owned [origin] (no code, non-zero nonce) keeps its nonce,
    stays without code and is never self-destructed.  Used by ToC09.v. *)
From Coq Require Import List ZArith Bool Lia.
From Kardia Require Import C10.U256 C10.EVM C10.ProofsInv C10.ProofsFrames C10.ProofsStatic Generated.C10Facts.
Import ListNotations.
Local Open Scope Z_scope.

Section Bal.
Variable keccak : list Z -> Z.
Variable blockhash : Z -> Z.
Variable origin : Z.
Variable n0 : Z.
Hypothesis n0_nz : n0 <> 0.
Notation step := (step keccak blockhash).
Notation exec := (exec keccak).

Definition keys (w : world) : list Z := map fst (w_accts w).
Definition bsum (l : list (Z * account)) : Z := fold_right (fun p acc => a_bal (snd p) + acc) 0 l.
Definition T (w : world) : Z := bsum (w_accts w).
Definition acct_good (p : Z * account) : Prop := 0 <= fst p /\ 0 <= a_bal (snd p).
Definition eoa (x : account) : Prop := a_nonce x = n0 /\ a_code x = [] /\ a_dead x = false.
Definition origin_ok (w : world) : Prop := exists x, get_acct w origin = Some x /\ eoa x.
Definition P (w : world) : Prop := NoDup (keys w) /\ Forall acct_good (w_accts w) /\ origin_ok w.

(** * Association lists *)
Definition getdef (k : Z) (l : list (Z * account)) : account :=
  match alist_get k l with Some x => x | None => empty_account end.

Lemma bsum_set : forall k (v : account) (l : list (Z * account)), bsum (alist_set k v l) = bsum l - a_bal (getdef k l) + a_bal v.
Proof.
  intros k v l. unfold getdef. induction l as [|[k0 v0] t IH]; cbn [alist_set alist_get bsum fold_right].
  - cbn. lia.
  - destruct (k =? k0); cbn [bsum fold_right]; [cbn [snd]; lia|]. cbn [snd]. fold (bsum t). fold (bsum (alist_set k v t)). lia.
Qed.
Lemma keys_set_in : forall k (v : account) (l : list (Z * account)) k', In k' (map fst (alist_set k v l)) <-> k' = k \/ In k' (map fst l).
Proof.
  intros k v l k'. induction l as [|[k0 v0] t IH]; cbn [alist_set map In].
  - intuition.
  - destruct (k =? k0) eqn:E; cbn [map In]; cbn [fst].
    + apply Z.eqb_eq in E. subst. intuition.
    + rewrite IH. intuition.
Qed.
Lemma keys_set_nodup : forall k (v : account) (l : list (Z * account)), NoDup (map fst l) -> NoDup (map fst (alist_set k v l)).
Proof.
  intros k v l. induction l as [|[k0 v0] t IH]; cbn [alist_set map]; intros H.
  - constructor; [intros []|constructor].
  - inversion H as [|? ? Hn Ht]; subst. destruct (k =? k0) eqn:E; cbn [map]; cbn [fst] in *.
    + apply Z.eqb_eq in E. subst. constructor; assumption.
    + constructor; [|apply IH; assumption]. rewrite keys_set_in. intros [->|Hin]; [rewrite Z.eqb_refl in E; discriminate|contradiction].
Qed.
Lemma forall_set : forall (Q : Z * account -> Prop) k v l, Forall Q l -> Q (k, v) -> Forall Q (alist_set k v l).
Proof.
  intros Q k v l H Hq. induction l as [|[k0 v0] t IH]; cbn [alist_set].
  - constructor; auto.
  - inversion H; subst. destruct (k =? k0); constructor; auto.
Qed.
Lemma get_in : forall k (l : list (Z * account)) x, alist_get k l = Some x -> In (k, x) l.
Proof.
  intros k l x. induction l as [|[k0 v0] t IH]; cbn [alist_get]; [discriminate|].
  destruct (k =? k0) eqn:E; intros H.
  - apply Z.eqb_eq in E. inversion H; subst. left; reflexivity.
  - right. apply IH. exact H.
Qed.

(** * Worlds *)
Lemma bal_nonneg : forall w a, P w -> 0 <= balance w a.
Proof.
  intros w a [_ [Hg _]]. unfold balance, acct_or_new, get_acct.
  destruct (alist_get a (w_accts w)) as [x|] eqn:E; [|cbn; lia].
  apply get_in in E. rewrite Forall_forall in Hg. apply (Hg _ E).
Qed.
Lemma origin_acct : forall w, P w -> eoa (acct_or_new w origin).
Proof. intros w [_ [_ [x [Hx He]]]]. unfold acct_or_new. rewrite Hx. exact He. Qed.

Lemma set_acct_P : forall w a x, P w -> 0 <= a -> 0 <= a_bal x -> (a = origin -> eoa x) -> P (set_acct w a x).
Proof.
  intros w a x [Hn [Hg Ho]] Ha Hb He. unfold P, keys, set_acct. cbn [w_accts].
  split; [apply keys_set_nodup; exact Hn|]. split; [apply forall_set; [exact Hg|split; assumption]|].
  destruct Ho as [x0 [Hx0 He0]]. unfold origin_ok, get_acct. cbn [w_accts]. rewrite alist_get_set.
  destruct (origin =? a) eqn:E.
  - apply Z.eqb_eq in E. exists x. split; [reflexivity|]. apply He. congruence.
  - exists x0. split; assumption.
Qed.
Lemma set_acct_T : forall w a x, T (set_acct w a x) = T w - a_bal (acct_or_new w a) + a_bal x.
Proof. intros. unfold T, set_acct. cbn [w_accts]. rewrite bsum_set. reflexivity. Qed.

Lemma balance_set : forall w a x b, balance (set_acct w a x) b = if b =? a then a_bal x else balance w b.
Proof. intros. unfold balance. rewrite acct_or_new_set. destruct (b =? a); reflexivity. Qed.

Lemma add_balance_P : forall w a v, P w -> 0 <= a -> 0 <= balance w a + v ->
    P (add_balance w a v) /\ T (add_balance w a v) = T w + v.
Proof.
  intros w a v HP Ha Hv. unfold add_balance. split.
  - apply set_acct_P; auto. intros ->. pose proof (origin_acct w HP) as [H1 [H2 H3]]. repeat split; assumption.
  - rewrite set_acct_T. cbn [with_bal a_bal]. unfold balance. lia.
Qed.
Lemma transfer_P : forall w from to v, P w -> 0 <= from -> 0 <= to -> 0 <= v -> v <= balance w from ->
    P (transfer w from to v) /\ T (transfer w from to v) = T w.
Proof.
  intros w from to v HP Hf Ht Hv Hb. unfold transfer.
  destruct (add_balance_P w from (- v) HP Hf ltac:(lia)) as [P1 T1].
  pose proof (bal_nonneg _ to P1).
  destruct (add_balance_P _ to v P1 Ht ltac:(lia)) as [P2 T2]. split; [exact P2|lia].
Qed.
Lemma same_bal_P : forall w a x, P w -> 0 <= a -> a_bal x = balance w a -> (a = origin -> eoa x) ->
    P (set_acct w a x) /\ T (set_acct w a x) = T w.
Proof.
  intros w a x HP Ha Hb He. split.
  - apply set_acct_P; auto. rewrite Hb. apply bal_nonneg; exact HP.
  - rewrite set_acct_T. unfold balance in Hb. lia.
Qed.
Lemma touch_P : forall w a, P w -> 0 <= a -> P (touch w a) /\ T (touch w a) = T w.
Proof. intros w a HP Ha. unfold touch. apply same_bal_P; auto. intros ->. apply origin_acct; exact HP. Qed.
Lemma sstore_P : forall w a k v, P w -> 0 <= a -> P (sstore w a k v) /\ T (sstore w a k v) = T w.
Proof.
  intros w a k v HP Ha. unfold sstore. apply same_bal_P; auto.
  intros ->. pose proof (origin_acct w HP) as [H1 [H2 H3]]. repeat split; assumption.
Qed.
Lemma set_nonce_P : forall w a n, P w -> 0 <= a -> a <> origin -> P (set_nonce w a n) /\ T (set_nonce w a n) = T w.
Proof. intros w a n HP Ha Hne. unfold set_nonce. apply same_bal_P; auto. congruence. Qed.
Lemma set_code_P : forall w a c, P w -> 0 <= a -> a <> origin -> P (set_code w a c) /\ T (set_code w a c) = T w.
Proof. intros w a c HP Ha Hne. unfold set_code. apply same_bal_P; auto. congruence. Qed.
Lemma create_account_P : forall w a, P w -> 0 <= a -> a <> origin -> P (create_account w a) /\ T (create_account w a) = T w.
Proof. intros w a HP Ha Hne. unfold create_account. apply same_bal_P; auto. congruence. Qed.
Lemma add_log_P : forall w l, P w -> P (add_log w l) /\ T (add_log w l) = T w.
Proof. intros w l HP. split; [exact HP|reflexivity]. Qed.
Lemma suicide_P : forall w a, P w -> 0 <= a -> a <> origin -> P (suicide w a) /\ T (suicide w a) = T w - balance w a.
Proof.
  intros w a HP Ha Hne. unfold suicide, balance, acct_or_new. destruct (get_acct w a) as [x|] eqn:E.
  - split; [apply set_acct_P; auto; [cbn; lia|congruence]|].
    rewrite set_acct_T. unfold acct_or_new. rewrite E. cbn [a_bal]. lia.
  - split; [exact HP|cbn; lia].
Qed.

Lemma origin_exists : forall w, P w -> exists_b w origin = true /\ code_of w origin = [] /\ nonce w origin = n0.
Proof.
  intros w [_ [_ [x [Hx [H1 [H2 H3]]]]]]. unfold exists_b, code_of, nonce, acct_or_new. rewrite Hx. auto.
Qed.
Lemma addr_nonneg : forall z, 0 <= addr_of_word z.
Proof. intros z. unfold addr_of_word. apply Z.mod_pos_bound. reflexivity. Qed.


(** * Starting calls and creations *)
Lemma run_precompile_P : forall t wok ws args g, P wok -> P ws -> T wok = T ws ->
    match run_precompile t wok ws args g with
    | SImmediate _ _ w' _ => P w' /\ T w' = T ws
    | SFrame _ _ => False
    | SUnsupported => True
    end.
Proof.
  intros t wok ws args g H1 H2 HT. unfold run_precompile. destruct (t =? 4); [|exact I].
  match goal with |- context [if ?b then _ else _] => destruct b end; auto.
Qed.

Definition FI (f : frame) : Prop := P (f_snap f) /\ f_self f <> origin /\ 0 <= f_self f.

Lemma start_call_P : forall k d w ps pc pv pst t args g v ro rs,
    P w -> 0 <= ps -> ps <> origin -> 0 <= t ->
    match start_call k d w ps pc pv pst t args g v ro rs with
    | SImmediate _ _ w' _ => P w' /\ T w' = T w
    | SFrame child w' => P w' /\ T w' = T w /\ f_snap child = w /\ f_self child <> origin /\ 0 <= f_self child
    | SUnsupported => True
    end.
Proof.
  intros k d w ps pc pv pst t args g v ro rs HP Hps Hpo Ht. unfold start_call.
  destruct (call_create_depth <? d); [auto|].
  destruct k.
  - (* CALL *)
    destruct ((v <? 0) || (negb (v =? 0) && (balance w ps <? v))) eqn:Ev; [auto|].
    apply orb_false_iff in Ev. destruct Ev as [Ev1 Ev2]. apply Z.ltb_ge in Ev1.
    assert (Hvb : v <= balance w ps).
    { destruct (v =? 0) eqn:E0; [apply Z.eqb_eq in E0; pose proof (bal_nonneg w ps HP); lia|].
      cbn [negb andb] in Ev2. apply Z.ltb_ge in Ev2. exact Ev2. }
    destruct (negb (exists_b w t) && negb (is_precompile t) && (v =? 0)); [auto|].
    set (w1 := if exists_b w t then w else create_account w t).
    assert (H1 : P w1 /\ T w1 = T w /\ balance w1 ps = balance w ps \/ True) by (right; exact I).
    assert (Hw1 : P w1 /\ T w1 = T w /\ v <= balance w1 ps).
    { unfold w1. destruct (exists_b w t) eqn:Hex; [auto|].
      assert (t <> origin) by (intros ->; destruct (origin_exists w HP) as [He _]; congruence).
      destruct (create_account_P w t HP Ht H) as [A B]. split; [exact A|]. split; [exact B|].
      unfold create_account. rewrite balance_set. destruct (ps =? t) eqn:E; [|exact Hvb].
      apply Z.eqb_eq in E. subst. cbn [a_bal]. exact Hvb. }
    destruct Hw1 as [Pw1 [Tw1 Hb1]].
    destruct (transfer_P w1 ps t v Pw1 Hps Ht Ev1 Hb1) as [Pw2 Tw2].
    destruct (is_precompile t).
    { pose proof (run_precompile_P t (transfer w1 ps t v) w args g Pw2 HP ltac:(lia)) as Hr.
      destruct (run_precompile t (transfer w1 ps t v) w args g); auto; try contradiction. }
    destruct (is_nil (code_of (transfer w1 ps t v) t)) eqn:Hc; [split; [exact Pw2|lia]|].
    cbn [new_frame f_snap f_self]. split; [exact Pw2|]. split; [lia|]. split; [reflexivity|]. split; [|exact Ht].
    intros ->. destruct (origin_exists _ Pw2) as [_ [Hcode _]]. rewrite Hcode in Hc. discriminate.
  - (* CALLCODE *)
    destruct ((v <? 0) || (balance w ps <? v)); [auto|].
    destruct (is_precompile t).
    { pose proof (run_precompile_P t w w args g HP HP eq_refl) as Hr. destruct (run_precompile t w w args g); auto; try contradiction. }
    destruct (is_nil (code_of w t)); [auto|]. cbn [new_frame f_snap f_self]. auto.
  - (* DELEGATECALL *)
    destruct (is_precompile t).
    { pose proof (run_precompile_P t w w args g HP HP eq_refl) as Hr. destruct (run_precompile t w w args g); auto; try contradiction. }
    destruct (is_nil (code_of w t)); [auto|]. cbn [new_frame f_snap f_self]. auto.
  - (* STATICCALL *)
    destruct (touch_P w t HP Ht) as [Pt Tt].
    destruct (is_precompile t).
    { pose proof (run_precompile_P t (touch w t) w args g Pt HP Tt) as Hr. destruct (run_precompile t (touch w t) w args g); auto; try contradiction. }
    destruct (is_nil (code_of (touch w t) t)) eqn:Hc; [auto|].
    cbn [new_frame f_snap f_self]. split; [exact Pt|]. split; [exact Tt|]. split; [reflexivity|]. split; [|exact Ht].
    intros ->. destruct (origin_exists _ Pt) as [_ [Hcode _]]. rewrite Hcode in Hc. discriminate.
  - auto.
Qed.

Lemma start_create_P : forall d w ps pst addr init g v,
    P w -> 0 <= ps -> ps <> origin -> 0 <= addr ->
    match start_create d w ps pst addr init g v with
    | SImmediate _ _ w' _ => P w' /\ T w' = T w
    | SFrame child w' => P w' /\ T w' = T w /\ P (f_snap child) /\ T (f_snap child) = T w /\
                         f_self child <> origin /\ 0 <= f_self child
    | SUnsupported => True
    end.
Proof.
  intros d w ps pst addr init g v HP Hps Hpo Ha. unfold start_create.
  destruct (call_create_depth <? d); [auto|].
  destruct ((v <? 0) || (balance w ps <? v)) eqn:Ev; [auto|].
  apply orb_false_iff in Ev. destruct Ev as [Ev1 Ev2]. apply Z.ltb_ge in Ev1. apply Z.ltb_ge in Ev2.
  destruct (set_nonce_P w ps (nonce w ps + 1) HP Hps Hpo) as [P1 T1].
  set (w1 := set_nonce w ps (nonce w ps + 1)) in *.
  destruct (negb (nonce w1 addr =? 0) || negb (is_nil (code_of w1 addr))) eqn:Ec; [auto|].
  apply orb_false_iff in Ec. destruct Ec as [Ec _]. apply negb_false_iff in Ec. apply Z.eqb_eq in Ec.
  assert (Hao : addr <> origin).
  { intros ->. destruct (origin_exists _ P1) as [_ [_ Hn]]. congruence. }
  destruct (create_account_P w1 addr P1 Ha Hao) as [P2 T2].
  destruct (set_nonce_P _ addr 1 P2 Ha Hao) as [P3 T3].
  assert (Hb : v <= balance (set_nonce (create_account w1 addr) addr 1) ps).
  { unfold set_nonce at 1. rewrite balance_set. destruct (ps =? addr) eqn:E.
    - apply Z.eqb_eq in E. subst addr. cbn [with_nonce a_bal]. unfold acct_or_new, create_account at 1.
      unfold get_acct, set_acct. cbn [w_accts]. rewrite alist_get_set. rewrite Z.eqb_refl. cbn [a_bal].
      unfold w1, set_nonce. rewrite balance_set. rewrite Z.eqb_refl. cbn [with_nonce a_bal]. exact Ev2.
    - unfold create_account. rewrite balance_set. rewrite E. unfold w1, set_nonce. rewrite balance_set.
      rewrite Z.eqb_refl. cbn [with_nonce a_bal]. exact Ev2. }
  destruct (transfer_P _ ps addr v P3 Hps Ha Ev1 Hb) as [P4 T4].
  destruct (is_nil init).
  - destruct (set_code_P _ addr [] P4 Ha Hao) as [P5 T5]. split; [exact P5|lia].
  - cbn [new_frame f_snap f_self]. split; [exact P4|]. split; [lia|]. split; [exact P1|]. split; [exact T1|]. auto.
Qed.

(** * The invariant *)
Fixpoint tchain (x : Z) (l : list world) (T0 : Z) : Prop :=
  match l with
  | [] => x <= T0
  | s :: r => x <= T s /\ tchain (T s) r T0
  end.
Lemma tchain_le : forall l x x' T0, x' <= x -> tchain x l T0 -> tchain x' l T0.
Proof. intros l x x' T0 H. destruct l; cbn [tchain]; intros; [lia|]. destruct H0. split; [lia|assumption]. Qed.

Definition INVB (T0 : Z) (c : config) : Prop :=
  P (c_world c) /\ Forall FI (c_frames c) /\ tchain (T (c_world c)) (map f_snap (c_frames c)) T0.

Lemma finish_B : forall T0 o ret f w rest,
    P w -> FI f -> Forall FI rest -> tchain (T w) (map f_snap (f :: rest)) T0 ->
    INVB T0 (finish o ret f w rest).
Proof.
  intros T0 o ret f w rest HP [Psn [Hso Hs0]] Hr Hch. cbn [map tchain] in Hch. destruct Hch as [Hle Hch].
  destruct (settle o ret f w) as [[o1 g1] w1] eqn:Hs.
  assert (Hw1 : P w1 /\ T w1 <= T (f_snap f)).
  { unfold settle in Hs. destruct o.
    - destruct (is_create (f_kind f)).
      + destruct (max_code_size <? Z.of_nat (length ret)); [inversion Hs; subst; split; [exact Psn|lia]|].
        destruct (f_gas f <? Z.of_nat (length ret) * g_create_data); inversion Hs; subst.
        * split; [exact Psn|lia].
        * destruct (set_code_P w (f_self f) ret HP Hs0 Hso) as [A B]. split; [exact A|lia].
      + inversion Hs; subst. auto.
    - inversion Hs; subst. split; [exact Psn|lia].
    - inversion Hs; subst. split; [exact Psn|lia]. }
  destruct Hw1 as [Pw1 Tw1].
  pose proof (finish_world o ret f w rest o1 g1 w1 Hs) as [Hwd _].
  pose proof (finish_frames o ret f w rest o1 g1 w1 Hs) as Hfr.
  unfold INVB. rewrite Hwd. split; [exact Pw1|].
  destruct rest as [|p rest'].
  - destruct Hfr as [Ha _]. rewrite Ha. split; [constructor|]. cbn [map tchain] in *. lia.
  - destruct Hfr as [p' [Ha [Hb _]]]. rewrite Ha. inversion Hr as [|? ? Hp Hr']; subst.
    assert (Hsn : f_snap p' = f_snap p) by (unfold sig in Hb; congruence).
    assert (Hse : f_self p' = f_self p) by (unfold sig in Hb; congruence).
    split.
    + constructor; [|exact Hr']. unfold FI. rewrite Hsn, Hse. exact Hp.
    + cbn [map] in *. rewrite Hsn. apply tchain_le with (x := T (f_snap f)); assumption.
Qed.

Lemma keep_B : forall T0 f f' w w' rest st,
    P w' -> T w' <= T w -> FI f -> f_snap f' = f_snap f -> f_self f' = f_self f -> Forall FI rest ->
    tchain (T w) (map f_snap (f :: rest)) T0 ->
    INVB T0 (mk_config (f' :: rest) w' st).
Proof.
  intros T0 f f' w w' rest st HP HT Hf Hsn Hse Hr Hch. unfold INVB. cbn [c_world c_frames].
  split; [exact HP|]. split.
  - constructor; [|exact Hr]. unfold FI in *. rewrite Hsn, Hse. exact Hf.
  - cbn [map] in *. rewrite Hsn. apply tchain_le with (x := T w); assumption.
Qed.

Lemma balance_add : forall w a v b, balance (add_balance w a v) b = if b =? a then balance w a + v else balance w b.
Proof. intros. unfold add_balance. rewrite balance_set. cbn [with_bal a_bal]. destruct (b =? a); reflexivity. Qed.

Ltac keep_t f w := eapply keep_B with (f := f) (w := w); [assumption|lia|assumption|reflexivity|reflexivity|assumption|assumption].
Ltac fin_t := apply finish_B; [assumption|assumption|assumption|assumption].

Lemma exec_B : forall T0 e i f w rest cg,
    P w -> FI f -> Forall FI rest -> tchain (T w) (map f_snap (f :: rest)) T0 ->
    INVB T0 (exec e i f w rest cg).
Proof.
  intros T0 e i f w rest cg HP Hf Hr Hch. pose proof Hf as [Psn [Hso Hs0]].
  destruct i; cbn [exec]; unfold fail, next;
    try (destruct n as [|m]);
    try solve [repeat match goal with |- context [if ?b then _ else _] => destruct b end;
               first [keep_t f w | apply finish_B; [assumption|exact Hf|assumption|assumption]]].
  - (* SSTORE *)
    match goal with |- context [sstore w ?a ?k ?v] => destruct (sstore_P w a k v HP Hs0) as [A B] end.
    eapply keep_B with (f := f) (w := w); [exact A|lia|exact Hf|reflexivity|reflexivity|assumption|assumption].
  - (* LOG0 *) match goal with |- context [add_log w ?l] => destruct (add_log_P w l HP) as [A B] end.
    eapply keep_B with (f := f) (w := w); [exact A|lia|exact Hf|reflexivity|reflexivity|assumption|assumption].
  - (* LOGn *) match goal with |- context [add_log w ?l] => destruct (add_log_P w l HP) as [A B] end.
    eapply keep_B with (f := f) (w := w); [exact A|lia|exact Hf|reflexivity|reflexivity|assumption|assumption].
  - (* CREATE *)
    match goal with |- context [start_create ?d ?ww ?a ?b ?addr ?c ?g ?v] =>
      pose proof (start_create_P d ww a b addr c g v HP Hs0 Hso (addr_nonneg _)) as Hs;
      destruct (start_create d ww a b addr c g v) as [o gb w' iret|child w'|] end.
    + destruct Hs as [A B]. eapply keep_B with (f := f) (w := w); [exact A|lia|exact Hf|reflexivity|reflexivity|assumption|assumption].
    + destruct Hs as [A [B [C [D [E F]]]]]. unfold INVB. cbn [c_world c_frames map].
      split; [exact A|]. split; [constructor; [split; [exact C|split; assumption]|constructor; [exact Hf|assumption]]|].
      cbn [tchain map] in *. cbn [set_gas set_stack f_snap]. repeat split; try lia; destruct Hch; try lia; assumption.
    + keep_t f w.
  - (* CREATE2 *)
    match goal with |- context [start_create ?d ?ww ?a ?b ?addr ?c ?g ?v] =>
      pose proof (start_create_P d ww a b addr c g v HP Hs0 Hso (addr_nonneg _)) as Hs;
      destruct (start_create d ww a b addr c g v) as [o gb w' iret|child w'|] end.
    + destruct Hs as [A B]. eapply keep_B with (f := f) (w := w); [exact A|lia|exact Hf|reflexivity|reflexivity|assumption|assumption].
    + destruct Hs as [A [B [C [D [E F]]]]]. unfold INVB. cbn [c_world c_frames map].
      split; [exact A|]. split; [constructor; [split; [exact C|split; assumption]|constructor; [exact Hf|assumption]]|].
      cbn [tchain map] in *. cbn [set_gas set_stack f_snap]. repeat split; try lia; destruct Hch; try lia; assumption.
    + keep_t f w.
  - (* CALL family *)
    match goal with |- context [start_call ?k ?d ?ww ?a ?b ?c ?dd ?tt ?ff ?gas ?hh ?ii ?jj] =>
      pose proof (start_call_P k d ww a b c dd tt ff gas hh ii jj HP Hs0 Hso (addr_nonneg _)) as Hs;
      destruct (start_call k d ww a b c dd tt ff gas hh ii jj) as [o gb w' iret|child w'|] end.
    + destruct Hs as [A B]. eapply keep_B with (f := f) (w := w); [exact A|lia|exact Hf|reflexivity|reflexivity|assumption|assumption].
    + destruct Hs as [A [B [C [D E]]]]. unfold INVB. cbn [c_world c_frames map].
      split; [exact A|]. split; [constructor; [split; [rewrite C; exact HP|split; assumption]|constructor; [exact Hf|assumption]]|].
      cbn [tchain map] in *. cbn [set_stack f_snap]. rewrite C. repeat split; try lia; destruct Hch; try lia; assumption.
    + keep_t f w.
  - (* SELFDESTRUCT *)
    set (ben := addr_of_word (a0 (firstn (instr_pops ISelfdestruct) (f_stack f)))).
    pose proof (bal_nonneg w (f_self f) HP) as Hb0.
    pose proof (bal_nonneg w ben HP) as Hb1.
    destruct (add_balance_P w ben (balance w (f_self f)) HP (addr_nonneg _) ltac:(lia)) as [P1 T1].
    destruct (suicide_P _ (f_self f) P1 Hs0 Hso) as [P2 T2].
    apply finish_B; [exact P2|exact Hf|assumption|].
    cbn [map tchain set_stack f_snap] in *. destruct Hch as [H1 H2]. split; [|exact H2].
    rewrite T2, T1. rewrite balance_add. destruct (f_self f =? ben); lia.
Qed.


Lemma step_B : forall T0 e c, INVB T0 c -> INVB T0 (step e c).
Proof.
  intros T0 e c H. destruct (step_cases keccak blockhash e c) as [Heq|[f [rest [Hf Hc]]]]; [rewrite Heq; exact H|].
  destruct H as [HP [HF Hch]]. rewrite Hf in HF, Hch. inversion HF as [|? ? Hff Hfr]; subst.
  destruct Hc as [[er Hs]|[Hs|[op [info [i [f' [cg [Hs [_ [_ [_ [_ [Hsig _]]]]]]]]]]]]].
  - rewrite Hs. unfold fail. apply finish_B; assumption.
  - rewrite Hs. unfold INVB. cbn [c_world c_frames]. auto.
  - rewrite Hs.
    assert (Hsn : f_snap f' = f_snap f) by congruence.
    assert (Hse : f_self f' = f_self f) by congruence.
    apply exec_B; auto.
    + unfold FI in *. rewrite Hsn, Hse. exact Hff.
    + cbn [map] in *. rewrite Hsn. exact Hch.
Qed.

Lemma run_n_B : forall T0 e n c, INVB T0 c -> INVB T0 (run_n keccak blockhash e n c).
Proof. intros T0 e n. induction n as [|n IH]; intros c H; cbn [run_n]; auto. apply IH. apply step_B. exact H. Qed.

(** balances summed over any duplicate-free list of addresses that covers the accounts *)
Definition ksum (g : Z -> Z) (K : list Z) : Z := fold_right (fun a acc => g a + acc) 0 K.

Lemma ksum_replace : forall (g : Z -> Z) k x K, NoDup K -> In k K ->
    ksum (fun a => if a =? k then x else g a) K = ksum g K - g k + x.
Proof.
  intros g k x K Hn. induction K as [|a K IH]; intros Hin; [destruct Hin|].
  inversion Hn as [|? ? Hna HnK]; subst. cbn [ksum fold_right]. fold (ksum g K). fold (ksum (fun a => if a =? k then x else g a) K).
  destruct (a =? k) eqn:E.
  - apply Z.eqb_eq in E. subst a.
    assert (Hsame : ksum (fun a => if a =? k then x else g a) K = ksum g K).
    { clear IH Hin Hn HnK. induction K as [|b K IHK]; [reflexivity|].
      cbn [ksum fold_right]. fold (ksum g K). fold (ksum (fun a => if a =? k then x else g a) K).
      destruct (b =? k) eqn:Eb; [apply Z.eqb_eq in Eb; subst; exfalso; apply Hna; left; reflexivity|].
      rewrite IHK; [reflexivity|]. intros Hc. apply Hna. right. exact Hc. }
    rewrite Hsame. lia.
  - destruct Hin as [->|Hin]; [rewrite Z.eqb_refl in E; discriminate|]. rewrite (IH HnK Hin). lia.
Qed.

Lemma getdef_notin : forall k (l : list (Z * account)), ~ In k (map fst l) -> getdef k l = empty_account.
Proof.
  intros k l. unfold getdef. induction l as [|[k0 v0] t IH]; cbn [alist_get map In]; intros H; [reflexivity|].
  cbn [fst] in H. destruct (k =? k0) eqn:E; [apply Z.eqb_eq in E; subst; exfalso; apply H; left; reflexivity|].
  apply IH. intros Hc. apply H. right. exact Hc.
Qed.

Lemma ksum_bsum : forall (l : list (Z * account)) K, NoDup K -> NoDup (map fst l) -> incl (map fst l) K ->
    ksum (fun a => a_bal (getdef a l)) K = bsum l.
Proof.
  intros l. induction l as [|[k v] t IH]; intros K HK Hl Hincl.
  - cbn [bsum fold_right]. induction K as [|a K IHK]; [reflexivity|]. cbn [ksum fold_right]. fold (ksum (fun a => a_bal (getdef a [])) K).
    inversion HK; subst. rewrite IHK; auto. intros x [].
  - cbn [map fst] in Hl, Hincl. cbn [fst] in Hl, Hincl. inversion Hl as [|? ? Hnk Hlt]; subst.
    assert (Hext : forall a, a_bal (getdef a ((k, v) :: t)) = if a =? k then a_bal v else a_bal (getdef a t)).
    { intros a. unfold getdef. cbn [alist_get]. destruct (a =? k); reflexivity. }
    assert (Heq : ksum (fun a => a_bal (getdef a ((k, v) :: t))) K = ksum (fun a => if a =? k then a_bal v else a_bal (getdef a t)) K).
    { clear -Hext. induction K as [|a K IHK]; [reflexivity|]. cbn [ksum fold_right].
      fold (ksum (fun a => a_bal (getdef a ((k, v) :: t))) K). fold (ksum (fun a => if a =? k then a_bal v else a_bal (getdef a t)) K).
      rewrite Hext, IHK. reflexivity. }
    rewrite Heq. rewrite ksum_replace; [|exact HK|apply Hincl; left; reflexivity].
    rewrite (getdef_notin k t Hnk). rewrite IH; [|exact HK|exact Hlt|intros x Hx; apply Hincl; right; exact Hx].
    cbn [bsum fold_right snd empty_account a_bal]. fold (bsum t). lia.
Qed.

Lemma ksum_T : forall w K, NoDup K -> NoDup (keys w) -> incl (keys w) K -> ksum (balance w) K = T w.
Proof. intros w K HK Hw Hi. unfold T. rewrite <- (ksum_bsum (w_accts w) K HK Hw Hi). reflexivity. Qed.

End Bal.
