(** C10 — static calls: while a static frame is alive, the world stays observationally equal to
    the frame's entry snapshot (same logs; same balance, nonce, code, storage and self-destruct
    mark at every address — only the existence of empty accounts may differ, KVM "touches" them),
    and every state-changing opcode or value-bearing CALL fails the frame. *)
From Coq Require Import List ZArith Bool Lia.
From Kardia Require Import C10.U256 C10.EVM C10.ProofsTables C10.ProofsInv C10.ProofsFrames Generated.C10Facts.
Import ListNotations.
Local Open Scope Z_scope.

Section Static.
Variable keccak : list Z -> Z.
Variable blockhash : Z -> Z.
Notation step := (step keccak blockhash).
Notation exec := (exec keccak).
Notation reachable := (reachable keccak blockhash).

(** observational equality of worlds *)
Definition weqv (w w' : world) : Prop :=
  w_logs w = w_logs w' /\ forall a, acct_or_new w a = acct_or_new w' a.

Lemma weqv_refl : forall w, weqv w w.
Proof. intros; split; auto. Qed.
Lemma weqv_sym : forall w w', weqv w w' -> weqv w' w.
Proof. intros w w' [H1 H2]; split; auto. Qed.
Lemma weqv_trans : forall a b c, weqv a b -> weqv b c -> weqv a c.
Proof. intros a b c [H1 H2] [H3 H4]; split; [congruence|]. intros x. rewrite H2. apply H4. Qed.

Lemma alist_get_set : forall (A : Type) k k' (v : A) l,
    alist_get k' (alist_set k v l) = if k' =? k then Some v else alist_get k' l.
Proof.
  intros A k k' v l. induction l as [|[k0 v0] t IH]; cbn [alist_set alist_get].
  - destruct (k' =? k); reflexivity.
  - destruct (k =? k0) eqn:E.
    + apply Z.eqb_eq in E. subst k0. cbn [alist_get]. destruct (k' =? k); reflexivity.
    + cbn [alist_get]. destruct (k' =? k0) eqn:E2.
      * apply Z.eqb_eq in E2. subst k0. destruct (k' =? k) eqn:E3; [|reflexivity].
        apply Z.eqb_eq in E3. subst k'. rewrite Z.eqb_refl in E. discriminate.
      * exact IH.
Qed.

Lemma acct_or_new_set : forall w a x b,
    acct_or_new (set_acct w a x) b = if b =? a then x else acct_or_new w b.
Proof.
  intros. unfold acct_or_new, get_acct, set_acct. cbn [w_accts]. rewrite alist_get_set.
  destruct (b =? a); reflexivity.
Qed.

Lemma weqv_touch : forall w a, weqv w (touch w a).
Proof.
  intros w a. split; [reflexivity|]. intros b. unfold touch. rewrite acct_or_new_set.
  destruct (b =? a) eqn:E; [|reflexivity]. apply Z.eqb_eq in E. subst. reflexivity.
Qed.
Lemma weqv_add0 : forall w a, weqv w (add_balance w a 0).
Proof.
  intros w a. split; [reflexivity|]. intros b. unfold add_balance. rewrite acct_or_new_set.
  destruct (b =? a) eqn:E; [|reflexivity]. apply Z.eqb_eq in E. subst.
  unfold with_bal. rewrite Z.add_0_r. destruct (acct_or_new w a); reflexivity.
Qed.
Lemma weqv_transfer0 : forall w a b, weqv w (transfer w a b 0).
Proof.
  intros. unfold transfer. cbn [Z.opp]. eapply weqv_trans; [apply (weqv_add0 w a)|apply weqv_add0].
Qed.

(** starting a call from a static frame does not change the world observationally *)
Lemma weqv_create_absent : forall w a, exists_b w a = false -> weqv w (create_account w a).
Proof.
  intros w a H. split; [reflexivity|]. intros b. unfold create_account. rewrite acct_or_new_set.
  destruct (b =? a) eqn:E; [|reflexivity]. apply Z.eqb_eq in E. subst.
  unfold balance, acct_or_new, exists_b in *. destruct (get_acct w a); [discriminate|reflexivity].
Qed.

Lemma run_precompile_static : forall t w w_ok args g,
    weqv w w_ok ->
    match run_precompile t w_ok w args g with
    | SImmediate _ _ w' _ => weqv w w'
    | SFrame _ _ => False
    | SUnsupported => True
    end.
Proof.
  intros t w w_ok args g H. unfold run_precompile. destruct (t =? 4); [|exact I].
  match goal with |- context [if ?b then _ else _] => destruct b end; [apply weqv_refl|exact H].
Qed.

Lemma start_call_static_world : forall k d w ps pc pv t args g v ro rs,
    (k = KCall -> v = 0) ->
    match start_call k d w ps pc pv true t args g v ro rs with
    | SImmediate _ _ w' _ => weqv w w'
    | SFrame child w' => weqv w w' /\ f_static child = true /\ f_kind child = k /\ k <> KCreate /\ f_snap child = w
    | SUnsupported => True
    end.
Proof.
  intros k d w ps pc pv t args g v ro rs Hv. unfold start_call.
  destruct (call_create_depth <? d); [apply weqv_refl|].
  destruct k.
  - rewrite (Hv eq_refl). cbn [Z.eqb Z.ltb Z.compare negb andb orb].
    destruct (is_precompile t) eqn:Hp.
    + rewrite andb_false_r. cbn [andb].
      match goal with |- match run_precompile ?tt ?wok ?ws ?aa ?gg with _ => _ end =>
        pose proof (run_precompile_static tt ws wok aa gg) as Hr;
        destruct (run_precompile tt wok ws aa gg) end; auto.
      * apply Hr. destruct (exists_b w t) eqn:Hex; [apply weqv_transfer0|].
        eapply weqv_trans; [apply weqv_create_absent; exact Hex|apply weqv_transfer0].
      * exfalso. apply Hr. destruct (exists_b w t) eqn:Hex; [apply weqv_transfer0|].
        eapply weqv_trans; [apply weqv_create_absent; exact Hex|apply weqv_transfer0].
    + destruct (exists_b w t) eqn:Hex; cbn [negb andb]; [|apply weqv_refl].
      destruct (is_nil (code_of (transfer w ps t 0) t)).
      * apply weqv_transfer0.
      * repeat split; try apply weqv_transfer0; discriminate.
  - destruct ((v <? 0) || (balance w ps <? v)); [apply weqv_refl|].
    destruct (is_precompile t).
    { pose proof (run_precompile_static t w w args g (weqv_refl w)) as Hr.
      destruct (run_precompile t w w args g); auto. destruct Hr. }
    destruct (is_nil (code_of w t)); [apply weqv_refl|].
    repeat split; try apply weqv_refl; discriminate.
  - destruct (is_precompile t).
    { pose proof (run_precompile_static t w w args g (weqv_refl w)) as Hr.
      destruct (run_precompile t w w args g); auto. destruct Hr. }
    destruct (is_nil (code_of w t)); [apply weqv_refl|].
    repeat split; try apply weqv_refl; discriminate.
  - destruct (is_precompile t).
    { pose proof (run_precompile_static t w (touch w t) args g (weqv_touch w t)) as Hr.
      destruct (run_precompile t (touch w t) w args g); auto. destruct Hr. }
    destruct (is_nil (code_of (touch w t) t)); [apply weqv_touch|].
    repeat split; try apply weqv_touch; discriminate.
  - apply weqv_refl.
Qed.

Lemma start_call_nonstatic : forall k d w ps pc pv t args g v ro rs child w',
    start_call k d w ps pc pv false t args g v ro rs = SFrame child w' ->
    f_kind child = k /\ k <> KCreate /\ f_snap child = w /\ (f_static child = true -> weqv w w').
Proof.
  intros until w'. unfold start_call, run_precompile.
  destruct (call_create_depth <? d); [discriminate|].
  destruct k; repeat match goal with
    | |- context [if ?b then _ else _] => destruct b
    end; intros H; inversion H; subst; cbn [new_frame f_kind f_snap f_static];
    repeat split; try discriminate; try (intros; apply weqv_touch).
Qed.
Lemma start_create_kind : forall d w ps pst a init g v child w',
    start_create d w ps pst a init g v = SFrame child w' -> f_kind child = KCreate /\ f_static child = pst.
Proof.
  intros until w'. unfold start_create.
  repeat match goal with
    | |- context [if ?b then _ else _] => destruct b
    end; intros H; inversion H; subst; split; reflexivity.
Qed.

(** * The invariant, on the immutable entry data of the frames *)
Definition sgn := (kind * Z * bool * world)%type.
Definition skind (s : sgn) : kind := fst (fst (fst s)).
Definition sstat (s : sgn) : bool := snd (fst s).
Definition ssnap (s : sgn) : world := snd s.

Fixpoint chainL (l : list sgn) : Prop :=
  match l with
  | [] => True
  | s :: rest => ((exists s', In s' rest /\ sstat s' = true) -> sstat s = true) /\ chainL rest
  end.
Definition SIL (l : list sgn) (w : world) : Prop :=
  chainL l /\ (forall s, In s l -> skind s = KCreate -> sstat s = false) /\
  (forall s, In s l -> sstat s = true -> weqv (ssnap s) w).

Lemma SIL_weqv : forall l w w', SIL l w -> weqv w w' -> SIL l w'.
Proof.
  intros l w w' [H1 [H2 H3]] Hw. split; [exact H1|]. split; [exact H2|].
  intros s Hin Hs. eapply weqv_trans; [apply H3; assumption|exact Hw].
Qed.
Lemma chain_nostatic : forall s rest, chainL (s :: rest) -> sstat s = false -> forall s', In s' rest -> sstat s' = false.
Proof.
  intros s rest [H _] Hs s' Hin. destruct (sstat s') eqn:E; [|reflexivity].
  rewrite H in Hs; [discriminate|]. exists s'. auto.
Qed.
Lemma SIL_nostatic : forall s rest w w', SIL (s :: rest) w -> sstat s = false -> SIL (s :: rest) w'.
Proof.
  intros s rest w w' [H1 [H2 H3]] Hs. split; [exact H1|]. split; [exact H2|].
  intros s' [<-|Hin] Hst; [congruence|].
  rewrite (chain_nostatic s rest H1 Hs s' Hin) in Hst. discriminate.
Qed.
Lemma SIL_tail : forall s rest w, SIL (s :: rest) w -> SIL rest w.
Proof.
  intros s rest w [[_ H1] [H2 H3]]. split; [exact H1|]. split; intros; [apply H2|apply H3]; cbn; auto.
Qed.

Lemma sig_parts : forall p, skind (sig p) = f_kind p /\ sstat (sig p) = f_static p /\ ssnap (sig p) = f_snap p.
Proof. intros; repeat split. Qed.

(** ending the top frame *)
Lemma finish_SI : forall o ret f f' w w' rest,
    SIL (map sig (f :: rest)) w -> sig f' = sig f ->
    (f_static f = true -> weqv w w') ->
    SIL (map sig (c_frames (finish o ret f' w' rest))) (c_world (finish o ret f' w' rest)).
Proof.
  intros o ret f f' w w' rest HS Hsig Hw.
  destruct (settle o ret f' w') as [[o1 g1] w1] eqn:Hs.
  pose proof (finish_world o ret f' w' rest o1 g1 w1 Hs) as [Hwd Hsn].
  pose proof (finish_frames o ret f' w' rest o1 g1 w1 Hs) as Hfr.
  assert (Hk : f_kind f' = f_kind f) by (unfold sig in Hsig; congruence).
  assert (Hsnap : f_snap f' = f_snap f) by (unfold sig in Hsig; congruence).
  rewrite Hwd.
  assert (Hrest : SIL (map sig rest) w1).
  { clear Hfr Hwd Hsn. cbn [map] in HS. destruct (f_static f) eqn:Hst.
    - (* static: w1 is observationally the old world *)
      apply SIL_weqv with (w := w); [apply (SIL_tail _ _ _ HS)|].
      destruct HS as [_ [Hnc Hsn']].
      assert (Hkf : f_kind f <> KCreate).
      { intros Hc. specialize (Hnc (sig f) (or_introl eq_refl)). cbn in Hnc. rewrite Hst in Hnc. specialize (Hnc Hc). discriminate. }
      assert (Hfs : weqv (f_snap f) w) by (apply (Hsn' (sig f) (or_introl eq_refl)); exact Hst).
      unfold settle in Hs. destruct o.
      + destruct (is_create (f_kind f')) eqn:Hc.
        * exfalso. rewrite Hk in Hc. destruct (f_kind f); try discriminate. apply Hkf; reflexivity.
        * inversion Hs; subst. apply Hw; reflexivity.
      + inversion Hs; subst. rewrite Hsnap. apply weqv_sym; exact Hfs.
      + inversion Hs; subst. rewrite Hsnap. apply weqv_sym; exact Hfs.
    - destruct rest as [|p rest']; [split; [exact I|split; intros ? []]|].
      cbn [map]. apply SIL_nostatic with (w := w).
      + apply (SIL_tail _ _ _ HS).
      + destruct HS as [Hc _]. apply (chain_nostatic _ _ Hc Hst). cbn. auto. }
  destruct rest as [|p rest'].
  - destruct Hfr as [Ha _]. rewrite Ha. exact Hrest.
  - destruct Hfr as [p' [Ha [Hb _]]]. rewrite Ha. cbn [map] in *. rewrite Hb. exact Hrest.
Qed.

Lemma SIL_same_top : forall f f' rest w, sig f' = sig f -> SIL (map sig (f :: rest)) w -> SIL (map sig (f' :: rest)) w.
Proof. intros. cbn [map] in *. rewrite H. assumption. Qed.

(** entering a frame *)
Lemma push_SI : forall child f f' rest w w',
    SIL (map sig (f :: rest)) w -> sig f' = sig f ->
    (f_static f = true -> weqv w w' /\ f_static child = true) ->
    (f_static child = true -> weqv (f_snap child) w') ->
    (f_kind child = KCreate -> f_static child = false) ->
    SIL (map sig (child :: f' :: rest)) w'.
Proof.
  intros child f f' rest w w' HS Hsig Hst Hch Hkc.
  assert (HS' : SIL (map sig (f' :: rest)) w').
  { apply SIL_same_top with (f := f); auto. destruct (f_static f) eqn:E.
    - apply SIL_weqv with (w := w); auto. apply Hst; reflexivity.
    - cbn [map]. apply SIL_nostatic with (w := w); auto. }
  cbn [map] in *. destruct HS' as [H1 [H2 H3]]. split; [|split].
  - split; [|exact H1]. intros [s' [Hin Hs']]. cbn. 
    destruct (f_static f) eqn:E; [apply Hst; reflexivity|].
    exfalso. rewrite Hsig in Hin. destruct Hin as [<-|Hin].
    + cbn in Hs'. congruence.
    + destruct HS as [Hc _]. rewrite (chain_nostatic _ _ Hc E s' Hin) in Hs'. discriminate.
  - intros s [<-|Hin]; [cbn; exact Hkc|apply H2; exact Hin].
  - intros s [<-|Hin]; [cbn; exact Hch|apply H3; exact Hin].
Qed.


Ltac same_t f := cbn [c_frames c_world]; apply SIL_same_top with (f := f); [reflexivity | assumption].
Ltac fin_t f w := apply finish_SI with (f := f) (w := w); [assumption | reflexivity | intros; apply weqv_refl].

Lemma exec_SI : forall e i f w rest cg,
    SIL (map sig (f :: rest)) w ->
    (f_static f = true -> instr_writes i = false /\ (i = ICallOp KCall -> a2 (firstn 7 (f_stack f)) = 0)) ->
    SIL (map sig (c_frames (exec e i f w rest cg))) (c_world (exec e i f w rest cg)).
Proof.
  intros e i f w rest cg HS Hst.
  assert (Hns : instr_writes i = true -> f_static f = false).
  { intros Hw. destruct (f_static f); [|reflexivity]. destruct (Hst eq_refl) as [H _]. congruence. }
  assert (Hany : instr_writes i = true -> forall f'' w', sig f'' = sig f -> SIL (map sig (f'' :: rest)) w').
  { intros Hw f'' w' Hsig. apply SIL_same_top with (f := f); auto. cbn [map].
    apply SIL_nostatic with (w := w); auto. }
  destruct i; cbn [exec]; unfold fail, next;
    try (destruct n as [|m]);
    try solve [repeat match goal with |- context [if ?b then _ else _] => destruct b end;
               first [same_t f | fin_t f w]].
  - (* SSTORE *) cbn [c_frames c_world]. apply Hany; reflexivity.
  - (* LOG0 *) cbn [c_frames c_world]. apply Hany; reflexivity.
  - (* LOGn *) cbn [c_frames c_world]. apply Hany; reflexivity.
  - (* CREATE *)
    specialize (Hns eq_refl).
    match goal with |- context [start_create ?d ?ww ?a ?b ?c ?dd ?ee ?ff] =>
      destruct (start_create d ww a b c dd ee ff) as [o gb w' iret|child w'|] eqn:Hs end.
    + cbn [c_frames c_world]. apply Hany; reflexivity.
    + cbn [c_frames c_world]. apply start_create_kind in Hs. destruct Hs as [Hk Hcs]. rewrite Hns in Hcs.
      eapply push_SI with (f := f) (w := w);
        [exact HS | reflexivity | intros; congruence | intros; congruence | intros; congruence].
    + cbn [c_frames c_world]. apply Hany; reflexivity.
  - (* CREATE2 *)
    specialize (Hns eq_refl).
    match goal with |- context [start_create ?d ?ww ?a ?b ?c ?dd ?ee ?ff] =>
      destruct (start_create d ww a b c dd ee ff) as [o gb w' iret|child w'|] eqn:Hs end.
    + cbn [c_frames c_world]. apply Hany; reflexivity.
    + cbn [c_frames c_world]. apply start_create_kind in Hs. destruct Hs as [Hk Hcs]. rewrite Hns in Hcs.
      eapply push_SI with (f := f) (w := w);
        [exact HS | reflexivity | intros; congruence | intros; congruence | intros; congruence].
    + cbn [c_frames c_world]. apply Hany; reflexivity.
  - (* CALL family *)
    destruct (f_static f) eqn:E.
    + destruct (Hst eq_refl) as [_ Hv].
      match goal with |- context [start_call ?k ?d ?ww ?a ?b ?c true ?ee ?ff ?gg ?hh ?ii ?jj] =>
        pose proof (start_call_static_world k d ww a b c ee ff gg hh ii jj) as Hw;
        destruct (start_call k d ww a b c true ee ff gg hh ii jj) as [o gb w' iret|child w'|] end.
      * cbn [c_frames c_world]. apply SIL_weqv with (w := w).
        -- apply SIL_same_top with (f := f); [reflexivity|assumption].
        -- apply Hw. intros ->. cbn [instr_pops]. apply Hv. reflexivity.
      * cbn [c_frames c_world].
        assert (Hw' : weqv w w' /\ f_static child = true /\ f_kind child = k /\ k <> KCreate /\ f_snap child = w).
        { apply Hw. intros ->. cbn [instr_pops]. apply Hv. reflexivity. }
        destruct Hw' as [H1 [H2 [H3 [H4 H5]]]].
        eapply push_SI with (f := f) (w := w);
          [exact HS | reflexivity | intros _; split; assumption | intros _; rewrite H5; exact H1 | intros Hk; congruence].
      * cbn [c_frames c_world]. apply SIL_same_top with (f := f); [reflexivity|assumption].
    + match goal with |- context [start_call ?k ?d ?ww ?a ?b ?c false ?ee ?ff ?gg ?hh ?ii ?jj] =>
        destruct (start_call k d ww a b c false ee ff gg hh ii jj) as [o gb w' iret|child w'|] eqn:Hs end.
      * cbn [c_frames c_world]. apply SIL_same_top with (f := f); [reflexivity|].
        cbn [map]. apply SIL_nostatic with (w := w); auto.
      * cbn [c_frames c_world]. apply start_call_nonstatic in Hs. destruct Hs as [H1 [H2 [H3 H4]]].
        eapply push_SI with (f := f) (w := w);
          [exact HS | reflexivity | intros; congruence | intros Hc; rewrite H3; apply H4; exact Hc | intros; congruence].
      * cbn [c_frames c_world]. apply SIL_same_top with (f := f); [reflexivity|assumption].
  - (* SELFDESTRUCT *)
    apply finish_SI with (f := f) (w := w); [assumption|reflexivity|].
    intros Hs. rewrite (Hns eq_refl) in Hs. discriminate.
Qed.


Definition SI (c : config) : Prop := SIL (map sig (c_frames c)) (c_world c).

Definition call_decode_ok (op : Z) : bool :=
  match decode keccak blockhash op with
  | Some (ICallOp KCall) => op =? 241
  | _ => true
  end.
Lemma call_decode_all : forallb call_decode_ok all_ops = true.
Proof. vm_compute. reflexivity. Qed.
Lemma decode_call_241 : forall e op info, op_info e op = Some info ->
    decode keccak blockhash op = Some (ICallOp KCall) -> op = 241.
Proof.
  intros e op info Hinfo Hdec. unfold op_info in Hinfo.
  destruct ((0 <=? op) && (op <? 256)) eqn:Hr; [|discriminate].
  apply andb_true_iff in Hr. destruct Hr as [H0 H1].
  pose proof call_decode_all as Hall. rewrite forallb_forall in Hall.
  specialize (Hall op (in_all_ops op ltac:(lia))). unfold call_decode_ok in Hall. rewrite Hdec in Hall.
  apply Z.eqb_eq in Hall. exact Hall.
Qed.

Lemma nth2_firstn7 : forall l : list Z, a2 (firstn 7 l) = nth 2 l 0.
Proof. intros l. destruct l as [|a [|b [|c l]]]; reflexivity. Qed.

Lemma step_SI : forall e c, SI c -> SI (step e c).
Proof.
  intros e c H. destruct (step_cases keccak blockhash e c) as [Heq|[f [rest [Hf Hc]]]]; [rewrite Heq; exact H|].
  unfold SI in *. rewrite Hf in H.
  destruct Hc as [[er Hs]|[Hs|[op [info [i [f' [cg [Hs [Hop [Hinfo [Hdec [Hstk [Hsig [Hb Hst]]]]]]]]]]]]]].
  - rewrite Hs. unfold fail. apply finish_SI with (f := f) (w := c_world c); [assumption|reflexivity|intros; apply weqv_refl].
  - rewrite Hs. cbn [c_frames c_world]. exact H.
  - rewrite Hs.
    assert (Hsig' : sig f' = sig f) by exact Hsig.
    assert (Hstat : f_static f' = f_static f) by (unfold sig in Hsig'; congruence).
    apply exec_SI.
    + cbn [map] in *. rewrite Hsig'. exact H.
    + rewrite Hstat. intros Hs'. destruct (Hst Hs') as [Hw H241].
      pose proof (slot_facts_of keccak blockhash e op info i Hinfo Hdec) as SF. destruct SF.
      split; [congruence|].
      intros ->. rewrite nth2_firstn7. rewrite Hstk. apply H241.
      apply (decode_call_241 e op info Hinfo Hdec).
Qed.

Lemma SIL_nil : forall w, SIL [] w.
Proof. intros w. split; [exact I|]. split; intros s []. Qed.

Lemma init_call_SI : forall e w t input g v, SI (init_call e w t input g v).
Proof.
  intros. unfold init_call, SI.
  destruct (start_call KCall 0 w (e_origin e) (e_origin e) 0 false t input g v 0 0) as [o gb w' iret|child w'|] eqn:Hs.
  - destruct o; cbn [c_frames c_world map]; apply SIL_nil.
  - apply start_call_nonstatic in Hs. destruct Hs as [H1 [H2 [H3 H4]]].
    cbn [c_frames c_world map]. split; [|split].
    + cbn. split; auto. intros [s' [[] _]].
    + intros s [<-|[]]. cbn. intros; congruence.
    + intros s [<-|[]]. cbn. intros Hc. rewrite H3. apply H4; exact Hc.
  - cbn [c_frames c_world map]; apply SIL_nil.
Qed.
Lemma init_create_SI : forall e w init g v, SI (init_create keccak e w init g v).
Proof.
  intros. unfold init_create, SI.
  match goal with |- context [start_create ?d ?ww ?a ?b ?cc ?dd ?ee ?ff] =>
    destruct (start_create d ww a b cc dd ee ff) as [o gb w' iret|child w'|] eqn:Hs end.
  - cbn [c_frames c_world map]; apply SIL_nil.
  - apply start_create_kind in Hs. destruct Hs as [H1 H2].
    cbn [c_frames c_world map]. split; [|split].
    + cbn. split; auto. intros [s' [[] _]].
    + intros s [<-|[]]. cbn. intros; congruence.
    + intros s [<-|[]]. cbn. intros; congruence.
  - cbn [c_frames c_world map]; apply SIL_nil.
Qed.

Lemma reachable_SI : forall e c, reachable e c -> SI c.
Proof.
  intros e c H. induction H.
  - apply init_call_SI.
  - apply init_create_SI.
  - apply step_SI; assumption.
Qed.

(** Main statement 1: in every reachable configuration the world is observationally equal to the
    entry snapshot of every live static frame; frames entered from a static frame are static;
    no creation frame is static *)
Lemma static_no_write : forall e c p,
    reachable e c -> In p (c_frames c) -> f_static p = true ->
    weqv (f_snap p) (c_world c) /\ f_kind p <> KCreate.
Proof.
  intros e c p Hr Hin Hs. destruct (reachable_SI e c Hr) as [_ [Hnc Hsn]].
  assert (Hin' : In (sig p) (map sig (c_frames c))) by (apply in_map; exact Hin).
  split.
  - apply (Hsn (sig p) Hin'). exact Hs.
  - intros Hk. specialize (Hnc (sig p) Hin' Hk). cbn in Hnc. congruence.
Qed.

(** Main statement 2: in a static frame, an opcode flagged [writes] in the real table, or a CALL
    with a non-zero value, ends the frame with an error (and, by [failed_frame_no_change], the
    world goes back to the frame's snapshot) *)
Lemma static_write_fails : forall e c f rest info,
    c_status c = Running -> c_frames c = f :: rest -> f_static f = true ->
    op_info e (cur_op f) = Some info ->
    (oi_writes info = true \/ (cur_op f = 241 /\ sk (f_stack f) 2 <> 0)) ->
    (exists er, step e c = fail er f (c_world c) rest) \/ step e c = mk_config (f :: rest) (c_world c) Unsupported.
Proof.
  intros e c f rest info Hrun Hf Hs Hinfo Hw. unfold EVM.step. rewrite Hrun, Hf, Hinfo.
  destruct (decode keccak blockhash (cur_op f)) as [i|]; [|right; reflexivity]. left.
  destruct (Z.of_nat (length (f_stack f)) <? oi_min info); [eexists; reflexivity|].
  destruct (oi_max info <? Z.of_nat (length (f_stack f))); [eexists; reflexivity|].
  assert (Hc : f_static f && (oi_writes info || (cur_op f =? 241) && negb (sk (f_stack f) 2 =? 0)) = true).
  { rewrite Hs. cbn [andb]. destruct Hw as [Hw|[H1 H2]].
    - rewrite Hw. reflexivity.
    - rewrite H1. apply orb_true_iff. right. cbn. apply negb_true_iff. apply Z.eqb_neq. exact H2. }
  rewrite Hc. exists EStatic. reflexivity.
Qed.

(** every model instruction that changes storage, logs, balances, code or the account set is
    flagged [writes] in the generated table *)
Lemma model_writes_flagged : forall e op info i,
    op_info e op = Some info -> decode keccak blockhash op = Some i -> instr_writes i = true -> oi_writes info = true.
Proof.
  intros e op info i Hinfo Hdec Hw. destruct (slot_facts_of keccak blockhash e op info i Hinfo Hdec). congruence.
Qed.

End Static.
