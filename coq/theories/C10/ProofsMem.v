(** C10 — memory is word-granular: in every reachable configuration the memory of every frame has
    a length that is a multiple of 32 bytes, and every memory write of an instruction (or of a
    returning callee) lands inside the memory that was paid for and resized before it. *)
From Coq Require Import List ZArith Bool Lia.
From Kardia Require Import C10.U256 C10.EVM C10.ProofsArith C10.ProofsTables C10.ProofsInv C10.ProofsGas Generated.C10Facts.
Import ListNotations.
Local Open Scope Z_scope.
Ltac Zify.zify_post_hook ::= Z.div_mod_to_equations.

Section Mem.
Variable keccak : list Z -> Z.
Variable blockhash : Z -> Z.
Notation step := (step keccak blockhash).
Notation exec := (exec keccak).

Definition mlen (f : frame) : Z := Z.of_nat (length (f_mem f)).
Definition wg (f : frame) : Prop := mlen f mod 32 = 0.
(** the callee's return range lies inside the caller's memory *)
Definition ret_in (child parent : frame) : Prop :=
  f_retsize child <= 0 \/ (0 <= f_retoff child /\ f_retoff child + f_retsize child <= mlen parent).
Fixpoint linked (l : list frame) : Prop :=
  match l with
  | c :: ((p :: _) as r) => ret_in c p /\ linked r
  | _ => True
  end.
Definition MW (c : config) : Prop := Forall wg (c_frames c) /\ linked (c_frames c).

Lemma mem_write_len : forall m off bytes,
    (Z.to_nat off + length bytes <= length m)%nat -> length (mem_write m off bytes) = length m.
Proof.
  intros m off bytes H. unfold mem_write. destruct bytes as [|b t]; [reflexivity|].
  rewrite !app_length, firstn_length, skipn_length. lia.
Qed.
Lemma mem_write_nil : forall m off, mem_write m off [] = m.
Proof. reflexivity. Qed.

Lemma mem_need_spec : forall off len n, mem_need off len = Some n ->
    (len = 0 /\ n = 0) \/ (0 <= off /\ 0 < len /\ n = off + len).
Proof.
  intros off len n H. unfold mem_need in H.
  destruct ((len <? 0) || (U64 <=? len)) eqn:E1; [discriminate|].
  apply orb_false_iff in E1. destruct E1 as [E1 _]. apply Z.ltb_ge in E1.
  destruct (len =? 0) eqn:E0; [apply Z.eqb_eq in E0; inversion H; auto|]. apply Z.eqb_neq in E0.
  destruct ((off <? 0) || (U64 <=? off)) eqn:E2; [discriminate|].
  apply orb_false_iff in E2. destruct E2 as [E2 _]. apply Z.ltb_ge in E2.
  destruct (U64 <=? off + len); [discriminate|]. inversion H. right. lia.
Qed.
Lemma round_mem_spec : forall n msz, round_mem n = Some msz -> msz mod 32 = 0 /\ n <= msz.
Proof.
  intros n msz H. unfold round_mem in H. destruct (U64 <=? (n + 31) / 32 * 32); [discriminate|].
  inversion H. split; lia.
Qed.
Lemma mem_resize_mlen : forall m size, Z.of_nat (length (mem_resize m size)) = Z.max (Z.of_nat (length m)) size.
Proof.
  intros m size. unfold mem_resize. destruct (Z.of_nat (length m) <? size) eqn:E.
  - apply Z.ltb_lt in E. rewrite app_length, repeat_length. lia.
  - apply Z.ltb_ge in E. lia.
Qed.

(** what [step] guarantees about the frame it hands to [exec]: memory covers the instruction's need *)
Definition covered (op : Z) (i : instr) (f : frame) : Prop :=
  match instr_mem op i (f_stack f) with
  | Some (Some need) => need <= mlen f
  | Some None => False
  | None => True
  end.

(** stack accessors used by [exec] versus [sk] used by the memory-size functions *)
Lemma sk_firstn : forall (s : list Z) n k, (k < n)%nat -> nth k (firstn n s) 0 = sk s k.
Proof.
  intros s n. revert s. induction n as [|n IH]; intros s k Hk; [lia|].
  destruct s as [|x s]; [destruct k; reflexivity|]. destruct k as [|k]; [reflexivity|].
  cbn [firstn nth]. unfold sk. cbn [nth]. apply IH. lia.
Qed.
Lemma sk_skip_firstn : forall (s : list Z) n d k, (d + k < n)%nat -> nth k (skipn d (firstn n s)) 0 = sk s (d + k).
Proof.
  intros s n d. revert s n. induction d as [|d IH]; intros s n k Hk.
  - cbn [skipn Nat.add]. apply sk_firstn. lia.
  - destruct n as [|n]; [lia|]. destruct s as [|x s].
    + cbn [firstn skipn]. destruct k; reflexivity.
    + cbn [firstn skipn Nat.add]. unfold sk. cbn [nth]. apply IH. lia.
Qed.

Lemma wg_same : forall f f', wg f -> length (f_mem f') = length (f_mem f) -> wg f'.
Proof. intros f f' H Hl. unfold wg, mlen in *. rewrite Hl. exact H. Qed.

Lemma finish_MW : forall o ret f w rest, Forall wg rest -> linked (f :: rest) -> MW (finish o ret f w rest).
Proof.
  intros o ret f w rest Hr Hl. unfold finish. destruct (settle o ret f w) as [[o1 g1] w1].
  destruct rest as [|p rest']; [split; [constructor|exact I]|].
  inversion Hr as [|? ? Hp Hr']; subst. cbn [linked] in Hl. destruct Hl as [Hri Hl].
  destruct (is_create (f_kind f)).
  - split; cbn [c_frames].
    + constructor; [apply (wg_same p); [exact Hp|reflexivity]|exact Hr'].
    + destruct rest' as [|q r]; [exact I|]. cbn [linked] in *. exact Hl.
  - assert (Hlen : length (f_mem (resume_call p (if is_ok o1 then 1 else 0) match o1 with OErr _ => false | _ => true end
                                                ret g1 (f_retoff f) (f_retsize f))) = length (f_mem p)).
    { cbn [resume_call f_mem]. destruct (match o1 with OErr _ => false | _ => true end); [|reflexivity].
      destruct (Z_le_gt_dec (f_retsize f) 0) as [Hz|Hs].
      - replace (Z.to_nat (f_retsize f)) with 0%nat by lia. cbn [firstn]. reflexivity.
      - destruct Hri as [Hz|[H0 Hb]]; [lia|].
        apply mem_write_len. rewrite firstn_length. unfold mlen in Hb.
        pose proof (Nat.le_min_l (Z.to_nat (f_retsize f)) (length ret)) as Hmin.
        assert (Ho : Z.of_nat (Z.to_nat (f_retoff f)) = f_retoff f) by (apply Z2Nat.id; lia).
        assert (Hsz : Z.of_nat (Z.to_nat (f_retsize f)) = f_retsize f) by (apply Z2Nat.id; lia).
        apply Nat2Z.inj_le. rewrite Nat2Z.inj_add. apply Nat2Z.inj_le in Hmin. lia. }
    split; cbn [c_frames].
    + constructor; [apply (wg_same p); [exact Hp|exact Hlen]|exact Hr'].
    + destruct rest' as [|q r]; [exact I|]. cbn [linked] in *. exact Hl.
Qed.


Lemma pad_right_length : forall n l, length (pad_right n l) = n.
Proof. induction n as [|n IH]; intros l; cbn [pad_right]; [reflexivity|]. destruct l; cbn [length]; rewrite IH; reflexivity. Qed.
Lemma slice_pad_length : forall d st sz, length (slice_pad d st sz) = Z.to_nat sz.
Proof. intros. unfold slice_pad. apply pad_right_length. Qed.

Lemma write_ok : forall m off size bytes, length bytes = Z.to_nat size ->
    (size = 0 \/ (0 <= off /\ 0 < size /\ off + size <= Z.of_nat (length m))) ->
    length (mem_write m off bytes) = length m.
Proof.
  intros m off size bytes Hl [H0|[Ho [Hs Hb]]].
  - subst size. destruct bytes; [reflexivity|discriminate].
  - apply mem_write_len. rewrite Hl.
    assert (Z.of_nat (Z.to_nat off) = off) by (apply Z2Nat.id; lia).
    assert (Z.of_nat (Z.to_nat size) = size) by (apply Z2Nat.id; lia).
    apply Nat2Z.inj_le. rewrite Nat2Z.inj_add. lia.
Qed.

Lemma need_range : forall off len n (m : list Z), mem_need off len = Some n -> n <= Z.of_nat (length m) ->
    len = 0 \/ (0 <= off /\ 0 < len /\ off + len <= Z.of_nat (length m)).
Proof. intros off len n m H Hn. destruct (mem_need_spec off len n H) as [[A B]|[A [B C]]]; [left; exact A|right; lia]. Qed.

Lemma resume_len : forall p fl vis ret g ro rs,
    (rs <= 0 \/ (0 <= ro /\ ro + rs <= mlen p)) ->
    length (f_mem (resume_call p fl vis ret g ro rs)) = length (f_mem p).
Proof.
  intros p fl vis ret g ro rs H. cbn [resume_call f_mem]. destruct vis; [|reflexivity].
  destruct (Z_le_gt_dec rs 0) as [Hz|Hs].
  - replace (Z.to_nat rs) with 0%nat by lia. cbn [firstn]. reflexivity.
  - destruct H as [Hz|[H0 Hb]]; [lia|].
    apply mem_write_len. rewrite firstn_length. unfold mlen in Hb.
    pose proof (Nat.le_min_l (Z.to_nat rs) (length ret)) as Hmin.
    assert (Ho : Z.of_nat (Z.to_nat ro) = ro) by (apply Z2Nat.id; lia).
    assert (Hsz : Z.of_nat (Z.to_nat rs) = rs) by (apply Z2Nat.id; lia).
    apply Nat2Z.inj_le. rewrite Nat2Z.inj_add. apply Nat2Z.inj_le in Hmin. lia.
Qed.

Lemma mem_need2_spec : forall o1 l1 o2 l2 n, mem_need2 o1 l1 o2 l2 = Some n ->
    exists x y, mem_need o1 l1 = Some x /\ mem_need o2 l2 = Some y /\ x <= n /\ y <= n.
Proof.
  intros o1 l1 o2 l2 n H. unfold mem_need2 in H.
  destruct (mem_need o1 l1) as [x|]; [|discriminate]. destruct (mem_need o2 l2) as [y|]; [|discriminate].
  inversion H. exists x, y. repeat split; lia.
Qed.

Lemma started_call_ret : forall k d w ps pc pv pst t args g v ro rs child w',
    start_call k d w ps pc pv pst t args g v ro rs = SFrame child w' ->
    f_retoff child = ro /\ f_retsize child = rs /\ f_mem child = [].
Proof.
  intros until w'. unfold start_call, run_precompile.
  destruct (call_create_depth <? d); [discriminate|].
  destruct k; repeat match goal with
    | |- context [if ?b then _ else _] => destruct b
    end; intros H; inversion H; subst; auto.
Qed.
Lemma started_create_ret : forall d w ps pst a init g v child w',
    start_create d w ps pst a init g v = SFrame child w' ->
    f_retsize child = 0 /\ f_mem child = [].
Proof.
  intros until w'. unfold start_create.
  repeat match goal with
    | |- context [if ?b then _ else _] => destruct b
    end; intros H; inversion H; subst; auto.
Qed.

Lemma wg_nil : forall c, f_mem c = [] -> wg c.
Proof. intros c H. unfold wg, mlen. rewrite H. reflexivity. Qed.

Ltac same_len f rest Hl := split; [cbn [c_frames]; constructor; [apply (wg_same f); [assumption|reflexivity]|assumption]
                          |cbn [c_frames]; destruct rest as [|p0 r0]; [exact I|exact Hl]].

Lemma exec_MW : forall e op i f w rest cg,
    wg f -> covered op i f -> Forall wg rest -> linked (f :: rest) -> MW (exec e i f w rest cg).
Proof.
  intros e op i f w rest cg Hw Hcov Hr Hl. unfold covered in Hcov.
  destruct i; cbn [exec]; unfold fail, next;
    try (destruct n as [|m]);
    try solve [repeat match goal with |- context [if ?b then _ else _] => destruct b end;
               first [ same_len f rest Hl | apply finish_MW; assumption ]].
  - (* MSTORE *)
    cbn [instr_mem] in Hcov. destruct (mem_need (sk (f_stack f) 0) 32) as [n|] eqn:Hn; [|destruct Hcov].
    assert (Hlen : length (mem_write (f_mem f) (a0 (firstn 2 (f_stack f))) (word_bytes (a1 (firstn 2 (f_stack f))))) = length (f_mem f)).
    { apply write_ok with (size := 32); [apply word_bytes_length|].
      unfold a0. rewrite sk_firstn by lia. apply (need_range _ _ _ _ Hn Hcov). }
    split; [cbn [c_frames]; constructor; [apply (wg_same f); [assumption|exact Hlen]|assumption]
           |cbn [c_frames]; destruct rest as [|p0 r0]; [exact I|]; cbn [linked] in *; destruct Hl as [Hri Hl2]; split; [|exact Hl2];
            unfold ret_in, mlen in *; exact Hri].
  - (* MSTORE8 *)
    cbn [instr_mem] in Hcov. destruct (mem_need (sk (f_stack f) 0) 1) as [n|] eqn:Hn; [|destruct Hcov].
    assert (Hlen : length (mem_write (f_mem f) (a0 (firstn 2 (f_stack f))) [a1 (firstn 2 (f_stack f)) mod 256]) = length (f_mem f)).
    { apply write_ok with (size := 1); [reflexivity|].
      unfold a0. rewrite sk_firstn by lia. apply (need_range _ _ _ _ Hn Hcov). }
    split; [cbn [c_frames]; constructor; [apply (wg_same f); [assumption|exact Hlen]|assumption]
           |cbn [c_frames]; destruct rest as [|p0 r0]; [exact I|]; exact Hl].
  - (* copies *)
    cbn [instr_mem] in Hcov. destruct (mem_need (sk (f_stack f) 0) (sk (f_stack f) 2)) as [n|] eqn:Hn; [|destruct Hcov].
    match goal with |- context [if ?b then _ else _] => destruct b end; [apply finish_MW; assumption|].
    match goal with |- context [mem_write (f_mem f) ?o ?b] =>
      assert (Hlen : length (mem_write (f_mem f) o b) = length (f_mem f)) end.
    { apply write_ok with (size := sk (f_stack f) 2).
      - rewrite slice_pad_length. unfold a2. rewrite sk_firstn by (cbn; lia). reflexivity.
      - unfold a0. rewrite sk_firstn by (cbn; lia). apply (need_range _ _ _ _ Hn Hcov). }
    split; [cbn [c_frames]; constructor; [apply (wg_same f); [assumption|exact Hlen]|assumption]
           |cbn [c_frames]; destruct rest as [|p0 r0]; [exact I|]; exact Hl].
  - (* EXTCODECOPY *)
    cbn [instr_mem] in Hcov. destruct (mem_need (sk (f_stack f) 1) (sk (f_stack f) 3)) as [n|] eqn:Hn; [|destruct Hcov].
    match goal with |- context [mem_write (f_mem f) ?o ?b] =>
      assert (Hlen : length (mem_write (f_mem f) o b) = length (f_mem f)) end.
    { apply write_ok with (size := sk (f_stack f) 3).
      - rewrite slice_pad_length. rewrite sk_firstn by (cbn; lia). reflexivity.
      - unfold a1. rewrite sk_firstn by (cbn; lia). apply (need_range _ _ _ _ Hn Hcov). }
    split; [cbn [c_frames]; constructor; [apply (wg_same f); [assumption|exact Hlen]|assumption]
           |cbn [c_frames]; destruct rest as [|p0 r0]; [exact I|]; exact Hl].
  - (* CREATE *)
    match goal with |- context [start_create ?d ?ww ?a ?b ?addr ?c ?g ?v] =>
      destruct (start_create d ww a b addr c g v) as [o gb w' iret|child w'|] eqn:Hs end.
    + same_len f rest Hl.
    + apply started_create_ret in Hs. destruct Hs as [Hrs Hm].
      split; cbn [c_frames].
      * constructor; [apply wg_nil; exact Hm|]. constructor; [apply (wg_same f); [assumption|reflexivity]|assumption].
      * cbn [linked]. split; [left; lia|]. destruct rest as [|p0 r0]; [exact I|exact Hl].
    + same_len f rest Hl.
  - (* CREATE2 *)
    match goal with |- context [start_create ?d ?ww ?a ?b ?addr ?c ?g ?v] =>
      destruct (start_create d ww a b addr c g v) as [o gb w' iret|child w'|] eqn:Hs end.
    + same_len f rest Hl.
    + apply started_create_ret in Hs. destruct Hs as [Hrs Hm].
      split; cbn [c_frames].
      * constructor; [apply wg_nil; exact Hm|]. constructor; [apply (wg_same f); [assumption|reflexivity]|assumption].
      * cbn [linked]. split; [left; lia|]. destruct rest as [|p0 r0]; [exact I|exact Hl].
    + same_len f rest Hl.
  - (* CALL family *)
    set (hasv := match k with KCall | KCallCode => true | _ => false end).
    set (r := if hasv then skipn 3 (firstn (instr_pops (ICallOp k)) (f_stack f)) else skipn 2 (firstn (instr_pops (ICallOp k)) (f_stack f))).
    assert (Hret : nth 3 r 0 <= 0 \/ (0 <= nth 2 r 0 /\ nth 2 r 0 + nth 3 r 0 <= mlen f)).
    { unfold r, hasv. cbn [instr_mem] in Hcov. destruct k; cbn [instr_pops] in *;
        try (rewrite !sk_skip_firstn by lia; cbn [Nat.add];
             match type of Hcov with match ?m with _ => _ end => destruct m as [n|] eqn:Hn end; [|destruct Hcov];
             apply mem_need2_spec in Hn; destruct Hn as [x [y [Hx [Hy [Hxn Hyn]]]]];
             destruct (mem_need_spec _ _ _ Hx) as [[A B]|[A [B C]]]; [left; lia|right; unfold mlen in *; lia]).
    }
    match goal with |- context [start_call ?k ?d ?ww ?a ?b ?c ?dd ?ee ?ff ?gas ?hh ?ii ?jj] =>
      destruct (start_call k d ww a b c dd ee ff gas hh ii jj) as [o gb w' iret|child w'|] eqn:Hs end.
    + fold hasv. fold r.
      assert (Hlen := resume_len (set_stack f (skipn (instr_pops (ICallOp k)) (f_stack f))) (if is_ok o then 1 else 0)
                        match o with OErr _ => false | _ => true end iret gb (nth 2 r 0) (nth 3 r 0) Hret).
      split; [cbn [c_frames]; constructor; [apply (wg_same f); [assumption|exact Hlen]|assumption]
             |cbn [c_frames]; destruct rest as [|p0 r0]; [exact I|]; exact Hl].
    + apply started_call_ret in Hs. destruct Hs as [Hro [Hrs Hm]]. fold hasv in Hro, Hrs. fold r in Hro, Hrs.
      split; cbn [c_frames].
      * constructor; [apply wg_nil; exact Hm|]. constructor; [apply (wg_same f); [assumption|reflexivity]|assumption].
      * cbn [linked]. split; [unfold ret_in; rewrite Hro, Hrs; exact Hret|]. destruct rest as [|p0 r0]; [exact I|exact Hl].
    + same_len f rest Hl.
Qed.


Lemma step_MW : forall e c, MW c -> MW (step e c).
Proof.
  intros e [frs w st] [Hw Hl]. cbn [c_frames] in *. unfold EVM.step. cbn [c_status c_frames c_world].
  destruct st; try (split; assumption).
  destruct frs as [|f rest]; [split; assumption|].
  inversion Hw as [|? ? Hwf Hwr]; subst.
  assert (Hfail : forall er, MW (fail er f w rest)) by (intros er; unfold fail; apply finish_MW; assumption).
  destruct (op_info e (cur_op f)) as [info|]; [|apply Hfail].
  destruct (decode keccak blockhash (cur_op f)) as [i|]; [|split; assumption].
  destruct (Z.of_nat (length (f_stack f)) <? oi_min info); [apply Hfail|].
  destruct (oi_max info <? Z.of_nat (length (f_stack f))); [apply Hfail|].
  destruct (f_static f && (oi_writes info || (cur_op f =? 241) && negb (sk (f_stack f) 2 =? 0))); [apply Hfail|].
  destruct (f_gas f <? oi_gas info); [apply Hfail|].
  destruct (instr_mem (cur_op f) i (f_stack f)) as [[need|]|] eqn:Hmem; [| apply Hfail |].
  - (* the instruction has a memory-size function *)
    destruct (round_mem need) as [msz|] eqn:Hrm; [|apply Hfail].
    destruct (round_mem_spec _ _ Hrm) as [Hmod Hle].
    assert (Hcov : forall mc g, let f' := set_gas (set_mem (set_gas f (f_gas f - oi_gas info))
                                   (mem_resize (f_mem (set_gas f (f_gas f - oi_gas info))) msz) mc) g in
                   wg f' /\ covered (cur_op f) i f' /\ linked (f' :: rest)).
    { intros mc g f'. unfold f', wg, covered, mlen. cbn [set_gas set_mem f_mem f_stack].
      rewrite Hmem. rewrite mem_resize_mlen. unfold wg, mlen in Hwf.
      split; [lia|]. split; [lia|]. destruct rest as [|p r]; [exact I|exact Hl]. }
    match goal with |- context [instr_dyn ?a ?b ?cc ?d ?ee ?ff] =>
      destruct (instr_dyn a b cc d ee ff) as [[[[cost mc] cg]|]|] end.
    + match goal with |- context [if ?b then _ else _] => destruct b end; [apply Hfail|].
      match goal with |- MW (exec e i (set_gas (set_mem _ _ ?mc) ?g) _ _ _) => destruct (Hcov mc g) as [A [B C]] end.
      apply exec_MW with (op := cur_op f); assumption.
    + apply Hfail.
    + (* memory function without dynamic gas: does not occur, but harmless *)
      set (f' := set_mem (set_gas f (f_gas f - oi_gas info)) (mem_resize (f_mem (set_gas f (f_gas f - oi_gas info))) msz)
                         (f_mcost (set_gas f (f_gas f - oi_gas info)))).
      assert (Hc : wg f' /\ covered (cur_op f) i f' /\ linked (f' :: rest)).
      { unfold f', wg, covered, mlen. cbn [set_gas set_mem f_mem f_stack].
        rewrite Hmem. rewrite mem_resize_mlen. unfold wg, mlen in Hwf.
        split; [lia|]. split; [lia|]. destruct rest as [|p r]; [exact I|exact Hl]. }
      destruct Hc as [A [B C]]. apply exec_MW with (op := cur_op f); assumption.
  - (* no memory-size function: memory untouched (resize to 0) *)
    assert (Hcov : forall mc, let f' := set_mem (set_gas f (f_gas f - oi_gas info))
                                   (mem_resize (f_mem (set_gas f (f_gas f - oi_gas info))) 0) mc in
                   forall g, let f'' := set_gas f' g in wg f' /\ covered (cur_op f) i f' /\ linked (f' :: rest) /\
                                                        wg f'' /\ covered (cur_op f) i f'' /\ linked (f'' :: rest)).
    { intros mc f' g f''. unfold f'', f', wg, covered, mlen. cbn [set_gas set_mem f_mem f_stack].
      rewrite Hmem. rewrite mem_resize_mlen. unfold wg, mlen in Hwf.
      repeat split; try lia; destruct rest as [|p r]; try exact I; exact Hl. }
    match goal with |- context [instr_dyn ?a ?b ?cc ?d ?ee ?ff] =>
      destruct (instr_dyn a b cc d ee ff) as [[[[cost mc] cg]|]|] end.
    + match goal with |- context [if ?b then _ else _] => destruct b end; [apply Hfail|].
      match goal with |- MW (exec e i (set_gas (set_mem _ _ ?mc) ?g) _ _ _) => destruct (Hcov mc g) as [_ [_ [_ [A [B C]]]]] end.
      apply exec_MW with (op := cur_op f); assumption.
    + apply Hfail.
    + match goal with |- MW (exec e i (set_mem _ _ ?mc) _ _ _) => destruct (Hcov mc 0) as [A [B [C _]]] end.
      apply exec_MW with (op := cur_op f); assumption.
Qed.

Lemma init_call_MW : forall e w t input g v, MW (init_call e w t input g v).
Proof.
  intros. unfold init_call.
  destruct (start_call KCall 0 w (e_origin e) (e_origin e) 0 false t input g v 0 0) as [o gb w' iret|child w'|] eqn:Hs.
  - destruct o; split; cbn; auto.
  - apply started_call_ret in Hs. destruct Hs as [_ [_ Hm]]. split; cbn [c_frames linked]; auto.
    constructor; [apply wg_nil; exact Hm|constructor].
  - split; cbn; auto.
Qed.
Lemma init_create_MW : forall e w init g v, MW (init_create keccak e w init g v).
Proof.
  intros. unfold init_create.
  match goal with |- context [start_create ?d ?ww ?a ?b ?addr ?cc ?gg ?vv] =>
    destruct (start_create d ww a b addr cc gg vv) as [o gb w' iret|child w'|] eqn:Hs end.
  - split; cbn; auto.
  - apply started_create_ret in Hs. destruct Hs as [_ Hm]. split; cbn [c_frames linked]; auto.
    constructor; [apply wg_nil; exact Hm|constructor].
  - split; cbn; auto.
Qed.

(** Main statement *)
Lemma memory_word_granular : forall e c f, reachable_g keccak blockhash e c -> In f (c_frames c) ->
    (Z.of_nat (length (f_mem f))) mod 32 = 0.
Proof.
  intros e c f H Hin.
  assert (HM : MW c).
  { clear Hin. induction H; [apply init_call_MW|apply init_create_MW|apply step_MW; assumption]. }
  destruct HM as [Hw _]. rewrite Forall_forall in Hw. apply (Hw f Hin).
Qed.

End Mem.
