(** C10 — gas accounting: the total gas held by a configuration never increases, every step of a
    running configuration strictly decreases [total gas + number of frames] (because every present
    non-halting opcode costs at least 1 and frame-creating opcodes at least 2 — checked on the
    generated tables), hence execution terminates within gas + 1 steps. *)
From Coq Require Import List ZArith Bool Lia.
From Kardia Require Import C10.U256 C10.EVM C10.ProofsTables C10.ProofsInv C10.ProofsFrames C10.ProofsGas Generated.C10Facts.
Import ListNotations.
Local Open Scope Z_scope.
Ltac Zify.zify_post_hook ::= Z.div_mod_to_equations.

Section Term.
Variable keccak : list Z -> Z.
Variable blockhash : Z -> Z.
Notation step := (step keccak blockhash).
Notation exec := (exec keccak).

(** * Memory cost invariant *)
Definition memtot (w : Z) : Z := w * g_memory + w * w / g_quad_coeff_div.
Definition mem_ok (f : frame) : Prop := f_mcost f <= memtot (Z.of_nat (length (f_mem f)) / 32).

Lemma consts : 0 <= g_memory /\ 0 < g_quad_coeff_div /\ 0 <= g_copy /\ 0 <= g_sha3_word /\ 0 <= g_exp_byte /\
               0 <= g_log_topic /\ 0 <= g_log_data /\ 0 <= g_call_new_account /\ 0 <= g_create_by_selfdestruct /\
               g_call_stipend < g_call_value_transfer /\ 0 <= g_call_stipend /\ 0 <= g_create_data /\
               0 <= g_exp /\ 0 <= g_log /\ 0 <= g_sstore_set /\ 0 <= g_sstore_clear /\ 0 <= g_sstore_reset.
Proof. vm_compute. repeat split; congruence. Qed.

Lemma memtot_mono : forall a b, 0 <= a <= b -> memtot a <= memtot b.
Proof.
  intros a b H. destruct consts as [Hm [Hq _]]. unfold memtot.
  assert (a * g_memory <= b * g_memory) by (apply Z.mul_le_mono_nonneg_r; lia).
  assert (a * a <= b * b) by (apply Z.mul_le_mono_nonneg; lia).
  assert (a * a / g_quad_coeff_div <= b * b / g_quad_coeff_div) by (apply Z.div_le_mono; lia).
  lia.
Qed.
Lemma memtot_0 : memtot 0 = 0.
Proof. reflexivity. Qed.

Lemma mem_resize_length : forall m size,
    Z.of_nat (length (mem_resize m size)) = Z.max (Z.of_nat (length m)) size.
Proof.
  intros m size. unfold mem_resize. destruct (Z.of_nat (length m) <? size) eqn:E.
  - apply Z.ltb_lt in E. rewrite app_length, repeat_length. lia.
  - apply Z.ltb_ge in E. lia.
Qed.
Lemma mem_write_length : forall m off bytes, (length m <= length (mem_write m off bytes))%nat.
Proof.
  intros m off bytes. unfold mem_write. destruct bytes as [|b t]; [lia|].
  rewrite !app_length, firstn_length, skipn_length. lia.
Qed.

Lemma mem_ok_grow : forall f m', mem_ok f -> (length (f_mem f) <= length m')%nat -> mem_ok (set_mem f m' (f_mcost f)).
Proof.
  intros f m' H Hl. unfold mem_ok in *. cbn [set_mem f_mcost f_mem].
  eapply Z.le_trans; [exact H|]. apply memtot_mono. split.
  - apply Z.div_pos; lia.
  - apply Z.div_le_mono; lia.
Qed.

Lemma mem_gas_spec : forall f new fee tot,
    mem_ok f -> mem_gas f new = Some (fee, tot) ->
    0 <= fee /\ mem_ok (set_mem f (mem_resize (f_mem f) new) tot).
Proof.
  intros f new fee tot Hok H. unfold mem_gas in H.
  destruct (new =? 0) eqn:E0.
  { inversion H; subst. split; [lia|]. apply mem_ok_grow; auto.
    unfold mem_resize. destruct (_ <? new); [rewrite app_length|]; lia. }
  destruct (MEM_LIMIT <? new); [discriminate|].
  destruct (Z.of_nat (length (f_mem f)) <? new) eqn:E.
  - apply Z.ltb_lt in E. inversion H; subst. unfold mem_ok in *.
    assert (Hmono : memtot (Z.of_nat (length (f_mem f)) / 32) <= memtot (new / 32)).
    { apply memtot_mono. split; [apply Z.div_pos; lia|apply Z.div_le_mono; lia]. }
    unfold memtot in *. split; [lia|].
    cbn [set_mem f_mcost f_mem]. rewrite mem_resize_length. rewrite Z.max_r by lia. lia.
  - inversion H; subst. split; [lia|]. apply mem_ok_grow; auto.
    unfold mem_resize. rewrite E. lia.
Qed.


(** * Dynamic gas: lower bounds *)
Definition callvalue (k : kind) (s : list Z) : Z := match k with KCall | KCallCode => sk s 2 | _ => 0 end.
Definition extra (i : instr) (s : list Z) (cg : Z) : Z :=
  match i with ICallOp k => cg + (if callvalue k s =? 0 then 0 else g_call_stipend) | _ => 0 end.

Definition dyn_good (i : instr) (op : Z) (f : frame) (s : list Z) (msz cost mc cg : Z) : Prop :=
  0 <= cost /\ dyn_floor i op <= cost /\ extra i s cg <= cost /\ 0 <= extra i s cg /\
  mem_ok (set_mem f (mem_resize (f_mem f) msz) mc).

Lemma byte_len_nonneg : forall b, 0 <= byte_len b.
Proof.
  intros b. unfold byte_len. apply Z.mul_nonneg_nonneg.
  - pose proof (Z.log2_nonneg b). apply Z.div_pos; lia.
  - unfold b2w. destruct (0 <? b); lia.
Qed.
Lemma words_nonneg : forall n, 0 <= n -> 0 <= words n.
Proof. intros n H. unfold words. apply Z.div_pos; lia. Qed.

Lemma nomem_ok : forall f msz, mem_ok f -> mem_ok (set_mem f (mem_resize (f_mem f) msz) (f_mcost f)).
Proof.
  intros f msz H. apply mem_ok_grow; auto. unfold mem_resize. destruct (_ <? msz); [rewrite app_length|]; lia.
Qed.

Lemma memplus_spec : forall f msz x cost mc cg,
    mem_ok f -> 0 <= x ->
    match mem_gas f msz with Some (g, t) => Some (Some (g + x, t, 0)) | None => Some None end = Some (Some (cost, mc, cg)) ->
    0 <= cost /\ x <= cost /\ cg = 0 /\ mem_ok (set_mem f (mem_resize (f_mem f) msz) mc).
Proof.
  intros f msz x cost mc cg Hok Hx H. destruct (mem_gas f msz) as [[g t]|] eqn:Hm; [|discriminate].
  inversion H; subst. destruct (mem_gas_spec f msz g mc Hok Hm) as [Hg Hm']. repeat split; auto; lia.
Qed.
Lemma memonly_spec : forall f msz cost mc cg,
    mem_ok f ->
    match mem_gas f msz with Some (g, t) => Some (Some (g, t, 0)) | None => Some None end = Some (Some (cost, mc, cg)) ->
    0 <= cost /\ cg = 0 /\ mem_ok (set_mem f (mem_resize (f_mem f) msz) mc).
Proof.
  intros f msz cost mc cg Hok H. destruct (mem_gas f msz) as [[g t]|] eqn:Hm; [|discriminate].
  inversion H; subst. destruct (mem_gas_spec f msz cost mc Hok Hm) as [Hg Hm']. repeat split; auto.
Qed.

Ltac use_memonly H Hok :=
  destruct (memonly_spec _ _ _ _ _ Hok H) as [? [? ?]]; subst; unfold dyn_good; cbn [dyn_floor extra]; repeat split; auto; lia.

Lemma instr_dyn_cost : forall op i f w s msz cost mc cg,
    mem_ok f -> instr_dyn op i f w s msz = Some (Some (cost, mc, cg)) -> dyn_good i op f s msz cost mc cg.
Proof.
  intros op i f w s msz cost mc cg Hok H.
  destruct consts as [Hm [Hq [Hcp [Hsh [Heb [Hlt [Hld [Hna [Hcs [Hstip [Hst0 [Hcd [Hex [Hlg [Hs1 [Hs2 Hs3]]]]]]]]]]]]]]]].
  unfold instr_dyn in H. destruct i; try discriminate.
  - (* IFun *)
    destruct (op =? 10) eqn:E10.
    + inversion H; subst. unfold dyn_good. cbn [dyn_floor extra]. rewrite E10.
      pose proof (byte_len_nonneg (sk s 1)).
      assert (0 <= byte_len (sk s 1) * g_exp_byte) by (apply Z.mul_nonneg_nonneg; lia).
      repeat split; try lia. apply nomem_ok; auto.
    + destruct (op =? 32).
      * destruct ((sk s 1 <? 0) || (U64 <=? sk s 1)) eqn:Eg; [discriminate|].
        apply orb_false_iff in Eg. destruct Eg as [Eg _]. apply Z.ltb_ge in Eg.
        pose proof (words_nonneg _ Eg).
        assert (Hx : 0 <= words (sk s 1) * g_sha3_word) by (apply Z.mul_nonneg_nonneg; lia).
        destruct (memplus_spec _ _ _ _ _ _ Hok Hx H) as [? [? [? ?]]]; subst.
        unfold dyn_good. cbn [dyn_floor extra]. rewrite E10. repeat split; auto; lia.
      * destruct (op =? 81); [|discriminate].
        destruct (memonly_spec _ _ _ _ _ Hok H) as [? [? ?]]; subst.
        unfold dyn_good. cbn [dyn_floor extra]. rewrite E10. repeat split; auto; lia.
  - use_memonly H Hok.
  - use_memonly H Hok.
  - (* ICopy *)
    destruct ((sk s 2 <? 0) || (U64 <=? sk s 2)) eqn:Eg; [discriminate|].
    apply orb_false_iff in Eg. destruct Eg as [Eg _]. apply Z.ltb_ge in Eg.
    pose proof (words_nonneg _ Eg).
    assert (Hx : 0 <= words (sk s 2) * g_copy) by (apply Z.mul_nonneg_nonneg; lia).
    destruct (memplus_spec _ _ _ _ _ _ Hok Hx H) as [? [? [? ?]]]; subst.
    unfold dyn_good. cbn [dyn_floor extra]. repeat split; auto; lia.
  - (* IExtCodeCopy *)
    destruct ((sk s 3 <? 0) || (U64 <=? sk s 3)) eqn:Eg; [discriminate|].
    apply orb_false_iff in Eg. destruct Eg as [Eg _]. apply Z.ltb_ge in Eg.
    pose proof (words_nonneg _ Eg).
    assert (Hx : 0 <= words (sk s 3) * g_copy) by (apply Z.mul_nonneg_nonneg; lia).
    destruct (memplus_spec _ _ _ _ _ _ Hok Hx H) as [? [? [? ?]]]; subst.
    unfold dyn_good. cbn [dyn_floor extra]. repeat split; auto; lia.
  - (* ISstore *)
    unfold dyn_good. cbn [dyn_floor extra].
    repeat match type of H with context [if ?b then _ else _] => destruct b end;
      inversion H; subst; repeat split; try lia; apply nomem_ok; auto.
  - (* ILog *)
    destruct ((sk s 1 <? 0) || (U64 <=? sk s 1)) eqn:Eg; [discriminate|].
    apply orb_false_iff in Eg. destruct Eg as [Eg _]. apply Z.ltb_ge in Eg.
    assert (0 <= Z.of_nat n * g_log_topic) by (apply Z.mul_nonneg_nonneg; lia).
    assert (0 <= sk s 1 * g_log_data) by (apply Z.mul_nonneg_nonneg; lia).
    assert (Hx : 0 <= g_log + Z.of_nat n * g_log_topic + sk s 1 * g_log_data) by lia.
    destruct (memplus_spec _ _ _ _ _ _ Hok Hx H) as [? [? [? ?]]]; subst.
    unfold dyn_good. cbn [dyn_floor extra]. repeat split; auto; lia.
  - use_memonly H Hok.
  - use_memonly H Hok.
  - (* call family *)
    destruct (mem_gas f msz) as [[mg t]|] eqn:Hmg; [|discriminate].
    destruct (mem_gas_spec f msz mg t Hok Hmg) as [Hmg0 Hmok].
    match type of H with context [call_gas ?a ?b ?c] => destruct (call_gas a b c) as [cg'|] eqn:Hc end; [|discriminate].
    pose proof (call_gas_nonneg blockhash _ _ _ _ Hc) as Hcg.
    inversion H; subst. unfold dyn_good. cbn [dyn_floor extra].
    destruct k; cbn [callvalue];
      repeat match goal with |- context [if ?b then _ else _] => destruct b eqn:? end;
      cbn [negb] in *; repeat split; auto; try lia; try discriminate.
  - use_memonly H Hok.
  - use_memonly H Hok.
  - (* selfdestruct *)
    unfold dyn_good. cbn [dyn_floor extra].
    repeat match type of H with context [if ?b then _ else _] => destruct b end;
      inversion H; subst; repeat split; try lia; apply nomem_ok; auto.
Qed.


(** * Accounting *)
Fixpoint frames_gas (l : list frame) : Z := match l with [] => 0 | f :: t => f_gas f + frames_gas t end.
(** gas held by a configuration: the frames' gas, or the final leftover *)
Definition total_gas (c : config) : Z :=
  match c_status c with Final _ _ g => g | _ => frames_gas (c_frames c) end.
Definition phi (c : config) : Z := total_gas c + Z.of_nat (length (c_frames c)).

Lemma settle_le : forall o ret f w o1 g1 w1, settle o ret f w = (o1, g1, w1) -> 0 <= f_gas f -> 0 <= g1 <= f_gas f.
Proof.
  intros o ret f w o1 g1 w1 Hs Hg. destruct consts as [_ [_ [_ [_ [_ [_ [_ [_ [_ [_ [_ [Hcd _]]]]]]]]]]]].
  unfold settle in Hs. destruct o.
  - destruct (is_create (f_kind f)).
    + destruct (max_code_size <? Z.of_nat (length ret)); [inversion Hs; lia|].
      assert (0 <= Z.of_nat (length ret) * g_create_data) by (apply Z.mul_nonneg_nonneg; lia).
      destruct (f_gas f <? Z.of_nat (length ret) * g_create_data) eqn:E; inversion Hs; subst; lia.
    + inversion Hs; subst; lia.
  - inversion Hs; subst; lia.
  - inversion Hs; subst; lia.
Qed.

Lemma finish_total : forall o ret f w rest, 0 <= f_gas f ->
    total_gas (finish o ret f w rest) <= f_gas f + frames_gas rest /\
    (length (c_frames (finish o ret f w rest)) <= length rest)%nat.
Proof.
  intros o ret f w rest Hg. split; [|apply finish_depth].
  unfold finish. destruct (settle o ret f w) as [[o1 g1] w1] eqn:Hs.
  pose proof (settle_le _ _ _ _ _ _ _ Hs Hg).
  destruct rest as [|p rest'].
  - cbn [total_gas c_status frames_gas]. lia.
  - destruct (is_create (f_kind f)); cbn [total_gas c_status c_frames frames_gas resume_create resume_call f_gas]; lia.
Qed.

Lemma run_precompile_back : forall t wok ws args g, 0 <= g ->
    match run_precompile t wok ws args g with
    | SImmediate _ gb _ _ => 0 <= gb <= g
    | SFrame child _ => f_gas child = g /\ f_mem child = [] /\ f_mcost child = 0
    | SUnsupported => True
    end.
Proof using.
  clear keccak blockhash.
  intros t wok ws args g Hg. unfold run_precompile. destruct (t =? 4); [|exact I].
  assert (0 <= words (Z.of_nat (length args)) * g_identity_word + g_identity_base).
  { unfold words, g_identity_word, g_identity_base. lia. }
  match goal with |- context [if ?b then _ else _] => destruct b eqn:E end; [lia|].
  apply Z.ltb_ge in E. lia.
Qed.

Lemma start_call_back : forall k d w ps pc pv pst t args g v ro rs, 0 <= g ->
    match start_call k d w ps pc pv pst t args g v ro rs with
    | SImmediate _ gb _ _ => 0 <= gb <= g
    | SFrame child _ => f_gas child = g /\ f_mem child = [] /\ f_mcost child = 0
    | SUnsupported => True
    end.
Proof using.
  clear keccak blockhash.
  intros until rs. intros Hg. unfold start_call.
  destruct (call_create_depth <? d); [lia|].
  destruct k; repeat match goal with
    | |- context [if ?b then _ else _] => destruct b
    end; cbn [new_frame f_gas f_mem f_mcost]; auto; try lia; apply run_precompile_back; exact Hg.
Qed.

Lemma start_create_back : forall d w ps pst a init g v, 0 <= g ->
    match start_create d w ps pst a init g v with
    | SImmediate _ gb _ _ => 0 <= gb <= g
    | SFrame child _ => f_gas child = g /\ f_mem child = [] /\ f_mcost child = 0
    | SUnsupported => True
    end.
Proof.
  intros until v. intros Hg. unfold start_create.
  repeat match goal with
    | |- context [if ?b then _ else _] => destruct b
    end; cbn [new_frame f_gas f_mem f_mcost]; auto; lia.
Qed.

Lemma nth2_firstn7' : forall l : list Z, a2 (firstn 7 l) = sk l 2.
Proof. intros l. unfold sk. destruct l as [|a [|b [|c l]]]; reflexivity. Qed.

Definition len_bound (i : instr) : nat :=
  if instr_halts i || instr_reverts i then 0%nat else if pushes_frame i then 2%nat else 1%nat.

Lemma exec_acct : forall e i f w rest cg,
    0 <= f_gas f -> (forall k, i = ICallOp k -> 0 <= cg) ->
    total_gas (exec e i f w rest cg) <= f_gas f + frames_gas rest + extra i (f_stack f) cg /\
    (length (c_frames (exec e i f w rest cg)) <= length rest + len_bound i)%nat.
Proof.
  intros e i f w rest cg Hg Hcg.
  destruct consts as [_ [_ [_ [_ [_ [_ [_ [_ [_ [_ [Hst0 _]]]]]]]]]]].
  destruct i; cbn [exec extra len_bound instr_halts instr_reverts pushes_frame orb]; unfold fail, next;
    try (destruct n as [|m]);
    try solve [repeat match goal with |- context [if ?b then _ else _] => destruct b end;
               first [ match goal with |- context [finish ?o ?r ?ff ?ww ?rr] =>
                         let H := fresh in
                         assert (H : 0 <= f_gas ff) by (cbn [set_stack f_gas]; lia);
                         destruct (finish_total o r ff ww rr H); cbn [set_stack f_gas] in *; split; lia end
                     | cbn [total_gas c_status c_frames frames_gas set_pc set_stack set_mem f_gas length]; split; lia ]].
  - (* CREATE *)
    assert (Hgive : 0 <= f_gas f - f_gas f / 64 <= f_gas f) by lia.
    match goal with |- context [start_create ?d ?ww ?a ?b ?addr ?c ?g ?v] =>
      pose proof (start_create_back d ww a b addr c g v ltac:(lia)) as Hs;
      destruct (start_create d ww a b addr c g v) as [o gb w' iret|child w'|] end;
      cbn [total_gas c_status c_frames frames_gas resume_create set_gas set_stack f_gas length]; split; lia.
  - (* CREATE2 *)
    match goal with |- context [start_create ?d ?ww ?a ?b ?addr ?c ?g ?v] =>
      pose proof (start_create_back d ww a b addr c g v ltac:(lia)) as Hs;
      destruct (start_create d ww a b addr c g v) as [o gb w' iret|child w'|] end;
      cbn [total_gas c_status c_frames frames_gas resume_create set_gas set_stack f_gas length]; split; lia.
  - (* CALL family *)
    specialize (Hcg k eq_refl).
    assert (Hval : (if match k with KCall | KCallCode => true | _ => false end
                    then a2 (firstn (instr_pops (ICallOp k)) (f_stack f)) else 0) = callvalue k (f_stack f)).
    { destruct k; cbn [callvalue instr_pops]; try reflexivity; apply nth2_firstn7'. }
    rewrite Hval.
    set (gas := if negb (callvalue k (f_stack f) =? 0) then cg + g_call_stipend else cg).
    assert (Hgas : 0 <= gas /\ gas = cg + (if callvalue k (f_stack f) =? 0 then 0 else g_call_stipend)).
    { unfold gas. destruct (callvalue k (f_stack f) =? 0); cbn [negb]; lia. }
    match goal with |- context [start_call ?k ?d ?ww ?a ?b ?c ?dd ?ee ?ff gas ?hh ?ii ?jj] =>
      pose proof (start_call_back k d ww a b c dd ee ff gas hh ii jj ltac:(lia)) as Hs;
      destruct (start_call k d ww a b c dd ee ff gas hh ii jj) as [o gb w' iret|child w'|] end;
      cbn [total_gas c_status c_frames frames_gas resume_call set_stack f_gas length]; split; lia.
Qed.


(** * The memory-cost invariant is preserved *)
Lemma mem_ok_any_grow : forall p p', mem_ok p -> f_mcost p' = f_mcost p ->
    (length (f_mem p) <= length (f_mem p'))%nat -> mem_ok p'.
Proof.
  intros p p' H Hc Hl. unfold mem_ok in *. rewrite Hc. eapply Z.le_trans; [exact H|].
  apply memtot_mono. split; [apply Z.div_pos; lia|apply Z.div_le_mono; lia].
Qed.
Lemma fresh_memok : forall c, f_mem c = [] -> f_mcost c = 0 -> mem_ok c.
Proof. intros c H1 H2. unfold mem_ok. rewrite H1, H2. vm_compute. congruence. Qed.

Lemma finish_memok : forall o ret f w rest, Forall mem_ok rest -> Forall mem_ok (c_frames (finish o ret f w rest)).
Proof.
  intros o ret f w rest Hr. unfold finish. destruct (settle o ret f w) as [[o1 g1] w1].
  destruct rest as [|p rest']; [constructor|].
  inversion Hr as [|? ? Hp Hr']; subst.
  destruct (is_create (f_kind f)); cbn [c_frames]; constructor; auto.
  all: apply (mem_ok_any_grow p); [assumption|reflexivity|]; cbn [resume_create resume_call f_mem]; try lia;
    destruct (match o1 with OErr _ => false | _ => true end); [apply mem_write_length|lia].
Qed.

Lemma exec_memok : forall e i f w rest cg,
    0 <= f_gas f -> (forall k, i = ICallOp k -> 0 <= cg) ->
    mem_ok f -> Forall mem_ok rest -> Forall mem_ok (c_frames (exec e i f w rest cg)).
Proof.
  intros e i f w rest cg Hg Hcg Hf Hr.
  destruct consts as [_ [_ [_ [_ [_ [_ [_ [_ [_ [_ [Hst0 _]]]]]]]]]]].
  destruct i; cbn [exec]; unfold fail, next;
    try (destruct n as [|m]);
    try solve [repeat match goal with |- context [if ?b then _ else _] => destruct b end;
               first [ apply finish_memok; assumption
                     | cbn [c_frames]; constructor; [|assumption];
                       apply (mem_ok_any_grow f); auto; cbn [set_pc set_stack set_mem f_mem]; try apply mem_write_length; lia ]].
  - (* CREATE *)
    assert (Hgive : 0 <= f_gas f - f_gas f / 64 <= f_gas f) by lia.
    match goal with |- context [start_create ?d ?ww ?a ?b ?addr ?c ?g ?v] =>
      pose proof (start_create_back d ww a b addr c g v ltac:(lia)) as Hs;
      destruct (start_create d ww a b addr c g v) as [o gb w' iret|child w'|] end;
      cbn [c_frames]; repeat constructor; auto;
        try (apply (mem_ok_any_grow f); auto; cbn; lia).
    destruct Hs as [_ [H1 H2]]. apply fresh_memok; assumption.
  - (* CREATE2 *)
    match goal with |- context [start_create ?d ?ww ?a ?b ?addr ?c ?g ?v] =>
      pose proof (start_create_back d ww a b addr c g v ltac:(lia)) as Hs;
      destruct (start_create d ww a b addr c g v) as [o gb w' iret|child w'|] end;
      cbn [c_frames]; repeat constructor; auto;
        try (apply (mem_ok_any_grow f); auto; cbn; lia).
    destruct Hs as [_ [H1 H2]]. apply fresh_memok; assumption.
  - (* CALL family *)
    specialize (Hcg k eq_refl).
    match goal with |- context [start_call ?k ?d ?ww ?a ?b ?c ?dd ?ee ?ff ?gas ?hh ?ii ?jj] =>
      assert (Hgas : 0 <= gas) by (match goal with |- context [if ?b then _ else _] => destruct b end; lia);
      pose proof (start_call_back k d ww a b c dd ee ff gas hh ii jj Hgas) as Hs;
      destruct (start_call k d ww a b c dd ee ff gas hh ii jj) as [o gb w' iret|child w'|] end;
      cbn [c_frames]; repeat constructor; auto.
    all: try (destruct Hs as [_ [H1 H2]]; apply fresh_memok; assumption).
    all: apply (mem_ok_any_grow f); auto; cbn [resume_call set_stack f_mem]; try lia;
      match goal with |- context [if ?b then _ else _] => destruct b end; [apply mem_write_length|lia].
Qed.


(** * One step *)
Definition INV (c : config) : Prop := gas_inv c /\ Forall mem_ok (c_frames c).

Lemma dyn_none_facts : forall op i f w s msz, instr_dyn op i f w s msz = None ->
    dyn_floor i op <= 0 /\ pushes_frame i = false /\ (forall cg, extra i s cg = 0).
Proof.
  intros op i f w s msz H. unfold instr_dyn in H.
  destruct i; cbn [dyn_floor pushes_frame extra];
    try (repeat split; auto; lia);
    try (destruct (mem_gas f msz) as [[? ?]|]; discriminate);
    try (repeat match type of H with context [if ?b then _ else _] => destruct b end;
         try (destruct (mem_gas f msz) as [[? ?]|]); discriminate).
  - (* IFun *)
    destruct (op =? 10); [discriminate|]. repeat split; auto; lia.
  - (* call family *)
    destruct (mem_gas f msz) as [[? ?]|]; [|discriminate].
    match type of H with context [call_gas ?a ?b ?c] => destruct (call_gas a b c) end; discriminate.
Qed.

Lemma nonpush_extra : forall i s cg, pushes_frame i = false -> extra i s cg = 0.
Proof. intros i s cg H. destruct i; try reflexivity; discriminate. Qed.

Lemma fail_main : forall o ret f w rest,
    gas_ok f -> Forall gas_ok rest -> Forall mem_ok rest ->
    INV (finish o ret f w rest) /\
    total_gas (finish o ret f w rest) <= f_gas f + frames_gas rest /\
    phi (finish o ret f w rest) + 1 <= f_gas f + frames_gas rest + Z.of_nat (length (f :: rest)).
Proof.
  intros o ret f w rest Hf Hr Hm. unfold gas_ok in Hf.
  destruct (finish_total o ret f w rest Hf) as [Ht Hl].
  split; [split; [apply (finish_gas keccak blockhash); assumption|apply finish_memok; assumption]|].
  split; [exact Ht|]. unfold phi. cbn [length]. lia.
Qed.

Lemma exec_main : forall e i f w rest cg,
    gas_ok f -> mem_ok f -> Forall gas_ok rest -> Forall mem_ok rest -> (forall k, i = ICallOp k -> 0 <= cg) ->
    INV (exec e i f w rest cg) /\
    total_gas (exec e i f w rest cg) <= f_gas f + frames_gas rest + extra i (f_stack f) cg /\
    (length (c_frames (exec e i f w rest cg)) <= length rest + len_bound i)%nat.
Proof.
  intros e i f w rest cg Hf Hmf Hr Hm Hcg. unfold gas_ok in Hf.
  destruct (exec_acct e i f w rest cg Hf Hcg) as [Ht Hl].
  split; [split; [apply (exec_gas keccak blockhash); assumption|apply exec_memok; assumption]|].
  split; assumption.
Qed.

Lemma frames_gas_total : forall c, c_status c = Running -> total_gas c = frames_gas (c_frames c).
Proof. intros c H. unfold total_gas. rewrite H. reflexivity. Qed.

Lemma step_main : forall e c f rest,
    INV c -> c_status c = Running -> c_frames c = f :: rest ->
    INV (step e c) /\ total_gas (step e c) <= total_gas c /\
    (c_status (step e c) = Unsupported \/ phi (step e c) + 1 <= phi c).
Proof.
  intros e c f rest [[Hg _] Hm] Hrun Hf.
  assert (Htot : total_gas c = f_gas f + frames_gas rest) by (rewrite (frames_gas_total c Hrun), Hf; reflexivity).
  assert (Hphi : phi c = f_gas f + frames_gas rest + Z.of_nat (length (f :: rest))) by (unfold phi; rewrite Htot, Hf; reflexivity).
  rewrite Hf in Hg, Hm. inversion Hg as [|? ? Hgf Hgr]; subst. inversion Hm as [|? ? Hmf Hmr]; subst.
  assert (Hfail : forall er, INV (fail er f (c_world c) rest) /\ total_gas (fail er f (c_world c) rest) <= total_gas c /\
                             (c_status (fail er f (c_world c) rest) = Unsupported \/ phi (fail er f (c_world c) rest) + 1 <= phi c)).
  { intros er. unfold fail. destruct (fail_main (OErr er) [] f (c_world c) rest Hgf Hgr Hmr) as [H1 [H2 H3]].
    split; [exact H1|]. split; [lia|right; lia]. }
  unfold EVM.step. rewrite Hrun, Hf.
  destruct (op_info e (cur_op f)) as [info|] eqn:Hinfo; [|apply Hfail].
  destruct (decode keccak blockhash (cur_op f)) as [i|] eqn:Hdec.
  2:{ split; [split; [split; [cbn [c_frames]; constructor; assumption|exact I]|cbn [c_frames]; constructor; assumption]|].
      split; [|left; reflexivity]. cbn [total_gas c_status c_frames frames_gas]. lia. }
  pose proof (slot_facts_of keccak blockhash e (cur_op f) info i Hinfo Hdec) as SF. destruct SF.
  destruct (Z.of_nat (length (f_stack f)) <? oi_min info); [apply Hfail|].
  destruct (oi_max info <? Z.of_nat (length (f_stack f))); [apply Hfail|].
  destruct (f_static f && (oi_writes info || (cur_op f =? 241) && negb (sk (f_stack f) 2 =? 0))); [apply Hfail|].
  destruct (f_gas f <? oi_gas info) eqn:Eg; [apply Hfail|].
  apply Z.ltb_ge in Eg.
  match goal with |- context [match ?m with Some msz => _ | None => _ end] => destruct m as [msz|] end; [|apply Hfail].
  set (f1 := set_gas f (f_gas f - oi_gas info)).
  assert (Hm1 : mem_ok f1) by exact Hmf.
  assert (Hlb : forall x, (x <= length rest + len_bound i)%nat ->
                Z.of_nat x + (if instr_halts i || instr_reverts i then 1 else if pushes_frame i then -1 else 0) <= Z.of_nat (length (f :: rest))).
  { intros x Hx. unfold len_bound in Hx. cbn [length].
    destruct (instr_halts i || instr_reverts i); [lia|]. destruct (pushes_frame i); lia. }
  match goal with |- context [instr_dyn ?a ?b ?cc ?d ?ee ?ff] =>
    destruct (instr_dyn a b cc d ee ff) as [[[[cost mc] cg]|]|] eqn:Hdyn end.
  - (* dynamic gas *)
    destruct (instr_dyn_cost _ _ _ _ _ _ _ _ _ Hm1 Hdyn) as [Hc0 [Hfl [Hex [Hex0 Hmok]]]].
    match goal with |- context [if ?b then _ else _] => destruct b eqn:Ec end; [apply Hfail|].
    apply Z.ltb_ge in Ec.
    match goal with |- context [exec e i ?ff ?ww ?rr ?cc] =>
      assert (Hgf' : gas_ok ff) by (unfold gas_ok, f1 in *; cbn [set_gas set_mem f_gas] in *; lia);
      assert (Hmf' : mem_ok ff) by exact Hmok;
      destruct (exec_main e i ff ww rr cc Hgf' Hmf' Hgr Hmr) as [HI [HT HL]] end.
    { intros k ->. apply (instr_dyn_cg blockhash _ _ _ _ _ _ _ _ _ Hdyn). }
    cbn [set_gas set_mem f_gas f_stack] in HT, Ec. fold f1 in Ec.
    assert (Hch : cost <= (if e_v2 e then cost else oi_gas info + cost)) by (destruct (e_v2 e); lia).
    split; [exact HI|]. split.
    + unfold f1 in *. cbn [set_gas set_mem f_gas f_stack] in *. lia.
    + right. unfold phi at 1. specialize (Hlb _ HL). unfold f1 in *. cbn [set_gas set_mem f_gas f_stack] in *.
      destruct (instr_halts i || instr_reverts i) eqn:Eh.
      * lia.
      * destruct (pushes_frame i) eqn:Ep.
        -- specialize (sf_gas2 eq_refl). lia.
        -- rewrite (nonpush_extra i _ _ Ep) in *.
           apply orb_false_iff in Eh. destruct Eh as [Eh1 Eh2].
           destruct sf_gas1 as [Hg1|[Hg1|[Hg1|Hg1]]]; try congruence; lia.
  - apply Hfail.
  - (* no dynamic gas *)
    destruct (dyn_none_facts _ _ _ _ _ _ Hdyn) as [Hfl [Hpf Hex]].
    match goal with |- context [exec e i ?ff ?ww ?rr ?cc] =>
      assert (Hgf' : gas_ok ff) by (unfold gas_ok, f1 in *; cbn [set_gas set_mem f_gas] in *; lia);
      assert (Hmf' : mem_ok ff) by (apply nomem_ok; exact Hm1);
      destruct (exec_main e i ff ww rr cc Hgf' Hmf' Hgr Hmr) as [HI [HT HL]] end.
    { intros; lia. }
    unfold f1 in *. cbn [set_gas set_mem f_gas f_stack] in *. rewrite Hex in HT.
    split; [exact HI|]. split.
    + lia.
    + right. unfold phi at 1. specialize (Hlb _ HL). rewrite Hpf in Hlb.
      destruct (instr_halts i || instr_reverts i) eqn:Eh.
      * lia.
      * apply orb_false_iff in Eh. destruct Eh as [Eh1 Eh2].
        destruct sf_gas1 as [Hg1|[Hg1|[Hg1|Hg1]]]; try congruence; lia.
Qed.


(** * Reachable configurations *)
Notation reachable_g := (reachable_g keccak blockhash).
Notation run_n := (run_n keccak blockhash).
Notation run_pow := (run_pow keccak blockhash).

(** a running configuration has a frame to run *)
Definition WF (c : config) : Prop := c_status c = Running -> c_frames c <> [].

Lemma step_idle : forall e c, (c_status c <> Running \/ c_frames c = []) -> step e c = c.
Proof.
  intros e c [H|H]; unfold EVM.step.
  - destruct (c_status c); try reflexivity. congruence.
  - rewrite H. destruct (c_status c); reflexivity.
Qed.

Lemma step_WF : forall e c, WF c -> WF (step e c).
Proof.
  intros e c H. destruct (c_status c) eqn:Hst.
  - destruct (c_frames c) as [|f rest] eqn:Hf; [exfalso; apply (H Hst); exact Hf|].
    destruct (step_shape keccak blockhash e c f rest Hst Hf) as [Hs|o ret f' w' H1 H2|child f' H1 H2 H3 H4].
    + intros _ Hn. rewrite Hn in Hs. discriminate.
    + rewrite H2. destruct (settle o ret f' w') as [[o1 g1] w1] eqn:Hs.
      pose proof (finish_frames o ret f' w' rest o1 g1 w1 Hs) as Hfr. destruct rest as [|p rest'].
      * destruct Hfr as [_ Hfin]. intros Hr. rewrite Hfin in Hr. discriminate.
      * destruct Hfr as [p' [Ha _]]. intros _. rewrite Ha. discriminate.
    + intros _. rewrite H1. discriminate.
  - rewrite step_idle; [exact H|left; congruence].
  - rewrite step_idle; [exact H|left; congruence].
Qed.

Lemma step_INV : forall e c, INV c -> WF c -> INV (step e c).
Proof.
  intros e c HI HW. destruct (c_status c) eqn:Hst.
  - destruct (c_frames c) as [|f rest] eqn:Hf; [exfalso; apply (HW Hst); exact Hf|].
    apply (step_main e c f rest HI Hst Hf).
  - rewrite step_idle; [exact HI|left; congruence].
  - rewrite step_idle; [exact HI|left; congruence].
Qed.

Lemma init_call_INV : forall e w t input g v, 0 <= g -> INV (init_call e w t input g v) /\ WF (init_call e w t input g v) /\ phi (init_call e w t input g v) <= g + 1.
Proof.
  intros e w t input g v Hg. split; [split; [apply (init_call_gas keccak blockhash); exact Hg|]|].
  - unfold init_call.
    pose proof (start_call_back KCall 0 w (e_origin e) (e_origin e) 0 false t input g v 0 0 Hg) as Hs.
    destruct (start_call KCall 0 w (e_origin e) (e_origin e) 0 false t input g v 0 0) as [o gb w' iret|child w'|].
    + destruct o; constructor.
    + cbn [c_frames]. constructor; [|constructor]. destruct Hs as [_ [H1 H2]]. apply fresh_memok; assumption.
    + constructor.
  - unfold init_call, WF, phi, total_gas.
    pose proof (start_call_back KCall 0 w (e_origin e) (e_origin e) 0 false t input g v 0 0 Hg) as Hs.
    destruct (start_call KCall 0 w (e_origin e) (e_origin e) 0 false t input g v 0 0) as [o gb w' iret|child w'|].
    + destruct o; cbn; split; try discriminate; lia.
    + cbn [c_status c_frames frames_gas length]. split; [discriminate|]. destruct Hs as [Hs _]. lia.
    + cbn. split; [discriminate|lia].
Qed.
Lemma init_create_INV : forall e w init g v, 0 <= g ->
    INV (init_create keccak e w init g v) /\ WF (init_create keccak e w init g v) /\ phi (init_create keccak e w init g v) <= g + 1.
Proof.
  intros e w init g v Hg. split; [split; [apply (init_create_gas keccak blockhash); exact Hg|]|].
  - unfold init_create.
    match goal with |- context [start_create ?d ?ww ?a ?b ?addr ?cc ?gg ?vv] =>
      pose proof (start_create_back d ww a b addr cc gg vv Hg) as Hs;
      destruct (start_create d ww a b addr cc gg vv) as [o gb w' iret|child w'|] end.
    + constructor.
    + cbn [c_frames]. constructor; [|constructor]. destruct Hs as [_ [H1 H2]]. apply fresh_memok; assumption.
    + constructor.
  - unfold init_create, WF, phi, total_gas.
    match goal with |- context [start_create ?d ?ww ?a ?b ?addr ?cc ?gg ?vv] =>
      pose proof (start_create_back d ww a b addr cc gg vv Hg) as Hs;
      destruct (start_create d ww a b addr cc gg vv) as [o gb w' iret|child w'|] end.
    + cbn; split; try discriminate; lia.
    + cbn [c_status c_frames frames_gas length]. split; [discriminate|]. destruct Hs as [Hs _]. lia.
    + cbn. split; [discriminate|lia].
Qed.

Lemma reachable_INV : forall e c, reachable_g e c -> INV c /\ WF c.
Proof.
  intros e c H. induction H.
  - destruct (init_call_INV e w t input g v H) as [A [B _]]. auto.
  - destruct (init_create_INV e w init g v H) as [A [B _]]. auto.
  - destruct IHreachable_g as [A B]. split; [apply step_INV|apply step_WF]; assumption.
Qed.

(** Main statement 1: the total gas never increases *)
Lemma gas_monotone : forall e c, reachable_g e c -> total_gas (step e c) <= total_gas c.
Proof.
  intros e c H. destruct (reachable_INV e c H) as [HI HW].
  destruct (c_status c) eqn:Hst.
  - destruct (c_frames c) as [|f rest] eqn:Hf; [exfalso; apply (HW Hst); exact Hf|].
    apply (step_main e c f rest HI Hst Hf).
  - rewrite step_idle; [lia|left; congruence].
  - rewrite step_idle; [lia|left; congruence].
Qed.

(** Main statement 2: every step of a running configuration finishes or strictly decreases
    [total gas + number of frames] *)
Lemma step_bound : forall e c, reachable_g e c -> c_status c = Running ->
    c_status (step e c) = Unsupported \/ phi (step e c) + 1 <= phi c.
Proof.
  intros e c H Hst. destruct (reachable_INV e c H) as [HI HW].
  destruct (c_frames c) as [|f rest] eqn:Hf; [exfalso; apply (HW Hst); exact Hf|].
  apply (step_main e c f rest HI Hst Hf).
Qed.

Lemma phi_pos : forall c, INV c -> WF c -> c_status c = Running -> 1 <= phi c.
Proof.
  intros c [[Hg _] _] HW Hst. specialize (HW Hst). unfold phi. rewrite (frames_gas_total c Hst).
  destruct (c_frames c) as [|f rest]; [congruence|].
  assert (Hsum : forall l, Forall gas_ok l -> 0 <= frames_gas l).
  { induction l as [|x l IH]; intros Hl; cbn [frames_gas]; [lia|]. inversion Hl; subst. unfold gas_ok in *. specialize (IH H2). lia. }
  specialize (Hsum _ Hg). cbn [length]. lia.
Qed.

Lemma run_n_final : forall e n c, is_final c = true -> run_n e n c = c.
Proof.
  intros e n. induction n as [|n IH]; intros c H; cbn [EVM.run_n]; [reflexivity|].
  rewrite step_idle; [apply IH; exact H|]. left. unfold is_final in H. destruct (c_status c); congruence.
Qed.

Lemma run_n_final_eq : forall e n c, is_final c = true -> is_final (run_n e n c) = true.
Proof. intros e n c H. rewrite run_n_final; assumption. Qed.

Lemma terminates_within : forall e n c, INV c -> WF c -> phi c < Z.of_nat n -> is_final (run_n e n c) = true.
Proof.
  intros e n. induction n as [|n IH]; intros c HI HW Hphi.
  - destruct (c_status c) eqn:Hst; cbn [EVM.run_n]; unfold is_final; rewrite Hst; try reflexivity.
    pose proof (phi_pos c HI HW Hst). lia.
  - cbn [EVM.run_n]. destruct (c_status c) eqn:Hst.
    + destruct (c_frames c) as [|f rest] eqn:Hf; [exfalso; apply (HW Hst); exact Hf|].
      destruct (step_main e c f rest HI Hst Hf) as [HI' [_ [Hu|Hd]]].
      * apply run_n_final_eq. unfold is_final. rewrite Hu. reflexivity.
      * apply IH; [exact HI'|apply step_WF; exact HW|lia].
    + apply run_n_final_eq. rewrite step_idle; [|left; congruence]. unfold is_final. rewrite Hst. reflexivity.
    + apply run_n_final_eq. rewrite step_idle; [|left; congruence]. unfold is_final. rewrite Hst. reflexivity.
Qed.


(** Main statement 3: a top-level call or creation with [g] gas is over after at most g + 2 steps *)
Lemma call_terminates : forall e w t input g v, 0 <= g ->
    is_final (run_n e (Z.to_nat (g + 2)) (init_call e w t input g v)) = true.
Proof.
  intros e w t input g v Hg. destruct (init_call_INV e w t input g v Hg) as [HI [HW Hp]].
  apply terminates_within; auto. lia.
Qed.
Lemma create_terminates : forall e w init g v, 0 <= g ->
    is_final (run_n e (Z.to_nat (g + 2)) (init_create keccak e w init g v)) = true.
Proof.
  intros e w init g v Hg. destruct (init_create_INV e w init g v Hg) as [HI [HW Hp]].
  apply terminates_within; auto. lia.
Qed.

(** the extracted runner [run_pow n] performs up to 2^n steps and stops at a final configuration *)
Lemma run_n_add : forall e a b c, run_n e (a + b) c = run_n e b (run_n e a c).
Proof. intros e a. induction a as [|a IH]; intros b c; cbn [EVM.run_n Nat.add]; [reflexivity|apply IH]. Qed.

Lemma run_pow_spec : forall e n c, exists k,
    Z.of_nat k <= 2 ^ Z.of_nat n /\ run_pow e n c = run_n e k c /\
    (is_final (run_n e k c) = true \/ Z.of_nat k = 2 ^ Z.of_nat n).
Proof.
  intros e n. induction n as [|n IH]; intros c.
  - cbn [EVM.run_pow]. destruct (is_final c) eqn:Hf.
    + exists 0%nat. cbn [EVM.run_n]. split; [cbn; lia|]. split; auto.
    + exists 1%nat. cbn [EVM.run_n]. split; [cbn; lia|]. split; auto.
  - cbn [EVM.run_pow]. destruct (is_final c) eqn:Hf.
    + exists 0%nat. cbn [EVM.run_n]. split; [|split; auto].
      assert (0 < 2 ^ Z.of_nat (S n)) by (apply Z.pow_pos_nonneg; lia). lia.
    + destruct (IH c) as [k1 [Hk1 [He1 Hd1]]].
      destruct (IH (EVM.run_pow keccak blockhash e n c)) as [k2 [Hk2 [He2 Hd2]]].
      assert (Hpow : 2 ^ Z.of_nat (S n) = 2 * 2 ^ Z.of_nat n) by (rewrite Nat2Z.inj_succ, Z.pow_succ_r; lia).
      exists (k1 + k2)%nat. rewrite run_n_add. rewrite <- He1. split; [lia|]. split; [exact He2|].
      destruct Hd2 as [Hd2|Hd2]; [left; exact Hd2|].
      destruct Hd1 as [Hd1|Hd1].
      * left. rewrite He1. rewrite run_n_final; exact Hd1.
      * right. lia.
Qed.

Lemma run_pow_terminates : forall e n c k,
    Z.of_nat k <= 2 ^ Z.of_nat n -> is_final (run_n e k c) = true -> is_final (run_pow e n c) = true.
Proof.
  intros e n c k Hk Hf. destruct (run_pow_spec e n c) as [k' [Hk' [He [Hd|Hd]]]]; rewrite He; [exact Hd|].
  assert (Hle : (k <= k')%nat) by lia.
  replace k' with (k + (k' - k))%nat by lia. rewrite run_n_add. rewrite run_n_final; exact Hf.
Qed.

Lemma run_call_terminates : forall e w t input g v, 0 <= g < 2 ^ 64 - 1 ->
    is_final (run_call keccak blockhash e w t input g v) = true.
Proof.
  intros e w t input g v Hg. unfold run_call.
  apply run_pow_terminates with (k := Z.to_nat (g + 2)); [|apply call_terminates; lia].
  change (Z.of_nat 64) with 64. lia.
Qed.
Lemma run_create_terminates : forall e w init g v, 0 <= g < 2 ^ 64 - 1 ->
    is_final (run_create keccak blockhash e w init g v) = true.
Proof.
  intros e w init g v Hg. unfold run_create.
  apply run_pow_terminates with (k := Z.to_nat (g + 2)); [|apply create_terminates; lia].
  change (Z.of_nat 64) with 64. lia.
Qed.

End Term.
