(** C10 — gas is never negative: every frame of every reachable configuration holds a
    non-negative amount of gas, and so does the final result. *)
From Coq Require Import List ZArith Bool Lia.
From Kardia Require Import C10.U256 C10.EVM C10.ProofsTables C10.ProofsInv Generated.C10Facts.
Import ListNotations.
Local Open Scope Z_scope.
Ltac Zify.zify_post_hook ::= Z.div_mod_to_equations.

Section Gas.
Variable keccak : list Z -> Z.
Variable blockhash : Z -> Z.
Notation step := (step keccak blockhash).
Notation exec := (exec keccak).
Notation reachable := (reachable keccak blockhash).

Definition gas_ok (f : frame) : Prop := 0 <= f_gas f.
Definition gas_inv (c : config) : Prop :=
  Forall gas_ok (c_frames c) /\ match c_status c with Final _ _ g => 0 <= g | _ => True end.

Lemma stipend_nonneg : 0 <= g_call_stipend /\ 0 <= g_create_data.
Proof. vm_compute. split; congruence. Qed.

Lemma settle_gas : forall o ret f w o1 g1 w1, 0 <= f_gas f -> settle o ret f w = (o1, g1, w1) -> 0 <= g1.
Proof.
  intros o ret f w o1 g1 w1 Hg Hs. unfold settle in Hs. destruct o.
  - destruct (is_create (f_kind f)).
    + destruct (max_code_size <? Z.of_nat (length ret)); [inversion Hs; lia|].
      destruct (f_gas f <? Z.of_nat (length ret) * g_create_data) eqn:E; inversion Hs; subst; lia.
    + inversion Hs; subst; lia.
  - inversion Hs; subst; lia.
  - inversion Hs; subst; lia.
Qed.

Lemma finish_gas : forall o ret f w rest, gas_ok f -> Forall gas_ok rest -> gas_inv (finish o ret f w rest).
Proof.
  intros o ret f w rest Hf Hr. unfold finish.
  destruct (settle o ret f w) as [[o1 g1] w1] eqn:Hs.
  pose proof (settle_gas o ret f w o1 g1 w1 Hf Hs) as Hg.
  destruct rest as [|p rest'].
  - split; cbn; auto.
  - inversion Hr as [|? ? Hp Hr']; subst. unfold gas_ok in Hp.
    destruct (is_create (f_kind f)); (split; [|exact I]); cbn [c_frames]; constructor; auto;
      unfold gas_ok; cbn [resume_create resume_call f_gas]; lia.
Qed.

Lemma run_precompile_gas : forall t wok ws args g, 0 <= g ->
    match run_precompile t wok ws args g with
    | SImmediate _ gb _ _ => 0 <= gb
    | SFrame child _ => 0 <= f_gas child
    | SUnsupported => True
    end.
Proof.
  intros t wok ws args g Hg. unfold run_precompile. destruct (t =? 4); [|exact I].
  match goal with |- context [if ?b then _ else _] => destruct b eqn:E end; [lia|].
  apply Z.ltb_ge in E. lia.
Qed.

Lemma start_call_gas : forall k d w ps pc pv pst t args g v ro rs, 0 <= g ->
    match start_call k d w ps pc pv pst t args g v ro rs with
    | SImmediate _ gb _ _ => 0 <= gb
    | SFrame child _ => 0 <= f_gas child
    | SUnsupported => True
    end.
Proof.
  intros until rs. intros Hg. unfold start_call.
  destruct (call_create_depth <? d); [exact Hg|].
  destruct k; repeat match goal with
    | |- context [if ?b then _ else _] => destruct b
    end; cbn [new_frame f_gas]; auto; apply run_precompile_gas; exact Hg.
Qed.

Lemma start_create_gas : forall d w ps pst a init g v, 0 <= g ->
    match start_create d w ps pst a init g v with
    | SImmediate _ gb _ _ => 0 <= gb
    | SFrame child _ => 0 <= f_gas child
    | SUnsupported => True
    end.
Proof.
  intros until v. intros Hg. unfold start_create.
  repeat match goal with
    | |- context [if ?b then _ else _] => destruct b
    end; cbn [new_frame f_gas]; auto; lia.
Qed.

Lemma call_gas_nonneg : forall avail base cost cg, call_gas avail base cost = Some cg -> 0 <= cg.
Proof.
  intros avail base cost cg H. unfold call_gas in H.
  destruct (avail <? base) eqn:E; [discriminate|]. apply Z.ltb_ge in E.
  destruct ((cost <? 0) || (U64 <=? cost) || (avail - base - (avail - base) / 64 <? cost)) eqn:E2; inversion H; subst.
  - lia.
  - apply orb_false_iff in E2. destruct E2 as [E2 _]. apply orb_false_iff in E2. destruct E2 as [E2 _].
    apply Z.ltb_ge in E2. exact E2.
Qed.

Lemma instr_dyn_cg : forall op k f w s msz cost mc cg,
    instr_dyn op (ICallOp k) f w s msz = Some (Some (cost, mc, cg)) -> 0 <= cg.
Proof.
  intros op k f w s msz cost mc cg H. cbn [instr_dyn] in H.
  destruct (mem_gas f msz) as [[mg t]|]; [|discriminate].
  match type of H with context [call_gas ?a ?b ?c] => destruct (call_gas a b c) as [cg'|] eqn:Hc end; [|discriminate].
  inversion H; subst. apply (call_gas_nonneg _ _ _ _ Hc).
Qed.

Lemma exec_gas : forall e i f w rest cg,
    gas_ok f -> Forall gas_ok rest -> (forall k, i = ICallOp k -> 0 <= cg) -> gas_inv (exec e i f w rest cg).
Proof.
  intros e i f w rest cg Hf Hr Hcg. unfold gas_ok in Hf.
  destruct (stipend_nonneg) as [Hst _].
  destruct i; cbn [exec]; unfold fail, next;
    try (destruct n as [|m]);
    try solve [repeat match goal with |- context [if ?b then _ else _] => destruct b end;
               first [ apply finish_gas; [unfold gas_ok; cbn; lia | assumption]
                     | split; [cbn [c_frames]; constructor; [unfold gas_ok; cbn; lia | assumption] | exact I] ]].
  - (* CREATE *)
    match goal with |- context [start_create ?d ?ww ?a ?b ?addr ?c ?g ?v] =>
      pose proof (start_create_gas d ww a b addr c g v) as Hs end.
    match type of Hs with _ -> match ?x with _ => _ end => destruct x as [o gb w' iret|child w'|] end;
      (split; [|exact I]); cbn [c_frames]; repeat constructor; auto; unfold gas_ok;
        cbn [resume_create set_gas set_stack f_gas]; try (assert (0 <= f_gas f - (f_gas f - f_gas f / 64)) by lia);
        try (specialize (Hs ltac:(lia))); lia.
  - (* CREATE2 *)
    match goal with |- context [start_create ?d ?ww ?a ?b ?addr ?c ?g ?v] =>
      pose proof (start_create_gas d ww a b addr c g v) as Hs end.
    match type of Hs with _ -> match ?x with _ => _ end => destruct x as [o gb w' iret|child w'|] end;
      (split; [|exact I]); cbn [c_frames]; repeat constructor; auto; unfold gas_ok;
        cbn [resume_create set_gas set_stack f_gas];
        try (specialize (Hs ltac:(lia))); lia.
  - (* CALL family *)
    specialize (Hcg k eq_refl).
    match goal with |- context [start_call ?k ?d ?ww ?a ?b ?c ?dd ?ee ?ff ?g ?hh ?ii ?jj] =>
      pose proof (start_call_gas k d ww a b c dd ee ff g hh ii jj) as Hs end.
    match type of Hs with _ -> match ?x with _ => _ end => destruct x as [o gb w' iret|child w'|] end;
      (split; [|exact I]); cbn [c_frames]; repeat constructor; auto; unfold gas_ok;
        cbn [resume_call set_stack f_gas];
        try (assert (Hs' := Hs ltac:(match goal with |- context [if ?b then _ else _] => destruct b end; lia)));
        try lia.
Qed.


Lemma step_gas : forall e c, gas_inv c -> gas_inv (step e c).
Proof.
  intros e c Hinv. pose proof Hinv as [Hfr Hfin]. unfold EVM.step.
  destruct (c_status c) eqn:Hst; try exact Hinv.
  destruct (c_frames c) as [|f rest] eqn:Hf; [exact Hinv|].
  inversion Hfr as [|? ? Hgf Hrest]; subst.
  destruct (op_info e (cur_op f)) as [info|]; [|apply finish_gas; assumption].
  destruct (decode keccak blockhash (cur_op f)) as [i|] eqn:Hdec;
    [|split; [cbn [c_frames]; constructor; assumption|exact I]].
  destruct (Z.of_nat (length (f_stack f)) <? oi_min info); [apply finish_gas; assumption|].
  destruct (oi_max info <? Z.of_nat (length (f_stack f))); [apply finish_gas; assumption|].
  destruct (f_static f && (oi_writes info || (cur_op f =? 241) && negb (sk (f_stack f) 2 =? 0)));
    [apply finish_gas; assumption|].
  destruct (f_gas f <? oi_gas info) eqn:Eg; [apply finish_gas; assumption|].
  apply Z.ltb_ge in Eg.
  match goal with |- context [match ?m with Some msz => _ | None => _ end] => destruct m as [msz|] end;
    [|apply finish_gas; assumption].
  match goal with |- context [instr_dyn ?a ?b ?cc ?d ?ee ?ff] =>
    destruct (instr_dyn a b cc d ee ff) as [[[[cost mc] cg]|]|] eqn:Hdyn end.
  - match goal with |- context [if ?b then _ else _] => destruct b eqn:Ec end; [apply finish_gas; assumption|].
    apply Z.ltb_ge in Ec. apply exec_gas; auto.
    + unfold gas_ok. cbn [set_gas set_mem f_gas] in *. lia.
    + intros k ->. apply (instr_dyn_cg _ _ _ _ _ _ _ _ _ Hdyn).
  - apply finish_gas; assumption.
  - apply exec_gas; auto.
    + unfold gas_ok. cbn [set_gas set_mem f_gas]. lia.
    + intros; lia.
Qed.

Lemma init_call_gas : forall e w t input g v, 0 <= g -> gas_inv (init_call e w t input g v).
Proof.
  intros e w t input g v Hg. unfold init_call.
  pose proof (start_call_gas KCall 0 w (e_origin e) (e_origin e) 0 false t input g v 0 0 Hg) as Hs.
  destruct (start_call KCall 0 w (e_origin e) (e_origin e) 0 false t input g v 0 0) as [o gb w' iret|child w'|].
  - destruct o; split; cbn; auto.
  - split; cbn; auto.
  - split; cbn; auto.
Qed.
Lemma init_create_gas : forall e w init g v, 0 <= g -> gas_inv (init_create keccak e w init g v).
Proof.
  intros e w init g v Hg. unfold init_create.
  match goal with |- context [start_create ?d ?ww ?a ?b ?addr ?cc ?gg ?vv] =>
    pose proof (start_create_gas d ww a b addr cc gg vv Hg) as Hs;
    destruct (start_create d ww a b addr cc gg vv) as [o gb w' iret|child w'|] end; split; cbn; auto.
Qed.

(** reachable from a top-level call/creation that was given a non-negative amount of gas *)
Inductive reachable_g (e : env) : config -> Prop :=
| rg_call : forall w t input g v, 0 <= g -> reachable_g e (init_call e w t input g v)
| rg_create : forall w init g v, 0 <= g -> reachable_g e (init_create keccak e w init g v)
| rg_step : forall c, reachable_g e c -> reachable_g e (step e c).

Lemma gas_never_negative : forall e c, reachable_g e c ->
    (forall f, In f (c_frames c) -> 0 <= f_gas f) /\
    (forall o ret g, c_status c = Final o ret g -> 0 <= g).
Proof.
  intros e c H.
  assert (Hi : gas_inv c).
  { induction H; [apply init_call_gas|apply init_create_gas|apply step_gas]; assumption. }
  destruct Hi as [H1 H2]. split.
  - intros f Hin. rewrite Forall_forall in H1. apply (H1 f Hin).
  - intros o ret g Hs. rewrite Hs in H2. exact H2.
Qed.

End Gas.
