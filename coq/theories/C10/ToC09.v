(** C10 -> C09 bridge.  C09's model of transaction execution (coq/theories/C09/Model.v) treats the
    byte-code interpreter as a Section variable [run : state -> call_input -> run_output] and proves
    its theorems under the contract [ExecOK run] (C09/ProofsVM.v).  Here [run] is instantiated with
    the C10 reference interpreter and the contract is PROVED for it ([run10_exec_ok]), so every C09
    theorem of the form [forall run, ExecOK run -> ...] holds for the C10 model.

    C09's state is abstract (code and storage are identities, the set of accounts is a function);
    the bridge concretises it over a finite universe [U] of addresses with arbitrary decoding
    functions (code/storage identity -> content, message id -> call data / init code, -> block
    environment); the contract holds for every choice of them.

    What C09 assumes and the interpreter cannot guarantee unconditionally is checked by [guard]
    (otherwise [run10] reports a failed run, which C09 treats like any VM failure):
      - balances in the state are non-negative;
      - the transaction origin is an externally owned account: it exists in [U], has no code, is not
        self-destructed and its nonce is not 0 (C09 bumps the sender's nonce before it calls [run]) —
        this is exactly C09's informal justification of [ok_origin];
      - the executing address is not the origin.
    Not matched: [ro_refund] is always 0 (the C10 model has no refund counter: it does not influence
    any C10 observable); a top-level call whose target is a precompile runs as a call to an account
    without code (precompiles are modelled only when called from byte code, identity 0x04 only). *)
From Coq Require Import List ZArith NArith Bool Lia FinFun.
From Kardia Require C09.Model C09.ProofsBase C09.ProofsVM C09.ProofsTx.
From Kardia Require Import C10.U256 C10.EVM C10.ProofsInv C10.ProofsFrames C10.ProofsStatic C10.ProofsGas
  C10.ProofsTerm C10.ProofsBal Generated.C10Facts.
Import ListNotations.
Local Open Scope Z_scope.

Module M := Kardia.C09.Model.
Module PB := Kardia.C09.ProofsBase.
Module PV := Kardia.C09.ProofsVM.

Section Bridge.
Variable keccak : list Z -> Z.
Variable blockhash : Z -> Z.
Variable U : list N.                           (* addresses of the concretised state *)
Variable code_of_id : N -> list Z.             (* code identity -> bytes *)
Variable stor_of_id : N -> list (Z * Z).       (* storage identity -> content *)
Variable id_of_code : list Z -> N.
Variable id_of_stor : list (Z * Z) -> N.
Variable input_of : N -> list Z.               (* message id -> call data (call) / init code (create) *)
Variable env_of : N -> env.                    (* message id -> block environment *)

Definition world_of (s : M.state) : world :=
  mk_world (map (fun a => (Z.of_N a,
                           mk_account (M.nonce s a) (M.bal s a) (code_of_id (M.code s a))
                                      (stor_of_id (M.a_stor (M.get s a)))
                                      (existsb (N.eqb a) (M.st_dead s))))
                (nodup N.eq_dec U)) [].

Definition guard (w : world) (o addr : Z) : bool :=
  forallb (fun p => 0 <=? a_bal (snd p)) (w_accts w)
  && match get_acct w o with
     | Some x => negb (a_nonce x =? 0) && is_nil (a_code x) && negb (a_dead x)
     | None => false
     end
  && negb (addr =? o).

Definition failed_output : M.run_output :=
  {| M.ro_err := M.VFail; M.ro_gas := 0; M.ro_retlen := 0; M.ro_retcode := 0%N; M.ro_refund := 0;
     M.ro_burn := 0; M.ro_writes := [] |}.

Definition write_of (w0 wf : world) (a : Z) : M.write :=
  {| M.w_addr := Z.to_N a;
     M.w_dbal := balance wf a - balance w0 a;
     M.w_dnonce := nonce wf a - nonce w0 a;
     M.w_code := Some (id_of_code (code_of wf a));
     M.w_stor := Some (id_of_stor (a_store (acct_or_new wf a)));
     M.w_dead := a_dead (acct_or_new wf a) |}.

Definition touched (w0 wf : world) : list Z := nodup Z.eq_dec (keys wf ++ keys w0).

Definition start_config (s : M.state) (ci : M.call_input) : config :=
  let w := world_of s in
  let addr := Z.of_N (M.ci_addr ci) in
  let code := if M.ci_create ci then input_of (M.ci_msg ci) else code_of w addr in
  let input := if M.ci_create ci then [] else input_of (M.ci_msg ci) in
  mk_config [new_frame KCall addr (Z.of_N (M.ci_caller ci)) (M.ci_value ci) code input (M.ci_gas ci) false w 0 0]
            w Running.

Definition env_for (ci : M.call_input) : env :=
  let e := env_of (M.ci_msg ci) in
  mk_env (Z.of_N (M.ci_origin ci)) (e_gasprice e) (e_coinbase e) (e_number e) (e_time e) (e_gaslimit e)
         (e_chainid e) (e_v2 e).

(** the C10 interpreter as C09's [run] *)
Definition run10 (s : M.state) (ci : M.call_input) : M.run_output :=
  let w := world_of s in
  if guard w (Z.of_N (M.ci_origin ci)) (Z.of_N (M.ci_addr ci)) && (0 <=? M.ci_gas ci) then
    let c := run_pow keccak blockhash (env_for ci) 64 (start_config s ci) in
    match c_status c with
    | Final OOk ret g =>
      {| M.ro_err := M.VOk; M.ro_gas := g; M.ro_retlen := Z.of_nat (length ret); M.ro_retcode := id_of_code ret;
         M.ro_refund := 0; M.ro_burn := T w - T (c_world c);
         M.ro_writes := map (write_of w (c_world c)) (touched w (c_world c)) |}
    | Final ORevert ret g =>
      {| M.ro_err := M.VRevert; M.ro_gas := g; M.ro_retlen := Z.of_nat (length ret); M.ro_retcode := id_of_code ret;
         M.ro_refund := 0; M.ro_burn := 0; M.ro_writes := [] |}
    | _ => failed_output
    end
  else failed_output.

(** * The guard establishes the invariants *)
Lemma keys_world_of : forall s, keys (world_of s) = map Z.of_N (nodup N.eq_dec U).
Proof. intros s. unfold keys, world_of. cbn [w_accts]. rewrite map_map. reflexivity. Qed.

Lemma guard_P : forall s o addr, guard (world_of s) o addr = true ->
    exists n0, n0 <> 0 /\ P o n0 (world_of s) /\ addr <> o.
Proof.
  intros s o addr H. unfold guard in H. apply andb_true_iff in H. destruct H as [H Hne].
  apply andb_true_iff in H. destruct H as [Hb Ho].
  destruct (get_acct (world_of s) o) as [x|] eqn:Hx; [|discriminate].
  apply andb_true_iff in Ho. destruct Ho as [Ho Hd]. apply andb_true_iff in Ho. destruct Ho as [Hn Hc].
  exists (a_nonce x). split; [apply negb_true_iff in Hn; apply Z.eqb_neq in Hn; exact Hn|]. split.
  - split; [|split].
    + rewrite keys_world_of. apply Injective_map_NoDup; [intros a b; apply N2Z.inj|apply NoDup_nodup].
    + rewrite Forall_forall. intros p Hp. split.
      * unfold world_of in Hp. cbn [w_accts] in Hp. apply in_map_iff in Hp. destruct Hp as [a [<- _]]. cbn [fst]. lia.
      * rewrite forallb_forall in Hb. specialize (Hb p Hp). apply Z.leb_le in Hb. exact Hb.
    + exists x. split; [exact Hx|]. repeat split; auto.
      * destruct (a_code x); [reflexivity|discriminate].
      * apply negb_true_iff in Hd. exact Hd.
  - apply negb_true_iff in Hne. apply Z.eqb_neq in Hne. exact Hne.
Qed.

(** * Gas along a run *)
Lemma run_n_INV : forall e n c, INV c -> WF c ->
    INV (run_n keccak blockhash e n c) /\ WF (run_n keccak blockhash e n c) /\
    total_gas (run_n keccak blockhash e n c) <= total_gas c.
Proof.
  intros e n. induction n as [|n IH]; intros c HI HW; cbn [run_n]; [split; [exact HI|split; [exact HW|lia]]|].
  assert (Hs : INV (step keccak blockhash e c) /\ total_gas (step keccak blockhash e c) <= total_gas c).
  { destruct (c_status c) eqn:Hst.
    - destruct (c_frames c) as [|f rest] eqn:Hf; [exfalso; apply (HW Hst); exact Hf|].
      destruct (step_main keccak blockhash e c f rest HI Hst Hf) as [A [B _]]. auto.
    - rewrite step_idle; [split; [exact HI|lia]|left; congruence].
    - rewrite step_idle; [split; [exact HI|lia]|left; congruence]. }
  destruct Hs as [HI' Ht].
  destruct (IH _ HI' (step_WF keccak blockhash e c HW)) as [A [B C]]. split; [exact A|split; [exact B|lia]].
Qed.

Lemma start_INV : forall s ci, 0 <= M.ci_gas ci ->
    INV (start_config s ci) /\ WF (start_config s ci) /\ total_gas (start_config s ci) = M.ci_gas ci.
Proof.
  intros s ci Hg. unfold start_config. split; [|split].
  - split.
    + split; [cbn [c_frames]; constructor; [exact Hg|constructor]|exact I].
    + cbn [c_frames]. constructor; [|constructor]. apply fresh_memok; reflexivity.
  - intros _. cbn [c_frames]. discriminate.
  - cbn [total_gas c_status c_frames frames_gas new_frame f_gas]. lia.
Qed.

(** * The contract *)
Lemma sum_dbal_map : forall (g : Z -> M.write) K, PB.sum_dbal (map g K) = ksum (fun a => M.w_dbal (g a)) K.
Proof. intros g K. induction K as [|a K IH]; [reflexivity|]. cbn [map PB.sum_dbal ksum fold_right]. f_equal. exact IH. Qed.

Lemma ksum_sub : forall (f g : Z -> Z) K, ksum (fun a => f a - g a) K = ksum f K - ksum g K.
Proof. intros f g K. induction K as [|a K IH]; [reflexivity|]. cbn [ksum fold_right]. fold (ksum f K) (ksum g K) (ksum (fun a => f a - g a) K). lia. Qed.

Theorem run10_exec_ok : PV.ExecOK run10.
Proof.
  constructor.
  - (* gas *)
    intros s ci Hg. unfold run10.
    destruct (guard (world_of s) (Z.of_N (M.ci_origin ci)) (Z.of_N (M.ci_addr ci)) && (0 <=? M.ci_gas ci)); [|cbn [failed_output M.ro_gas M.ro_burn]; lia].
    destruct (run_pow_spec keccak blockhash (env_for ci) 64 (start_config s ci)) as [k [_ [He _]]]. rewrite He.
    destruct (start_INV s ci Hg) as [HI [HW Ht]].
    destruct (run_n_INV (env_for ci) k _ HI HW) as [[[_ Hfin] _] [_ Hle]].
    unfold total_gas in Hle at 1.
    destruct (c_status (run_n keccak blockhash (env_for ci) k (start_config s ci))) as [|o ret g|]; try (cbn [failed_output M.ro_gas M.ro_burn]; lia).
    destruct o; cbn [M.ro_gas failed_output]; lia.
  - (* burn >= 0 *)
    intros s ci. unfold run10.
    destruct (guard (world_of s) (Z.of_N (M.ci_origin ci)) (Z.of_N (M.ci_addr ci))) eqn:Hgd; cbn [andb]; [|cbn [failed_output M.ro_gas M.ro_burn]; lia].
    destruct (0 <=? M.ci_gas ci); [|cbn [failed_output M.ro_gas M.ro_burn]; lia].
    destruct (guard_P _ _ _ Hgd) as [n0 [Hn0 [HP Hne]]].
    destruct (run_pow_spec keccak blockhash (env_for ci) 64 (start_config s ci)) as [k [_ [He _]]]. rewrite He.
    assert (HB : INVB (Z.of_N (M.ci_origin ci)) n0 (T (world_of s)) (start_config s ci)).
    { unfold INVB, start_config. cbn [c_world c_frames map tchain new_frame f_snap].
      split; [exact HP|]. split; [|lia].
      constructor; [|constructor]. unfold FI. cbn [new_frame f_snap f_self]. split; [exact HP|]. split; [exact Hne|lia]. }
    pose proof (run_n_B keccak blockhash _ n0 Hn0 _ (env_for ci) k _ HB) as [_ [HF Hch]].
    destruct (run_n keccak blockhash (env_for ci) k (start_config s ci)) as [frs wf st]. cbn [c_status c_world c_frames] in *.
    destruct st as [|o ret g|]; try (cbn [failed_output M.ro_gas M.ro_burn]; lia). destruct o; cbn [M.ro_burn failed_output]; try lia.
    (* final: no frames left?  the chain gives T wf <= ... <= T w0 whatever frames remain *)
    clear -Hch. revert Hch. generalize (T wf). induction (map f_snap frs) as [|x l IH]; cbn [tchain]; intros z H; [lia|].
    destruct H as [H1 H2]. specialize (IH _ H2). lia.
  - (* moves *)
    intros s ci Hok. unfold run10 in *.
    destruct (guard (world_of s) (Z.of_N (M.ci_origin ci)) (Z.of_N (M.ci_addr ci))) eqn:Hgd; cbn [andb] in *; [|discriminate].
    destruct (0 <=? M.ci_gas ci); [|discriminate].
    destruct (guard_P _ _ _ Hgd) as [n0 [Hn0 [HP Hne]]].
    destruct (run_pow_spec keccak blockhash (env_for ci) 64 (start_config s ci)) as [k [_ [He _]]]. rewrite He in *.
    assert (HB : INVB (Z.of_N (M.ci_origin ci)) n0 (T (world_of s)) (start_config s ci)).
    { unfold INVB, start_config. cbn [c_world c_frames map tchain new_frame f_snap].
      split; [exact HP|]. split; [|lia].
      constructor; [|constructor]. unfold FI. cbn [new_frame f_snap f_self]. split; [exact HP|]. split; [exact Hne|lia]. }
    pose proof (run_n_B keccak blockhash _ n0 Hn0 _ (env_for ci) k _ HB) as [HPf _].
    destruct (run_n keccak blockhash (env_for ci) k (start_config s ci)) as [frs wf st]. cbn [c_status c_world c_frames] in *.
    destruct st as [|o ret g|]; try discriminate. destruct o; try discriminate.
    cbn [M.ro_writes M.ro_burn]. rewrite sum_dbal_map. unfold write_of. cbn [M.w_dbal].
    rewrite ksum_sub.
    assert (HK : NoDup (touched (world_of s) wf)) by apply NoDup_nodup.
    destruct HP as [Hk0 _]. destruct HPf as [Hkf _].
    rewrite (ksum_T wf _ HK Hkf), (ksum_T (world_of s) _ HK Hk0); [lia| |].
    + intros a Ha. unfold touched. apply nodup_In. apply in_or_app. right. exact Ha.
    + intros a Ha. unfold touched. apply nodup_In. apply in_or_app. left. exact Ha.
  - (* refund *)
    intros s ci. unfold run10.
    destruct (_ && _); [|cbn [failed_output M.ro_refund]; lia].
    match goal with |- context [c_status ?c] => destruct (c_status c) as [|o ret g|] end;
      try (cbn [failed_output M.ro_refund]; lia). destruct o; cbn [failed_output M.ro_refund]; lia.
  - (* return length *)
    intros s ci. unfold run10.
    destruct (_ && _); [|cbn [failed_output M.ro_retlen]; lia].
    match goal with |- context [c_status ?c] => destruct (c_status c) as [|o ret g|] end;
      try (cbn [failed_output M.ro_retlen]; lia). destruct o; cbn [M.ro_retlen failed_output]; lia.
  - (* origin *)
    intros s ci w Hin Haddr. unfold run10 in Hin.
    destruct (guard (world_of s) (Z.of_N (M.ci_origin ci)) (Z.of_N (M.ci_addr ci))) eqn:Hgd; cbn [andb] in *; [|destruct Hin].
    destruct (0 <=? M.ci_gas ci); [|destruct Hin].
    destruct (guard_P _ _ _ Hgd) as [n0 [Hn0 [HP Hne]]].
    destruct (run_pow_spec keccak blockhash (env_for ci) 64 (start_config s ci)) as [k [_ [He _]]]. rewrite He in *.
    assert (HB : INVB (Z.of_N (M.ci_origin ci)) n0 (T (world_of s)) (start_config s ci)).
    { unfold INVB, start_config. cbn [c_world c_frames map tchain new_frame f_snap].
      split; [exact HP|]. split; [|lia].
      constructor; [|constructor]. unfold FI. cbn [new_frame f_snap f_self]. split; [exact HP|]. split; [exact Hne|lia]. }
    pose proof (run_n_B keccak blockhash _ n0 Hn0 _ (env_for ci) k _ HB) as [HPf _].
    destruct (run_n keccak blockhash (env_for ci) k (start_config s ci)) as [frs wf st]. cbn [c_status c_world c_frames] in *.
    destruct st as [|o ret g|]; try destruct Hin. destruct o; try destruct Hin.
    cbn [M.ro_writes] in Hin. apply in_map_iff in Hin. destruct Hin as [a [<- Ha]].
    cbn [write_of M.w_addr M.w_dnonce M.w_dead] in *.
    (* the address is a key of one of the two worlds, hence non-negative, hence the origin itself *)
    assert (Ha0 : 0 <= a).
    { unfold touched in Ha. apply nodup_In in Ha. apply in_app_or in Ha.
      assert (Hk : forall w', P (Z.of_N (M.ci_origin ci)) n0 w' -> In a (keys w') -> 0 <= a).
      { intros w' [_ [Hg _]] Hk. unfold keys in Hk. apply in_map_iff in Hk. destruct Hk as [p [<- Hp]].
        rewrite Forall_forall in Hg. apply (Hg p Hp). }
      destruct Ha; eauto. }
    assert (Hao : a = Z.of_N (M.ci_origin ci)) by (rewrite <- Haddr; rewrite Z2N.id; auto).
    subst a.
    pose proof (origin_acct _ _ _ HP) as [A1 [A2 A3]]. pose proof (origin_acct _ _ _ HPf) as [B1 [B2 B3]].
    unfold nonce. split; [lia|exact B3].
Qed.

(** C09's results, discharged for the C10 interpreter (instances of the lemmas behind C09_gas_bounds,
    C09_pool_exact, C09_nonce and C09_fee_flow; every theorem of C09/Properties.v of the form
    [forall run ca, ExecOK run -> ...] specialises the same way).  This file does not import
    C09/Properties.v, so that C09/Properties.v can import it and state its theorems for [run10]. *)
Definition C09_gas_bounds_for_C10 ca := Kardia.C09.ProofsTx.executed_gas_bounds run10 ca run10_exec_ok.
Definition C09_pool_exact_for_C10 ca := Kardia.C09.ProofsTx.executed_pool run10 ca run10_exec_ok.
Definition C09_nonce_for_C10 ca := Kardia.C09.ProofsTx.executed_nonce run10 ca run10_exec_ok.
Definition C09_fee_flow_for_C10 ca := Kardia.C09.ProofsTx.executed_fee_flow run10 ca run10_exec_ok.

End Bridge.
