(** C10 — property theorems only.  Each is closed by [exact] of a lemma proved in Proofs*.v and
    followed by [Print Assumptions].  [keccak] and [blockhash] are arbitrary functions (the hash is
    never axiomatised); [reachable] is the set of configurations of the reference interpreter
    reached from any top-level call or creation by any number of steps. *)
From Coq Require Import List ZArith NArith Bool.
From Kardia Require Import C10.U256 C10.EVM C10.ProofsArith C10.ProofsTables C10.ProofsInv Generated.C10Facts.
Import ListNotations.
Local Open Scope Z_scope.

(** the generated jump tables (both instruction sets, all 256 slots) agree with the model's
    decoder on stack requirements and on every flag column; every present non-halting opcode
    costs at least 1 gas; frame-creating opcodes cost at least 2 *)
Theorem C10_tables_consistent : forall keccak blockhash,
    forallb (slot_ok keccak blockhash table_v1) all_ops = true /\
    forallb (slot_ok keccak blockhash table_v2) all_ops = true.
Proof. exact tables_ok. Qed.
Print Assumptions C10_tables_consistent.

(** stack <= 1024 items in every frame of every reachable configuration *)
Theorem C10_stack_bound : forall keccak blockhash e c f,
    reachable keccak blockhash e c -> In f (c_frames c) -> (length (f_stack f) <= 1024)%nat.
Proof. exact stack_bound. Qed.
Print Assumptions C10_stack_bound.

(** at most 1024 nested calls below the top-level frame (kvm.depth <= 1025 inside Run) *)
Theorem C10_depth_bound : forall keccak blockhash e c,
    reachable keccak blockhash e c -> (length (c_frames c) <= 1025)%nat.
Proof. exact depth_bound. Qed.
Print Assumptions C10_depth_bound.

(** arithmetic against the mathematical definitions *)
Theorem C10_sdiv_spec : forall a b, is_word a -> is_word b -> b <> 0 ->
    ~ (signed a = - HALF /\ signed b = -1) -> signed (sdiv a b) = Z.quot (signed a) (signed b).
Proof. exact sdiv_spec. Qed.
Print Assumptions C10_sdiv_spec.
Theorem C10_smod_spec : forall a b, is_word a -> is_word b -> b <> 0 ->
    signed (smod a b) = Z.rem (signed a) (signed b).
Proof. exact smod_spec. Qed.
Print Assumptions C10_smod_spec.
Theorem C10_addmod_spec : forall a b n, n <> 0 -> addmod a b n = (a + b) mod n.
Proof. exact addmod_spec. Qed.
Print Assumptions C10_addmod_spec.
Theorem C10_mulmod_spec : forall a b n, n <> 0 -> mulmod a b n = (a * b) mod n.
Proof. exact mulmod_spec. Qed.
Print Assumptions C10_mulmod_spec.
Theorem C10_exp_spec : forall a b, 0 <= b -> exp a b = (a ^ b) mod W.
Proof. exact exp_spec. Qed.
Print Assumptions C10_exp_spec.
Theorem C10_signextend_spec : forall k x, 0 <= k < 31 -> is_word x ->
    signed (signextend k x) =
    (let bits := 8 * k + 8 in let low := x mod 2 ^ bits in if low <? 2 ^ (bits - 1) then low else low - 2 ^ bits).
Proof. exact signextend_spec. Qed.
Print Assumptions C10_signextend_spec.
Theorem C10_sar_spec : forall s v, 0 <= s < 256 -> is_word v -> signed (sar s v) = Z.shiftr (signed v) s.
Proof. exact sar_spec. Qed.
Print Assumptions C10_sar_spec.
Theorem C10_byte_spec : forall i x, 0 <= i < 32 -> 0 <= x -> byte i x = Z.land (Z.shiftr x (8 * (31 - i))) 255.
Proof. exact byte_spec. Qed.
Print Assumptions C10_byte_spec.
