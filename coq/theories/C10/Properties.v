(** C10 — property theorems only.  Each is closed by [exact] of a lemma proved in Proofs*.v and
    followed by [Print Assumptions].  [keccak] and [blockhash] are arbitrary functions (the hash is
    never axiomatised); [reachable] is the set of configurations of the reference interpreter
    reached from any top-level call or creation by any number of steps. *)
From Coq Require Import List ZArith NArith Bool.
From Kardia Require Import C10.U256 C10.EVM C10.ProofsArith C10.ProofsTables C10.ProofsInv C10.ProofsFrames
  C10.ProofsStatic C10.ProofsGas C10.ProofsTerm C10.ProofsBal C10.ProofsMem C10.ProofsRet C10.ProofsExamples C10.ToC09 Generated.C10Facts.
Import ListNotations.
Local Open Scope Z_scope.

(** the generated jump tables (both instruction sets, all 256 slots) agree with the model's
    decoder on stack requirements and on every flag column; every present non-halting opcode
    costs at least 1 gas; frame-creating opcodes cost at least 2 *)
Theorem C10_tables_consistent : forall keccak blockhash,
    forallb (slot_ok keccak blockhash table_v1) all_ops = true /\
    forallb (slot_ok keccak blockhash table_v2) all_ops = true.
Proof. exact tables_ok. Qed.
Print Assumptions C10_tables_consistent.

(** stack <= 1024 items in every frame of every reachable configuration *)
Theorem C10_stack_bound : forall keccak blockhash e c f,
    reachable keccak blockhash e c -> In f (c_frames c) -> (length (f_stack f) <= 1024)%nat.
Proof. exact stack_bound. Qed.
Print Assumptions C10_stack_bound.

(** at most 1024 nested calls below the top-level frame (kvm.depth <= 1025 inside Run) *)
Theorem C10_depth_bound : forall keccak blockhash e c,
    reachable keccak blockhash e c -> (length (c_frames c) <= 1025)%nat.
Proof. exact depth_bound. Qed.
Print Assumptions C10_depth_bound.

(** static frames: in every reachable configuration the world is observationally equal (same logs;
    same nonce, balance, code, storage and self-destruct mark at every address — only the existence
    of empty "touched" accounts may differ) to the entry snapshot of every live static frame, and
    no contract-creation frame is static *)
Theorem C10_static_no_write : forall keccak blockhash e c p,
    reachable keccak blockhash e c -> In p (c_frames c) -> f_static p = true ->
    weqv (f_snap p) (c_world c) /\ f_kind p <> KCreate.
Proof. exact static_no_write. Qed.
Print Assumptions C10_static_no_write.

(** ... and an opcode flagged [writes] in the real table, or a CALL carrying value, ends a static
    frame with an error *)
Theorem C10_static_write_fails : forall keccak blockhash e c f rest info,
    c_status c = Running -> c_frames c = f :: rest -> f_static f = true ->
    op_info e (cur_op f) = Some info ->
    (oi_writes info = true \/ (cur_op f = 241 /\ sk (f_stack f) 2 <> 0)) ->
    (exists er, step keccak blockhash e c = fail er f (c_world c) rest) \/
    step keccak blockhash e c = mk_config (f :: rest) (c_world c) Unsupported.
Proof. exact static_write_fails. Qed.
Print Assumptions C10_static_write_fails.

(** side condition on the generated table: every model instruction that changes storage, logs,
    balances, code or the account set is flagged [writes] in the real table *)
Theorem C10_model_writes_flagged : forall keccak blockhash e op info i,
    op_info e op = Some info -> decode keccak blockhash op = Some i -> instr_writes i = true -> oi_writes info = true.
Proof. exact model_writes_flagged. Qed.
Print Assumptions C10_model_writes_flagged.

(** a frame that ends with a revert or an error leaves no state change: the step that ends frame [f]
    yields an outcome [o1] (what the embedder or the caller's stack sees); unless [o1] is success the
    world is exactly the snapshot taken when [f] was entered *)
Theorem C10_failed_frame_no_change : forall keccak blockhash e c f rest,
    c_status c = Running -> c_frames c = f :: rest ->
    (length (c_frames (step keccak blockhash e c)) <= length rest)%nat ->
    exists o1 : outcome,
      (o1 <> OOk -> c_world (step keccak blockhash e c) = f_snap f) /\
      match rest with
      | [] => exists ret g, c_status (step keccak blockhash e c) = Final o1 ret g
      | p :: rest' => exists p', c_frames (step keccak blockhash e c) = p' :: rest' /\ sig p' = sig p /\
                                 hd 0 (f_stack p') = (if is_ok o1 then (if is_create (f_kind f) then f_self f else 1) else 0)
      end.
Proof. exact failed_frame_no_change. Qed.
Print Assumptions C10_failed_frame_no_change.

(** the snapshot is the world at frame entry (after the creator's nonce bump for creations, which
    KVM keeps too) ... *)
Theorem C10_entered_frame_snapshot : forall keccak blockhash e c f rest,
    c_status c = Running -> c_frames c = f :: rest ->
    (length (c_frames (step keccak blockhash e c)) > length (c_frames c))%nat ->
    exists child f', c_frames (step keccak blockhash e c) = child :: f' :: rest /\ sig f' = sig f /\
                     f_stack child = [] /\ entry_world (c_world c) (f_self f) child.
Proof. exact entered_frame_snapshot. Qed.
Print Assumptions C10_entered_frame_snapshot.

(** ... and the entry data (kind, address, static flag, snapshot) of a live frame never changes *)
Theorem C10_live_frames_keep_sig : forall keccak blockhash e c f rest,
    c_status c = Running -> c_frames c = f :: rest ->
    (exists top, map sig (c_frames (step keccak blockhash e c)) = top ++ map sig (f :: rest)) \/
    map sig (c_frames (step keccak blockhash e c)) = map sig rest.
Proof. exact live_frames_keep_sig. Qed.
Print Assumptions C10_live_frames_keep_sig.

(** gas is never negative, in any frame of any configuration reachable from a call or creation
    that was given non-negative gas, nor in the final result *)
Theorem C10_gas_never_negative : forall keccak blockhash e c, reachable_g keccak blockhash e c ->
    (forall f, In f (c_frames c) -> 0 <= f_gas f) /\
    (forall o ret g, c_status c = Final o ret g -> 0 <= g).
Proof. exact gas_never_negative. Qed.
Print Assumptions C10_gas_never_negative.

(** the total gas held by a configuration (sum over the live frames, or the final leftover) never
    increases *)
Theorem C10_gas_monotone : forall keccak blockhash e c,
    reachable_g keccak blockhash e c -> total_gas (step keccak blockhash e c) <= total_gas c.
Proof. exact gas_monotone. Qed.
Print Assumptions C10_gas_monotone.

(** every step of a running configuration either stops at an unsupported precompile call or strictly
    decreases [total gas + number of frames] — from "every present non-halting opcode costs >= 1,
    frame-creating opcodes >= 2" on the generated tables (C10_tables_consistent) *)
Theorem C10_step_bound : forall keccak blockhash e c,
    reachable_g keccak blockhash e c -> c_status c = Running ->
    c_status (step keccak blockhash e c) = Unsupported \/
    phi (step keccak blockhash e c) + 1 <= phi c.
Proof. exact step_bound. Qed.
Print Assumptions C10_step_bound.

(** hence a top-level call with [g] gas is over after at most g + 2 steps (termination) ... *)
Theorem C10_call_terminates : forall keccak blockhash e w t input g v, 0 <= g ->
    is_final (run_n keccak blockhash e (Z.to_nat (g + 2)) (init_call e w t input g v)) = true.
Proof. exact call_terminates. Qed.
Print Assumptions C10_call_terminates.
Theorem C10_create_terminates : forall keccak blockhash e w init g v, 0 <= g ->
    is_final (run_n keccak blockhash e (Z.to_nat (g + 2)) (init_create keccak e w init g v)) = true.
Proof. exact create_terminates. Qed.
Print Assumptions C10_create_terminates.

(** ... and the fuel of the extracted runner (2^64 steps) always suffices for uint64 gas: it never
    returns "out of fuel" *)
Theorem C10_total : forall keccak blockhash e w t input g v, 0 <= g < 2 ^ 64 - 1 ->
    is_final (run_call keccak blockhash e w t input g v) = true.
Proof. exact run_call_terminates. Qed.
Print Assumptions C10_total.
Theorem C10_total_create : forall keccak blockhash e w init g v, 0 <= g < 2 ^ 64 - 1 ->
    is_final (run_create keccak blockhash e w init g v) = true.
Proof. exact run_create_terminates. Qed.
Print Assumptions C10_total_create.

(** the contract that C09's model of transaction execution assumes of the VM ([ExecOK]: gas left
    between 0 and the gas given; balance deltas sum to minus the self-destruct burn, which is
    non-negative; refund and return length non-negative; the origin's nonce and self-destruct mark
    untouched) holds for the C10 interpreter wrapped as C09's [run] (ToC09.run10), for every
    concretisation of C09's abstract state — so C09's theorems hold for the C10 model *)
Theorem C10_exec_ok : forall keccak blockhash U code_of_id stor_of_id id_of_code id_of_stor input_of env_of,
    Kardia.C09.ProofsVM.ExecOK (run10 keccak blockhash U code_of_id stor_of_id id_of_code id_of_stor input_of env_of).
Proof. exact run10_exec_ok. Qed.
Print Assumptions C10_exec_ok.

(** balances: in every configuration reached from one where all balances are non-negative and the
    origin is an externally owned account, no balance is negative, the origin keeps its nonce and
    has no code, and the sum of all balances is at most the initial one ([INVB]) *)
Theorem C10_balances_invariant : forall keccak blockhash origin n0, n0 <> 0 ->
    forall T0 e n c, INVB origin n0 T0 c -> INVB origin n0 T0 (run_n keccak blockhash e n c).
Proof. exact run_n_B. Qed.
Print Assumptions C10_balances_invariant.

(** return data of the identity precompile is a COPY of its input (EVM specification; the real KVM
    agrees since /repo commit 8287a54, before that RETURNDATA aliased the caller's memory — fixed
    finding kvm-identity-returndata-aliased).  General form: a CALL-family instruction whose target is
    address 4 opens no frame; the caller continues with flag 1 and RETURNDATA = the bytes its memory
    held in the input range at that moment, or with flag 0 and empty RETURNDATA (not enough gas,
    depth, balance) ... *)
Theorem C10_identity_call_returns_input : forall keccak (blockhash : Z -> Z) e k f w rest cg,
    addr_of_word (sk (f_stack f) 1) = 4 ->
    exists f' w', exec keccak e (ICallOp k) f w rest cg = mk_config (f' :: rest) w' Running /\
                  ((hd 0 (f_stack f') = 1 /\ f_ret f' = call_input k f) \/
                   (hd 0 (f_stack f') = 0 /\ f_ret f' = [])).
Proof. exact exec_identity_ret. Qed.
Print Assumptions C10_identity_call_returns_input.

(** ... it succeeds exactly when the gas handed over covers 15 + 3 per input word (constants of /repo) ... *)
Theorem C10_identity_gas : forall w_ok w_snap args gas,
    run_precompile 4 w_ok w_snap args gas =
    if gas <? identity_cost args then SImmediate (OErr EOog) 0 w_snap [] else SImmediate OOk (gas - identity_cost args) w_ok args.
Proof. exact run_identity. Qed.
Print Assumptions C10_identity_gas.

(** ... and RETURNDATA belongs to the frame: over any number of steps of the same frame that execute no
    CALL-family / CREATE / CREATE2 instruction (memory writes, copies, storage, jumps, ...) it does not
    change — in particular it cannot follow later writes to the memory it was read from *)
Theorem C10_returndata_stable : forall keccak blockhash e c c', quiet keccak blockhash e c c' ->
    forall f rest, c_frames c = f :: rest ->
    exists f' rest', c_frames c' = f' :: rest' /\ length rest' = length rest /\ f_ret f' = f_ret f.
Proof. exact returndata_stable_run. Qed.
Print Assumptions C10_returndata_stable.

(** the concrete run: the model returns 0x11..11 on [identity_program] (see ProofsExamples.v) *)
Theorem C10_identity_returndata_is_a_copy :
  exists g, c_status (run_call (fun _ => 0) (fun _ => 0) ex_env ex_world 49374 [] 100000 0)
            = Final OOk (word_bytes 7719472615821079694904732333912527190217998977709370935963838933860875309329) g.
Proof. exact identity_returndata_is_a_copy. Qed.
Print Assumptions C10_identity_returndata_is_a_copy.

(** RETURNDATACOPY(dst, off, len) with non-negative operands: if off + len fits 64 bits and the buffer,
    exactly ret[off, off+len) is written (no padding); otherwise — including every off + len that
    would wrap around in 64 bits — the frame fails with "return data out of bounds" (and by
    C10_failed_frame_no_change leaves no state change) *)
Theorem C10_returndatacopy_spec : forall keccak (blockhash : Z -> Z) e f w rest cg,
    0 <= sk (f_stack f) 1 -> 0 <= sk (f_stack f) 2 ->
    (rdc_ok f ->
     exec keccak e (ICopy SrcReturndata) f w rest cg =
     next (set_stack (set_mem f (mem_write (f_mem f) (sk (f_stack f) 0)
                                           (firstn (Z.to_nat (sk (f_stack f) 2)) (skipn (Z.to_nat (sk (f_stack f) 1)) (f_ret f))))
                              (f_mcost f))
                     (skipn 3 (f_stack f))) w rest) /\
    (~ rdc_ok f -> exec keccak e (ICopy SrcReturndata) f w rest cg = fail ERetOob f w rest).
Proof. exact returndatacopy_spec. Qed.
Print Assumptions C10_returndatacopy_spec.

(** jump destinations: [valid_jumpdest] is the code-bitmap analysis of kvm/contract.go — a destination is
    valid iff it lies in the code, the linear sweep over PUSH data marks it as an opcode position and the
    byte there is JUMPDEST (0x5b) ... *)
Theorem C10_valid_jumpdest_is_bitmap : forall code d, 0 <= d ->
    valid_jumpdest code d = true <->
    (d < Z.of_nat (length code) /\ nth (Z.to_nat d) (sweep code O) false = true /\ nth (Z.to_nat d) code 0 = 91).
Proof. exact valid_jumpdest_spec. Qed.
Print Assumptions C10_valid_jumpdest_is_bitmap.

(** ... hence no byte of the data of a PUSH that sits at an opcode position is a valid destination,
    whatever its value *)
Theorem C10_no_jump_into_push_data : forall code p k,
    nth p (sweep code O) false = true -> (1 <= k <= push_len (nth p code 0%Z))%nat ->
    valid_jumpdest code (Z.of_nat (p + k)) = false.
Proof. exact no_jump_into_push_data. Qed.
Print Assumptions C10_no_jump_into_push_data.

(** BLOCKHASH(n) is the embedder's hash only for n in [NUMBER-256, NUMBER) and n < 2^64; zero otherwise
    (the low 64 bits of a larger n are never looked at) *)
Theorem C10_blockhash_window : forall blockhash e n, 0 <= n ->
    (op_blockhash blockhash e n = blockhash n /\ n < U64 /\ e_number e - 256 <= n < e_number e) \/
    (op_blockhash blockhash e n = 0 /\ (U64 <= n \/ n < e_number e - 256 \/ e_number e <= n)).
Proof. exact blockhash_window. Qed.
Print Assumptions C10_blockhash_window.

(** the depth limit is enforced by EVERY frame-creating operation: with more than 1024 frames below, a
    message call of any kind and a creation are refused at once, hand all their gas back and change nothing *)
Theorem C10_depth_limit_call : forall k d w ps pc pv pst t args g v ro rs,
    call_create_depth < d -> start_call k d w ps pc pv pst t args g v ro rs = SImmediate (OErr EDepth) g w [].
Proof. exact depth_limit_call. Qed.
Print Assumptions C10_depth_limit_call.
Theorem C10_depth_limit_create : forall d w ps pst a init g v,
    call_create_depth < d -> start_create d w ps pst a init g v = SImmediate (OErr EDepth) g w [].
Proof. exact depth_limit_create. Qed.
Print Assumptions C10_depth_limit_create.

(** a creation (depth and balance permitting) at an address that already has a nonce or code fails, burns
    all the gas handed over and changes only the creator's nonce; an address with just a balance is free *)
Theorem C10_create_collision : forall d w ps pst a init g v,
    d <= call_create_depth -> 0 <= v <= balance w ps ->
    let w1 := set_nonce w ps (nonce w ps + 1) in
    nonce w1 a <> 0 \/ code_of w1 a <> [] ->
    start_create d w ps pst a init g v = SImmediate (OErr ECollision) 0 w1 [].
Proof. exact create_collision. Qed.
Print Assumptions C10_create_collision.

(** "every stack value is a 256-bit word" is FALSE without hypotheses on the start state (the model copies
    environment values, balances, code bytes, storage and hash results as they are): with gas price -1 and
    the program GASPRICE; STOP a reachable stack holds -1.  The conditional statement (well-formed
    environment, world, input and hash functions) is in Open.v, not proved *)
Theorem C10_stack_words_unconditional_refuted : forall keccak blockhash,
    exists e c f x, reachable_g keccak blockhash e c /\ In f (c_frames c) /\ In x (f_stack f) /\ ~ is_word x.
Proof. exact stack_words_unconditional_refuted. Qed.
Print Assumptions C10_stack_words_unconditional_refuted.

(** memory is word-granular: the memory of every frame of every reachable configuration is a whole
    number of 32-byte words (every instruction write and every callee return write lands inside the
    memory that was resized for it — KVM's Memory.Set would panic otherwise) *)
Theorem C10_memory_word_granular : forall keccak blockhash e c f,
    reachable_g keccak blockhash e c -> In f (c_frames c) -> (Z.of_nat (length (f_mem f))) mod 32 = 0.
Proof. exact memory_word_granular. Qed.
Print Assumptions C10_memory_word_granular.

(** arithmetic against the mathematical definitions *)
Theorem C10_sdiv_spec : forall a b, is_word a -> is_word b -> b <> 0 ->
    ~ (signed a = - HALF /\ signed b = -1) -> signed (sdiv a b) = Z.quot (signed a) (signed b).
Proof. exact sdiv_spec. Qed.
Print Assumptions C10_sdiv_spec.
Theorem C10_smod_spec : forall a b, is_word a -> is_word b -> b <> 0 ->
    signed (smod a b) = Z.rem (signed a) (signed b).
Proof. exact smod_spec. Qed.
Print Assumptions C10_smod_spec.
Theorem C10_addmod_spec : forall a b n, n <> 0 -> addmod a b n = (a + b) mod n.
Proof. exact addmod_spec. Qed.
Print Assumptions C10_addmod_spec.
Theorem C10_mulmod_spec : forall a b n, n <> 0 -> mulmod a b n = (a * b) mod n.
Proof. exact mulmod_spec. Qed.
Print Assumptions C10_mulmod_spec.
Theorem C10_exp_spec : forall a b, 0 <= b -> exp a b = (a ^ b) mod W.
Proof. exact exp_spec. Qed.
Print Assumptions C10_exp_spec.
Theorem C10_signextend_spec : forall k x, 0 <= k < 31 -> is_word x ->
    signed (signextend k x) =
    (let bits := 8 * k + 8 in let low := x mod 2 ^ bits in if low <? 2 ^ (bits - 1) then low else low - 2 ^ bits).
Proof. exact signextend_spec. Qed.
Print Assumptions C10_signextend_spec.
Theorem C10_sar_spec : forall s v, 0 <= s < 256 -> is_word v -> signed (sar s v) = Z.shiftr (signed v) s.
Proof. exact sar_spec. Qed.
Print Assumptions C10_sar_spec.
Theorem C10_byte_spec : forall i x, 0 <= i < 32 -> 0 <= x -> byte i x = Z.land (Z.shiftr x (8 * (31 - i))) 255.
Proof. exact byte_spec. Qed.
Print Assumptions C10_byte_spec.

(** source tie: the stack-bound, static, gas, depth, balance, collision, code-size and bounds tests and the
    word-size / memory-cost / call-gas arithmetic of the model are the expressions of kvm/interpreter.go,
    kvm.go, gas.go, utils.go, stack.go, instructions.go, contract.go, memory.go, contracts.go and
    lib/{math,common} themselves, as translated from /repo's working tree by go2coq on every check
    (statement spelled out in SourceTie.v; operands pinned by the [_atoms] equalities) *)
From Kardia Require Import C10.SourceTie.
Theorem C10_source_tie : C10_source_tie_statement.
Proof. exact C10_source_tie_proof. Qed.
Print Assumptions C10_source_tie.

(** The decision-critical functions of the anchored code have exactly the decisions the source tie knows about
    (go2coq manifests, regenerated from /repo on every check; statement in SourceManifest.v). *)
From Kardia Require Import C10.SourceManifest.
Theorem C10_source_manifest : C10_source_manifest_statement.
Proof. exact C10_source_manifest_proof. Qed.
Print Assumptions C10_source_manifest.
