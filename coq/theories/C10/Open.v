(** C10 — statements that are NOT proved (kept as definitions so that nothing unproved is
    presented as a theorem).  What is missing for each is said next to it. *)
From Coq Require Import List ZArith Bool.
From Kardia Require Import C10.U256 C10.EVM C10.ProofsInv C10.ProofsGas C10.ProofsBal Generated.C10Facts.
Import ListNotations.
Local Open Scope Z_scope.

Section Open.
Variable keccak : list Z -> Z.
Variable blockhash : Z -> Z.

(** well-formed start of a run: everything the interpreter may copy to a stack is in range *)
Definition is_byte (b : Z) : Prop := 0 <= b < 256.
Definition wf_account (p : Z * account) : Prop :=
  0 <= fst p < 2 ^ 160 /\ 0 <= a_bal (snd p) /\ 0 <= a_nonce (snd p) /\
  Forall is_byte (a_code (snd p)) /\ Z.of_nat (length (a_code (snd p))) < W /\
  Forall (fun kv => is_word (fst kv) /\ is_word (snd kv)) (a_store (snd p)).
Definition wf_world (w : world) : Prop :=
  Forall wf_account (w_accts w) /\ bsum (w_accts w) < W.
Definition wf_env (e : env) : Prop :=
  0 <= e_origin e < 2 ^ 160 /\ 0 <= e_coinbase e < 2 ^ 160 /\ is_word (e_gasprice e) /\ is_word (e_number e) /\
  is_word (e_time e) /\ is_word (e_gaslimit e) /\ is_word (e_chainid e).
Definition wf_hashes : Prop := (forall l, is_word (keccak l)) /\ (forall n, is_word (blockhash n)).

Inductive reachable_wf (e : env) : config -> Prop :=
| rw_call : forall w t input g v, wf_env e -> wf_world w -> Forall is_byte input -> Z.of_nat (length input) < W ->
                                  0 <= t < 2 ^ 160 -> 0 <= g < 2 ^ 64 -> is_word v ->
                                  reachable_wf e (init_call e w t input g v)
| rw_create : forall w init g v, wf_env e -> wf_world w -> Forall is_byte init -> Z.of_nat (length init) < W ->
                                 0 <= g < 2 ^ 64 -> is_word v ->
                                 reachable_wf e (init_create keccak e w init g v)
| rw_step : forall c, reachable_wf e c -> reachable_wf e (step keccak blockhash e c).

(** every value on every stack is a 256-bit word, from a well-formed start.  NOT proved.
    (Without the well-formedness hypotheses the statement is false: Properties.v,
    C10_stack_words_unconditional_refuted — GASPRICE copies a negative gas price of the environment.)
    What exists: ProofsArith has the range closure of every arithmetic/bitwise/shift instruction; ProofsBal
    shows balances stay non-negative and their sum never grows (so BALANCE/SELFBALANCE results are bounded by
    the initial supply, here < 2^256); ProofsTerm bounds gas by the initial gas (< 2^64); ProofsMem bounds
    memory.  Missing: one invariant that ties them together for every value an instruction can push —
    memory/code/calldata/returndata contain bytes (0..255), storage holds words, pc <= |code| + 33,
    |code|, |calldata|, |returndata| < 2^256 — and its preservation by the ~30 instruction shapes and by
    frame entry/exit.  The model is robust without it: every place where a negative or oversized value could
    matter is guarded in EVM.v (call value, memory offsets/sizes, copy lengths, call gas). *)
Definition C10_stack_words_statement : Prop :=
  wf_hashes -> forall e c f x, reachable_wf e c -> In f (c_frames c) -> In x (f_stack f) -> is_word x.

End Open.
