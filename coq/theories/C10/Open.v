(** C10 — statements that are NOT proved yet (kept as definitions so that nothing unproved is
    presented as a theorem).  What is missing for each is said next to it. *)
From Coq Require Import List ZArith Bool.
From Kardia Require Import C10.U256 C10.EVM C10.ProofsInv C10.ProofsGas Generated.C10Facts.
Import ListNotations.
Local Open Scope Z_scope.

Section Open.
Variable keccak : list Z -> Z.
Variable blockhash : Z -> Z.

Definition frames_gas (l : list frame) : Z := fold_right (fun f acc => f_gas f + acc) 0 l.
(** gas held by a configuration: the frames' gas, or the final leftover *)
Definition total_gas (c : config) : Z :=
  match c_status c with Final _ _ g => g | _ => frames_gas (c_frames c) end.

(** C10_gas_monotone: the total gas never increases.  Missing: the per-instruction accounting
    (dynamic cost >= 0 needs the memory-cost invariant [f_mcost <= cost(|mem|/32)]; the call stipend
    is covered by the 9000 value-transfer charge — both side conditions are already checked on the
    generated constants in ProofsTables.limits_ok). *)
Definition C10_gas_monotone_statement : Prop :=
  forall e c, reachable_g keccak blockhash e c -> total_gas (step keccak blockhash e c) <= total_gas c.

(** C10_step_bound: every step of a running configuration either finishes or strictly decreases
    [total_gas + number of frames]; hence at most gas + 1 steps are taken.  The table side condition
    ("every present non-halting opcode has constant gas >= 1 or a modelled dynamic gas with lower
    bound >= 1; frame-creating opcodes cost >= 2") IS proved: C10_tables_consistent. *)
Definition C10_step_bound_statement : Prop :=
  forall e c, reachable_g keccak blockhash e c -> c_status c = Running ->
    is_final (step keccak blockhash e c) = true \/
    total_gas (step keccak blockhash e c) + Z.of_nat (length (c_frames (step keccak blockhash e c))) + 1
      <= total_gas c + Z.of_nat (length (c_frames c)).

(** termination of the extracted runner: 2^64 steps of fuel always suffice for uint64 gas *)
Definition C10_run_terminates_statement : Prop :=
  forall e w target input gas value, 0 <= gas < 2 ^ 64 - 1 ->
    is_final (run_call keccak blockhash e w target input gas value) = true.

(** every value on every stack is a 256-bit word (needs the balance/nonce/gas < 2^256 invariants of
    the world in addition to ProofsArith's range-closure lemmas) *)
Definition C10_stack_words_statement : Prop :=
  forall e c f x, reachable_g keccak blockhash e c -> In f (c_frames c) -> In x (f_stack f) -> is_word x.

End Open.
