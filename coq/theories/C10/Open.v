(** C10 — statements that are NOT proved (kept as definitions so that nothing unproved is
    presented as a theorem).  What is missing for each is said next to it. *)
From Coq Require Import List ZArith Bool.
From Kardia Require Import C10.U256 C10.EVM C10.ProofsInv C10.ProofsGas Generated.C10Facts.
Import ListNotations.
Local Open Scope Z_scope.

Section Open.
Variable keccak : list Z -> Z.
Variable blockhash : Z -> Z.

(** every value on every stack is a 256-bit word.  NOT proved.  What exists: ProofsArith has the range
    closure of every arithmetic/bitwise/shift instruction; ProofsBal shows balances stay non-negative
    and their sum never grows (so BALANCE/SELFBALANCE results are bounded by the initial supply);
    ProofsTerm bounds gas by the initial gas; ProofsMem bounds memory.  Missing: one invariant that
    ties them together for every value an instruction can push — memory/code/calldata/returndata
    contain bytes (0..255), storage holds words, environment values and hash results are words
    (hypotheses on [keccak], [blockhash] and the environment), pc <= |code| + 33, |code| and
    |calldata| < 2^256 — and its preservation by the ~30 instruction shapes.  The model is robust
    without it: every place where a negative or oversized value could matter is guarded in EVM.v
    (call value, memory offsets/sizes, copy lengths, call gas). *)
Definition C10_stack_words_statement : Prop :=
  forall e c f x, reachable_g keccak blockhash e c -> In f (c_frames c) -> In x (f_stack f) -> is_word x.

End Open.
