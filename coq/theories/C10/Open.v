(** C10 — statements that are NOT proved (kept as definitions so that nothing unproved is
    presented as a theorem).  What is missing for each is said next to it. *)
From Coq Require Import List ZArith Bool.
From Kardia Require Import C10.U256 C10.EVM C10.ProofsInv C10.ProofsGas Generated.C10Facts.
Import ListNotations.
Local Open Scope Z_scope.

Section Open.
Variable keccak : list Z -> Z.
Variable blockhash : Z -> Z.

(** every value on every stack is a 256-bit word.  Missing: the invariants that balances, nonces,
    gas, environment values and hash results are below 2^256 (ProofsArith has the range closure of
    every arithmetic instruction). *)
Definition C10_stack_words_statement : Prop :=
  forall e c f x, reachable_g keccak blockhash e c -> In f (c_frames c) -> In x (f_stack f) -> is_word x.

(** memory grows in whole 32-byte words and no write lands outside it (KVM would panic in Memory.Set
    otherwise).  Missing: the link between each instruction's memory-size function and the range it
    writes, and the cross-frame fact that a callee's return range lies inside the caller's resized
    memory.  (Observed, not proved: no panic in any generated run.) *)
Definition C10_memory_word_granular_statement : Prop :=
  forall e c f, reachable_g keccak blockhash e c -> In f (c_frames c) -> (length (f_mem f) mod 32 = 0)%nat.

End Open.
