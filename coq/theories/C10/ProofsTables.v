(** C10 — side conditions on the generated jump tables (Generated/C10Facts.v), checked by
    computation over all 256 slots of both tables every time the facts are regenerated:
    the model's instruction decoder agrees with the real tables on stack requirements and on
    the halts/jumps/writes/reverts/returns/memorySize/dynamicGas columns, and every present
    non-halting opcode costs at least one unit of gas. *)
From Coq Require Import List ZArith Bool Lia.
From Kardia Require Import C10.U256 C10.EVM Generated.C10Facts.
Import ListNotations.
Local Open Scope Z_scope.

Section Tables.
Variable keccak : list Z -> Z.
Variable blockhash : Z -> Z.

Definition dummy_world : world := mk_world [] [].
Definition dummy_frame : frame := new_frame KCall 0 0 0 [] [] 0 false dummy_world 0 0.

Definition has_mem (op : Z) (i : instr) : bool :=
  match instr_mem op i [] with None => false | Some _ => true end.
Definition has_dyn (op : Z) (i : instr) : bool :=
  match instr_dyn op i dummy_frame dummy_world [] 0 with None => false | Some _ => true end.

(** opcodes with no constant gas whose modelled dynamic gas has a positive lower bound *)
Definition dyn_floor (i : instr) (op : Z) : Z :=
  match i with
  | IFun _ _ => if op =? 10 then g_exp else 0
  | ISstore => Z.min g_sstore_set (Z.min g_sstore_clear g_sstore_reset)
  | ILog _ => g_log
  | _ => 0
  end.
Definition pushes_frame (i : instr) : bool :=
  match i with ICreate | ICreate2 | ICallOp _ => true | _ => false end.

Definition slot_ok (t : list (option opinfo)) (op : Z) : bool :=
  match nth_error t (Z.to_nat op) with
  | None => false
  | Some None => true
  | Some (Some info) =>
    match decode keccak blockhash op with
    | None => false     (* present in the real table but not modelled *)
    | Some i =>
      (oi_min info =? Z.of_nat (instr_pops i))
      && (oi_max info =? stack_limit + Z.of_nat (instr_pops i) - Z.of_nat (instr_pushes i))
      && Bool.eqb (oi_halts info) (instr_halts i) && Bool.eqb (oi_jumps info) (instr_jumps i)
      && Bool.eqb (oi_writes info) (instr_writes i) && Bool.eqb (oi_reverts info) (instr_reverts i)
      && Bool.eqb (oi_returns info) (instr_returns i)
      && Bool.eqb (oi_mem info) (has_mem op i) && Bool.eqb (oi_dyn info) (has_dyn op i)
      && (0 <=? oi_gas info)
      && ((1 <=? oi_gas info) || (1 <=? dyn_floor i op) || instr_halts i || instr_reverts i)
      && (negb (pushes_frame i) || (2 <=? oi_gas info))
    end
  end.

Definition all_ops : list Z := map Z.of_nat (seq 0 256).

Lemma tables_ok :
  forallb (slot_ok table_v1) all_ops = true /\ forallb (slot_ok table_v2) all_ops = true.
Proof. split; vm_compute; reflexivity. Qed.

Lemma limits_ok : stack_limit = 1024 /\ call_create_depth = 1024 /\ 0 <= g_create_data /\
                  g_call_stipend < g_call_value_transfer /\ 0 <= g_memory /\ 0 < g_quad_coeff_div /\
                  0 <= g_copy /\ 0 <= g_sha3_word /\ 0 <= g_exp_byte /\ 0 <= g_log_topic /\ 0 <= g_log_data /\
                  0 <= g_call_new_account /\ 0 <= g_create_by_selfdestruct.
Proof. vm_compute. repeat split; congruence. Qed.

Lemma in_all_ops : forall op, 0 <= op < 256 -> In op all_ops.
Proof.
  intros op H. unfold all_ops. apply in_map_iff. exists (Z.to_nat op). split.
  - lia.
  - apply in_seq. lia.
Qed.

(** what the tables guarantee for an opcode the interpreter is about to execute *)
Record slot_facts (info : opinfo) (op : Z) (i : instr) : Prop := {
  sf_min : oi_min info = Z.of_nat (instr_pops i);
  sf_max : oi_max info = 1024 + Z.of_nat (instr_pops i) - Z.of_nat (instr_pushes i);
  sf_halts : oi_halts info = instr_halts i;
  sf_writes : oi_writes info = instr_writes i;
  sf_reverts : oi_reverts info = instr_reverts i;
  sf_gas0 : 0 <= oi_gas info;
  sf_gas1 : 1 <= oi_gas info \/ 1 <= dyn_floor i op \/ instr_halts i = true \/ instr_reverts i = true;
  sf_gas2 : pushes_frame i = true -> 2 <= oi_gas info }.

Lemma slot_facts_of : forall e op info i,
    op_info e op = Some info -> decode keccak blockhash op = Some i -> slot_facts info op i.
Proof.
  intros e op info i Hinfo Hdec. unfold op_info in Hinfo.
  destruct ((0 <=? op) && (op <? 256)) eqn:Hr; [|discriminate].
  apply andb_true_iff in Hr. destruct Hr as [H0 H1].
  assert (Hin : In op all_ops) by (apply in_all_ops; lia).
  assert (Hok : slot_ok (table e) op = true).
  { destruct tables_ok as [T1 T2]. unfold table. destruct (e_v2 e).
    - rewrite forallb_forall in T2. apply T2; exact Hin.
    - rewrite forallb_forall in T1. apply T1; exact Hin. }
  unfold slot_ok in Hok.
  destruct (nth_error (table e) (Z.to_nat op)) as [[info'|]|]; try discriminate.
  inversion Hinfo; subst info'. rewrite Hdec in Hok.
  repeat (apply andb_true_iff in Hok; destruct Hok as [Hok ?]).
  destruct limits_ok as [SL _].
  constructor.
  - lia.
  - rewrite <- SL. lia.
  - apply eqb_prop; assumption.
  - apply eqb_prop; assumption.
  - apply eqb_prop; assumption.
  - lia.
  - match goal with H : (_ || _ || _ || _) = true |- _ =>
      apply orb_true_iff in H; destruct H as [H|H]; [apply orb_true_iff in H; destruct H as [H|H];
        [apply orb_true_iff in H; destruct H as [H|H]|]|] end.
    + left; lia.
    + right; left; lia.
    + right; right; left; assumption.
    + right; right; right; assumption.
  - intros Hp. match goal with H : (negb _ || _) = true |- _ => rewrite Hp in H; simpl in H end. lia.
Qed.

End Tables.
