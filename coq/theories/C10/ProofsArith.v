(** C10 — proofs about the EVM 256-bit word arithmetic of U256.v: range closure of every
    operation and characterisation against the mathematical definitions. *)
From Coq Require Import ZArith Bool Lia List.
From Kardia Require Import C10.U256.
Local Open Scope Z_scope.
Ltac Zify.zify_post_hook ::= Z.div_mod_to_equations.

(** * Basic facts about the constants (computed once; W and HALF stay folded afterwards) *)
Lemma W_pos : 0 < W. Proof. reflexivity. Qed.
Lemma HALF_pos : 0 < HALF. Proof. reflexivity. Qed.
Lemma W_eq : W = 2 * HALF. Proof. reflexivity. Qed.
Lemma W_gt_256 : 256 < W. Proof. reflexivity. Qed.
Lemma W_pow : W = 2 ^ 256. Proof. reflexivity. Qed.
Lemma HALF_pow : HALF = 2 ^ 255. Proof. reflexivity. Qed.
Lemma W_ones : W - 1 = Z.ones 256. Proof. reflexivity. Qed.
Lemma W_bytes : 256 ^ Z.of_nat 32 = W. Proof. reflexivity. Qed.

Ltac wfacts :=
  pose proof W_pos; pose proof HALF_pos; pose proof W_eq; pose proof W_gt_256.

(** * Range closure *)

Lemma wrap_word : forall z, is_word (wrap z).
Proof. intros z. unfold is_word, wrap. apply Z.mod_pos_bound. exact W_pos. Qed.

Lemma wrap_id : forall z, is_word z -> wrap z = z.
Proof. intros z H. unfold wrap. apply Z.mod_small. exact H. Qed.

Lemma wrap_neg : forall z, - W <= z < 0 -> wrap z = z + W.
Proof.
  intros z H. unfold wrap. symmetry.
  apply (Z.mod_unique z W (-1) (z + W)); lia.
Qed.

Lemma b2w_word : forall b, is_word (b2w b).
Proof. intros b. wfacts. unfold is_word. destruct b; simpl; lia. Qed.

Lemma zero_word : is_word 0.
Proof. wfacts. unfold is_word. lia. Qed.

Lemma signed_range : forall a, is_word a -> - HALF <= signed a < HALF.
Proof.
  intros a H. wfacts. unfold is_word in H. unfold signed.
  destruct (Z.ltb_spec a HALF); lia.
Qed.

Lemma signed_wrap : forall a, is_word a -> wrap (signed a) = a.
Proof.
  intros a H. wfacts. unfold is_word in H. unfold signed.
  destruct (Z.ltb_spec a HALF).
  - apply wrap_id. exact H.
  - rewrite wrap_neg by lia. lia.
Qed.

(** [signed] inverts [wrap] on the two's complement range *)
Lemma signed_wrap_inv : forall z, - HALF <= z < HALF -> signed (wrap z) = z.
Proof.
  intros z H. wfacts. destruct (Z.ltb_spec z 0).
  - rewrite wrap_neg by lia. unfold signed.
    destruct (Z.ltb_spec (z + W) HALF); lia.
  - rewrite wrap_id by (unfold is_word; lia). unfold signed.
    destruct (Z.ltb_spec z HALF); lia.
Qed.

Lemma signed_nonzero : forall b, is_word b -> b <> 0 -> signed b <> 0.
Proof.
  intros b H Hb. wfacts. unfold is_word in H. unfold signed.
  destruct (Z.ltb_spec b HALF); lia.
Qed.

Lemma signed_inj : forall a b, is_word a -> is_word b -> signed a = signed b -> a = b.
Proof.
  intros a b Ha Hb H. rewrite <- (signed_wrap a Ha), <- (signed_wrap b Hb). now rewrite H.
Qed.

Lemma add_word : forall a b, is_word (add a b).
Proof. intros. apply wrap_word. Qed.
Lemma mul_word : forall a b, is_word (mul a b).
Proof. intros. apply wrap_word. Qed.
Lemma sub_word : forall a b, is_word (sub a b).
Proof. intros. apply wrap_word. Qed.

Lemma div_word : forall a b, is_word a -> is_word b -> is_word (div a b).
Proof.
  intros a b Ha Hb. unfold div. destruct (Z.eqb_spec b 0); [apply zero_word|].
  unfold is_word in *. split.
  - apply Z.div_pos; lia.
  - apply Z.le_lt_trans with a; [|lia].
    apply Z.div_le_upper_bound; [lia|]. nia.
Qed.

Lemma modw_word : forall a b, is_word a -> is_word b -> is_word (modw a b).
Proof.
  intros a b Ha Hb. unfold modw. destruct (Z.eqb_spec b 0); [apply zero_word|].
  unfold is_word in *. pose proof (Z.mod_pos_bound a b). lia.
Qed.

Lemma sdiv_word : forall a b, is_word (sdiv a b).
Proof.
  intros a b. unfold sdiv. destruct (b =? 0); [apply zero_word|apply wrap_word].
Qed.

Lemma smod_word : forall a b, is_word (smod a b).
Proof.
  intros a b. unfold smod. destruct (b =? 0); [apply zero_word|apply wrap_word].
Qed.

Lemma addmod_word : forall a b n, is_word n -> is_word (addmod a b n).
Proof.
  intros a b n Hn. unfold addmod. destruct (Z.eqb_spec n 0); [apply zero_word|].
  unfold is_word in *. pose proof (Z.mod_pos_bound (a + b) n). lia.
Qed.

Lemma mulmod_word : forall a b n, is_word n -> is_word (mulmod a b n).
Proof.
  intros a b n Hn. unfold mulmod. destruct (Z.eqb_spec n 0); [apply zero_word|].
  unfold is_word in *. pose proof (Z.mod_pos_bound (a * b) n). lia.
Qed.

Lemma pow_pos_mod_word : forall a p, is_word (pow_pos_mod a p).
Proof. intros a p. destruct p; cbn [pow_pos_mod]; apply wrap_word. Qed.

Lemma exp_word : forall a b, is_word (exp a b).
Proof.
  intros a b. destruct b; cbn [exp].
  - apply (b2w_word true).
  - apply pow_pos_mod_word.
  - apply zero_word.
Qed.

Lemma pow2_le_W : forall n, n <= 256 -> 2 ^ n <= W.
Proof.
  intros n H. rewrite W_pow. destruct (Z_lt_le_dec n 0).
  - rewrite Z.pow_neg_r by assumption. apply Z.pow_nonneg. lia.
  - apply Z.pow_le_mono_r; lia.
Qed.

Lemma pow2_le_HALF : forall n, n <= 255 -> 2 ^ n <= HALF.
Proof.
  intros n H. rewrite HALF_pow. destruct (Z_lt_le_dec n 0).
  - rewrite Z.pow_neg_r by assumption. apply Z.pow_nonneg. lia.
  - apply Z.pow_le_mono_r; lia.
Qed.

Lemma pow2_pos : forall n, 0 <= n -> 0 < 2 ^ n.
Proof. intros. apply Z.pow_pos_nonneg; lia. Qed.

Lemma pow2_double : forall n, 1 <= n -> 2 ^ n = 2 * 2 ^ (n - 1).
Proof.
  intros n H. replace n with (Z.succ (n - 1)) at 1 by lia.
  apply Z.pow_succ_r. lia.
Qed.

Lemma signextend_word : forall k x, 0 <= k -> is_word x -> is_word (signextend k x).
Proof.
  intros k x Hk Hx. unfold signextend.
  destruct (Z.ltb_spec k 31); [|exact Hx]. cbv zeta.
  pose proof (pow2_le_W (8 * k + 8) ltac:(lia)) as HW.
  pose proof (pow2_pos (8 * k + 8) ltac:(lia)) as HP.
  pose proof (pow2_pos (8 * k + 8 - 1) ltac:(lia)) as HP'.
  pose proof (pow2_double (8 * k + 8) ltac:(lia)) as HD.
  pose proof (Z.mod_pos_bound x (2 ^ (8 * k + 8)) HP) as HM.
  set (P := 2 ^ (8 * k + 8)) in *. set (Q := 2 ^ (8 * k + 8 - 1)) in *.
  set (low := x mod P) in *. unfold is_word.
  destruct (Z.ltb_spec low Q); lia.
Qed.

Lemma lt_word : forall a b, is_word (lt a b).
Proof. intros. apply b2w_word. Qed.
Lemma gt_word : forall a b, is_word (gt a b).
Proof. intros. apply b2w_word. Qed.
Lemma slt_word : forall a b, is_word (slt a b).
Proof. intros. apply b2w_word. Qed.
Lemma sgt_word : forall a b, is_word (sgt a b).
Proof. intros. apply b2w_word. Qed.
Lemma eq_word : forall a b, is_word (eq a b).
Proof. intros. apply b2w_word. Qed.
Lemma iszero_word : forall a, is_word (iszero a).
Proof. intros. apply b2w_word. Qed.

(** a word is a number equal to its own low 256 bits *)
Lemma is_word_land : forall a, is_word a <-> Z.land a (Z.ones 256) = a.
Proof.
  intros a. rewrite Z.land_ones by lia. rewrite <- W_pow. split.
  - intros H. apply Z.mod_small. exact H.
  - intros H. rewrite <- H. apply Z.mod_pos_bound. exact W_pos.
Qed.

Lemma and_word : forall a b, is_word a -> is_word b -> is_word (and_ a b).
Proof.
  intros a b Ha Hb. unfold and_. apply is_word_land.
  rewrite <- Z.land_assoc. apply is_word_land in Hb. now rewrite Hb.
Qed.

Lemma or_word : forall a b, is_word a -> is_word b -> is_word (or_ a b).
Proof.
  intros a b Ha Hb. unfold or_. apply is_word_land.
  rewrite Z.land_lor_distr_l.
  apply is_word_land in Ha. apply is_word_land in Hb. now rewrite Ha, Hb.
Qed.

Lemma land_lxor_distr_l : forall a b c,
  Z.land (Z.lxor a b) c = Z.lxor (Z.land a c) (Z.land b c).
Proof.
  intros a b c. apply Z.bits_inj'. intros n Hn.
  rewrite Z.land_spec, !Z.lxor_spec, !Z.land_spec.
  destruct (Z.testbit a n), (Z.testbit b n), (Z.testbit c n); reflexivity.
Qed.

Lemma xor_word : forall a b, is_word a -> is_word b -> is_word (xor_ a b).
Proof.
  intros a b Ha Hb. unfold xor_. apply is_word_land.
  rewrite land_lxor_distr_l.
  apply is_word_land in Ha. apply is_word_land in Hb. now rewrite Ha, Hb.
Qed.

Lemma not_word : forall a, is_word a -> is_word (not_ a).
Proof. intros a H. unfold not_, is_word in *. lia. Qed.

Lemma byte_word : forall i x, 0 <= i -> 0 <= x -> is_word (byte i x).
Proof.
  intros i x _ _. wfacts. unfold byte. destruct (i <? 32); [|apply zero_word].
  unfold is_word.
  pose proof (Z.mod_pos_bound (x / 2 ^ (8 * (31 - i))) 256 ltac:(lia)). lia.
Qed.

Lemma shl_word : forall s v, is_word (shl s v).
Proof.
  intros s v. unfold shl. destruct (s <? 256); [apply wrap_word|apply zero_word].
Qed.

Lemma shr_word : forall s v, 0 <= s -> is_word v -> is_word (shr s v).
Proof.
  intros s v Hs Hv. unfold shr. destruct (s <? 256); [|apply zero_word].
  pose proof (pow2_pos s Hs) as HP. set (P := 2 ^ s) in *.
  unfold is_word in *. split.
  - apply Z.div_pos; lia.
  - apply Z.le_lt_trans with v; [|lia].
    apply Z.div_le_upper_bound; [lia|]. nia.
Qed.

Lemma sar_word : forall s v, is_word (sar s v).
Proof.
  intros s v. wfacts. unfold sar. destruct (s <? 256); [apply wrap_word|].
  destruct (signed v <? 0); [|apply zero_word]. unfold is_word. lia.
Qed.

(** * Characterisations *)

Lemma add_spec : forall a b, add a b = (a + b) mod 2 ^ 256.
Proof. reflexivity. Qed.
Lemma mul_spec : forall a b, mul a b = (a * b) mod 2 ^ 256.
Proof. reflexivity. Qed.
Lemma sub_spec : forall a b, sub a b = (a - b) mod 2 ^ 256.
Proof. reflexivity. Qed.

Lemma div_spec : forall a b, b <> 0 -> div a b = a / b.
Proof. intros a b H. unfold div. destruct (Z.eqb_spec b 0); [contradiction|reflexivity]. Qed.
Lemma div_zero : forall a, div a 0 = 0.
Proof. reflexivity. Qed.
Lemma modw_spec : forall a b, b <> 0 -> modw a b = a mod b.
Proof. intros a b H. unfold modw. destruct (Z.eqb_spec b 0); [contradiction|reflexivity]. Qed.
Lemma modw_zero : forall a, modw a 0 = 0.
Proof. reflexivity. Qed.

Lemma quot_abs_le : forall a b, b <> 0 -> Z.abs (Z.quot a b) <= Z.abs a.
Proof.
  intros a b Hb. rewrite <- Z.quot_abs by assumption.
  rewrite Z.quot_div_nonneg by lia.
  apply Z.div_le_upper_bound; [lia|]. nia.
Qed.

Lemma sdiv_spec : forall a b, is_word a -> is_word b -> b <> 0 ->
  ~ (signed a = - HALF /\ signed b = -1) ->
  signed (sdiv a b) = Z.quot (signed a) (signed b).
Proof.
  intros a b Ha Hb Hb0 Hov. unfold sdiv.
  destruct (Z.eqb_spec b 0); [contradiction|].
  apply signed_wrap_inv.
  pose proof (signed_range a Ha) as Ra. pose proof (signed_range b Hb) as Rb.
  pose proof (signed_nonzero b Hb Hb0) as Nb.
  pose proof HALF_pos as HP.
  set (sa := signed a) in *. set (sb := signed b) in *.
  pose proof (quot_abs_le sa sb Nb) as Hq.
  destruct (Z.eq_dec sa (- HALF)) as [E|E].
  - rewrite E in *. destruct (Z_lt_le_dec sb 0) as [L|L].
    + assert (1 < - sb) as L1 by lia.
      replace sb with (- - sb) by lia.
      rewrite Z.quot_opp_opp by lia.
      pose proof (Z.quot_lt HALF (- sb) HP L1).
      pose proof (Z.quot_pos HALF (- sb) ltac:(lia) ltac:(lia)). lia.
    + rewrite Z.quot_opp_l in * by assumption.
      pose proof (Z.quot_pos HALF sb ltac:(lia) ltac:(lia)). lia.
  - lia.
Qed.

Lemma sdiv_overflow : sdiv HALF (W - 1) = HALF.
Proof. vm_compute. reflexivity. Qed.

Lemma sdiv_zero : forall a, sdiv a 0 = 0.
Proof. reflexivity. Qed.

Lemma smod_spec : forall a b, is_word a -> is_word b -> b <> 0 ->
  signed (smod a b) = Z.rem (signed a) (signed b).
Proof.
  intros a b Ha Hb Hb0. unfold smod.
  destruct (Z.eqb_spec b 0); [contradiction|].
  apply signed_wrap_inv.
  pose proof (signed_range b Hb) as Rb.
  pose proof (signed_nonzero b Hb Hb0) as Nb.
  pose proof (Z.rem_bound_abs (signed a) (signed b) Nb). lia.
Qed.

Lemma smod_zero : forall a, smod a 0 = 0.
Proof. reflexivity. Qed.

Lemma addmod_spec : forall a b n, n <> 0 -> addmod a b n = (a + b) mod n.
Proof. intros a b n H. unfold addmod. destruct (Z.eqb_spec n 0); [contradiction|reflexivity]. Qed.
Lemma mulmod_spec : forall a b n, n <> 0 -> mulmod a b n = (a * b) mod n.
Proof. intros a b n H. unfold mulmod. destruct (Z.eqb_spec n 0); [contradiction|reflexivity]. Qed.
Lemma addmod_zero : forall a b, addmod a b 0 = 0.
Proof. reflexivity. Qed.
Lemma mulmod_zero : forall a b, mulmod a b 0 = 0.
Proof. reflexivity. Qed.

Lemma pow_pos_mod_spec : forall a p, pow_pos_mod a p = (a ^ Zpos p) mod W.
Proof.
  intros a p. induction p as [q IH|q IH|]; cbn [pow_pos_mod]; unfold wrap.
  - rewrite IH. rewrite <- Zmult_mod. rewrite Zmult_mod_idemp_r.
    rewrite Pos2Z.inj_xI.
    replace (2 * Z.pos q + 1) with (1 + Z.pos q + Z.pos q) by lia.
    rewrite !Z.pow_add_r by lia. rewrite Z.pow_1_r. f_equal. ring.
  - rewrite IH. rewrite <- Zmult_mod.
    rewrite Pos2Z.inj_xO.
    replace (2 * Z.pos q) with (Z.pos q + Z.pos q) by lia.
    rewrite Z.pow_add_r by lia. reflexivity.
  - rewrite Z.pow_1_r. reflexivity.
Qed.

Lemma exp_spec : forall a b, 0 <= b -> exp a b = (a ^ b) mod W.
Proof.
  intros a b Hb. destruct b; cbn [exp].
  - rewrite Z.pow_0_r. symmetry. apply Z.mod_small. pose proof W_gt_256. lia.
  - apply pow_pos_mod_spec.
  - lia.
Qed.

Lemma exp_neg : forall a b, b < 0 -> exp a b = 0.
Proof. intros a b Hb. destruct b; try lia. reflexivity. Qed.

Lemma signextend_spec : forall k x, 0 <= k < 31 -> is_word x ->
  signed (signextend k x) =
  (let bits := 8 * k + 8 in
   let low := x mod 2 ^ bits in
   if low <? 2 ^ (bits - 1) then low else low - 2 ^ bits).
Proof.
  intros k x Hk Hx. unfold signextend.
  destruct (Z.ltb_spec k 31); [|lia]. cbv zeta.
  pose proof (pow2_le_HALF (8 * k + 8 - 1) ltac:(lia)) as HW.
  pose proof (pow2_pos (8 * k + 8) ltac:(lia)) as HP.
  pose proof (pow2_pos (8 * k + 8 - 1) ltac:(lia)) as HP'.
  pose proof (pow2_double (8 * k + 8) ltac:(lia)) as HD.
  pose proof (Z.mod_pos_bound x (2 ^ (8 * k + 8)) HP) as HM.
  wfacts.
  set (P := 2 ^ (8 * k + 8)) in *. set (Q := 2 ^ (8 * k + 8 - 1)) in *.
  set (low := x mod P) in *. unfold signed.
  destruct (Z.ltb_spec low Q).
  - destruct (Z.ltb_spec low HALF); lia.
  - destruct (Z.ltb_spec (low + (W - P)) HALF); lia.
Qed.

Lemma signextend_big : forall k x, 31 <= k -> signextend k x = x.
Proof. intros k x H. unfold signextend. destruct (Z.ltb_spec k 31); [lia|reflexivity]. Qed.

Lemma byte_spec : forall i x, 0 <= i < 32 -> 0 <= x ->
  byte i x = Z.land (Z.shiftr x (8 * (31 - i))) 255.
Proof.
  intros i x Hi _. unfold byte. destruct (Z.ltb_spec i 32); [|lia].
  change 255 with (Z.ones 8). rewrite Z.land_ones by lia.
  rewrite Z.shiftr_div_pow2 by lia. reflexivity.
Qed.

Lemma byte_big : forall i x, 32 <= i -> byte i x = 0.
Proof. intros i x H. unfold byte. destruct (Z.ltb_spec i 32); [lia|reflexivity]. Qed.

Lemma shl_spec : forall s v, 0 <= s < 256 -> shl s v = (Z.shiftl v s) mod W.
Proof.
  intros s v H. unfold shl. destruct (Z.ltb_spec s 256); [|lia].
  rewrite Z.shiftl_mul_pow2 by lia. reflexivity.
Qed.

Lemma shl_big : forall s v, 256 <= s -> shl s v = 0.
Proof. intros s v H. unfold shl. destruct (Z.ltb_spec s 256); [lia|reflexivity]. Qed.

Lemma shr_spec : forall s v, 0 <= s < 256 -> shr s v = Z.shiftr v s.
Proof.
  intros s v H. unfold shr. destruct (Z.ltb_spec s 256); [|lia].
  rewrite Z.shiftr_div_pow2 by lia. reflexivity.
Qed.

Lemma shr_big : forall s v, 256 <= s -> shr s v = 0.
Proof. intros s v H. unfold shr. destruct (Z.ltb_spec s 256); [lia|reflexivity]. Qed.

Lemma sar_spec : forall s v, 0 <= s < 256 -> is_word v ->
  signed (sar s v) = Z.shiftr (signed v) s.
Proof.
  intros s v Hs Hv. unfold sar. destruct (Z.ltb_spec s 256); [|lia].
  rewrite Z.shiftr_div_pow2 by lia.
  apply signed_wrap_inv.
  pose proof (signed_range v Hv) as R. pose proof HALF_pos.
  pose proof (pow2_pos s ltac:(lia)) as HP.
  set (sv := signed v) in *. set (P := 2 ^ s) in *. split.
  - apply Z.div_le_lower_bound; [lia|]. nia.
  - apply Z.div_lt_upper_bound; [lia|]. nia.
Qed.

Lemma sar_big : forall s v, 256 <= s -> is_word v ->
  sar s v = if signed v <? 0 then W - 1 else 0.
Proof. intros s v H _. unfold sar. destruct (Z.ltb_spec s 256); [lia|reflexivity]. Qed.

Lemma lt_spec : forall a b, lt a b = if a <? b then 1 else 0.
Proof. reflexivity. Qed.
Lemma gt_spec : forall a b, gt a b = if b <? a then 1 else 0.
Proof. reflexivity. Qed.
Lemma slt_spec : forall a b, slt a b = if signed a <? signed b then 1 else 0.
Proof. reflexivity. Qed.
Lemma sgt_spec : forall a b, sgt a b = if signed b <? signed a then 1 else 0.
Proof. reflexivity. Qed.
Lemma eq_spec : forall a b, eq a b = if a =? b then 1 else 0.
Proof. reflexivity. Qed.
Lemma iszero_spec : forall a, iszero a = if a =? 0 then 1 else 0.
Proof. reflexivity. Qed.

Lemma and_spec : forall a b, and_ a b = Z.land a b. Proof. reflexivity. Qed.
Lemma or_spec : forall a b, or_ a b = Z.lor a b. Proof. reflexivity. Qed.
Lemma xor_spec : forall a b, xor_ a b = Z.lxor a b. Proof. reflexivity. Qed.

Lemma not_spec : forall a, is_word a -> not_ a = Z.lxor a (W - 1).
Proof.
  intros a Ha. unfold not_. rewrite W_ones.
  assert (Z.ldiff a (Z.ones 256) = 0) as HL.
  { rewrite Z.ldiff_ones_r by lia. rewrite Z.shiftr_div_pow2 by lia.
    rewrite <- W_pow. rewrite Z.div_small by exact Ha. apply Z.shiftl_0_l. }
  rewrite (Z.sub_nocarry_ldiff _ _ HL).
  apply Z.bits_inj'. intros n Hn.
  rewrite Z.ldiff_spec, Z.lxor_spec.
  assert (Z.testbit (Z.ldiff a (Z.ones 256)) n = false) as HB
    by (rewrite HL; apply Z.bits_0).
  rewrite Z.ldiff_spec in HB.
  destruct (Z.testbit a n), (Z.testbit (Z.ones 256) n); simpl in *; congruence.
Qed.

(** ** big-endian bytes *)

Lemma Z_to_be_length : forall n z acc, length (Z_to_be n z acc) = (n + length acc)%nat.
Proof.
  induction n as [|n IH]; intros z acc; cbn [Z_to_be].
  - reflexivity.
  - rewrite IH. cbn [length]. lia.
Qed.

Lemma word_bytes_length : forall z, length (word_bytes z) = 32%nat.
Proof. intros z. unfold word_bytes. rewrite Z_to_be_length. reflexivity. Qed.

Lemma be_to_Z_to_be : forall n z l a,
  be_to_Z (Z_to_be n z l) a = be_to_Z l (a * 256 ^ Z.of_nat n + z mod 256 ^ Z.of_nat n).
Proof.
  induction n as [|n IH]; intros z l a.
  - cbn [Z_to_be]. change (256 ^ Z.of_nat 0) with 1. rewrite Z.mod_1_r. f_equal. lia.
  - cbn [Z_to_be]. rewrite IH. cbn [be_to_Z]. f_equal.
    rewrite Nat2Z.inj_succ, Z.pow_succ_r by lia.
    assert (0 < 256 ^ Z.of_nat n) as HP by (apply Z.pow_pos_nonneg; lia).
    rewrite (Z.rem_mul_r z 256 (256 ^ Z.of_nat n)) by lia.
    ring.
Qed.

Lemma word_bytes_roundtrip : forall z, is_word z -> be_to_Z (word_bytes z) 0 = z.
Proof.
  intros z Hz. unfold word_bytes. rewrite be_to_Z_to_be. cbn [be_to_Z].
  rewrite W_bytes. rewrite Z.mod_small by exact Hz. lia.
Qed.
