(** C10 — tie of the model's guards and integer arithmetic to the Go SOURCE.
    [Generated/C10Source.v] is produced on every check by /verif/go2coq from /repo's working tree: the
    bodies of toWordSize, minStack/maxStack/min|maxSwapStack/min|maxDupStack and lib/math + lib/common
    SafeAdd/SafeSub/SafeMul, and every guard / integer expression of Interpreter.Run, KVM.Call / CallCode /
    DelegateCall / StaticCall / create, memoryGasCost, callGas, the integer-only gas functions,
    calcMemSize64(WithUint), getData, opReturnDataCopy / opCallDataLoad / opJump / opJumpi / opBlockhash /
    opCreate / opCall, Contract.validJumpdest / UseGas, codeBitmap, Memory.Resize / Set,
    RunPrecompiledContract, dataCopy.RequiredGas and ecrecover.Run.
    The lemmas below say that the tests and the arithmetic of C10/EVM.v (stack bounds, static test, gas
    comparisons, word-size rounding, memory size and memory cost, call gas, depth limit, balance test,
    collision test, code-size limit, deposit gas, RETURNDATACOPY bounds, jump-destination tests, BLOCKHASH
    window, identity precompile gas) ARE these expressions, on these operands (atoms pinned at the end).
    256-bit quantities reach the guards only through atoms (Sign(), IsUint64(), Uint64WithOverflow()):
    they are instantiated here by what they denote on a non-negative [Z]. *)
From Coq Require Import List ZArith Bool Lia String.
From Kardia Require Import Base.Int64 Base.GoSem.
From Kardia Require Import Generated.C10Source.
From Kardia Require Import Generated.C10Facts C10.U256 C10.EVM C10.ProofsTables C10.ProofsRet.
Import ListNotations.
Local Open Scope Z_scope.

Ltac Zify.zify_post_hook ::= Z.div_mod_to_equations.

(** big.Int / uint256.Int: Sign() as the Go int it returns; the two results of Uint64WithOverflow() *)
Definition sign_int (a : Z) : Z := match a ?= 0 with Lt => -1 | Eq => 0 | Gt => 1 end.
Definition u64_overflow (a : Z) : bool := U64 <=? a.
Definition u64_low (a : Z) : Z := a mod U64.
Definition max_u64 : Z := two64 - 1.

Lemma sign_ne0 a : go_neqb (sign_int a) 0 = negb (a =? 0).
Proof. unfold go_neqb, sign_int. destruct (Z.compare_spec a 0); destruct (Z.eqb_spec a 0); try reflexivity; lia. Qed.
Lemma sign_eq0 a : (sign_int a =? 0) = (a =? 0).
Proof. unfold sign_int. destruct (Z.compare_spec a 0); destruct (Z.eqb_spec a 0); try reflexivity; lia. Qed.
Lemma sign_ge0 a : (sign_int a >=? 0) = (0 <=? a).
Proof. unfold sign_int. destruct (Z.compare_spec a 0); destruct (Z.leb_spec 0 a); try reflexivity; lia. Qed.
Lemma U64_val : U64 = 18446744073709551616. Proof. reflexivity. Qed.

(** * Interpreter.Run: stack bounds, static test, gas *)
Lemma src_stack_min n m : kvm__Interpreter_Run__if_sLen_lt_operation_minStack n m = (n <? m)
                          /\ kvm__Interpreter_Run__if_sLen_lt_operation_minStack_2 n m = (n <? m).
Proof. split; reflexivity. Qed.
Lemma src_stack_max n m : kvm__Interpreter_Run__if_sLen_gt_operation_maxStack n m = (m <? n)
                          /\ kvm__Interpreter_Run__if_sLen_gt_operation_maxStack_2 n m = (m <? n).
Proof. split; apply Z.gtb_ltb. Qed.

(** the static test of [step]: [f_static f && (oi_writes info || ((op =? 241) && negb (sk s 2 =? 0)))] *)
Lemma src_static ro w op v :
  (kvm__Interpreter_Run__if_in_readOnly ro
   && kvm__Interpreter_Run__if_operation_writes_or_op_eq_CALL_and_stack_Back_2__Sign_ne_0 w op (sign_int v))%bool
  = (ro && (w || ((op =? 241) && negb (v =? 0))))%bool.
Proof.
  unfold kvm__Interpreter_Run__if_in_readOnly,
    kvm__Interpreter_Run__if_operation_writes_or_op_eq_CALL_and_stack_Back_2__Sign_ne_0.
  rewrite sign_ne0. reflexivity.
Qed.

(** Contract.UseGas: [f_gas f <? cost] fails the frame, otherwise the gas becomes [f_gas f - cost] *)
Lemma src_usegas_test g c : kvm__Contract_UseGas__if_c_Gas_lt_gas g c = (g <? c).
Proof. reflexivity. Qed.
Lemma src_usegas_sub g c : 0 <= c <= g -> g < U64 -> kvm__Contract_UseGas__set_Gas_op g c = g - c.
Proof. rewrite U64_val. intros H1 H2. unfold kvm__Contract_UseGas__set_Gas_op. gosem. reflexivity. Qed.
Lemma src_run_usegas ok : kvm__Interpreter_Run__if_not_contract_UseGas_cost ok = negb ok
  /\ (forall err, kvm__Interpreter_Run__if_err_ne_nil_or_not_contract_UseGas_dynamicCost err ok = (err || negb ok)%bool)
  /\ (forall err, kvm__Interpreter_Run__if_err_ne_nil_or_not_contract_UseGas_cost err ok = (err || negb ok)%bool).
Proof. repeat split. Qed.
(** pre-Galaxias: the second charge is constant + dynamic ([oi_gas info + cost] in [step]) *)
Lemma src_v1_charge c d : 0 <= c -> 0 <= d -> c + d < U64 -> kvm__Interpreter_Run__set_cost_op c d = c + d.
Proof. rewrite U64_val. intros. unfold kvm__Interpreter_Run__set_cost_op. gosem. reflexivity. Qed.
Lemma src_galaxias b : kvm__Interpreter_Run__if_in_kvm_chainRules_IsGalaxias b = b.
Proof. reflexivity. Qed.

(** * stack.go: the table's min/max columns are minStack/maxStack of the decoder's pops and pushes *)
Lemma src_minmax pops pushes : 0 <= pops <= 1024 -> 0 <= pushes <= 1024 ->
  kvm__minStack pops pushes = pops /\ kvm__maxStack pops pushes = stack_limit + pops - pushes.
Proof.
  intros H1 H2. split; [reflexivity|]. unfold kvm__maxStack, stack_limit. gosem. reflexivity.
Qed.
Lemma src_swap_dup n : 0 <= n <= 32 ->
  kvm__minSwapStack n = n /\ kvm__maxSwapStack n = stack_limit /\
  kvm__minDupStack n = n /\ kvm__maxDupStack n = stack_limit - 1.
Proof.
  intros H. unfold kvm__minSwapStack, kvm__maxSwapStack, kvm__minDupStack, kvm__maxDupStack,
             kvm__minStack, kvm__maxStack, stack_limit.
  gosem. repeat split; lia.
Qed.

Section Tables.
Variable keccak : list Z -> Z.
Variable blockhash : Z -> Z.
Definition small_ok (op : Z) : bool :=
  match decode keccak blockhash op with
  | Some i => (Nat.leb (instr_pops i) 17 && Nat.leb (instr_pushes i) 17)%bool
  | None => true
  end.
Lemma small_all : forallb small_ok all_ops = true.
Proof. vm_compute. reflexivity. Qed.

Lemma src_table_stack : forall e op info i,
    op_info e op = Some info -> decode keccak blockhash op = Some i ->
    oi_min info = kvm__minStack (Z.of_nat (instr_pops i)) (Z.of_nat (instr_pushes i)) /\
    oi_max info = kvm__maxStack (Z.of_nat (instr_pops i)) (Z.of_nat (instr_pushes i)).
Proof.
  intros e op info i Hinfo Hdec.
  pose proof (slot_facts_of keccak blockhash e op info i Hinfo Hdec) as [Hmin Hmax _ _ _ _ _ _].
  assert (Hs : small_ok op = true).
  { pose proof small_all as Ha. rewrite forallb_forall in Ha. apply Ha. apply in_all_ops.
    unfold op_info in Hinfo. destruct ((0 <=? op) && (op <? 256))%bool eqn:Hr; [|discriminate].
    apply andb_true_iff in Hr. lia. }
  unfold small_ok in Hs. rewrite Hdec in Hs. apply andb_true_iff in Hs. destruct Hs as [Hp Hq].
  apply Nat.leb_le in Hp. apply Nat.leb_le in Hq.
  destruct (src_minmax (Z.of_nat (instr_pops i)) (Z.of_nat (instr_pushes i))) as [E1 E2]; try lia.
  rewrite E1, E2. destruct limits_ok as [SL _]. rewrite SL. split; lia.
Qed.
End Tables.

(** * utils.go: word-size rounding and memory requirement *)
Lemma src_toWordSize n : 0 <= n <= 18446744073709551584 -> kvm__toWordSize n = words n.
Proof.
  intros H. unfold kvm__toWordSize, words. rewrite Z.gtb_ltb.
  destruct (Z.ltb_spec 18446744073709551584 n); [lia|].
  unfold go_quot, go_add. rewrite (wrap_id GoSem.U64 (n + 31)) by (unfold in_range; lia).
  rewrite Z.quot_div_nonneg by lia. apply wrap_id. unfold in_range. lia.
Qed.
Lemma src_toWordSize_big n : 18446744073709551584 < n -> kvm__toWordSize n = 576460752303423488.
Proof. intros H. unfold kvm__toWordSize. rewrite Z.gtb_ltb. destruct (Z.ltb_spec 18446744073709551584 n); [reflexivity|lia]. Qed.

Lemma src_SafeMul x y : in_range GoSem.U64 x -> in_range GoSem.U64 y ->
  lib_math__SafeMul x y = (wrapu64 (x * y), max_u64 <? x * y) /\ lib_common__SafeMul x y = (wrapu64 (x * y), max_u64 <? x * y).
Proof.
  unfold lib_math__SafeMul, lib_common__SafeMul, go_bits_mul64, in_range, max_u64, two64. intros Hx Hy.
  assert (E : go_neqb (x * y / 18446744073709551616) 0 = (18446744073709551616 - 1 <? x * y)).
  { unfold go_neqb.
    destruct (Z.ltb_spec (18446744073709551616 - 1) (x * y)) as [Hlt|Hge];
      destruct (Z.eqb_spec ((x * y) / 18446744073709551616) 0) as [He|Hne]; try reflexivity; exfalso.
    - assert (1 <= (x * y) / 18446744073709551616) by (apply Z.div_le_lower_bound; lia). lia.
    - apply Hne. apply Z.div_small. nia. }
  split; f_equal; exact E.
Qed.
Lemma src_SafeAdd x y : in_range GoSem.U64 x -> in_range GoSem.U64 y ->
  lib_math__SafeAdd x y = (wrapu64 (x + y), max_u64 <? x + y) /\ lib_common__SafeAdd x y = (wrapu64 (x + y), max_u64 <? x + y).
Proof.
  unfold lib_math__SafeAdd, lib_common__SafeAdd, go_bits_add64, in_range, max_u64, two64. intros Hx Hy. rewrite Z.add_0_r.
  assert (E : go_neqb ((x + y) / 18446744073709551616) 0 = (18446744073709551616 - 1 <? x + y)).
  { unfold go_neqb.
    destruct (Z.ltb_spec (18446744073709551616 - 1) (x + y)) as [Hlt|Hge];
      destruct (Z.eqb_spec ((x + y) / 18446744073709551616) 0) as [He|Hne]; try reflexivity; exfalso.
    - assert (1 <= (x + y) / 18446744073709551616) by (apply Z.div_le_lower_bound; lia). lia.
    - apply Hne. apply Z.div_small. lia. }
  split; f_equal; exact E.
Qed.
Lemma src_SafeSub x y : in_range GoSem.U64 x -> in_range GoSem.U64 y ->
  lib_math__SafeSub x y = (wrapu64 (x - y), x <? y) /\ lib_common__SafeSub x y = (wrapu64 (x - y), x <? y).
Proof.
  unfold lib_math__SafeSub, lib_common__SafeSub, go_bits_sub64, in_range. intros Hx Hy. rewrite Z.sub_0_r.
  assert (E : go_neqb (if x - y <? 0 then 1 else 0) 0 = (x <? y)).
  { unfold go_neqb. destruct (Z.ltb_spec (x - y) 0); destruct (Z.ltb_spec x y); try reflexivity; lia. }
  split; f_equal; exact E.
Qed.

(** [round_mem] is SafeMul(toWordSize(memSize), 32) with its overflow flag *)
Lemma src_round_mem size : in_range GoSem.U64 size ->
  round_mem size = (let '(p, ov) := lib_common__SafeMul (kvm__toWordSize size) 32 in if ov then None else Some p)
  /\ round_mem size = (let '(p, ov) := lib_math__SafeMul (kvm__toWordSize size) 32 in if ov then None else Some p).
Proof.
  intros H. unfold in_range in H.
  assert (Hr : in_range GoSem.U64 (kvm__toWordSize size)).
  { destruct (Z_le_gt_dec size 18446744073709551584).
    - rewrite src_toWordSize by lia. unfold words, in_range. lia.
    - rewrite src_toWordSize_big by lia. unfold in_range. lia. }
  destruct (src_SafeMul (kvm__toWordSize size) 32 Hr ltac:(unfold in_range; lia)) as [E1 E2].
  rewrite E1, E2. cbn zeta.
  assert (G : round_mem size = (if max_u64 <? kvm__toWordSize size * 32 then None else Some (wrapu64 (kvm__toWordSize size * 32)))).
  { unfold round_mem, max_u64, two64. rewrite U64_val.
    destruct (Z_le_gt_dec size 18446744073709551584).
    - rewrite src_toWordSize by lia. unfold words.
      destruct (Z.leb_spec 18446744073709551616 ((size + 31) / 32 * 32));
        destruct (Z.ltb_spec (18446744073709551616 - 1) ((size + 31) / 32 * 32)); try lia; try reflexivity.
      f_equal. unfold wrapu64, two64. rewrite Z.mod_small; lia.
    - rewrite src_toWordSize_big by lia.
      destruct (Z.leb_spec 18446744073709551616 ((size + 31) / 32 * 32)); [reflexivity|lia]. }
  split; exact G.
Qed.

(** [mem_need] is calcMemSize64WithUint (offset and length that fit 64 bits) *)
Lemma src_mem_need off len : 0 <= off < U64 -> 0 <= len < U64 ->
  mem_need off len =
  if kvm__calcMemSize64WithUint__if_length64_eq_0 len then Some 0
  else if kvm__calcMemSize64WithUint__if_overflow (u64_overflow off) then None
  else if kvm__calcMemSize64WithUint__ret_val_lt_offset64 (kvm__calcMemSize64WithUint__set_val off len) off then None
  else Some (kvm__calcMemSize64WithUint__set_val off len).
Proof.
  rewrite U64_val. intros Ho Hl.
  unfold mem_need, kvm__calcMemSize64WithUint__if_length64_eq_0, kvm__calcMemSize64WithUint__if_overflow,
    kvm__calcMemSize64WithUint__ret_val_lt_offset64, kvm__calcMemSize64WithUint__set_val, u64_overflow, go_add.
  rewrite U64_val.
  replace ((len <? 0) || (18446744073709551616 <=? len))%bool with false
    by (symmetry; apply orb_false_iff; split; [apply Z.ltb_ge|apply Z.leb_gt]; lia).
  destruct (Z.eqb_spec len 0); [reflexivity|].
  replace ((off <? 0) || (18446744073709551616 <=? off))%bool with false
    by (symmetry; apply orb_false_iff; split; [apply Z.ltb_ge|apply Z.leb_gt]; lia).
  replace (18446744073709551616 <=? off) with false by (symmetry; apply Z.leb_gt; lia).
  unfold GoSem.wrap.
  destruct (Z.leb_spec 18446744073709551616 (off + len)) as [Hge|Hlt].
  - replace ((off + len) mod 18446744073709551616) with (off + len - 18446744073709551616)
      by lia.
    destruct (Z.ltb_spec (off + len - 18446744073709551616) off); [reflexivity|lia].
  - rewrite Z.mod_small by lia. destruct (Z.ltb_spec (off + len) off); [lia|reflexivity].
Qed.
(** an offset or length beyond 64 bits is the overflow exit (calcMemSize64: [!l.IsUint64()]) *)
Lemma src_mem_need_big off len : 0 <= off -> 0 < len ->
  (kvm__calcMemSize64__if_not_l_IsUint64 (len <? U64) = true \/ kvm__calcMemSize64WithUint__if_overflow (u64_overflow off) = true) ->
  mem_need off len = None.
Proof.
  intros Ho Hl H. unfold mem_need, kvm__calcMemSize64__if_not_l_IsUint64, kvm__calcMemSize64WithUint__if_overflow, u64_overflow in *.
  destruct H as [H|H].
  - apply negb_true_iff in H. apply Z.ltb_ge in H.
    replace ((len <? 0) || (U64 <=? len))%bool with true; [reflexivity|].
    symmetry. apply orb_true_iff. right. apply Z.leb_le. exact H.
  - destruct ((len <? 0) || (U64 <=? len))%bool; [reflexivity|].
    destruct (Z.eqb_spec len 0); [lia|].
    replace ((off <? 0) || (U64 <=? off))%bool with true; [reflexivity|].
    symmetry. apply orb_true_iff. right. exact H.
Qed.

(** * gas.go: memory cost and call gas *)
(** [mem_gas f new] for a rounded size (a multiple of 32, as [round_mem] produces) is memoryGasCost *)
Lemma src_mem_gas f new :
  0 <= new <= 18446744073709551584 -> new mod 32 = 0 ->
  Z.of_nat (List.length (f_mem f)) < U64 -> 0 <= f_mcost f ->
  (new <= MEM_LIMIT -> f_mcost f <= new / 32 * g_memory + new / 32 * (new / 32) / g_quad_coeff_div) ->
  mem_gas f new =
  if kvm__memoryGasCost__if_newMemSize_eq_0 new then Some (0, f_mcost f)
  else if kvm__memoryGasCost__if_newMemSize_gt_0x1FFFFFFFE0 new then None
  else
    let w := kvm__memoryGasCost__let_newMemSizeWords (kvm__toWordSize new) in
    if kvm__memoryGasCost__if_newMemSize_gt_uint64_mem_Len (kvm__memoryGasCost__set_newMemSize w) (Z.of_nat (List.length (f_mem f)))
    then let tot := kvm__memoryGasCost__set_newTotalFee (kvm__memoryGasCost__set_linCoef w)
                                                         (kvm__memoryGasCost__set_quadCoef (kvm__memoryGasCost__set_square w)) in
         Some (kvm__memoryGasCost__set_fee tot (f_mcost f), kvm__memoryGasCost__put_mem_lastGasCost tot)
    else Some (0, f_mcost f).
Proof.
  rewrite U64_val. intros Hn Hm Hlen Hc Hcost.
  unfold mem_gas, kvm__memoryGasCost__if_newMemSize_eq_0, kvm__memoryGasCost__if_newMemSize_gt_0x1FFFFFFFE0, MEM_LIMIT in *.
  destruct (Z.eqb_spec new 0); [reflexivity|].
  rewrite Z.gtb_ltb. destruct (Z.ltb_spec 137438953440 new); [reflexivity|].
  specialize (Hcost ltac:(lia)).
  rewrite src_toWordSize by lia.
  assert (Hw : words new = new / 32) by (unfold words; lia).
  rewrite Hw. set (w := new / 32) in *.
  assert (Hwr : 0 <= w <= 4294967295) by (unfold w; lia).
  cbn zeta.
  unfold kvm__memoryGasCost__let_newMemSizeWords, kvm__memoryGasCost__if_newMemSize_gt_uint64_mem_Len,
    kvm__memoryGasCost__set_newMemSize, kvm__memoryGasCost__set_newTotalFee, kvm__memoryGasCost__set_linCoef,
    kvm__memoryGasCost__set_quadCoef, kvm__memoryGasCost__set_square, kvm__memoryGasCost__set_fee,
    kvm__memoryGasCost__put_mem_lastGasCost, g_memory, g_quad_coeff_div in *.
  unfold go_mul, go_conv, go_quot, go_add, go_sub.
  rewrite (wrap_id GoSem.U64 (w * 32)) by (unfold in_range; lia).
  rewrite (wrap_id GoSem.U64 (Z.of_nat (List.length (f_mem f)))) by (unfold in_range; lia).
  rewrite (wrap_id GoSem.U64 (w * w)) by (unfold in_range; nia).
  rewrite (wrap_id GoSem.U64 (w * 3)) by (unfold in_range; lia).
  rewrite Z.quot_div_nonneg by nia.
  assert (Hq : 0 <= w * w / 512 <= w * w) by (split; [apply Z.div_pos; nia|apply Z.div_le_upper_bound; nia]).
  rewrite (wrap_id GoSem.U64 (w * w / 512)) by (unfold in_range; nia).
  rewrite (wrap_id GoSem.U64 (w * 3 + w * w / 512)) by (unfold in_range; nia).
  rewrite (wrap_id GoSem.U64 (w * 3 + w * w / 512 - f_mcost f)) by (unfold in_range; nia).
  rewrite Z.gtb_ltb. replace (w * 32) with new by (unfold w; lia).
  destruct (Z.ltb_spec (Z.of_nat (List.length (f_mem f))) new); reflexivity.
Qed.

(** [call_gas avail base cost] (EIP-150) is callGas; [cost] is the 256-bit gas operand *)
Lemma src_call_gas avail base cost : 0 <= base <= avail -> avail < U64 -> 0 <= cost ->
  call_gas avail base cost =
  let g := kvm__callGas__set_gas (kvm__callGas__set_availableGas avail base) in
  if kvm__callGas__if_not_callCost_IsUint64_or_gas_lt_callCost_Uint64 (cost <? U64) g (u64_low cost) then Some g
  else Some (u64_low cost).
Proof.
  rewrite U64_val. intros Hb Ha Hc.
  unfold call_gas, kvm__callGas__set_gas, kvm__callGas__set_availableGas,
    kvm__callGas__if_not_callCost_IsUint64_or_gas_lt_callCost_Uint64, u64_low.
  rewrite U64_val. unfold go_sub, go_quot.
  destruct (Z.ltb_spec avail base); [lia|].
  rewrite (wrap_id GoSem.U64 (avail - base)) by (unfold in_range; lia).
  set (a := avail - base) in *. assert (0 <= a < 18446744073709551616) by (unfold a; lia).
  rewrite Z.quot_div_nonneg by lia.
  rewrite (wrap_id GoSem.U64 (a / 64)) by (unfold in_range; lia).
  rewrite (wrap_id GoSem.U64 (a - a / 64)) by (unfold in_range; lia).
  cbn zeta.
  destruct (Z.ltb_spec cost 0); [lia|].
  destruct (Z.ltb_spec cost 18446744073709551616) as [Hs|Hbig].
  - rewrite Z.mod_small by lia.
    replace (18446744073709551616 <=? cost) with false by (symmetry; apply Z.leb_gt; lia).
    cbn [orb negb]. reflexivity.
  - replace (18446744073709551616 <=? cost) with true by (symmetry; apply Z.leb_le; lia).
    cbn [orb negb]. reflexivity.
Qed.

(** EXP: number of bytes of the exponent from its bit length *)
Definition bit_len (b : Z) : Z := if b =? 0 then 0 else Z.log2 b + 1.
Lemma src_exp_bytes b : 0 <= b < W -> byte_len b = kvm__gasExp__set_expByteLen (bit_len b).
Proof.
  intros Hb. unfold byte_len, kvm__gasExp__set_expByteLen, bit_len, b2w.
  destruct (Z.eqb_spec b 0) as [->|Hn].
  - reflexivity.
  - assert (0 < b) by lia. replace (0 <? b) with true by (symmetry; apply Z.ltb_lt; lia).
    assert (Hl : 0 <= Z.log2 b < 256).
    { split; [apply Z.log2_nonneg|]. apply Z.log2_lt_pow2; [lia|]. unfold W in Hb. lia. }
    unfold go_conv, go_quot, go_add.
    rewrite (wrap_id I64 (Z.log2 b + 1 + 7)) by (unfold in_range; lia).
    rewrite Z.quot_div_nonneg by lia.
    rewrite (wrap_id I64) by (unfold in_range; lia).
    rewrite (wrap_id GoSem.U64) by (unfold in_range; lia).
    replace (Z.log2 b + 1 + 7) with (Z.log2 b + 8) by lia. lia.
Qed.

(** CALL: the surcharges in front of the memory gas ([base] in [instr_dyn]) *)
Lemma src_call_base (tv em ex : bool) :
  (if (tv && em)%bool then g_call_new_account else 0) + (if ex then 0 else g_call_new_account) + (if tv then g_call_value_transfer else 0)
  = (let g0 := 0 in
     let g1 := if kvm__gasCall__if_transfersValue_and_kvm_StateDB_Empty_address tv em then kvm__gasCall__set_gas_op g0 else g0 in
     let g2 := if kvm__gasCall__if_not_kvm_StateDB_Exist_address ex then kvm__gasCall__set_gas_op_2 g1 else g1 in
     if kvm__gasCall__if_transfersValue tv then kvm__gasCall__set_gas_op_3 g2 else g2).
Proof. destruct tv, em, ex; reflexivity. Qed.
Lemma src_callcode_base v : 0 <= v ->
  (if v =? 0 then 0 else g_call_value_transfer) = (if kvm__gasCallCode__if_stack_Back_2__Sign_ne_0 (sign_int v) then kvm__gasCallCode__set_gas_op 0 else 0).
Proof. intros _. unfold kvm__gasCallCode__if_stack_Back_2__Sign_ne_0. rewrite sign_ne0. destruct (v =? 0); reflexivity. Qed.
(** SSTORE classes and SELFDESTRUCT surcharge conditions *)
Lemma src_sstore cur new :
  kvm__gasSStore__if_val_eq_common_Hash_and_y_Sign_ne_0 (cur =? 0) (sign_int new) = ((cur =? 0) && negb (new =? 0))%bool
  /\ kvm__gasSStore__if_val_ne_common_Hash_and_y_Sign_eq_0 (negb (cur =? 0)) (sign_int new) = (negb (cur =? 0) && (new =? 0))%bool.
Proof.
  unfold kvm__gasSStore__if_val_eq_common_Hash_and_y_Sign_ne_0, kvm__gasSStore__if_val_ne_common_Hash_and_y_Sign_eq_0.
  rewrite sign_ne0, sign_eq0. split; reflexivity.
Qed.
Lemma src_selfdestruct em bal ex :
  kvm__gasSelfdestruct__if_kvm_StateDB_Empty_address_and_kvm_StateDB_GetBalance_contrac_a3d63a4d em (sign_int bal) = (em && negb (bal =? 0))%bool
  /\ kvm__gasSelfdestruct__if_not_kvm_StateDB_Exist_address ex = negb ex
  /\ kvm__gasSelfdestruct__set_gas_op 0 = g_create_by_selfdestruct /\ kvm__gasSelfdestruct__set_gas_op_2 0 = g_create_by_selfdestruct.
Proof.
  unfold kvm__gasSelfdestruct__if_kvm_StateDB_Empty_address_and_kvm_StateDB_GetBalance_contrac_a3d63a4d.
  rewrite sign_ne0. repeat split; reflexivity.
Qed.

(** * kvm.go: depth limit, balance test, collision, code size, deposit gas *)
Lemma src_depth d :
  (call_create_depth <? d) = kvm__KVM_Call__if_kvm_depth_gt_int_configs_CallCreateDepth d
  /\ (call_create_depth <? d) = kvm__KVM_CallCode__if_kvm_depth_gt_int_configs_CallCreateDepth d
  /\ (call_create_depth <? d) = kvm__KVM_DelegateCall__if_kvm_depth_gt_int_configs_CallCreateDepth d
  /\ (call_create_depth <? d) = kvm__KVM_StaticCall__if_kvm_depth_gt_int_configs_CallCreateDepth d
  /\ (call_create_depth <? d) = kvm__KVM_create__if_kvm_depth_gt_int_configs_CallCreateDepth d.
Proof. repeat split; symmetry; apply Z.gtb_ltb. Qed.

(** CanTransfer(db, a, v) is [v <= balance]; values are non-negative words *)
Lemma src_call_balance v bal : 0 <= v ->
  ((v <? 0) || (negb (v =? 0) && (bal <? v)))%bool
  = kvm__KVM_Call__if_value_Sign_ne_0_and_not_kvm_BlockContext_CanTransfer_kvm_Sta_a9cbbd5d (sign_int v) (v <=? bal).
Proof.
  intros Hv. unfold kvm__KVM_Call__if_value_Sign_ne_0_and_not_kvm_BlockContext_CanTransfer_kvm_Sta_a9cbbd5d.
  rewrite sign_ne0. replace (v <? 0) with false by (symmetry; apply Z.ltb_ge; lia). cbn [orb]. f_equal.
  destruct (Z.ltb_spec bal v); destruct (Z.leb_spec v bal); try reflexivity; lia.
Qed.
Lemma src_create_balance v bal : 0 <= v ->
  ((v <? 0) || (bal <? v))%bool = kvm__KVM_create__if_not_kvm_CanTransfer_kvm_StateDB_caller_Address_value (v <=? bal)
  /\ ((v <? 0) || (bal <? v))%bool = kvm__KVM_CallCode__if_not_kvm_CanTransfer_kvm_StateDB_caller_Address_value (v <=? bal).
Proof.
  intros Hv. unfold kvm__KVM_create__if_not_kvm_CanTransfer_kvm_StateDB_caller_Address_value,
               kvm__KVM_CallCode__if_not_kvm_CanTransfer_kvm_StateDB_caller_Address_value.
  replace (v <? 0) with false by (symmetry; apply Z.ltb_ge; lia). cbn [orb].
  split; destruct (Z.ltb_spec bal v); destruct (Z.leb_spec v bal); try reflexivity; lia.
Qed.
(** a call to an absent account that is not a precompile and carries no value does nothing *)
Lemma src_call_absent ex pre v :
  (negb ex && negb pre && (v =? 0))%bool
  = (kvm__KVM_Call__if_not_kvm_StateDB_Exist_addr ex && kvm__KVM_Call__if_not_isPrecompile_and_value_Sign_eq_0 pre (sign_int v))%bool.
Proof.
  unfold kvm__KVM_Call__if_not_kvm_StateDB_Exist_addr, kvm__KVM_Call__if_not_isPrecompile_and_value_Sign_eq_0.
  rewrite sign_eq0. destruct ex, pre; reflexivity.
Qed.
(** collision: a non-zero nonce, or a code hash that is neither absent nor the hash of the empty code *)
Lemma src_collision n hascode :
  (negb (n =? 0) || hascode)%bool
  = kvm__KVM_create__if_kvm_StateDB_GetNonce_address_ne_0_or_contractHash_ne_common__1d664e2b n hascode hascode.
Proof.
  unfold kvm__KVM_create__if_kvm_StateDB_GetNonce_address_ne_0_or_contractHash_ne_common__1d664e2b, go_neqb.
  destruct hascode; reflexivity.
Qed.
Lemma src_code_size n : (max_code_size <? n) = kvm__KVM_create__set_maxCodeSizeExceeded n.
Proof. unfold kvm__KVM_create__set_maxCodeSizeExceeded. symmetry. apply Z.gtb_ltb. Qed.
Lemma src_deposit_gas n : 0 <= n <= max_code_size -> n * g_create_data = kvm__KVM_create__set_createDataGas n.
Proof.
  unfold max_code_size, g_create_data, kvm__KVM_create__set_createDataGas. intros H. gosem. reflexivity.
Qed.
(** what [settle] does with the two failure reasons of a creation: both revert to the snapshot *)
Lemma src_create_revert big err :
  kvm__KVM_create__if_maxCodeSizeExceeded_or_err_ne_nil big err = (big || err)%bool
  /\ kvm__KVM_create__if_err_eq_nil_and_not_maxCodeSizeExceeded (negb err) big = (negb err && negb big)%bool
  /\ kvm__KVM_create__if_maxCodeSizeExceeded_and_err_eq_nil big (negb err) = (big && negb err)%bool.
Proof. repeat split. Qed.
(** CREATE keeps one 64th; a value-bearing CALL adds the stipend *)
Lemma src_create_gas g : 0 <= g < U64 -> g - g / 64 = kvm__opCreate__set_gas_op g.
Proof.
  rewrite U64_val. intros H. unfold kvm__opCreate__set_gas_op, go_sub, go_quot.
  rewrite Z.quot_div_nonneg by lia.
  rewrite (wrap_id GoSem.U64 (g / 64)) by (unfold in_range; lia).
  rewrite wrap_id by (unfold in_range; lia). reflexivity.
Qed.
Lemma src_stipend g : 0 <= g -> g + g_call_stipend < U64 -> g + g_call_stipend = kvm__opCall__set_gas_op g.
Proof. rewrite U64_val. unfold g_call_stipend, kvm__opCall__set_gas_op. intros. gosem. reflexivity. Qed.

(** * instructions.go / contract.go: RETURNDATACOPY bounds, jumps, BLOCKHASH *)
(** the out-of-bounds test of [exec (ICopy SrcReturndata)]; offset and length are words, the length already
    passed the memory-size computation (< 2^64); [end] is the 256-bit sum offset + length *)
Lemma src_returndatacopy off len n : 0 <= off -> 0 <= len < U64 -> 0 <= n < U64 ->
  ((U64 <=? off) || (U64 <=? off + len) || (n <? off + len))%bool
  = (kvm__opReturnDataCopy__if_overflow (u64_overflow off)
     || kvm__opReturnDataCopy__if_overflow_or_uint64_len_kvm_interpreter_returnData_lt_end64 (u64_overflow (off + len)) n (u64_low (off + len)))%bool.
Proof.
  rewrite U64_val. intros Ho Hl Hn.
  unfold kvm__opReturnDataCopy__if_overflow, kvm__opReturnDataCopy__if_overflow_or_uint64_len_kvm_interpreter_returnData_lt_end64,
    u64_overflow, u64_low, go_conv.
  rewrite U64_val. rewrite (wrap_id GoSem.U64 n) by (unfold in_range; lia).
  destruct (Z.leb_spec 18446744073709551616 off); [reflexivity|]. cbn [orb].
  destruct (Z.leb_spec 18446744073709551616 (off + len)); [reflexivity|]. cbn [orb].
  rewrite Z.mod_small by lia. reflexivity.
Qed.
Lemma src_rdc_ok f : 0 <= sk (f_stack f) 1 -> 0 <= sk (f_stack f) 2 < U64 -> Z.of_nat (List.length (f_ret f)) < U64 ->
  (rdc_ok f <->
   (kvm__opReturnDataCopy__if_overflow (u64_overflow (sk (f_stack f) 1))
    || kvm__opReturnDataCopy__if_overflow_or_uint64_len_kvm_interpreter_returnData_lt_end64
         (u64_overflow (sk (f_stack f) 1 + sk (f_stack f) 2)) (Z.of_nat (List.length (f_ret f)))
         (u64_low (sk (f_stack f) 1 + sk (f_stack f) 2)))%bool = false).
Proof.
  intros Ho Hl Hn. rewrite <- src_returndatacopy by lia. unfold rdc_ok. cbn zeta.
  rewrite !orb_false_iff, !Z.leb_gt, Z.ltb_ge. lia.
Qed.

(** [valid_jumpdest]: range test and the JUMPDEST byte *)
Lemma src_jump_range dest len : 0 <= dest -> 0 <= len < U64 ->
  (dest <? len) = negb (kvm__Contract_validJumpdest__if_overflow_or_udest_ge_uint64_len_c_Code (u64_overflow dest) (u64_low dest) len).
Proof.
  rewrite U64_val. intros Hd Hl.
  unfold kvm__Contract_validJumpdest__if_overflow_or_udest_ge_uint64_len_c_Code, u64_overflow, u64_low, go_conv.
  rewrite U64_val. rewrite (wrap_id GoSem.U64 len) by (unfold in_range; lia). rewrite Z.geb_leb.
  destruct (Z.leb_spec 18446744073709551616 dest).
  - cbn [orb negb]. apply Z.ltb_ge. lia.
  - cbn [orb]. rewrite Z.mod_small by lia.
    destruct (Z.ltb_spec dest len); destruct (Z.leb_spec len dest); try reflexivity; lia.
Qed.
Lemma src_jumpdest_byte b : 0 <= b < 256 ->
  (b =? 91) = negb (kvm__Contract_validJumpdest__if_OpCode_c_Code_at_udest_ne_JUMPDEST b).
Proof.
  intros H. unfold kvm__Contract_validJumpdest__if_OpCode_c_Code_at_udest_ne_JUMPDEST, go_neqb, go_conv.
  rewrite wrap_id by (unfold in_range; lia). rewrite negb_involutive. reflexivity.
Qed.
Lemma src_jump_guards v c :
  kvm__opJump__if_not_callContext_Contract_validJumpdest_band_pos v = negb v
  /\ kvm__opJumpi__if_not_callContext_Contract_validJumpdest_band_pos v = negb v
  /\ kvm__opJumpi__if_not_cond_IsZero (c =? 0) = negb (c =? 0).
Proof. repeat split. Qed.
(** the PUSH test and data length of the bitmap sweep ([push_len], [jd_scan]) *)
Lemma src_push_len b : 0 <= b < 256 ->
  push_len b = if kvm__codeBitmap__if_op_ge_PUSH1_and_op_le_PUSH32 b then Z.to_nat (kvm__codeBitmap__set_numbits b) else O.
Proof.
  intros H. unfold push_len, kvm__codeBitmap__if_op_ge_PUSH1_and_op_le_PUSH32, kvm__codeBitmap__set_numbits.
  rewrite Z.geb_leb. destruct ((96 <=? b) && (b <=? 127))%bool eqn:E; [|reflexivity].
  apply andb_true_iff in E. destruct E as [E1 E2]. apply Z.leb_le in E1. apply Z.leb_le in E2.
  unfold go_add, go_sub. rewrite (wrap_id U8 (b - 96)) by (unfold in_range; lia).
  rewrite wrap_id by (unfold in_range; lia). f_equal. lia.
Qed.
Lemma src_sweep_loop pc len : kvm__codeBitmap__for_pc_lt_uint64_len_code pc len = (pc <? go_conv GoSem.U64 len)
  /\ kvm__codeBitmap__for_numbits_ge_8 pc = (8 <=? pc) /\ kvm__codeBitmap__for_numbits_gt_0 pc = (0 <? pc).
Proof.
  unfold kvm__codeBitmap__for_pc_lt_uint64_len_code, kvm__codeBitmap__for_numbits_ge_8, kvm__codeBitmap__for_numbits_gt_0.
  repeat split; [apply Z.geb_leb|apply Z.gtb_ltb].
Qed.

(** BLOCKHASH *)
Lemma src_blockhash (blockhash : Z -> Z) e n : 0 <= n -> 0 <= e_number e < U64 ->
  op_blockhash blockhash e n =
  if kvm__opBlockhash__if_overflow (u64_overflow n) then 0
  else let upper := kvm__opBlockhash__let_upper (e_number e) in
       let lower := if kvm__opBlockhash__if_upper_lt_257 upper then kvm__opBlockhash__let_lower else kvm__opBlockhash__set_lower upper in
       if kvm__opBlockhash__if_num64_ge_lower_and_num64_lt_upper (u64_low n) lower upper then blockhash (u64_low n) else 0.
Proof.
  rewrite U64_val. intros Hn He.
  unfold op_blockhash, kvm__opBlockhash__if_overflow, kvm__opBlockhash__let_upper, kvm__opBlockhash__if_upper_lt_257,
    kvm__opBlockhash__let_lower, kvm__opBlockhash__set_lower, kvm__opBlockhash__if_num64_ge_lower_and_num64_lt_upper,
    u64_overflow, u64_low.
  rewrite U64_val. destruct (Z.leb_spec 18446744073709551616 n); [reflexivity|].
  rewrite Z.mod_small by lia. cbn zeta. rewrite !Z.geb_leb.
  destruct (Z.ltb_spec (e_number e) 257); [reflexivity|].
  unfold go_sub. rewrite wrap_id by (unfold in_range; lia). reflexivity.
Qed.

(** * memory.go *)
Lemma src_resize len size : 0 <= len < U64 ->
  (len <? size) = kvm__Memory_Resize__if_uint64_m_Len_lt_size len size
  /\ (len < size < U64 -> size - len = kvm__Memory_Resize__arg_size_minus_uint64_m_Len size len).
Proof.
  rewrite U64_val. intros H.
  unfold kvm__Memory_Resize__if_uint64_m_Len_lt_size, kvm__Memory_Resize__arg_size_minus_uint64_m_Len, go_conv, go_sub.
  rewrite (wrap_id GoSem.U64 len) by (unfold in_range; lia). split; [reflexivity|].
  intros H2. rewrite wrap_id by (unfold in_range; lia). reflexivity.
Qed.
(** Memory.Set panics when [offset + size] exceeds the store: [write_ok] (ProofsMem) shows the model never writes there *)
Lemma src_set_bound off size len : 0 <= off -> 0 <= size -> off + size < U64 -> 0 <= len < U64 ->
  kvm__Memory_Set__if_size_gt_0 size = (0 <? size)
  /\ kvm__Memory_Set__if_offset_plus_size_gt_uint64_len_m_store off size len = (len <? off + size).
Proof.
  rewrite U64_val. intros. unfold kvm__Memory_Set__if_size_gt_0, kvm__Memory_Set__if_offset_plus_size_gt_uint64_len_m_store, go_add, go_conv.
  rewrite !wrap_id by (unfold in_range; lia). split; apply Z.gtb_ltb.
Qed.

(** * contracts.go: precompile gas test and the identity price *)
Lemma src_precompile_gas gas cost : (gas <? cost) = kvm__RunPrecompiledContract__if_suppliedGas_lt_gasCost gas (kvm__RunPrecompiledContract__let_gasCost cost)
  /\ (0 <= cost <= gas -> gas < U64 -> gas - cost = kvm__RunPrecompiledContract__set_suppliedGas_op gas cost).
Proof.
  split; [reflexivity|]. rewrite U64_val. intros H1 H2. unfold kvm__RunPrecompiledContract__set_suppliedGas_op. gosem. reflexivity.
Qed.
Lemma src_identity_cost (args : list Z) : Z.of_nat (List.length args) < 2 ^ 32 ->
  identity_cost args = kvm__dataCopy_RequiredGas__ret_uint64_len_input_plus_31_div_32_mul_configs_IdentityPerWordG_9a806594 (Z.of_nat (List.length args)).
Proof.
  intros H. unfold identity_cost, words, g_identity_word, g_identity_base,
              kvm__dataCopy_RequiredGas__ret_uint64_len_input_plus_31_div_32_mul_configs_IdentityPerWordG_9a806594.
  set (n := Z.of_nat (List.length args)) in *. assert (0 <= n) by (unfold n; lia).
  unfold go_add, go_mul, go_quot, go_conv.
  rewrite (wrap_id I64 (n + 31)) by (unfold in_range; lia).
  rewrite (wrap_id GoSem.U64 (n + 31)) by (unfold in_range; lia).
  rewrite Z.quot_div_nonneg by lia.
  rewrite (wrap_id GoSem.U64 ((n + 31) / 32)) by (unfold in_range; lia).
  rewrite (wrap_id GoSem.U64 ((n + 31) / 32 * 3)) by (unfold in_range; lia).
  rewrite wrap_id by (unfold in_range; lia). reflexivity.
Qed.

(** * what is compared, not only how: the operands of the guards *)
Lemma src_atoms :
  kvm__Interpreter_Run__if_sLen_lt_operation_minStack_atoms = ["sLen : int"; "operation.minStack : int"]%string
  /\ kvm__Interpreter_Run__if_sLen_gt_operation_maxStack_atoms = ["sLen : int"; "operation.maxStack : int"]%string
  /\ kvm__Interpreter_Run__let_sLen_atoms = ["stack.len() : int"]%string
  /\ kvm__Interpreter_Run__if_operation_writes_or_op_eq_CALL_and_stack_Back_2__Sign_ne_0_atoms
     = ["operation.writes : bool"; "op : github.com/kardiachain/go-kardia/kvm.OpCode"; "stack.Back(2).Sign() : int"]%string
  /\ kvm__Interpreter_Run__if_not_contract_UseGas_cost_atoms = ["contract.UseGas(cost) : bool"]%string
  /\ kvm__Interpreter_Run__if_err_ne_nil_or_not_contract_UseGas_dynamicCost_atoms = ["err != nil : bool"; "contract.UseGas(dynamicCost) : bool"]%string
  /\ kvm__Interpreter_Run__if_err_ne_nil_or_not_contract_UseGas_cost_atoms = ["err != nil : bool"; "contract.UseGas(cost) : bool"]%string
  /\ kvm__Interpreter_Run__set_cost_op_atoms = ["cost : uint64"; "dynamicCost : uint64"]%string
  /\ kvm__Contract_UseGas__if_c_Gas_lt_gas_atoms = ["c.Gas : uint64"; "gas : uint64"]%string
  /\ kvm__Contract_UseGas__set_Gas_op_atoms = ["c.Gas : uint64"; "gas : uint64"]%string
  /\ kvm__KVM_Call__if_kvm_depth_gt_int_configs_CallCreateDepth_atoms = ["kvm.depth : int"]%string
  /\ kvm__KVM_CallCode__if_kvm_depth_gt_int_configs_CallCreateDepth_atoms = ["kvm.depth : int"]%string
  /\ kvm__KVM_DelegateCall__if_kvm_depth_gt_int_configs_CallCreateDepth_atoms = ["kvm.depth : int"]%string
  /\ kvm__KVM_StaticCall__if_kvm_depth_gt_int_configs_CallCreateDepth_atoms = ["kvm.depth : int"]%string
  /\ kvm__KVM_create__if_kvm_depth_gt_int_configs_CallCreateDepth_atoms = ["kvm.depth : int"]%string
  /\ kvm__KVM_Call__if_value_Sign_ne_0_and_not_kvm_BlockContext_CanTransfer_kvm_Sta_a9cbbd5d_atoms
     = ["value.Sign() : int"; "kvm.BlockContext.CanTransfer(kvm.StateDB, caller.Address(), value) : bool"]%string
  /\ kvm__KVM_create__if_not_kvm_CanTransfer_kvm_StateDB_caller_Address_value_atoms = ["kvm.CanTransfer(kvm.StateDB, caller.Address(), value) : bool"]%string
  /\ kvm__KVM_create__if_kvm_StateDB_GetNonce_address_ne_0_or_contractHash_ne_common__1d664e2b_atoms
     = ["kvm.StateDB.GetNonce(address) : uint64"; "contractHash != (common.Hash{}) : untyped bool"; "contractHash != emptyCodeHash : untyped bool"]%string
  /\ kvm__KVM_create__set_maxCodeSizeExceeded_atoms = ["len(ret) : int"]%string
  /\ kvm__KVM_create__set_createDataGas_atoms = ["len(ret) : int"]%string
  /\ kvm__KVM_create__if_contract_UseGas_createDataGas_atoms = ["contract.UseGas(createDataGas) : bool"]%string
  /\ kvm__KVM_create__if_maxCodeSizeExceeded_or_err_ne_nil_atoms = ["maxCodeSizeExceeded : bool"; "err != nil : bool"]%string
  /\ kvm__memoryGasCost__let_newMemSizeWords_atoms = ["toWordSize(newMemSize) : uint64"]%string
  /\ kvm__memoryGasCost__if_newMemSize_gt_uint64_mem_Len_atoms = ["newMemSize : uint64"; "mem.Len() : int"]%string
  /\ kvm__memoryGasCost__set_fee_atoms = ["newTotalFee : uint64"; "mem.lastGasCost : uint64"]%string
  /\ kvm__callGas__set_availableGas_atoms = ["availableGas : uint64"; "base : uint64"]%string
  /\ kvm__callGas__if_not_callCost_IsUint64_or_gas_lt_callCost_Uint64_atoms = ["callCost.IsUint64() : bool"; "gas : uint64"; "callCost.Uint64() : uint64"]%string
  /\ kvm__calcMemSize64WithUint__set_val_atoms = ["offset64 : uint64"; "length64 : uint64"]%string
  /\ kvm__calcMemSize64WithUint__ret_val_lt_offset64_atoms = ["val : uint64"; "offset64 : uint64"]%string
  /\ kvm__opReturnDataCopy__if_overflow_or_uint64_len_kvm_interpreter_returnData_lt_end64_atoms
     = ["overflow : bool"; "len(kvm.interpreter.returnData) : int"; "end64 : uint64"]%string
  /\ kvm__Contract_validJumpdest__if_overflow_or_udest_ge_uint64_len_c_Code_atoms = ["overflow : bool"; "udest : uint64"; "len(c.Code) : int"]%string
  /\ kvm__Contract_validJumpdest__if_OpCode_c_Code_at_udest_ne_JUMPDEST_atoms = ["c.Code[udest] : byte"]%string
  /\ kvm__opBlockhash__let_upper_atoms = ["kvm.BlockHeight.Uint64() : uint64"]%string
  /\ kvm__opBlockhash__if_num64_ge_lower_and_num64_lt_upper_atoms = ["num64 : uint64"; "lower : uint64"; "upper : uint64"]%string
  /\ kvm__gasCall__if_transfersValue_and_kvm_StateDB_Empty_address_atoms = ["transfersValue : bool"; "kvm.StateDB.Empty(address) : bool"]%string
  /\ kvm__gasCall__if_not_kvm_StateDB_Exist_address_atoms = ["kvm.StateDB.Exist(address) : bool"]%string
  /\ kvm__gasSelfdestruct__if_kvm_StateDB_Empty_address_and_kvm_StateDB_GetBalance_contrac_a3d63a4d_atoms
     = ["kvm.StateDB.Empty(address) : bool"; "kvm.StateDB.GetBalance(contract.Address()).Sign() : int"]%string
  /\ kvm__gasExp__set_expByteLen_atoms = ["stack.data[stack.len()-2].BitLen() : int"]%string
  /\ kvm__RunPrecompiledContract__let_gasCost_atoms = ["p.RequiredGas(input) : uint64"]%string
  /\ kvm__RunPrecompiledContract__if_suppliedGas_lt_gasCost_atoms = ["suppliedGas : uint64"; "gasCost : uint64"]%string
  /\ kvm__dataCopy_RequiredGas__ret_uint64_len_input_plus_31_div_32_mul_configs_IdentityPerWordG_9a806594_atoms = ["len(input) : int"]%string
  /\ kvm__ecrecover_Run__if_not_allZero_input_at_32_63_or_not_crypto_ValidateSignatureVa_a2aaeffb_atoms
     = ["allZero(input[32:63]) : bool"; "crypto.ValidateSignatureValues(v, r, s, false) : bool"]%string
  /\ kvm__ecrecover_Run__set_v_atoms = ["input[63] : byte"]%string
  /\ kvm__opCallDataLoad__if_not_overflow_atoms = ["overflow : bool"]%string
  /\ kvm__opSAR__if_value_Sign_ge_0_atoms = ["value.Sign() : int"]%string.
Proof. repeat split; reflexivity. Qed.

(** SAR beyond 256: the sign test ([signed v <? 0] in U256.sar) *)
Lemma src_sar_sign v : kvm__opSAR__if_value_Sign_ge_0 (sign_int v) = (0 <=? v).
Proof. apply sign_ge0. Qed.
Lemma src_ecrecover z ok : kvm__ecrecover_Run__if_not_allZero_input_at_32_63_or_not_crypto_ValidateSignatureVa_a2aaeffb z ok = (negb z || negb ok)%bool
  /\ (forall b, 27 <= b <= 28 -> kvm__ecrecover_Run__set_v b = b - 27).
Proof.
  split; [reflexivity|]. intros b Hb. unfold kvm__ecrecover_Run__set_v. gosem. reflexivity.
Qed.

(** * the whole tie as one statement (quoted by Properties.v) *)
Definition C10_source_tie_statement : Prop :=
  (forall n m, kvm__Interpreter_Run__if_sLen_lt_operation_minStack n m = (n <? m) /\ kvm__Interpreter_Run__if_sLen_lt_operation_minStack_2 n m = (n <? m))
  /\ (forall n m, kvm__Interpreter_Run__if_sLen_gt_operation_maxStack n m = (m <? n) /\ kvm__Interpreter_Run__if_sLen_gt_operation_maxStack_2 n m = (m <? n))
  /\ (forall keccak blockhash e op info i, op_info e op = Some info -> decode keccak blockhash op = Some i ->
        oi_min info = kvm__minStack (Z.of_nat (instr_pops i)) (Z.of_nat (instr_pushes i)) /\
        oi_max info = kvm__maxStack (Z.of_nat (instr_pops i)) (Z.of_nat (instr_pushes i)))
  /\ (forall n, 0 <= n <= 32 -> kvm__minSwapStack n = n /\ kvm__maxSwapStack n = stack_limit /\ kvm__minDupStack n = n /\ kvm__maxDupStack n = stack_limit - 1)
  /\ (forall ro w op v,
        (kvm__Interpreter_Run__if_in_readOnly ro
         && kvm__Interpreter_Run__if_operation_writes_or_op_eq_CALL_and_stack_Back_2__Sign_ne_0 w op (sign_int v))%bool
        = (ro && (w || ((op =? 241) && negb (v =? 0))))%bool)
  /\ (forall g c, kvm__Contract_UseGas__if_c_Gas_lt_gas g c = (g <? c))
  /\ (forall g c, 0 <= c <= g -> g < U64 -> kvm__Contract_UseGas__set_Gas_op g c = g - c)
  /\ (forall c d, 0 <= c -> 0 <= d -> c + d < U64 -> kvm__Interpreter_Run__set_cost_op c d = c + d)
  /\ (forall n, 0 <= n <= 18446744073709551584 -> kvm__toWordSize n = words n)
  /\ (forall size, in_range GoSem.U64 size ->
        round_mem size = (let '(p, ov) := lib_common__SafeMul (kvm__toWordSize size) 32 in if ov then None else Some p)
        /\ round_mem size = (let '(p, ov) := lib_math__SafeMul (kvm__toWordSize size) 32 in if ov then None else Some p))
  /\ (forall x y, in_range GoSem.U64 x -> in_range GoSem.U64 y ->
        lib_math__SafeAdd x y = (wrapu64 (x + y), max_u64 <? x + y) /\ lib_common__SafeAdd x y = (wrapu64 (x + y), max_u64 <? x + y))
  /\ (forall x y, in_range GoSem.U64 x -> in_range GoSem.U64 y ->
        lib_math__SafeSub x y = (wrapu64 (x - y), x <? y) /\ lib_common__SafeSub x y = (wrapu64 (x - y), x <? y))
  /\ (forall x y, in_range GoSem.U64 x -> in_range GoSem.U64 y ->
        lib_math__SafeMul x y = (wrapu64 (x * y), max_u64 <? x * y) /\ lib_common__SafeMul x y = (wrapu64 (x * y), max_u64 <? x * y))
  /\ (forall off len, 0 <= off < U64 -> 0 <= len < U64 ->
        mem_need off len =
        if kvm__calcMemSize64WithUint__if_length64_eq_0 len then Some 0
        else if kvm__calcMemSize64WithUint__if_overflow (u64_overflow off) then None
        else if kvm__calcMemSize64WithUint__ret_val_lt_offset64 (kvm__calcMemSize64WithUint__set_val off len) off then None
        else Some (kvm__calcMemSize64WithUint__set_val off len))
  /\ (forall off len, 0 <= off -> 0 < len ->
        (kvm__calcMemSize64__if_not_l_IsUint64 (len <? U64) = true \/ kvm__calcMemSize64WithUint__if_overflow (u64_overflow off) = true) ->
        mem_need off len = None)
  /\ (forall f new, 0 <= new <= 18446744073709551584 -> new mod 32 = 0 ->
        Z.of_nat (List.length (f_mem f)) < U64 -> 0 <= f_mcost f ->
        (new <= MEM_LIMIT -> f_mcost f <= new / 32 * g_memory + new / 32 * (new / 32) / g_quad_coeff_div) ->
        mem_gas f new =
        if kvm__memoryGasCost__if_newMemSize_eq_0 new then Some (0, f_mcost f)
        else if kvm__memoryGasCost__if_newMemSize_gt_0x1FFFFFFFE0 new then None
        else
          let w := kvm__memoryGasCost__let_newMemSizeWords (kvm__toWordSize new) in
          if kvm__memoryGasCost__if_newMemSize_gt_uint64_mem_Len (kvm__memoryGasCost__set_newMemSize w) (Z.of_nat (List.length (f_mem f)))
          then let tot := kvm__memoryGasCost__set_newTotalFee (kvm__memoryGasCost__set_linCoef w)
                                                               (kvm__memoryGasCost__set_quadCoef (kvm__memoryGasCost__set_square w)) in
               Some (kvm__memoryGasCost__set_fee tot (f_mcost f), kvm__memoryGasCost__put_mem_lastGasCost tot)
          else Some (0, f_mcost f))
  /\ (forall avail base cost, 0 <= base <= avail -> avail < U64 -> 0 <= cost ->
        call_gas avail base cost =
        let g := kvm__callGas__set_gas (kvm__callGas__set_availableGas avail base) in
        if kvm__callGas__if_not_callCost_IsUint64_or_gas_lt_callCost_Uint64 (cost <? U64) g (u64_low cost) then Some g
        else Some (u64_low cost))
  /\ (forall b, 0 <= b < W -> byte_len b = kvm__gasExp__set_expByteLen (bit_len b))
  /\ (forall tv em ex : bool,
        (if (tv && em)%bool then g_call_new_account else 0) + (if ex then 0 else g_call_new_account) + (if tv then g_call_value_transfer else 0)
        = (let g0 := 0 in
           let g1 := if kvm__gasCall__if_transfersValue_and_kvm_StateDB_Empty_address tv em then kvm__gasCall__set_gas_op g0 else g0 in
           let g2 := if kvm__gasCall__if_not_kvm_StateDB_Exist_address ex then kvm__gasCall__set_gas_op_2 g1 else g1 in
           if kvm__gasCall__if_transfersValue tv then kvm__gasCall__set_gas_op_3 g2 else g2))
  /\ (forall cur new,
        kvm__gasSStore__if_val_eq_common_Hash_and_y_Sign_ne_0 (cur =? 0) (sign_int new) = ((cur =? 0) && negb (new =? 0))%bool
        /\ kvm__gasSStore__if_val_ne_common_Hash_and_y_Sign_eq_0 (negb (cur =? 0)) (sign_int new) = (negb (cur =? 0) && (new =? 0))%bool)
  /\ (forall em bal ex,
        kvm__gasSelfdestruct__if_kvm_StateDB_Empty_address_and_kvm_StateDB_GetBalance_contrac_a3d63a4d em (sign_int bal) = (em && negb (bal =? 0))%bool
        /\ kvm__gasSelfdestruct__if_not_kvm_StateDB_Exist_address ex = negb ex
        /\ kvm__gasSelfdestruct__set_gas_op 0 = g_create_by_selfdestruct /\ kvm__gasSelfdestruct__set_gas_op_2 0 = g_create_by_selfdestruct)
  /\ (forall d,
        (call_create_depth <? d) = kvm__KVM_Call__if_kvm_depth_gt_int_configs_CallCreateDepth d
        /\ (call_create_depth <? d) = kvm__KVM_CallCode__if_kvm_depth_gt_int_configs_CallCreateDepth d
        /\ (call_create_depth <? d) = kvm__KVM_DelegateCall__if_kvm_depth_gt_int_configs_CallCreateDepth d
        /\ (call_create_depth <? d) = kvm__KVM_StaticCall__if_kvm_depth_gt_int_configs_CallCreateDepth d
        /\ (call_create_depth <? d) = kvm__KVM_create__if_kvm_depth_gt_int_configs_CallCreateDepth d)
  /\ (forall v bal, 0 <= v ->
        ((v <? 0) || (negb (v =? 0) && (bal <? v)))%bool
        = kvm__KVM_Call__if_value_Sign_ne_0_and_not_kvm_BlockContext_CanTransfer_kvm_Sta_a9cbbd5d (sign_int v) (v <=? bal))
  /\ (forall v bal, 0 <= v ->
        ((v <? 0) || (bal <? v))%bool = kvm__KVM_create__if_not_kvm_CanTransfer_kvm_StateDB_caller_Address_value (v <=? bal)
        /\ ((v <? 0) || (bal <? v))%bool = kvm__KVM_CallCode__if_not_kvm_CanTransfer_kvm_StateDB_caller_Address_value (v <=? bal))
  /\ (forall ex pre v,
        (negb ex && negb pre && (v =? 0))%bool
        = (kvm__KVM_Call__if_not_kvm_StateDB_Exist_addr ex && kvm__KVM_Call__if_not_isPrecompile_and_value_Sign_eq_0 pre (sign_int v))%bool)
  /\ (forall n hascode,
        (negb (n =? 0) || hascode)%bool
        = kvm__KVM_create__if_kvm_StateDB_GetNonce_address_ne_0_or_contractHash_ne_common__1d664e2b n hascode hascode)
  /\ (forall n, (max_code_size <? n) = kvm__KVM_create__set_maxCodeSizeExceeded n)
  /\ (forall n, 0 <= n <= max_code_size -> n * g_create_data = kvm__KVM_create__set_createDataGas n)
  /\ (forall big err,
        kvm__KVM_create__if_maxCodeSizeExceeded_or_err_ne_nil big err = (big || err)%bool
        /\ kvm__KVM_create__if_err_eq_nil_and_not_maxCodeSizeExceeded (negb err) big = (negb err && negb big)%bool
        /\ kvm__KVM_create__if_maxCodeSizeExceeded_and_err_eq_nil big (negb err) = (big && negb err)%bool)
  /\ (forall g, 0 <= g < U64 -> g - g / 64 = kvm__opCreate__set_gas_op g)
  /\ (forall g, 0 <= g -> g + g_call_stipend < U64 -> g + g_call_stipend = kvm__opCall__set_gas_op g)
  /\ (forall off len n, 0 <= off -> 0 <= len < U64 -> 0 <= n < U64 ->
        ((U64 <=? off) || (U64 <=? off + len) || (n <? off + len))%bool
        = (kvm__opReturnDataCopy__if_overflow (u64_overflow off)
           || kvm__opReturnDataCopy__if_overflow_or_uint64_len_kvm_interpreter_returnData_lt_end64 (u64_overflow (off + len)) n (u64_low (off + len)))%bool)
  /\ (forall f, 0 <= sk (f_stack f) 1 -> 0 <= sk (f_stack f) 2 < U64 -> Z.of_nat (List.length (f_ret f)) < U64 ->
        (rdc_ok f <->
         (kvm__opReturnDataCopy__if_overflow (u64_overflow (sk (f_stack f) 1))
          || kvm__opReturnDataCopy__if_overflow_or_uint64_len_kvm_interpreter_returnData_lt_end64
               (u64_overflow (sk (f_stack f) 1 + sk (f_stack f) 2)) (Z.of_nat (List.length (f_ret f)))
               (u64_low (sk (f_stack f) 1 + sk (f_stack f) 2)))%bool = false))
  /\ (forall dest len, 0 <= dest -> 0 <= len < U64 ->
        (dest <? len) = negb (kvm__Contract_validJumpdest__if_overflow_or_udest_ge_uint64_len_c_Code (u64_overflow dest) (u64_low dest) len))
  /\ (forall b, 0 <= b < 256 -> (b =? 91) = negb (kvm__Contract_validJumpdest__if_OpCode_c_Code_at_udest_ne_JUMPDEST b))
  /\ (forall b, 0 <= b < 256 ->
        push_len b = if kvm__codeBitmap__if_op_ge_PUSH1_and_op_le_PUSH32 b then Z.to_nat (kvm__codeBitmap__set_numbits b) else O)
  /\ (forall (blockhash : Z -> Z) e n, 0 <= n -> 0 <= e_number e < U64 ->
        op_blockhash blockhash e n =
        if kvm__opBlockhash__if_overflow (u64_overflow n) then 0
        else let upper := kvm__opBlockhash__let_upper (e_number e) in
             let lower := if kvm__opBlockhash__if_upper_lt_257 upper then kvm__opBlockhash__let_lower else kvm__opBlockhash__set_lower upper in
             if kvm__opBlockhash__if_num64_ge_lower_and_num64_lt_upper (u64_low n) lower upper then blockhash (u64_low n) else 0)
  /\ (forall len size, 0 <= len < U64 ->
        (len <? size) = kvm__Memory_Resize__if_uint64_m_Len_lt_size len size
        /\ (len < size < U64 -> size - len = kvm__Memory_Resize__arg_size_minus_uint64_m_Len size len))
  /\ (forall off size len, 0 <= off -> 0 <= size -> off + size < U64 -> 0 <= len < U64 ->
        kvm__Memory_Set__if_size_gt_0 size = (0 <? size)
        /\ kvm__Memory_Set__if_offset_plus_size_gt_uint64_len_m_store off size len = (len <? off + size))
  /\ (forall gas cost,
        (gas <? cost) = kvm__RunPrecompiledContract__if_suppliedGas_lt_gasCost gas (kvm__RunPrecompiledContract__let_gasCost cost)
        /\ (0 <= cost <= gas -> gas < U64 -> gas - cost = kvm__RunPrecompiledContract__set_suppliedGas_op gas cost))
  /\ (forall args : list Z, Z.of_nat (List.length args) < 2 ^ 32 ->
        identity_cost args = kvm__dataCopy_RequiredGas__ret_uint64_len_input_plus_31_div_32_mul_configs_IdentityPerWordG_9a806594 (Z.of_nat (List.length args)))
  /\ (forall z ok,
        kvm__ecrecover_Run__if_not_allZero_input_at_32_63_or_not_crypto_ValidateSignatureVa_a2aaeffb z ok = (negb z || negb ok)%bool
        /\ (forall b, 27 <= b <= 28 -> kvm__ecrecover_Run__set_v b = b - 27))
  /\ (forall v, kvm__opSAR__if_value_Sign_ge_0 (sign_int v) = (0 <=? v))
  /\ kvm__ecrecover_Run__if_not_allZero_input_at_32_63_or_not_crypto_ValidateSignatureVa_a2aaeffb_atoms
     = ["allZero(input[32:63]) : bool"; "crypto.ValidateSignatureValues(v, r, s, false) : bool"]%string
  /\ kvm__opReturnDataCopy__if_overflow_or_uint64_len_kvm_interpreter_returnData_lt_end64_atoms
     = ["overflow : bool"; "len(kvm.interpreter.returnData) : int"; "end64 : uint64"]%string
  /\ kvm__KVM_create__if_kvm_depth_gt_int_configs_CallCreateDepth_atoms = ["kvm.depth : int"]%string
  /\ kvm__Contract_UseGas__if_c_Gas_lt_gas_atoms = ["c.Gas : uint64"; "gas : uint64"]%string
  /\ kvm__Interpreter_Run__if_sLen_gt_operation_maxStack_atoms = ["sLen : int"; "operation.maxStack : int"]%string
  /\ kvm__Interpreter_Run__let_sLen_atoms = ["stack.len() : int"]%string.

Lemma C10_source_tie_proof : C10_source_tie_statement.
Proof.
  unfold C10_source_tie_statement.
  split; [exact src_stack_min|]. split; [exact src_stack_max|]. split; [exact src_table_stack|].
  split; [exact src_swap_dup|]. split; [exact src_static|]. split; [exact src_usegas_test|].
  split; [exact src_usegas_sub|]. split; [exact src_v1_charge|]. split; [exact src_toWordSize|].
  split; [exact src_round_mem|]. split; [exact src_SafeAdd|]. split; [exact src_SafeSub|]. split; [exact src_SafeMul|].
  split; [exact src_mem_need|]. split; [exact src_mem_need_big|]. split; [exact src_mem_gas|].
  split; [exact src_call_gas|]. split; [exact src_exp_bytes|]. split; [exact src_call_base|].
  split; [exact src_sstore|]. split; [exact src_selfdestruct|]. split; [exact src_depth|].
  split; [exact src_call_balance|]. split; [exact src_create_balance|]. split; [exact src_call_absent|].
  split; [exact src_collision|]. split; [exact src_code_size|]. split; [exact src_deposit_gas|].
  split; [exact src_create_revert|]. split; [exact src_create_gas|]. split; [exact src_stipend|].
  split; [exact src_returndatacopy|]. split; [exact src_rdc_ok|]. split; [exact src_jump_range|].
  split; [exact src_jumpdest_byte|]. split; [exact src_push_len|]. split; [exact src_blockhash|].
  split; [exact src_resize|]. split; [exact src_set_bound|]. split; [exact src_precompile_gas|].
  split; [exact src_identity_cost|]. split; [exact src_ecrecover|]. split; [exact src_sar_sign|].
  repeat split; reflexivity.
Qed.
