(** C10 — the model: a reference EVM interpreter written from the specification, as a small-step
    machine over an explicit list of call frames (top frame first).  Constant gas, stack bounds
    and the halts/jumps/writes/reverts/returns flags come from the jump tables that the harness
    prints from /repo (Generated/C10Facts.v); everything else (word arithmetic, memory, storage,
    control flow, call/create frames with snapshot/revert, dynamic gas) is written here.
    No proofs in this file. *)
From Coq Require Import List ZArith Bool.
From Kardia Require Import C10.U256 Generated.C10Facts.
Import ListNotations.
Local Open Scope Z_scope.

Definition U64 : Z := 2 ^ 64.
Definition MEM_LIMIT : Z := 137438953440. (* 0x1FFFFFFFE0 *)

(** * State *)
Record account := mk_account {
  a_nonce : Z; a_bal : Z; a_code : list Z; a_store : list (Z * Z); a_dead : bool }.
Record log := mk_log { l_addr : Z; l_topics : list Z; l_data : list Z }.
Record world := mk_world { w_accts : list (Z * account); w_logs : list log }.

Record env := mk_env {
  e_origin : Z; e_gasprice : Z; e_coinbase : Z; e_number : Z; e_time : Z; e_gaslimit : Z;
  e_chainid : Z; e_v2 : bool }.

Inductive err := EOog | EBadOp | EUnderflow | EOverflow | EBadJump | EStatic | ERetOob | EDepth
               | EBalance | ECollision | ECodeSize.
Inductive outcome := OOk | ORevert | OErr (e : err).
Inductive kind := KCall | KCallCode | KDelegate | KStatic | KCreate.

Record frame := mk_frame {
  f_kind : kind; f_self : Z; f_caller : Z; f_value : Z; f_code : list Z; f_input : list Z;
  f_pc : Z; f_stack : list Z; f_mem : list Z; f_mcost : Z; f_gas : Z; f_static : bool;
  f_ret : list Z;        (* return data of the last call made by this frame *)
  f_snap : world;        (* world at frame entry: restored when the frame fails or reverts *)
  f_retoff : Z; f_retsize : Z }.

Inductive status := Running | Final (o : outcome) (ret : list Z) (gas : Z) | Unsupported.
Record config := mk_config { c_frames : list frame; c_world : world; c_status : status }.

Definition set_stack (f : frame) (s : list Z) : frame :=
  mk_frame (f_kind f) (f_self f) (f_caller f) (f_value f) (f_code f) (f_input f) (f_pc f) s
           (f_mem f) (f_mcost f) (f_gas f) (f_static f) (f_ret f) (f_snap f) (f_retoff f) (f_retsize f).
Definition set_pc (f : frame) (pc : Z) : frame :=
  mk_frame (f_kind f) (f_self f) (f_caller f) (f_value f) (f_code f) (f_input f) pc (f_stack f)
           (f_mem f) (f_mcost f) (f_gas f) (f_static f) (f_ret f) (f_snap f) (f_retoff f) (f_retsize f).
Definition set_mem (f : frame) (m : list Z) (mc : Z) : frame :=
  mk_frame (f_kind f) (f_self f) (f_caller f) (f_value f) (f_code f) (f_input f) (f_pc f) (f_stack f)
           m mc (f_gas f) (f_static f) (f_ret f) (f_snap f) (f_retoff f) (f_retsize f).
Definition set_gas (f : frame) (g : Z) : frame :=
  mk_frame (f_kind f) (f_self f) (f_caller f) (f_value f) (f_code f) (f_input f) (f_pc f) (f_stack f)
           (f_mem f) (f_mcost f) g (f_static f) (f_ret f) (f_snap f) (f_retoff f) (f_retsize f).
Definition set_ret (f : frame) (r : list Z) : frame :=
  mk_frame (f_kind f) (f_self f) (f_caller f) (f_value f) (f_code f) (f_input f) (f_pc f) (f_stack f)
           (f_mem f) (f_mcost f) (f_gas f) (f_static f) r (f_snap f) (f_retoff f) (f_retsize f).

(** * Association lists (small states) *)
Fixpoint alist_get {A} (k : Z) (l : list (Z * A)) : option A :=
  match l with
  | [] => None
  | (k', v) :: t => if k =? k' then Some v else alist_get k t
  end.
Fixpoint alist_set {A} (k : Z) (v : A) (l : list (Z * A)) : list (Z * A) :=
  match l with
  | [] => [(k, v)]
  | (k', v') :: t => if k =? k' then (k, v) :: t else (k', v') :: alist_set k v t
  end.

Definition empty_account : account := mk_account 0 0 [] [] false.
Definition get_acct (w : world) (a : Z) : option account := alist_get a (w_accts w).
Definition acct_or_new (w : world) (a : Z) : account :=
  match get_acct w a with Some x => x | None => empty_account end.
Definition set_acct (w : world) (a : Z) (x : account) : world :=
  mk_world (alist_set a x (w_accts w)) (w_logs w).
Definition exists_b (w : world) (a : Z) : bool :=
  match get_acct w a with Some _ => true | None => false end.
Definition is_nil {A} (l : list A) : bool := match l with [] => true | _ => false end.
Definition acct_empty (x : account) : bool := (a_nonce x =? 0) && (a_bal x =? 0) && is_nil (a_code x).
Definition empty_b (w : world) (a : Z) : bool :=
  match get_acct w a with Some x => acct_empty x | None => true end.
Definition balance (w : world) (a : Z) : Z := a_bal (acct_or_new w a).
Definition nonce (w : world) (a : Z) : Z := a_nonce (acct_or_new w a).
Definition code_of (w : world) (a : Z) : list Z := a_code (acct_or_new w a).
Definition sload (w : world) (a k : Z) : Z :=
  match alist_get k (a_store (acct_or_new w a)) with Some v => v | None => 0 end.
Definition with_bal (x : account) (b : Z) := mk_account (a_nonce x) b (a_code x) (a_store x) (a_dead x).
Definition with_nonce (x : account) (n : Z) := mk_account n (a_bal x) (a_code x) (a_store x) (a_dead x).
Definition with_code (x : account) (c : list Z) := mk_account (a_nonce x) (a_bal x) c (a_store x) (a_dead x).
Definition with_store (x : account) (s : list (Z * Z)) := mk_account (a_nonce x) (a_bal x) (a_code x) s (a_dead x).
Definition touch (w : world) (a : Z) : world := set_acct w a (acct_or_new w a).
Definition add_balance (w : world) (a v : Z) : world :=
  let x := acct_or_new w a in set_acct w a (with_bal x (a_bal x + v)).
Definition transfer (w : world) (from to v : Z) : world :=
  add_balance (add_balance w from (- v)) to v.
Definition set_nonce (w : world) (a n : Z) : world := set_acct w a (with_nonce (acct_or_new w a) n).
Definition set_code (w : world) (a : Z) (c : list Z) : world := set_acct w a (with_code (acct_or_new w a) c).
Definition sstore (w : world) (a k v : Z) : world :=
  let x := acct_or_new w a in set_acct w a (with_store x (alist_set k v (a_store x))).
Definition add_log (w : world) (l : log) : world := mk_world (w_accts w) (w_logs w ++ [l]).
(** CreateAccount on an address: fresh object, balance carried over *)
Definition create_account (w : world) (a : Z) : world :=
  set_acct w a (mk_account 0 (balance w a) [] [] false).
Definition suicide (w : world) (a : Z) : world :=
  match get_acct w a with
  | Some x => set_acct w a (mk_account (a_nonce x) 0 (a_code x) (a_store x) true)
  | None => w
  end.

(** * Bytes, memory *)
Fixpoint pad_right (n : nat) (l : list Z) : list Z :=
  match n with
  | O => []
  | S m => match l with [] => 0 :: pad_right m [] | b :: t => b :: pad_right m t end
  end.
(** getData: [size] bytes of [data] from [start], zero padded; safe for huge [start] *)
Definition slice_pad (data : list Z) (start size : Z) : list Z :=
  let len := Z.of_nat (length data) in
  let s := if len <? start then len else start in
  pad_right (Z.to_nat size) (skipn (Z.to_nat s) data).
Definition mem_read (m : list Z) (off size : Z) : list Z :=
  if size =? 0 then [] else slice_pad m off size.
Definition mem_resize (m : list Z) (size : Z) : list Z :=
  let len := Z.of_nat (length m) in
  if len <? size then m ++ repeat 0 (Z.to_nat (size - len)) else m.
(** writes [bytes] at [off]; memory has been resized to cover it *)
Definition mem_write (m : list Z) (off : Z) (bytes : list Z) : list Z :=
  match bytes with
  | [] => m
  | _ => let o := Z.to_nat off in firstn o m ++ bytes ++ skipn (o + length bytes) m
  end.
Definition bytes_word (l : list Z) : Z := be_to_Z l 0.

(** * Jump destinations (push-data aware) *)
Fixpoint jd_scan (code : list Z) (skip : nat) (target : nat) : bool :=
  match code with
  | [] => false
  | b :: t =>
    match target with
    | O => match skip with O => b =? 91 | S _ => false end
    | S tg =>
      match skip with
      | S s => jd_scan t s tg
      | O => if (96 <=? b) && (b <=? 127) then jd_scan t (Z.to_nat (b - 95)) tg else jd_scan t O tg
      end
    end
  end.
Definition valid_jumpdest (code : list Z) (dest : Z) : bool :=
  if dest <? Z.of_nat (length code) then jd_scan code O (Z.to_nat dest) else false.

(** * Addresses of created contracts *)
Section WithHash.
Variable keccak : list Z -> Z.   (* Keccak-256 of a byte string, as a word *)
Variable blockhash : Z -> Z.     (* hash of block n supplied by the embedder *)

Fixpoint be_min (n : nat) (z : Z) (acc : list Z) : list Z :=   (* minimal big-endian bytes, at most n *)
  match n with
  | O => acc
  | S m => if z =? 0 then acc else be_min m (z / 256) (z mod 256 :: acc)
  end.
Definition rlp_uint (z : Z) : list Z :=
  if z =? 0 then [128] else if z <? 128 then [z]
  else let b := be_min 32 z [] in (128 + Z.of_nat (length b)) :: b.
Definition addr_bytes (a : Z) : list Z := Z_to_be 20 a [].
Definition create_address (sender nonce : Z) : Z :=
  let payload := (148 :: addr_bytes sender) ++ rlp_uint nonce in
  addr_of_word (keccak ((192 + Z.of_nat (length payload)) :: payload)).
Definition create2_address (sender salt : Z) (init : list Z) : Z :=
  addr_of_word (keccak (255 :: addr_bytes sender ++ word_bytes salt ++ word_bytes (keccak init))).

Definition is_precompile (a : Z) : bool := (1 <=? a) && (a <=? 8).

(** * Instructions *)
Inductive copysrc := SrcCalldata | SrcCode | SrcReturndata.
Inductive instr :=
| IStop
| IFun (n : nat) (g : env -> frame -> world -> list Z -> Z)   (* pops n, pushes one word *)
| IPop | IPush (n : Z) | IDup (n : nat) | ISwap (n : nat)
| IMstore | IMstore8 | ICopy (s : copysrc) | IExtCodeCopy
| ISstore | IJump | IJumpi | IJumpdest
| ILog (n : nat)
| ICreate | ICreate2 | ICallOp (k : kind)
| IReturn | IRevert | ISelfdestruct.

Definition a0 (l : list Z) := nth 0 l 0.
Definition a1 (l : list Z) := nth 1 l 0.
Definition a2 (l : list Z) := nth 2 l 0.
Definition pure1 (f : Z -> Z) : instr := IFun 1 (fun _ _ _ l => f (a0 l)).
Definition pure2 (f : Z -> Z -> Z) : instr := IFun 2 (fun _ _ _ l => f (a0 l) (a1 l)).
Definition pure3 (f : Z -> Z -> Z -> Z) : instr := IFun 3 (fun _ _ _ l => f (a0 l) (a1 l) (a2 l)).
Definition env0 (g : env -> frame -> world -> Z) : instr := IFun 0 (fun e f w _ => g e f w).

Definition op_blockhash (e : env) (n : Z) : Z :=
  if U64 <=? n then 0 else
  let upper := e_number e in
  let lower := if upper <? 257 then 0 else upper - 256 in
  if (lower <=? n) && (n <? upper) then blockhash n else 0.

Definition decode (op : Z) : option instr :=
  match op with
  | 0 => Some IStop
  | 1 => Some (pure2 add) | 2 => Some (pure2 mul) | 3 => Some (pure2 sub) | 4 => Some (pure2 div)
  | 5 => Some (pure2 sdiv) | 6 => Some (pure2 modw) | 7 => Some (pure2 smod)
  | 8 => Some (pure3 addmod) | 9 => Some (pure3 mulmod) | 10 => Some (pure2 exp)
  | 11 => Some (pure2 signextend)
  | 16 => Some (pure2 lt) | 17 => Some (pure2 gt) | 18 => Some (pure2 slt) | 19 => Some (pure2 sgt)
  | 20 => Some (pure2 eq) | 21 => Some (pure1 iszero) | 22 => Some (pure2 and_) | 23 => Some (pure2 or_)
  | 24 => Some (pure2 xor_) | 25 => Some (pure1 not_) | 26 => Some (pure2 byte)
  | 27 => Some (pure2 shl) | 28 => Some (pure2 shr) | 29 => Some (pure2 sar)
  | 32 => Some (IFun 2 (fun _ f _ l => keccak (mem_read (f_mem f) (a0 l) (a1 l))))
  | 48 => Some (env0 (fun _ f _ => f_self f))
  | 49 => Some (IFun 1 (fun _ _ w l => balance w (addr_of_word (a0 l))))
  | 50 => Some (env0 (fun e _ _ => e_origin e))
  | 51 => Some (env0 (fun _ f _ => f_caller f))
  | 52 => Some (env0 (fun _ f _ => f_value f))
  | 53 => Some (IFun 1 (fun _ f _ l => bytes_word (slice_pad (f_input f) (a0 l) 32)))
  | 54 => Some (env0 (fun _ f _ => Z.of_nat (length (f_input f))))
  | 55 => Some (ICopy SrcCalldata)
  | 56 => Some (env0 (fun _ f _ => Z.of_nat (length (f_code f))))
  | 57 => Some (ICopy SrcCode)
  | 58 => Some (env0 (fun e _ _ => e_gasprice e))
  | 59 => Some (IFun 1 (fun _ _ w l => Z.of_nat (length (code_of w (addr_of_word (a0 l))))))
  | 60 => Some IExtCodeCopy
  | 61 => Some (env0 (fun _ f _ => Z.of_nat (length (f_ret f))))
  | 62 => Some (ICopy SrcReturndata)
  | 63 => Some (IFun 1 (fun _ _ w l => let a := addr_of_word (a0 l) in
                                      if empty_b w a then 0 else keccak (code_of w a)))
  | 64 => Some (IFun 1 (fun e _ _ l => op_blockhash e (a0 l)))
  | 65 => Some (env0 (fun e _ _ => e_coinbase e))
  | 66 => Some (env0 (fun e _ _ => e_time e))
  | 67 => Some (env0 (fun e _ _ => e_number e))
  | 68 => Some (env0 (fun e _ _ => e_gaslimit e))   (* KVM numbers GASLIMIT 0x44; 0x45 is undefined *)
  | 70 => Some (env0 (fun e _ _ => e_chainid e))
  | 71 => Some (env0 (fun _ f w => balance w (f_self f)))
  | 80 => Some IPop
  | 81 => Some (IFun 1 (fun _ f _ l => bytes_word (mem_read (f_mem f) (a0 l) 32)))
  | 82 => Some IMstore | 83 => Some IMstore8
  | 84 => Some (IFun 1 (fun _ f w l => sload w (f_self f) (a0 l)))
  | 85 => Some ISstore | 86 => Some IJump | 87 => Some IJumpi
  | 88 => Some (env0 (fun _ f _ => f_pc f))
  | 89 => Some (env0 (fun _ f _ => Z.of_nat (length (f_mem f))))
  | 90 => Some (env0 (fun _ f _ => f_gas f))
  | 91 => Some IJumpdest
  | 240 => Some ICreate | 241 => Some (ICallOp KCall) | 242 => Some (ICallOp KCallCode)
  | 243 => Some IReturn | 244 => Some (ICallOp KDelegate) | 245 => Some ICreate2
  | 250 => Some (ICallOp KStatic) | 253 => Some IRevert | 255 => Some ISelfdestruct
  | _ =>
    if (96 <=? op) && (op <=? 127) then Some (IPush (op - 95))
    else if (128 <=? op) && (op <=? 143) then Some (IDup (Z.to_nat (op - 127)))
    else if (144 <=? op) && (op <=? 159) then Some (ISwap (Z.to_nat (op - 143)))
    else if (160 <=? op) && (op <=? 164) then Some (ILog (Z.to_nat (op - 160)))
    else None
  end.

Definition instr_pops (i : instr) : nat :=
  match i with
  | IStop => 0 | IFun n _ => n | IPop => 1 | IPush _ => 0 | IDup n => n | ISwap n => S n
  | IMstore => 2 | IMstore8 => 2 | ICopy _ => 3 | IExtCodeCopy => 4
  | ISstore => 2 | IJump => 1 | IJumpi => 2 | IJumpdest => 0
  | ILog n => n + 2
  | ICreate => 3 | ICreate2 => 4
  | ICallOp KCall => 7 | ICallOp KCallCode => 7 | ICallOp _ => 6
  | IReturn => 2 | IRevert => 2 | ISelfdestruct => 1
  end%nat.
Definition instr_pushes (i : instr) : nat :=
  match i with
  | IFun _ _ => 1 | IPush _ => 1 | IDup n => S n | ISwap n => S n
  | ICreate => 1 | ICreate2 => 1 | ICallOp _ => 1
  | _ => 0
  end%nat.
Definition instr_halts (i : instr) : bool :=
  match i with IStop | IReturn | ISelfdestruct => true | _ => false end.
Definition instr_reverts (i : instr) : bool := match i with IRevert => true | _ => false end.
Definition instr_jumps (i : instr) : bool := match i with IJump | IJumpi => true | _ => false end.
(** instructions that change storage, logs, balances, code or the account set *)
Definition instr_writes (i : instr) : bool :=
  match i with ISstore | ILog _ | ICreate | ICreate2 | ISelfdestruct => true | _ => false end.
Definition instr_returns (i : instr) : bool :=
  match i with ICreate | ICreate2 | ICallOp _ | IRevert => true | _ => false end.

(** * Memory requirement and dynamic gas *)
(** calcMemSize64: None = uint64 overflow *)
Definition mem_need (off len : Z) : option Z :=
  if (len <? 0) || (U64 <=? len) then None else if len =? 0 then Some 0
  else if (off <? 0) || (U64 <=? off) then None else if U64 <=? off + len then None else Some (off + len).
Definition mem_need2 (o1 l1 o2 l2 : Z) : option Z :=
  match mem_need o1 l1, mem_need o2 l2 with
  | Some x, Some y => Some (Z.max x y)
  | _, _ => None
  end.
Definition sk (s : list Z) (n : nat) : Z := nth n s 0.   (* stack.Back(n) *)

(** memory size function of an instruction ([None]: the instruction has none) *)
Definition instr_mem (op : Z) (i : instr) (s : list Z) : option (option Z) :=
  match i with
  | IFun _ _ => if op =? 32 then Some (mem_need (sk s 0) (sk s 1))
                else if op =? 81 then Some (mem_need (sk s 0) 32) else None
  | IMstore => Some (mem_need (sk s 0) 32)
  | IMstore8 => Some (mem_need (sk s 0) 1)
  | ICopy _ => Some (mem_need (sk s 0) (sk s 2))
  | IExtCodeCopy => Some (mem_need (sk s 1) (sk s 3))
  | ILog _ => Some (mem_need (sk s 0) (sk s 1))
  | ICreate | ICreate2 => Some (mem_need (sk s 1) (sk s 2))
  | ICallOp KCall | ICallOp KCallCode => Some (mem_need2 (sk s 5) (sk s 6) (sk s 3) (sk s 4))
  | ICallOp _ => Some (mem_need2 (sk s 4) (sk s 5) (sk s 2) (sk s 3))
  | IReturn | IRevert => Some (mem_need (sk s 0) (sk s 1))
  | _ => None
  end.
(** toWordSize(x) * 32 with the uint64 overflow check *)
Definition round_mem (size : Z) : option Z :=
  let w := (size + 31) / 32 in if U64 <=? w * 32 then None else Some (w * 32).
Definition words (n : Z) : Z := (n + 31) / 32.
(** memoryGasCost: (fee, new total) or None (overflow) *)
Definition mem_gas (f : frame) (new : Z) : option (Z * Z) :=
  if new =? 0 then Some (0, f_mcost f)
  else if MEM_LIMIT <? new then None
  else if Z.of_nat (length (f_mem f)) <? new then
    let w := new / 32 in
    let tot := w * g_memory + w * w / g_quad_coeff_div in
    Some (tot - f_mcost f, tot)
  else Some (0, f_mcost f).
(** callGas (EIP-150): gas handed to the callee *)
Definition call_gas (avail base cost : Z) : option Z :=
  if avail <? base then None else
  let a := avail - base in
  let g := a - a / 64 in
  if (cost <? 0) || (U64 <=? cost) || (g <? cost) then Some g else Some cost.

(** dynamic gas: [None] = the instruction has none; [Some None] = out of gas / overflow;
    [Some (Some (cost, new memory total, call gas))] *)
Definition instr_dyn (op : Z) (i : instr) (f : frame) (w : world) (s : list Z) (msz : Z)
  : option (option (Z * Z * Z)) :=
  let memonly := match mem_gas f msz with Some (g, t) => Some (Some (g, t, 0)) | None => Some None end in
  let plus (extra : Z) := match mem_gas f msz with
                          | Some (g, t) => Some (Some (g + extra, t, 0)) | None => Some None end in
  match i with
  | IFun _ _ =>
    if op =? 10 then Some (Some (byte_len (sk s 1) * g_exp_byte + g_exp, f_mcost f, 0))
    else if op =? 32 then (if (sk s 1 <? 0) || (U64 <=? sk s 1) then Some None else plus (words (sk s 1) * g_sha3_word))
    else if op =? 81 then memonly else None
  | IMstore | IMstore8 | IReturn | IRevert | ICreate | ICreate2 => memonly
  | ICopy _ => if (sk s 2 <? 0) || (U64 <=? sk s 2) then Some None else plus (words (sk s 2) * g_copy)
  | IExtCodeCopy => if (sk s 3 <? 0) || (U64 <=? sk s 3) then Some None else plus (words (sk s 3) * g_copy)
  | ISstore =>
    let cur := sload w (f_self f) (sk s 0) in
    let new := sk s 1 in
    if (cur =? 0) && negb (new =? 0) then Some (Some (g_sstore_set, f_mcost f, 0))
    else if negb (cur =? 0) && (new =? 0) then Some (Some (g_sstore_clear, f_mcost f, 0))
    else Some (Some (g_sstore_reset, f_mcost f, 0))
  | ILog n => if (sk s 1 <? 0) || (U64 <=? sk s 1) then Some None
              else plus (g_log + Z.of_nat n * g_log_topic + sk s 1 * g_log_data)
  | ICallOp k =>
    match mem_gas f msz with
    | None => Some None
    | Some (mg, t) =>
      let base :=
        match k with
        | KCall =>
          let tv := negb (sk s 2 =? 0) in
          let a := addr_of_word (sk s 1) in
          (if tv && empty_b w a then g_call_new_account else 0)
          + (if exists_b w a then 0 else g_call_new_account)
          + (if tv then g_call_value_transfer else 0) + mg
        | KCallCode => (if sk s 2 =? 0 then 0 else g_call_value_transfer) + mg
        | _ => mg
        end in
      match call_gas (f_gas f) base (sk s 0) with
      | None => Some None
      | Some cg => Some (Some (base + cg, t, cg))
      end
    end
  | ISelfdestruct =>
    let a := addr_of_word (sk s 0) in
    let g := if empty_b w a && negb (balance w (f_self f) =? 0) then g_create_by_selfdestruct
             else if negb (exists_b w a) then g_create_by_selfdestruct else 0 in
    Some (Some (g, f_mcost f, 0))
  | _ => None
  end.

(** * Frame completion *)
Definition is_create (k : kind) : bool := match k with KCreate => true | _ => false end.
Definition is_ok (o : outcome) : bool := match o with OOk => true | _ => false end.

Definition resume_call (p : frame) (flag : Z) (visible : bool) (ret : list Z) (gas : Z)
           (retoff retsize : Z) : frame :=
  let m := if visible then mem_write (f_mem p) retoff (firstn (Z.to_nat retsize) ret) else f_mem p in
  mk_frame (f_kind p) (f_self p) (f_caller p) (f_value p) (f_code p) (f_input p) (f_pc p + 1)
           (flag :: f_stack p) m (f_mcost p) (f_gas p + gas) (f_static p)
           (if visible then ret else []) (f_snap p) (f_retoff p) (f_retsize p).
Definition resume_create (p : frame) (res : Z) (ret : list Z) (gas : Z) : frame :=
  mk_frame (f_kind p) (f_self p) (f_caller p) (f_value p) (f_code p) (f_input p) (f_pc p + 1)
           (res :: f_stack p) (f_mem p) (f_mcost p) (f_gas p + gas) (f_static p)
           ret (f_snap p) (f_retoff p) (f_retsize p).

(** settle the finished frame: outcome, gas handed back, world *)
Definition settle (o : outcome) (ret : list Z) (f : frame) (w : world) : outcome * Z * world :=
  match o with
  | OOk =>
    if is_create (f_kind f) then
      let n := Z.of_nat (length ret) in
      if max_code_size <? n then (OErr ECodeSize, 0, f_snap f)
      else let cost := n * g_create_data in
           if f_gas f <? cost then (OErr EOog, 0, f_snap f)
           else (OOk, f_gas f - cost, set_code w (f_self f) ret)
    else (OOk, f_gas f, w)
  | ORevert => (ORevert, f_gas f, f_snap f)
  | OErr e => (OErr e, 0, f_snap f)
  end.

Definition finish (o : outcome) (ret : list Z) (f : frame) (w : world) (rest : list frame) : config :=
  match settle o ret f w with
  | (o1, gas1, w1) =>
    match rest with
    | [] => mk_config [] w1 (Final o1 ret gas1)
    | p :: rest' =>
      if is_create (f_kind f) then
        let r := match o1 with ORevert => ret | _ => [] end in
        mk_config (resume_create p (if is_ok o1 then f_self f else 0) r gas1 :: rest') w1 Running
      else
        let visible := match o1 with OErr _ => false | _ => true end in
        mk_config (resume_call p (if is_ok o1 then 1 else 0) visible ret gas1 (f_retoff f) (f_retsize f) :: rest')
                  w1 Running
    end
  end.

Definition new_frame (k : kind) (self caller value : Z) (code input : list Z) (gas : Z) (static : bool)
           (snap : world) (retoff retsize : Z) : frame :=
  mk_frame k self caller value code input 0 [] [] 0 gas static [] snap retoff retsize.

(** result of starting a message call / creation from caller context *)
Inductive started :=
| SImmediate (o : outcome) (gasback : Z) (w : world) (ret : list Z)
| SFrame (child : frame) (w : world)
| SUnsupported.

(** precompiled contracts: only the identity function (address 4) is modelled — it returns a copy
    of its input (EVM specification); the others end the run as [Unsupported].
    RunPrecompiledContract: not enough gas = out of gas (the caller reverts to its snapshot). *)
Definition run_precompile (target : Z) (w_ok w_snap : world) (args : list Z) (gas : Z) : started :=
  if target =? 4 then
    let cost := words (Z.of_nat (length args)) * g_identity_word + g_identity_base in
    if gas <? cost then SImmediate (OErr EOog) 0 w_snap [] else SImmediate OOk (gas - cost) w_ok args
  else SUnsupported.

(** [depth] = number of frames already on the stack (kvm.depth) *)
Definition start_call (k : kind) (depth : Z) (w : world) (p_self p_caller p_value : Z) (p_static : bool)
           (target : Z) (args : list Z) (gas value : Z) (retoff retsize : Z) : started :=
  if call_create_depth <? depth then SImmediate (OErr EDepth) gas w [] else
  match k with
  | KCall =>
    if (value <? 0) || (negb (value =? 0) && (balance w p_self <? value)) then SImmediate (OErr EBalance) gas w [] else
    if negb (exists_b w target) && negb (is_precompile target) && (value =? 0) then SImmediate OOk gas w [] else
    let w1 := if exists_b w target then w else create_account w target in
    let w2 := transfer w1 p_self target value in
    if is_precompile target then run_precompile target w2 w args gas else
    let code := code_of w2 target in
    if is_nil code then SImmediate OOk gas w2 []
    else SFrame (new_frame KCall target p_self value code args gas p_static w retoff retsize) w2
  | KCallCode =>
    if (value <? 0) || (balance w p_self <? value) then SImmediate (OErr EBalance) gas w [] else
    if is_precompile target then run_precompile target w w args gas else
    let code := code_of w target in
    if is_nil code then SImmediate OOk gas w []
    else SFrame (new_frame KCallCode p_self p_self value code args gas p_static w retoff retsize) w
  | KDelegate =>
    if is_precompile target then run_precompile target w w args gas else
    let code := code_of w target in
    if is_nil code then SImmediate OOk gas w []
    else SFrame (new_frame KDelegate p_self p_caller p_value code args gas p_static w retoff retsize) w
  | KStatic =>
    let w1 := touch w target in
    if is_precompile target then run_precompile target w1 w args gas else
    let code := code_of w1 target in
    if is_nil code then SImmediate OOk gas w1 []
    else SFrame (new_frame KStatic target p_self 0 code args gas true w retoff retsize) w1
  | KCreate => SImmediate (OErr EBadOp) gas w []
  end.

Definition start_create (depth : Z) (w : world) (p_self : Z) (p_static : bool) (addr : Z)
           (init : list Z) (gas value : Z) : started :=
  if call_create_depth <? depth then SImmediate (OErr EDepth) gas w [] else
  if (value <? 0) || (balance w p_self <? value) then SImmediate (OErr EBalance) gas w [] else
  let w1 := set_nonce w p_self (nonce w p_self + 1) in
  if negb (nonce w1 addr =? 0) || negb (is_nil (code_of w1 addr)) then SImmediate (OErr ECollision) 0 w1 [] else
  let w2 := set_nonce (create_account w1 addr) addr 1 in
  let w3 := transfer w2 p_self addr value in
  if is_nil init then
    (* Run returns at once on empty code; the (empty) runtime code is deposited *)
    SImmediate OOk gas (set_code w3 addr []) []
  else SFrame (new_frame KCreate addr p_self value init [] gas p_static w1 0 0) w3.

(** * One step *)
Definition fail (e : err) (f : frame) (w : world) (rest : list frame) : config :=
  finish (OErr e) [] f w rest.

Definition copy_source (s : copysrc) (f : frame) : list Z :=
  match s with SrcCalldata => f_input f | SrcCode => f_code f | SrcReturndata => f_ret f end.

Definition next (f : frame) (w : world) (rest : list frame) : config :=
  mk_config (set_pc f (f_pc f + 1) :: rest) w Running.

(** execution proper; [f] has gas charged, memory resized, stack NOT yet popped; [cg] = call gas *)
Definition exec (e : env) (i : instr) (f : frame) (w : world) (rest : list frame) (cg : Z) : config :=
  let s := f_stack f in
  let args := firstn (instr_pops i) s in
  let tl := skipn (instr_pops i) s in
  match i with
  | IStop => finish OOk [] f w rest
  | IFun _ g => next (set_stack f (g e f w args :: tl)) w rest
  | IPop => next (set_stack f tl) w rest
  | IPush n =>
    let v := bytes_word (slice_pad (f_code f) (f_pc f + 1) n) in
    mk_config (set_pc (set_stack f (v :: tl)) (f_pc f + n + 1) :: rest) w Running
  | IDup n => next (set_stack f (nth (n - 1) s 0 :: s)) w rest
  | ISwap n =>
    match n with
    | O => next f w rest
    | S m => next (set_stack f (nth n s 0 :: firstn m (skipn 1 s) ++ a0 s :: skipn (S n) s)) w rest
    end
  | IMstore => next (set_stack (set_mem f (mem_write (f_mem f) (a0 args) (word_bytes (a1 args))) (f_mcost f)) tl) w rest
  | IMstore8 => next (set_stack (set_mem f (mem_write (f_mem f) (a0 args) [a1 args mod 256]) (f_mcost f)) tl) w rest
  | ICopy src =>
    let data := copy_source src f in
    let oob := match src with
               | SrcReturndata => (U64 <=? a1 args) || (U64 <=? a1 args + a2 args)
                                  || (Z.of_nat (length data) <? a1 args + a2 args)
               | _ => false end in
    if oob then fail ERetOob f w rest
    else next (set_stack (set_mem f (mem_write (f_mem f) (a0 args) (slice_pad data (a1 args) (a2 args))) (f_mcost f)) tl) w rest
  | IExtCodeCopy =>
    let data := code_of w (addr_of_word (a0 args)) in
    next (set_stack (set_mem f (mem_write (f_mem f) (a1 args) (slice_pad data (a2 args) (nth 3 args 0))) (f_mcost f)) tl) w rest
  | ISstore => next (set_stack f tl) (sstore w (f_self f) (a0 args) (a1 args)) rest
  | IJump =>
    if valid_jumpdest (f_code f) (a0 args) then mk_config (set_pc (set_stack f tl) (a0 args) :: rest) w Running
    else fail EBadJump f w rest
  | IJumpi =>
    if a1 args =? 0 then next (set_stack f tl) w rest
    else if valid_jumpdest (f_code f) (a0 args) then mk_config (set_pc (set_stack f tl) (a0 args) :: rest) w Running
    else fail EBadJump f w rest
  | IJumpdest => next f w rest
  | ILog n =>
    let l := mk_log (f_self f) (skipn 2 args) (mem_read (f_mem f) (a0 args) (a1 args)) in
    next (set_stack f tl) (add_log w l) rest
  | ICreate | ICreate2 =>
    let value := a0 args in
    let init := mem_read (f_mem f) (a1 args) (a2 args) in
    let gas := match i with ICreate => f_gas f - f_gas f / 64 | _ => f_gas f end in
    let addr := match i with
                | ICreate => create_address (f_self f) (nonce w (f_self f))
                | _ => create2_address (f_self f) (nth 3 args 0) init end in
    let p := set_gas (set_stack f tl) (f_gas f - gas) in
    match start_create (Z.of_nat (S (length rest))) w (f_self f) (f_static f) addr init gas value with
    | SImmediate o gb w' _ =>
      mk_config (resume_create p (if is_ok o then addr else 0) [] gb :: rest) w' Running
    | SFrame child w' => mk_config (child :: p :: rest) w' Running
    | SUnsupported => mk_config (p :: rest) w Unsupported
    end
  | ICallOp k =>
    let hasv := match k with KCall | KCallCode => true | _ => false end in
    let target := addr_of_word (a1 args) in
    let value := if hasv then a2 args else 0 in
    let r := if hasv then skipn 3 args else skipn 2 args in   (* inOff inSize retOff retSize *)
    let input := mem_read (f_mem f) (nth 0 r 0) (nth 1 r 0) in
    let gas := if negb (value =? 0) then cg + g_call_stipend else cg in
    let p := set_stack f tl in
    match start_call k (Z.of_nat (S (length rest))) w (f_self f) (f_caller f) (f_value f) (f_static f)
                     target input gas value (nth 2 r 0) (nth 3 r 0) with
    | SImmediate o gb w' iret =>
      let visible := match o with OErr _ => false | _ => true end in
      mk_config (resume_call p (if is_ok o then 1 else 0) visible iret gb (nth 2 r 0) (nth 3 r 0) :: rest) w' Running
    | SFrame child w' => mk_config (child :: p :: rest) w' Running
    | SUnsupported => mk_config (p :: rest) w Unsupported
    end
  | IReturn => finish OOk (mem_read (f_mem f) (a0 args) (a1 args)) (set_stack f tl) w rest
  | IRevert => finish ORevert (mem_read (f_mem f) (a0 args) (a1 args)) (set_stack f tl) w rest
  | ISelfdestruct =>
    let b := balance w (f_self f) in
    let w1 := add_balance w (addr_of_word (a0 args)) b in
    finish OOk [] (set_stack f tl) (suicide w1 (f_self f)) rest
  end.

Definition table (e : env) : list (option opinfo) := if e_v2 e then table_v2 else table_v1.
Definition op_info (e : env) (op : Z) : option opinfo :=
  if (0 <=? op) && (op <? 256) then
    match nth_error (table e) (Z.to_nat op) with Some (Some i) => Some i | _ => None end
  else None.
Definition cur_op (f : frame) : Z :=
  if f_pc f <? Z.of_nat (length (f_code f)) then nth (Z.to_nat (f_pc f)) (f_code f) 0 else 0.

Definition step (e : env) (c : config) : config :=
  match c_status c with
  | Running =>
    match c_frames c with
    | [] => c
    | f :: rest =>
      let w := c_world c in
      let op := cur_op f in
      match op_info e op with
      | None => fail EBadOp f w rest
      | Some info =>
        match decode op with
        | None => mk_config (f :: rest) w Unsupported
        | Some i =>
          let s := f_stack f in
          let n := Z.of_nat (length s) in
          if n <? oi_min info then fail EUnderflow f w rest
          else if oi_max info <? n then fail EOverflow f w rest
          else if f_static f && (oi_writes info || ((op =? 241) && negb (sk s 2 =? 0))) then fail EStatic f w rest
          else if f_gas f <? oi_gas info then fail EOog f w rest
          else
            let f1 := set_gas f (f_gas f - oi_gas info) in
            match (match instr_mem op i s with
                   | None => Some 0
                   | Some None => None
                   | Some (Some need) => round_mem need end) with
            | None => fail EOog f w rest
            | Some msz =>
              match instr_dyn op i f1 w s msz with
              | Some None => fail EOog f w rest
              | None =>
                exec e i (set_mem f1 (mem_resize (f_mem f1) msz) (f_mcost f1)) w rest 0
              | Some (Some (cost, mc, cg)) =>
                let charge := if e_v2 e then cost else oi_gas info + cost in
                if f_gas f1 <? charge then fail EOog f w rest
                else exec e i (set_gas (set_mem f1 (mem_resize (f_mem f1) msz) mc) (f_gas f1 - charge)) w rest cg
              end
            end
        end
      end
    end
  | _ => c
  end.

(** * Running *)
Definition is_final (c : config) : bool := match c_status c with Running => false | _ => true end.
(** [run_pow n] performs at most 2^n steps, stopping at a final configuration *)
Fixpoint run_pow (e : env) (n : nat) (c : config) : config :=
  if is_final c then c else
  match n with
  | O => step e c
  | S m => run_pow e m (run_pow e m c)
  end.
Fixpoint run_n (e : env) (n : nat) (c : config) : config :=
  match n with O => c | S m => run_n e m (step e c) end.

(** top-level message call / contract creation by an externally owned [origin] *)
Definition init_call (e : env) (w : world) (target : Z) (input : list Z) (gas value : Z) : config :=
  match start_call KCall 0 w (e_origin e) (e_origin e) 0 false target input gas value 0 0 with
  | SImmediate o gb w' iret =>
    match o with
    | OOk => mk_config [] w' (Final OOk iret gb)
    | _ => mk_config [] w (Final o [] gb)
    end
  | SFrame child w' => mk_config [child] w' Running
  | SUnsupported => mk_config [] w Unsupported
  end.
Definition init_create (e : env) (w : world) (init : list Z) (gas value : Z) : config :=
  let addr := create_address (e_origin e) (nonce w (e_origin e)) in
  match start_create 0 w (e_origin e) false addr init gas value with
  | SImmediate o gb w' _ => mk_config [] w' (Final o [] gb)
  | SFrame child w' => mk_config [child] w' Running
  | SUnsupported => mk_config [] w Unsupported
  end.

Definition run_call (e : env) (w : world) (target : Z) (input : list Z) (gas value : Z) : config :=
  run_pow e 64 (init_call e w target input gas value).
Definition run_create (e : env) (w : world) (init : list Z) (gas value : Z) : config :=
  run_pow e 64 (init_create e w init gas value).

End WithHash.
