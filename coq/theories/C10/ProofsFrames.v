(** C10 — call-frame discipline: a frame's snapshot is the world at its entry, it never changes
    while the frame is alive, and a frame that ends with a revert or an error hands back exactly
    that snapshot (no state change survives a failed frame). *)
From Coq Require Import List ZArith Bool Lia.
From Kardia Require Import C10.U256 C10.EVM C10.ProofsTables C10.ProofsInv Generated.C10Facts.
Import ListNotations.
Local Open Scope Z_scope.

Section Frames.
Variable keccak : list Z -> Z.
Variable blockhash : Z -> Z.
Notation step := (step keccak blockhash).
Notation exec := (exec keccak).

(** the part of a frame that is fixed at entry *)
Definition sig (p : frame) : kind * Z * bool * world := (f_kind p, f_self p, f_static p, f_snap p).

(** world seen by a new frame: the caller's world, after the creator's nonce bump for creations *)
Definition entry_world (w : world) (creator : Z) (child : frame) : Prop :=
  f_snap child = w \/
  (f_kind child = KCreate /\ f_snap child = set_nonce w creator (nonce w creator + 1)).

Inductive shape (w : world) (f : frame) (rest : list frame) (c' : config) : Prop :=
| sh_same : map sig (c_frames c') = map sig (f :: rest) -> shape w f rest c'
| sh_pop : forall o ret f' w', sig f' = sig f -> c' = finish o ret f' w' rest -> shape w f rest c'
| sh_push : forall child f', c_frames c' = child :: f' :: rest -> sig f' = sig f ->
                             entry_world w (f_self f) child -> f_stack child = [] -> shape w f rest c'.

Lemma started_call_snap : forall k d w ps pc pv pst t args g v ro rs child w',
    start_call k d w ps pc pv pst t args g v ro rs = SFrame child w' -> f_snap child = w.
Proof.
  intros until w'. unfold start_call, run_precompile.
  destruct (call_create_depth <? d); [discriminate|].
  destruct k; repeat match goal with
    | |- context [if ?b then _ else _] => destruct b
    end; intros H; inversion H; subst; reflexivity.
Qed.
Lemma started_create_snap : forall d w ps pst a init g v child w',
    start_create d w ps pst a init g v = SFrame child w' ->
    f_kind child = KCreate /\ f_snap child = set_nonce w ps (nonce w ps + 1).
Proof.
  intros until w'. unfold start_create.
  repeat match goal with
    | |- context [if ?b then _ else _] => destruct b
    end; intros H; inversion H; subst; split; reflexivity.
Qed.

Ltac same := apply sh_same; reflexivity.
Ltac pop := eapply sh_pop; [|reflexivity]; reflexivity.

Lemma exec_shape : forall e i f w rest cg, shape w f rest (exec e i f w rest cg).
Proof.
  intros e i f w rest cg.
  destruct i; cbn [exec]; unfold fail, next;
    try (destruct n as [|m]);
    try solve [repeat match goal with |- context [if ?b then _ else _] => destruct b end; first [same | pop]].
  - (* CREATE *)
    match goal with |- context [start_create ?d ?ww ?a ?b ?c ?dd ?ee ?ff] =>
      destruct (start_create d ww a b c dd ee ff) as [o gb w' iret|child w'|] eqn:Hs end; try same.
    pose proof (started_create_snap _ _ _ _ _ _ _ _ _ _ Hs) as [Hk Hsn].
    apply started_create_frame in Hs. destruct Hs as [Hst _].
    eapply sh_push with (child := child); [reflexivity| reflexivity | right; split; assumption | assumption].
  - (* CREATE2 *)
    match goal with |- context [start_create ?d ?ww ?a ?b ?c ?dd ?ee ?ff] =>
      destruct (start_create d ww a b c dd ee ff) as [o gb w' iret|child w'|] eqn:Hs end; try same.
    pose proof (started_create_snap _ _ _ _ _ _ _ _ _ _ Hs) as [Hk Hsn].
    apply started_create_frame in Hs. destruct Hs as [Hst _].
    eapply sh_push with (child := child); [reflexivity| reflexivity | right; split; assumption | assumption].
  - (* CALL family *)
    match goal with |- context [start_call ?k ?d ?ww ?a ?b ?c ?dd ?ee ?ff ?gg ?hh ?ii ?jj] =>
      destruct (start_call k d ww a b c dd ee ff gg hh ii jj) as [o gb w' iret|child w'|] eqn:Hs end; try same.
    pose proof (started_call_snap _ _ _ _ _ _ _ _ _ _ _ _ _ _ _ Hs) as Hsn.
    apply started_call_frame in Hs. destruct Hs as [Hst _].
    eapply sh_push with (child := child); [reflexivity| reflexivity | left; assumption | assumption].
Qed.

Lemma shape_sig : forall w f f' rest c', sig f' = sig f -> shape w f' rest c' -> shape w f rest c'.
Proof.
  intros w f f' rest c' Hs H. destruct H as [H|o ret f'' w' H1 H2|child f'' H1 H2 H3 H4].
  - apply sh_same. rewrite H. cbn [map]. rewrite Hs. reflexivity.
  - eapply sh_pop; [|exact H2]. congruence.
  - eapply sh_push with (child := child) (f' := f''); auto.
    + congruence.
    + assert (Hself : f_self f' = f_self f) by (unfold sig in Hs; congruence).
      rewrite <- Hself. exact H3.
Qed.

(** every step of a running configuration either keeps the frames, ends the top frame, or enters
    a new one whose snapshot is the current world *)
Lemma step_shape : forall e c f rest,
    c_status c = Running -> c_frames c = f :: rest -> shape (c_world c) f rest (step e c).
Proof.
  intros e c f rest Hrun Hf. unfold EVM.step. rewrite Hrun, Hf.
  destruct (op_info e (cur_op f)) as [info|]; [|unfold fail; pop].
  destruct (decode keccak blockhash (cur_op f)) as [i|]; [|same].
  repeat match goal with
         | |- context [if ?b then _ else _] => destruct b; [unfold fail; pop|]
         end.
  match goal with |- context [match ?m with Some msz => _ | None => _ end] => destruct m as [msz|] end;
    [|unfold fail; pop].
  match goal with |- context [instr_dyn ?a ?b ?c ?d ?ee ?ff] => destruct (instr_dyn a b c d ee ff) as [[[[cost mc] cg]|]|] end.
  - match goal with |- context [if ?b then _ else _] => destruct b end; [unfold fail; pop|].
    eapply shape_sig; [|apply exec_shape]. reflexivity.
  - unfold fail; pop.
  - eapply shape_sig; [|apply exec_shape]. reflexivity.
Qed.

(** what ending a frame does *)
Lemma finish_world : forall o ret f w rest o1 g1 w1,
    settle o ret f w = (o1, g1, w1) -> c_world (finish o ret f w rest) = w1 /\ (o1 <> OOk -> w1 = f_snap f).
Proof.
  intros o ret f w rest o1 g1 w1 Hs. unfold finish. rewrite Hs.
  split.
  - destruct rest; [reflexivity|]. destruct (is_create (f_kind f)); reflexivity.
  - unfold settle in Hs. destruct o.
    + destruct (is_create (f_kind f)).
      * destruct (max_code_size <? Z.of_nat (length ret)); [inversion Hs; reflexivity|].
        destruct (f_gas f <? Z.of_nat (length ret) * g_create_data); inversion Hs; subst; auto. congruence.
      * inversion Hs; subst; congruence.
    + inversion Hs; reflexivity.
    + inversion Hs; reflexivity.
Qed.

Lemma finish_frames : forall o ret f w rest o1 g1 w1,
    settle o ret f w = (o1, g1, w1) ->
    match rest with
    | [] => c_frames (finish o ret f w rest) = [] /\ c_status (finish o ret f w rest) = Final o1 ret g1
    | p :: rest' => exists p', c_frames (finish o ret f w rest) = p' :: rest' /\ sig p' = sig p /\
                               c_status (finish o ret f w rest) = Running /\
                               hd 0 (f_stack p') = (if is_ok o1 then (if is_create (f_kind f) then f_self f else 1) else 0)
    end.
Proof.
  intros o ret f w rest o1 g1 w1 Hs. unfold finish. rewrite Hs. destruct rest as [|p rest'].
  - split; reflexivity.
  - destruct (is_create (f_kind f)); eexists; (split; [reflexivity|]); (split; [reflexivity|]); (split; [reflexivity|]);
      destruct (is_ok o1); reflexivity.
Qed.

(** main statement: the step that ends frame [f] reports an outcome [o1]; unless [o1] is success the
    world is exactly [f]'s entry snapshot; the outcome is what the caller (or the embedder) sees *)
Lemma failed_frame_no_change : forall e c f rest,
    c_status c = Running -> c_frames c = f :: rest ->
    (length (c_frames (step e c)) <= length rest)%nat ->
    exists o1 : outcome,
      (o1 <> OOk -> c_world (step e c) = f_snap f) /\
      match rest with
      | [] => exists ret g, c_status (step e c) = Final o1 ret g
      | p :: rest' => exists p', c_frames (step e c) = p' :: rest' /\ sig p' = sig p /\
                                 hd 0 (f_stack p') = (if is_ok o1 then (if is_create (f_kind f) then f_self f else 1) else 0)
      end.
Proof.
  intros e c f rest Hrun Hf Hlen.
  destruct (step_shape e c f rest Hrun Hf) as [H|o ret f' w' H1 H2|child f'' H1 H2 H3 H4].
  - apply (f_equal (@length _)) in H. rewrite !map_length in H. cbn [length] in H. lia.
  - destruct (settle o ret f' w') as [[o1 g1] w1] eqn:Hs.
    exists o1. pose proof (finish_world o ret f' w' rest o1 g1 w1 Hs) as [Hw Hsn].
    pose proof (finish_frames o ret f' w' rest o1 g1 w1 Hs) as Hfr.
    rewrite H2. unfold sig in H1.
    assert (Hk : f_kind f' = f_kind f) by congruence.
    assert (Hself : f_self f' = f_self f) by congruence.
    assert (Hsnap : f_snap f' = f_snap f) by congruence. split.
    + intros Hne. rewrite Hw. rewrite (Hsn Hne). exact Hsnap.
    + destruct rest as [|p rest'].
      * destruct Hfr as [_ Hst]. eauto.
      * destruct Hfr as [p' [Ha [Hb [_ Hd]]]]. exists p'. rewrite Hk, Hself in Hd. auto.
  - rewrite H1 in Hlen. cbn [length] in Hlen. lia.
Qed.

(** the step that enters a frame records the current world as its snapshot; the new frame starts
    with an empty stack *)
Lemma entered_frame_snapshot : forall e c f rest,
    c_status c = Running -> c_frames c = f :: rest ->
    (length (c_frames (step e c)) > length (c_frames c))%nat ->
    exists child f', c_frames (step e c) = child :: f' :: rest /\ sig f' = sig f /\
                     f_stack child = [] /\ entry_world (c_world c) (f_self f) child.
Proof.
  intros e c f rest Hrun Hf Hlen. rewrite Hf in Hlen. cbn [length] in Hlen.
  destruct (step_shape e c f rest Hrun Hf) as [H|o ret f' w' H1 H2|child f' H1 H2 H3 H4].
  - apply (f_equal (@length _)) in H. rewrite !map_length in H. cbn [length] in H. lia.
  - rewrite H2 in Hlen. pose proof (finish_depth o ret f' w' rest). lia.
  - exists child, f'. auto.
Qed.

(** frames below the top are never touched by a step that does not end the frame above them, and
    the entry data (kind, address, static flag, snapshot) of every live frame is immutable *)
Lemma live_frames_keep_sig : forall e c f rest,
    c_status c = Running -> c_frames c = f :: rest ->
    (exists top, map sig (c_frames (step e c)) = top ++ map sig (f :: rest)) \/
    map sig (c_frames (step e c)) = map sig rest.
Proof.
  intros e c f rest Hrun Hf.
  destruct (step_shape e c f rest Hrun Hf) as [H|o ret f' w' H1 H2|child f' H1 H2 H3 H4].
  - left. exists []. exact H.
  - right. rewrite H2. destruct (settle o ret f' w') as [[o1 g1] w1] eqn:Hs.
    pose proof (finish_frames o ret f' w' rest o1 g1 w1 Hs) as Hfr.
    destruct rest as [|p rest'].
    + destruct Hfr as [Ha _]. rewrite Ha. reflexivity.
    + destruct Hfr as [p' [Ha [Hb _]]]. rewrite Ha. cbn [map]. rewrite Hb. reflexivity.
  - left. exists [sig child]. rewrite H1. cbn [map app]. rewrite H2. reflexivity.
Qed.

End Frames.
