(** C10 — concrete runs of the model.
    [identity_program]: mem[0..32) := 0x11..11; CALL the identity precompile 0x04 with that word as
    input (no output range); overwrite mem[0..32) with 0x22..22; RETURNDATACOPY the 32 bytes of
    return data to mem[64..96) and return them.  By the EVM specification (return data is a copy)
    the result is 0x11..11 — this is what the model computes below, and what the real KVM returns
    since /repo commit 8287a54 (kvm/contracts.go dataCopy.Run returns common.CopyBytes(in); before
    that it returned its input slice uncopied, RETURNDATA aliased the caller's memory and the
    program returned 0x22..22 — geth CVE-2020-26241, recorded as the fixed finding
    kvm-identity-returndata-aliased).  The harness family boundary:identity-returndata keeps a direct
    oracle on this program shape, so a regression of the fix is reported with the failing input.
    The general statements are in ProofsRet.v: a call to 0x04 hands back exactly the bytes that were
    in memory when it was made ([exec_identity_ret]) and no instruction other than the CALL family
    and CREATE/CREATE2 changes a frame's return data ([returndata_stable_run]). *)
From Coq Require Import List ZArith Bool.
From Kardia Require Import C10.U256 C10.EVM C10.ProofsGas Generated.C10Facts.
Import ListNotations.
Local Open Scope Z_scope.

Definition identity_program : list Z := [127; 17; 17; 17; 17; 17; 17; 17; 17; 17; 17; 17; 17; 17; 17; 17; 17; 17; 17; 17; 17; 17; 17; 17; 17; 17; 17; 17; 17; 17; 17; 17; 17; 96; 0; 82; 96; 0; 96; 0; 96; 32; 96; 0; 96; 0; 96; 4; 90; 241; 80; 127; 34; 34; 34; 34; 34; 34; 34; 34; 34; 34; 34; 34; 34; 34; 34; 34; 34; 34; 34; 34; 34; 34; 34; 34; 34; 34; 34; 34; 34; 34; 34; 34; 96; 0; 82; 96; 32; 96; 0; 96; 64; 62; 96; 32; 96; 64; 243].
Definition ex_env : env := mk_env 11184641 0 203 10 1600000000 20000000 1337 true.
Definition ex_world : world :=
  mk_world [(49374, mk_account 1 0 identity_program [] false); (11184641, mk_account 1 1000 [] [] false)] [].

Lemma identity_returndata_is_a_copy :
  exists g, c_status (run_call (fun _ => 0) (fun _ => 0) ex_env ex_world 49374 [] 100000 0)
            = Final OOk (word_bytes 7719472615821079694904732333912527190217998977709370935963838933860875309329) g.
Proof. eexists. vm_compute. reflexivity. Qed.

(** "Every stack value is a 256-bit word" does NOT hold for every configuration reachable in the sense
    of [reachable_g] (any start world, any environment): the model copies environment values, balances,
    code bytes, storage and hash results to the stack as they are.  Witness: gas price -1 in the
    environment and the program GASPRICE; STOP — after one step the stack holds -1.  The statement that
    is still open (Open.v) therefore carries the well-formedness of the start state as a hypothesis. *)
Definition neg_price_env : env := mk_env 11184641 (-1) 203 10 1600000000 20000000 1337 true.
Definition gasprice_world : world :=
  mk_world [(49374, mk_account 1 0 [58; 0] [] false); (11184641, mk_account 1 1000 [] [] false)] [].

Lemma stack_words_unconditional_refuted : forall keccak blockhash,
    exists e c f x, reachable_g keccak blockhash e c /\ In f (c_frames c) /\ In x (f_stack f) /\ ~ is_word x.
Proof.
  intros keccak blockhash.
  exists neg_price_env, (step keccak blockhash neg_price_env (init_call neg_price_env gasprice_world 49374 [] 100000 0)).
  eexists. exists (-1).
  split; [apply rg_step; apply rg_call; discriminate|].
  split; [vm_compute; left; reflexivity|].
  split; [left; reflexivity|].
  unfold is_word. intros [H _]. apply H. reflexivity.
Qed.
