(** C10 — stack and call-depth bounds: invariants of the small-step machine, derived from the
    min/max-stack columns of the generated jump tables (ProofsTables.slot_facts_of). *)
From Coq Require Import List ZArith Bool Lia.
From Kardia Require Import C10.U256 C10.EVM C10.ProofsTables Generated.C10Facts.
Import ListNotations.
Local Open Scope Z_scope.

Section Inv.
Variable keccak : list Z -> Z.
Variable blockhash : Z -> Z.
Notation step := (step keccak blockhash).
Notation exec := (exec keccak).
Notation run_n := (run_n keccak blockhash).

(** a suspended caller has popped its arguments and still has to receive one result word *)
Definition parent_ok (p : frame) : Prop := (length (f_stack p) + 1 <= 1024)%nat.
Definition stack_inv (c : config) : Prop :=
  match c_frames c with
  | [] => True
  | f :: rest => (length (f_stack f) <= 1024)%nat /\ Forall parent_ok rest
  end.
Definition depth_inv (c : config) : Prop := (length (c_frames c) <= 1025)%nat.

Lemma finish_stack : forall o ret f w rest, Forall parent_ok rest -> stack_inv (finish o ret f w rest).
Proof.
  intros o ret f w rest H. unfold finish. destruct (settle o ret f w) as [[o1 g1] w1].
  destruct rest as [|p rest']; [exact I|].
  inversion H as [|? ? Hp Hr]; subst. unfold parent_ok in Hp.
  destruct (is_create (f_kind f)); unfold stack_inv; cbn [c_frames resume_create resume_call f_stack length]; split; auto; lia.
Qed.
Lemma finish_depth : forall o ret f w rest, (length (c_frames (finish o ret f w rest)) <= length rest)%nat.
Proof.
  intros. unfold finish. destruct (settle o ret f w) as [[o1 g1] w1].
  destruct rest as [|p rest']; [cbn; lia|]. destruct (is_create (f_kind f)); cbn [c_frames length]; lia.
Qed.

Lemma started_call_frame : forall k d w ps pc pv pst t args g v ro rs child w',
    start_call k d w ps pc pv pst t args g v ro rs = SFrame child w' -> f_stack child = [] /\ d <= 1024.
Proof.
  intros until w'. unfold start_call, run_precompile. destruct limits_ok as [_ [CD _]]. rewrite CD.
  destruct (1024 <? d) eqn:Hd; [discriminate|]. apply Z.ltb_ge in Hd.
  destruct k; repeat match goal with
    | |- context [if ?b then _ else _] => destruct b
    end; intros H; inversion H; subst; auto.
Qed.
Lemma started_create_frame : forall d w ps pst a init g v child w',
    start_create d w ps pst a init g v = SFrame child w' -> f_stack child = [] /\ d <= 1024.
Proof.
  intros until w'. unfold start_create. destruct limits_ok as [_ [CD _]]. rewrite CD.
  destruct (1024 <? d) eqn:Hd; [discriminate|]. apply Z.ltb_ge in Hd.
  repeat match goal with
    | |- context [if ?b then _ else _] => destruct b
    end; intros H; inversion H; subst; auto.
Qed.

Lemma length_skipn_le : forall (A : Type) n (l : list A), (length (skipn n l) = length l - n)%nat.
Proof. intros. apply skipn_length. Qed.

(** executing an instruction whose stack requirements hold keeps all stacks within 1024 *)
Lemma exec_stack : forall e i f w rest cg,
    (instr_pops i <= length (f_stack f))%nat ->
    (length (f_stack f) + instr_pushes i <= 1024 + instr_pops i)%nat ->
    Forall parent_ok rest ->
    stack_inv (exec e i f w rest cg).
Proof.
  intros e i f w rest cg Hmin Hmax Hrest.
  pose proof (skipn_length (instr_pops i) (f_stack f)) as Hsk.
  destruct i; cbn [exec instr_pops instr_pushes] in *.
  - apply finish_stack; auto.
  - unfold next, stack_inv. cbn [c_frames set_pc set_stack f_stack length]. split; auto; lia.
  - unfold next, stack_inv. cbn [c_frames set_pc set_stack f_stack length]. split; auto; lia.
  - unfold stack_inv. cbn [c_frames set_pc set_stack f_stack length skipn]. split; auto; cbn [skipn] in Hsk; lia.
  - unfold next, stack_inv. cbn [c_frames set_pc set_stack f_stack length]. split; auto; lia.
  - destruct n as [|m]; unfold next, stack_inv; cbn [c_frames set_pc set_stack f_stack length]; split; auto; try lia.
    rewrite app_length. cbn [length]. rewrite firstn_length, !skipn_length.
    cbn [instr_pops] in Hsk. lia.
  - unfold next, stack_inv. cbn [c_frames set_pc set_stack set_mem f_stack length]. split; auto; lia.
  - unfold next, stack_inv. cbn [c_frames set_pc set_stack set_mem f_stack length]. split; auto; lia.
  - match goal with |- context [if ?b then _ else _] => destruct b end.
    + apply finish_stack; auto.
    + unfold next, stack_inv. cbn [c_frames set_pc set_stack set_mem f_stack length]. split; auto; lia.
  - unfold next, stack_inv. cbn [c_frames set_pc set_stack set_mem f_stack length]. split; auto; lia.
  - unfold next, stack_inv. cbn [c_frames set_pc set_stack f_stack length]. split; auto; lia.
  - match goal with |- context [if ?b then _ else _] => destruct b end.
    + unfold stack_inv. cbn [c_frames set_pc set_stack f_stack length]. split; auto; lia.
    + apply finish_stack; auto.
  - repeat match goal with |- context [if ?b then _ else _] => destruct b end.
    + unfold next, stack_inv. cbn [c_frames set_pc set_stack f_stack length]. split; auto; lia.
    + unfold stack_inv. cbn [c_frames set_pc set_stack f_stack length]. split; auto; lia.
    + apply finish_stack; auto.
  - unfold next, stack_inv. cbn [c_frames set_pc set_stack f_stack length]. split; auto.
    cbn [skipn] in Hsk. lia.
  - unfold next, stack_inv. cbn [c_frames set_pc set_stack f_stack length]. split; auto; lia.
  - (* CREATE *)
    match goal with |- context [start_create ?d ?w ?a ?b ?c ?dd ?ee ?ff] =>
      destruct (start_create d w a b c dd ee ff) as [o gb w' iret|child w'|] eqn:Hs end.
    + unfold stack_inv. cbn [c_frames resume_create set_gas set_stack f_stack length]. split; auto; lia.
    + apply started_create_frame in Hs. destruct Hs as [Hc _].
      unfold stack_inv. cbn [c_frames]. rewrite Hc. split; [cbn; lia|].
      constructor; auto. unfold parent_ok. cbn [set_gas set_stack f_stack]. lia.
    + unfold stack_inv. cbn [c_frames set_gas set_stack f_stack]. split; auto. lia.
  - (* CREATE2 *)
    match goal with |- context [start_create ?d ?w ?a ?b ?c ?dd ?ee ?ff] =>
      destruct (start_create d w a b c dd ee ff) as [o gb w' iret|child w'|] eqn:Hs end.
    + unfold stack_inv. cbn [c_frames resume_create set_gas set_stack f_stack length]. split; auto; lia.
    + apply started_create_frame in Hs. destruct Hs as [Hc _].
      unfold stack_inv. cbn [c_frames]. rewrite Hc. split; [cbn; lia|].
      constructor; auto. unfold parent_ok. cbn [set_gas set_stack f_stack]. lia.
    + unfold stack_inv. cbn [c_frames set_gas set_stack f_stack]. split; auto. lia.
  - (* CALL family *)
    assert (Hp : (length (skipn (instr_pops (ICallOp k)) (f_stack f)) + 1 <= 1024)%nat).
    { rewrite skipn_length. destruct k; cbn [instr_pops] in *; lia. }
    match goal with |- context [start_call ?k ?d ?w ?a ?b ?c ?dd ?ee ?ff ?gg ?hh ?ii ?jj] =>
      destruct (start_call k d w a b c dd ee ff gg hh ii jj) as [o gb w' iret|child w'|] eqn:Hs end.
    + unfold stack_inv. cbn [c_frames resume_call set_stack f_stack length]. split; auto. lia.
    + apply started_call_frame in Hs. destruct Hs as [Hc _].
      unfold stack_inv. cbn [c_frames]. rewrite Hc. split; [cbn; lia|].
      constructor; auto.
    + unfold stack_inv. cbn [c_frames set_stack f_stack]. split; auto. lia.
  - apply finish_stack; auto.
  - apply finish_stack; auto.
  - apply finish_stack; auto.
Qed.

Lemma exec_depth : forall e i f w rest cg,
    (length (f :: rest) <= 1025)%nat -> depth_inv (exec e i f w rest cg).
Proof.
  intros e i f w rest cg H. unfold depth_inv. cbn [length] in H.
  destruct i; cbn [exec]; unfold fail; try (destruct n as [|m]);
    try (unfold next; cbn [c_frames length]; lia);
    try (match goal with |- context [finish ?o ?r ?ff ?ww ?rr] => pose proof (finish_depth o r ff ww rr); lia end);
    try (cbn [c_frames length]; lia).
  - match goal with |- context [if ?b then _ else _] => destruct b end.
    + match goal with |- context [finish ?o ?r ?ff ?ww ?rr] => pose proof (finish_depth o r ff ww rr); lia end.
    + unfold next; cbn [c_frames length]; lia.
  - match goal with |- context [if ?b then _ else _] => destruct b end.
    + cbn [c_frames length]; lia.
    + match goal with |- context [finish ?o ?r ?ff ?ww ?rr] => pose proof (finish_depth o r ff ww rr); lia end.
  - repeat match goal with |- context [if ?b then _ else _] => destruct b end.
    + unfold next; cbn [c_frames length]; lia.
    + cbn [c_frames length]; lia.
    + match goal with |- context [finish ?o ?r ?ff ?ww ?rr] => pose proof (finish_depth o r ff ww rr); lia end.
  - match goal with |- context [start_create ?d ?w ?a ?b ?c ?dd ?ee ?ff] =>
      destruct (start_create d w a b c dd ee ff) as [o gb w' iret|child w'|] eqn:Hs end;
      cbn [c_frames length]; try lia.
    apply started_create_frame in Hs. lia.
  - match goal with |- context [start_create ?d ?w ?a ?b ?c ?dd ?ee ?ff] =>
      destruct (start_create d w a b c dd ee ff) as [o gb w' iret|child w'|] eqn:Hs end;
      cbn [c_frames length]; try lia.
    apply started_create_frame in Hs. lia.
  - match goal with |- context [start_call ?k ?d ?w ?a ?b ?c ?dd ?ee ?ff ?gg ?hh ?ii ?jj] =>
      destruct (start_call k d w a b c dd ee ff gg hh ii jj) as [o gb w' iret|child w'|] eqn:Hs end;
      cbn [c_frames length]; try lia.
    apply started_call_frame in Hs. lia.
Qed.

(** shape of one step: either the configuration is returned unchanged, or the top frame fails,
    or an instruction whose table entry was validated is executed on a frame with the same stack *)
Lemma step_cases : forall e c,
    step e c = c \/
    (exists f rest, c_frames c = f :: rest /\
      ((exists er, step e c = fail er f (c_world c) rest) \/
       (step e c = mk_config (f :: rest) (c_world c) Unsupported) \/
       (exists op info i f' cg, step e c = exec e i f' (c_world c) rest cg /\
           op = cur_op f /\ op_info e op = Some info /\ decode keccak blockhash op = Some i /\
           f_stack f' = f_stack f /\
           (f_kind f', f_self f', f_static f', f_snap f') = (f_kind f, f_self f, f_static f, f_snap f) /\
           oi_min info <= Z.of_nat (length (f_stack f)) <= oi_max info /\
           (f_static f = true -> oi_writes info = false /\ (op = 241 -> sk (f_stack f) 2 = 0))))).

Proof.
  intros e c. unfold step.
  destruct (c_status c); auto.
  destruct (c_frames c) as [|f rest] eqn:Hf; auto.
  right. exists f, rest. split; auto.
  destruct (op_info e (cur_op f)) as [info|] eqn:Hinfo; [|left; eexists; reflexivity].
  destruct (decode keccak blockhash (cur_op f)) as [i|] eqn:Hdec; [|right; left; reflexivity].
  destruct (Z.of_nat (length (f_stack f)) <? oi_min info) eqn:H1; [left; eexists; reflexivity|].
  destruct (oi_max info <? Z.of_nat (length (f_stack f))) eqn:H2; [left; eexists; reflexivity|].
  destruct (f_static f && (oi_writes info || (cur_op f =? 241) && negb (sk (f_stack f) 2 =? 0))) eqn:H3;
    [left; eexists; reflexivity|].
  destruct (f_gas f <? oi_gas info) eqn:H4; [left; eexists; reflexivity|].
  apply Z.ltb_ge in H1. apply Z.ltb_ge in H2.
  assert (Hst : f_static f = true -> oi_writes info = false /\ (cur_op f = 241 -> sk (f_stack f) 2 = 0)).
  { intros Hs. rewrite Hs in H3. cbn [andb] in H3. apply orb_false_iff in H3. destruct H3 as [Hw Hc].
    split; auto. intros Hop. rewrite Hop in Hc. cbn in Hc. apply negb_false_iff in Hc. apply Z.eqb_eq in Hc. exact Hc. }
  match goal with |- context [match ?m with Some msz => _ | None => _ end] => destruct m as [msz|] end;
    [|left; eexists; reflexivity].
  match goal with |- context [instr_dyn ?a ?b ?c ?d ?ee ?ff] => destruct (instr_dyn a b c d ee ff) as [[[[cost mc] cg]|]|] end.
  - match goal with |- context [if ?b then _ else _] => destruct b end; [left; eexists; reflexivity|].
    right; right. do 5 eexists. split; [reflexivity|]. do 6 (split; [first [reflexivity | eassumption | lia]|]). exact Hst.
  - left; eexists; reflexivity.
  - right; right. do 5 eexists. split; [reflexivity|]. do 6 (split; [first [reflexivity | eassumption | lia]|]). exact Hst.
Qed.

Lemma step_stack_inv : forall e c, stack_inv c -> stack_inv (step e c).
Proof.
  intros e c H. destruct (step_cases e c) as [Heq|[f [rest [Hf Hc]]]]; [rewrite Heq; exact H|].
  unfold stack_inv in H. rewrite Hf in H. destruct H as [Htop Hrest].
  destruct Hc as [[er Hs]|[Hs|[op [info [i [f' [cg [Hs [Hop [Hinfo [Hdec [Hst [_ [Hb _]]]]]]]]]]]]]].
  - rewrite Hs. apply finish_stack; auto.
  - rewrite Hs. unfold stack_inv. cbn [c_frames]. auto.
  - rewrite Hs. pose proof (slot_facts_of keccak blockhash e op info i Hinfo Hdec) as SF.
    destruct SF. apply exec_stack; auto; rewrite Hst; lia.
Qed.

Lemma step_depth_inv : forall e c, depth_inv c -> depth_inv (step e c).
Proof.
  intros e c H. destruct (step_cases e c) as [Heq|[f [rest [Hf Hc]]]]; [rewrite Heq; exact H|].
  unfold depth_inv in H. rewrite Hf in H.
  destruct Hc as [[er Hs]|[Hs|[op [info [i [f' [cg [Hs _]]]]]]]].
  - rewrite Hs. unfold depth_inv, fail. pose proof (finish_depth (OErr er) [] f (c_world c) rest). cbn [length] in H. lia.
  - rewrite Hs. unfold depth_inv. cbn [c_frames]. exact H.
  - rewrite Hs. apply exec_depth. cbn [length] in *. exact H.
Qed.

Lemma run_n_inv : forall (P : config -> Prop) e, (forall c, P c -> P (step e c)) -> forall n c, P c -> P (run_n e n c).
Proof. intros P e Hs n. induction n as [|n IH]; intros c Hc; cbn [EVM.run_n]; auto. Qed.

Lemma init_call_inv : forall e w t input g v, stack_inv (init_call e w t input g v) /\ depth_inv (init_call e w t input g v).
Proof.
  intros. unfold init_call.
  destruct (start_call KCall 0 w (e_origin e) (e_origin e) 0 false t input g v 0 0) as [o gb w' iret|child w'|] eqn:Hs.
  - destruct o; unfold stack_inv, depth_inv; cbn; split; auto; lia.
  - apply started_call_frame in Hs. destruct Hs as [Hc _].
    unfold stack_inv, depth_inv. cbn [c_frames length]. rewrite Hc. cbn. split; [split; [lia|constructor]|lia].
  - unfold stack_inv, depth_inv; cbn; split; auto; lia.
Qed.
Lemma init_create_inv : forall e w init g v,
    stack_inv (init_create keccak e w init g v) /\ depth_inv (init_create keccak e w init g v).
Proof.
  intros. unfold init_create.
  match goal with |- context [start_create ?d ?ww ?a ?b ?cc ?dd ?ee ?ff] =>
    destruct (start_create d ww a b cc dd ee ff) as [o gb w' iret|child w'|] eqn:Hs end.
  - unfold stack_inv, depth_inv; cbn; split; auto; lia.
  - apply started_create_frame in Hs. destruct Hs as [Hc _].
    unfold stack_inv, depth_inv. cbn [c_frames length]. rewrite Hc. cbn. split; [split; [lia|constructor]|lia].
  - unfold stack_inv, depth_inv; cbn; split; auto; lia.
Qed.

Lemma stack_inv_all : forall c f, stack_inv c -> In f (c_frames c) -> (length (f_stack f) <= 1024)%nat.
Proof.
  intros c f H Hin. unfold stack_inv in H. destruct (c_frames c) as [|g rest]; [destruct Hin|].
  destruct H as [Hg Hr]. destruct Hin as [->|Hin]; auto.
  rewrite Forall_forall in Hr. specialize (Hr f Hin). unfold parent_ok in Hr. lia.
Qed.

(** reachable configurations *)
Inductive reachable (e : env) : config -> Prop :=
| reach_call : forall w t input g v, reachable e (init_call e w t input g v)
| reach_create : forall w init g v, reachable e (init_create keccak e w init g v)
| reach_step : forall c, reachable e c -> reachable e (step e c).

Lemma reachable_inv : forall e c, reachable e c -> stack_inv c /\ depth_inv c.
Proof.
  intros e c H. induction H.
  - apply init_call_inv.
  - apply init_create_inv.
  - destruct IHreachable. split; [apply step_stack_inv|apply step_depth_inv]; auto.
Qed.

Lemma stack_bound : forall e c f, reachable e c -> In f (c_frames c) -> (length (f_stack f) <= 1024)%nat.
Proof. intros e c f H. apply stack_inv_all. apply (reachable_inv e c H). Qed.

Lemma depth_bound : forall e c, reachable e c -> (length (c_frames c) <= 1025)%nat.
Proof. intros e c H. apply (reachable_inv e c H). Qed.

End Inv.
