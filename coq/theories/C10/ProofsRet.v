(** C10 — return data, jump-destination analysis and the refusal paths of frame creation.
    - RETURNDATA is a value owned by the frame: it is replaced only by the CALL-family and CREATE
      instructions, so no memory write can change it; the identity precompile 0x04 hands back a copy
      of the bytes that were in memory when it was called;
    - RETURNDATACOPY reads exactly [ret[off, off+len)], never pads, and fails as soon as
      [off + len] exceeds the buffer or 64 bits (no wrap-around);
    - [valid_jumpdest] is the bitmap analysis of kvm/contract.go: a destination is valid iff the
      linear sweep marks it as an opcode position and the byte there is JUMPDEST; positions inside
      the data of a PUSH are never valid;
    - BLOCKHASH window, the depth limit and address collisions of creations. *)
From Coq Require Import List ZArith Bool Lia.
From Kardia Require Import C10.U256 C10.EVM C10.ProofsTables C10.ProofsInv C10.ProofsMem Generated.C10Facts.
Import ListNotations.
Local Open Scope Z_scope.

(** * The identity precompile *)
Definition identity_cost (args : list Z) : Z := words (Z.of_nat (length args)) * g_identity_word + g_identity_base.

Lemma run_identity : forall w_ok w_snap args gas,
    run_precompile 4 w_ok w_snap args gas =
    if gas <? identity_cost args then SImmediate (OErr EOog) 0 w_snap [] else SImmediate OOk (gas - identity_cost args) w_ok args.
Proof. reflexivity. Qed.

(** a message call to address 4 never opens a frame; it either succeeds with its input as return
    data or fails with empty return data *)
Lemma start_call_identity : forall k d w ps pc pv pst args g v ro rs,
    match start_call k d w ps pc pv pst 4 args g v ro rs with
    | SImmediate o _ _ ret => (o = OOk /\ ret = args) \/ (o <> OOk /\ ret = [])
    | SFrame _ _ => False
    | SUnsupported => False
    end.
Proof.
  intros. unfold start_call. change (is_precompile 4) with true. rewrite !run_identity.
  destruct (call_create_depth <? d); [right; split; [discriminate|reflexivity]|].
  destruct k; cbn [negb andb]; rewrite ?andb_false_r; cbn [andb];
    repeat match goal with
           | |- context [if ?b then _ else _] => destruct b
           end;
    first [left; split; reflexivity | right; split; [discriminate|reflexivity]].
Qed.

(** the input range of a CALL-family instruction as the frame's memory holds it *)
Definition call_input (k : kind) (f : frame) : list Z :=
  match k with
  | KCall | KCallCode => mem_read (f_mem f) (sk (f_stack f) 3) (sk (f_stack f) 4)
  | _ => mem_read (f_mem f) (sk (f_stack f) 2) (sk (f_stack f) 3)
  end.


(** * RETURNDATACOPY: helpers *)
Lemma pad_right_firstn : forall n (l : list Z), (n <= length l)%nat -> pad_right n l = firstn n l.
Proof.
  induction n as [|n IH]; intros l H; [reflexivity|].
  destruct l as [|b t]; [cbn in H; lia|]. cbn [pad_right firstn]. rewrite IH; [reflexivity|cbn in H; lia].
Qed.

Lemma slice_pad_exact : forall data off len,
    0 <= off -> 0 <= len -> off + len <= Z.of_nat (length data) ->
    slice_pad data off len = firstn (Z.to_nat len) (skipn (Z.to_nat off) data).
Proof.
  intros data off len H0 H1 H2. unfold slice_pad.
  destruct (Z.of_nat (length data) <? off) eqn:E; [apply Z.ltb_lt in E; lia|].
  apply pad_right_firstn. rewrite skipn_length. lia.
Qed.

Definition rdc_ok (f : frame) : Prop :=
  let off := sk (f_stack f) 1 in let len := sk (f_stack f) 2 in
  off + len < U64 /\ off + len <= Z.of_nat (length (f_ret f)).


(** * Jump destinations: [valid_jumpdest] is the code bitmap of kvm/contract.go *)
Definition push_len (b : Z) : nat := if (96 <=? b) && (b <=? 127) then Z.to_nat (b - 95) else O.
(** the linear sweep of codeBitmap: [true] at opcode positions, [false] inside PUSH data;
    [skip] = data bytes of the current PUSH still to be passed *)
Fixpoint sweep (code : list Z) (skip : nat) : list bool :=
  match code with
  | [] => []
  | b :: t => match skip with
              | S s => false :: sweep t s
              | O => true :: sweep t (push_len b)
              end
  end.

Lemma jd_scan_sweep : forall code skip t,
    jd_scan code skip t = nth t (sweep code skip) false && (nth t code 0 =? 91).
Proof.
  induction code as [|b tl IH]; intros skip t.
  - destruct t; reflexivity.
  - destruct t as [|tg]; destruct skip as [|s]; cbn [jd_scan sweep nth]; try reflexivity.
    + unfold push_len. destruct ((96 <=? b) && (b <=? 127)); rewrite IH; reflexivity.
    + rewrite IH. reflexivity.
Qed.

Theorem valid_jumpdest_spec : forall code d, 0 <= d ->
    valid_jumpdest code d = true <->
    (d < Z.of_nat (length code) /\ nth (Z.to_nat d) (sweep code O) false = true /\ nth (Z.to_nat d) code 0 = 91).
Proof.
  intros code d Hd. unfold valid_jumpdest. rewrite jd_scan_sweep.
  destruct (d <? Z.of_nat (length code)) eqn:E.
  - apply Z.ltb_lt in E. rewrite andb_true_iff, Z.eqb_eq. tauto.
  - apply Z.ltb_ge in E. split; [discriminate|]. intros [H _]. lia.
Qed.

Lemma sweep_skip : forall code skip k, (k < skip)%nat -> nth k (sweep code skip) false = false.
Proof.
  induction code as [|b tl IH]; intros skip k H.
  - destruct k; reflexivity.
  - destruct skip as [|s]; [lia|]. destruct k as [|k']; [reflexivity|]. cbn [sweep nth]. apply IH. lia.
Qed.

(** the data bytes of a PUSH that sits at an opcode position are not opcode positions *)
Lemma sweep_push_data : forall code skip p,
    nth p (sweep code skip) false = true ->
    forall k, (1 <= k <= push_len (nth p code 0%Z))%nat -> nth (p + k) (sweep code skip) false = false.
Proof.
  induction code as [|b tl IH]; intros skip p H k Hk.
  - destruct p; discriminate H.
  - destruct p as [|p'].
    + destruct skip as [|s]; [|discriminate H]. cbn [nth] in Hk. cbn [sweep].
      destruct k as [|k']; [lia|]. cbn [Nat.add nth]. apply sweep_skip. lia.
    + destruct skip as [|s]; cbn [sweep nth] in H |- *; cbn [nth] in Hk;
        change (S p' + k)%nat with (S (p' + k)); cbn [nth]; eapply IH; eauto.
Qed.

Theorem no_jump_into_push_data : forall code p k,
    nth p (sweep code O) false = true -> (1 <= k <= push_len (nth p code 0%Z))%nat ->
    valid_jumpdest code (Z.of_nat (p + k)) = false.
Proof.
  intros code p k H Hk. unfold valid_jumpdest. rewrite jd_scan_sweep, Nat2Z.id.
  rewrite (sweep_push_data code O p H k Hk). destruct (_ <? _); reflexivity.
Qed.

(** * BLOCKHASH: only the 256 most recent blocks, never the current one, nothing beyond 64 bits *)
Theorem blockhash_window : forall (blockhash : Z -> Z) e n, 0 <= n ->
    (op_blockhash blockhash e n = blockhash n /\ n < U64 /\ e_number e - 256 <= n < e_number e) \/
    (op_blockhash blockhash e n = 0 /\ (U64 <= n \/ n < e_number e - 256 \/ e_number e <= n)).
Proof.
  intros blockhash e n Hn. unfold op_blockhash.
  destruct (U64 <=? n) eqn:A; [right; split; [reflexivity|left; apply Z.leb_le; exact A]|].
  apply Z.leb_gt in A.
  destruct (e_number e <? 257) eqn:B.
  - apply Z.ltb_lt in B. destruct ((0 <=? n) && (n <? e_number e)) eqn:C.
    + apply andb_true_iff in C. destruct C as [_ C]. apply Z.ltb_lt in C. left. repeat split; try assumption; lia.
    + right. split; [reflexivity|]. apply andb_false_iff in C. destruct C as [C|C];
        [apply Z.leb_gt in C; lia|apply Z.ltb_ge in C; right; right; exact C].
  - apply Z.ltb_ge in B. destruct ((e_number e - 256 <=? n) && (n <? e_number e)) eqn:C.
    + apply andb_true_iff in C. destruct C as [C1 C2]. apply Z.leb_le in C1. apply Z.ltb_lt in C2.
      left. repeat split; try assumption; lia.
    + right. split; [reflexivity|]. apply andb_false_iff in C. destruct C as [C|C];
        [apply Z.leb_gt in C; right; left; exact C|apply Z.ltb_ge in C; right; right; exact C].
Qed.

(** * Refusals of frame creation: depth limit and address collision *)
Theorem depth_limit_call : forall k d w ps pc pv pst t args g v ro rs,
    call_create_depth < d -> start_call k d w ps pc pv pst t args g v ro rs = SImmediate (OErr EDepth) g w [].
Proof. intros. unfold start_call. apply Z.ltb_lt in H. rewrite H. reflexivity. Qed.
Theorem depth_limit_create : forall d w ps pst a init g v,
    call_create_depth < d -> start_create d w ps pst a init g v = SImmediate (OErr EDepth) g w [].
Proof. intros. unfold start_create. apply Z.ltb_lt in H. rewrite H. reflexivity. Qed.

(** a creation that passes the depth and balance checks at an address that already has a nonce or code:
    all the gas handed over is gone, the only change is the creator's nonce *)
Theorem create_collision : forall d w ps pst a init g v,
    d <= call_create_depth -> 0 <= v <= balance w ps ->
    let w1 := set_nonce w ps (nonce w ps + 1) in
    nonce w1 a <> 0 \/ code_of w1 a <> [] ->
    start_create d w ps pst a init g v = SImmediate (OErr ECollision) 0 w1 [].
Proof.
  intros d w ps pst a init g v Hd Hv w1 Hc. unfold start_create.
  replace (call_create_depth <? d) with false by (symmetry; apply Z.ltb_ge; exact Hd).
  replace ((v <? 0) || (balance w ps <? v)) with false
    by (symmetry; apply orb_false_iff; split; [apply Z.ltb_ge|apply Z.ltb_ge]; lia).
  fold w1.
  replace (negb (nonce w1 a =? 0) || negb (is_nil (code_of w1 a))) with true; [reflexivity|].
  symmetry. apply orb_true_iff. destruct Hc as [Hc|Hc].
  - left. apply negb_true_iff. apply Z.eqb_neq. exact Hc.
  - right. destruct (code_of w1 a); [congruence|reflexivity].
Qed.


Section Ret.
Variable keccak : list Z -> Z.
Variable blockhash : Z -> Z.
Notation step := (step keccak blockhash).
Notation exec := (exec keccak).
Notation decode := (decode keccak blockhash).

Lemma exec_identity_ret : forall e k f w rest cg,
    addr_of_word (sk (f_stack f) 1) = 4 ->
    exists f' w', exec e (ICallOp k) f w rest cg = mk_config (f' :: rest) w' Running /\
                  ((hd 0 (f_stack f') = 1 /\ f_ret f' = call_input k f) \/
                   (hd 0 (f_stack f') = 0 /\ f_ret f' = [])).
Proof.
  intros e k f w rest cg Ht. cbn [exec].
  assert (Ha1 : forall n, (1 < n)%nat -> a1 (firstn n (f_stack f)) = sk (f_stack f) 1)
    by (intros n Hn; unfold a1; apply (sk_firstn keccak blockhash); exact Hn).
  assert (Hin : (match k with KCall | KCallCode => true | _ => false end = true ->
                 mem_read (f_mem f) (nth 0 (skipn 3 (firstn 7 (f_stack f))) 0) (nth 1 (skipn 3 (firstn 7 (f_stack f))) 0) = call_input k f) /\
                (match k with KCall | KCallCode => true | _ => false end = false ->
                 mem_read (f_mem f) (nth 0 (skipn 2 (firstn 6 (f_stack f))) 0) (nth 1 (skipn 2 (firstn 6 (f_stack f))) 0) = call_input k f)).
  { split; intros Hk; destruct k; try discriminate; unfold call_input;
      rewrite !(sk_skip_firstn keccak blockhash) by lia; reflexivity. }
  destruct Hin as [Hin1 Hin2].
  destruct k; cbn [instr_pops] in *;
    rewrite Ha1 by lia; rewrite Ht;
    first [rewrite (Hin1 eq_refl) | rewrite (Hin2 eq_refl) | idtac];
    match goal with
    | |- context [start_call ?kk ?d ?ww ?a ?b ?c ?dd 4 ?ff ?gg ?hh ?ii ?jj] =>
      pose proof (start_call_identity kk d ww a b c dd ff gg hh ii jj) as Hs;
        destruct (start_call kk d ww a b c dd 4 ff gg hh ii jj) as [o gb w' iret| |]; try contradiction
    end;
    (do 2 eexists; split; [reflexivity|]);
    (destruct Hs as [[Ho Hr]|[Ho Hr]]; subst;
     [left; split; reflexivity
     |right; destruct o as [| |er]; [congruence| |]; split; reflexivity]).
Qed.

(** * RETURNDATA changes only at CALL-family / CREATE instructions *)
Definition sets_ret (i : instr) : bool :=
  match i with ICreate | ICreate2 | ICallOp _ => true | _ => false end.

Lemma finish_not_longer : forall o ret f w rest f' rest',
    c_frames (finish o ret f w rest) = f' :: rest' -> length rest' = length rest -> False.
Proof.
  intros o ret f w rest f' rest' H Hl.
  pose proof (finish_depth o ret f w rest) as Hd. rewrite H in Hd. cbn [length] in Hd. lia.
Qed.

Lemma exec_ret_stable : forall e i f w rest cg f' rest',
    sets_ret i = false -> c_frames (exec e i f w rest cg) = f' :: rest' -> length rest' = length rest ->
    f_ret f' = f_ret f.
Proof.
  intros e i f w rest cg f' rest' Hs Hfr Hl.
  destruct i; try discriminate Hs; cbn [exec] in Hfr; unfold next, fail in Hfr;
    try (destruct n as [|m]);
    repeat match type of Hfr with
           | context [if ?b then _ else _] => destruct b
           end;
    first [ exfalso; eapply finish_not_longer; eassumption
          | cbn [c_frames] in Hfr; inversion Hfr; subst; reflexivity ].
Qed.

Theorem returndata_stable : forall e c f rest f' rest',
    c_status c = Running -> c_frames c = f :: rest ->
    (forall i, decode (cur_op f) = Some i -> sets_ret i = false) ->
    c_frames (step e c) = f' :: rest' -> length rest' = length rest ->
    f_ret f' = f_ret f.
Proof.
  intros e c f rest f' rest' Hrun Hf Hq Hfr Hl. unfold EVM.step in Hfr. rewrite Hrun, Hf in Hfr.
  destruct (op_info e (cur_op f)) as [info|];
    [|unfold fail in Hfr; exfalso; eapply finish_not_longer; eassumption].
  destruct (decode (cur_op f)) as [i|] eqn:Hd;
    [|cbn [c_frames] in Hfr; inversion Hfr; subst; reflexivity].
  specialize (Hq i eq_refl).
  repeat match type of Hfr with
         | context [if ?b then _ else _] =>
           destruct b; [unfold fail in Hfr; exfalso; eapply finish_not_longer; eassumption|]
         end.
  match type of Hfr with context [match ?m with Some msz => _ | None => _ end] => destruct m as [msz|] end;
    [|unfold fail in Hfr; exfalso; eapply finish_not_longer; eassumption].
  match type of Hfr with context [instr_dyn ?a ?b ?c ?d ?ee ?ff] =>
    destruct (instr_dyn a b c d ee ff) as [[[[cost mc] cg]|]|] end.
  - match type of Hfr with context [if ?b then _ else _] => destruct b end;
      [unfold fail in Hfr; exfalso; eapply finish_not_longer; eassumption|].
    apply exec_ret_stable in Hfr; auto.
  - unfold fail in Hfr; exfalso; eapply finish_not_longer; eassumption.
  - apply exec_ret_stable in Hfr; auto.
Qed.

(** any number of steps of the same frame that execute no CALL-family / CREATE instruction *)
Inductive quiet (e : env) : config -> config -> Prop :=
| q_refl : forall c, quiet e c c
| q_step : forall c c' f rest f' rest',
    quiet e c c' -> c_status c' = Running -> c_frames c' = f :: rest ->
    (forall i, decode (cur_op f) = Some i -> sets_ret i = false) ->
    c_frames (step e c') = f' :: rest' -> length rest' = length rest ->
    quiet e c (step e c').

Theorem returndata_stable_run : forall e c c', quiet e c c' ->
    forall f rest, c_frames c = f :: rest ->
    exists f' rest', c_frames c' = f' :: rest' /\ length rest' = length rest /\ f_ret f' = f_ret f.
Proof.
  intros e c c' H. induction H as [c|c c' f1 rest1 f2 rest2 Hq IH Hrun Hf Hno Hfr Hl]; intros f rest Hc.
  - exists f, rest. auto.
  - destruct (IH f rest Hc) as [f' [rest' [H1 [H2 H3]]]].
    rewrite Hf in H1. inversion H1; subst f' rest'.
    exists f2, rest2. split; [exact Hfr|]. split; [lia|].
    rewrite <- H3. eapply returndata_stable; eauto.
Qed.

(** * RETURNDATACOPY *)
Theorem returndatacopy_spec : forall e f w rest cg,
    0 <= sk (f_stack f) 1 -> 0 <= sk (f_stack f) 2 ->
    (rdc_ok f ->
     exec e (ICopy SrcReturndata) f w rest cg =
     next (set_stack (set_mem f (mem_write (f_mem f) (sk (f_stack f) 0)
                                           (firstn (Z.to_nat (sk (f_stack f) 2)) (skipn (Z.to_nat (sk (f_stack f) 1)) (f_ret f))))
                              (f_mcost f))
                     (skipn 3 (f_stack f))) w rest) /\
    (~ rdc_ok f -> exec e (ICopy SrcReturndata) f w rest cg = fail ERetOob f w rest).
Proof.
  intros e f w rest cg H1 H2. cbn [exec instr_pops copy_source].
  assert (E0 : a0 (firstn 3 (f_stack f)) = sk (f_stack f) 0) by (unfold a0; apply (sk_firstn keccak blockhash); lia).
  assert (E1 : a1 (firstn 3 (f_stack f)) = sk (f_stack f) 1) by (unfold a1; apply (sk_firstn keccak blockhash); lia).
  assert (E2 : a2 (firstn 3 (f_stack f)) = sk (f_stack f) 2) by (unfold a2; apply (sk_firstn keccak blockhash); lia).
  rewrite E0, E1, E2. unfold rdc_ok. cbn zeta.
  set (off := sk (f_stack f) 1) in *. set (len := sk (f_stack f) 2) in *.
  split; intros H.
  - destruct H as [Ha Hb].
    replace ((U64 <=? off) || (U64 <=? off + len) || (Z.of_nat (length (f_ret f)) <? off + len)) with false.
    + rewrite slice_pad_exact by lia. reflexivity.
    + symmetry. apply orb_false_iff. split; [apply orb_false_iff; split|]; [apply Z.leb_gt|apply Z.leb_gt|apply Z.ltb_ge]; lia.
  - replace ((U64 <=? off) || (U64 <=? off + len) || (Z.of_nat (length (f_ret f)) <? off + len)) with true; [reflexivity|].
    symmetry. destruct (U64 <=? off) eqn:A; [reflexivity|]. destruct (U64 <=? off + len) eqn:B; [reflexivity|].
    cbn [orb]. apply Z.ltb_lt. apply Z.leb_gt in A. apply Z.leb_gt in B.
    destruct (Z_lt_le_dec (Z.of_nat (length (f_ret f))) (off + len)); [assumption|]. exfalso. apply H. split; lia.
Qed.

End Ret.
