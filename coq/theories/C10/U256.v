(** C10 — 256-bit word arithmetic of the EVM, written from the specification (Yellow Paper
    appendix H / EIP-145) on [Z].  A word is a [Z] in [0, 2^256).  No proofs here: the
    characterisations against the mathematical definitions are in ProofsArith.v. *)
From Coq Require Import ZArith Bool.
Local Open Scope Z_scope.

Definition W : Z := 2 ^ 256.
Definition HALF : Z := 2 ^ 255.
Definition wrap (z : Z) : Z := z mod W.
Definition is_word (z : Z) : Prop := 0 <= z < W.

(** two's complement reading of a word *)
Definition signed (a : Z) : Z := if a <? HALF then a else a - W.

Definition b2w (b : bool) : Z := if b then 1 else 0.

Definition add (a b : Z) : Z := wrap (a + b).
Definition mul (a b : Z) : Z := wrap (a * b).
Definition sub (a b : Z) : Z := wrap (a - b).
Definition div (a b : Z) : Z := if b =? 0 then 0 else a / b.
Definition sdiv (a b : Z) : Z := if b =? 0 then 0 else wrap (Z.quot (signed a) (signed b)).
Definition modw (a b : Z) : Z := if b =? 0 then 0 else a mod b.
Definition smod (a b : Z) : Z := if b =? 0 then 0 else wrap (Z.rem (signed a) (signed b)).
Definition addmod (a b n : Z) : Z := if n =? 0 then 0 else (a + b) mod n.
Definition mulmod (a b n : Z) : Z := if n =? 0 then 0 else (a * b) mod n.

(** EXP by square-and-multiply over the binary exponent (so that it runs); the lemma
    [exp_spec] shows it is [a ^ b mod 2^256]. *)
Fixpoint pow_pos_mod (a : Z) (p : positive) : Z :=
  match p with
  | xH => wrap a
  | xO q => let r := pow_pos_mod a q in wrap (r * r)
  | xI q => let r := pow_pos_mod a q in wrap (a * wrap (r * r))
  end.
Definition exp (a b : Z) : Z :=
  match b with
  | Z0 => 1
  | Zpos p => pow_pos_mod a p
  | Zneg _ => 0
  end.

(** number of bytes of the exponent (gas of EXP) *)
Definition byte_len (b : Z) : Z := (Z.log2 b + 8) / 8 * b2w (0 <? b).

(** SIGNEXTEND k x: x is read as a (k+1)-byte two's complement number *)
Definition signextend (k x : Z) : Z :=
  if k <? 31 then
    let bits := 8 * k + 8 in
    let low := x mod 2 ^ bits in
    if low <? 2 ^ (bits - 1) then low else low + (W - 2 ^ bits)
  else x.

Definition lt (a b : Z) : Z := b2w (a <? b).
Definition gt (a b : Z) : Z := b2w (b <? a).
Definition slt (a b : Z) : Z := b2w (signed a <? signed b).
Definition sgt (a b : Z) : Z := b2w (signed b <? signed a).
Definition eq (a b : Z) : Z := b2w (a =? b).
Definition iszero (a : Z) : Z := b2w (a =? 0).
Definition and_ (a b : Z) : Z := Z.land a b.
Definition or_ (a b : Z) : Z := Z.lor a b.
Definition xor_ (a b : Z) : Z := Z.lxor a b.
Definition not_ (a : Z) : Z := W - 1 - a.

(** BYTE i x: the i-th byte counted from the most significant one *)
Definition byte (i x : Z) : Z := if i <? 32 then (x / 2 ^ (8 * (31 - i))) mod 256 else 0.

Definition shl (s v : Z) : Z := if s <? 256 then wrap (v * 2 ^ s) else 0.
Definition shr (s v : Z) : Z := if s <? 256 then v / 2 ^ s else 0.
Definition sar (s v : Z) : Z :=
  if s <? 256 then wrap (signed v / 2 ^ s)
  else if signed v <? 0 then W - 1 else 0.

(** big-endian bytes <-> words *)
Fixpoint be_to_Z (l : list Z) (acc : Z) : Z :=
  match l with
  | nil => acc
  | cons b t => be_to_Z t (acc * 256 + b)
  end.
Fixpoint Z_to_be (n : nat) (z : Z) (acc : list Z) : list Z :=
  match n with
  | O => acc
  | S m => Z_to_be m (z / 256) (cons (z mod 256) acc)
  end.
Definition word_bytes (z : Z) : list Z := Z_to_be 32 z nil.
Definition addr_of_word (z : Z) : Z := z mod 2 ^ 160.
