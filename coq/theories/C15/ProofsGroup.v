(** C15 — the file group (rotation only between records) and SearchForEndHeight. *)
From Coq Require Import List ZArith NArith Bool Lia Arith Sorted.
From Kardia Require Import C15.Crc32c C15.ProofsCrc C15.Model C15.ProofsFrame C15.ProofsLog Generated.C15Facts.
Import ListNotations.

Lemma sorted_split {A} (R : A -> A -> Prop) a x b :
  StronglySorted R (a ++ x :: b) -> (forall y, In y a -> R y x) /\ (forall y, In y b -> R x y).
Proof.
  induction a as [|h a IH]; cbn; intro S.
  - apply StronglySorted_inv in S. destruct S as [_ F]. split; [tauto|]. intros y Hy. eapply Forall_forall in F; eauto.
  - apply StronglySorted_inv in S. destruct S as [S F]. destruct (IH S) as [I1 I2]. split; auto.
    intros y [->|Hy]; auto. eapply Forall_forall in F; [exact F|]. apply in_or_app. right. left. reflexivity.
Qed.

Lemma concat_split {A} (chunks : list (list A)) : forall pre x post,
  concat chunks = pre ++ x :: post ->
  exists cs1 c0a c0b cs2, chunks = cs1 ++ (c0a ++ x :: c0b) :: cs2 /\ pre = concat cs1 ++ c0a /\ post = c0b ++ concat cs2.
Proof.
  induction chunks as [|c cs IH]; intros pre x post E; cbn in E.
  - destruct pre; discriminate.
  - apply app_eq_app in E. destruct E as [l [[E1 E2]|[E1 E2]]].
    + destruct l as [|y l].
      * cbn in E2. rewrite app_nil_r in E1. subst c. symmetry in E2.
        destruct (IH [] x post E2) as [cs1 [c0a [c0b [cs2 [Q1 [Q2 Q3]]]]]].
        exists (pre :: cs1), c0a, c0b, cs2. subst cs. cbn [app concat]. repeat split; auto.
        rewrite <- app_assoc, <- Q2, app_nil_r. reflexivity.
      * cbn in E2. injection E2 as -> ->. exists [], pre, l, cs. subst c. cbn. auto.
    + destruct (IH l x post E2) as [cs1 [c0a [c0b [cs2 [Q1 [Q2 Q3]]]]]].
      exists (c :: cs1), c0a, c0b, cs2. subst cs pre l. cbn [app concat]. repeat split; auto.
      rewrite app_assoc. reflexivity.
Qed.

Lemma skipn_map' {A B} (f : A -> B) n l : skipn n (map f l) = map f (skipn n l).
Proof. revert l. induction n; intros [|x l]; cbn; auto. Qed.

Section Group.
  Variable crc : bytes -> N.
  Hypothesis crc_range : forall x, wf_bytes x -> (crc x < 4294967296)%N.
  Variable msg : Type.
  Variable ser : msg -> bytes.
  Variable deser : bytes -> option msg.
  Variable end_height : msg -> option Z.

  Notation frame := (frame crc).
  Notation frames := (frames crc).
  Notation decode := (decode crc msg deser).
  Notation good := (good msg deser).
  Notation wal_step := (wal_step crc).
  Notation wal_run := (wal_run crc).
  Notation scan := (scan crc msg deser end_height).
  Notation search_loop := (search_loop crc msg deser end_height).
  Notation search := (search crc msg deser end_height).

  (** ** writing: the group always holds exactly the accepted frames, rotated files hold whole frames *)
  Definition accepted (g : group) (o : wal_op) : list bytes :=
    match o with
    | WWrite p | WWriteSync p => match encode crc p with Some _ => [p] | None => [] end
    | WStart p0 =>
      match g_head g ++ g_buf g with
      | [] => match encode crc p0 with Some _ => [p0] | None => [] end
      | _ => []
      end
    | _ => []
    end.

  (** the payloads accepted along a run (the restart marker is written only on an empty head) *)
  Fixpoint run_written (g : group) (ops : list wal_op) : list bytes :=
    match ops with
    | [] => []
    | o :: r => accepted g o ++ run_written (fst (wal_step g o)) r
    end.

  (** bytes removed from the disk by checkTotalSizeLimit along a run *)
  Definition step_pruned (g : group) (o : wal_op) : nat :=
    match o with
    | WPrune tl => length (concat (firstn (pruned_count tl g) (g_files g)))
    | _ => 0
    end.

  Fixpoint run_pruned (g : group) (ops : list wal_op) : nat :=
    match ops with
    | [] => 0
    | o :: r => step_pruned g o + run_pruned (fst (wal_step g o)) r
    end.

  (** [ps]: everything accepted so far; [dropped]: the oldest records, whose files were pruned ([n] bytes) *)
  Definition inv (g : group) (ps : list bytes) (n : nat) : Prop :=
    exists dropped chunks cur, g_files g = map frames chunks /\ g_head g ++ g_buf g = frames cur /\
      dropped ++ concat chunks ++ cur = ps /\ length (frames dropped) = n.

  Lemma bufio_write_concat cap disk buf p :
    fst (bufio_write cap disk buf p) ++ snd (bufio_write cap disk buf p) = disk ++ buf ++ p.
  Proof.
    unfold bufio_write. destruct (Nat.leb (length p) (cap - length buf)); cbn [fst snd]; [reflexivity|].
    destruct buf as [|b buf]; cbn [fst snd]; [rewrite app_nil_r; reflexivity|].
    destruct (Nat.leb (length (skipn (cap - length (b :: buf)) p)) cap); cbn [fst snd].
    - rewrite <- !app_assoc. rewrite firstn_skipn. reflexivity.
    - rewrite app_nil_r, <- !app_assoc. rewrite firstn_skipn. reflexivity.
  Qed.

  Lemma concat_map_frames chunks : concat (map frames chunks) = frames (concat chunks).
  Proof. induction chunks as [|c cs IH]; [reflexivity|]. cbn [map concat]. rewrite IH. symmetry. apply (frames_app crc). Qed.

  Lemma encode_some p fr : encode crc p = Some fr -> fr = frame p.
  Proof. unfold encode. destruct (_ <? _)%N; congruence. Qed.

  Lemma group_write_inv g ps n p : inv g ps n -> inv (group_write g (frame p)) (ps ++ [p]) n.
  Proof.
    intros [dr [chunks [cur [F [H [C L]]]]]]. unfold group_write.
    pose proof (bufio_write_concat (N.to_nat head_buf_size) (g_head g) (g_buf g) (frame p)) as B.
    destruct (bufio_write (N.to_nat head_buf_size) (g_head g) (g_buf g) (frame p)) as [d b]. cbn [fst snd] in B.
    exists dr, chunks, (cur ++ [p]). cbn [g_files g_head g_buf]. repeat split; auto.
    - rewrite B, app_assoc, H, (frames_app crc). cbn. rewrite app_nil_r. reflexivity.
    - rewrite <- C, <- !app_assoc. reflexivity.
  Qed.

  Lemma group_flush_inv g ps n : inv g ps n -> inv (group_flush g) ps n.
  Proof.
    intros [dr [chunks [cur [F [H [C L]]]]]]. exists dr, chunks, cur. cbn. rewrite app_nil_r. auto.
  Qed.

  Lemma group_rotate_inv g ps n : inv g ps n -> inv (group_rotate g) ps n.
  Proof.
    intros [dr [chunks [cur [F [H [C L]]]]]]. exists dr, (chunks ++ [cur]), []. cbn. repeat split; auto.
    - rewrite map_app, F, H. reflexivity.
    - rewrite concat_app. cbn. rewrite !app_nil_r. exact C.
  Qed.

  (** OpenGroup re-reads the indices from the directory; the contents are what they were *)
  Lemma reopen_inv g ps n : inv g ps n -> inv (reopen g) ps n.
  Proof.
    intros I. unfold reopen. destruct (g_files g) as [|f fs] eqn:E; [|exact I].
    destruct I as [dr [chunks [cur [F [H [C L]]]]]]. exists dr, chunks, cur. cbn [g_files g_head g_buf].
    rewrite E in F. auto.
  Qed.

  (** checkTotalSizeLimit removes whole files from the old end: whole records *)
  Lemma prune_inv tl g ps n : inv g ps n -> inv (check_total_size_limit tl g) ps (n + step_pruned g (WPrune tl)).
  Proof.
    intros [dr [chunks [cur [F [H [C L]]]]]]. cbn [step_pruned]. unfold check_total_size_limit.
    set (k := pruned_count tl g).
    exists (dr ++ concat (firstn k chunks)), (skipn k chunks), cur. cbn [g_files g_head g_buf]. repeat split.
    - rewrite F. apply skipn_map'.
    - exact H.
    - rewrite <- C, <- !app_assoc. f_equal. rewrite !app_assoc. f_equal.
      rewrite <- concat_app, firstn_skipn. reflexivity.
    - rewrite (frames_app crc), app_length, L. f_equal. rewrite F, firstn_map, concat_map_frames. reflexivity.
  Qed.

  Lemma wal_step_inv g ps n o : inv g ps n -> inv (fst (wal_step g o)) (ps ++ accepted g o) (n + step_pruned g o).
  Proof.
    intro I. destruct o as [p|p| | | |p0|tl]; cbn [Model.wal_step accepted]; unfold Model.wal_start, Model.wal_write, Model.wal_write_sync;
      try (cbn [step_pruned]; rewrite Nat.add_0_r).
    - destruct (encode crc p) as [fr|] eqn:E; cbn [fst]; [|rewrite app_nil_r; exact I].
      apply encode_some in E. subst fr. apply group_write_inv. exact I.
    - destruct (encode crc p) as [fr|] eqn:E; cbn [fst]; [|rewrite app_nil_r; exact I].
      apply encode_some in E. subst fr. apply group_flush_inv, group_write_inv. exact I.
    - cbn [fst]. rewrite app_nil_r. unfold check_head_size_limit.
      destruct (g_limit g =? 0)%Z; auto. destruct (g_limit g <=? _)%Z; auto using group_rotate_inv.
    - cbn [fst]. rewrite app_nil_r. apply group_flush_inv. exact I.
    - cbn [fst]. rewrite app_nil_r. apply group_rotate_inv. exact I.
    - apply group_flush_inv, reopen_inv in I.
      assert (Hd : g_head (reopen (group_flush g)) = g_head g ++ g_buf g).
      { unfold reopen. cbn [group_flush g_files g_head]. destruct (g_files g); reflexivity. }
      rewrite Hd.
      destruct (g_head g ++ g_buf g) eqn:H; [|cbn [fst]; rewrite app_nil_r; exact I].
      destruct (encode crc p0) as [fr|] eqn:E; cbn [fst]; [|rewrite app_nil_r; exact I].
      apply encode_some in E. subst fr. apply group_flush_inv, group_write_inv. exact I.
    - cbn [fst]. rewrite app_nil_r. apply prune_inv. exact I.
  Qed.

  Lemma wal_run_inv ops : forall g ps n, inv g ps n -> inv (wal_run g ops) (ps ++ run_written g ops) (n + run_pruned g ops).
  Proof.
    induction ops as [|o ops IH]; intros g ps n I; cbn [Model.wal_run fold_left run_written run_pruned].
    - rewrite app_nil_r, Nat.add_0_r. exact I.
    - rewrite app_assoc, Nat.add_assoc. apply IH. apply wal_step_inv. exact I.
  Qed.

  Definition empty_group (min : nat) (limit : Z) : group := mkGroup min [] [] [] limit.

  Lemma inv_empty min limit : inv (empty_group min limit) [] 0.
  Proof. exists [], [], []. cbn. auto. Qed.

  (** after a flush, the files on disk are whole-frame chunks of exactly what was accepted, minus
      the pruned oldest records *)
  Lemma flushed_files g ps n :
    inv g ps n -> exists dropped chunks, disk_files (group_flush g) = map frames chunks /\ dropped ++ concat chunks = ps /\
      length (frames dropped) = n.
  Proof.
    intros [dr [chunks [cur [F [H [C L]]]]]]. exists dr, (chunks ++ [cur]). unfold disk_files. cbn [group_flush g_files g_head].
    rewrite map_app, F, H, concat_app. cbn. rewrite app_nil_r. auto.
  Qed.

  (** no WPrune, nothing pruned *)
  Lemma run_pruned_none ops : (forall tl, ~ In (WPrune tl) ops) -> forall g, run_pruned g ops = 0.
  Proof.
    induction ops as [|o ops IH]; intros N g; [reflexivity|]. cbn [run_pruned].
    rewrite IH by (intros tl I; apply (N tl); right; exact I).
    destruct o; try reflexivity. exfalso. apply (N total_limit). left. reflexivity.
  Qed.

  (** ** the repair steps of OnStart inside a group: the head is rewritten to its longest valid prefix *)
  Lemma repair_head_spec g cur tail ms :
    g_head g = frames cur ++ tail -> Forall2 (canon msg ser deser) cur ms ->
    (forall m r, decode RFile tail <> OMsg m r) ->
    repair_head crc msg ser deser g = (mkGroup (g_min g) (g_files g) (frames cur) [] (g_limit g), true).
  Proof.
    intros H C T. unfold repair_head, repair_onstart. rewrite H, (repair_prefix crc crc_range msg ser deser cur ms tail C T).
    reflexivity.
  Qed.

  Lemma group_stream_min g : group_stream g (g_min g) = concat (disk_files g).
  Proof. unfold group_stream. rewrite Nat.sub_diag. reflexivity. Qed.

  (** ** SearchForEndHeight on a log of whole, valid frames *)
  Definition mark (p : bytes) : option Z :=
    match deser p with Some m => end_height m | None => None end.
  Definition marks (ps : list bytes) : list Z :=
    flat_map (fun p => match mark p with Some x => [x] | None => [] end) ps.
  Definition goodp (p : bytes) : Prop := exists m, good p m.

  Fixpoint scan_abs (h : Z) (ps : list bytes) (last : Z) : scan_res :=
    match ps with
    | [] => if ((0 <? last) && (last <? h))%Z then ScStop else ScNext last
    | p :: r =>
      match mark p with
      | Some x => if (x =? h)%Z then ScFound (frames r) else scan_abs h r x
      | None => scan_abs h r last
      end
    end.

  Lemma scan_frames h ign : forall ps, Forall goodp ps -> forall f last,
    scan (length ps + S f) h ign (frames ps) last = scan_abs h ps last.
  Proof.
    induction 1 as [|p ps [m G] _ IH]; intros f last.
    - cbn [length Nat.add Model.scan]. change (frames []) with (@nil N). rewrite (decode_nil crc crc_range). reflexivity.
    - cbn [length Nat.add Model.scan scan_abs]. rewrite (frames_cons crc), (decode_frame' crc crc_range msg deser RGroup p m _ G).
      unfold mark. destruct G as [D _]. rewrite D. destruct (end_height m) as [x|]; [|apply IH].
      destruct (x =? h)%Z; [reflexivity|apply IH].
  Qed.

  Fixpoint search_abs (k : nat) (chunks : list (list bytes)) (h last : Z) : sres :=
    match k with
    | O => SNotFound
    | S k' =>
      match scan_abs h (concat (skipn k' chunks)) last with
      | ScFound rest => SFound rest
      | ScStop => SNotFound
      | ScErr c => SErr c
      | ScFuel => SFuel
      | ScNext l => search_abs k' chunks h l
      end
    end.

  Lemma Forall_concat_skipn {A} (P : A -> Prop) k (chunks : list (list A)) :
    Forall P (concat chunks) -> Forall P (concat (skipn k chunks)).
  Proof.
    intro F. rewrite <- (firstn_skipn k chunks), concat_app in F. apply Forall_app in F. tauto.
  Qed.

  Lemma search_loop_abs h ign chunks : Forall goodp (concat chunks) -> forall k last,
    search_loop k (map frames chunks) h ign last = search_abs k chunks h last.
  Proof.
    intros G. induction k as [|k IH]; intro last; [reflexivity|].
    cbn [Model.search_loop search_abs]. rewrite skipn_map', concat_map_frames.
    set (sfx := concat (skipn k chunks)).
    pose proof (frames_length_ge crc sfx) as L.
    replace (S (length (frames sfx))) with (length sfx + S (length (frames sfx) - length sfx)) by lia.
    rewrite scan_frames by (apply Forall_concat_skipn; exact G).
    destruct (scan_abs h sfx last); auto.
  Qed.

  Lemma marks_app a b : marks (a ++ b) = marks a ++ marks b.
  Proof. unfold marks. apply flat_map_app. Qed.

  Lemma scan_abs_absent h : forall ps last, ~ In h (marks ps) ->
    scan_abs h ps last = ScStop \/ exists l, scan_abs h ps last = ScNext l.
  Proof.
    induction ps as [|p ps IH]; intros last N; cbn [scan_abs].
    - destruct ((0 <? last) && (last <? h))%Z; eauto.
    - unfold marks in N. cbn [flat_map] in N. fold (marks ps) in N. destruct (mark p) as [x|].
      + cbn in N. destruct (Z.eqb_spec x h); [tauto|]. apply IH. tauto.
      + apply IH. exact N.
  Qed.

  Lemma search_abs_absent h chunks : ~ In h (marks (concat chunks)) -> forall k last,
    search_abs k chunks h last = SNotFound.
  Proof.
    intros N. induction k as [|k IH]; intro last; [reflexivity|]. cbn [search_abs].
    assert (N' : ~ In h (marks (concat (skipn k chunks)))).
    { intro I. apply N. rewrite <- (firstn_skipn k chunks), concat_app, marks_app. apply in_or_app. auto. }
    destruct (scan_abs_absent h _ last N') as [E|[l E]]; rewrite E; auto.
  Qed.

  Lemma scan_abs_found h : forall pre p0 post last, ~ In h (marks pre) -> mark p0 = Some h ->
    scan_abs h (pre ++ p0 :: post) last = ScFound (frames post).
  Proof.
    induction pre as [|p pre IH]; intros p0 post last N M; cbn [app scan_abs].
    - rewrite M, Z.eqb_refl. reflexivity.
    - unfold marks in N. cbn [flat_map] in N. fold (marks pre) in N. destruct (mark p) as [x|].
      + cbn in N. destruct (Z.eqb_spec x h); [tauto|]. apply IH; tauto.
      + apply IH; auto.
  Qed.

  (** files younger than the one holding the marker: every positive marker there is larger
      (non-positive ones — the restart marker 0 — never stop the scan), so the scan moves on *)
  Lemma scan_abs_later h : (0 < h)%Z -> forall ps last,
    (forall x, In x (marks ps) -> (x <= 0 \/ h < x)%Z) ->
    (last <= 0 \/ h < last)%Z ->
    exists l, scan_abs h ps last = ScNext l /\ (l <= 0 \/ h < l)%Z.
  Proof.
    intro Hh. induction ps as [|p ps IH]; intros last A I; cbn [scan_abs].
    - assert (E : ((0 <? last) && (last <? h))%Z = false).
      { destruct I as [I|I]; apply andb_false_iff; [left|right]; apply Z.ltb_ge; lia. }
      rewrite E. eauto.
    - unfold marks in A. cbn [flat_map] in A. fold (marks ps) in A. destruct (mark p) as [x|].
      + assert (x <= 0 \/ h < x)%Z by (apply A; apply in_or_app; left; left; reflexivity).
        destruct (Z.eqb_spec x h); [lia|]. apply IH; auto. intros y Hy. apply A. apply in_or_app. auto.
      + apply IH; auto.
  Qed.

  Definition pos_marks (ps : list bytes) : list Z := filter (fun x => (0 <? x)%Z) (marks ps).

  Lemma search_abs_found h cs1 c0a p0 c0b cs2 :
    let chunks := cs1 ++ (c0a ++ p0 :: c0b) :: cs2 in
    (0 < h)%Z -> StronglySorted Z.lt (pos_marks (concat chunks)) -> mark p0 = Some h ->
    search_abs (length chunks) chunks h (-1) = SFound (frames (c0b ++ concat cs2)).
  Proof.
    intros chunks Hh S M.
    assert (E : concat chunks = (concat cs1 ++ c0a) ++ p0 :: (c0b ++ concat cs2)).
    { unfold chunks. rewrite concat_app. cbn. rewrite <- !app_assoc. reflexivity. }
    unfold pos_marks in S. rewrite E, marks_app in S. cbn [marks flat_map] in S.
    fold (marks (c0b ++ concat cs2)) in S. rewrite M in S. cbn [app] in S.
    rewrite filter_app in S. cbn [filter] in S.
    assert (P : (0 <? h)%Z = true) by (apply Z.ltb_lt; exact Hh). rewrite P in S.
    apply sorted_split in S. destruct S as [S1 S2].
    assert (T1 : ~ In h (marks (concat cs1 ++ c0a))).
    { intro Hin. assert (In h (filter (fun x => (0 <? x)%Z) (marks (concat cs1 ++ c0a)))) by (apply filter_In; auto).
      apply S1 in H. lia. }
    assert (T2 : forall x, In x (marks (c0b ++ concat cs2)) -> (x <= 0 \/ h < x)%Z).
    { intros x Hx. destruct (Z.ltb_spec 0 x) as [Px|Px]; [|left; lia]. right. apply S2. apply filter_In. split; auto.
      apply Z.ltb_lt. exact Px. }
    assert (G : forall j last, j <= length cs2 -> (last <= 0 \/ h < last)%Z ->
                search_abs (length cs1 + 1 + j) chunks h last = SFound (frames (c0b ++ concat cs2))).
    { induction j as [|j IH]; intros last Lj I.
      - replace (length cs1 + 1 + 0) with (S (length cs1)) by lia. cbn [search_abs].
        unfold chunks. rewrite skipn_app, Nat.sub_diag, skipn_all. cbn [app skipn concat].
        rewrite <- app_assoc. cbn [app]. rewrite scan_abs_found; auto.
        intro Hin. apply T1. rewrite marks_app. apply in_or_app. auto.
      - replace (length cs1 + 1 + S j) with (S (length cs1 + 1 + j)) by lia. cbn [search_abs].
        assert (Sk : skipn (length cs1 + 1 + j) chunks = skipn j cs2).
        { unfold chunks. rewrite skipn_app. rewrite skipn_all2 by lia. cbn [app].
          replace (length cs1 + 1 + j - length cs1) with (S j) by lia. reflexivity. }
        rewrite Sk.
        destruct (scan_abs_later h Hh (concat (skipn j cs2)) last) as [l [El Il]]; auto.
        { intros x Hx. apply T2. rewrite marks_app. apply in_or_app. right.
          rewrite <- (firstn_skipn j cs2), concat_app, marks_app. apply in_or_app. auto. }
        rewrite El. apply IH; auto. lia. }
    replace (length chunks) with (length cs1 + 1 + length cs2).
    - apply G; auto. left. lia.
    - unfold chunks. rewrite app_length. cbn. lia.
  Qed.

  (** non-positive heights (the restart marker 0, possibly repeated): the early exit never fires *)
  Lemma scan_abs_present h : forall ps last, In h (marks ps) -> exists rest, scan_abs h ps last = ScFound rest.
  Proof.
    induction ps as [|p ps IH]; intros last I; [destruct I|]. cbn [scan_abs].
    unfold marks in I. cbn [flat_map] in I. fold (marks ps) in I. destruct (mark p) as [x|].
    - destruct (Z.eqb_spec x h); [eauto|]. apply IH. cbn in I. destruct I; [congruence|auto].
    - apply IH. exact I.
  Qed.

  Lemma scan_abs_nostop h : (h <= 0)%Z -> forall ps last, scan_abs h ps last <> ScStop.
  Proof.
    intro Hh. induction ps as [|p ps IH]; intros last; cbn [scan_abs].
    - destruct ((0 <? last) && (last <? h))%Z eqn:E; [|discriminate].
      apply andb_true_iff in E. destruct E as [E1 E2]. apply Z.ltb_lt in E1, E2. lia.
    - destruct (mark p) as [x|]; [destruct (x =? h)%Z; [discriminate|apply IH]|apply IH].
  Qed.

  Lemma search_abs_nonpos h chunks : (h <= 0)%Z -> In h (marks (concat chunks)) ->
    forall k last, 1 <= k -> exists rest, search_abs k chunks h last = SFound rest.
  Proof.
    intros Hh I. induction k as [|k IH]; intros last K; [lia|]. cbn [search_abs].
    destruct (in_dec Z.eq_dec h (marks (concat (skipn k chunks)))) as [P|A].
    - destruct (scan_abs_present h _ last P) as [rest E]. rewrite E. eauto.
    - destruct (scan_abs_absent h _ last A) as [E|[l E]].
      + exfalso. eapply scan_abs_nostop; eauto.
      + rewrite E. destruct k as [|k]; [exfalso; apply A; exact I|]. apply IH. lia.
  Qed.

  (** For a flushed group whose files are whole-frame chunks of a valid log in which the POSITIVE
      end-height markers increase strictly (markers <= 0 — the [EndHeightMessage{0}] OnStart writes on
      every empty head, so also after a rotation followed by a restart — may occur anywhere, any
      number of times): a positive height is found iff it was written, and the reader returned is
      positioned exactly after the marker's frame; a non-positive height is found iff written. *)
  Lemma search_iff g chunks h ign :
    disk_files g = map frames chunks -> Forall goodp (concat chunks) ->
    StronglySorted Z.lt (pos_marks (concat chunks)) ->
    (forall pre p0 post, (0 < h)%Z -> concat chunks = pre ++ p0 :: post -> mark p0 = Some h ->
       search g h ign = SFound (frames post)) /\
    ((h <= 0)%Z -> In h (marks (concat chunks)) -> exists rest, search g h ign = SFound rest) /\
    (~ In h (marks (concat chunks)) -> search g h ign = SNotFound).
  Proof.
    intros D G S. unfold Model.search. rewrite D, map_length. repeat split.
    - intros pre p0 post Hh E M. rewrite search_loop_abs by exact G.
      destruct (concat_split chunks pre p0 post E) as [cs1 [c0a [c0b [cs2 [Q1 [Q2 Q3]]]]]].
      subst chunks post. apply search_abs_found; auto.
    - intros Hh I. rewrite search_loop_abs by exact G. apply search_abs_nonpos; auto.
      destruct chunks; [destruct I|cbn; lia].
    - intro N. rewrite search_loop_abs by exact G. apply search_abs_absent. exact N.
  Qed.

End Group.

(** ** checkTotalSizeLimit itself, on any group *)
Lemma prune_loop_spec : forall i fs total limit,
  let k := fst (prune_loop i fs total limit) in
  k <= i /\ k <= length fs /\
  (forall j, j < k -> (limit <= total - Z.of_nat (length (concat (firstn j fs))))%Z) /\
  (k < i -> k < length fs -> (total - Z.of_nat (length (concat (firstn k fs))) < limit)%Z).
Proof.
  induction i as [|i IH]; intros fs total limit; cbn [prune_loop].
  - cbn [fst]. repeat split; try lia.
  - destruct (Z.ltb_spec total limit) as [Lt|Ge].
    + cbn [fst]. repeat split; try lia.
    + destruct fs as [|f r]; [cbn [fst length]; repeat split; lia|].
      specialize (IH r (total - Z.of_nat (length f))%Z limit).
      destruct (prune_loop i r (total - Z.of_nat (length f)) limit) as [k fs'] eqn:E. cbn [fst] in *.
      destruct IH as [A [B [C D]]]. cbn [length]. repeat split; try lia.
      * intros [|j] Hj; [cbn; lia|]. cbn [firstn concat]. rewrite app_length. specialize (C j). lia.
      * intros K1 K2. cbn [firstn concat]. rewrite app_length. assert (k < i) by lia. assert (k < length r) by lia. lia.
Qed.

Lemma length_concat_firstn_skipn {A} k (l : list (list A)) :
  length (concat l) = length (concat (firstn k l)) + length (concat (skipn k l)).
Proof. rewrite <- (firstn_skipn k l) at 1. rewrite concat_app, app_length. reflexivity. Qed.

(** checkTotalSizeLimit on ANY group: only rotated files go, oldest first, at most maxFilesToRemove,
    the head and the write buffer are untouched; every removal happened with the (remaining) total
    at or above the limit, and it stops as soon as the total is below the limit *)
Lemma prune_sound tl g :
  let k := pruned_count tl g in
  let g' := check_total_size_limit tl g in
  g_files g' = skipn k (g_files g) /\ g_head g' = g_head g /\ g_buf g' = g_buf g /\ g_min g' = g_min g + k /\
  k <= N.to_nat max_files_to_remove /\ k <= length (g_files g) /\
  (forall j, j < k -> tl <> 0%Z /\ (tl <= total_size g - Z.of_nat (length (concat (firstn j (g_files g)))))%Z) /\
  (tl <> 0%Z -> k < N.to_nat max_files_to_remove -> k < length (g_files g) -> (total_size g' < tl)%Z).
Proof.
  intros k g'. unfold g', check_total_size_limit. fold k. cbn [g_files g_head g_buf g_min].
  repeat (split; [reflexivity|]).
  unfold k, pruned_count. destruct (Z.eqb_spec tl 0) as [E|NE].
  - repeat split; lia.
  - cbv iota.
    pose proof (prune_loop_spec (N.to_nat max_files_to_remove) (g_files g) (total_size g) tl) as P.
    cbv zeta in P. set (kk := fst (prune_loop (N.to_nat max_files_to_remove) (g_files g) (total_size g) tl)) in P |- *.
    destruct P as [A [B [C D]]]. repeat split; auto.
    intros _ K1 K2. specialize (D K1 K2). unfold total_size in D |- *. cbn [g_files g_head].
    rewrite (length_concat_firstn_skipn kk (g_files g)) in D. clearbody kk. clear k g'. unfold bytes in D |- *. lia.
Qed.


