(** C15 — SearchForEndHeight on a log in which any number of records are damaged in a way the decoder
    steps over (a checksum error: the length field is intact, so the decoder stays in step).  The log is
    a list of items: good records and damaged ones. *)
From Coq Require Import List ZArith NArith Bool Lia Arith Sorted.
From Kardia Require Import C15.Crc32c C15.ProofsCrc C15.Model C15.ProofsFrame C15.ProofsLog C15.ProofsGroup Generated.C15Facts.
Import ListNotations.

Inductive item := IGood (p : bytes) | IBad (b : bytes) (c : cclass).

Section Items.
  Variable crc : bytes -> N.
  Hypothesis crc_range : forall x, wf_bytes x -> (crc x < 4294967296)%N.
  Variable msg : Type.
  Variable deser : bytes -> option msg.
  Variable end_height : msg -> option Z.

  Notation frame := (frame crc).
  Notation decode := (decode crc msg deser).
  Notation scan := (scan crc msg deser end_height).
  Notation search_loop := (search_loop crc msg deser end_height).
  Notation search := (search crc msg deser end_height).
  Notation mark := (mark msg deser end_height).
  Notation goodp := (goodp msg deser).

  Definition ibytes (it : item) : bytes := match it with IGood p => frame p | IBad b _ => b end.
  Definition istream (its : list item) : bytes := concat (map ibytes its).
  Definition imark (it : item) : option Z := match it with IGood p => mark p | IBad _ _ => None end.
  Definition imarks (its : list item) : list Z :=
    flat_map (fun it => match imark it with Some x => [x] | None => [] end) its.
  Definition ipos_marks (its : list item) : list Z := filter (fun x => (0 <? x)%Z) (imarks its).

  (** a good record is a valid frame; a damaged one is reported as corruption class [c] by the group
      reader and stepped over, whatever follows it *)
  Definition iok (it : item) : Prop :=
    match it with
    | IGood p => goodp p
    | IBad b c => forall rest, decode RGroup (b ++ rest) = OCorrupt c rest
    end.

  Lemma istream_cons it its : istream (it :: its) = ibytes it ++ istream its.
  Proof. reflexivity. Qed.

  Lemma istream_app a b : istream (a ++ b) = istream a ++ istream b.
  Proof. unfold istream. rewrite map_app, concat_app. reflexivity. Qed.

  Lemma concat_map_istream chunks : concat (map istream chunks) = istream (concat chunks).
  Proof. induction chunks as [|c cs IH]; [reflexivity|]. cbn [map concat]. rewrite IH. symmetry. apply istream_app. Qed.

  Lemma ibytes_nonempty it : iok it -> 1 <= length (ibytes it).
  Proof.
    destruct it as [p|b c]; cbn [iok ibytes]; intro H.
    - rewrite frame_length. lia.
    - pose proof (decode_consumes crc crc_range msg deser RGroup (b ++ [])) as C. rewrite (H []) in C.
      rewrite app_length in C. cbn in C. lia.
  Qed.

  Lemma istream_length_ge its : Forall iok its -> length its <= length (istream its).
  Proof.
    induction 1 as [|it its H _ IH]; [cbn; lia|]. rewrite istream_cons, app_length.
    pose proof (ibytes_nonempty it H). cbn [length]. lia.
  Qed.

  Fixpoint scan_abs (h : Z) (ign : bool) (its : list item) (last : Z) : scan_res :=
    match its with
    | [] => if ((0 <? last) && (last <? h))%Z then ScStop else ScNext last
    | IGood p :: r =>
      match mark p with
      | Some x => if (x =? h)%Z then ScFound (istream r) else scan_abs h ign r x
      | None => scan_abs h ign r last
      end
    | IBad _ c :: r => if ign then scan_abs h ign r last else ScErr c
    end.

  Lemma scan_items h ign : forall its, Forall iok its -> forall f last,
    scan (length its + S f) h ign (istream its) last = scan_abs h ign its last.
  Proof.
    induction 1 as [|it its H _ IH]; intros f last.
    - cbn [length Nat.add Model.scan]. change (istream []) with (@nil N). rewrite (decode_nil crc crc_range). reflexivity.
    - cbn [length Nat.add Model.scan]. rewrite istream_cons. destruct it as [p|b c]; cbn [iok ibytes scan_abs] in *.
      + destruct H as [m G]. rewrite (decode_frame' crc crc_range msg deser RGroup p m _ G).
        unfold ProofsGroup.mark. destruct G as [D _]. rewrite D. destruct (end_height m) as [x|]; [|apply IH].
        destruct (x =? h)%Z; [reflexivity|apply IH].
      + rewrite H. destruct ign; [apply IH|reflexivity].
  Qed.

  Fixpoint search_abs (k : nat) (chunks : list (list item)) (h : Z) (ign : bool) (last : Z) : sres :=
    match k with
    | O => SNotFound
    | S k' =>
      match scan_abs h ign (concat (skipn k' chunks)) last with
      | ScFound rest => SFound rest
      | ScStop => SNotFound
      | ScErr c => SErr c
      | ScFuel => SFuel
      | ScNext l => search_abs k' chunks h ign l
      end
    end.

  Lemma search_loop_items h ign chunks : Forall iok (concat chunks) -> forall k last,
    search_loop k (map istream chunks) h ign last = search_abs k chunks h ign last.
  Proof.
    intros G. induction k as [|k IH]; intro last; [reflexivity|].
    cbn [Model.search_loop search_abs]. rewrite skipn_map', concat_map_istream.
    set (sfx := concat (skipn k chunks)).
    assert (Gs : Forall iok sfx) by (apply Forall_concat_skipn; exact G).
    pose proof (istream_length_ge sfx Gs) as L.
    replace (S (length (istream sfx))) with (length sfx + S (length (istream sfx) - length sfx)) by lia.
    rewrite scan_items by exact Gs.
    destruct (scan_abs h ign sfx last); auto.
  Qed.

  Lemma imarks_app a b : imarks (a ++ b) = imarks a ++ imarks b.
  Proof. unfold imarks. apply flat_map_app. Qed.

  Lemma imarks_cons it its : imarks (it :: its) = match imark it with Some x => [x] | None => [] end ++ imarks its.
  Proof. reflexivity. Qed.

  (** *** with IgnoreDataCorruptionErrors *)
  Lemma scan_abs_absent h : forall its last, ~ In h (imarks its) ->
    scan_abs h true its last = ScStop \/ exists l, scan_abs h true its last = ScNext l.
  Proof.
    induction its as [|it its IH]; intros last N; cbn [scan_abs].
    - destruct ((0 <? last) && (last <? h))%Z; eauto.
    - rewrite imarks_cons in N. destruct it as [p|b c]; cbn [imark] in N.
      + destruct (mark p) as [x|].
        * cbn in N. destruct (Z.eqb_spec x h); [tauto|]. apply IH. tauto.
        * apply IH. exact N.
      + apply IH. exact N.
  Qed.

  Lemma search_abs_absent h chunks : ~ In h (imarks (concat chunks)) -> forall k last,
    search_abs k chunks h true last = SNotFound.
  Proof.
    intros N. induction k as [|k IH]; intro last; [reflexivity|]. cbn [search_abs].
    assert (N' : ~ In h (imarks (concat (skipn k chunks)))).
    { intro I. apply N. rewrite <- (firstn_skipn k chunks), concat_app, imarks_app. apply in_or_app. auto. }
    destruct (scan_abs_absent h _ last N') as [E|[l E]]; rewrite E; auto.
  Qed.

  Lemma scan_abs_found h : forall pre p0 post last, ~ In h (imarks pre) -> mark p0 = Some h ->
    scan_abs h true (pre ++ IGood p0 :: post) last = ScFound (istream post).
  Proof.
    induction pre as [|it pre IH]; intros p0 post last N M; cbn [app scan_abs].
    - rewrite M, Z.eqb_refl. reflexivity.
    - rewrite imarks_cons in N. destruct it as [p|b c]; cbn [imark] in N.
      + destruct (mark p) as [x|].
        * cbn in N. destruct (Z.eqb_spec x h); [tauto|]. apply IH; tauto.
        * apply IH; auto.
      + apply IH; auto.
  Qed.

  Lemma scan_abs_later h : (0 < h)%Z -> forall its last,
    (forall x, In x (imarks its) -> (x <= 0 \/ h < x)%Z) ->
    (last <= 0 \/ h < last)%Z ->
    exists l, scan_abs h true its last = ScNext l /\ (l <= 0 \/ h < l)%Z.
  Proof.
    intro Hh. induction its as [|it its IH]; intros last A I; cbn [scan_abs].
    - assert (E : ((0 <? last) && (last <? h))%Z = false).
      { destruct I as [I|I]; apply andb_false_iff; [left|right]; apply Z.ltb_ge; lia. }
      rewrite E. eauto.
    - rewrite imarks_cons in A. destruct it as [p|b c]; cbn [imark] in A.
      + destruct (mark p) as [x|].
        * assert (x <= 0 \/ h < x)%Z by (apply A; apply in_or_app; left; left; reflexivity).
          destruct (Z.eqb_spec x h); [lia|]. apply IH; auto. intros y Hy. apply A. apply in_or_app. auto.
        * apply IH; auto.
      + apply IH; auto.
  Qed.

  Lemma search_abs_found h cs1 c0a p0 c0b cs2 :
    let chunks := cs1 ++ (c0a ++ IGood p0 :: c0b) :: cs2 in
    (0 < h)%Z -> StronglySorted Z.lt (ipos_marks (concat chunks)) -> mark p0 = Some h ->
    search_abs (length chunks) chunks h true (-1) = SFound (istream (c0b ++ concat cs2)).
  Proof.
    intros chunks Hh S M.
    assert (E : concat chunks = (concat cs1 ++ c0a) ++ IGood p0 :: (c0b ++ concat cs2)).
    { unfold chunks. rewrite concat_app. cbn. rewrite <- !app_assoc. reflexivity. }
    unfold ipos_marks in S. rewrite E, imarks_app, imarks_cons in S. cbn [imark] in S.
    rewrite M in S. cbn [app] in S.
    rewrite filter_app in S. cbn [filter] in S.
    assert (P : (0 <? h)%Z = true) by (apply Z.ltb_lt; exact Hh). rewrite P in S.
    apply sorted_split in S. destruct S as [S1 S2].
    assert (T1 : ~ In h (imarks (concat cs1 ++ c0a))).
    { intro Hin. assert (In h (filter (fun x => (0 <? x)%Z) (imarks (concat cs1 ++ c0a)))) by (apply filter_In; auto).
      apply S1 in H. lia. }
    assert (T2 : forall x, In x (imarks (c0b ++ concat cs2)) -> (x <= 0 \/ h < x)%Z).
    { intros x Hx. destruct (Z.ltb_spec 0 x) as [Px|Px]; [|left; lia]. right. apply S2. apply filter_In. split; auto.
      apply Z.ltb_lt. exact Px. }
    assert (G : forall j last, j <= length cs2 -> (last <= 0 \/ h < last)%Z ->
                search_abs (length cs1 + 1 + j) chunks h true last = SFound (istream (c0b ++ concat cs2))).
    { induction j as [|j IH]; intros last Lj I.
      - replace (length cs1 + 1 + 0) with (S (length cs1)) by lia. cbn [search_abs].
        unfold chunks. rewrite skipn_app, Nat.sub_diag, skipn_all. cbn [app skipn concat].
        rewrite <- app_assoc. cbn [app]. rewrite scan_abs_found; auto.
        intro Hin. apply T1. rewrite imarks_app. apply in_or_app. auto.
      - replace (length cs1 + 1 + S j) with (S (length cs1 + 1 + j)) by lia. cbn [search_abs].
        assert (Sk : skipn (length cs1 + 1 + j) chunks = skipn j cs2).
        { unfold chunks. rewrite skipn_app. rewrite skipn_all2 by lia. cbn [app].
          replace (length cs1 + 1 + j - length cs1) with (S j) by lia. reflexivity. }
        rewrite Sk.
        destruct (scan_abs_later h Hh (concat (skipn j cs2)) last) as [l [El Il]]; auto.
        { intros x Hx. apply T2. rewrite imarks_app. apply in_or_app. right.
          rewrite <- (firstn_skipn j cs2), concat_app, imarks_app. apply in_or_app. auto. }
        rewrite El. apply IH; auto. lia. }
    replace (length chunks) with (length cs1 + 1 + length cs2).
    - apply G; auto. left. lia.
    - unfold chunks. rewrite app_length. cbn. lia.
  Qed.

  Lemma scan_abs_present h : forall its last, In h (imarks its) -> exists rest, scan_abs h true its last = ScFound rest.
  Proof.
    induction its as [|it its IH]; intros last I; [destruct I|]. cbn [scan_abs].
    rewrite imarks_cons in I. destruct it as [p|b c]; cbn [imark] in I.
    - destruct (mark p) as [x|].
      + destruct (Z.eqb_spec x h); [eauto|]. apply IH. cbn in I. destruct I; [congruence|auto].
      + apply IH. exact I.
    - apply IH. exact I.
  Qed.

  Lemma scan_abs_nostop h ign : (h <= 0)%Z -> forall its last, scan_abs h ign its last <> ScStop.
  Proof.
    intro Hh. induction its as [|it its IH]; intros last; cbn [scan_abs].
    - destruct ((0 <? last) && (last <? h))%Z eqn:E; [|discriminate].
      apply andb_true_iff in E. destruct E as [E1 E2]. apply Z.ltb_lt in E1, E2. lia.
    - destruct it as [p|b c].
      + destruct (mark p) as [x|]; [destruct (x =? h)%Z; [discriminate|apply IH]|apply IH].
      + destruct ign; [apply IH|discriminate].
  Qed.

  Lemma search_abs_nonpos h chunks : (h <= 0)%Z -> In h (imarks (concat chunks)) ->
    forall k last, 1 <= k -> exists rest, search_abs k chunks h true last = SFound rest.
  Proof.
    intros Hh I. induction k as [|k IH]; intros last K; [lia|]. cbn [search_abs].
    destruct (in_dec Z.eq_dec h (imarks (concat (skipn k chunks)))) as [P|A].
    - destruct (scan_abs_present h _ last P) as [rest E]. rewrite E. eauto.
    - destruct (scan_abs_absent h _ last A) as [E|[l E]].
      + exfalso. eapply scan_abs_nostop; eauto.
      + rewrite E. destruct k as [|k]; [exfalso; apply A; exact I|]. apply IH. lia.
  Qed.

  (** *** without it: the same answer, or the error of a damaged record that lies on the way *)
  Definition bad_class (its : list item) (c : cclass) : Prop := exists b, In (IBad b c) its.

  Lemma scan_abs_strict h : forall its last,
    scan_abs h false its last = scan_abs h true its last \/
    exists c, bad_class its c /\ scan_abs h false its last = ScErr c.
  Proof.
    induction its as [|it its IH]; intros last; cbn [scan_abs]; [left; reflexivity|].
    assert (W : forall l, scan_abs h false its l = scan_abs h true its l \/
                          exists c, bad_class (it :: its) c /\ scan_abs h false its l = ScErr c).
    { intro l. destruct (IH l) as [E|[c [[b B] E]]]; [left; exact E|]. right. exists c. split; [exists b; right; exact B|exact E]. }
    destruct it as [p|b c].
    - destruct (mark p) as [x|]; [destruct (x =? h)%Z; [left; reflexivity|apply W]|apply W].
    - right. exists c. split; [exists b; left; reflexivity|reflexivity].
  Qed.

  Lemma search_abs_strict h chunks : forall k last,
    search_abs k chunks h false last = search_abs k chunks h true last \/
    exists c, bad_class (concat chunks) c /\ search_abs k chunks h false last = SErr c.
  Proof.
    induction k as [|k IH]; intro last; [left; reflexivity|]. cbn [search_abs].
    destruct (scan_abs_strict h (concat (skipn k chunks)) last) as [E|[c [[b B] E]]].
    - rewrite E. destruct (scan_abs h true (concat (skipn k chunks)) last); auto.
    - right. exists c. split.
      + exists b. rewrite <- (firstn_skipn k chunks), concat_app. apply in_or_app. right. exact B.
      + rewrite E. reflexivity.
  Qed.

  (** A group whose files are whole items (rotation happens between records; damage does not move the
      boundaries), every damaged record being one the decoder steps over, the POSITIVE markers of the
      intact records strictly increasing.  With IgnoreDataCorruptionErrors a positive height is found
      iff its marker record is intact, and the reader is positioned exactly after it (the rest of the
      log, damaged records included); non-positive heights are found iff present.  Without it the
      answer is the same, or the error class of a damaged record. *)
  Lemma search_damaged g chunks h :
    disk_files g = map istream chunks -> Forall iok (concat chunks) ->
    StronglySorted Z.lt (ipos_marks (concat chunks)) ->
    (forall pre p0 post, (0 < h)%Z -> concat chunks = pre ++ IGood p0 :: post -> mark p0 = Some h ->
       search g h true = SFound (istream post)) /\
    ((h <= 0)%Z -> In h (imarks (concat chunks)) -> exists rest, search g h true = SFound rest) /\
    (~ In h (imarks (concat chunks)) -> search g h true = SNotFound) /\
    (search g h false = search g h true \/ exists c, bad_class (concat chunks) c /\ search g h false = SErr c).
  Proof.
    intros D G S. unfold Model.search. rewrite D, map_length. rewrite !search_loop_items by exact G. repeat split.
    - intros pre p0 post Hh E M.
      destruct (concat_split chunks pre (IGood p0) post E) as [cs1 [c0a [c0b [cs2 [Q1 [Q2 Q3]]]]]].
      subst chunks post. apply search_abs_found; auto.
    - intros Hh I. apply search_abs_nonpos; auto. destruct chunks; [destruct I|cbn; lia].
    - intro N. apply search_abs_absent. exact N.
    - apply search_abs_strict.
  Qed.
End Items.
