(** C15 — tie of the model's size-limit tests, CRC/length comparisons, search tests, prune tests and
    index arithmetic to the Go SOURCE.
    [Generated/C15Source.v] is produced on every check by /verif/go2coq from /repo's working tree: the
    package constants maxMsgSizeBytes / maxFilesToRemove and every guard / integer expression of
    WALEncoder.Encode, WALDecoder.Decode, BaseWAL.SearchForEndHeight, BaseWAL.OnStart (consensus/wal.go),
    Group.checkHeadSizeLimit, Group.checkTotalSizeLimit, Group.readGroupInfo, filePathForIndex,
    GroupReader.Read and GroupReader.openFile (lib/autofile/group.go), as Gallina over [Z] with explicit
    machine-integer wraps (Base/GoSem.v).  The lemmas below say that C15/Model.v decides with exactly
    those expressions on exactly those operands (the [_atoms] lists name the Go operands and their
    types).  An edit of the Go source that changes a comparison, a constant or an operand changes the
    generated file and re-opens these obligations. *)
From Coq Require Import String List ZArith NArith Bool Lia Arith.
From Kardia Require Import Base.Int64 Base.GoSem.
From Kardia Require Import Generated.C15Source.
From Kardia Require Import Generated.C15Facts C15.Model C15.ProofsFrame.
Import ListNotations.
Local Open Scope Z_scope.

(** ** constants: what the facts translator prints is what the type checker evaluates *)
Lemma src_consts :
  consensus__maxMsgSizeBytes = Z.of_N max_msg_size_bytes /\ lib_autofile__maxFilesToRemove = Z.of_N max_files_to_remove.
Proof. split; reflexivity. Qed.

(** ** WALEncoder.Encode: [length := uint32(len(data)); if length > maxMsgSizeBytes] *)
Lemma src_enc_too_big (x : N) :
  (max_msg_size_bytes <? x)%N = consensus__WALEncoder_Encode__if_length_gt_maxMsgSizeBytes (Z.of_N x).
Proof.
  unfold consensus__WALEncoder_Encode__if_length_gt_maxMsgSizeBytes. rewrite Z.gtb_ltb.
  change 1048600 with (Z.of_N max_msg_size_bytes).
  destruct (N.ltb_spec max_msg_size_bytes x); destruct (Z.ltb_spec (Z.of_N max_msg_size_bytes) (Z.of_N x)); try reflexivity; lia.
Qed.

(** the model's [encode] IS that test, on the length taken as a uint32 *)
Lemma src_encode crc p :
  encode crc p = if consensus__WALEncoder_Encode__if_length_gt_maxMsgSizeBytes (Z.of_N (lenN p mod 4294967296))
                 then None else Some (frame crc p).
Proof. unfold encode. rewrite src_enc_too_big. reflexivity. Qed.

(** [totalLength := 8 + int(length)]: the size of the record the model writes *)
Lemma src_total_length crc p : Z.of_nat (List.length p) <= 4294967295 ->
  consensus__WALEncoder_Encode__set_totalLength (Z.of_nat (List.length p)) = Z.of_nat (List.length (frame crc p)).
Proof.
  intro H. unfold consensus__WALEncoder_Encode__set_totalLength, go_add, go_conv.
  rewrite (wrap_id I64 (Z.of_nat (List.length p))) by (unfold in_range; lia).
  rewrite wrap_id by (unfold in_range; lia). rewrite frame_length. lia.
Qed.

Lemma src_encode_atoms :
  consensus__WALEncoder_Encode__if_length_gt_maxMsgSizeBytes_atoms = ["length : uint32"]%string /\
  consensus__WALEncoder_Encode__set_totalLength_atoms = ["length : uint32"]%string.
Proof. split; reflexivity. Qed.

(** ** WALDecoder.Decode: [if length > maxMsgSizeBytes] before the allocation, [if actualCRC != crc] *)
Lemma src_dec_too_big (x : N) :
  (max_msg_size_bytes <? x)%N = consensus__WALDecoder_Decode__if_length_gt_maxMsgSizeBytes (Z.of_N x).
Proof. exact (src_enc_too_big x). Qed.

Lemma src_crc_ne (a b : N) :
  negb (a =? b)%N = consensus__WALDecoder_Decode__if_actualCRC_ne_crc (Z.of_N a) (Z.of_N b).
Proof.
  unfold consensus__WALDecoder_Decode__if_actualCRC_ne_crc, go_neqb. f_equal.
  destruct (N.eqb_spec a b); destruct (Z.eqb_spec (Z.of_N a) (Z.of_N b)); try reflexivity; lia.
Qed.

(** the model's [decode_full] takes exactly these two decisions, on the decoded length field and on
    (checksum of the data read, checksum field) *)
Lemma src_decode_too_big crc msg deser k c l rest :
  List.length c = 4%nat -> List.length l = 4%nat ->
  consensus__WALDecoder_Decode__if_length_gt_maxMsgSizeBytes (Z.of_N (of_be32 l)) = true ->
  decode_full crc msg deser k (c ++ l ++ rest) = (OCorrupt CTooBig rest, 0%N).
Proof.
  intros Lc Ll H. rewrite <- src_dec_too_big in H.
  destruct c as [|c1 [|c2 [|c3 [|c4 [|c5 t]]]]]; try discriminate Lc.
  destruct l as [|l1 [|l2 [|l3 [|l4 [|l5 t]]]]]; try discriminate Ll.
  unfold decode_full. cbn [app]. rewrite rd_4. rewrite rd_4. rewrite H. reflexivity.
Qed.

Lemma src_decode_crc crc msg deser k c l p rest :
  List.length c = 4%nat -> List.length l = 4%nat -> p <> [] -> N.to_nat (of_be32 l) = List.length p ->
  consensus__WALDecoder_Decode__if_length_gt_maxMsgSizeBytes (Z.of_N (of_be32 l)) = false ->
  decode_full crc msg deser k (c ++ l ++ p ++ rest) =
    if consensus__WALDecoder_Decode__if_actualCRC_ne_crc (Z.of_N (crc p)) (Z.of_N (of_be32 c))
    then (OCorrupt CCrc rest, of_be32 l)
    else match deser p with Some m => (OMsg m rest, of_be32 l) | None => (OCorrupt CDecode rest, of_be32 l) end.
Proof.
  intros Lc Ll NE Lp H. rewrite <- src_dec_too_big in H. rewrite <- src_crc_ne.
  destruct c as [|c1 [|c2 [|c3 [|c4 [|c5 t]]]]]; try discriminate Lc.
  destruct l as [|l1 [|l2 [|l3 [|l4 [|l5 t]]]]]; try discriminate Ll.
  unfold decode_full. cbn [app]. rewrite rd_4. rewrite rd_4. rewrite H, Lp, (rd_full k p rest NE).
  destruct (crc p =? of_be32 [c1; c2; c3; c4])%N; reflexivity.
Qed.

Lemma src_decode_atoms :
  consensus__WALDecoder_Decode__if_length_gt_maxMsgSizeBytes_atoms = ["length : uint32"]%string /\
  consensus__WALDecoder_Decode__if_actualCRC_ne_crc_atoms = ["actualCRC : uint32"; "crc : uint32"]%string.
Proof. split; reflexivity. Qed.

(** ** BaseWAL.SearchForEndHeight *)
(** the early exit at the end of a file: [lastHeightFound > 0 && lastHeightFound < height] *)
Lemma src_early_exit last h :
  ((0 <? last) && (last <? h))%bool =
  consensus__BaseWAL_SearchForEndHeight__if_lastHeightFound_gt_0_and_lastHeightFound_lt_height last h.
Proof.
  unfold consensus__BaseWAL_SearchForEndHeight__if_lastHeightFound_gt_0_and_lastHeightFound_lt_height.
  rewrite Z.gtb_ltb. reflexivity.
Qed.

(** the model's [scan] at end of log IS that test *)
Lemma src_scan_eof crc msg deser eh f h ign last :
  scan crc msg deser eh (S f) h ign [] last =
  if consensus__BaseWAL_SearchForEndHeight__if_lastHeightFound_gt_0_and_lastHeightFound_lt_height last h
  then ScStop else ScNext last.
Proof. rewrite <- src_early_exit. reflexivity. Qed.

(** found: [m.Height == height] *)
Lemma src_found x h : (x =? h) = consensus__BaseWAL_SearchForEndHeight__if_m_Height_eq_height x h.
Proof. reflexivity. Qed.

(** a corrupted entry is skipped iff [options.IgnoreDataCorruptionErrors && IsDataCorruptionError(err)];
    every corruption outcome of the model's decoder is a DataCorruptionError *)
Lemma src_ignore ign :
  consensus__BaseWAL_SearchForEndHeight__if_options_IgnoreDataCorruptionErrors_and_IsDataCorruptionError_err ign true = ign.
Proof. apply andb_true_r. Qed.

(** [for index := max; index >= min; index--]: iteration j (from 0) runs iff there is a j-th file from
    the head backwards — the model's [search_loop] runs [length (disk_files g)] times *)
Lemma src_search_loop_bound g j :
  consensus__BaseWAL_SearchForEndHeight__for_index_ge_min (Z.of_nat (max_index g) - Z.of_nat j) (Z.of_nat (g_min g))
  = Nat.ltb j (List.length (disk_files g)).
Proof.
  unfold consensus__BaseWAL_SearchForEndHeight__for_index_ge_min, max_index, disk_files.
  rewrite Z.geb_leb, app_length. cbn [List.length].
  destruct (Z.leb_spec (Z.of_nat (g_min g)) (Z.of_nat (g_min g + List.length (g_files g)) - Z.of_nat j));
    destruct (Nat.ltb_spec j (List.length (g_files g) + 1)); try reflexivity; lia.
Qed.

Lemma src_search_atoms :
  consensus__BaseWAL_SearchForEndHeight__if_lastHeightFound_gt_0_and_lastHeightFound_lt_height_atoms
    = ["lastHeightFound : int64"; "height : int64"]%string /\
  consensus__BaseWAL_SearchForEndHeight__if_m_Height_eq_height_atoms = ["m.Height : int64"; "height : int64"]%string /\
  consensus__BaseWAL_SearchForEndHeight__for_index_ge_min_atoms = ["index : int"; "min : int"]%string /\
  consensus__BaseWAL_SearchForEndHeight__if_options_IgnoreDataCorruptionErrors_and_IsDataCorruptionError_err_atoms
    = ["options.IgnoreDataCorruptionErrors : bool"; "IsDataCorruptionError(err) : bool"]%string.
Proof. repeat split; reflexivity. Qed.

(** ** BaseWAL.OnStart: the height-0 marker is written iff [size == 0] (size of the head file) *)
Lemma src_onstart crc g p0 :
  let g1 := reopen (group_flush g) in
  wal_start crc g p0 =
  if consensus__BaseWAL_OnStart__if_size_eq_0 (Z.of_nat (List.length (g_head g1)))
  then wal_write_sync crc g1 p0 else (g1, WOk).
Proof.
  intro g1. unfold wal_start. fold g1. unfold consensus__BaseWAL_OnStart__if_size_eq_0.
  destruct (g_head g1); reflexivity.
Qed.
Lemma src_onstart_atoms : consensus__BaseWAL_OnStart__if_size_eq_0_atoms = ["size : int64"]%string.
Proof. reflexivity. Qed.

(** ** Group.checkHeadSizeLimit: [limit == 0] switches it off, rotation iff [size >= limit] *)
Lemma src_check_head g :
  check_head_size_limit g =
  if lib_autofile__Group_checkHeadSizeLimit__if_limit_eq_0 (g_limit g) then g
  else if lib_autofile__Group_checkHeadSizeLimit__if_size_ge_limit (Z.of_nat (List.length (g_head g))) (g_limit g)
       then group_rotate g else g.
Proof.
  unfold check_head_size_limit, lib_autofile__Group_checkHeadSizeLimit__if_limit_eq_0,
    lib_autofile__Group_checkHeadSizeLimit__if_size_ge_limit.
  rewrite Z.geb_leb. reflexivity.
Qed.
Lemma src_check_head_atoms :
  lib_autofile__Group_checkHeadSizeLimit__if_limit_eq_0_atoms = ["limit : int64"]%string /\
  lib_autofile__Group_checkHeadSizeLimit__if_size_ge_limit_atoms = ["size : int64"; "limit : int64"]%string.
Proof. split; reflexivity. Qed.

(** ** Group.checkTotalSizeLimit *)
(** [limit == 0] switches it off; the loop runs [i < maxFilesToRemove] times *)
Lemma src_prune_off tl g :
  pruned_count tl g =
  if lib_autofile__Group_checkTotalSizeLimit__if_limit_eq_0 tl then O
  else fst (prune_loop (N.to_nat max_files_to_remove) (g_files g) (total_size g) tl).
Proof. reflexivity. Qed.

Lemma src_prune_fuel (i : nat) :
  lib_autofile__Group_checkTotalSizeLimit__for_i_lt_maxFilesToRemove (Z.of_nat i) = Nat.ltb i (N.to_nat max_files_to_remove).
Proof.
  unfold lib_autofile__Group_checkTotalSizeLimit__for_i_lt_maxFilesToRemove.
  change 4 with (Z.of_nat (N.to_nat max_files_to_remove)).
  destruct (Z.ltb_spec (Z.of_nat i) (Z.of_nat (N.to_nat max_files_to_remove)));
    destruct (Nat.ltb_spec i (N.to_nat max_files_to_remove)); try reflexivity; lia.
Qed.

(** one turn of the loop: stop when [totalSize < limit]; stop when [index == gInfo.MaxIndex] (only the
    head is left: no rotated file remains); otherwise the oldest file goes and
    [totalSize -= fInfo.Size()] — the model's [prune_loop] step by step *)
Lemma src_prune_step i fs total limit :
  in_range I64 total -> (forall f, In f fs -> Z.of_nat (List.length f) <= total) -> 0 <= total ->
  prune_loop (S i) fs total limit =
  if lib_autofile__Group_checkTotalSizeLimit__if_totalSize_lt_limit total limit then (O, fs)
  else match fs with
       | [] => (O, [])
       | f :: r =>
         let '(k, fs') := prune_loop i r (lib_autofile__Group_checkTotalSizeLimit__set_totalSize_op total (Z.of_nat (List.length f))) limit in
         (S k, fs')
       end.
Proof.
  intros R B P. cbn [prune_loop]. unfold lib_autofile__Group_checkTotalSizeLimit__if_totalSize_lt_limit.
  destruct (total <? limit); [reflexivity|]. destruct fs as [|f r]; [reflexivity|].
  unfold lib_autofile__Group_checkTotalSizeLimit__set_totalSize_op, go_sub.
  rewrite wrap_id; [reflexivity|]. specialize (B f (or_introl eq_refl)). unfold in_range in *. lia.
Qed.

(** [index := gInfo.MinIndex + i; index == gInfo.MaxIndex]: after [i] removals the next candidate is the
    head exactly when no rotated file is left *)
Lemma src_prune_head g (i : nat) :
  Z.of_nat (max_index g) <= 9223372036854775807 -> (i <= List.length (g_files g))%nat ->
  lib_autofile__Group_checkTotalSizeLimit__if_index_eq_gInfo_MaxIndex
    (lib_autofile__Group_checkTotalSizeLimit__set_index (Z.of_nat (g_min g)) (Z.of_nat i)) (Z.of_nat (max_index g))
  = match skipn i (g_files g) with [] => true | _ => false end.
Proof.
  intros R Hi. unfold lib_autofile__Group_checkTotalSizeLimit__if_index_eq_gInfo_MaxIndex,
    lib_autofile__Group_checkTotalSizeLimit__set_index, go_add, max_index in *.
  rewrite wrap_id by (unfold in_range; lia).
  destruct (skipn i (g_files g)) as [|x t] eqn:E.
  - assert (List.length (skipn i (g_files g)) = O) by (rewrite E; reflexivity). rewrite skipn_length in H.
    apply Z.eqb_eq. lia.
  - assert (List.length (skipn i (g_files g)) <> O) by (rewrite E; discriminate). rewrite skipn_length in H.
    apply Z.eqb_neq. lia.
Qed.

Lemma src_prune_atoms :
  lib_autofile__Group_checkTotalSizeLimit__if_limit_eq_0_atoms = ["limit : int64"]%string /\
  lib_autofile__Group_checkTotalSizeLimit__for_i_lt_maxFilesToRemove_atoms = ["i : int"]%string /\
  lib_autofile__Group_checkTotalSizeLimit__set_index_atoms = ["gInfo.MinIndex : int"; "i : int"]%string /\
  lib_autofile__Group_checkTotalSizeLimit__if_totalSize_lt_limit_atoms = ["totalSize : int64"; "limit : int64"]%string /\
  lib_autofile__Group_checkTotalSizeLimit__if_index_eq_gInfo_MaxIndex_atoms = ["index : int"; "gInfo.MaxIndex : int"]%string /\
  lib_autofile__Group_checkTotalSizeLimit__set_totalSize_op_atoms = ["totalSize : int64"; "fInfo.Size() : int64"]%string.
Proof. repeat split; reflexivity. Qed.

(** ** Group.readGroupInfo (OpenGroup): the running minimum / maximum over the numbered files, with
    the sentinel -1, whatever order the directory lists them in; [minIndex == -1]: no numbered file *)
Definition min_step (m f : Z) : Z :=
  if lib_autofile__Group_readGroupInfo__if_minIndex_eq_minus_1_or_fileIndex_lt_minIndex m f then f else m.
Definition max_step (m f : Z) : Z :=
  if lib_autofile__Group_readGroupInfo__if_maxIndex_lt_fileIndex m f then f else m.

Lemma src_min_fold : forall (l : list Z) (m0 : Z),
  (forall x, In x l -> 0 <= x) -> (m0 = -1 \/ 0 <= m0) ->
  let m := fold_left min_step l m0 in
  (m = -1 <-> (l = [] /\ m0 = -1)) /\
  (m <> -1 -> (In m l \/ m = m0) /\ (forall x, In x l -> m <= x) /\ (m0 <> -1 -> m <= m0)).
Proof.
  induction l as [|f l IH]; intros m0 P H0; cbn [fold_left].
  - split; [tauto|]. intro N. split; [right; reflexivity|]. split; [intros x []|intros; lia].
  - assert (Pf : 0 <= f) by (apply P; left; reflexivity).
    assert (Pl : forall x, In x l -> 0 <= x) by (intros x I; apply P; right; exact I).
    assert (S : min_step m0 f = f /\ (m0 = -1 \/ f < m0) \/ min_step m0 f = m0 /\ m0 <> -1 /\ m0 <= f).
    { unfold min_step, lib_autofile__Group_readGroupInfo__if_minIndex_eq_minus_1_or_fileIndex_lt_minIndex.
      destruct (Z.eqb_spec m0 (-1)); cbn [orb]; [left; auto|]. destruct (Z.ltb_spec f m0); [left; auto|right; auto]. }
    destruct S as [[E C]|[E [C1 C2]]]; rewrite E.
    + destruct (IH f Pl (or_intror Pf)) as [I1 I2]. cbv zeta in *. split.
      * split; [intro Q; apply I1 in Q; lia|intros [Q _]; discriminate Q].
      * intro N. destruct (I2 N) as [A [B C']]. repeat split.
        { destruct A as [A|A]; [left; right; exact A|left; left; symmetry; exact A]. }
        { intros x [<-|I]; [apply C'; lia|apply B; exact I]. }
        { intro M. assert (fold_left min_step l f <= f) by (apply C'; lia). lia. }
    + destruct (IH m0 Pl H0) as [I1 I2]. cbv zeta in *. split.
      * split; [intro Q; apply I1 in Q; lia|intros [Q _]; discriminate Q].
      * intro N. destruct (I2 N) as [A [B C']]. repeat split.
        { destruct A as [A|A]; [left; right; exact A|right; exact A]. }
        { intros x [<-|I]; [specialize (C' C1); lia|apply B; exact I]. }
        { intro M. apply C'. exact M. }
Qed.

Lemma src_max_fold : forall (l : list Z) (m0 : Z),
  let m := fold_left max_step l m0 in
  (In m l \/ m = m0) /\ (forall x, In x l -> x <= m) /\ m0 <= m.
Proof.
  induction l as [|f l IH]; intros m0; cbn [fold_left].
  - repeat split; auto; try lia. intros x [].
  - assert (S : max_step m0 f = f /\ m0 < f \/ max_step m0 f = m0 /\ f <= m0).
    { unfold max_step, lib_autofile__Group_readGroupInfo__if_maxIndex_lt_fileIndex. destruct (Z.ltb_spec m0 f); auto. }
    destruct S as [[E C]|[E C]]; rewrite E.
    + destruct (IH f) as [A [B D]]. cbv zeta in *. repeat split.
      * destruct A as [A|A]; [left; right; exact A|left; left; symmetry; exact A].
      * intros x [<-|I]; [exact D|apply B; exact I].
      * lia.
    + destruct (IH m0) as [A [B D]]. cbv zeta in *. repeat split.
      * destruct A as [A|A]; [left; right; exact A|right; exact A].
      * intros x [<-|I]; [lia|apply B; exact I].
      * exact D.
Qed.

(** on the numbered files of the model's group (indices g_min .. g_min + #files - 1, in any order):
    readGroupInfo finds [g_min] and, after its [maxIndex++] for the head, [max_index]; with no numbered
    file both stay -1 and the head becomes index 0 ([reopen]) *)
Lemma src_read_group_info g (names : list Z) :
  (forall x, In x names <-> exists j, (j < List.length (g_files g))%nat /\ x = Z.of_nat (g_min g + j)) ->
  let mn := fold_left min_step names (-1) in
  let mx := fold_left max_step names (-1) in
  (lib_autofile__Group_readGroupInfo__if_minIndex_eq_minus_1 mn = true <-> g_files g = []) /\
  (g_files g <> [] -> mn = Z.of_nat (g_min g) /\ mx + 1 = Z.of_nat (max_index g)).
Proof.
  intros N mn mx.
  assert (P : forall x, In x names -> 0 <= x) by (intros x I; apply N in I; destruct I as [j [_ ->]]; lia).
  destruct (src_min_fold names (-1) P (or_introl eq_refl)) as [M1 M2]. fold mn in M1, M2.
  assert (E0 : names = [] <-> g_files g = []).
  { split; intro E.
    - destruct (g_files g) as [|f fs] eqn:F; [reflexivity|]. exfalso.
      assert (I : In (Z.of_nat (g_min g + 0)) names) by (apply N; exists O; split; [cbn; lia|reflexivity]).
      rewrite E in I. exact I.
    - destruct names as [|x t]; [reflexivity|]. exfalso.
      assert (I : In x (x :: t)) by (left; reflexivity). apply N in I. destruct I as [j [Lj _]]. rewrite E in Lj. cbn in Lj. lia. }
  split.
  - unfold lib_autofile__Group_readGroupInfo__if_minIndex_eq_minus_1. rewrite Z.eqb_eq. rewrite M1. tauto.
  - intro NE. assert (NN : names <> []) by (intro Q; apply NE, E0, Q).
    assert (Mn : mn <> -1) by (intro Q; apply M1 in Q; tauto).
    destruct (M2 Mn) as [A [B _]].
    assert (L : (0 < List.length (g_files g))%nat) by (destruct (g_files g); [congruence|cbn; lia]).
    split.
    + destruct A as [A|A]; [|congruence]. apply N in A. destruct A as [j [Lj Ej]].
      assert (I0 : In (Z.of_nat (g_min g + 0)) names) by (apply N; exists O; split; [exact L|reflexivity]).
      apply B in I0. lia.
    + destruct (src_max_fold names (-1)) as [A' [B' _]]. fold mx in A', B'. unfold max_index.
      assert (Il : In (Z.of_nat (g_min g + (List.length (g_files g) - 1))) names)
        by (apply N; exists (List.length (g_files g) - 1)%nat; split; [lia|reflexivity]).
      apply B' in Il. destruct A' as [A'|A']; [|lia]. apply N in A'. destruct A' as [j [Lj Ej]]. lia.
Qed.

Lemma src_read_group_info_atoms :
  lib_autofile__Group_readGroupInfo__if_minIndex_eq_minus_1_or_fileIndex_lt_minIndex_atoms = ["minIndex : int"; "fileIndex : int"]%string /\
  lib_autofile__Group_readGroupInfo__if_maxIndex_lt_fileIndex_atoms = ["maxIndex : int"; "fileIndex : int"]%string /\
  lib_autofile__Group_readGroupInfo__if_minIndex_eq_minus_1_atoms = ["minIndex : int"]%string /\
  lib_autofile__Group_readGroupInfo__set_totalSize_op_atoms = ["totalSize : int64"; "fileSize : int64"]%string /\
  lib_autofile__Group_readGroupInfo__set_totalSize_op_2_atoms = ["totalSize : int64"; "fileSize : int64"]%string.
Proof. repeat split; reflexivity. Qed.

(** TotalSize is the int64 sum of the sizes of the head and of the other files *)
Lemma src_total_add t s :
  lib_autofile__Group_readGroupInfo__set_totalSize_op t s = wrap64 (t + s) /\
  lib_autofile__Group_readGroupInfo__set_totalSize_op_2 t s = wrap64 (t + s).
Proof. split; reflexivity. Qed.

(** ** filePathForIndex / GroupReader: index == maxIndex names the head (the last of [disk_files]);
    an index above it is end-of-log; a zero-length buffer is an error *)
Lemma src_head_index g (i : nat) : (g_min g <= i)%nat ->
  lib_autofile__filePathForIndex__if_index_eq_maxIndex (Z.of_nat i) (Z.of_nat (max_index g))
  = Nat.eqb (S (i - g_min g)) (List.length (disk_files g)).
Proof.
  intro H. unfold lib_autofile__filePathForIndex__if_index_eq_maxIndex, max_index, disk_files.
  rewrite app_length. cbn [List.length].
  destruct (Z.eqb_spec (Z.of_nat i) (Z.of_nat (g_min g + List.length (g_files g))));
    destruct (Nat.eqb_spec (S (i - g_min g)) (List.length (g_files g) + 1)); try reflexivity; lia.
Qed.

Lemma src_open_past_end g (i : nat) : (g_min g <= i)%nat ->
  lib_autofile__GroupReader_openFile__if_index_gt_gr_Group_maxIndex (Z.of_nat i) (Z.of_nat (max_index g))
  = match skipn (i - g_min g) (disk_files g) with [] => true | _ => false end.
Proof.
  intro H. unfold lib_autofile__GroupReader_openFile__if_index_gt_gr_Group_maxIndex, max_index, disk_files.
  rewrite Z.gtb_ltb.
  destruct (skipn (i - g_min g) (g_files g ++ [g_head g])) as [|x t] eqn:E.
  - assert (L : List.length (skipn (i - g_min g) (g_files g ++ [g_head g])) = O) by (rewrite E; reflexivity).
    rewrite skipn_length, app_length in L. cbn [List.length] in L. apply Z.ltb_lt. lia.
  - assert (L : List.length (skipn (i - g_min g) (g_files g ++ [g_head g])) <> O) by (rewrite E; discriminate).
    rewrite skipn_length, app_length in L. cbn [List.length] in L. apply Z.ltb_ge. lia.
Qed.

Lemma src_read_empty (n : nat) bs :
  lib_autofile__GroupReader_Read__if_lenP_eq_0 (Z.of_nat n) = true <-> snd (rd RGroup n bs) = RErrEmpty.
Proof.
  unfold lib_autofile__GroupReader_Read__if_lenP_eq_0. destruct n as [|n].
  - cbn. tauto.
  - cbn [rd]. split; [rewrite Z.eqb_eq; lia|]. destruct (shorter bs (S n)); discriminate.
Qed.

Lemma src_reader_atoms :
  lib_autofile__filePathForIndex__if_index_eq_maxIndex_atoms = ["index : int"; "maxIndex : int"]%string /\
  lib_autofile__GroupReader_openFile__if_index_gt_gr_Group_maxIndex_atoms = ["index : int"; "gr.Group.maxIndex : int"]%string /\
  lib_autofile__GroupReader_Read__if_lenP_eq_0_atoms = ["lenP : int"]%string /\
  lib_autofile__GroupReader_Read__if_n_ge_lenP_atoms = ["n : int"; "lenP : int"]%string /\
  lib_autofile__GroupReader_Read__set_n_op_atoms = ["n : int"; "nn : int"]%string.
Proof. repeat split; reflexivity. Qed.

(** the read loop fills the buffer: it returns once [n >= lenP], [n] growing by [n += nn] *)
Lemma src_read_full n nn lenP :
  lib_autofile__GroupReader_Read__if_n_ge_lenP n lenP = (lenP <=? n) /\
  lib_autofile__GroupReader_Read__set_n_op n nn = wrap64 (n + nn).
Proof. split; [apply Z.geb_leb|reflexivity]. Qed.

(** ** the whole tie, as one statement (quoted by Properties.v) *)
Definition C15_source_tie_statement : Prop :=
  (consensus__maxMsgSizeBytes = Z.of_N max_msg_size_bytes /\ lib_autofile__maxFilesToRemove = Z.of_N max_files_to_remove)
  (* Encode *)
  /\ (forall crc p, encode crc p = if consensus__WALEncoder_Encode__if_length_gt_maxMsgSizeBytes (Z.of_N (lenN p mod 4294967296))
                                   then None else Some (frame crc p))
  /\ (forall crc p, Z.of_nat (List.length p) <= 4294967295 ->
        consensus__WALEncoder_Encode__set_totalLength (Z.of_nat (List.length p)) = Z.of_nat (List.length (frame crc p)))
  (* Decode *)
  /\ (forall crc msg deser k c l rest, List.length c = 4%nat -> List.length l = 4%nat ->
        consensus__WALDecoder_Decode__if_length_gt_maxMsgSizeBytes (Z.of_N (of_be32 l)) = true ->
        decode_full crc msg deser k (c ++ l ++ rest) = (OCorrupt CTooBig rest, 0%N))
  /\ (forall crc msg deser k c l p rest,
        List.length c = 4%nat -> List.length l = 4%nat -> p <> [] -> N.to_nat (of_be32 l) = List.length p ->
        consensus__WALDecoder_Decode__if_length_gt_maxMsgSizeBytes (Z.of_N (of_be32 l)) = false ->
        decode_full crc msg deser k (c ++ l ++ p ++ rest) =
          if consensus__WALDecoder_Decode__if_actualCRC_ne_crc (Z.of_N (crc p)) (Z.of_N (of_be32 c))
          then (OCorrupt CCrc rest, of_be32 l)
          else match deser p with Some m => (OMsg m rest, of_be32 l) | None => (OCorrupt CDecode rest, of_be32 l) end)
  (* SearchForEndHeight *)
  /\ (forall crc msg deser eh f h ign last,
        scan crc msg deser eh (S f) h ign [] last =
        if consensus__BaseWAL_SearchForEndHeight__if_lastHeightFound_gt_0_and_lastHeightFound_lt_height last h
        then ScStop else ScNext last)
  /\ (forall x h, (x =? h) = consensus__BaseWAL_SearchForEndHeight__if_m_Height_eq_height x h)
  /\ (forall ign, consensus__BaseWAL_SearchForEndHeight__if_options_IgnoreDataCorruptionErrors_and_IsDataCorruptionError_err ign true = ign)
  /\ (forall g j, consensus__BaseWAL_SearchForEndHeight__for_index_ge_min (Z.of_nat (max_index g) - Z.of_nat j) (Z.of_nat (g_min g))
                  = Nat.ltb j (List.length (disk_files g)))
  (* OnStart *)
  /\ (forall crc g p0, let g1 := reopen (group_flush g) in
        wal_start crc g p0 = if consensus__BaseWAL_OnStart__if_size_eq_0 (Z.of_nat (List.length (g_head g1)))
                             then wal_write_sync crc g1 p0 else (g1, WOk))
  (* checkHeadSizeLimit *)
  /\ (forall g, check_head_size_limit g =
        if lib_autofile__Group_checkHeadSizeLimit__if_limit_eq_0 (g_limit g) then g
        else if lib_autofile__Group_checkHeadSizeLimit__if_size_ge_limit (Z.of_nat (List.length (g_head g))) (g_limit g)
             then group_rotate g else g)
  (* checkTotalSizeLimit *)
  /\ (forall tl g, pruned_count tl g =
        if lib_autofile__Group_checkTotalSizeLimit__if_limit_eq_0 tl then O
        else fst (prune_loop (N.to_nat max_files_to_remove) (g_files g) (total_size g) tl))
  /\ (forall i : nat, lib_autofile__Group_checkTotalSizeLimit__for_i_lt_maxFilesToRemove (Z.of_nat i)
                      = Nat.ltb i (N.to_nat max_files_to_remove))
  /\ (forall i fs total limit,
        in_range I64 total -> (forall f, In f fs -> Z.of_nat (List.length f) <= total) -> 0 <= total ->
        prune_loop (S i) fs total limit =
        if lib_autofile__Group_checkTotalSizeLimit__if_totalSize_lt_limit total limit then (O, fs)
        else match fs with
             | [] => (O, [])
             | f :: r =>
               let '(k, fs') := prune_loop i r (lib_autofile__Group_checkTotalSizeLimit__set_totalSize_op total (Z.of_nat (List.length f))) limit in
               (S k, fs')
             end)
  /\ (forall g (i : nat), Z.of_nat (max_index g) <= 9223372036854775807 -> (i <= List.length (g_files g))%nat ->
        lib_autofile__Group_checkTotalSizeLimit__if_index_eq_gInfo_MaxIndex
          (lib_autofile__Group_checkTotalSizeLimit__set_index (Z.of_nat (g_min g)) (Z.of_nat i)) (Z.of_nat (max_index g))
        = match skipn i (g_files g) with [] => true | _ => false end)
  (* readGroupInfo *)
  /\ (forall g (names : list Z),
        (forall x, In x names <-> exists j, (j < List.length (g_files g))%nat /\ x = Z.of_nat (g_min g + j)) ->
        let mn := fold_left min_step names (-1) in
        let mx := fold_left max_step names (-1) in
        (lib_autofile__Group_readGroupInfo__if_minIndex_eq_minus_1 mn = true <-> g_files g = []) /\
        (g_files g <> [] -> mn = Z.of_nat (g_min g) /\ mx + 1 = Z.of_nat (max_index g)))
  (* readers *)
  /\ (forall g (i : nat), (g_min g <= i)%nat ->
        lib_autofile__filePathForIndex__if_index_eq_maxIndex (Z.of_nat i) (Z.of_nat (max_index g))
        = Nat.eqb (S (i - g_min g)) (List.length (disk_files g)))
  /\ (forall g (i : nat), (g_min g <= i)%nat ->
        lib_autofile__GroupReader_openFile__if_index_gt_gr_Group_maxIndex (Z.of_nat i) (Z.of_nat (max_index g))
        = match skipn (i - g_min g) (disk_files g) with [] => true | _ => false end)
  /\ (forall (n : nat) bs, lib_autofile__GroupReader_Read__if_lenP_eq_0 (Z.of_nat n) = true <-> snd (rd RGroup n bs) = RErrEmpty)
  /\ (forall n lenP, lib_autofile__GroupReader_Read__if_n_ge_lenP n lenP = (lenP <=? n))
  (* what is compared, not only how *)
  /\ (consensus__WALEncoder_Encode__if_length_gt_maxMsgSizeBytes_atoms = ["length : uint32"]%string
      /\ consensus__WALDecoder_Decode__if_length_gt_maxMsgSizeBytes_atoms = ["length : uint32"]%string
      /\ consensus__WALDecoder_Decode__if_actualCRC_ne_crc_atoms = ["actualCRC : uint32"; "crc : uint32"]%string
      /\ consensus__BaseWAL_SearchForEndHeight__if_lastHeightFound_gt_0_and_lastHeightFound_lt_height_atoms
           = ["lastHeightFound : int64"; "height : int64"]%string
      /\ consensus__BaseWAL_SearchForEndHeight__if_m_Height_eq_height_atoms = ["m.Height : int64"; "height : int64"]%string
      /\ consensus__BaseWAL_SearchForEndHeight__for_index_ge_min_atoms = ["index : int"; "min : int"]%string
      /\ consensus__BaseWAL_OnStart__if_size_eq_0_atoms = ["size : int64"]%string
      /\ lib_autofile__Group_checkHeadSizeLimit__if_size_ge_limit_atoms = ["size : int64"; "limit : int64"]%string
      /\ lib_autofile__Group_checkTotalSizeLimit__if_totalSize_lt_limit_atoms = ["totalSize : int64"; "limit : int64"]%string
      /\ lib_autofile__Group_checkTotalSizeLimit__set_index_atoms = ["gInfo.MinIndex : int"; "i : int"]%string
      /\ lib_autofile__Group_checkTotalSizeLimit__if_index_eq_gInfo_MaxIndex_atoms = ["index : int"; "gInfo.MaxIndex : int"]%string
      /\ lib_autofile__Group_checkTotalSizeLimit__set_totalSize_op_atoms = ["totalSize : int64"; "fInfo.Size() : int64"]%string
      /\ lib_autofile__Group_readGroupInfo__if_minIndex_eq_minus_1_or_fileIndex_lt_minIndex_atoms = ["minIndex : int"; "fileIndex : int"]%string
      /\ lib_autofile__Group_readGroupInfo__if_maxIndex_lt_fileIndex_atoms = ["maxIndex : int"; "fileIndex : int"]%string
      /\ lib_autofile__GroupReader_openFile__if_index_gt_gr_Group_maxIndex_atoms = ["index : int"; "gr.Group.maxIndex : int"]%string
      /\ lib_autofile__GroupReader_Read__if_lenP_eq_0_atoms = ["lenP : int"]%string).

Lemma C15_source_tie_proof : C15_source_tie_statement.
Proof.
  unfold C15_source_tie_statement.
  split; [exact src_consts|]. split; [exact src_encode|]. split; [exact src_total_length|].
  split; [exact src_decode_too_big|]. split; [exact src_decode_crc|].
  split; [exact src_scan_eof|]. split; [exact src_found|]. split; [exact src_ignore|]. split; [exact src_search_loop_bound|].
  split; [exact src_onstart|]. split; [exact src_check_head|].
  split; [exact src_prune_off|]. split; [exact src_prune_fuel|]. split; [exact src_prune_step|]. split; [exact src_prune_head|].
  split; [exact src_read_group_info|].
  split; [exact src_head_index|]. split; [exact src_open_past_end|]. split; [exact src_read_empty|].
  split; [intros n lenP; apply Z.geb_leb|].
  repeat split; reflexivity.
Qed.
