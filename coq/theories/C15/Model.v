(** C15 — consensus write-ahead log: framing, decoder, file group with rotation,
    SearchForEndHeight, repairWalFile.  Transcribed from
      consensus/wal.go      WALEncoder.Encode, WALDecoder.Decode, BaseWAL.Write/WriteSync/SearchForEndHeight
      consensus/state.go    repairWalFile
      lib/autofile/group.go Group.Write (bufio.Writer), FlushAndSync, checkHeadSizeLimit, RotateFile,
                            checkTotalSizeLimit, readGroupInfo (OpenGroup), GroupReader.Read (across files)
      consensus/state.go    the repair steps of ConsensusState.OnStart (backup by copy, repair in place)
    No proofs in this file.

    Bytes are [N] below 256.  Payload (de)serialisation ([WALToProto]+[proto.Marshal] and
    [proto.Unmarshal]+[WALFromProto]) is abstract: section variables [ser]/[deser]; the only
    structure the WAL itself looks at is whether a message is an [EndHeightMessage] ([end_height]). *)
From Coq Require Import List ZArith NArith Bool.
From Kardia Require Import Generated.C15Facts.
Import ListNotations.

Definition bytes := list N.

Definition lenN (b : bytes) : N := N.of_nat (length b).

(** binary.BigEndian.PutUint32 (of a uint32: the value is taken modulo 2^32) *)
Definition be32 (x : N) : bytes :=
  [ ((x / 16777216) mod 256)%N; ((x / 65536) mod 256)%N; ((x / 256) mod 256)%N; (x mod 256)%N ].

(** binary.BigEndian.Uint32 of a 4-byte buffer *)
Definition of_be32 (b : bytes) : N :=
  match b with
  | [a; b; c; d] => (((a * 256 + b) * 256 + c) * 256 + d)%N
  | _ => 0%N
  end.

(** ** Readers.  [Decode] calls [rd.Read(buf)] (not io.ReadFull) three times.
    - [RFile]: an *os.File (repairWalFile): Read of a non-empty buffer returns min(len, remaining)
      bytes and no error, or (0, EOF) at end of file; a zero-length buffer returns (0, nil).  The
      buffer was freshly made, so the unread tail stays zero.
    - [RGroup]: an *auto.GroupReader (SearchForEndHeight, catchupReplay): Read fills the buffer
      across file boundaries; when the files end first it returns (n, io.EOF) with n < len;
      a zero-length buffer is an error ("given empty slice"). *)
Inductive rkind := RFile | RGroup.
Inductive rstat := ROk | REof | RErrEmpty.

Definition pad_to (n : nat) (b : bytes) : bytes := b ++ repeat 0%N (n - length b).

(** [length bs < n], looking at no more than [n] elements (the remaining log can be megabytes long) *)
Fixpoint shorter (bs : bytes) (n : nat) : bool :=
  match n, bs with
  | O, _ => false
  | S _, [] => true
  | S n', _ :: t => shorter t n'
  end.

Definition rd (k : rkind) (n : nat) (bs : bytes) : bytes * bytes * rstat :=
  match k with
  | RFile =>
    match n, bs with
    | O, _ => ([], bs, ROk)
    | _, [] => ([], [], REof)
    | _, _ => (pad_to n (firstn n bs), skipn n bs, ROk)
    end
  | RGroup =>
    match n with
    | O => ([], bs, RErrEmpty)
    | _ => if shorter bs n then ([], [], REof)   (* buffer contents are not used on error *)
           else (firstn n bs, skipn n bs, ROk)
    end
  end.

(** DataCorruptionError causes, in the order Decode can raise them *)
Inductive cclass := CCrcRead | CLenRead | CTooBig | CDataRead | CCrc | CDecode.

Section WAL.
  (** [crc] is crc32.Checksum(data, Castagnoli): [Crc32c.crc32c] in every theorem that needs more
      than "it is a function"; a section variable so that the model runner may use a fast
      implementation on megabyte-sized payloads. *)
  Variable crc : bytes -> N.

  (** the record Encode writes: 4 bytes CRC-32C, 4 bytes length, payload *)
  Definition frame (p : bytes) : bytes := be32 (crc p) ++ be32 (lenN p) ++ p.
  Definition frames (ps : list bytes) : bytes := concat (map frame ps).

  (** WALEncoder.Encode after marshalling: [length := uint32(len(data))] is compared with
      maxMsgSizeBytes; nothing is written when it is larger. *)
  Definition encode (p : bytes) : option bytes :=
    if (max_msg_size_bytes <? lenN p mod 4294967296)%N then None else Some (frame p).

  Variable msg : Type.
  Variable ser : msg -> bytes.
  Variable deser : bytes -> option msg.
  Variable end_height : msg -> option Z.

  Inductive outcome :=
  | OMsg (m : msg) (rest : bytes)
  | OEof
  | OCorrupt (c : cclass) (rest : bytes).

  (** WALDecoder.Decode on the remaining bytes of the reader.  Second component: the size of the
      data buffer that was allocated ([make([]byte, length)]), 0 if that line was not reached. *)
  Definition decode_full (k : rkind) (bs : bytes) : outcome * N :=
    let '(b1, r1, s1) := rd k 4 bs in
    match s1 with
    | REof => (OEof, 0%N)
    | RErrEmpty => (OCorrupt CCrcRead r1, 0%N)
    | ROk =>
      let crc_read := of_be32 b1 in
      let '(b2, r2, s2) := rd k 4 r1 in
      match s2 with
      | ROk =>
        let len := of_be32 b2 in
        if (max_msg_size_bytes <? len)%N then (OCorrupt CTooBig r2, 0%N)
        else
          let '(d, r3, s3) := rd k (N.to_nat len) r2 in
          match s3 with
          | ROk =>
            if (crc d =? crc_read)%N then
              match deser d with
              | Some m => (OMsg m r3, len)
              | None => (OCorrupt CDecode r3, len)
              end
            else (OCorrupt CCrc r3, len)
          | _ => (OCorrupt CDataRead r3, len)
          end
      | _ => (OCorrupt CLenRead r2, 0%N)
      end
    end.

  Definition decode (k : rkind) (bs : bytes) : outcome := fst (decode_full k bs).
  Definition decode_alloc (k : rkind) (bs : bytes) : N := snd (decode_full k bs).

  (** repeated Decode until end of log; [cont = false] stops at the first corruption
      (catchupReplay, repairWalFile), [cont = true] keeps going (IgnoreDataCorruptionErrors). *)
  Inductive obs := ObMsg (m : msg) | ObEof | ObCorrupt (c : cclass) | ObFuel.

  Fixpoint decode_all (cont : bool) (fuel : nat) (k : rkind) (bs : bytes) : list obs :=
    match fuel with
    | O => [ObFuel]
    | S f =>
      match decode k bs with
      | OEof => [ObEof]
      | OCorrupt c rest => ObCorrupt c :: (if cont then decode_all cont f k rest else [])
      | OMsg m rest => ObMsg m :: decode_all cont f k rest
      end
    end.

  Definition read_log (cont : bool) (k : rkind) (bs : bytes) : list obs :=
    decode_all cont (S (length bs)) k bs.

  (** ** The file group (lib/autofile/group.go) *)
  Record group := mkGroup {
    g_min : nat;             (* index of the oldest rotated file *)
    g_files : list bytes;    (* rotated files, oldest first: indices g_min .. *)
    g_head : bytes;          (* head file, bytes on disk *)
    g_buf : bytes;           (* bytes still in headBuf (bufio.Writer) *)
    g_limit : Z              (* headSizeLimit (int64) *)
  }.

  Definition max_index (g : group) : nat := g_min g + length (g_files g).

  (** bufio.Writer.Write with capacity [cap] over the head file *)
  Definition bufio_write (cap : nat) (disk buf p : bytes) : bytes * bytes :=
    let avail := cap - length buf in
    if Nat.leb (length p) avail then (disk, buf ++ p)
    else match buf with
         | [] => (disk ++ p, [])
         | _ =>
           let disk1 := disk ++ buf ++ firstn avail p in
           let p1 := skipn avail p in
           if Nat.leb (length p1) cap then (disk1, p1) else (disk1 ++ p1, [])
         end.

  Definition group_write (g : group) (p : bytes) : group :=
    let '(d, b) := bufio_write (N.to_nat head_buf_size) (g_head g) (g_buf g) p in
    mkGroup (g_min g) (g_files g) d b (g_limit g).

  Definition group_flush (g : group) : group :=
    mkGroup (g_min g) (g_files g) (g_head g ++ g_buf g) [] (g_limit g).

  (** RotateFile: flush, close and rename head to the next index; the new head starts empty *)
  Definition group_rotate (g : group) : group :=
    mkGroup (g_min g) (g_files g ++ [g_head g ++ g_buf g]) [] [] (g_limit g).

  (** checkHeadSizeLimit (run by the group's ticker): the size is that of the file on disk *)
  Definition check_head_size_limit (g : group) : group :=
    if (g_limit g =? 0)%Z then g
    else if (g_limit g <=? Z.of_nat (length (g_head g)))%Z then group_rotate g
    else g.

  (** checkTotalSizeLimit (run by the group's ticker after checkHeadSizeLimit): readGroupInfo sums the
      sizes of the files on disk; while that total is not below the limit the oldest file is removed,
      at most maxFilesToRemove per tick and never the head ([index == gInfo.MaxIndex]: "just do
      nothing").  The buffered bytes are not on disk and do not count.  A limit of 0 disables it. *)
  Definition total_size (g : group) : Z := Z.of_nat (length (concat (g_files g)) + length (g_head g)).

  Fixpoint prune_loop (i : nat) (fs : list bytes) (total limit : Z) : nat * list bytes :=
    match i with
    | O => (O, fs)
    | S i' =>
      if (total <? limit)%Z then (O, fs)
      else match fs with
           | [] => (O, [])
           | f :: r => let '(k, fs') := prune_loop i' r (total - Z.of_nat (length f))%Z limit in (S k, fs')
           end
    end.

  Definition pruned_count (tl : Z) (g : group) : nat :=
    if (tl =? 0)%Z then O else fst (prune_loop (N.to_nat max_files_to_remove) (g_files g) (total_size g) tl).

  Definition check_total_size_limit (tl : Z) (g : group) : group :=
    let k := pruned_count tl g in
    mkGroup (g_min g + k) (skipn k (g_files g)) (g_head g) (g_buf g) (g_limit g).

  Inductive wres := WOk | WTooBig.

  (** BaseWAL.Write / WriteSync given the marshalled payload *)
  Definition wal_write (g : group) (p : bytes) : group * wres :=
    match encode p with
    | None => (g, WTooBig)
    | Some fr => (group_write g fr, WOk)
    end.

  Definition wal_write_sync (g : group) (p : bytes) : group * wres :=
    match encode p with
    | None => (g, WTooBig)
    | Some fr => (group_flush (group_write g fr), WOk)
    end.

  (** Stop (FlushAndSync, close) followed by NewWAL on the same directory and Start.  OpenGroup takes
      the indices from the directory (readGroupInfo): with no rotated file left the head is index 0
      again ([reopen]).  OnStart writes [EndHeightMessage{0}] (payload [p0]) with WriteSync whenever
      the head file is empty — at the very first start, and also after a rotation that left the head
      empty. *)
  Definition reopen (g : group) : group :=
    match g_files g with
    | [] => mkGroup O [] (g_head g) (g_buf g) (g_limit g)
    | _ => g
    end.

  Definition wal_start (g : group) (p0 : bytes) : group * wres :=
    let g1 := reopen (group_flush g) in
    match g_head g1 with
    | [] => wal_write_sync g1 p0
    | _ => (g1, WOk)
    end.

  Inductive wal_op := WWrite (p : bytes) | WWriteSync (p : bytes) | WTick | WFlush | WRotate | WStart (p0 : bytes)
                    | WPrune (total_limit : Z).

  Definition wal_step (g : group) (o : wal_op) : group * wres :=
    match o with
    | WWrite p => wal_write g p
    | WWriteSync p => wal_write_sync g p
    | WTick => (check_head_size_limit g, WOk)
    | WFlush => (group_flush g, WOk)
    | WRotate => (group_rotate g, WOk)
    | WStart p0 => wal_start g p0
    | WPrune tl => (check_total_size_limit tl g, WOk)
    end.

  Definition wal_run (g : group) (ops : list wal_op) : group :=
    fold_left (fun g o => fst (wal_step g o)) ops g.

  (** what a GroupReader opened at file [index] sees: the files on disk from there to the head *)
  Definition disk_files (g : group) : list bytes := g_files g ++ [g_head g].
  Definition group_stream (g : group) (index : nat) : bytes :=
    concat (skipn (index - g_min g) (disk_files g)).

  (** ** SearchForEndHeight *)
  Inductive scan_res :=
  | ScFound (rest : bytes)
  | ScStop                 (* early exit: a smaller positive height was the last one seen *)
  | ScNext (last : Z)      (* end of files: try the previous file *)
  | ScErr (c : cclass)
  | ScFuel.

  Fixpoint scan (fuel : nat) (height : Z) (ignore : bool) (bs : bytes) (last : Z) : scan_res :=
    match fuel with
    | O => ScFuel
    | S f =>
      match decode RGroup bs with
      | OEof => if ((0 <? last) && (last <? height))%Z then ScStop else ScNext last
      | OCorrupt c rest => if ignore then scan f height ignore rest last else ScErr c
      | OMsg m rest =>
        match end_height m with
        | Some h => if (h =? height)%Z then ScFound rest else scan f height ignore rest h
        | None => scan f height ignore rest last
        end
      end
    end.

  Inductive sres := SFound (rest : bytes) | SNotFound | SErr (c : cclass) | SFuel.

  (** [for index := max; index >= min; index--]: [k] files remain to be tried, the next
      reader starts at the [k-1]-th file of [files] and runs to the end of the head *)
  Fixpoint search_loop (k : nat) (files : list bytes) (height : Z) (ignore : bool) (last : Z) : sres :=
    match k with
    | O => SNotFound
    | S k' =>
      let bs := concat (skipn k' files) in
      match scan (S (length bs)) height ignore bs last with
      | ScFound rest => SFound rest
      | ScStop => SNotFound
      | ScErr c => SErr c
      | ScFuel => SFuel
      | ScNext last' => search_loop k' files height ignore last'
      end
    end.

  Definition search (g : group) (height : Z) (ignore : bool) : sres :=
    search_loop (length (disk_files g)) (disk_files g) height ignore (-1)%Z.

  (** ** repairWalFile: decode from the corrupted file until the first error, re-encode each
      message into the new file.  [false] = Encode failed (the function returns an error and
      leaves what was written so far). *)
  Fixpoint repair_loop (fuel : nat) (bs acc : bytes) : bytes * bool :=
    match fuel with
    | O => (acc, false)
    | S f =>
      match decode RFile bs with
      | OMsg m rest =>
        match encode (ser m) with
        | Some fr => repair_loop f rest (acc ++ fr)
        | None => (acc, false)
        end
      | _ => (acc, true)
      end
    end.

  Definition repair (bs : bytes) : bytes * bool := repair_loop (S (length bs)) bs [].

  (** [os.Create(dst)] in repairWalFile: O_TRUNC — whatever the destination held is gone; the file is
      then exactly what the encoder writes.  ([file_overwrite] is what a destination opened without
      O_TRUNC would hold instead; it is here only so that the difference can be stated.) *)
  Definition os_create (old : bytes) : bytes := [].
  Definition file_overwrite (old w : bytes) : bytes := w ++ skipn (length w) old.

  (** The repair steps of ConsensusState.OnStart on the WAL head file [wal]: the corrupted file is backed
      up by COPYING it to wal.CORRUPTED (it stays in place), then repairWalFile(wal.CORRUPTED, wal)
      rewrites it.  Result: (backup, wal file afterwards, no Encode error). *)
  Definition repair_onstart (wal : bytes) : bytes * bytes * bool :=
    let backup := wal in
    let '(out, ok) := repair backup in
    (backup, os_create wal ++ out, ok).

  (** the same inside a group: only the head file is repaired, rotated files are left as they are *)
  Definition repair_head (g : group) : group * bool :=
    let '(_, w, ok) := repair_onstart (g_head g) in
    (mkGroup (g_min g) (g_files g) w [] (g_limit g), ok).

End WAL.

Arguments OMsg {msg}. Arguments OEof {msg}. Arguments OCorrupt {msg}.
Arguments ObMsg {msg}. Arguments ObEof {msg}. Arguments ObCorrupt {msg}. Arguments ObFuel {msg}.
