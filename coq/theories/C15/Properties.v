(** C15 — property theorems only (stub while the proofs are being written). *)
From Coq Require Import List ZArith NArith Bool.
From Kardia Require Import C15.Crc32c C15.Model Generated.C15Facts.

Theorem C15_stub : True.
Proof. exact I. Qed.
Print Assumptions C15_stub.
