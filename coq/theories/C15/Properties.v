(** C15 — the consensus WAL returns exactly what was written and detects every corruption.
    Property theorems only; each is closed by [exact] of a lemma of Proofs*.v and followed by
    [Print Assumptions].

    Conventions: bytes are [N] below 256 ([wf_bytes]); the CRC is the real bit-by-bit CRC-32C
    ([Crc32c.crc32c]); the payload codec (protobuf marshal/unmarshal of TimedWALMessage) is
    abstract: [ser]/[deser]/[end_height] are universally quantified.
      [good p m]   = [deser p = Some m], [p] is non-empty, well formed and within maxMsgSizeBytes
      [canon p m]  = [good p m] and [ser m = p] (re-marshalling gives the payload back)
      [collision p] = a different payload with the same CRC that also unmarshals *)
From Coq Require Import List ZArith NArith Bool Sorted.
From Kardia Require Import Base.ListX C15.Crc32c C15.ProofsCrc C15.Model C15.ProofsLog C15.ProofsGroup C15.ProofsTop
  Generated.C15Facts.
Import ListNotations.

(** Whatever sequence of Write / WriteSync / head-size ticks / flushes / rotations is run on an
    empty group, after a final flush a GroupReader from the first file returns exactly the
    accepted messages, in order, then end-of-log (file rotation is invisible). *)
Theorem C15_roundtrip :
  forall (msg : Type) (deser : bytes -> option msg) (min : nat) (limit : Z) (ops : list wal_op)
         (ms : list msg) (cont : bool),
    Forall2 (good msg deser) (written min limit ops) ms ->
    let g := final_group min limit ops in
    read_log crc32c msg deser cont RGroup (group_stream g (g_min g)) = map ObMsg ms ++ [ObEof].
Proof. exact top_roundtrip. Qed.
Print Assumptions C15_roundtrip.

(** the same on the bytes, for both readers (os.File and GroupReader) *)
Theorem C15_roundtrip_bytes :
  forall (msg : Type) (deser : bytes -> option msg) (cont : bool) (k : rkind) (ps : list bytes) (ms : list msg),
    Forall2 (good msg deser) ps ms ->
    read_log crc32c msg deser cont k (frames crc32c ps) = map ObMsg ms ++ [ObEof].
Proof. exact top_roundtrip_bytes. Qed.
Print Assumptions C15_roundtrip_bytes.

(** rotation happens only between records: every file of the group is a sequence of whole frames,
    and together they are exactly what was accepted *)
Theorem C15_rotation_between_records :
  forall (min : nat) (limit : Z) (ops : list wal_op),
    exists chunks, disk_files (final_group min limit ops) = map (frames crc32c) chunks /\
                   concat chunks = written min limit ops.
Proof. exact top_rotation. Qed.
Print Assumptions C15_rotation_between_records.

(** For ANY bytes: Decode returns a message only for a CRC-consistent frame at the head of the
    stream, with a length within the limit.  [z] zero bytes may have been supplied by the os.File
    reader's short last read, only when the file ends inside that frame. *)
Theorem C15_decode_sound :
  forall (msg : Type) (deser : bytes -> option msg) (k : rkind) (bs : bytes) (m : msg) (rest : bytes),
    wf_bytes bs -> decode crc32c msg deser k bs = OMsg m rest ->
    exists p z, deser p = Some m /\ (lenN p <= max_msg_size_bytes)%N /\ wf_bytes p /\
                bs ++ repeat 0%N z = frame crc32c p ++ rest /\
                (z = 0 \/ (k = RFile /\ rest = [] /\ z < length (frame crc32c p))).
Proof. exact top_decode_sound. Qed.
Print Assumptions C15_decode_sound.

(** the data buffer Decode allocates never exceeds maxMsgSizeBytes, for any input *)
Theorem C15_alloc_bound :
  forall (msg : Type) (deser : bytes -> option msg) (k : rkind) (bs : bytes),
    (decode_alloc crc32c msg deser k bs <= max_msg_size_bytes)%N.
Proof. exact top_alloc_bound. Qed.
Print Assumptions C15_alloc_bound.

(** a declared length above the limit is refused as such, before anything is allocated *)
Theorem C15_too_big_refused :
  forall (msg : Type) (deser : bytes -> option msg) (k : rkind) (c l rest : bytes),
    length c = 4 -> length l = 4 -> (max_msg_size_bytes < of_be32 l)%N ->
    decode_full crc32c msg deser k (c ++ l ++ rest) = (OCorrupt CTooBig rest, 0%N).
Proof. exact top_too_big. Qed.
Print Assumptions C15_too_big_refused.

(** Every proper prefix of a valid log reads as a prefix of the written messages followed by
    end-of-log or a corruption error — never a different message; the only escape is an explicit
    CRC collision on a payload that unmarshals, and only through the zero-filling os.File reader. *)
Theorem C15_truncation :
  forall (msg : Type) (ser : msg -> bytes) (deser : bytes -> option msg) (k : rkind)
         (ps : list bytes) (ms : list msg) (n : nat),
    Forall2 (good msg deser) ps ms -> n < length (frames crc32c ps) ->
    (exists j tail, read_log crc32c msg deser false k (firstn n (frames crc32c ps)) = map ObMsg (firstn j ms) ++ tail /\
                    (tail = [ObEof] \/ exists c, tail = [ObCorrupt c])) \/
    (k = RFile /\ exists p, In p ps /\ collision crc32c msg deser p).
Proof. exact top_truncation. Qed.
Print Assumptions C15_truncation.

(** Changing any one byte (so: flipping any one bit) of the CRC field or of the payload of a frame
    is always reported as a checksum error, by both readers, wherever the frame is in the log. *)
Theorem C15_bitflip_detected :
  forall (msg : Type) (deser : bytes -> option msg) (k : rkind) (p rest : bytes) (i : nat) (b' : N),
    wf_bytes p -> p <> [] -> (lenN p <= max_msg_size_bytes)%N ->
    i < length (frame crc32c p) -> ~ (4 <= i < 8) -> (b' < 256)%N -> nth i (frame crc32c p) 0%N <> b' ->
    decode crc32c msg deser k (set_nth i b' (frame crc32c p) ++ rest) = OCorrupt CCrc rest.
Proof. exact top_bitflip. Qed.
Print Assumptions C15_bitflip_detected.

(** the CRC update is GF(2)-linear and injective on 32-bit states (what the theorem above rests on) *)
Theorem C15_crc_step_linear : forall a b, crc_bit (N.lxor a b) = N.lxor (crc_bit a) (crc_bit b).
Proof. exact crc_bit_linear. Qed.
Print Assumptions C15_crc_step_linear.

Theorem C15_crc_step_injective : forall a b, b32 a -> b32 b -> crc_bit a = crc_bit b -> a = b.
Proof. exact crc_bit_inj. Qed.
Print Assumptions C15_crc_step_injective.

(** A damaged length field (any value): if Decode still returns a message, then the stored CRC of
    the original payload equals the CRC of a payload of a different length that unmarshals — an
    explicit collision (the 2^-32 residual; otherwise the result is Eof/Corrupt). *)
Theorem C15_lenflip_residual :
  forall (msg : Type) (ser : msg -> bytes) (deser : bytes -> option msg) (k : rkind)
         (l' p rest : bytes) (m' : msg) (r' : bytes),
    length l' = 4 -> wf_bytes l' -> wf_bytes p -> wf_bytes rest -> (lenN p < 4294967296)%N ->
    l' <> be32 (lenN p) ->
    decode crc32c msg deser k (be32 (crc32c p) ++ l' ++ p ++ rest) = OMsg m' r' ->
    exists p', deser p' = Some m' /\ crc32c p' = crc32c p /\ lenN p' <> lenN p /\ l' = be32 (lenN p').
Proof. exact top_lenflip. Qed.
Print Assumptions C15_lenflip_residual.

(** SearchForEndHeight on the group produced by any operation sequence, restarts included
    ([WStart]: Stop, NewWAL on the same files, Start — OnStart writes EndHeightMessage{0} whenever the
    head file is empty, so also after a rotation).  Hypothesis: the messages are valid and the POSITIVE
    end-height markers increase strictly; markers <= 0 (the restart marker) may occur anywhere and
    repeat.  Then a positive height is found iff it was written, with the returned reader positioned
    exactly after the marker's frame (its remaining bytes are the frames written after it); a
    non-positive height is found iff it was written. *)
Theorem C15_search_iff :
  forall (msg : Type) (deser : bytes -> option msg) (end_height : msg -> option Z)
         (min : nat) (limit : Z) (ops : list wal_op) (h : Z) (ign : bool),
    Forall (goodp msg deser) (written min limit ops) ->
    StronglySorted Z.lt (pos_marks msg deser end_height (written min limit ops)) ->
    let g := final_group min limit ops in
    (forall pre p0 post, (0 < h)%Z -> written min limit ops = pre ++ p0 :: post ->
       mark msg deser end_height p0 = Some h ->
       search crc32c msg deser end_height g h ign = SFound (frames crc32c post)) /\
    ((h <= 0)%Z -> In h (marks msg deser end_height (written min limit ops)) ->
       exists rest, search crc32c msg deser end_height g h ign = SFound rest) /\
    (~ In h (marks msg deser end_height (written min limit ops)) ->
       search crc32c msg deser end_height g h ign = SNotFound).
Proof. exact top_search. Qed.
Print Assumptions C15_search_iff.

(** the restart-after-rotation scenario, computed: the newest file holds only the restart marker,
    heights in the rotated files are still found *)
Theorem C15_search_after_restart_example :
  let ops := [WStart [1%N]; WWriteSync [4%N]; WWriteSync [5%N]; WTick; WStart [1%N]] in
  written 0 10 ops = [[1%N]; [4%N]; [5%N]; [1%N]] /\
  search crc32c Z toy0_deser toy_eh (final_group 0 10 ops) 3 true = SFound (frames crc32c [[5%N]; [1%N]]) /\
  search crc32c Z toy0_deser toy_eh (final_group 0 10 ops) 4 true = SFound (frame crc32c [1%N]).
Proof. exact toy_search_after_restart. Qed.
Print Assumptions C15_search_after_restart_example.

(** repairWalFile keeps exactly the frames of the longest decodable prefix: whole canonical frames
    followed by anything whose first Decode is not a message are repaired to those frames. *)
Theorem C15_repair_prefix :
  forall (msg : Type) (ser : msg -> bytes) (deser : bytes -> option msg)
         (ps : list bytes) (ms : list msg) (tail : bytes),
    Forall2 (canon msg ser deser) ps ms ->
    (forall m r, decode crc32c msg deser RFile tail <> OMsg m r) ->
    repair crc32c msg ser deser (frames crc32c ps ++ tail) = (frames crc32c ps, true).
Proof. exact top_repair. Qed.
Print Assumptions C15_repair_prefix.

(** the zero-fill behaviour of the os.File reader (used by repairWalFile) is real: a frame cut
    inside trailing zero bytes is completed and decoded, to the message that was written; the
    GroupReader reports the same bytes as corrupt *)
Theorem C15_zero_fill_quirk :
  let fr := frame crc32c [5%N; 0%N] in
  decode crc32c Z toy2_deser RFile (firstn 9 fr) = OMsg 5%Z [] /\
  (exists c r, decode crc32c Z toy2_deser RGroup (firstn 9 fr) = OCorrupt c r).
Proof. exact zero_fill_quirk. Qed.
Print Assumptions C15_zero_fill_quirk.
