(** C15 — the consensus WAL returns exactly what was written and detects every corruption.
    Property theorems only; each is closed by [exact] of a lemma of Proofs*.v and followed by
    [Print Assumptions].

    Conventions: bytes are [N] below 256 ([wf_bytes]); the CRC is the real bit-by-bit CRC-32C
    ([Crc32c.crc32c]); the payload codec (protobuf marshal/unmarshal of TimedWALMessage) is
    abstract: [ser]/[deser]/[end_height] are universally quantified.
      [good p m]   = [deser p = Some m], [p] is non-empty, well formed and within maxMsgSizeBytes
      [canon p m]  = [good p m] and [ser m = p] (re-marshalling gives the payload back)
      [collision p] = a different payload with the same CRC that also unmarshals *)
From Coq Require Import List ZArith NArith Bool Sorted.
From Kardia Require Import Base.ListX C15.Crc32c C15.ProofsCrc C15.Model C15.ProofsLog C15.ProofsGroup C15.ProofsSearch
  C15.ProofsTop Generated.C15Facts.
Import ListNotations.

(** Whatever sequence of Write / WriteSync / head-size ticks / flushes / rotations / restarts /
    total-size prunings is run on an empty group, after a final flush a GroupReader from the first
    file returns exactly the messages that are still kept, in order, then end-of-log (file rotation is
    invisible).  [kept] = [written] minus the oldest records, whose files checkTotalSizeLimit removed
    (see C15_kept_suffix); without a pruning step it is everything that was accepted. *)
Theorem C15_roundtrip :
  forall (msg : Type) (deser : bytes -> option msg) (min : nat) (limit : Z) (ops : list wal_op)
         (ms : list msg) (cont : bool),
    Forall2 (good msg deser) (kept min limit ops) ms ->
    let g := final_group min limit ops in
    read_log crc32c msg deser cont RGroup (group_stream g (g_min g)) = map ObMsg ms ++ [ObEof].
Proof. exact top_roundtrip. Qed.
Print Assumptions C15_roundtrip.

(** what pruning may lose: whole records from the old end only — exactly as many bytes of frames as
    the removed files held *)
Theorem C15_kept_suffix :
  forall (min : nat) (limit : Z) (ops : list wal_op),
    exists dropped, written min limit ops = dropped ++ kept min limit ops /\
                    length (frames crc32c dropped) = pruned_bytes min limit ops.
Proof. exact top_kept_suffix. Qed.
Print Assumptions C15_kept_suffix.

(** without a total-size pruning step nothing is ever lost *)
Theorem C15_no_prune_keeps_all :
  forall (min : nat) (limit : Z) (ops : list wal_op),
    (forall tl, ~ In (WPrune tl) ops) ->
    pruned_bytes min limit ops = 0 /\ kept min limit ops = written min limit ops.
Proof. exact top_no_prune. Qed.
Print Assumptions C15_no_prune_keeps_all.

(** checkTotalSizeLimit on ANY group: it removes only rotated files, oldest first, at most
    maxFilesToRemove per tick, never the head or the write buffer; each removal happened with the
    remaining total at or above the limit, and it stops as soon as the total is below it *)
Theorem C15_prune_sound :
  forall (tl : Z) (g : group),
    let k := pruned_count tl g in
    let g' := check_total_size_limit tl g in
    g_files g' = skipn k (g_files g) /\ g_head g' = g_head g /\ g_buf g' = g_buf g /\ g_min g' = g_min g + k /\
    k <= N.to_nat max_files_to_remove /\ k <= length (g_files g) /\
    (forall j, j < k -> tl <> 0%Z /\ (tl <= total_size g - Z.of_nat (length (concat (firstn j (g_files g)))))%Z) /\
    (tl <> 0%Z -> k < N.to_nat max_files_to_remove -> k < length (g_files g) -> (total_size g' < tl)%Z).
Proof. exact top_prune_sound. Qed.
Print Assumptions C15_prune_sound.

(** the same on the bytes, for both readers (os.File and GroupReader) *)
Theorem C15_roundtrip_bytes :
  forall (msg : Type) (deser : bytes -> option msg) (cont : bool) (k : rkind) (ps : list bytes) (ms : list msg),
    Forall2 (good msg deser) ps ms ->
    read_log crc32c msg deser cont k (frames crc32c ps) = map ObMsg ms ++ [ObEof].
Proof. exact top_roundtrip_bytes. Qed.
Print Assumptions C15_roundtrip_bytes.

(** rotation happens only between records: every file of the group is a sequence of whole frames,
    and together they are exactly what is kept *)
Theorem C15_rotation_between_records :
  forall (min : nat) (limit : Z) (ops : list wal_op),
    exists chunks, disk_files (final_group min limit ops) = map (frames crc32c) chunks /\
                   concat chunks = kept min limit ops.
Proof. exact top_rotation. Qed.
Print Assumptions C15_rotation_between_records.

(** For ANY bytes: Decode returns a message only for a CRC-consistent frame at the head of the
    stream, with a length within the limit.  [z] zero bytes may have been supplied by the os.File
    reader's short last read, only when the file ends inside that frame. *)
Theorem C15_decode_sound :
  forall (msg : Type) (deser : bytes -> option msg) (k : rkind) (bs : bytes) (m : msg) (rest : bytes),
    wf_bytes bs -> decode crc32c msg deser k bs = OMsg m rest ->
    exists p z, deser p = Some m /\ (lenN p <= max_msg_size_bytes)%N /\ wf_bytes p /\
                bs ++ repeat 0%N z = frame crc32c p ++ rest /\
                (z = 0 \/ (k = RFile /\ rest = [] /\ z < length (frame crc32c p))).
Proof. exact top_decode_sound. Qed.
Print Assumptions C15_decode_sound.

(** the data buffer Decode allocates never exceeds maxMsgSizeBytes, for any input *)
Theorem C15_alloc_bound :
  forall (msg : Type) (deser : bytes -> option msg) (k : rkind) (bs : bytes),
    (decode_alloc crc32c msg deser k bs <= max_msg_size_bytes)%N.
Proof. exact top_alloc_bound. Qed.
Print Assumptions C15_alloc_bound.

(** a declared length above the limit is refused as such, before anything is allocated *)
Theorem C15_too_big_refused :
  forall (msg : Type) (deser : bytes -> option msg) (k : rkind) (c l rest : bytes),
    length c = 4 -> length l = 4 -> (max_msg_size_bytes < of_be32 l)%N ->
    decode_full crc32c msg deser k (c ++ l ++ rest) = (OCorrupt CTooBig rest, 0%N).
Proof. exact top_too_big. Qed.
Print Assumptions C15_too_big_refused.

(** Every proper prefix of a valid log reads as a prefix of the written messages followed by
    end-of-log or a corruption error — never a different message; the only escape is an explicit
    CRC collision on a payload that unmarshals, and only through the zero-filling os.File reader. *)
Theorem C15_truncation :
  forall (msg : Type) (ser : msg -> bytes) (deser : bytes -> option msg) (k : rkind)
         (ps : list bytes) (ms : list msg) (n : nat),
    Forall2 (good msg deser) ps ms -> n < length (frames crc32c ps) ->
    (exists j tail, read_log crc32c msg deser false k (firstn n (frames crc32c ps)) = map ObMsg (firstn j ms) ++ tail /\
                    (tail = [ObEof] \/ exists c, tail = [ObCorrupt c])) \/
    (k = RFile /\ exists p, In p ps /\ collision crc32c msg deser p).
Proof. exact top_truncation. Qed.
Print Assumptions C15_truncation.

(** Changing any one byte (so: flipping any one bit) of the CRC field or of the payload of a frame
    is always reported as a checksum error, by both readers, wherever the frame is in the log. *)
Theorem C15_bitflip_detected :
  forall (msg : Type) (deser : bytes -> option msg) (k : rkind) (p rest : bytes) (i : nat) (b' : N),
    wf_bytes p -> p <> [] -> (lenN p <= max_msg_size_bytes)%N ->
    i < length (frame crc32c p) -> ~ (4 <= i < 8) -> (b' < 256)%N -> nth i (frame crc32c p) 0%N <> b' ->
    decode crc32c msg deser k (set_nth i b' (frame crc32c p) ++ rest) = OCorrupt CCrc rest.
Proof. exact top_bitflip. Qed.
Print Assumptions C15_bitflip_detected.

(** The whole log with ONE record damaged (any one byte of its CRC field or payload changed — so any
    single-bit flip there): both readers return every record before it, report the damaged one as a
    checksum error, and nothing else — in stop mode (catchupReplay, repairWalFile) the log ends there,
    in ignore mode (SearchForEndHeight) every record behind it comes back too, then end-of-log. *)
Theorem C15_bitflip_log :
  forall (msg : Type) (deser : bytes -> option msg) (cont : bool) (k : rkind)
         (pre : list bytes) (p : bytes) (post : list bytes) (pre_ms post_ms : list msg) (i : nat) (b' : N),
    Forall2 (good msg deser) pre pre_ms -> Forall2 (good msg deser) post post_ms ->
    wf_bytes p -> p <> [] -> (lenN p <= max_msg_size_bytes)%N ->
    i < length (frame crc32c p) -> ~ (4 <= i < 8) -> (b' < 256)%N -> nth i (frame crc32c p) 0%N <> b' ->
    read_log crc32c msg deser cont k (frames crc32c pre ++ set_nth i b' (frame crc32c p) ++ frames crc32c post) =
      map ObMsg pre_ms ++ ObCorrupt CCrc :: (if cont then map ObMsg post_ms ++ [ObEof] else []).
Proof. exact top_bitflip_log. Qed.
Print Assumptions C15_bitflip_log.

(** Anything appended to a valid log (a garbage suffix, a torn or damaged record, nothing): the written
    messages come back first, in order and unchanged; what follows is exactly the reading of the suffix
    on its own — by C15_decode_sound it can yield a message only where the suffix itself contains a
    CRC-consistent frame within the size limit. *)
Theorem C15_suffix :
  forall (msg : Type) (ser : msg -> bytes) (deser : bytes -> option msg) (cont : bool) (k : rkind)
         (ps : list bytes) (ms : list msg) (tail : bytes),
    Forall2 (good msg deser) ps ms ->
    read_log crc32c msg deser cont k (frames crc32c ps ++ tail) = map ObMsg ms ++ read_log crc32c msg deser cont k tail.
Proof. exact top_suffix. Qed.
Print Assumptions C15_suffix.

(** the CRC update is GF(2)-linear and injective on 32-bit states (what the theorem above rests on) *)
Theorem C15_crc_step_linear : forall a b, crc_bit (N.lxor a b) = N.lxor (crc_bit a) (crc_bit b).
Proof. exact crc_bit_linear. Qed.
Print Assumptions C15_crc_step_linear.

Theorem C15_crc_step_injective : forall a b, b32 a -> b32 b -> crc_bit a = crc_bit b -> a = b.
Proof. exact crc_bit_inj. Qed.
Print Assumptions C15_crc_step_injective.

(** A damaged length field (any value): if Decode still returns a message, then the stored CRC of
    the original payload equals the CRC of a payload of a different length that unmarshals — an
    explicit collision (the 2^-32 residual; otherwise the result is Eof/Corrupt). *)
Theorem C15_lenflip_residual :
  forall (msg : Type) (ser : msg -> bytes) (deser : bytes -> option msg) (k : rkind)
         (l' p rest : bytes) (m' : msg) (r' : bytes),
    length l' = 4 -> wf_bytes l' -> wf_bytes p -> wf_bytes rest -> (lenN p < 4294967296)%N ->
    l' <> be32 (lenN p) ->
    decode crc32c msg deser k (be32 (crc32c p) ++ l' ++ p ++ rest) = OMsg m' r' ->
    exists p', deser p' = Some m' /\ crc32c p' = crc32c p /\ lenN p' <> lenN p /\ l' = be32 (lenN p').
Proof. exact top_lenflip. Qed.
Print Assumptions C15_lenflip_residual.

(** SearchForEndHeight on the group produced by any operation sequence, restarts and prunings included
    ([WStart]: Stop, NewWAL on the same files, Start — OnStart writes EndHeightMessage{0} whenever the
    head file is empty, so also after a rotation; [WPrune]: checkTotalSizeLimit).  Hypothesis: the kept
    messages are valid and their POSITIVE end-height markers increase strictly; markers <= 0 (the
    restart marker) may occur anywhere and repeat.  Then a positive height is found iff it is among the
    kept records, with the returned reader positioned exactly after the marker's frame (its remaining
    bytes are the frames written after it); a non-positive height is found iff it is kept. *)
Theorem C15_search_iff :
  forall (msg : Type) (deser : bytes -> option msg) (end_height : msg -> option Z)
         (min : nat) (limit : Z) (ops : list wal_op) (h : Z) (ign : bool),
    Forall (goodp msg deser) (kept min limit ops) ->
    StronglySorted Z.lt (pos_marks msg deser end_height (kept min limit ops)) ->
    let g := final_group min limit ops in
    (forall pre p0 post, (0 < h)%Z -> kept min limit ops = pre ++ p0 :: post ->
       mark msg deser end_height p0 = Some h ->
       search crc32c msg deser end_height g h ign = SFound (frames crc32c post)) /\
    ((h <= 0)%Z -> In h (marks msg deser end_height (kept min limit ops)) ->
       exists rest, search crc32c msg deser end_height g h ign = SFound rest) /\
    (~ In h (marks msg deser end_height (kept min limit ops)) ->
       search crc32c msg deser end_height g h ign = SNotFound).
Proof. exact top_search. Qed.
Print Assumptions C15_search_iff.

(** the pruning scenario, computed: the oldest of three files is removed, its height is gone, the others are found *)
Theorem C15_prune_example :
  let ops := [WWriteSync [3%N]; WRotate; WWriteSync [4%N]; WRotate; WWriteSync [5%N]; WPrune 20] in
  written 0 0 ops = [[3%N]; [4%N]; [5%N]] /\ pruned_bytes 0 0 ops = 9 /\ kept 0 0 ops = [[4%N]; [5%N]] /\
  g_min (final_group 0 0 ops) = 1 /\
  search crc32c Z toy_deser toy_eh (final_group 0 0 ops) 3 true = SNotFound /\
  search crc32c Z toy_deser toy_eh (final_group 0 0 ops) 4 true = SFound (frame crc32c [5%N]).
Proof. exact toy_prune. Qed.
Print Assumptions C15_prune_example.

(** SearchForEndHeight on a DAMAGED log.  The files of the group are sequences of items: good records
    ([IGood p], the frame of a valid payload) and damaged ones ([IBad b c]: bytes that the group reader's
    Decode reports as corruption class [c] and steps over, whatever follows — by C15_flipped_steps_over,
    every record with a byte of its CRC field or payload changed is one).  Any number of records may be
    damaged, anywhere.  The POSITIVE markers of the intact records increase strictly.  Then with
    IgnoreDataCorruptionErrors a positive height is found iff its marker record is intact, with the reader
    positioned exactly after it (the rest of the log, damaged records included); non-positive heights are
    found iff an intact marker has them; without the option the answer is the same, or the corruption
    error of one of the damaged records. *)
Theorem C15_search_damaged :
  forall (msg : Type) (deser : bytes -> option msg) (end_height : msg -> option Z)
         (g : group) (chunks : list (list item)) (h : Z),
    disk_files g = map (istream crc32c) chunks -> Forall (iok crc32c msg deser) (concat chunks) ->
    StronglySorted Z.lt (ipos_marks msg deser end_height (concat chunks)) ->
    (forall pre p0 post, (0 < h)%Z -> concat chunks = pre ++ IGood p0 :: post ->
       mark msg deser end_height p0 = Some h ->
       search crc32c msg deser end_height g h true = SFound (istream crc32c post)) /\
    ((h <= 0)%Z -> In h (imarks msg deser end_height (concat chunks)) ->
       exists rest, search crc32c msg deser end_height g h true = SFound rest) /\
    (~ In h (imarks msg deser end_height (concat chunks)) -> search crc32c msg deser end_height g h true = SNotFound) /\
    (search crc32c msg deser end_height g h false = search crc32c msg deser end_height g h true \/
     exists c, bad_class (concat chunks) c /\ search crc32c msg deser end_height g h false = SErr c).
Proof. exact top_search_damaged. Qed.
Print Assumptions C15_search_damaged.

Theorem C15_flipped_steps_over :
  forall (msg : Type) (deser : bytes -> option msg) (p : bytes) (i : nat) (b' : N),
    wf_bytes p -> p <> [] -> (lenN p <= max_msg_size_bytes)%N ->
    i < length (frame crc32c p) -> ~ (4 <= i < 8) -> (b' < 256)%N -> nth i (frame crc32c p) 0%N <> b' ->
    iok crc32c msg deser (IBad (set_nth i b' (frame crc32c p)) CCrc).
Proof. exact top_flipped_steps_over. Qed.
Print Assumptions C15_flipped_steps_over.

Theorem C15_search_damaged_example :
  let bad := set_nth 8 9%N (frame crc32c [5%N]) in
  let g := mkGroup 0 [] (frame crc32c [3%N] ++ bad ++ frame crc32c [7%N]) [] 0 in
  search crc32c Z toy_deser toy_eh g 7 true = SFound [] /\
  search crc32c Z toy_deser toy_eh g 3 true = SFound (bad ++ frame crc32c [7%N]) /\
  search crc32c Z toy_deser toy_eh g 5 true = SNotFound /\
  search crc32c Z toy_deser toy_eh g 3 false = SFound (bad ++ frame crc32c [7%N]) /\
  search crc32c Z toy_deser toy_eh g 7 false = SErr CCrc.
Proof. exact toy_search_damaged. Qed.
Print Assumptions C15_search_damaged_example.

(** the restart-after-rotation scenario, computed: the newest file holds only the restart marker,
    heights in the rotated files are still found *)
Theorem C15_search_after_restart_example :
  let ops := [WStart [1%N]; WWriteSync [4%N]; WWriteSync [5%N]; WTick; WStart [1%N]] in
  written 0 10 ops = [[1%N]; [4%N]; [5%N]; [1%N]] /\
  search crc32c Z toy0_deser toy_eh (final_group 0 10 ops) 3 true = SFound (frames crc32c [[5%N]; [1%N]]) /\
  search crc32c Z toy0_deser toy_eh (final_group 0 10 ops) 4 true = SFound (frame crc32c [1%N]).
Proof. exact toy_search_after_restart. Qed.
Print Assumptions C15_search_after_restart_example.

(** repairWalFile keeps exactly the frames of the longest decodable prefix: whole canonical frames
    followed by anything whose first Decode is not a message are repaired to those frames. *)
Theorem C15_repair_prefix :
  forall (msg : Type) (ser : msg -> bytes) (deser : bytes -> option msg)
         (ps : list bytes) (ms : list msg) (tail : bytes),
    Forall2 (canon msg ser deser) ps ms ->
    (forall m r, decode crc32c msg deser RFile tail <> OMsg m r) ->
    repair crc32c msg ser deser (frames crc32c ps ++ tail) = (frames crc32c ps, true).
Proof. exact top_repair. Qed.
Print Assumptions C15_repair_prefix.

(** Repairing a log with one record damaged in its CRC field or payload (any single-bit flip there),
    whatever follows it: exactly the records before it are kept. *)
Theorem C15_repair_bitflip :
  forall (msg : Type) (ser : msg -> bytes) (deser : bytes -> option msg)
         (pre : list bytes) (pre_ms : list msg) (p post : bytes) (i : nat) (b' : N),
    Forall2 (canon msg ser deser) pre pre_ms ->
    wf_bytes p -> p <> [] -> (lenN p <= max_msg_size_bytes)%N ->
    i < length (frame crc32c p) -> ~ (4 <= i < 8) -> (b' < 256)%N -> nth i (frame crc32c p) 0%N <> b' ->
    repair crc32c msg ser deser (frames crc32c pre ++ set_nth i b' (frame crc32c p) ++ post) = (frames crc32c pre, true).
Proof. exact top_repair_bitflip. Qed.
Print Assumptions C15_repair_bitflip.

(** Repairing a TRUNCATED log (a crash in the middle of a write): the result is the frames of a prefix
    of the written records — the record cut by the truncation is dropped, or (os.File zero-fill) completed
    to exactly what it was; never anything else, short of an explicit CRC collision on a payload that
    unmarshals. *)
Theorem C15_repair_truncated :
  forall (msg : Type) (ser : msg -> bytes) (deser : bytes -> option msg)
         (ps : list bytes) (ms : list msg) (n : nat),
    Forall2 (canon msg ser deser) ps ms -> n < length (frames crc32c ps) ->
    (exists j, repair crc32c msg ser deser (firstn n (frames crc32c ps)) = (frames crc32c (firstn j ps), true)) \/
    (exists p, In p ps /\ collision crc32c msg deser p).
Proof. exact top_repair_truncated. Qed.
Print Assumptions C15_repair_truncated.

(** The repair steps of ConsensusState.OnStart — the corrupted WAL is backed up by copying it (it
    stays in place) and repairWalFile(backup, wal) rewrites it: the backup is the corrupted file, the WAL
    afterwards is exactly the frames of the longest valid prefix (the destination is truncated). *)
Theorem C15_repair_onstart :
  forall (msg : Type) (ser : msg -> bytes) (deser : bytes -> option msg)
         (ps : list bytes) (ms : list msg) (tail : bytes),
    Forall2 (canon msg ser deser) ps ms ->
    (forall m r, decode crc32c msg deser RFile tail <> OMsg m r) ->
    repair_onstart crc32c msg ser deser (frames crc32c ps ++ tail) = (frames crc32c ps ++ tail, frames crc32c ps, true).
Proof. exact top_repair_onstart. Qed.
Print Assumptions C15_repair_onstart.

(** ...and the truncation is what does it: the repaired prefix written over the corrupted file
    WITHOUT truncating it leaves that file exactly as corrupted as it was *)
Theorem C15_repair_needs_truncate :
  forall (msg : Type) (ser : msg -> bytes) (deser : bytes -> option msg)
         (ps : list bytes) (ms : list msg) (tail : bytes),
    Forall2 (canon msg ser deser) ps ms ->
    (forall m r, decode crc32c msg deser RFile tail <> OMsg m r) -> tail <> [] ->
    let wal := frames crc32c ps ++ tail in
    file_overwrite wal (fst (repair crc32c msg ser deser wal)) = wal /\ wal <> frames crc32c ps.
Proof. exact top_repair_needs_truncate. Qed.
Print Assumptions C15_repair_needs_truncate.

(** A group whose rotated files are intact and whose head file is damaged after the records [cur]:
    after the OnStart repair steps every message of the rotated files and of the head's longest valid
    prefix reads back through a GroupReader, in order, followed by a clean end-of-log. *)
Theorem C15_repair_group :
  forall (msg : Type) (ser : msg -> bytes) (deser : bytes -> option msg)
         (g : group) (chunks : list (list bytes)) (cur : list bytes) (tail : bytes) (ms : list msg) (cont : bool),
    g_files g = map (frames crc32c) chunks -> g_head g = frames crc32c cur ++ tail ->
    Forall2 (canon msg ser deser) (concat chunks ++ cur) ms ->
    (forall m r, decode crc32c msg deser RFile tail <> OMsg m r) ->
    let g' := fst (repair_head crc32c msg ser deser g) in
    snd (repair_head crc32c msg ser deser g) = true /\
    disk_files g' = map (frames crc32c) (chunks ++ [cur]) /\
    read_log crc32c msg deser cont RGroup (group_stream g' (g_min g')) = map ObMsg ms ++ [ObEof].
Proof. exact top_repair_group. Qed.
Print Assumptions C15_repair_group.

(** SearchForEndHeight on the repaired group: as on an undamaged group holding those records *)
Theorem C15_repair_group_search :
  forall (msg : Type) (ser : msg -> bytes) (deser : bytes -> option msg) (end_height : msg -> option Z)
         (g : group) (chunks : list (list bytes)) (cur : list bytes) (tail : bytes) (ms : list msg) (h : Z) (ign : bool),
    g_files g = map (frames crc32c) chunks -> g_head g = frames crc32c cur ++ tail ->
    Forall2 (canon msg ser deser) (concat chunks ++ cur) ms ->
    (forall m r, decode crc32c msg deser RFile tail <> OMsg m r) ->
    StronglySorted Z.lt (pos_marks msg deser end_height (concat chunks ++ cur)) ->
    let g' := fst (repair_head crc32c msg ser deser g) in
    (forall pre p0 post, (0 < h)%Z -> concat chunks ++ cur = pre ++ p0 :: post ->
       mark msg deser end_height p0 = Some h ->
       search crc32c msg deser end_height g' h ign = SFound (frames crc32c post)) /\
    ((h <= 0)%Z -> In h (marks msg deser end_height (concat chunks ++ cur)) ->
       exists rest, search crc32c msg deser end_height g' h ign = SFound rest) /\
    (~ In h (marks msg deser end_height (concat chunks ++ cur)) ->
       search crc32c msg deser end_height g' h ign = SNotFound).
Proof. exact top_repair_group_search. Qed.
Print Assumptions C15_repair_group_search.

Theorem C15_repair_group_example :
  let g := mkGroup 0 [frame crc32c [3%N]] (frame crc32c [7%N] ++ [1%N; 2%N; 3%N]) [] 0 in
  repair_head crc32c Z toy_ser toy_deser g = (mkGroup 0 [frame crc32c [3%N]] (frame crc32c [7%N]) [] 0, true).
Proof. exact toy_repair_group. Qed.
Print Assumptions C15_repair_group_example.

(** the zero-fill behaviour of the os.File reader (used by repairWalFile) is real: a frame cut
    inside trailing zero bytes is completed and decoded, to the message that was written; the
    GroupReader reports the same bytes as corrupt *)
Theorem C15_zero_fill_quirk :
  let fr := frame crc32c [5%N; 0%N] in
  decode crc32c Z toy2_deser RFile (firstn 9 fr) = OMsg 5%Z [] /\
  (exists c r, decode crc32c Z toy2_deser RGroup (firstn 9 fr) = OCorrupt c r).
Proof. exact zero_fill_quirk. Qed.
Print Assumptions C15_zero_fill_quirk.

(** Source tie: the model's size-limit tests (Encode, Decode), the checksum comparison, the tests of
    SearchForEndHeight (early exit [lastHeightFound > 0 && lastHeightFound < height], found, skip-corrupted,
    the file loop bound), OnStart's [size == 0], checkHeadSizeLimit, checkTotalSizeLimit (switch-off,
    [i < maxFilesToRemove], [totalSize < limit], [index == gInfo.MaxIndex], [totalSize -= size]),
    readGroupInfo's running minimum / maximum and the readers' index tests ARE the expressions of
    consensus/wal.go and lib/autofile/group.go, on the operands named there, as /verif/go2coq regenerates
    them from the Go source on every check (statement spelled out in SourceTie.v). *)
From Kardia Require Import C15.SourceTie.
Theorem C15_source_tie : C15_source_tie_statement.
Proof. exact C15_source_tie_proof. Qed.
Print Assumptions C15_source_tie.

(** The decision-critical functions of the anchored code have exactly the decisions the source tie knows about
    (go2coq manifests, regenerated from /repo on every check; statement in SourceManifest.v). *)
From Kardia Require Import C15.SourceManifest.
Theorem C15_source_manifest : C15_source_manifest_statement.
Proof. exact C15_source_manifest_proof. Qed.
Print Assumptions C15_source_manifest.
