(** C15 — framing and decoder lemmas (any checksum function with 32-bit values). *)
From Coq Require Import List ZArith NArith Bool Lia Arith.
From Kardia Require Import C15.Crc32c C15.ProofsCrc C15.Model Generated.C15Facts.
Import ListNotations.
Ltac Zify.zify_post_hook ::= Z.div_mod_to_equations.
Set Default Proof Using "Type".

(** side condition on the constant regenerated from the source on every run *)
Lemma max_fits : (max_msg_size_bytes < 4294967296)%N.
Proof. reflexivity. Qed.

(** ** lists *)
Lemma firstn_length_app {A} (p r : list A) : firstn (length p) (p ++ r) = p.
Proof. induction p; cbn; congruence. Qed.
Lemma skipn_length_app {A} (p r : list A) : skipn (length p) (p ++ r) = r.
Proof. induction p; cbn; congruence. Qed.
Lemma firstn_app_le {A} n (a b : list A) : n <= length a -> firstn n (a ++ b) = firstn n a.
Proof. intro H. rewrite firstn_app. replace (n - length a) with 0 by lia. cbn. apply app_nil_r. Qed.
Lemma firstn_app_ge {A} n (a b : list A) : length a <= n -> firstn n (a ++ b) = a ++ firstn (n - length a) b.
Proof. intro H. rewrite firstn_app. rewrite firstn_all2 by lia. reflexivity. Qed.
Lemma repeat_app_nil {A} (x : A) : repeat x 0 = []. Proof. reflexivity. Qed.

Lemma wf_app a b : wf_bytes (a ++ b) <-> wf_bytes a /\ wf_bytes b.
Proof. unfold wf_bytes. apply Forall_app. Qed.
Lemma wf_firstn n a : wf_bytes a -> wf_bytes (firstn n a).
Proof. unfold wf_bytes. intro H. rewrite <- (firstn_skipn n a) in H. apply Forall_app in H. tauto. Qed.
Lemma wf_skipn n a : wf_bytes a -> wf_bytes (skipn n a).
Proof. unfold wf_bytes. intro H. rewrite <- (firstn_skipn n a) in H. apply Forall_app in H. tauto. Qed.
Lemma wf_repeat0 n : wf_bytes (repeat 0%N n).
Proof. unfold wf_bytes. apply Forall_forall. intros x Hx. apply repeat_spec in Hx. subst. reflexivity. Qed.

(** ** big-endian 32-bit fields *)
Lemma be32_length x : length (be32 x) = 4. Proof. reflexivity. Qed.

Lemma be32_wf x : wf_bytes (be32 x).
Proof. unfold be32, wf_bytes. repeat constructor; apply N.mod_lt; discriminate. Qed.

Lemma of_be32_be32 x : (x < 4294967296)%N -> of_be32 (be32 x) = x.
Proof.
  intro H. unfold of_be32, be32.
  assert (E1 := N.div_mod' x 256). assert (E2 := N.div_mod' (x / 256) 256). assert (E3 := N.div_mod' (x / 65536) 256).
  rewrite N.div_div in E2 by discriminate. change (256 * 256)%N with 65536%N in E2.
  rewrite N.div_div in E3 by discriminate. change (65536 * 256)%N with 16777216%N in E3.
  assert (B : (x / 16777216 < 256)%N) by (apply N.div_lt_upper_bound; [discriminate|exact H]).
  rewrite (N.mod_small (x / 16777216) 256) by exact B.
  remember (x / 16777216)%N as y3. remember (x / 65536 mod 256)%N as m2. remember (x / 65536)%N as y2.
  remember (x / 256 mod 256)%N as m1. remember (x / 256)%N as y1. remember (x mod 256)%N as m0.
  clear - E1 E2 E3. subst x y1 y2. ring.
Qed.

Lemma digit_div q B r : (r < B)%N -> ((q * B + r) / B = q)%N.
Proof. intro H. symmetry. apply (N.div_unique _ B q r); auto. ring. Qed.
Lemma digit_mod q r : (r < 256)%N -> ((q * 256 + r) mod 256 = r)%N.
Proof. intro H. symmetry. apply (N.mod_unique _ 256 q r); auto. ring. Qed.

Lemma be32_of_be32 b : length b = 4 -> wf_bytes b -> be32 (of_be32 b) = b.
Proof.
  intros L W. destruct b as [|a [|b [|c [|d [|e t]]]]]; try discriminate L.
  unfold wf_bytes in W.
  inversion W as [|? ? Ha W1]; subst. inversion W1 as [|? ? Hb W2]; subst.
  inversion W2 as [|? ? Hc W3]; subst. inversion W3 as [|? ? Hd W4]; subst.
  unfold of_be32, be32.
  set (v := (((a * 256 + b) * 256 + c) * 256 + d)%N).
  assert (D3 : (v / 16777216 = a)%N).
  { replace v with (a * 16777216 + (b * 65536 + c * 256 + d))%N by (unfold v; ring). apply digit_div. lia. }
  assert (D2 : (v / 65536 = a * 256 + b)%N).
  { replace v with ((a * 256 + b) * 65536 + (c * 256 + d))%N by (unfold v; ring). apply digit_div. lia. }
  assert (D1 : (v / 256 = (a * 256 + b) * 256 + c)%N).
  { unfold v. apply digit_div. exact Hd. }
  rewrite D3, D2, D1. unfold v. rewrite !digit_mod by assumption. rewrite (N.mod_small a 256) by exact Ha.
  reflexivity.
Qed.

Lemma of_be32_lt b : length b = 4 -> wf_bytes b -> (of_be32 b < 4294967296)%N.
Proof.
  intros L W. destruct b as [|a [|b [|c [|d [|e t]]]]]; try discriminate L.
  unfold wf_bytes in W.
  inversion W as [|? ? Ha W1]; subst. inversion W1 as [|? ? Hb W2]; subst.
  inversion W2 as [|? ? Hc W3]; subst. inversion W3 as [|? ? Hd W4]; subst.
  unfold of_be32. lia.
Qed.

Lemma be32_inj x y : (x < 4294967296)%N -> (y < 4294967296)%N -> be32 x = be32 y -> x = y.
Proof. intros Hx Hy E. rewrite <- (of_be32_be32 x Hx), <- (of_be32_be32 y Hy), E. reflexivity. Qed.

Lemma lenN_length (p : bytes) : N.to_nat (lenN p) = length p.
Proof. unfold lenN. apply Nat2N.id. Qed.

Lemma shorter_spec bs n : shorter bs n = Nat.ltb (length bs) n.
Proof.
  revert bs. induction n as [|n IH]; intros [|b bs]; cbn [shorter length]; auto.
  rewrite IH. reflexivity.
Qed.

(** ** the three reads of Decode *)
Lemma rd_ok k n bs d r :
  rd k n bs = (d, r, ROk) ->
  length d = n /\ exists z, bs ++ repeat 0%N z = d ++ r /\ (z = 0 \/ (k = RFile /\ r = [] /\ bs <> [])).
Proof.
  destruct k; cbn [rd].
  - destruct n as [|n].
    + intro E. inversion E; subst. split; auto. exists 0. cbn. rewrite app_nil_r. auto.
    + destruct bs as [|b bs]; [discriminate|].
      assert (NE : b :: bs <> []) by discriminate. remember (b :: bs) as l eqn:Hl. clear Hl b bs.
      intro E. assert (Ed : d = pad_to (S n) (firstn (S n) l)) by congruence.
      assert (Er : r = skipn (S n) l) by congruence. clear E. subst d r.
      unfold pad_to. destruct (le_lt_dec (S n) (length l)) as [L|L].
      * rewrite (firstn_length_le l L). replace (S n - S n) with 0 by lia. cbn [repeat].
        rewrite app_nil_r. split; [apply firstn_length_le; exact L|].
        exists 0. cbn [repeat]. rewrite app_nil_r, firstn_skipn. auto.
      * rewrite (firstn_all2 l) by lia. rewrite (skipn_all2 l) by lia. split.
        { rewrite app_length, repeat_length. lia. }
        exists (S n - length l). rewrite app_nil_r. split; auto.
  - destruct n as [|n]; [discriminate|]. rewrite shorter_spec.
    destruct (Nat.ltb (length bs) (S n)) eqn:L; [discriminate|].
    apply Nat.ltb_ge in L. intro E. assert (Ed : d = firstn (S n) bs) by congruence.
    assert (Er : r = skipn (S n) bs) by congruence. clear E. subst d r. split; [apply firstn_length_le; exact L|].
    exists 0. cbn [repeat]. rewrite app_nil_r, firstn_skipn. auto.
Qed.

Lemma rd_full k p r : p <> [] -> rd k (length p) (p ++ r) = (p, r, ROk).
Proof.
  intro Hp. destruct p as [|a p]; [congruence|]. remember (a :: p) as q eqn:Hq.
  assert (Lq : exists n0, length q = S n0) by (subst q; cbn; eauto). destruct Lq as [n0 Lq].
  assert (NE : exists b l, q ++ r = b :: l) by (subst q; cbn; eauto). destruct NE as [b [l NE]].
  clear Hq Hp a p. unfold rd. destruct k.
  - rewrite Lq, NE. cbv beta iota. rewrite <- Lq, <- NE.
    rewrite firstn_length_app, skipn_length_app. unfold pad_to. rewrite Nat.sub_diag. cbn [repeat]. rewrite app_nil_r. reflexivity.
  - assert (L : Nat.ltb (length (q ++ r)) (length q) = false).
    { apply Nat.ltb_ge. rewrite app_length. lia. }
    rewrite Lq in *. cbv beta iota. rewrite shorter_spec, L. rewrite <- Lq.
    rewrite firstn_length_app, skipn_length_app. reflexivity.
Qed.

Lemma rd_4 k a b c d r : rd k 4 (a :: b :: c :: d :: r) = ([a; b; c; d], r, ROk).
Proof. apply (rd_full k [a; b; c; d] r). discriminate. Qed.

Lemma rd_rest_le k n bs b r s : rd k n bs = (b, r, s) -> length r <= length bs.
Proof.
  destruct k; cbn [rd].
  - destruct n; [intro E; assert (r = bs) by congruence; subst; lia|].
    destruct bs as [|x bs']; [intro E; assert (r = []) by congruence; subst; cbn; lia|].
    remember (x :: bs') as l. intro E. assert (r = skipn (S n) l) by congruence. subst r. rewrite skipn_length. lia.
  - destruct n; [intro E; assert (r = bs) by congruence; subst; lia|]. rewrite shorter_spec.
    destruct (Nat.ltb (length bs) (S n)); intro E.
    + assert (r = []) by congruence. subst. cbn. lia.
    + assert (r = skipn (S n) bs) by congruence. subst r. rewrite skipn_length. lia.
Qed.

Lemma rd_rest_lt k n bs b r : rd k (S n) bs = (b, r, ROk) -> length r < length bs.
Proof.
  destruct k; cbn [rd].
  - destruct bs as [|x bs']; [discriminate|].
    remember (x :: bs') as l. intro E. assert (r = skipn (S n) l) by congruence. subst r. rewrite skipn_length. subst l. cbn. lia.
  - rewrite shorter_spec. destruct (Nat.ltb (length bs) (S n)) eqn:L; [discriminate|]. apply Nat.ltb_ge in L. intro E.
    assert (r = skipn (S n) bs) by congruence. subst r. rewrite skipn_length. lia.
Qed.

Lemma lenN_le_max_lt p : (lenN p <= max_msg_size_bytes)%N -> (lenN p < 4294967296)%N.
Proof. pose proof max_fits. lia. Qed.


Section FrameBasic.
  Variable crc : bytes -> N.
  Notation frame := (frame crc).
  Lemma frame_length p : length (frame p) = 8 + length p.
  Proof. unfold Model.frame. rewrite !app_length, !be32_length. lia. Qed.

  Lemma frame_wf p : wf_bytes p -> wf_bytes (frame p).
  Proof. intro H. unfold Model.frame. apply wf_app. split; [apply be32_wf|]. apply wf_app. split; [apply be32_wf|auto]. Qed.

End FrameBasic.

Section Decode.
  Variable crc : bytes -> N.
  Hypothesis crc_range : forall x, wf_bytes x -> (crc x < 4294967296)%N.
  Variable msg : Type.
  Variable deser : bytes -> option msg.

  Notation frame := (frame crc).
  Notation frames := (frames crc).
  Notation decode := (decode crc msg deser).
  Notation decode_full := (decode_full crc msg deser).

  (** completeness: a well-formed frame at the head of the stream is decoded, by both readers *)
  Lemma decode_frame k p m rest :
    wf_bytes p -> (lenN p <= max_msg_size_bytes)%N -> p <> [] -> deser p = Some m ->
    decode_full k (frame p ++ rest) = (OMsg m rest, lenN p).
  Proof using crc_range.
    intros Wp Hl Hne Hd. unfold Model.decode_full, Model.frame.
    unfold be32 at 1. cbn [app]. rewrite rd_4.
    unfold be32 at 1. cbn [app]. rewrite rd_4.
    fold (be32 (lenN p)). fold (be32 (crc p)).
    rewrite !of_be32_be32 by (auto using lenN_le_max_lt).
    assert (M : (max_msg_size_bytes <? lenN p)%N = false) by (apply N.ltb_ge; exact Hl).
    rewrite M, lenN_length, rd_full by exact Hne.
    rewrite N.eqb_refl, Hd. reflexivity.
  Qed.

  Lemma decode_nil k : decode k [] = OEof.
  Proof using crc_range. destruct k; reflexivity. Qed.

  (** soundness, for any bytes: a message is returned only for a CRC-consistent frame at the head
      of the stream whose length field is within the limit; the os.File reader may have completed
      the last read with zero bytes ([z] of them), only at the very end of the file. *)
  Lemma decode_sound k bs m rest a :
    wf_bytes bs -> decode_full k bs = (OMsg m rest, a) ->
    exists p z, deser p = Some m /\ (lenN p <= max_msg_size_bytes)%N /\ a = lenN p /\ wf_bytes p /\
                bs ++ repeat 0%N z = frame p ++ rest /\
                (z = 0 \/ (k = RFile /\ rest = [] /\ z < length (frame p))).
  Proof using crc_range.
    intros W. unfold Model.decode_full.
    destruct (rd k 4 bs) as [[b1 r1] s1] eqn:E1. destruct s1; try discriminate.
    destruct (rd k 4 r1) as [[b2 r2] s2] eqn:E2. destruct s2; try discriminate.
    destruct (max_msg_size_bytes <? of_be32 b2)%N eqn:M; try discriminate.
    destruct (rd k (N.to_nat (of_be32 b2)) r2) as [[d r3] s3] eqn:E3. destruct s3; try discriminate.
    destruct (crc d =? of_be32 b1)%N eqn:C; try discriminate.
    destruct (deser d) as [m'|] eqn:D; try discriminate.
    intro E. inversion E; subst m' r3 a. clear E.
    apply N.ltb_ge in M. apply N.eqb_eq in C.
    apply rd_ok in E1. destruct E1 as [L1 [z1 [A1 Z1]]].
    apply rd_ok in E2. destruct E2 as [L2 [z2 [A2 Z2]]].
    apply rd_ok in E3. destruct E3 as [L3 [z3 [A3 Z3]]].
    (* all bytes involved are well formed *)
    assert (W1 : wf_bytes (b1 ++ r1)) by (rewrite <- A1; apply wf_app; auto using wf_repeat0).
    apply wf_app in W1. destruct W1 as [Wb1 Wr1].
    assert (W2 : wf_bytes (b2 ++ r2)) by (rewrite <- A2; apply wf_app; auto using wf_repeat0).
    apply wf_app in W2. destruct W2 as [Wb2 Wr2].
    assert (W3 : wf_bytes (d ++ rest)) by (rewrite <- A3; apply wf_app; auto using wf_repeat0).
    apply wf_app in W3. destruct W3 as [Wd Wr3].
    assert (Ld : lenN d = of_be32 b2).
    { unfold lenN. rewrite L3. apply N2Nat.id. }
    assert (F : frame d = b1 ++ b2 ++ d).
    { unfold Model.frame. rewrite C, Ld, !be32_of_be32; auto. }
    exists d.
    (* the first read cannot have been short: the second one would have hit end of file *)
    assert (z1 = 0).
    { destruct Z1 as [?|[? [? ?]]]; auto. subst k r1. cbn in A2. destruct Z2 as [?|[_ [_ N]]]; [|congruence].
      subst z2. cbn in A2. symmetry in A2. apply app_eq_nil in A2. destruct A2; subst b2. discriminate L2. }
    subst z1. cbn [repeat] in A1. rewrite app_nil_r in A1. subst bs.
    destruct Z2 as [?|[? [? Hr1]]].
    - subst z2. cbn [repeat] in A2. rewrite app_nil_r in A2. subst r1.
      exists z3. repeat split; auto; try lia.
      + rewrite F, <- !app_assoc, A3. reflexivity.
      + destruct Z3 as [?|[? [? ?]]]; auto. right. repeat split; auto.
        assert (length (r2 ++ repeat 0%N z3) = length (d ++ rest)) by (rewrite A3; reflexivity).
        rewrite !app_length, repeat_length in H2. subst rest. cbn in H2.
        rewrite frame_length. destruct r2; [congruence|]. cbn in H2. lia.
    - (* the length field itself was short: only a zero-length payload can follow *)
      subst k r2. exists z2.
      assert (d = [] /\ rest = []).
      { destruct Z3 as [?|[_ [_ N]]]; [|congruence]. subst z3. cbn in A3. symmetry in A3. apply app_eq_nil in A3. exact A3. }
      destruct H as [? ?]; subst d rest.
      repeat split; auto; try lia.
      + rewrite F, <- app_assoc, A2, !app_nil_r. reflexivity.
      + right. repeat split; auto. rewrite frame_length. cbn.
        assert (length (r1 ++ repeat 0%N z2) = length (b2 ++ [])) by (rewrite A2; reflexivity).
        rewrite !app_length, repeat_length in H. cbn in H. lia.
  Qed.

  (** the declared length is compared with the limit before the buffer is made *)
  Lemma decode_alloc_bound k bs : (snd (decode_full k bs) <= max_msg_size_bytes)%N.
  Proof using crc_range.
    unfold Model.decode_full.
    destruct (rd k 4 bs) as [[b1 r1] s1]. destruct s1; cbn; try lia.
    destruct (rd k 4 r1) as [[b2 r2] s2]. destruct s2; cbn; try lia.
    destruct (max_msg_size_bytes <? of_be32 b2)%N eqn:M; cbn; try lia.
    apply N.ltb_ge in M.
    destruct (rd k (N.to_nat (of_be32 b2)) r2) as [[d r3] s3]. destruct s3; cbn; try lia.
    destruct (crc d =? of_be32 b1)%N; cbn; try lia. destruct (deser d); cbn; lia.
  Qed.

  (** a declared length above the limit is always refused, before any allocation *)
  Lemma decode_too_big k c1 c2 c3 c4 l rest :
    length l = 4 -> (max_msg_size_bytes < of_be32 l)%N ->
    decode_full k (c1 :: c2 :: c3 :: c4 :: l ++ rest) = (OCorrupt CTooBig rest, 0%N).
  Proof using crc_range.
    intros L H. destruct l as [|a [|b [|c [|d [|e t]]]]]; try discriminate L.
    unfold Model.decode_full. rewrite rd_4. cbn [app]. rewrite rd_4.
    apply N.ltb_lt in H. rewrite H. reflexivity.
  Qed.

  (** every Decode call that is not end-of-file consumes input *)
  Lemma decode_consumes k bs :
    match decode k bs with
    | OMsg _ rest | OCorrupt _ rest => length rest < length bs
    | OEof => True
    end.
  Proof using crc_range.
    unfold Model.decode, Model.decode_full.
    destruct (rd k 4 bs) as [[b1 r1] s1] eqn:E1.
    pose proof (rd_rest_le _ _ _ _ _ _ E1) as Q1.
    destruct s1; cbn [fst]; auto.
    - pose proof (rd_rest_lt _ _ _ _ _ E1) as R.
      destruct (rd k 4 r1) as [[b2 r2] s2] eqn:E2. pose proof (rd_rest_le _ _ _ _ _ _ E2) as Q2.
      destruct s2; cbn [fst]; try lia.
      destruct (max_msg_size_bytes <? of_be32 b2)%N; cbn [fst]; try lia.
      destruct (rd k (N.to_nat (of_be32 b2)) r2) as [[d r3] s3] eqn:E3. pose proof (rd_rest_le _ _ _ _ _ _ E3) as Q3.
      destruct s3; cbn [fst]; try lia.
      destruct (crc d =? of_be32 b1)%N; cbn [fst]; try lia. destruct (deser d); cbn [fst]; lia.
    - exfalso. destruct k; cbn [rd] in E1.
      + destruct bs; discriminate.
      + destruct (shorter bs 4); discriminate.
  Qed.

End Decode.
