(** C15 — whole-log lemmas: round trip, truncation, single-byte damage, repair. *)
From Coq Require Import List ZArith NArith Bool Lia Arith.
From Kardia Require Import Base.ListX C15.Crc32c C15.ProofsCrc C15.Model C15.ProofsFrame Generated.C15Facts.
Import ListNotations.

Lemma app_inv_len {A} (a b c d : list A) : a ++ b = c ++ d -> length a = length c -> a = c /\ b = d.
Proof.
  revert c. induction a as [|x a IH]; intros [|y c] E L; try discriminate L; cbn in *; auto.
  injection E as -> E. destruct (IH c E) as [-> ->]; auto.
Qed.

Lemma bytes_eq_dec (a b : bytes) : {a = b} + {a <> b}.
Proof. apply list_eq_dec. apply N.eq_dec. Qed.

Section FramesBasic.
  Variable crc : bytes -> N.
  Notation frame := (frame crc).
  Notation frames := (frames crc).
  Lemma frames_cons p ps : frames (p :: ps) = frame p ++ frames ps.
  Proof. reflexivity. Qed.

  Lemma frames_app a b : frames (a ++ b) = frames a ++ frames b.
  Proof. unfold Model.frames. rewrite map_app, concat_app. reflexivity. Qed.

  Lemma frames_length_ge ps : length ps <= length (frames ps).
  Proof.
    induction ps as [|p ps IH]; [cbn; lia|]. rewrite frames_cons, app_length, frame_length. cbn [length]. lia.
  Qed.

End FramesBasic.

Section Log.
  Variable crc : bytes -> N.
  Hypothesis crc_range : forall x, wf_bytes x -> (crc x < 4294967296)%N.
  Variable msg : Type.
  Variable ser : msg -> bytes.
  Variable deser : bytes -> option msg.

  Notation frame := (frame crc).
  Notation frames := (frames crc).
  Notation decode := (decode crc msg deser).
  Notation decode_full := (decode_full crc msg deser).
  Notation decode_all := (decode_all crc msg deser).
  Notation read_log := (read_log crc msg deser).

  (** a payload as the WAL writes them: it unmarshals to [m], is non-empty and within the limit *)
  Definition good (p : bytes) (m : msg) : Prop :=
    deser p = Some m /\ wf_bytes p /\ p <> [] /\ (lenN p <= max_msg_size_bytes)%N.

  (** a CRC collision on a payload that also unmarshals: the only way a damaged log can yield a
      message that was not written *)
  Definition collision (p : bytes) : Prop :=
    exists p', p' <> p /\ crc p' = crc p /\ deser p' <> None.

  Lemma decode_frame' k p m rest : good p m -> decode k (frame p ++ rest) = OMsg m rest.
  Proof.
    intros [D [W [NE L]]]. unfold Model.decode. rewrite (decode_frame crc crc_range msg deser k p m rest); auto.
  Qed.

  Lemma decode_all_nil cont f k : decode_all cont (S f) k [] = [ObEof].
  Proof. cbn [Model.decode_all]. rewrite (decode_nil crc crc_range). reflexivity. Qed.

  (** reading whole frames: the messages come back in order, then whatever follows *)
  Lemma decode_all_frames cont k : forall ps ms, Forall2 good ps ms -> forall f tail,
    decode_all cont (length ps + f) k (frames ps ++ tail) = map ObMsg ms ++ decode_all cont f k tail.
  Proof.
    induction 1 as [|p m ps ms G _ IH]; intros f tail; [reflexivity|].
    cbn [length Nat.add Model.decode_all]. rewrite frames_cons, <- app_assoc, (decode_frame' k p m _ G).
    cbn [map app]. rewrite IH. reflexivity.
  Qed.

  Lemma roundtrip cont k ps ms :
    Forall2 good ps ms -> read_log cont k (frames ps) = map ObMsg ms ++ [ObEof].
  Proof.
    intro G. unfold Model.read_log. pose proof (frames_length_ge crc ps) as L.
    replace (S (length (frames ps))) with (length ps + S (length (frames ps) - length ps)) by lia.
    rewrite <- (app_nil_r (frames ps)) at 2. rewrite (decode_all_frames cont k ps ms G), decode_all_nil. reflexivity.
  Qed.

  (** enough fuel is enough: every Decode call that is not end-of-log consumes input *)
  Lemma decode_all_fuel cont k : forall f1 f2 bs, length bs < f1 -> length bs < f2 ->
    decode_all cont f1 k bs = decode_all cont f2 k bs.
  Proof.
    induction f1 as [|f1 IH]; intros f2 bs L1 L2; [lia|]. destruct f2 as [|f2]; [lia|].
    cbn [Model.decode_all]. pose proof (decode_consumes crc crc_range msg deser k bs) as C.
    destruct (decode k bs) as [m rest| |c rest]; auto.
    - f_equal. apply IH; lia.
    - f_equal. destruct cont; auto. apply IH; lia.
  Qed.

  (** whatever follows the written records — garbage, a damaged record, nothing — the written
      messages come back first, in order; then the reader goes on with what follows *)
  Lemma read_log_frames_app cont k ps ms tail :
    Forall2 good ps ms -> read_log cont k (frames ps ++ tail) = map ObMsg ms ++ read_log cont k tail.
  Proof.
    intro G. unfold Model.read_log. pose proof (frames_length_ge crc ps) as L.
    replace (S (length (frames ps ++ tail))) with (length ps + (S (length (frames ps ++ tail)) - length ps))
      by (rewrite app_length; lia).
    rewrite (decode_all_frames cont k ps ms G). f_equal. apply decode_all_fuel; rewrite ?app_length; lia.
  Qed.

  (** a record that Decode reports as corrupt and steps over (its rest is [tail]): in stop mode the log
      ends there, in ignore mode reading goes on behind it *)
  Lemma read_log_corrupt cont k bad c tail :
    decode k (bad ++ tail) = OCorrupt c tail ->
    read_log cont k (bad ++ tail) = ObCorrupt c :: (if cont then read_log cont k tail else []).
  Proof.
    intro D. unfold Model.read_log. remember (S (length tail)) as ft eqn:Hft.
    cbn [Model.decode_all]. rewrite D. f_equal. destruct cont; auto.
    pose proof (decode_consumes crc crc_range msg deser k (bad ++ tail)) as C. rewrite D in C.
    apply decode_all_fuel; lia.
  Qed.

  (** ** truncation *)
  Lemma firstn8_frame p : firstn 8 (frame p) = be32 (crc p) ++ be32 (lenN p).
  Proof. reflexivity. Qed.
  Lemma firstn4_frame p : firstn 4 (frame p) = be32 (crc p).
  Proof. reflexivity. Qed.

  Lemma common_prefix j (t s zs f' r : bytes) f :
    f = t ++ s -> t ++ zs = f' ++ r -> j <= length t -> j <= length f' -> firstn j f = firstn j f'.
  Proof.
    intros -> E Lt Lf. rewrite firstn_app_le by exact Lt.
    rewrite <- (firstn_app_le j t zs) by exact Lt. rewrite E. apply firstn_app_le. exact Lf.
  Qed.

  Lemma decode_file_short t m r a : length t < 4 -> decode_full RFile t <> (OMsg m r, a).
  Proof.
    intro L. destruct t as [|x0 [|x1 [|x2 [|x3 t]]]]; cbn in L; try lia;
      unfold Model.decode_full; cbn [rd pad_to firstn skipn length app repeat Nat.sub]; discriminate.
  Qed.

  (** the decoder on a proper prefix of one frame *)
  Lemma decode_cut k p m n :
    good p m -> n < length (frame p) ->
    let t := firstn n (frame p) in
    decode k t = OEof \/ (exists c r, decode k t = OCorrupt c r) \/
    (k = RFile /\ 0 < n /\ decode k t = OMsg m []) \/ (k = RFile /\ collision p).
  Proof.
    intros [D [W [NE L]]] Hn t. unfold Model.decode.
    destruct (decode_full k t) as [o a] eqn:E. destruct o as [m' r| |c r]; cbn [fst]; eauto.
    right. right.
    assert (Wt : wf_bytes t) by (apply wf_firstn, frame_wf; auto).
    assert (Lt : length t = n) by (apply firstn_length_le; lia).
    assert (Split : frame p = t ++ skipn n (frame p)) by (symmetry; apply firstn_skipn).
    destruct (le_lt_dec 4 n) as [N4|N4].
    2:{ exfalso. destruct (decode_sound crc crc_range msg deser k t m' r a Wt E) as [p' [z [_ [_ [_ [_ [A Z]]]]]]].
        destruct Z as [->|[-> _]].
        - cbn [repeat] in A. rewrite app_nil_r in A. assert (length t = length (frame p' ++ r)) by (rewrite A; reflexivity).
          rewrite app_length, frame_length in H. lia.
        - eapply decode_file_short; [|exact E]. lia. }
    destruct (decode_sound crc crc_range msg deser k t m' r a Wt E) as [p' [z [D' [L' [_ [W' [A Z]]]]]]].
    assert (C : crc p = crc p').
    { pose proof (common_prefix 4 t _ _ _ _ _ Split A) as P. rewrite !firstn4_frame in P.
      apply be32_inj; auto. apply P; [lia|rewrite frame_length; lia]. }
    assert (Z' : k = RFile /\ r = []).
    { destruct Z as [->|[? [? _]]]; auto. exfalso. cbn [repeat] in A. rewrite app_nil_r in A.
      assert (Len : length t = length (frame p' ++ r)) by (rewrite A; reflexivity).
      rewrite app_length, frame_length in Len.
      destruct (le_lt_dec 8 n) as [N8|N8]; [|lia].
      assert (A0 : t ++ [] = frame p' ++ r) by (rewrite app_nil_r; exact A).
      pose proof (common_prefix 8 t _ _ _ _ _ Split A0) as P. rewrite !firstn8_frame in P.
      assert (Q : be32 (crc p) ++ be32 (lenN p) = be32 (crc p') ++ be32 (lenN p')) by (apply P; [lia|rewrite frame_length; lia]).
      apply app_inv_len in Q; [|reflexivity]. destruct Q as [_ Q].
      apply be32_inj in Q; [|pose proof max_fits; lia|pose proof max_fits; lia].
      unfold lenN in Q. apply Nat2N.inj in Q. rewrite frame_length in Hn. lia. }
    destruct Z' as [-> ->].
    destruct (bytes_eq_dec p' p) as [->|Hne].
    - left. repeat split; auto; try lia. rewrite D in D'. congruence.
    - right. split; auto. exists p'. repeat split; auto. congruence.
  Qed.

  (** Every proper prefix of a valid log decodes to a prefix of the written messages, then
      end-of-log or a corruption error — or (os.File reader only, which zero-fills a short read)
      exhibits a CRC collision on a payload that unmarshals. *)
  Lemma truncation k : forall ps ms, Forall2 good ps ms -> forall n fuel,
    n < length (frames ps) -> n < fuel ->
    (exists j tail, decode_all false fuel k (firstn n (frames ps)) = map ObMsg (firstn j ms) ++ tail /\
                    (tail = [ObEof] \/ exists c, tail = [ObCorrupt c])) \/
    (k = RFile /\ exists p, In p ps /\ collision p).
  Proof.
    induction 1 as [|p m ps ms G GS IH]; intros n fuel Hn Hf; [cbn in Hn; lia|].
    rewrite frames_cons in *. rewrite app_length, frame_length in Hn.
    destruct fuel as [|f]; [lia|].
    destruct (le_lt_dec (length (frame p)) n) as [Ge|Lt].
    - (* the cut is after this frame *)
      rewrite firstn_app_ge by exact Ge. cbn [Model.decode_all]. rewrite (decode_frame' k p m _ G).
      rewrite frame_length in *.
      destruct (IH (n - (8 + length p)) f) as [[j [tail [E T]]]|[-> [q [I C]]]]; try lia.
      + left. exists (S j), tail. cbn [firstn map app]. rewrite E. auto.
      + right. split; auto. exists q. split; auto. right. exact I.
    - (* the cut is inside this frame *)
      rewrite firstn_app_le by lia. cbn [Model.decode_all].
      destruct (decode_cut k p m n G Lt) as [E|[[c [r E]]|[[-> [Pos E]]|[-> C]]]].
      + left. exists 0, [ObEof]. rewrite E. cbn. auto.
      + left. exists 0, [ObCorrupt c]. rewrite E. cbn. eauto.
      + left. exists 1, [ObEof]. rewrite E. destruct f as [|f]; [lia|]. rewrite decode_all_nil.
        destruct ms; cbn; auto.
      + right. split; auto. exists p. split; auto. left. reflexivity.
  Qed.

  (** ** damage inside one frame *)
  Lemma decode_crc_mismatch k c' p rest :
    length c' = 4 -> (lenN p <= max_msg_size_bytes)%N -> p <> [] -> of_be32 c' <> crc p ->
    decode k (c' ++ be32 (lenN p) ++ p ++ rest) = OCorrupt CCrc rest.
  Proof.
    intros Lc L NE H. destruct c' as [|a [|b [|c [|d [|e t]]]]]; try discriminate Lc.
    unfold Model.decode, Model.decode_full. cbn [app]. rewrite rd_4.
    unfold be32 at 1. cbn [app]. rewrite rd_4. fold (be32 (lenN p)).
    rewrite of_be32_be32 by (pose proof max_fits; lia).
    assert (M : (max_msg_size_bytes <? lenN p)%N = false) by (apply N.ltb_ge; exact L).
    rewrite M, lenN_length, rd_full by exact NE.
    destruct (crc p =? of_be32 [a; b; c; d])%N eqn:C; [apply N.eqb_eq in C; congruence|reflexivity].
  Qed.

  (** a damaged length field: either an error, or an explicit CRC collision between payloads of
      different lengths *)
  Lemma lenflip_residual k l' p rest m' r' :
    length l' = 4 -> wf_bytes l' -> wf_bytes p -> wf_bytes rest -> (lenN p < 4294967296)%N ->
    l' <> be32 (lenN p) ->
    decode k (be32 (crc p) ++ l' ++ p ++ rest) = OMsg m' r' ->
    exists p', deser p' = Some m' /\ crc p' = crc p /\ lenN p' <> lenN p /\ l' = be32 (lenN p').
  Proof.
    intros Ll Wl Wp Wr Lp Hne E. unfold Model.decode in E.
    destruct (decode_full k (be32 (crc p) ++ l' ++ p ++ rest)) as [o a] eqn:E'. cbn [fst] in E. subst o.
    apply (decode_sound crc crc_range) in E'; auto.
    2:{ apply wf_app; split; [apply be32_wf|]. apply wf_app; split; auto. apply wf_app; auto. }
    destruct E' as [p' [z [D' [L' [_ [W' [A _]]]]]]]. exists p'.
    assert (P : firstn 8 ((be32 (crc p) ++ l' ++ p ++ rest) ++ repeat 0%N z) = firstn 8 (frame p' ++ r')) by (rewrite A; reflexivity).
    destruct l' as [|x0 [|x1 [|x2 [|x3 [|x4 t]]]]]; try discriminate Ll.
    rewrite (firstn_app_le 8 (frame p')) in P by (rewrite frame_length; lia). rewrite firstn8_frame in P.
    change (firstn 8 ((be32 (crc p) ++ [x0; x1; x2; x3] ++ p ++ rest) ++ repeat 0%N z))
      with (be32 (crc p) ++ [x0; x1; x2; x3]) in P.
    apply app_inv_len in P; [|reflexivity]. destruct P as [P1 P2].
    apply be32_inj in P1; auto. repeat split; auto.
    intro Q. apply Hne. rewrite P2, Q. reflexivity.
  Qed.

  (** ** repairWalFile *)
  Notation repair_loop := (repair_loop crc msg ser deser).
  Notation repair := (repair crc msg ser deser).

  Lemma encode_good p m : good p m -> encode crc p = Some (frame p).
  Proof.
    intros [_ [_ [_ L]]]. unfold Model.encode. rewrite N.mod_small by (pose proof max_fits; lia).
    assert (M : (max_msg_size_bytes <? lenN p)%N = false) by (apply N.ltb_ge; exact L). rewrite M. reflexivity.
  Qed.

  (** [canon p m]: re-marshalling the decoded message gives the payload back (true of everything
      the encoder wrote; checked by the harness on every written message) *)
  Definition canon (p : bytes) (m : msg) : Prop := good p m /\ ser m = p.

  Lemma repair_loop_frames : forall ps ms, Forall2 canon ps ms -> forall f tail acc,
    (forall m r, decode RFile tail <> OMsg m r) ->
    repair_loop (length ps + S f) (frames ps ++ tail) acc = (acc ++ frames ps, true).
  Proof.
    induction 1 as [|p m ps ms [G S] _ IH]; intros f tail acc T.
    - cbn [length Nat.add Model.repair_loop Model.frames map concat app]. rewrite app_nil_r.
      destruct (decode RFile tail) eqn:E; auto. exfalso. eapply T; eauto.
    - cbn [length Nat.add Model.repair_loop]. rewrite frames_cons, <- app_assoc, (decode_frame' RFile p m _ G).
      rewrite S, (encode_good p m G), IH by exact T. rewrite <- app_assoc. reflexivity.
  Qed.

  Lemma repair_prefix ps ms tail :
    Forall2 canon ps ms -> (forall m r, decode RFile tail <> OMsg m r) ->
    repair (frames ps ++ tail) = (frames ps, true).
  Proof.
    intros C T. unfold Model.repair. pose proof (frames_length_ge crc ps) as L.
    replace (S (length (frames ps ++ tail))) with (length ps + S (length (frames ps ++ tail) - length ps))
      by (rewrite app_length; lia).
    rewrite (repair_loop_frames ps ms C _ tail [] T). reflexivity.
  Qed.

  (** repairing a TRUNCATED log: the result is the frames of a prefix of the written records (the
      record cut by the truncation is dropped — or, os.File zero-fill, completed to exactly what it
      was); the only escape is an explicit CRC collision on a payload that unmarshals *)
  Lemma repair_loop_truncated : forall ps ms, Forall2 canon ps ms -> forall n fuel acc,
    n < length (frames ps) -> n < fuel ->
    (exists j, repair_loop fuel (firstn n (frames ps)) acc = (acc ++ frames (firstn j ps), true)) \/
    (exists p, In p ps /\ collision p).
  Proof.
    induction 1 as [|p m ps ms [G S] _ IH]; intros n fuel acc Hn Hf; [cbn in Hn; lia|].
    rewrite frames_cons in *. rewrite app_length, frame_length in Hn.
    destruct fuel as [|f]; [lia|].
    destruct (le_lt_dec (length (frame p)) n) as [Ge|Lt].
    - rewrite firstn_app_ge by exact Ge. cbn [Model.repair_loop]. rewrite (decode_frame' RFile p m _ G).
      rewrite S, (encode_good p m G). rewrite frame_length in *.
      destruct (IH (n - (8 + length p)) f (acc ++ frame p)) as [[j E]|[q [I C]]]; try lia.
      + left. exists (Datatypes.S j). cbn [firstn]. rewrite E, frames_cons, <- app_assoc. reflexivity.
      + right. exists q. split; auto. right. exact I.
    - rewrite firstn_app_le by lia. cbn [Model.repair_loop].
      destruct (decode_cut RFile p m n G Lt) as [E|[[c [r E]]|[[_ [Pos E]]|[_ C]]]].
      + left. exists 0. rewrite E. cbn [firstn]. change (frames []) with (@nil N). rewrite app_nil_r. reflexivity.
      + left. exists 0. rewrite E. cbn [firstn]. change (frames []) with (@nil N). rewrite app_nil_r. reflexivity.
      + left. exists 1. rewrite E, S, (encode_good p m G). destruct f as [|f]; [lia|].
        cbn [Model.repair_loop]. rewrite (decode_nil crc crc_range). cbn [firstn]. rewrite frames_cons.
        change (frames []) with (@nil N). rewrite app_nil_r. reflexivity.
      + right. exists p. split; auto. left. reflexivity.
  Qed.

  Lemma repair_truncated ps ms n :
    Forall2 canon ps ms -> n < length (frames ps) ->
    (exists j, repair (firstn n (frames ps)) = (frames (firstn j ps), true)) \/
    (exists p, In p ps /\ collision p).
  Proof.
    intros C Hn. unfold Model.repair. rewrite firstn_length_le by lia.
    destruct (repair_loop_truncated ps ms C n (Datatypes.S n) [] Hn) as [[j E]|R]; [lia| |right; exact R].
    left. exists j. exact E.
  Qed.

End Log.

(** ** single-byte damage, with the real CRC-32C *)
Section Flip.
  Variable msg : Type.
  Variable deser : bytes -> option msg.
  Notation frame := (frame crc32c).
  Notation decode := (decode crc32c msg deser).

  Lemma set_nth_app_l {A} i (x : A) a b : i < length a -> set_nth i x (a ++ b) = set_nth i x a ++ b.
  Proof. revert i. induction a as [|h a IH]; intros [|i] L; cbn in *; try lia; auto. rewrite IH by lia. reflexivity. Qed.
  Lemma set_nth_app_r {A} i (x : A) a b : length a <= i -> set_nth i x (a ++ b) = a ++ set_nth (i - length a) x b.
  Proof. revert i. induction a as [|h a IH]; intros i L; cbn in *. { rewrite Nat.sub_0_r. reflexivity. }
    destruct i as [|i]; [lia|]. cbn. rewrite IH by lia. reflexivity. Qed.
  Lemma set_nth_split {A} i (x d : A) l : i < length l ->
    exists pre suf, l = pre ++ nth i l d :: suf /\ set_nth i x l = pre ++ x :: suf /\ length pre = i.
  Proof.
    revert i. induction l as [|h l IH]; intros [|i] L; cbn in *; try lia.
    - exists [], l. auto.
    - destruct (IH i) as [pre [suf [E1 [E2 E3]]]]; [lia|]. exists (h :: pre), suf. cbn. rewrite <- E1, E2, E3. auto.
  Qed.

  Lemma wf_set_nth i b l : wf_bytes l -> (b < 256)%N -> wf_bytes (set_nth i b l).
  Proof.
    unfold wf_bytes. revert i. induction l as [|h l IH]; intros [|i] W B; cbn; auto; inversion W; subst; constructor; auto.
  Qed.

  (** changing any one byte of the CRC field or of the payload of a frame (in particular flipping
      any one bit there) is always reported as a checksum error — never a message *)
  Lemma bitflip_detected k p rest i b' :
    wf_bytes p -> p <> [] -> (lenN p <= max_msg_size_bytes)%N ->
    i < length (frame p) -> ~ (4 <= i < 8) -> (b' < 256)%N -> nth i (frame p) 0%N <> b' ->
    decode k (set_nth i b' (frame p) ++ rest) = OCorrupt CCrc rest.
  Proof.
    intros W NE L Hi Hout Hb Hne. rewrite frame_length in Hi.
    assert (CR : forall x, wf_bytes x -> (crc32c x < 4294967296)%N) by (apply crc32c_lt).
    destruct (le_lt_dec 4 i) as [I4|I4].
    - (* in the payload *)
      assert (I8 : 8 <= i) by lia. unfold Model.frame in *.
      rewrite set_nth_app_r in * by (rewrite be32_length; lia). rewrite be32_length in *.
      rewrite app_nth2 in Hne by (rewrite be32_length; lia). rewrite be32_length in Hne.
      rewrite set_nth_app_r in * by (rewrite be32_length; lia). rewrite be32_length in *.
      rewrite app_nth2 in Hne by (rewrite be32_length; lia). rewrite be32_length in Hne.
      replace (i - 4 - 4) with (i - 8) in * by lia.
      destruct (set_nth_split (i - 8) b' 0%N p) as [pre [suf [E1 [E2 E3]]]]; [lia|].
      remember (nth (i - 8) p 0%N) as b eqn:Hbdef.
      assert (Wp : wf_bytes (pre ++ b :: suf)) by (rewrite <- E1; exact W).
      apply wf_app in Wp. destruct Wp as [Wpre Wsuf].
      pose proof (Forall_inv Wsuf) as Hbb. pose proof (Forall_inv_tail Wsuf) as Wsuf'. cbv beta in Hbb.
      assert (LN : lenN p = lenN (set_nth (i - 8) b' p)) by (unfold lenN; rewrite set_nth_length; reflexivity).
      rewrite LN, <- !app_assoc.
      apply (decode_crc_mismatch crc32c crc32c_lt msg deser k (be32 (crc32c p))).
      + reflexivity.
      + rewrite <- LN. exact L.
      + rewrite E2. destruct pre; discriminate.
      + rewrite of_be32_be32 by (apply CR; exact W). rewrite E2. rewrite E1 at 1.
        apply crc32c_one_byte; auto.
    - (* in the CRC field *)
      unfold Model.frame in *. rewrite set_nth_app_l in * by (rewrite be32_length; lia).
      rewrite app_nth1 in Hne by (rewrite be32_length; lia). rewrite <- !app_assoc.
      apply (decode_crc_mismatch crc32c crc32c_lt msg deser k); auto.
      + rewrite set_nth_length. reflexivity.
      + intro Q. apply Hne.
        assert (E : be32 (of_be32 (set_nth i b' (be32 (crc32c p)))) = set_nth i b' (be32 (crc32c p))).
        { apply be32_of_be32; [rewrite set_nth_length; reflexivity|]. apply wf_set_nth; auto. apply be32_wf. }
        rewrite Q in E. rewrite E.
        assert (N : nth_error (set_nth i b' (be32 (crc32c p))) i = Some b') by (apply nth_error_set_nth_eq; rewrite be32_length; lia).
        apply nth_error_nth. exact N.
  Qed.
  (** the whole log with ONE record damaged in its CRC field or payload: every record before it reads
      back, the damaged one is reported as a checksum error — and nothing else: in stop mode
      (catchupReplay, repairWalFile) the log ends there, in ignore mode (SearchForEndHeight) every
      record behind it reads back too, then end-of-log.  Never a different message. *)
  Lemma bitflip_log cont k pre p post pre_ms post_ms i b' :
    Forall2 (good msg deser) pre pre_ms -> Forall2 (good msg deser) post post_ms ->
    wf_bytes p -> p <> [] -> (lenN p <= max_msg_size_bytes)%N ->
    i < length (frame p) -> ~ (4 <= i < 8) -> (b' < 256)%N -> nth i (frame p) 0%N <> b' ->
    read_log crc32c msg deser cont k (frames crc32c pre ++ set_nth i b' (frame p) ++ frames crc32c post) =
      map ObMsg pre_ms ++ ObCorrupt CCrc :: (if cont then map ObMsg post_ms ++ [ObEof] else []).
  Proof.
    intros Gpre Gpost W NE L Hi Hout Hb Hne.
    rewrite (read_log_frames_app crc32c crc32c_lt msg (fun _ => []) deser cont k pre pre_ms _ Gpre). f_equal.
    rewrite (read_log_corrupt crc32c crc32c_lt msg (fun _ => []) deser cont k _ CCrc (frames crc32c post))
      by (apply bitflip_detected; auto).
    f_equal. destruct cont; auto. apply (roundtrip crc32c crc32c_lt msg deser true k post post_ms Gpost).
  Qed.
End Flip.
