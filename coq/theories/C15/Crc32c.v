(** CRC-32C (Castagnoli), reflected, bit by bit — the function Go's
    [crc32.Checksum(data, crc32.MakeTable(crc32.Castagnoli))] computes
    (consensus/replay.go [crc32c], used by consensus/wal.go Encode/Decode).
    Bytes are [N] values below 256; the CRC state is an [N] below 2^32.
    No proofs here (see Proofs.v). *)
From Coq Require Import List NArith.
Import ListNotations.
Local Open Scope N_scope.

Definition poly : N := 0x82F63B78.
Definition mask32 : N := 0xFFFFFFFF.

(** one shift of the reflected LFSR *)
Definition crc_bit (c : N) : N :=
  if N.odd c then N.lxor (N.shiftr c 1) poly else N.shiftr c 1.

Definition crc_step8 (c : N) : N :=
  crc_bit (crc_bit (crc_bit (crc_bit (crc_bit (crc_bit (crc_bit (crc_bit c))))))).

(** absorb one byte *)
Definition crc_byte (c b : N) : N := crc_step8 (N.lxor c b).

Definition crc_update (c : N) (bs : list N) : N := fold_left crc_byte bs c.

Definition crc32c (bs : list N) : N := N.lxor (crc_update mask32 bs) mask32.
