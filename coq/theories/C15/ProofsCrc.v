(** CRC-32C facts used by C15: the per-bit update is GF(2)-linear and injective on 32-bit states,
    hence two byte strings that differ in exactly one byte have different checksums. *)
From Coq Require Import List ZArith NArith Bool Lia.
From Kardia Require Import C15.Crc32c.
Import ListNotations.
Local Open Scope N_scope.

Definition b32 (x : N) : Prop := N.shiftr x 32 = 0.
Definition wf_bytes (l : list N) : Prop := Forall (fun b => b < 256) l.

Lemma b32_lt x : b32 x <-> x < 4294967296.
Proof.
  unfold b32. rewrite N.shiftr_div_pow2. change (2 ^ 32) with 4294967296. split; intro H.
  - destruct (N.ltb_spec x 4294967296) as [L|L]; auto.
    assert (1 <= x / 4294967296) by (apply N.div_le_lower_bound; lia). lia.
  - apply N.div_small; auto.
Qed.

Lemma b32_byte b : b < 256 -> b32 b.
Proof. intro H. apply b32_lt. lia. Qed.

Lemma b32_lxor a b : b32 a -> b32 b -> b32 (N.lxor a b).
Proof. unfold b32. intros Ha Hb. rewrite N.shiftr_lxor, Ha, Hb. reflexivity. Qed.

Lemma b32_poly : b32 poly. Proof. reflexivity. Qed.
Lemma b32_mask : b32 mask32. Proof. reflexivity. Qed.

Lemma b32_shiftr1 a : b32 a -> b32 (N.shiftr a 1).
Proof.
  unfold b32. intro H. rewrite N.shiftr_shiftr. replace (1 + 32) with (32 + 1) by lia.
  rewrite <- N.shiftr_shiftr, H. reflexivity.
Qed.

Lemma b32_crc_bit c : b32 c -> b32 (crc_bit c).
Proof.
  intro H. unfold crc_bit. destruct (N.odd c).
  - apply b32_lxor; [apply b32_shiftr1; auto | apply b32_poly].
  - apply b32_shiftr1; auto.
Qed.

Lemma odd_lxor a b : N.odd (N.lxor a b) = xorb (N.odd a) (N.odd b).
Proof. rewrite <- !N.bit0_odd. apply N.lxor_spec. Qed.

(** GF(2)-linearity of one shift of the register *)
Lemma crc_bit_linear a b : crc_bit (N.lxor a b) = N.lxor (crc_bit a) (crc_bit b).
Proof.
  unfold crc_bit. rewrite odd_lxor. generalize poly as k. intro k.
  apply N.bits_inj. intro n.
  destruct (N.odd a), (N.odd b); cbn [xorb];
    repeat (rewrite ?N.lxor_spec, ?N.shiftr_spec'; try apply N.le_0_l);
    destruct (N.testbit a (n + 1)), (N.testbit b (n + 1)), (N.testbit k n); reflexivity.
Qed.

Lemma lxor_cancel_r a b k : N.lxor a k = N.lxor b k -> a = b.
Proof.
  intro H. apply (f_equal (fun x => N.lxor x k)) in H.
  rewrite !N.lxor_assoc, N.lxor_nilpotent, !N.lxor_0_r in H. exact H.
Qed.

Lemma testbit31_crc_bit c : b32 c -> N.testbit (crc_bit c) 31 = N.odd c.
Proof.
  intro H. unfold crc_bit.
  assert (T : N.testbit (N.shiftr c 1) 31 = false).
  { rewrite N.shiftr_spec' . change (31 + 1) with (0 + 32). rewrite <- N.shiftr_spec'. rewrite H. reflexivity. }
  destruct (N.odd c).
  - rewrite N.lxor_spec, T. reflexivity.
  - exact T.
Qed.

Lemma shiftr1_odd_inj a b : N.shiftr a 1 = N.shiftr b 1 -> N.odd a = N.odd b -> a = b.
Proof.
  intros H1 H2. rewrite (N.div2_odd a), (N.div2_odd b), !N.div2_spec, H1, H2. reflexivity.
Qed.

(** one shift is injective on 32-bit states (the top bit of the result tells the bit shifted out) *)
Lemma crc_bit_inj a b : b32 a -> b32 b -> crc_bit a = crc_bit b -> a = b.
Proof.
  intros Ha Hb E.
  assert (O : N.odd a = N.odd b).
  { rewrite <- (testbit31_crc_bit a Ha), <- (testbit31_crc_bit b Hb), E. reflexivity. }
  apply shiftr1_odd_inj; auto.
  unfold crc_bit in E. rewrite <- O in E. destruct (N.odd a).
  - eapply lxor_cancel_r; eauto.
  - exact E.
Qed.

Lemma b32_step8 c : b32 c -> b32 (crc_step8 c).
Proof. intro H. unfold crc_step8. do 8 apply b32_crc_bit. exact H. Qed.

Lemma crc_step8_linear a b : crc_step8 (N.lxor a b) = N.lxor (crc_step8 a) (crc_step8 b).
Proof. unfold crc_step8. rewrite !crc_bit_linear. reflexivity. Qed.

Lemma crc_step8_inj a b : b32 a -> b32 b -> crc_step8 a = crc_step8 b -> a = b.
Proof.
  intros Ha Hb. unfold crc_step8. intro E.
  pose proof (b32_crc_bit _ Ha) as A1. pose proof (b32_crc_bit _ A1) as A2. pose proof (b32_crc_bit _ A2) as A3.
  pose proof (b32_crc_bit _ A3) as A4. pose proof (b32_crc_bit _ A4) as A5. pose proof (b32_crc_bit _ A5) as A6.
  pose proof (b32_crc_bit _ A6) as A7.
  pose proof (b32_crc_bit _ Hb) as B1. pose proof (b32_crc_bit _ B1) as B2. pose proof (b32_crc_bit _ B2) as B3.
  pose proof (b32_crc_bit _ B3) as B4. pose proof (b32_crc_bit _ B4) as B5. pose proof (b32_crc_bit _ B5) as B6.
  pose proof (b32_crc_bit _ B6) as B7.
  apply crc_bit_inj in E; auto. apply crc_bit_inj in E; auto. apply crc_bit_inj in E; auto.
  apply crc_bit_inj in E; auto. apply crc_bit_inj in E; auto. apply crc_bit_inj in E; auto.
  apply crc_bit_inj in E; auto. apply crc_bit_inj in E; auto.
Qed.

Lemma b32_crc_byte c b : b32 c -> b < 256 -> b32 (crc_byte c b).
Proof. intros. unfold crc_byte. apply b32_step8, b32_lxor; auto using b32_byte. Qed.

Lemma crc_byte_inj_state c1 c2 b : b32 c1 -> b32 c2 -> b < 256 -> crc_byte c1 b = crc_byte c2 b -> c1 = c2.
Proof.
  intros H1 H2 Hb E. unfold crc_byte in E.
  apply crc_step8_inj in E; auto using b32_lxor, b32_byte. eapply lxor_cancel_r; eauto.
Qed.

Lemma crc_byte_inj_byte c b1 b2 : b32 c -> b1 < 256 -> b2 < 256 -> crc_byte c b1 = crc_byte c b2 -> b1 = b2.
Proof.
  intros Hc H1 H2 E. unfold crc_byte in E.
  apply crc_step8_inj in E; auto using b32_lxor, b32_byte.
  rewrite (N.lxor_comm c b1), (N.lxor_comm c b2) in E. eapply lxor_cancel_r; eauto.
Qed.

Lemma b32_crc_update l : forall c, b32 c -> wf_bytes l -> b32 (crc_update c l).
Proof.
  induction l as [|b l IH]; intros c Hc Hl; cbn; auto.
  inversion Hl; subst. apply IH; auto using b32_crc_byte.
Qed.

Lemma crc_update_app c l1 l2 : crc_update c (l1 ++ l2) = crc_update (crc_update c l1) l2.
Proof. unfold crc_update. apply fold_left_app. Qed.

Lemma crc_update_inj_state l : forall c1 c2, b32 c1 -> b32 c2 -> wf_bytes l ->
  crc_update c1 l = crc_update c2 l -> c1 = c2.
Proof.
  induction l as [|b l IH]; intros c1 c2 H1 H2 Hl E; cbn in E; auto.
  inversion Hl; subst. apply IH in E; auto using b32_crc_byte.
  eapply crc_byte_inj_state; eauto.
Qed.

Lemma crc32c_lt l : wf_bytes l -> crc32c l < 4294967296.
Proof.
  intro H. apply b32_lt. unfold crc32c. apply b32_lxor; [ | apply b32_mask ].
  apply b32_crc_update; auto. apply b32_mask.
Qed.

(** a change of exactly one byte (so in particular any single bit flip) changes the CRC *)
Lemma crc32c_one_byte pre b b' suf :
  wf_bytes pre -> wf_bytes suf -> b < 256 -> b' < 256 -> b <> b' ->
  crc32c (pre ++ b :: suf) <> crc32c (pre ++ b' :: suf).
Proof.
  intros Hp Hs Hb Hb' Hne E. unfold crc32c in E. apply lxor_cancel_r in E.
  rewrite !crc_update_app in E. cbn [crc_update fold_left] in E.
  change (fold_left crc_byte suf ?x) with (crc_update x suf) in E.
  assert (Hc : b32 (crc_update mask32 pre)) by (apply b32_crc_update; auto using b32_mask).
  apply crc_update_inj_state in E; auto using b32_crc_byte.
  apply crc_byte_inj_byte in E; auto.
Qed.
