(** C15 — the property statements, instantiated with the real CRC-32C. *)
From Coq Require Import List ZArith NArith Bool Lia Arith Sorted.
From Kardia Require Import Base.ListX C15.Crc32c C15.ProofsCrc C15.Model C15.ProofsFrame C15.ProofsLog C15.ProofsGroup
  C15.ProofsSearch Generated.C15Facts.
Import ListNotations.

Lemma Forall2_in_l {A B} (R : A -> B -> Prop) l1 l2 x :
  Forall2 R l1 l2 -> In x l1 -> exists y, In y l2 /\ R x y.
Proof.
  induction 1 as [|a b l1 l2 H _ IH]; intros I; [destruct I|].
  destruct I as [->|I]; [exists b; split; [left; reflexivity|exact H]|].
  destruct (IH I) as [y [Iy Ry]]. exists y. split; [right; exact Iy|exact Ry].
Qed.

Lemma Forall2_weaken {A B} (R S : A -> B -> Prop) l1 l2 :
  (forall a b, R a b -> S a b) -> Forall2 R l1 l2 -> Forall2 S l1 l2.
Proof. intros H F. induction F; constructor; auto. Qed.

(** [drop_bytes n ps] drops records from the old end as long as removed bytes remain *)
Fixpoint drop_bytes (n : nat) (ps : list bytes) : list bytes :=
  match ps with
  | [] => []
  | p :: r => match n with O => ps | _ => drop_bytes (n - (8 + length p)) r end
  end.

Lemma drop_bytes_0 ps : drop_bytes 0 ps = ps.
Proof. destruct ps; reflexivity. Qed.

Lemma drop_bytes_app dropped rest : drop_bytes (length (frames crc32c dropped)) (dropped ++ rest) = rest.
Proof.
  induction dropped as [|p d IH]; [apply drop_bytes_0|].
  rewrite (frames_cons crc32c), app_length, frame_length. cbn [app drop_bytes].
  destruct (8 + length p + length (frames crc32c d)) as [|x] eqn:E; [lia|]. rewrite <- E.
  replace (8 + length p + length (frames crc32c d) - (8 + length p)) with (length (frames crc32c d)) by lia. exact IH.
Qed.


Section Top.
  Variable msg : Type.
  Variable ser : msg -> bytes.
  Variable deser : bytes -> option msg.
  Variable end_height : msg -> option Z.

  Notation crc := crc32c.
  Notation good := (good msg deser).
  Notation frames := (frames crc).
  Notation frame := (frame crc).

  (** what was accepted by Write/WriteSync, in order *)
  Definition written (min : nat) (limit : Z) (ops : list wal_op) : list bytes :=
    run_written crc (empty_group min limit) ops.

  (** the group after the operations and a final FlushAndSync *)
  Definition final_group (min : nat) (limit : Z) (ops : list wal_op) : group :=
    group_flush (wal_run crc (empty_group min limit) ops).

  (** bytes removed by checkTotalSizeLimit ([WPrune]) along the run, and the records that are left *)
  Definition pruned_bytes (min : nat) (limit : Z) (ops : list wal_op) : nat :=
    run_pruned crc (empty_group min limit) ops.

  Definition kept (min : nat) (limit : Z) (ops : list wal_op) : list bytes :=
    drop_bytes (pruned_bytes min limit ops) (written min limit ops).

  Lemma final_files min limit ops :
    exists dropped chunks, disk_files (final_group min limit ops) = map frames chunks /\
                           concat chunks = kept min limit ops /\
                           written min limit ops = dropped ++ kept min limit ops /\
                           length (frames dropped) = pruned_bytes min limit ops.
  Proof.
    destruct (flushed_files crc (wal_run crc (empty_group min limit) ops) (written min limit ops) (pruned_bytes min limit ops))
      as [dr [chunks [D [C L]]]].
    { change (written min limit ops) with ([] ++ run_written crc (empty_group min limit) ops).
      change (pruned_bytes min limit ops) with (0 + run_pruned crc (empty_group min limit) ops).
      apply wal_run_inv. apply inv_empty. }
    assert (K : kept min limit ops = concat chunks).
    { unfold kept. rewrite <- C, <- L. apply drop_bytes_app. }
    exists dr, chunks. rewrite K. auto.
  Qed.

  (** pruning removes whole records from the old end only, exactly [pruned_bytes] bytes of them *)
  Lemma top_kept_suffix min limit ops :
    exists dropped, written min limit ops = dropped ++ kept min limit ops /\
                    length (frames dropped) = pruned_bytes min limit ops.
  Proof. destruct (final_files min limit ops) as [dr [chunks [_ [_ [W L]]]]]. eauto. Qed.

  Lemma top_no_prune min limit ops :
    (forall tl, ~ In (WPrune tl) ops) -> pruned_bytes min limit ops = 0 /\ kept min limit ops = written min limit ops.
  Proof.
    intro N. assert (P : pruned_bytes min limit ops = 0) by (apply run_pruned_none; exact N).
    split; [exact P|]. unfold kept. rewrite P. apply drop_bytes_0.
  Qed.

  Lemma top_roundtrip min limit ops ms cont :
    Forall2 good (kept min limit ops) ms ->
    let g := final_group min limit ops in
    read_log crc msg deser cont RGroup (group_stream g (g_min g)) = map ObMsg ms ++ [ObEof].
  Proof.
    intros G g. destruct (final_files min limit ops) as [dr [chunks [D [C _]]]]. unfold g.
    rewrite group_stream_min, D, (concat_map_frames crc), C.
    apply (roundtrip crc crc32c_lt msg deser cont RGroup _ _ G).
  Qed.

  Lemma top_roundtrip_bytes cont k ps ms :
    Forall2 good ps ms -> read_log crc msg deser cont k (frames ps) = map ObMsg ms ++ [ObEof].
  Proof. apply (roundtrip crc crc32c_lt msg deser). Qed.

  Lemma top_rotation min limit ops :
    exists chunks, disk_files (final_group min limit ops) = map frames chunks /\ concat chunks = kept min limit ops.
  Proof. destruct (final_files min limit ops) as [dr [chunks [D [C _]]]]. eauto. Qed.

  Lemma top_prune_sound tl g :
    let k := pruned_count tl g in
    let g' := check_total_size_limit tl g in
    g_files g' = skipn k (g_files g) /\ g_head g' = g_head g /\ g_buf g' = g_buf g /\ g_min g' = g_min g + k /\
    k <= N.to_nat max_files_to_remove /\ k <= length (g_files g) /\
    (forall j, j < k -> tl <> 0%Z /\ (tl <= total_size g - Z.of_nat (length (concat (firstn j (g_files g)))))%Z) /\
    (tl <> 0%Z -> k < N.to_nat max_files_to_remove -> k < length (g_files g) -> (total_size g' < tl)%Z).
  Proof. apply prune_sound. Qed.

  Lemma top_decode_sound k bs m rest :
    wf_bytes bs -> decode crc msg deser k bs = OMsg m rest ->
    exists p z, deser p = Some m /\ (lenN p <= max_msg_size_bytes)%N /\ wf_bytes p /\
                bs ++ repeat 0%N z = frame p ++ rest /\
                (z = 0 \/ (k = RFile /\ rest = [] /\ z < length (frame p))).
  Proof.
    intros W E. unfold decode in E. destruct (decode_full crc msg deser k bs) as [o a] eqn:E'. cbn [fst] in E. subst o.
    destruct (decode_sound crc crc32c_lt msg deser k bs m rest a W E') as [p [z [D [L [_ [Wp [A Z]]]]]]].
    exists p, z. auto.
  Qed.

  Lemma top_alloc_bound k bs : (decode_alloc crc msg deser k bs <= max_msg_size_bytes)%N.
  Proof. apply (decode_alloc_bound crc crc32c_lt). Qed.

  Lemma top_too_big k c l rest :
    length c = 4 -> length l = 4 -> (max_msg_size_bytes < of_be32 l)%N ->
    decode_full crc msg deser k (c ++ l ++ rest) = (OCorrupt CTooBig rest, 0%N).
  Proof.
    intros Lc Ll H. destruct c as [|c1 [|c2 [|c3 [|c4 [|c5 t]]]]]; try discriminate Lc. cbn [app].
    apply (decode_too_big crc crc32c_lt); auto.
  Qed.

  Lemma top_truncation k ps ms n :
    Forall2 good ps ms -> n < length (frames ps) ->
    (exists j tail, read_log crc msg deser false k (firstn n (frames ps)) = map ObMsg (firstn j ms) ++ tail /\
                    (tail = [ObEof] \/ exists c, tail = [ObCorrupt c])) \/
    (k = RFile /\ exists p, In p ps /\ collision crc msg deser p).
  Proof.
    intros G Hn. unfold read_log. rewrite firstn_length_le by lia.
    apply (truncation crc crc32c_lt msg ser deser k ps ms G n (S n)); auto.
  Qed.

  Lemma top_bitflip k p rest i b' :
    wf_bytes p -> p <> [] -> (lenN p <= max_msg_size_bytes)%N ->
    i < length (frame p) -> ~ (4 <= i < 8) -> (b' < 256)%N -> nth i (frame p) 0%N <> b' ->
    decode crc msg deser k (set_nth i b' (frame p) ++ rest) = OCorrupt CCrc rest.
  Proof. apply bitflip_detected. Qed.

  Lemma top_bitflip_log cont k pre p post pre_ms post_ms i b' :
    Forall2 good pre pre_ms -> Forall2 good post post_ms ->
    wf_bytes p -> p <> [] -> (lenN p <= max_msg_size_bytes)%N ->
    i < length (frame p) -> ~ (4 <= i < 8) -> (b' < 256)%N -> nth i (frame p) 0%N <> b' ->
    read_log crc msg deser cont k (frames pre ++ set_nth i b' (frame p) ++ frames post) =
      map ObMsg pre_ms ++ ObCorrupt CCrc :: (if cont then map ObMsg post_ms ++ [ObEof] else []).
  Proof. apply bitflip_log. Qed.

  Lemma top_suffix cont k ps ms tail :
    Forall2 good ps ms -> read_log crc msg deser cont k (frames ps ++ tail) = map ObMsg ms ++ read_log crc msg deser cont k tail.
  Proof. apply (read_log_frames_app crc crc32c_lt msg ser deser). Qed.

  Lemma top_lenflip k l' p rest m' r' :
    length l' = 4 -> wf_bytes l' -> wf_bytes p -> wf_bytes rest -> (lenN p < 4294967296)%N ->
    l' <> be32 (lenN p) ->
    decode crc msg deser k (be32 (crc p) ++ l' ++ p ++ rest) = OMsg m' r' ->
    exists p', deser p' = Some m' /\ crc p' = crc p /\ lenN p' <> lenN p /\ l' = be32 (lenN p').
  Proof. apply (lenflip_residual crc crc32c_lt msg ser deser). Qed.

  Notation mark := (mark msg deser end_height).
  Notation marks := (marks msg deser end_height).

  Notation pos_marks := (pos_marks msg deser end_height).

  Lemma top_search min limit ops h ign :
    Forall (goodp msg deser) (kept min limit ops) -> StronglySorted Z.lt (pos_marks (kept min limit ops)) ->
    let g := final_group min limit ops in
    (forall pre p0 post, (0 < h)%Z -> kept min limit ops = pre ++ p0 :: post -> mark p0 = Some h ->
       search crc msg deser end_height g h ign = SFound (frames post)) /\
    ((h <= 0)%Z -> In h (marks (kept min limit ops)) -> exists rest, search crc msg deser end_height g h ign = SFound rest) /\
    (~ In h (marks (kept min limit ops)) -> search crc msg deser end_height g h ign = SNotFound).
  Proof.
    intros G S g. destruct (final_files min limit ops) as [dr [chunks [D [C _]]]]. subst g. rewrite <- C in *.
    apply (search_iff crc crc32c_lt msg deser end_height _ chunks h ign D G S).
  Qed.

  (** any number of records damaged in CRC field or payload *)
  Lemma top_search_damaged g chunks h :
    disk_files g = map (istream crc) chunks -> Forall (iok crc msg deser) (concat chunks) ->
    StronglySorted Z.lt (ipos_marks msg deser end_height (concat chunks)) ->
    (forall pre p0 post, (0 < h)%Z -> concat chunks = pre ++ IGood p0 :: post -> mark p0 = Some h ->
       search crc msg deser end_height g h true = SFound (istream crc post)) /\
    ((h <= 0)%Z -> In h (imarks msg deser end_height (concat chunks)) ->
       exists rest, search crc msg deser end_height g h true = SFound rest) /\
    (~ In h (imarks msg deser end_height (concat chunks)) -> search crc msg deser end_height g h true = SNotFound) /\
    (search crc msg deser end_height g h false = search crc msg deser end_height g h true \/
     exists c, bad_class (concat chunks) c /\ search crc msg deser end_height g h false = SErr c).
  Proof. apply (search_damaged crc crc32c_lt). Qed.

  Lemma top_flipped_steps_over p i b' :
    wf_bytes p -> p <> [] -> (lenN p <= max_msg_size_bytes)%N ->
    i < length (frame p) -> ~ (4 <= i < 8) -> (b' < 256)%N -> nth i (frame p) 0%N <> b' ->
    iok crc msg deser (IBad (set_nth i b' (frame p)) CCrc).
  Proof. intros W NE L Hi Ho Hb Hn rest. apply bitflip_detected; auto. Qed.

  Lemma top_repair ps ms tail :
    Forall2 (canon msg ser deser) ps ms -> (forall m r, decode crc msg deser RFile tail <> OMsg m r) ->
    repair crc msg ser deser (frames ps ++ tail) = (frames ps, true).
  Proof. apply (repair_prefix crc crc32c_lt). Qed.

  (** one record damaged in CRC field or payload: the repair keeps exactly the records before it *)
  Lemma top_repair_bitflip pre pre_ms p post i b' :
    Forall2 (canon msg ser deser) pre pre_ms ->
    wf_bytes p -> p <> [] -> (lenN p <= max_msg_size_bytes)%N ->
    i < length (frame p) -> ~ (4 <= i < 8) -> (b' < 256)%N -> nth i (frame p) 0%N <> b' ->
    repair crc msg ser deser (frames pre ++ set_nth i b' (frame p) ++ post) = (frames pre, true).
  Proof.
    intros C W NE L Hi Ho Hb Hn. apply (repair_prefix crc crc32c_lt msg ser deser pre pre_ms _ C).
    intros m r E. rewrite (bitflip_detected msg deser RFile p post i b') in E by auto. discriminate.
  Qed.

  Lemma top_repair_truncated ps ms n :
    Forall2 (canon msg ser deser) ps ms -> n < length (frames ps) ->
    (exists j, repair crc msg ser deser (firstn n (frames ps)) = (frames (firstn j ps), true)) \/
    (exists p, In p ps /\ collision crc msg deser p).
  Proof. apply (repair_truncated crc crc32c_lt). Qed.

  (** the OnStart steps: backup by copy (the corrupted file stays in place), repair in place *)
  Lemma top_repair_onstart ps ms tail :
    Forall2 (canon msg ser deser) ps ms -> (forall m r, decode crc msg deser RFile tail <> OMsg m r) ->
    repair_onstart crc msg ser deser (frames ps ++ tail) = (frames ps ++ tail, frames ps, true).
  Proof.
    intros C T. unfold repair_onstart. rewrite (repair_prefix crc crc32c_lt msg ser deser ps ms tail C T). reflexivity.
  Qed.

  (** why the truncation in os.Create matters: written over the corrupted file WITHOUT truncating it,
      the repaired prefix changes nothing — the file stays the corrupted one *)
  Lemma top_repair_needs_truncate ps ms tail :
    Forall2 (canon msg ser deser) ps ms -> (forall m r, decode crc msg deser RFile tail <> OMsg m r) -> tail <> [] ->
    let wal := frames ps ++ tail in
    file_overwrite wal (fst (repair crc msg ser deser wal)) = wal /\ wal <> frames ps.
  Proof.
    intros C T NE wal. unfold wal. rewrite (repair_prefix crc crc32c_lt msg ser deser ps ms tail C T). cbn [fst].
    unfold file_overwrite. split.
    - rewrite skipn_app, skipn_all, Nat.sub_diag. reflexivity.
    - intro E. apply NE. rewrite <- (app_nil_r (frames ps)) in E at 2. apply app_inv_head in E. exact E.
  Qed.

  (** a group whose rotated files are intact and whose head is damaged after [cur]: after the OnStart
      repair steps the whole group reads back as every message of the rotated files and the head's
      longest valid prefix, then a clean end-of-log — the second catchupReplay does not hit the damage *)
  Lemma top_repair_group g chunks cur tail ms cont :
    g_files g = map frames chunks -> g_head g = frames cur ++ tail ->
    Forall2 (canon msg ser deser) (concat chunks ++ cur) ms ->
    (forall m r, decode crc msg deser RFile tail <> OMsg m r) ->
    let g' := fst (repair_head crc msg ser deser g) in
    snd (repair_head crc msg ser deser g) = true /\
    disk_files g' = map frames (chunks ++ [cur]) /\
    read_log crc msg deser cont RGroup (group_stream g' (g_min g')) = map ObMsg ms ++ [ObEof].
  Proof.
    intros F H C T g'.
    destruct (Forall2_app_inv_l _ _ C) as [ms1 [ms2 [C1 [C2 E]]]].
    assert (R := repair_head_spec crc crc32c_lt msg ser deser g cur tail ms2 H C2 T).
    unfold g'. rewrite R. cbn [fst snd]. split; [reflexivity|].
    assert (D : disk_files (mkGroup (g_min g) (g_files g) (frames cur) [] (g_limit g)) = map frames (chunks ++ [cur])).
    { unfold disk_files. cbn [g_files g_head]. rewrite F, map_app. reflexivity. }
    split; [exact D|].
    rewrite group_stream_min, D, (concat_map_frames crc), concat_app. cbn [concat]. rewrite app_nil_r.
    apply (roundtrip crc crc32c_lt msg deser cont RGroup).
    eapply Forall2_weaken; [|exact C]. intros p m [G _]. exact G.
  Qed.

  (** and SearchForEndHeight on the repaired group behaves as on an undamaged one holding those records *)
  Lemma top_repair_group_search g chunks cur tail ms h ign :
    g_files g = map frames chunks -> g_head g = frames cur ++ tail ->
    Forall2 (canon msg ser deser) (concat chunks ++ cur) ms ->
    (forall m r, decode crc msg deser RFile tail <> OMsg m r) ->
    StronglySorted Z.lt (pos_marks (concat chunks ++ cur)) ->
    let g' := fst (repair_head crc msg ser deser g) in
    (forall pre p0 post, (0 < h)%Z -> concat chunks ++ cur = pre ++ p0 :: post -> mark p0 = Some h ->
       search crc msg deser end_height g' h ign = SFound (frames post)) /\
    ((h <= 0)%Z -> In h (marks (concat chunks ++ cur)) -> exists rest, search crc msg deser end_height g' h ign = SFound rest) /\
    (~ In h (marks (concat chunks ++ cur)) -> search crc msg deser end_height g' h ign = SNotFound).
  Proof.
    intros F H C T S g'.
    destruct (top_repair_group g chunks cur tail ms true F H C T) as [_ [D _]]. fold g' in D.
    assert (E : concat (chunks ++ [cur]) = concat chunks ++ cur) by (rewrite concat_app; cbn; rewrite app_nil_r; reflexivity).
    rewrite <- E in *.
    apply (search_iff crc crc32c_lt msg deser end_height g' (chunks ++ [cur]) h ign D); auto.
    apply Forall_forall. intros p I.
    destruct (Forall2_in_l _ _ _ _ C I) as [m [_ [G _]]]. exists m. exact G.
  Qed.
End Top.

(** ** the hypotheses are satisfiable, and the model runs: a toy codec whose payload is one
    non-zero byte (the height of an end-height marker) *)
Definition toy_deser (p : bytes) : option Z :=
  match p with [b] => if (b =? 0)%N then None else Some (Z.of_N b) | _ => None end.
Definition toy_ser (m : Z) : bytes := [Z.to_N m].
Definition toy_eh (m : Z) : option Z := Some m.

Example toy_good : Forall2 (good Z toy_deser) [[3%N]; [7%N]] [3%Z; 7%Z].
Proof.
  repeat constructor; try discriminate; try (cbv; discriminate).
Qed.

Example toy_roundtrip :
  read_log crc32c Z toy_deser false RGroup (frames crc32c [[3%N]; [7%N]]) = [ObMsg 3%Z; ObMsg 7%Z; ObEof].
Proof. vm_compute. reflexivity. Qed.

Example toy_search :
  search crc32c Z toy_deser toy_eh
    (final_group 0 10 [WWrite [3%N]; WTick; WWriteSync [7%N]; WTick; WWrite [9%N]]) 7 true
  = SFound (frame crc32c [9%N]).
Proof. vm_compute. reflexivity. Qed.

(** the restart scenario: the head was rotated away, the node restarts and OnStart writes its marker
    (payload [[1]] here plays EndHeightMessage{0}) into the empty head; heights in older files are still found *)
Definition toy0_deser (p : bytes) : option Z :=
  match p with [b] => if (b =? 0)%N then None else Some (Z.of_N b - 1)%Z | _ => None end.
Example toy_search_after_restart :
  let ops := [WStart [1%N]; WWriteSync [4%N]; WWriteSync [5%N]; WTick; WStart [1%N]] in
  written 0 10 ops = [[1%N]; [4%N]; [5%N]; [1%N]] /\
  search crc32c Z toy0_deser toy_eh (final_group 0 10 ops) 3 true = SFound (frames crc32c [[5%N]; [1%N]]) /\
  search crc32c Z toy0_deser toy_eh (final_group 0 10 ops) 4 true = SFound (frame crc32c [1%N]).
Proof. vm_compute. repeat split; reflexivity. Qed.

(** pruning: three one-record files of 9 bytes each, total-size limit 20: the oldest file goes (27 >= 20,
    then 18 < 20), its record is no longer found, the younger ones are *)
Example toy_prune :
  let ops := [WWriteSync [3%N]; WRotate; WWriteSync [4%N]; WRotate; WWriteSync [5%N]; WPrune 20] in
  written 0 0 ops = [[3%N]; [4%N]; [5%N]] /\ pruned_bytes 0 0 ops = 9 /\ kept 0 0 ops = [[4%N]; [5%N]] /\
  g_min (final_group 0 0 ops) = 1 /\
  search crc32c Z toy_deser toy_eh (final_group 0 0 ops) 3 true = SNotFound /\
  search crc32c Z toy_deser toy_eh (final_group 0 0 ops) 4 true = SFound (frame crc32c [5%N]).
Proof. vm_compute. repeat split; reflexivity. Qed.

(** the OnStart repair inside a group: one intact rotated file, a head with one good record and garbage *)
Example toy_repair_group :
  let g := mkGroup 0 [frame crc32c [3%N]] (frame crc32c [7%N] ++ [1%N; 2%N; 3%N]) [] 0 in
  repair_head crc32c Z toy_ser toy_deser g = (mkGroup 0 [frame crc32c [3%N]] (frame crc32c [7%N]) [] 0, true).
Proof. vm_compute. reflexivity. Qed.

(** a damaged record between two markers: with IgnoreDataCorruptionErrors both markers are still found,
    without it the older one (the damage lies behind it in the same file) is, the younger is not *)
Example toy_search_damaged :
  let bad := set_nth 8 9%N (frame crc32c [5%N]) in
  let g := mkGroup 0 [] (frame crc32c [3%N] ++ bad ++ frame crc32c [7%N]) [] 0 in
  search crc32c Z toy_deser toy_eh g 7 true = SFound [] /\
  search crc32c Z toy_deser toy_eh g 3 true = SFound (bad ++ frame crc32c [7%N]) /\
  search crc32c Z toy_deser toy_eh g 5 true = SNotFound /\
  search crc32c Z toy_deser toy_eh g 3 false = SFound (bad ++ frame crc32c [7%N]) /\
  search crc32c Z toy_deser toy_eh g 7 false = SErr CCrc.
Proof. vm_compute. repeat split; reflexivity. Qed.

(** the zero-fill behaviour of the os.File reader is real: a frame whose payload ends in a zero
    byte, cut one byte short, is completed and decoded (to the message that was written) *)
Definition toy2_deser (p : bytes) : option Z :=
  match p with [b; c] => Some (Z.of_N b) | _ => None end.
Example zero_fill_quirk :
  let fr := frame crc32c [5%N; 0%N] in
  decode crc32c Z toy2_deser RFile (firstn 9 fr) = OMsg 5%Z [] /\
  (exists c r, decode crc32c Z toy2_deser RGroup (firstn 9 fr) = OCorrupt c r).
Proof. split; [vm_compute; reflexivity|]. eexists _, _. vm_compute. reflexivity. Qed.
