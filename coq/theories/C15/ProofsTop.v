(** C15 — the property statements, instantiated with the real CRC-32C. *)
From Coq Require Import List ZArith NArith Bool Lia Arith Sorted.
From Kardia Require Import Base.ListX C15.Crc32c C15.ProofsCrc C15.Model C15.ProofsFrame C15.ProofsLog C15.ProofsGroup
  Generated.C15Facts.
Import ListNotations.

Section Top.
  Variable msg : Type.
  Variable ser : msg -> bytes.
  Variable deser : bytes -> option msg.
  Variable end_height : msg -> option Z.

  Notation crc := crc32c.
  Notation good := (good msg deser).
  Notation frames := (frames crc).
  Notation frame := (frame crc).

  (** what was accepted by Write/WriteSync, in order *)
  Definition written (min : nat) (limit : Z) (ops : list wal_op) : list bytes :=
    run_written crc (empty_group min limit) ops.

  (** the group after the operations and a final FlushAndSync *)
  Definition final_group (min : nat) (limit : Z) (ops : list wal_op) : group :=
    group_flush (wal_run crc (empty_group min limit) ops).

  Lemma final_files min limit ops :
    exists chunks, disk_files (final_group min limit ops) = map frames chunks /\ concat chunks = written min limit ops.
  Proof.
    apply (flushed_files crc _ (written min limit ops)).
    change (written min limit ops) with ([] ++ run_written crc (empty_group min limit) ops). apply wal_run_inv. apply inv_empty.
  Qed.

  Lemma top_roundtrip min limit ops ms cont :
    Forall2 good (written min limit ops) ms ->
    let g := final_group min limit ops in
    read_log crc msg deser cont RGroup (group_stream g (g_min g)) = map ObMsg ms ++ [ObEof].
  Proof.
    intros G g. destruct (final_files min limit ops) as [chunks [D C]]. unfold g.
    rewrite group_stream_min, D, (concat_map_frames crc), C.
    apply (roundtrip crc crc32c_lt msg deser cont RGroup _ _ G).
  Qed.

  Lemma top_roundtrip_bytes cont k ps ms :
    Forall2 good ps ms -> read_log crc msg deser cont k (frames ps) = map ObMsg ms ++ [ObEof].
  Proof. apply (roundtrip crc crc32c_lt msg deser). Qed.

  Lemma top_rotation min limit ops :
    exists chunks, disk_files (final_group min limit ops) = map frames chunks /\ concat chunks = written min limit ops.
  Proof. apply final_files. Qed.

  Lemma top_decode_sound k bs m rest :
    wf_bytes bs -> decode crc msg deser k bs = OMsg m rest ->
    exists p z, deser p = Some m /\ (lenN p <= max_msg_size_bytes)%N /\ wf_bytes p /\
                bs ++ repeat 0%N z = frame p ++ rest /\
                (z = 0 \/ (k = RFile /\ rest = [] /\ z < length (frame p))).
  Proof.
    intros W E. unfold decode in E. destruct (decode_full crc msg deser k bs) as [o a] eqn:E'. cbn [fst] in E. subst o.
    destruct (decode_sound crc crc32c_lt msg deser k bs m rest a W E') as [p [z [D [L [_ [Wp [A Z]]]]]]].
    exists p, z. auto.
  Qed.

  Lemma top_alloc_bound k bs : (decode_alloc crc msg deser k bs <= max_msg_size_bytes)%N.
  Proof. apply (decode_alloc_bound crc crc32c_lt). Qed.

  Lemma top_too_big k c l rest :
    length c = 4 -> length l = 4 -> (max_msg_size_bytes < of_be32 l)%N ->
    decode_full crc msg deser k (c ++ l ++ rest) = (OCorrupt CTooBig rest, 0%N).
  Proof.
    intros Lc Ll H. destruct c as [|c1 [|c2 [|c3 [|c4 [|c5 t]]]]]; try discriminate Lc. cbn [app].
    apply (decode_too_big crc crc32c_lt); auto.
  Qed.

  Lemma top_truncation k ps ms n :
    Forall2 good ps ms -> n < length (frames ps) ->
    (exists j tail, read_log crc msg deser false k (firstn n (frames ps)) = map ObMsg (firstn j ms) ++ tail /\
                    (tail = [ObEof] \/ exists c, tail = [ObCorrupt c])) \/
    (k = RFile /\ exists p, In p ps /\ collision crc msg deser p).
  Proof.
    intros G Hn. unfold read_log. rewrite firstn_length_le by lia.
    apply (truncation crc crc32c_lt msg ser deser k ps ms G n (S n)); auto.
  Qed.

  Lemma top_bitflip k p rest i b' :
    wf_bytes p -> p <> [] -> (lenN p <= max_msg_size_bytes)%N ->
    i < length (frame p) -> ~ (4 <= i < 8) -> (b' < 256)%N -> nth i (frame p) 0%N <> b' ->
    decode crc msg deser k (set_nth i b' (frame p) ++ rest) = OCorrupt CCrc rest.
  Proof. apply bitflip_detected. Qed.

  Lemma top_lenflip k l' p rest m' r' :
    length l' = 4 -> wf_bytes l' -> wf_bytes p -> wf_bytes rest -> (lenN p < 4294967296)%N ->
    l' <> be32 (lenN p) ->
    decode crc msg deser k (be32 (crc p) ++ l' ++ p ++ rest) = OMsg m' r' ->
    exists p', deser p' = Some m' /\ crc p' = crc p /\ lenN p' <> lenN p /\ l' = be32 (lenN p').
  Proof. apply (lenflip_residual crc crc32c_lt msg ser deser). Qed.

  Notation mark := (mark msg deser end_height).
  Notation marks := (marks msg deser end_height).

  Notation pos_marks := (pos_marks msg deser end_height).

  Lemma top_search min limit ops h ign :
    Forall (goodp msg deser) (written min limit ops) -> StronglySorted Z.lt (pos_marks (written min limit ops)) ->
    let g := final_group min limit ops in
    (forall pre p0 post, (0 < h)%Z -> written min limit ops = pre ++ p0 :: post -> mark p0 = Some h ->
       search crc msg deser end_height g h ign = SFound (frames post)) /\
    ((h <= 0)%Z -> In h (marks (written min limit ops)) -> exists rest, search crc msg deser end_height g h ign = SFound rest) /\
    (~ In h (marks (written min limit ops)) -> search crc msg deser end_height g h ign = SNotFound).
  Proof.
    intros G S g. destruct (final_files min limit ops) as [chunks [D C]]. subst g. rewrite <- C in *.
    apply (search_iff crc crc32c_lt msg deser end_height _ chunks h ign D G S).
  Qed.

  Lemma top_repair ps ms tail :
    Forall2 (canon msg ser deser) ps ms -> (forall m r, decode crc msg deser RFile tail <> OMsg m r) ->
    repair crc msg ser deser (frames ps ++ tail) = (frames ps, true).
  Proof. apply (repair_prefix crc crc32c_lt). Qed.
End Top.

(** ** the hypotheses are satisfiable, and the model runs: a toy codec whose payload is one
    non-zero byte (the height of an end-height marker) *)
Definition toy_deser (p : bytes) : option Z :=
  match p with [b] => if (b =? 0)%N then None else Some (Z.of_N b) | _ => None end.
Definition toy_ser (m : Z) : bytes := [Z.to_N m].
Definition toy_eh (m : Z) : option Z := Some m.

Example toy_good : Forall2 (good Z toy_deser) [[3%N]; [7%N]] [3%Z; 7%Z].
Proof.
  repeat constructor; try discriminate; try (cbv; discriminate).
Qed.

Example toy_roundtrip :
  read_log crc32c Z toy_deser false RGroup (frames crc32c [[3%N]; [7%N]]) = [ObMsg 3%Z; ObMsg 7%Z; ObEof].
Proof. vm_compute. reflexivity. Qed.

Example toy_search :
  search crc32c Z toy_deser toy_eh
    (final_group 0 10 [WWrite [3%N]; WTick; WWriteSync [7%N]; WTick; WWrite [9%N]]) 7 true
  = SFound (frame crc32c [9%N]).
Proof. vm_compute. reflexivity. Qed.

(** the restart scenario: the head was rotated away, the node restarts and OnStart writes its marker
    (payload [[1]] here plays EndHeightMessage{0}) into the empty head; heights in older files are still found *)
Definition toy0_deser (p : bytes) : option Z :=
  match p with [b] => if (b =? 0)%N then None else Some (Z.of_N b - 1)%Z | _ => None end.
Example toy_search_after_restart :
  let ops := [WStart [1%N]; WWriteSync [4%N]; WWriteSync [5%N]; WTick; WStart [1%N]] in
  written 0 10 ops = [[1%N]; [4%N]; [5%N]; [1%N]] /\
  search crc32c Z toy0_deser toy_eh (final_group 0 10 ops) 3 true = SFound (frames crc32c [[5%N]; [1%N]]) /\
  search crc32c Z toy0_deser toy_eh (final_group 0 10 ops) 4 true = SFound (frame crc32c [1%N]).
Proof. vm_compute. repeat split; reflexivity. Qed.

(** the zero-fill behaviour of the os.File reader is real: a frame whose payload ends in a zero
    byte, cut one byte short, is completed and decoded (to the message that was written) *)
Definition toy2_deser (p : bytes) : option Z :=
  match p with [b; c] => Some (Z.of_N b) | _ => None end.
Example zero_fill_quirk :
  let fr := frame crc32c [5%N; 0%N] in
  decode crc32c Z toy2_deser RFile (firstn 9 fr) = OMsg 5%Z [] /\
  (exists c r, decode crc32c Z toy2_deser RGroup (firstn 9 fr) = OCorrupt c r).
Proof. split; [vm_compute; reflexivity|]. eexists _, _. vm_compute. reflexivity. Qed.
