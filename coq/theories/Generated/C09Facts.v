(* GENERATED from /repo's working tree by the harness (-facts); do not edit. *)
From Coq Require Import ZArith NArith List.
Import ListNotations.
Definition tx_gas : Z := 21000%Z.
Definition tx_gas_legacy : Z := 29000%Z.
Definition tx_gas_contract_creation : Z := 53000%Z.
Definition tx_data_zero_gas : Z := 4%Z.
Definition tx_data_non_zero_gas : Z := 68%Z.
Definition create_data_gas : Z := 200%Z.
Definition max_code_size : Z := 39231%Z.
Definition call_create_depth : Z := 1024%Z.
Definition refund_quotient : Z := 2%Z.
Definition precompiles : list N := [1; 2; 3; 4; 5; 6; 7; 8]%N.
