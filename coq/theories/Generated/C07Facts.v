(* GENERATED from /repo's working tree by the harness (-facts); do not edit. *)
From Coq Require Import List NArith.
Import ListNotations.
(* types.EmptyRootHash *)
Definition empty_root_hash : list N := [86; 232; 31; 23; 27; 204; 85; 166; 255; 131; 69; 230; 146; 192; 248; 110; 91; 72; 224; 27; 153; 108; 173; 192; 1; 98; 47; 181; 227; 99; 180; 33]%N.
