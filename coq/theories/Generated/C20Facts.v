(* GENERATED from /repo's working tree by the harness (-facts); do not edit. *)
From Coq Require Import NArith.
Definition data_len_size : nat := 4.
Definition data_max_size : nat := 1024.
Definition total_frame_size : nat := 1028.
Definition aead_size_overhead : nat := 16.
Definition aead_nonce_size : nat := 12.
Definition aead_key_size : nat := 32.
Definition default_max_packet_msg_payload_size : nat := 1024.
Definition num_batch_packet_msgs : nat := 10.
Definition default_send_queue_capacity : N := 1%N.
Definition default_recv_buffer_capacity : N := 4096%N.
Definition default_recv_message_capacity : N := 22020096%N.
Definition max_packet_msg_size_default : N := 1035%N.
