(* GENERATED from /repo's working tree by the harness (-facts); do not edit. *)
From Coq Require Import ZArith NArith.
Definition secp256k1_n : N := 115792089237316195423570985008687907852837564279074904382605163141518161494337%N.
Definition signature_length : N := 65%N.
Definition prevote_type : Z := 1%Z.
Definition precommit_type : Z := 2%Z.
Definition proposal_type : Z := 32%Z.
Definition max_block_parts_count : N := 1601%N.
