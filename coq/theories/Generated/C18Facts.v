(* GENERATED from /repo's working tree by the harness (-facts); do not edit. *)
From Coq Require Import ZArith.
Local Open Scope Z_scope.
Definition max_block_parts_count : Z := 1601.
Definition max_votes_count : Z := 10000.
Definition block_part_size_bytes : Z := 65536.
Definition max_msg_size : Z := 1048576.
Definition merkle_size : Z := 32.
Definition bc_max_msg_size : Z := 104857605.
Definition prevote_type : Z := 1.
Definition precommit_type : Z := 2.
Definition step_min : Z := 1.
Definition step_max : Z := 8.
Definition chan_state : Z := 32.
Definition chan_data : Z := 33.
Definition chan_vote : Z := 34.
Definition chan_vsb : Z := 35.
Definition max_tx_announces : Z := 4096.
Definition max_tx_retrievals : Z := 256.
Definition tx_arrive_timeout_ms : Z := 500.
Definition tx_gather_slack_ms : Z := 100.
Definition tx_fetch_timeout_ms : Z := 5000.
