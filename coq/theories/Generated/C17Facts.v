(* GENERATED from /repo's working tree by the harness (-facts); do not edit. *)
From Coq Require Import ZArith.
Definition tx_slot_size : Z := 32768%Z.
Definition tx_max_size : Z := 131072%Z.
Definition def_price_limit : Z := 1%Z.
Definition def_price_bump : Z := 10%Z.
Definition def_account_slots : Z := 16%Z.
Definition def_global_slots : Z := 5120%Z.
Definition def_account_queue : Z := 64%Z.
Definition def_global_queue : Z := 1024%Z.
Definition tx_gas : Z := 21000%Z.
Definition tx_gas_legacy : Z := 29000%Z.
Definition tx_gas_creation : Z := 53000%Z.
Definition tx_data_zero_gas : Z := 4%Z.
Definition tx_data_nonzero_gas : Z := 68%Z.
Definition galaxias_block : Z := 6039393%Z.
