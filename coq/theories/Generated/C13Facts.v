(* GENERATED from /repo's working tree by the harness (-facts); do not edit. *)
From Coq Require Import NArith.
Definition block_part_size_bytes : N := 65536%N.
Definition max_block_parts_count : N := 1601%N.
Definition max_block_size_bytes : N := 104857600%N.
