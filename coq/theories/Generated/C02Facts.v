(* GENERATED from /repo's working tree by the harness (-facts); do not edit. *)
From Coq Require Import ZArith.
Definition max_total_voting_power : Z := 1152921504606846975%Z.
Definition max_votes_count : Z := 10000%Z.
