(* GENERATED from /repo's working tree by the harness (-facts); do not edit. *)
From Coq Require Import NArith.
Definition max_msg_size_bytes : N := 1048600%N.
Definition head_buf_size : N := 40960%N.
Definition max_files_to_remove : N := 4%N.
