(* GENERATED from /repo's working tree by the harness (-facts); do not edit. *)
From Coq Require Import ZArith.
Definition default_max_age_num_blocks : Z := 100000%Z.
Definition default_max_age_duration : Z := 172800000000000%Z.
Definition default_evidence_max_bytes : Z := 1048576%Z.
Definition default_block_max_bytes : Z := 104857600%Z.
Definition max_evidence_bytes : Z := 484%Z.
Definition max_evidence_bytes_denominator : Z := 10%Z.
(* MaxEvidencePerBlock(Evidence.MaxBytes) = (count, bytes); CreateProposalBlock passes the bytes to PendingEvidence (commit e536522) *)
Definition default_proposal_evidence_count : Z := 216%Z.
Definition default_proposal_pending_cap : Z := 104857%Z.
