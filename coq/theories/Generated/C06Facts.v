(* GENERATED from /repo's working tree by the harness (-facts); do not edit. *)
From Coq Require Import ZArith.
Definition max_total_voting_power : Z := 1152921504606846975%Z.
Definition priority_window_size_factor : Z := 2%Z.
Definition bloom_bit_length : Z := 2048%Z.
