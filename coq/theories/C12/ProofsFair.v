(** C12 — proportional share and no starvation inside the rounds of one call, for the
    specification (exact arithmetic); ProofsRefine transfers them to the model. *)
From Coq Require Import List ZArith NArith Bool Lia Permutation.
From Kardia Require Import C12.Model C12.Spec C12.ProofsSpec.
Import ListNotations.
Local Open Scope Z_scope.

Lemma Forall2_in_l {A B} (R : A -> B -> Prop) l l' x :
  Forall2 R l l' -> In x l -> exists y, In y l' /\ R x y.
Proof.
  intros F. induction F as [|a b t t' Hab F IH]; intros Hx; [destruct Hx|].
  destruct Hx as [->|Hx]; [exists b; split; [now left|exact Hab]|].
  destruct (IH Hx) as (y & Hy & Ry). exists y. split; [now right|exact Ry].
Qed.

Lemma spec_rescale_fields T l l1 : spec_rescale T l l1 ->
  map v_addr l1 = map v_addr l /\ map v_power l1 = map v_power l.
Proof.
  intros (mx & mn & _ & _ & H). cbn zeta in H.
  destruct (2 * T <? mx - mn); subst l1; [|auto]. rewrite !map_map. cbn. auto.
Qed.

Lemma spec_centre_fields l l1 : spec_centre l l1 ->
  map v_addr l1 = map v_addr l /\ map v_power l1 = map v_power l.
Proof. intros ->. rewrite !map_map. cbn. auto. Qed.

Lemma in_same_fields l l' v :
  map v_addr l' = map v_addr l -> map v_power l' = map v_power l -> In v l ->
  exists v', In v' l' /\ v_addr v' = v_addr v /\ v_power v' = v_power v.
Proof.
  revert l'. induction l as [|h t IH]; intros [|h' t'] A P Hv; try discriminate; [destruct Hv|].
  cbn [map] in A, P. inversion A. inversion P.
  destruct Hv as [->|Hv]; [exists h'; split; [now left|auto]|].
  destruct (IH t' H1 H3 Hv) as (v' & Hv' & ?). exists v'. split; [now right|assumption].
Qed.

Lemma pos_powers_fields l l' :
  map v_power l' = map v_power l -> (forall v, In v l -> 0 < v_power v) -> forall v, In v l' -> 0 < v_power v.
Proof.
  intros P Pp v Hv. assert (In (v_power v) (map v_power l')) as Hin by now apply in_map.
  rewrite P in Hin. apply in_map_iff in Hin. destruct Hin as (u & <- & Hu). now apply Pp.
Qed.

(** share accounting with explicit bounds: in the k rounds of one call, the number of times a
    validator proposes differs from its fair share k * p / T by at most 2(n+1) + n/T *)
Theorem spec_share l k l' props :
  l <> [] -> NoDup (map v_addr l) -> (forall v, In v l -> 0 < v_power v) ->
  spec_increment l k l' props ->
  forall v, In v l ->
    Z.abs (total_power l * count (v_addr v) props - Z.of_nat k * v_power v)
    <= 2 * (Z.of_nat (length l) + 1) * total_power l + Z.of_nat (length l).
Proof.
  intros NE N Pp (l1 & l2 & SR & SC & R) v Hv.
  set (T := total_power l) in *.
  assert (0 < T) as Tpos.
  { unfold T. destruct l as [|h t]; [congruence|]. cbn [total_power fold_right]. fold (total_power t).
    pose proof (total_power_nonneg t (fun u Hu => Pp u (or_intror Hu))).
    specialize (Pp h (or_introl eq_refl)). lia. }
  destruct (spec_renormalise T _ _ _ Tpos NE SR SC) as (Win & Sum & Bnd).
  destruct (spec_rescale_fields _ _ _ SR) as [A1 P1]. destruct (spec_centre_fields _ _ SC) as [A2 P2].
  assert (map v_addr l2 = map v_addr l) as A by congruence.
  assert (map v_power l2 = map v_power l) as P by congruence.
  assert (total_power l2 = T) as ET by now apply total_power_map.
  assert (length l2 = length l) as EL by (rewrite <- (map_length v_addr l2), A; apply map_length).
  assert (l2 <> []) as NE2 by (intros ->; destruct l; [congruence|discriminate]).
  pose proof (pos_powers_fields _ _ P Pp) as Pp2.
  pose proof (spec_rounds_bounds (2 * T) k l2 l' props ltac:(rewrite A; exact N) NE2 Pp2
                ltac:(lia) ltac:(lia) (fun u Hu => proj1 (Bnd u Hu)) R) as BB.
  destruct (spec_rounds_accounted _ _ _ _ R) as [F _]. rewrite ET in F.
  destruct (in_same_fields l l2 v A P Hv) as (v2 & Hv2 & Av & Pv).
  destruct (Forall2_in_l _ _ _ _ F Hv2) as (v' & Hv' & (Aa & Pa & Qa)).
  specialize (BB v' Hv'). specialize (Bnd v2 Hv2). rewrite EL in *.
  rewrite Av, Pv in Qa.
  assert (0 < Z.of_nat (length l)) by (destruct l; [congruence|cbn [length]; lia]).
  nia.
Qed.

(** no starvation inside a call: a validator proposes at least once in any run of more than
    (2(n+1)T + n) / p rounds *)
Theorem spec_no_starvation l k l' props :
  l <> [] -> NoDup (map v_addr l) -> (forall v, In v l -> 0 < v_power v) ->
  spec_increment l k l' props ->
  forall v, In v l ->
    2 * (Z.of_nat (length l) + 1) * total_power l + Z.of_nat (length l) < Z.of_nat k * v_power v ->
    In (v_addr v) props.
Proof.
  intros NE N Pp SI v Hv Hk.
  pose proof (spec_share l k l' props NE N Pp SI v Hv) as S.
  destruct (in_dec N.eq_dec (v_addr v) props) as [|NI]; [assumption|exfalso].
  unfold count in S. rewrite (proj1 (count_occ_not_In N.eq_dec props (v_addr v)) NI) in S.
  cbn [Z.of_nat] in S. rewrite Z.mul_0_r in S.
  specialize (Pp v Hv). lia.
Qed.

Lemma nodup_same_addr l a b : NoDup (map v_addr l) -> In a l -> In b l -> v_addr a = v_addr b -> a = b.
Proof.
  induction l as [|h t IH]; intros N Ha Hb E; [destruct Ha|].
  cbn [map] in N. inversion N as [|? ? Nh Nt]; subst.
  destruct Ha as [->|Ha], Hb as [->|Hb]; try reflexivity.
  - exfalso. apply Nh. rewrite E. now apply in_map.
  - exfalso. apply Nh. rewrite <- E. now apply in_map.
  - now apply IH.
Qed.

(** what exactly holds right after a round: from a state within a window W, one round leaves
    the priorities within max (W + pmax - pmin, T) (so within 2T + pmax - pmin < 3T right after
    the renormalisation; the window 2T itself is only re-established by the next call) *)
Theorem spec_round_window W pmin pmax l l' a :
  NoDup (map v_addr l) -> (forall v, In v l -> pmin <= v_power v <= pmax) ->
  0 <= total_power l -> within_window W l -> spec_round l l' a ->
  within_window (Z.max (W + pmax - pmin) (total_power l)) l'.
Proof.
  intros N Pw T0 Win (p & [Hp Hbest] & -> & ->) v' w' Hv' Hw'.
  set (T := total_power l) in *.
  unfold pay in Hv', Hw'. apply in_map_iff in Hv', Hw'.
  destruct Hv' as (v1 & <- & Hv1). destruct Hw' as (w1 & <- & Hw1).
  assert (forall x1, In x1 (advance l) -> exists x, In x l /\ v_prio x1 = v_prio x + v_power x) as Adv.
  { intros x1 Hx1. unfold advance in Hx1. apply in_map_iff in Hx1. destruct Hx1 as (x & <- & Hx). exists x. auto. }
  destruct (Adv v1 Hv1) as (v & Hv & Ev). destruct (Adv w1 Hw1) as (w & Hw & Ew).
  pose proof (Win v w Hv Hw) as Dvw. pose proof (Pw v Hv) as Pv. pose proof (Pw w Hw) as Pww.
  destruct (advance_fields l) as [A _].
  assert (NoDup (map v_addr (advance l))) as N' by (rewrite A; exact N).
  assert (forall x1, In x1 (advance l) -> v_addr x1 = v_addr p -> x1 = p) as Same
      by (intros x1 Hx1 E; now apply (nodup_same_addr (advance l))).
  assert (forall x1, In x1 (advance l) -> v_prio x1 <= v_prio p) as Mx.
  { intros x1 Hx1. destruct (N.eq_dec (v_addr x1) (v_addr p)) as [E|E].
    - rewrite (Same x1 Hx1 E). lia.
    - destruct (Hbest x1 Hx1 E) as [L|[L _]]; lia. }
  pose proof (Mx v1 Hv1) as Mv. pose proof (Mx w1 Hw1) as Mw.
  destruct (N.eqb_spec (v_addr v1) (v_addr p)) as [E1|E1];
    destruct (N.eqb_spec (v_addr w1) (v_addr p)) as [E2|E2]; cbn [set_prio v_prio];
    try (rewrite (Same v1 Hv1 E1) in * ); try (rewrite (Same w1 Hw1 E2) in * ); lia.
Qed.
