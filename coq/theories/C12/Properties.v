(** C12 — property theorems only.  Each is closed by [exact] of a lemma proved in Proofs*.v
    and followed by [Print Assumptions]. *)
From Coq Require Import List ZArith NArith Bool Permutation Sorted.
From Kardia Require Import Base.Int64 C12.Model C12.Spec C12.ProofsSort C12.ProofsUpdate C12.ProofsSpec
     C12.ProofsFair C12.ProofsRefine C12.ProofsUpdate2 C12.ProofsUpdate3 C12.ProofsUpdate4 C12.ProofsUpdate5 C12.ProofsReport C12.ProofsAnyTimes C12.ProofsChain C12.SourceTie C12.ProofsExamples C12.Open Generated.C12Facts.
Import ListNotations.
Local Open Scope Z_scope.

(** the constants of the source (regenerated on every run) are the ones the proofs use *)
Theorem C12_source_constants :
  max_total_voting_power = Z.quot max_int64 8 /\ priority_window_size_factor = 2 /\
  go_max_int64 = max_int64 /\ go_min_int64 = min_int64 /\ B0 = 3 * 2 ^ 60 /\
  2 * B0 + 2 * max_total_voting_power <= max_int64.
Proof. exact facts_fit. Qed.
Print Assumptions C12_source_constants.

(** UpdateWithChangeSet is all-or-nothing: whenever it returns an error, the set is the one
    that was passed in (at most the zero cache of TotalVotingPower() has been filled) *)
Theorem C12_update_atomic :
  forall s cs allow s' e,
    update_with_change_set s cs allow = Some (s', e) -> e <> UOk ->
    s' = s \/ (vs_total s = 0 /\ update_total s = Some s').
Proof. exact update_atomic. Qed.
Print Assumptions C12_update_atomic.

Theorem C12_update_atomic_observable :
  forall s cs allow s' e,
    update_with_change_set s cs allow = Some (s', e) -> e <> UOk ->
    vs_vals s' = vs_vals s /\ vs_proposer s' = vs_proposer s.
Proof. exact update_atomic_fields. Qed.
Print Assumptions C12_update_atomic_observable.

(** the result does not depend on the order of the change set: permuted change sets give the
    same outcome (same set, same error class, same panic), or both are rejected and leave the
    set as it was (the error class of a set with several defects may differ) *)
Theorem C12_update_order_independent :
  forall s cs cs' allow,
    Permutation cs cs' ->
    update_with_change_set s cs allow = update_with_change_set s cs' allow \/
    (exists e e', update_with_change_set s cs allow = Some (s, e) /\
                  update_with_change_set s cs' allow = Some (s, e') /\ e <> UOk /\ e' <> UOk).
Proof. exact update_perm. Qed.
Print Assumptions C12_update_order_independent.

(** duplicates, the zero address, negative powers and powers above the cap are rejected and
    the set is untouched *)
Theorem C12_update_rejects_malformed :
  forall s cs allow,
    cs <> [] ->
    ~ (NoDup (map v_addr cs) /\
       Forall (fun c => v_addr c <> 0%N /\ 0 <= v_power c <= max_total_voting_power) cs) ->
    exists e, update_with_change_set s cs allow = Some (s, e) /\ e <> UOk.
Proof. exact update_rejects_invalid. Qed.
Print Assumptions C12_update_rejects_malformed.

(** removal of a validator that is not in the set is rejected *)
Theorem C12_update_rejects_unknown_removal :
  forall s cs c,
    valid_changes cs -> In c cs -> v_power c = 0 -> get_by_addr (v_addr c) (vs_vals s) = None ->
    update_with_change_set s cs true = Some (s, UUnknown).
Proof. exact update_rejects_unknown. Qed.
Print Assumptions C12_update_rejects_unknown_removal.

(** a successful update never leaves the set empty *)
Theorem C12_update_never_empties :
  forall s cs allow s',
    cs <> [] -> update_with_change_set s cs allow = Some (s', UOk) -> vs_vals s' <> [].
Proof. exact update_ok_nonempty. Qed.
Print Assumptions C12_update_never_empties.

(** specification level (unbounded integers): after the renormalisation of a call the
    priorities are within a window of 2T, their sum is in [0, n), each is within [-2T, 2T] *)
Theorem C12_window_and_centring_spec :
  forall T l l1 l2,
    0 < T -> l <> [] -> spec_rescale T l l1 -> spec_centre l1 l2 ->
    within_window (2 * T) l2 /\ 0 <= sum_priorities l2 < Z.of_nat (length l2) /\
    (forall v, In v l2 -> - (2 * T) <= v_prio v <= 2 * T).
Proof. exact spec_renormalise. Qed.
Print Assumptions C12_window_and_centring_spec.

(** the int64 code (RescalePriorities as repaired, shiftByAvgProposerPriority) achieves it:
    no panic, no wrap, no clipping, for every set below the cap with priorities within
    3 * 2^60 *)
Theorem C12_window_and_centring :
  forall l T,
    l <> [] -> 0 < T <= max_total_voting_power -> bounded B0 l ->
    exists l1 l2,
      rescale l (wrap64 (priority_window_size_factor * T)) = Some l1 /\ shift_by_avg l1 = Some l2 /\
      spec_rescale T l l1 /\ spec_centre l1 l2 /\
      within_window (2 * T) l2 /\ 0 <= sum_prio l2 < Z.of_nat (length l2) /\ bounded (2 * T) l2 /\
      map v_addr l2 = map v_addr l /\ map v_power l2 = map v_power l.
Proof. exact model_renormalise. Qed.
Print Assumptions C12_window_and_centring.

(** one round of the inner loop keeps the sum of the priorities *)
Theorem C12_round_keeps_sum :
  forall s B s' m,
    wf_set s -> bounded B (vs_vals s) -> 0 <= B -> B + total_power (vs_vals s) <= max_int64 ->
    increment_once s = Some (s', m) -> sum_prio (vs_vals s') = sum_prio (vs_vals s).
Proof. exact increment_once_sum. Qed.
Print Assumptions C12_round_keeps_sum.

(** refinement and absence of overflow for IncrementProposerPriority(times): on a well-formed
    set (non-empty, distinct addresses, positive powers, total <= cap, cache consistent) with
    priorities within B0 = 3 * 2^60 and (times + 2) * T <= B0 (always true for times = 1), the
    int64 code does not panic and computes exactly the specified weighted round-robin over
    unbounded integers; the proposer it records is the proposer of the last round and a member
    of the set; the result is again well-formed and within the bound *)
Theorem C12_increment_refines_spec_no_overflow :
  forall s (times : positive),
    wf_set s -> bounded B0 (vs_vals s) ->
    (Z.pos times + 2) * total_power (vs_vals s) <= B0 ->
    exists s' props a p,
      increment s (Z.pos times) = Some s' /\
      spec_increment (vs_vals s) (Pos.to_nat times) (vs_vals s') props /\
      last props 0%N = a /\ vs_proposer s' = Some (a, p) /\
      (exists m0, In m0 (vs_vals s') /\ v_addr m0 = a /\ v_power m0 = p) /\
      wf_set s' /\ vs_total s' = vs_total s /\
      bounded ((Z.pos times + 2) * total_power (vs_vals s)) (vs_vals s').
Proof. exact increment_refines. Qed.
Print Assumptions C12_increment_refines_spec_no_overflow.

(** the rounds of a call keep the sum of priorities (specification) *)
Theorem C12_rounds_keep_sum_spec :
  forall k l l' props,
    NoDup (map v_addr l) -> spec_rounds k l l' props -> sum_priorities l' = sum_priorities l.
Proof. exact spec_rounds_sum. Qed.
Print Assumptions C12_rounds_keep_sum_spec.

(** share accounting: after k rounds, priority = old priority + k * power - T * (times proposed) *)
Theorem C12_share_accounting :
  forall k l l' props,
    spec_rounds k l l' props ->
    Forall2 (accounted (total_power l) k props) l l' /\ length props = k.
Proof. exact spec_rounds_accounted. Qed.
Print Assumptions C12_share_accounting.

(** proportionality inside a call: |T * count_i - k * p_i| <= 2(n+1)T + n *)
Theorem C12_share_within_call :
  forall l k l' props,
    l <> [] -> NoDup (map v_addr l) -> (forall v, In v l -> 0 < v_power v) ->
    spec_increment l k l' props ->
    forall v, In v l ->
      Z.abs (total_power l * count (v_addr v) props - Z.of_nat k * v_power v)
      <= 2 * (Z.of_nat (length l) + 1) * total_power l + Z.of_nat (length l).
Proof. exact spec_share. Qed.
Print Assumptions C12_share_within_call.

(** no starvation inside a call *)
Theorem C12_no_starvation_within_call :
  forall l k l' props,
    l <> [] -> NoDup (map v_addr l) -> (forall v, In v l -> 0 < v_power v) ->
    spec_increment l k l' props ->
    forall v, In v l ->
      2 * (Z.of_nat (length l) + 1) * total_power l + Z.of_nat (length l) < Z.of_nat k * v_power v ->
      In (v_addr v) props.
Proof. exact spec_no_starvation. Qed.
Print Assumptions C12_no_starvation_within_call.

(** a successful UpdateWithChangeSet on a well-formed set with priorities within B0: no int64
    operation wraps or clips on the way, the result is well-formed again (non-empty, distinct
    addresses, positive powers, total <= cap, cache consistent), keeps the recorded proposer,
    is within the window 2T' of its new total, centred (sum in [0, n)), every priority within
    [-2T', 2T'], and ordered by (power descending, address ascending) *)
Theorem C12_update_preserves_wellformed :
  forall s cs allow s',
    wf_set s -> bounded B0 (vs_vals s) -> cs <> [] ->
    update_with_change_set s cs allow = Some (s', UOk) ->
    wf_set s' /\ vs_proposer s' = vs_proposer s /\
    within_window (2 * total_power (vs_vals s')) (vs_vals s') /\
    0 <= sum_prio (vs_vals s') < Z.of_nat (length (vs_vals s')) /\
    bounded (2 * total_power (vs_vals s')) (vs_vals s') /\
    StronglySorted (fun a b => power_lt b a = false) (vs_vals s').
Proof. exact update_preserves. Qed.
Print Assumptions C12_update_preserves_wellformed.

(** NewValidatorSet (when it does not panic) yields a well-formed set within the bounds whose
    proposer is a member *)
Theorem C12_new_validator_set_wellformed :
  forall vals s,
    vals <> [] -> new_validator_set vals = Some s ->
    wf_set s /\ bounded B0 (vs_vals s) /\
    exists a p, vs_proposer s = Some (a, p) /\
                exists m, In m (vs_vals s) /\ v_addr m = a /\ v_power m = p.
Proof. exact new_validator_set_good. Qed.
Print Assumptions C12_new_validator_set_wellformed.

(** invariant of every history NewValidatorSet / IncrementProposerPriority(times) /
    UpdateWithChangeSet: from a good state (well-formed, priorities within 3 * 2^60) an
    increment with (times + 2) * T <= 3 * 2^60 (always true for times = 1, the only value the
    chain uses per block) does not panic, computes exactly the specified round-robin over
    unbounded integers and ends in a good state; an update that returns an error leaves the
    state untouched, one that succeeds ends in a good, centred state within the window.
    Hence no int64 overflow anywhere in such histories. *)
Theorem C12_no_overflow_history_step :
  forall s o,
    good s -> hop_ok s o ->
    match o with
    | HInc times =>
      exists s' props, increment s (Z.pos times) = Some s' /\ good s' /\
        spec_increment (vs_vals s) (Pos.to_nat times) (vs_vals s') props /\
        exists p, vs_proposer s' = Some (last props 0%N, p)
    | HUpd cs =>
      forall s' e, update_with_change_set s cs true = Some (s', e) ->
        match e with
        | UOk => good s' /\
            (cs <> [] -> within_window (2 * total_power (vs_vals s')) (vs_vals s') /\
                         0 <= sum_prio (vs_vals s') < Z.of_nat (length (vs_vals s')))
        | _ => s' = s
        end
    end.
Proof. exact hop_preserves_good. Qed.
Print Assumptions C12_no_overflow_history_step.

(** UpdateWithChangeSet never panics on a good state (in particular: the total predicted by
    verifyUpdates is the total recomputed after the merge, so updateTotalVotingPower cannot
    find the set above the cap; applyRemovals finds every validator it has to delete; the
    emptiness test is exact) *)
Theorem C12_update_never_panics :
  forall s cs allow, good s -> update_with_change_set s cs allow <> None.
Proof. exact update_no_panic. Qed.
Print Assumptions C12_update_never_panics.

(** whole histories: from a good state (e.g. any NewValidatorSet result, by
    C12_new_validator_set_wellformed), any sequence of UpdateWithChangeSet calls (valid or not)
    and IncrementProposerPriority(times) calls with (times + 2) * cap <= 3 * 2^60 — that is
    times = 1, one call per block as the chain does — runs without panic and without any
    int64 wrap or clip, and ends in a good state *)
Theorem C12_no_overflow_no_panic_histories :
  forall s ops, good s -> Forall times_ok ops -> exists s', run_hops s ops = Some s' /\ good s'.
Proof. exact histories_good. Qed.
Print Assumptions C12_no_overflow_no_panic_histories.

Theorem C12_times_one_ok : times_ok (HInc 1).
Proof. exact times_ok_one. Qed.
Print Assumptions C12_times_one_ok.

(** refinement of the change-set step: a successful UpdateWithChangeSet on a good state yields
    exactly what the declarative specification prescribes — the change set is valid (distinct
    addresses, powers in 0..cap, removals only of members); the membership is the old members
    not mentioned plus every entry with positive power, old members keep their priority,
    newcomers start at -(T' + T'/8) with T' the total after the updates and before the
    removals; result non-empty, total <= cap; then window and centring for the new total;
    kept in (power descending, address ascending) order *)
Theorem C12_update_refines_spec :
  forall s cs allow s',
    good s -> cs <> [] -> update_with_change_set s cs allow = Some (s', UOk) ->
    spec_update max_total_voting_power (vs_vals s) cs (vs_vals s').
Proof. exact update_refines_spec. Qed.
Print Assumptions C12_update_refines_spec.

(** completeness of the validation: a change set with distinct non-zero addresses, powers in
    0..cap, removals only of members, whose resulting total (updates applied, removals
    subtracted) is at most the cap and whose result is not empty (a newcomer, or a member that
    is not removed) is accepted.  Together with the rejection theorems: the rejected change sets
    are exactly the specified ones. *)
Theorem C12_update_accepts_valid :
  forall s cs,
    good s -> cs <> [] -> valid_changes cs ->
    (forall c, In c cs -> v_power c = 0 -> get_by_addr (v_addr c) (vs_vals s) <> None) ->
    total_after_updates (vs_vals s) cs - lsum (vs_vals s) (filter (fun c => v_power c =? 0) cs)
      <= max_total_voting_power ->
    ((exists c, In c cs /\ 0 < v_power c /\ get_by_addr (v_addr c) (vs_vals s) = None) \/
     (exists v, In v (vs_vals s) /\ ~ In (v_addr v) (map v_addr (filter (fun c => v_power c =? 0) cs)))) ->
    exists s', update_with_change_set s cs true = Some (s', UOk).
Proof. exact update_accepts_valid. Qed.
Print Assumptions C12_update_accepts_valid.

(** what holds right after a round (the window 2T is a property of the renormalisation point,
    not of every intermediate state): from a window W the next state is within
    max (W + pmax - pmin, T) *)
Theorem C12_window_after_round_spec :
  forall W pmin pmax l l' a,
    NoDup (map v_addr l) -> (forall v, In v l -> pmin <= v_power v <= pmax) ->
    0 <= total_power l -> within_window W l -> spec_round l l' a ->
    within_window (Z.max (W + pmax - pmin) (total_power l)) l'.
Proof. exact spec_round_window. Qed.
Print Assumptions C12_window_after_round_spec.

(** verifyUpdates: the verdict depends only on the final total (updates applied, removals
    subtracted) — accepted iff it is at most the cap, whatever the order of the change set —
    and the value returned is the exact total before removals *)
Theorem C12_verify_updates_decides :
  forall vals ups dels,
    NoDup (map v_addr (ups ++ dels)) ->
    (forall v, In v vals -> 0 < v_power v) -> total_power vals <= max_total_voting_power ->
    (forall u, In u ups -> 0 < v_power u <= max_total_voting_power) ->
    let T := total_power vals in
    let removed := lsum vals dels in
    verify_updates ups vals T removed =
      (if T - removed + dsum vals ups <=? max_total_voting_power then Some (T + dsum vals ups) else None).
Proof. exact verify_updates_decides. Qed.
Print Assumptions C12_verify_updates_decides.

(** ... and no intermediate wrap: because the deltas are added in ascending order and checked
    after every step, each running total of an accepted change set lies in [0, cap] (it can
    never pass 2^63 and come back into range, however many near-cap entries there are) *)
Theorem C12_verify_updates_running_totals :
  forall vals us acc r,
    (forall v, In v vals -> 0 < v_power v <= max_total_voting_power) ->
    (forall u, In u us -> 0 <= v_power u <= max_total_voting_power) ->
    lsum vals us <= acc <= max_total_voting_power ->
    add_deltas vals us acc = Some r ->
    Forall (fun x => 0 <= x <= max_total_voting_power) (running vals us acc).
Proof. exact add_deltas_running. Qed.
Print Assumptions C12_verify_updates_running_totals.

(** the path from the application's validator report to the set (calculateValidatorSetUpdates
    + updateState): a report with an address twice, a negative power, a power above the cap, or
    power 0 for an address that is not a member is rejected as a whole — error, state unchanged *)
Theorem C12_report_invalid_rejected :
  forall s report,
    good s -> report_invalid (vs_vals s) report ->
    exists e, e <> UOk /\ apply_report s report = Some (s, e).
Proof. exact report_invalid_rejected. Qed.
Print Assumptions C12_report_invalid_rejected.

Theorem C12_report_accepted_keeps_good :
  forall s report s', good s -> apply_report s report = Some (s', UOk) -> good s'.
Proof. exact report_ok_good. Qed.
Print Assumptions C12_report_accepted_keeps_good.

(** the change set that calculateValidatorSetUpdates derives from a report (no repeated address)
    over a set with distinct addresses is exactly: the report's entries that are not members or
    whose power differs from the member's (power 0 included), plus a removal for every member the
    report leaves out — nothing the report says about a non-member is dropped on the way *)
Theorem C12_report_change_set_exact :
  forall last report c,
    report <> [] -> NoDup (map v_addr report) -> NoDup (map v_addr last) ->
    (In c (calculate_updates last report) <->
     (In c report /\ forall o, get_by_addr (v_addr c) last = Some o -> v_power o <> v_power c) \/
     (exists o, In o last /\ ~ In (v_addr o) (map v_addr report) /\ c = removal_of o)).
Proof. exact calculate_updates_exact. Qed.
Print Assumptions C12_report_change_set_exact.

Theorem C12_report_keeps_unknown_removal :
  forall last report c,
    NoDup (map v_addr report) -> NoDup (map v_addr last) ->
    In c report -> v_power c = 0 -> get_by_addr (v_addr c) last = None ->
    In c (calculate_updates last report).
Proof. exact calculate_updates_keeps_unknown_removal. Qed.
Print Assumptions C12_report_keeps_unknown_removal.

(** the cstate path never panics on a good set, and an accepted report refines the
    specification: the new NextValidators is the specified update by the derived change set (or
    the set itself when nothing changed) followed by one round of the specified round-robin,
    whose proposer is the one recorded *)
Theorem C12_report_refines_spec :
  (forall s report, good s -> apply_report s report <> None) /\
  forall s report s',
    good s -> apply_report s report = Some (s', UOk) ->
    let cs := calculate_updates (vs_vals s) report in
    exists mid props p,
      ((cs = [] /\ mid = vs_vals s) \/ (cs <> [] /\ spec_update max_total_voting_power (vs_vals s) cs mid)) /\
      spec_increment mid 1 (vs_vals s') props /\
      vs_proposer s' = Some (last props 0%N, p).
Proof. exact (conj report_no_panic report_refines_spec). Qed.
Print Assumptions C12_report_refines_spec.

(** updateState on the whole LatestBlockState is all-or-nothing: an error returns the state
    that was passed in (all three validator sets, both heights) *)
Theorem C12_block_atomic :
  forall st report st' e,
    apply_block st report = Some (st', e) -> e <> UOk -> st' = st.
Proof. exact block_atomic. Qed.
Print Assumptions C12_block_atomic.

(** the pipeline of validator sets: after an accepted block the set in force (Validators) is the
    previous NextValidators, LastValidators is the previous Validators, NextValidators is the
    report applied to the previous NextValidators; the height advances by one and
    LastHeightValidatorsChanged becomes height + 2 exactly when the report changed something *)
Theorem C12_block_pipeline :
  forall st report st',
    apply_block st report = Some (st', UOk) ->
    ch_cur st' = ch_next st /\ ch_last st' = ch_cur st /\
    apply_report (ch_next st) report = Some (ch_next st', UOk) /\
    ch_height st' = wrapu64 (ch_height st + 1) /\
    ch_changed st' = match calculate_updates (vs_vals (ch_next st)) report with
                     | [] => ch_changed st
                     | _ => wrapu64 (ch_height st' + 2)
                     end.
Proof. exact block_pipeline. Qed.
Print Assumptions C12_block_pipeline.

Theorem C12_block_pipeline_lag :
  forall st r1 r2 st1 st2,
    apply_block st r1 = Some (st1, UOk) -> apply_block st1 r2 = Some (st2, UOk) ->
    ch_cur st1 = ch_next st /\ ch_cur st2 = ch_next st1 /\ ch_last st2 = ch_next st.
Proof. exact pipeline_lag. Qed.
Print Assumptions C12_block_pipeline_lag.

(** histories of blocks: the genesis arrangement over a good set exists and is a good state;
    from a good state a block, and hence any sequence of validator reports, valid or not, runs
    without panic — so without any int64 wrap or clip — and every state on the way has good
    Validators and NextValidators *)
Theorem C12_block_histories_good :
  (forall s, good s -> exists c, chain_genesis s = Some c /\ chain_good c) /\
  (forall st report,
    chain_good st -> exists st' e, apply_block st report = Some (st', e) /\ chain_good st') /\
  (forall st reports,
    chain_good st -> exists st', run_blocks st reports = Some st' /\ chain_good st').
Proof. exact (conj genesis_exists_good (conj block_good blocks_good)). Qed.
Print Assumptions C12_block_histories_good.

(** the proposer of round k of a height, CopyIncrementProposerPriority(k).GetProposer() on the
    height's set, is the proposer of the k-th round of the specified round-robin from that set,
    and a member of it (side condition of the overflow proof; always true for k = 1) *)
Theorem C12_round_proposer_refines_spec :
  forall s (k : positive),
    good s -> (Z.pos k + 2) * total_power (vs_vals s) <= B0 ->
    exists l' props,
      spec_increment (vs_vals s) (Pos.to_nat k) l' props /\
      proposer_at s (Z.pos k) = Some (last props 0%N) /\
      In (last props 0%N) (map v_addr (vs_vals s)).
Proof. exact proposer_at_refines_spec. Qed.
Print Assumptions C12_round_proposer_refines_spec.

(** IncrementProposerPriority(times) for ANY number of rounds (partial answer to
    Open.C12_no_overflow_any_times_statement: the side condition no longer mentions [times], it
    bounds the number of validators times the total power, n + (2n + 1) T <= 3 * 2^60, e.g. 100
    validators with a total up to 2^53): no panic, no int64 wrap or clip, exactly the specified
    round-robin, and the priorities stay within n + 2nT however many rounds are run.
    Missing for the full statement: a bound on the priorities that does not grow with n. *)
Theorem C12_increment_any_times_partial :
  forall s (times : positive),
    wf_set s -> bounded B0 (vs_vals s) ->
    round_bound (vs_vals s) + total_power (vs_vals s) <= B0 ->
    exists s' props a p,
      increment s (Z.pos times) = Some s' /\
      spec_increment (vs_vals s) (Pos.to_nat times) (vs_vals s') props /\
      last props 0%N = a /\ vs_proposer s' = Some (a, p) /\
      (exists m0, In m0 (vs_vals s') /\ v_addr m0 = a /\ v_power m0 = p) /\
      wf_set s' /\ vs_total s' = vs_total s /\
      bounded (round_bound (vs_vals s)) (vs_vals s') /\ bounded B0 (vs_vals s').
Proof. exact increment_refines_any_times. Qed.
Print Assumptions C12_increment_any_times_partial.

(** source tie: the model's safe arithmetic, cap tests, window test, newcomer priority, delta and
    running-total arithmetic, per-entry power checks, comparison orders, the report's
    "!found || oldPower != val.VotingPower" test and updateState's bookkeeping ARE the expressions
    that /verif/go2coq regenerates from the Go sources into Generated/C12Source.v on every check
    (statement in C12/SourceTie.v) *)
Theorem C12_source_tie : C12_source_tie_statement.
Proof. exact C12_source_tie_proof. Qed.
Print Assumptions C12_source_tie.

(** The decision-critical functions of the anchored code have exactly the decisions the source tie knows about
    (go2coq manifests, regenerated from /repo on every check; statement in SourceManifest.v). *)
From Kardia Require Import C12.SourceManifest.
Theorem C12_source_manifest : C12_source_manifest_statement.
Proof. exact C12_source_manifest_proof. Qed.
Print Assumptions C12_source_manifest.
