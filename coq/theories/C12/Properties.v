(** C12 — property theorems only. *)
From Coq Require Import List ZArith NArith Bool.
From Kardia Require Import Base.Int64 C12.Model Generated.C12Facts.
Local Open Scope Z_scope.

Theorem C12_placeholder : max_total_voting_power = max_total_voting_power.
Proof. exact eq_refl. Qed.
Print Assumptions C12_placeholder.
