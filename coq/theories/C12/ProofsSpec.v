(** C12 — theorems about the specification itself (exact arithmetic): window and centring
    after the renormalisation, constant sum of priorities, share accounting, bounds that
    give proportionality and no starvation inside a run of rounds. *)
From Coq Require Import List ZArith NArith Bool Lia Permutation.
From Kardia Require Import C12.Model C12.Spec.
Import ListNotations.
Local Open Scope Z_scope.

(* ------------------------------------------------------------------ *)
(** * arithmetic of the window *)

Lemma ceil_div_bounds d W : 0 < W -> W < d ->
  2 <= (d + W - 1) / W /\ d <= W * ((d + W - 1) / W).
Proof.
  intros HW Hd.
  pose proof (Z.div_mod (d + W - 1) W ltac:(lia)) as E.
  pose proof (Z.mod_pos_bound (d + W - 1) W HW) as B.
  set (r := (d + W - 1) / W) in *. split; [|lia].
  assert (W * 1 < W * r) by lia.
  assert (W * 2 <= W * r + (d + W - 1) mod W - 0) by lia.
  destruct (Z.le_gt_cases 2 r) as [|L]; [assumption|].
  assert (r <= 1) as R1 by lia.
  assert (W * r <= W * 1) by (apply Z.mul_le_mono_nonneg_l; lia). lia.
Qed.

Lemma quot_diff_bound p q r W :
  2 <= r -> 0 <= W -> p - q <= W * r -> Z.quot p r - Z.quot q r <= W.
Proof.
  intros Hr HW Hd.
  destruct (Z.le_gt_cases p q) as [Lpq|Lpq].
  { pose proof (Z.quot_le_mono p q r ltac:(lia) Lpq). lia. }
  pose proof (Z.quot_rem' p r) as Ep. pose proof (Z.quot_rem' q r) as Eq.
  set (a := Z.quot p r) in *. set (b := Z.quot q r) in *.
  assert (r * (a - b) < r * (W + 1)) as K.
  { destruct (Z.le_gt_cases 0 q) as [Q0|Q0].
    - pose proof (Z.rem_bound_pos p r ltac:(lia) ltac:(lia)).
      pose proof (Z.rem_bound_pos q r Q0 ltac:(lia)). lia.
    - destruct (Z.le_gt_cases p 0) as [P0|P0].
      + pose proof (Z.rem_bound_pos_neg p r ltac:(lia) P0).
        pose proof (Z.rem_bound_pos_neg q r ltac:(lia) ltac:(lia)). lia.
      + pose proof (Z.rem_bound_pos p r ltac:(lia) ltac:(lia)).
        pose proof (Z.rem_bound_pos_neg q r ltac:(lia) ltac:(lia)). lia. }
  apply Z.mul_lt_mono_pos_l in K; lia.
Qed.

(* ------------------------------------------------------------------ *)
(** * window *)

Lemma in_map_set_prio (f : validator -> Z) l v' :
  In v' (map (fun v => set_prio v (f v)) l) -> exists v, In v l /\ v' = set_prio v (f v).
Proof. rewrite in_map_iff. intros (v & <- & H). eauto. Qed.

Theorem spec_rescale_window T l l' :
  0 < T -> spec_rescale T l l' -> within_window (2 * T) l'.
Proof.
  intros HT (mx & mn & [_ Hmx] & [_ Hmn] & H). cbn zeta in H.
  destruct (Z.ltb_spec (2 * T) (mx - mn)) as [L|L]; subst l'.
  - intros v' w' Hv Hw.
    apply in_map_set_prio in Hv. destruct Hv as (v & Hv & ->).
    apply in_map_set_prio in Hw. destruct Hw as (w & Hw & ->). cbn [set_prio v_prio].
    destruct (ceil_div_bounds (mx - mn) (2 * T) ltac:(lia) L) as [R2 RW].
    apply quot_diff_bound; [exact R2|lia|].
    specialize (Hmx v Hv). specialize (Hmn w Hw). lia.
  - intros v w Hv Hw. specialize (Hmx v Hv). specialize (Hmn w Hw). lia.
Qed.

(* ------------------------------------------------------------------ *)
(** * centring *)

Lemma sum_priorities_shift c l :
  sum_priorities (map (fun v => set_prio v (v_prio v - c)) l) = sum_priorities l - Z.of_nat (length l) * c.
Proof.
  induction l as [|h t IH]; [cbn; lia|].
  cbn [map sum_priorities fold_right length set_prio v_prio]. fold (sum_priorities t).
  fold (sum_priorities (map (fun v => set_prio v (v_prio v - c)) t)). rewrite IH. lia.
Qed.

Theorem spec_centre_sum l l' :
  l <> [] -> spec_centre l l' -> 0 <= sum_priorities l' < Z.of_nat (length l').
Proof.
  intros NE ->. rewrite map_length, sum_priorities_shift.
  assert (0 < Z.of_nat (length l)) as Hn by (destruct l; [congruence|cbn [length]; lia]).
  pose proof (Z.div_mod (sum_priorities l) (Z.of_nat (length l)) ltac:(lia)).
  pose proof (Z.mod_pos_bound (sum_priorities l) (Z.of_nat (length l)) Hn). lia.
Qed.

Lemma spec_centre_window W l l' : spec_centre l l' -> within_window W l -> within_window W l'.
Proof.
  intros -> H v' w' Hv Hw.
  apply in_map_set_prio in Hv. destruct Hv as (v & Hv & ->).
  apply in_map_set_prio in Hw. destruct Hw as (w & Hw & ->). cbn [set_prio v_prio].
  specialize (H v w Hv Hw). lia.
Qed.

Lemma sum_le_max l m : (forall v, In v l -> v_prio v <= m) -> sum_priorities l <= Z.of_nat (length l) * m.
Proof.
  induction l as [|h t IH]; intros H; [cbn; lia|].
  cbn [sum_priorities fold_right length]. fold (sum_priorities t).
  specialize (IH (fun v Hv => H v (or_intror Hv))). specialize (H h (or_introl eq_refl)). lia.
Qed.

Lemma sum_ge_min l m : (forall v, In v l -> m <= v_prio v) -> Z.of_nat (length l) * m <= sum_priorities l.
Proof.
  induction l as [|h t IH]; intros H; [cbn; lia|].
  cbn [sum_priorities fold_right length]. fold (sum_priorities t).
  specialize (IH (fun v Hv => H v (or_intror Hv))). specialize (H h (or_introl eq_refl)). lia.
Qed.

(** centred and within a window W: every priority is within [-W, W] *)
Lemma centred_window_bound W l :
  0 <= W -> within_window W l -> 0 <= sum_priorities l < Z.of_nat (length l) ->
  forall v, In v l -> - W <= v_prio v <= W.
Proof.
  intros HW Hwin [S0 S1] v Hv.
  assert (0 < Z.of_nat (length l)) as Hn by lia.
  split.
  - (* if v < -W then everybody is < 0, so the sum is negative *)
    destruct (Z.le_gt_cases (- W) (v_prio v)) as [|L]; [assumption|exfalso].
    assert (sum_priorities l <= Z.of_nat (length l) * (-1)).
    { apply sum_le_max. intros w Hw. specialize (Hwin w v Hw Hv). lia. }
    lia.
  - destruct (Z.le_gt_cases (v_prio v) W) as [|L]; [assumption|exfalso].
    assert (Z.of_nat (length l) * 1 <= sum_priorities l).
    { apply sum_ge_min. intros w Hw. specialize (Hwin v w Hv Hw). lia. }
    lia.
Qed.

(** the renormalisation of every call: window 2T, sum in [0, n), every priority in [-2T, 2T] *)
Theorem spec_renormalise T l l1 l2 :
  0 < T -> l <> [] -> spec_rescale T l l1 -> spec_centre l1 l2 ->
  within_window (2 * T) l2 /\ 0 <= sum_priorities l2 < Z.of_nat (length l2) /\
  (forall v, In v l2 -> - (2 * T) <= v_prio v <= 2 * T).
Proof.
  intros HT NE R C.
  assert (l1 <> []) as NE1.
  { destruct R as (mx & mn & _ & _ & H). cbn zeta in H.
    destruct (2 * T <? mx - mn); subst l1; [|exact NE]. destruct l; [congruence|discriminate]. }
  pose proof (spec_centre_window _ _ _ C (spec_rescale_window _ _ _ HT R)) as W.
  pose proof (spec_centre_sum _ _ NE1 C) as S.
  split; [exact W|]. split; [exact S|].
  apply centred_window_bound; [lia|exact W|exact S].
Qed.

(* ------------------------------------------------------------------ *)
(** * one round: shape, constant sum *)

Lemma advance_fields l : map v_addr (advance l) = map v_addr l /\ map v_power (advance l) = map v_power l.
Proof. unfold advance. rewrite !map_map. cbn. auto. Qed.

Lemma pay_fields T a l : map v_addr (pay T a l) = map v_addr l /\ map v_power (pay T a l) = map v_power l.
Proof.
  unfold pay. rewrite !map_map. split; apply map_ext; intros v; destruct (N.eqb (v_addr v) a); reflexivity.
Qed.

Lemma total_power_map l l' : map v_power l' = map v_power l -> total_power l' = total_power l.
Proof.
  revert l'; induction l as [|h t IH]; intros [|h' t'] H; try discriminate; [reflexivity|].
  cbn [map] in H. inversion H. cbn [total_power fold_right]. fold (total_power t) (total_power t').
  rewrite (IH t'); [lia|assumption].
Qed.

Lemma spec_round_fields l l' a : spec_round l l' a ->
  map v_addr l' = map v_addr l /\ map v_power l' = map v_power l /\ In a (map v_addr l).
Proof.
  intros (p & [Hp _] & -> & ->).
  destruct (pay_fields (total_power l) (v_addr p) (advance l)) as [A B].
  destruct (advance_fields l) as [A' B']. rewrite A, B, A', B'. repeat split.
  rewrite <- A'. now apply in_map.
Qed.

Lemma sum_advance l : sum_priorities (advance l) = sum_priorities l + total_power l.
Proof.
  induction l as [|h t IH]; [reflexivity|].
  cbn [advance map sum_priorities total_power fold_right set_prio v_prio].
  fold (advance t) (sum_priorities (advance t)) (sum_priorities t) (total_power t). rewrite IH. lia.
Qed.

Lemma pay_not_in T a l : ~ In a (map v_addr l) -> pay T a l = l.
Proof.
  induction l as [|h t IH]; intros H; [reflexivity|].
  cbn [pay map]. cbn [map In] in H.
  destruct (N.eqb_spec (v_addr h) a) as [E|E]; [tauto|]. f_equal. apply IH. tauto.
Qed.

Lemma sum_pay T a l : NoDup (map v_addr l) -> In a (map v_addr l) ->
  sum_priorities (pay T a l) = sum_priorities l - T.
Proof.
  induction l as [|h t IH]; intros N H; [destruct H|].
  cbn [map] in N, H. inversion N as [|? ? Nh Nt]; subst.
  cbn [pay map sum_priorities fold_right]. fold (pay T a t) (sum_priorities (pay T a t)) (sum_priorities t).
  destruct (N.eqb_spec (v_addr h) a) as [E|E].
  - subst a. rewrite (pay_not_in _ _ _ Nh). cbn [set_prio v_prio]. lia.
  - destruct H as [H|H]; [congruence|]. rewrite (IH Nt H). lia.
Qed.

Theorem spec_round_sum l l' a :
  NoDup (map v_addr l) -> spec_round l l' a -> sum_priorities l' = sum_priorities l.
Proof.
  intros N R. destruct (spec_round_fields _ _ _ R) as (_ & _ & Ha).
  destruct R as (p & _ & -> & ->).
  destruct (advance_fields l) as [A' _].
  rewrite sum_pay; [|rewrite A'; exact N|rewrite A'; exact Ha].
  rewrite sum_advance. lia.
Qed.

Theorem spec_rounds_sum k l l' props :
  NoDup (map v_addr l) -> spec_rounds k l l' props -> sum_priorities l' = sum_priorities l.
Proof.
  intros N R. induction R as [|k l l1 l2 a props R1 R IH]; [reflexivity|].
  destruct (spec_round_fields _ _ _ R1) as (A & _ & _).
  rewrite IH; [|rewrite A; exact N]. now apply spec_round_sum in R1.
Qed.

(* ------------------------------------------------------------------ *)
(** * share accounting *)

Definition count (a : N) (props : list N) : Z := Z.of_nat (count_occ N.eq_dec props a).

(** after k rounds: prio' = prio + k * power - T * (times proposed) *)
Definition accounted (T : Z) (k : nat) (props : list N) (v v' : validator) : Prop :=
  v_addr v' = v_addr v /\ v_power v' = v_power v /\
  v_prio v' = v_prio v + Z.of_nat k * v_power v - T * count (v_addr v) props.

Lemma round_accounted_gen T a l :
  Forall2 (accounted T 1 [a]) l (pay T a (advance l)).
Proof.
  unfold pay, advance. rewrite map_map.
  induction l as [|h t IH]; cbn [map]; constructor; [|exact IH].
  unfold accounted, count. cbn [count_occ set_prio v_addr].
  destruct (N.eqb_spec (v_addr h) a) as [E|E]; cbn [v_addr v_power v_prio set_prio];
    destruct (N.eq_dec a (v_addr h)) as [E'|E']; try congruence;
    cbn [count_occ]; repeat split; lia.
Qed.

Lemma spec_round_accounted l l' a :
  spec_round l l' a -> Forall2 (accounted (total_power l) 1 [a]) l l'.
Proof. intros (p & _ & -> & ->). apply round_accounted_gen. Qed.

Lemma Forall2_accounted_trans T k1 k2 p1 p2 l l1 l2 :
  Forall2 (accounted T k1 p1) l l1 -> Forall2 (accounted T k2 p2) l1 l2 ->
  Forall2 (accounted T (k1 + k2) (p1 ++ p2)) l l2.
Proof.
  intros H. revert l2. induction H as [|v v1 t t1 Hv Ht IH]; intros l2 H2; inversion H2; subst; constructor.
  - destruct Hv as (A1 & P1 & Q1).
    match goal with H : accounted _ _ _ v1 _ |- _ => destruct H as (A2 & P2 & Q2) end.
    unfold accounted, count in *. rewrite count_occ_app, !Nat2Z.inj_add.
    split; [congruence|]. split; [congruence|].
    rewrite Q2, A1, P1, Q1. lia.
  - apply IH. assumption.
Qed.

Theorem spec_rounds_accounted k l l' props :
  spec_rounds k l l' props -> Forall2 (accounted (total_power l) k props) l l' /\ length props = k.
Proof.
  intros R. induction R as [l|k l l1 l2 a props R1 R [IH IHl]].
  - split; [|reflexivity]. generalize (total_power l). intros T.
    induction l as [|h t IHt]; constructor; [|exact IHt].
    unfold accounted, count. cbn [count_occ]. repeat split; lia.
  - split; [|cbn; now rewrite IHl].
    destruct (spec_round_fields _ _ _ R1) as (_ & P & _).
    rewrite (total_power_map _ _ P) in IH.
    change (S k) with (1 + k)%nat. change (a :: props) with ([a] ++ props).
    eapply Forall2_accounted_trans; [apply spec_round_accounted, R1|exact IH].
Qed.

(* ------------------------------------------------------------------ *)
(** * bounds on priorities during a run of rounds *)

Lemma total_power_nonneg l : (forall v, In v l -> 0 < v_power v) -> 0 <= total_power l.
Proof.
  induction l as [|h t IH]; intros H; [cbn; lia|].
  cbn [total_power fold_right]. fold (total_power t).
  specialize (IH (fun v Hv => H v (or_intror Hv))). specialize (H h (or_introl eq_refl)). lia.
Qed.

Lemma power_le_total l v : (forall w, In w l -> 0 < v_power w) -> In v l -> v_power v <= total_power l.
Proof.
  induction l as [|h t IH]; intros H Hv; [destruct Hv|].
  cbn [total_power fold_right]. fold (total_power t).
  pose proof (total_power_nonneg t (fun w Hw => H w (or_intror Hw))).
  destruct Hv as [->|Hv]; [lia|].
  specialize (IH (fun w Hw => H w (or_intror Hw)) Hv). specialize (H h (or_introl eq_refl)). lia.
Qed.

(** lower bound: with a sum >= -T... the proposer's advanced priority is at least the
    average, so nobody falls below min(B, T) *)
Lemma spec_round_lower B l l' a :
  NoDup (map v_addr l) -> l <> [] -> (forall v, In v l -> 0 < v_power v) ->
  0 <= sum_priorities l -> total_power l <= B ->
  (forall v, In v l -> - B <= v_prio v) ->
  spec_round l l' a -> forall v, In v l' -> - B <= v_prio v.
Proof.
  intros N NE Pp S0 TB LB (p & [Hp Hbest] & -> & ->) v' Hv'.
  unfold pay in Hv'. apply in_map_iff in Hv'. destruct Hv' as (w & <- & Hw).
  assert (- B <= v_prio w) as Lw.
  { unfold advance in Hw. apply in_map_iff in Hw. destruct Hw as (u & <- & Hu). cbn [set_prio v_prio].
    specialize (LB u Hu). specialize (Pp u Hu). lia. }
  destruct (N.eqb_spec (v_addr w) (v_addr p)) as [E|E]; [|exact Lw].
  cbn [set_prio v_prio].
  (* w has the proposer's address; the proposer's priority is the maximum of the advanced list *)
  assert (forall u, In u (advance l) -> v_prio u <= v_prio p) as Mx.
  { intros u Hu. destruct (N.eq_dec (v_addr u) (v_addr p)) as [Eu|Eu].
    - (* same address, NoDup: same element *)
      destruct (advance_fields l) as [A _].
      assert (NoDup (map v_addr (advance l))) as N' by (rewrite A; exact N).
      clear - N' Hu Hp Eu. induction (advance l) as [|h t IH]; [destruct Hu|].
      cbn [map] in N'. inversion N' as [|? ? Nh Nt]; subst.
      destruct Hu as [->|Hu], Hp as [->|Hp]; try lia.
      + exfalso. apply Nh. rewrite Eu. now apply in_map.
      + exfalso. apply Nh. rewrite <- Eu. now apply in_map.
      + now apply IH.
    - destruct (Hbest u Hu Eu) as [L|[L _]]; lia. }
  assert (v_prio w <= v_prio p) as Wp by (apply Mx, Hw).
  assert (v_prio p <= v_prio w) as Pw.
  { (* w = p because addresses are unique *)
    destruct (advance_fields l) as [A _].
    assert (NoDup (map v_addr (advance l))) as N' by (rewrite A; exact N).
    clear - N' Hw Hp E. induction (advance l) as [|h t IH]; [destruct Hw|].
    cbn [map] in N'. inversion N' as [|? ? Nh Nt]; subst.
    destruct Hw as [->|Hw], Hp as [->|Hp]; try lia.
    + exfalso. apply Nh. rewrite E. now apply in_map.
    + exfalso. apply Nh. rewrite <- E. now apply in_map.
    + now apply IH. }
  pose proof (sum_le_max (advance l) (v_prio p) Mx) as SM.
  rewrite sum_advance in SM. unfold advance in SM. rewrite map_length in SM.
  assert (0 < Z.of_nat (length l)) as Hn by (destruct l; [congruence|cbn [length]; lia]).
  pose proof (total_power_nonneg l Pp) as T0.
  (* n * prio p >= S + T >= T > ... so prio p >= 0 when T >= 0 *)
  assert (0 <= v_prio p).
  { destruct (Z.le_gt_cases 0 (v_prio p)) as [|L]; [assumption|].
    assert (Z.of_nat (length l) * v_prio p <= Z.of_nat (length l) * (-1)) by (apply Z.mul_le_mono_nonneg_l; lia).
    assert (0 < total_power l).
    { destruct l as [|h t]; [congruence|]. cbn [total_power fold_right]. fold (total_power t).
      pose proof (total_power_nonneg t (fun u Hu => Pp u (or_intror Hu))).
      specialize (Pp h (or_introl eq_refl)). lia. }
    lia. }
  lia.
Qed.

(** upper bound from the constant sum and the lower bound *)
Lemma upper_from_sum B l v :
  (forall w, In w l -> - B <= v_prio w) -> In v l ->
  v_prio v <= sum_priorities l + (Z.of_nat (length l) - 1) * B.
Proof.
  induction l as [|h t IH]; intros LB Hv; [destruct Hv|].
  cbn [sum_priorities fold_right length]. fold (sum_priorities t).
  pose proof (sum_ge_min t (- B) (fun w Hw => LB w (or_intror Hw))) as SM.
  destruct Hv as [->|Hv].
  - lia.
  - specialize (IH (fun w Hw => LB w (or_intror Hw)) Hv).
    specialize (LB h (or_introl eq_refl)). lia.
Qed.

Theorem spec_rounds_bounds B k l l' props :
  NoDup (map v_addr l) -> l <> [] -> (forall v, In v l -> 0 < v_power v) ->
  0 <= sum_priorities l -> total_power l <= B ->
  (forall v, In v l -> - B <= v_prio v) ->
  spec_rounds k l l' props ->
  forall v, In v l' -> - B <= v_prio v <= sum_priorities l + (Z.of_nat (length l) - 1) * B.
Proof.
  intros N NE Pp S0 TB LB R.
  assert (forall v, In v l' -> - B <= v_prio v) as LB'.
  { clear - N NE Pp S0 TB LB R.
    induction R as [|k l l1 l2 a props R1 R IH]; [exact LB|].
    destruct (spec_round_fields _ _ _ R1) as (A & P & _).
    apply IH.
    - rewrite A; exact N.
    - intros ->. destruct l; [congruence|discriminate].
    - intros v Hv.
      assert (In (v_power v) (map v_power l1)) as Hin by now apply in_map.
      rewrite P in Hin. apply in_map_iff in Hin. destruct Hin as (u & <- & Hu). now apply Pp.
    - rewrite (spec_round_sum _ _ _ N R1). exact S0.
    - rewrite (total_power_map _ _ P). exact TB.
    - eapply spec_round_lower; eassumption. }
  intros v Hv. split; [now apply LB'|].
  rewrite <- (spec_rounds_sum _ _ _ _ N R).
  assert (length l' = length l) as EL.
  { clear - R. induction R as [|k l l1 l2 a props R1 R IH]; [reflexivity|].
    destruct (spec_round_fields _ _ _ R1) as (A & _ & _). rewrite IH.
    rewrite <- (map_length v_addr l1), A. apply map_length. }
  rewrite <- EL. now apply upper_from_sum.
Qed.
