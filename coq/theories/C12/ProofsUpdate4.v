(** C12 — a successful UpdateWithChangeSet on a good state produces exactly the set the
    declarative specification [spec_update] describes. *)
From Coq Require Import List ZArith NArith Bool Lia Permutation Sorted.
From Kardia Require Import Base.Int64 Base.ListX C12.Model C12.Spec C12.ProofsSort C12.ProofsUpdate
     C12.ProofsSpec C12.ProofsFair C12.ProofsRefine C12.ProofsUpdate2 C12.ProofsUpdate3 Generated.C12Facts.
Import ListNotations.
Local Open Scope Z_scope.

Ltac dis := first [discriminate | let X := fresh "X" in intros X; discriminate X].

Lemma lookup_get a l : lookup a l = get_by_addr a l.
Proof.
  unfold lookup. induction l as [|h t IH]; [reflexivity|]. cbn [find get_by_addr].
  rewrite (N.eqb_sym (v_addr h) a). destruct (N.eqb a (v_addr h)); [reflexivity|exact IH].
Qed.

Lemma old_power_look l c : old_power l (v_addr c) = look l c.
Proof. unfold old_power, look. now rewrite lookup_get. Qed.

Lemma permutation_filter {A} (f : A -> bool) l l' : Permutation l l' -> Permutation (filter f l) (filter f l').
Proof.
  intros P. induction P as [|x l l' P IH|x y l|l l' l'' P1 IH1 P2 IH2]; cbn [filter].
  - constructor.
  - destruct (f x); [now constructor|exact IH].
  - destruct (f x), (f y); try reflexivity. apply perm_swap.
  - now transitivity (filter f l').
Qed.

Lemma total_after_updates_dsum l cs :
  total_after_updates l cs = total_power l + dsum l (filter (fun c => 0 <? v_power c) cs).
Proof.
  unfold total_after_updates. f_equal. induction cs as [|c t IH]; [reflexivity|].
  cbn [fold_right filter]. rewrite IH. destruct (0 <? v_power c).
  - cbn [dsum fold_right]. fold (dsum l (filter (fun c0 => 0 <? v_power c0) t)). rewrite old_power_look. lia.
  - lia.
Qed.

Lemma merge_in_strong ex : forall ups x,
  StronglySorted addr_slt ex -> StronglySorted addr_slt ups -> In x (merge_updates ex ups) ->
  (In x ex /\ ~ In (v_addr x) (map v_addr ups)) \/ In x ups.
Proof.
  induction ex as [|e ex' IHe]; intros ups x Se Su H; [rewrite merge_nil_l in H; now right|].
  induction ups as [|u ups' IHu]; [rewrite merge_nil_r in H; left; split; [exact H|intros []]|].
  inversion Se as [|? ? Se' Fe]; subst. inversion Su as [|? ? Su' Fu]; subst.
  rewrite Forall_forall in Fe, Fu. rewrite merge_cons_cons in H.
  destruct (N.ltb_spec (v_addr e) (v_addr u)) as [L|L].
  - destruct H as [<-|H].
    + left. split; [now left|]. cbn [map In]. intros [E|Hin]; [lia|].
      apply in_map_iff in Hin. destruct Hin as (y & Ey & Hy). specialize (Fu y Hy). unfold addr_slt in Fu. lia.
    + destruct (IHe _ _ Se' Su H) as [[Hx Nx]|Hx]; [left; split; [now right|exact Nx]|now right].
  - destruct (N.eqb_spec (v_addr e) (v_addr u)) as [E|E].
    + destruct H as [<-|H]; [right; now left|].
      destruct (IHe _ _ Se' Su' H) as [[Hx Nx]|Hx]; [|right; now right].
      left. split; [now right|]. cbn [map In]. intros [E'|Hin]; [|tauto].
      specialize (Fe x Hx). unfold addr_slt in Fe. lia.
    + destruct H as [<-|H]; [right; now left|].
      destruct (IHu Su' H) as [[Hx Nx]|Hx]; [|right; now right].
      left. split; [exact Hx|]. cbn [map In]. intros [E'|Hin]; [|tauto].
      destruct Hx as [<-|Hx]; [lia|]. specialize (Fe x Hx). unfold addr_slt in Fe. lia.
Qed.

Lemma merge_has_ex ex : forall ups x,
  In x ex -> ~ In (v_addr x) (map v_addr ups) -> In x (merge_updates ex ups).
Proof.
  induction ex as [|e ex' IHe]; intros ups x Hx NI; [destruct Hx|].
  induction ups as [|u ups' IHu]; [now rewrite merge_nil_r|]. rewrite merge_cons_cons.
  cbn [map In] in NI.
  destruct (N.ltb (v_addr e) (v_addr u)).
  - destruct Hx as [->|Hx]; [now left|right]. apply IHe; [exact Hx|exact NI].
  - destruct (N.eqb_spec (v_addr e) (v_addr u)) as [E|E].
    + destruct Hx as [->|Hx]; [exfalso; apply NI; now left|right]. apply IHe; [exact Hx|tauto].
    + right. apply IHu. tauto.
Qed.

Lemma removal_removes ex : forall dels r x,
  StronglySorted addr_slt ex -> StronglySorted addr_slt dels ->
  apply_removals ex dels = Some r -> In x r -> ~ In (v_addr x) (map v_addr dels).
Proof.
  induction ex as [|e et IH]; intros dels r x Se Sd H Hx.
  - destruct dels; [|discriminate]. inversion H; subst. destruct Hx.
  - destruct dels as [|d dt]; [intros []|].
    inversion Se as [|? ? Se' Fe]; subst. inversion Sd as [|? ? Sd' Fd]; subst.
    rewrite Forall_forall in Fe, Fd. cbn [apply_removals] in H. cbn [map In].
    destruct (N.eqb_spec (v_addr e) (v_addr d)) as [E|E].
    + pose proof (IH _ _ _ Se' Sd' H Hx) as NI.
      destruct (apply_removals_sub _ _ _ H (strict_sorted_nodup _ Se')) as [_ Sub].
      specialize (Fe x (Sub x Hx)). unfold addr_slt in Fe. intros [E'|Hin]; [lia|tauto].
    + destruct (apply_removals et (d :: dt)) as [r'|] eqn:R; [|discriminate]. inversion H; subst.
      destruct Hx as [<-|Hx].
      * pose proof (removal_head_in _ _ _ _ R) as Hd. apply in_map_iff in Hd. destruct Hd as (y & Ey & Hy).
        specialize (Fe y Hy). unfold addr_slt in Fe.
        intros [E'|Hin]; [congruence|]. apply in_map_iff in Hin. destruct Hin as (z & Ez & Hz).
        specialize (Fd z Hz). unfold addr_slt in Fd. lia.
      * exact (IH _ _ _ Se' Sd R Hx).
Qed.

Lemma validator_eq a b : v_addr a = v_addr b -> v_power a = v_power b -> v_prio a = v_prio b -> a = b.
Proof. destruct a, b; cbn; intros; subst; reflexivity. Qed.

Theorem update_refines_spec s cs allow s' :
  good s -> cs <> [] -> update_with_change_set s cs allow = Some (s', UOk) ->
  spec_update max_total_voting_power (vs_vals s) cs (vs_vals s').
Proof.
  intros [W HB] NEcs H. revert H. pose proof W as [(NEv & Nv & Ppv & Cv) ET].
  unfold update_with_change_set. destruct cs as [|c0 ct]; [congruence|].
  destruct (process_changes (c0 :: ct)) as [e|ups dels] eqn:Hprocess.
  { intros X. inversion X; subst. unfold process_changes in Hprocess. now apply scan_err_not_ok in Hprocess. }
  destruct (negb allow && negb (length dels =? 0)%nat); [dis|].
  set (cs := c0 :: ct) in *. set (vals := vs_vals s) in *. set (T := total_power vals) in *.
  destruct (process_ok_valid _ _ _ Hprocess) as ([Ncs Fcs] & Eu & Ed).
  set (scs := sort_by addr_lt cs) in *.
  assert (StronglySorted addr_slt scs) as Sscs.
  { apply sorted_nodup_strict; [apply sort_addr_sorted|].
    eapply Permutation_NoDup; [apply Permutation_map, Permutation_sym, sort_by_perm|exact Ncs]. }
  assert (forall c, In c scs -> 0 <= v_power c <= max_total_voting_power) as Pscs.
  { intros c Hc. rewrite Forall_forall in Fcs. apply Fcs. eapply Permutation_in; [apply sort_by_perm|exact Hc]. }
  assert (forall u, In u ups -> 0 < v_power u <= max_total_voting_power) as Pups.
  { intros u Hu. rewrite Eu in Hu. apply filter_In in Hu. destruct Hu as [Hu Hz].
    specialize (Pscs u Hu). destruct (Z.eqb_spec (v_power u) 0); [discriminate|lia]. }
  assert (forall v, In v vals -> 0 < v_power v <= max_total_voting_power) as Pvals.
  { intros v Hv. split; [now apply Ppv|]. pose proof (power_le_total _ _ Ppv Hv). fold T in H. lia. }
  assert (NoDup (map v_addr (ups ++ dels))) as Nud.
  { eapply Permutation_NoDup; [apply Permutation_map, Permutation_sym|apply strict_sorted_nodup, Sscs].
    rewrite Eu, Ed. apply filter_split_perm. }
  assert (NoDup (map v_addr ups) /\ NoDup (map v_addr dels)) as [Nu Nd].
  { rewrite map_app in Nud. now apply nodup_app_inv in Nud. }
  assert (StronglySorted addr_slt ups) as Sups by (rewrite Eu; now apply filter_sorted).
  assert (StronglySorted addr_slt dels) as Sdels by (rewrite Ed; now apply filter_sorted).
  (* removals *)
  unfold verify_removals. destruct (removed_power dels vals 0) as [removed ok] eqn:RP.
  destruct ok; cbn [negb]; [|dis].
  pose proof (lsum_le_total vals dels Nd Ppv) as Ldel. fold T in Ldel.
  destruct (removed_power_exact vals dels 0 removed Ppv ltac:(lia) ltac:(i64) RP) as [Erem Found].
  assert (removed = lsum vals dels) as Erem' by lia. clear Erem. rename Erem' into Erem.
  pose proof (lsum_nonneg vals dels Ppv) as Lrem0.
  assert (forall d, In d dels -> In (v_addr d) (map v_addr vals)) as DelIn.
  { intros d Hd. specialize (Found d Hd). destruct (get_by_addr (v_addr d) vals) as [v|] eqn:G; [|congruence].
    apply get_by_addr_in in G. destruct G as [Hv <-]. now apply in_map. }
  assert ((length dels <= length vals)%nat) as LenD.
  { assert (incl (map v_addr dels) (map v_addr vals)) as I
        by (intros a Ha; apply in_map_iff in Ha; destruct Ha as (d & <- & Hd); now apply DelIn).
    pose proof (NoDup_incl_length Nd I) as LL. now rewrite !map_length in LL. }
  destruct (Nat.ltb_spec (length vals) (length dels)) as [LL|_]; [lia|].
  rewrite (wf_total_voting_power _ W). fold vals T.
  (* updates *)
  unfold verify_updates.
  set (sups := sort_by (fun a b => delta vals a <? delta vals b) ups) in *.
  assert (Permutation sups ups) as Psups by apply sort_by_perm.
  rewrite (wrap64_id (T - removed)) by i64.
  assert (forall u, In u sups -> 0 <= v_power u <= max_total_voting_power) as Psu.
  { intros u Hu. apply (Permutation_in _ Psups) in Hu. specialize (Pups u Hu). lia. }
  assert (lsum vals sups <= T - removed <= max_total_voting_power) as Hacc.
  { split; [|lia]. rewrite (lsum_perm vals _ _ Psups).
    pose proof (lsum_le_total vals (ups ++ dels) Nud Ppv) as L. rewrite lsum_app in L. fold T in L. lia. }
  destruct (add_deltas vals sups (T - removed)) as [tvp'|] eqn:AD; [|dis].
  pose proof (add_deltas_bounds vals sups _ _ Pvals Psu Hacc AD) as Btvp.
  pose proof (add_deltas_exact vals sups _ _ Pvals Psu Hacc AD) as Etvp.
  rewrite (dsum_perm vals _ _ Psups) in Etvp.
  rewrite (wrap64_id (tvp' + removed)) by i64.
  set (tvp := tvp' + removed) in *.
  destruct ((num_new ups vals =? 0)%nat && (length vals =? length dels)%nat) eqn:Hne; [dis|].
  (* merge and removal *)
  set (ups' := new_priorities ups vals tvp) in *.
  assert (map v_addr ups' = map v_addr ups /\ map v_power ups' = map v_power ups) as [Aup Pup].
  { unfold ups', new_priorities. rewrite !map_map. split; apply map_ext; intros u;
      destruct (get_by_addr (v_addr u) vals); reflexivity. }
  unfold apply_updates. set (svals := sort_by addr_lt vals) in *.
  assert (Permutation svals vals) as Psv by apply sort_by_perm.
  assert (NoDup (map v_addr svals)) as Nsv
      by (eapply Permutation_NoDup; [apply Permutation_map, Permutation_sym, Psv|exact Nv]).
  assert (StronglySorted addr_slt svals) as Ssv by (apply sorted_nodup_strict; [apply sort_addr_sorted|exact Nsv]).
  assert (StronglySorted addr_slt ups') as Sup'.
  { clear - Sups Aup. revert Aup. generalize ups'. induction Sups as [|u t St IH Fu]; intros [|u' t'] A; try discriminate; [constructor|].
    cbn [map] in A. inversion A as [[A1 A2]]. constructor; [now apply IH|].
    rewrite Forall_forall in *. intros x Hx.
    assert (In (v_addr x) (map v_addr t)) as Hin by (rewrite <- A2; now apply in_map).
    apply in_map_iff in Hin. destruct Hin as (y & Ey & Hy). specialize (Fu y Hy). unfold addr_slt in *. lia. }
  set (merged := merge_updates svals ups') in *.
  pose proof (merge_sorted svals ups' Ssv Sup') as Smerged. fold merged in Smerged.
  assert (forall d, In d dels -> In (v_addr d) (map v_addr merged)) as DelInM.
  { intros d Hd. apply merge_keeps_addr.
    eapply Permutation_in; [apply Permutation_map, Permutation_sym, Psv|now apply DelIn]. }
  destruct (removal_some merged dels Smerged Sdels DelInM) as (l2 & Happly). rewrite Happly.
  (* the recomputed total is the predicted one *)
  assert (total_power merged = T + dsum vals ups) as Tm.
  { unfold merged. rewrite (merge_total svals ups' Ssv Sup').
    rewrite (total_power_perm _ _ Psv). fold T. f_equal.
    rewrite (dsum_fields svals ups' ups Aup Pup). apply dsum_ext. intros u _.
    symmetry. apply look_perm; [exact Nv|now apply Permutation_sym]. }
  assert (lsum merged dels = removed) as Lm.
  { rewrite Erem. clear - Nud DelIn DelInM Smerged Psv Nv Aup.
    assert (forall d, In d dels -> look merged d = look vals d) as LK.
    { intros d Hd. unfold look.
      pose proof (DelInM d Hd) as Hm. apply in_map_iff in Hm. destruct Hm as (x & Ex & Hx).
      assert (get_by_addr (v_addr d) merged = Some x) as Gm
          by (apply get_some_iff; [now apply strict_sorted_nodup|split; assumption]).
      rewrite Gm.
      (* x is not an update (addresses of updates and removals are disjoint), so it is a member *)
      unfold merged in Hx. apply merge_in in Hx. destruct Hx as [Hx|Hx].
      - assert (get_by_addr (v_addr d) vals = Some x) as Gv.
        { apply get_some_iff; [exact Nv|]. split; [|exact Ex]. eapply Permutation_in; [exact Psv|exact Hx]. }
        now rewrite Gv.
      - exfalso. rewrite map_app in Nud.
        assert (In (v_addr d) (map v_addr ups)) as H1 by (rewrite <- Aup, <- Ex; now apply in_map).
        assert (In (v_addr d) (map v_addr dels)) as H2 by now apply in_map.
        clear - Nud H1 H2. induction (map v_addr ups) as [|a t IH]; [destruct H1|].
        cbn [app] in Nud. inversion Nud as [|? ? Na Nt]; subst.
        destruct H1 as [->|H1]; [apply Na, in_or_app; now right|now apply IH]. }
    clear - LK. induction dels as [|d t IH]; [reflexivity|]. cbn [lsum fold_right]. fold (lsum merged t) (lsum vals t).
    rewrite IH by (intros; apply LK; now right). now rewrite (LK d (or_introl eq_refl)). }
  pose proof (removal_total merged dels l2 Smerged Sdels Happly) as Tl2. rewrite Tm, Lm in Tl2.
  assert (total_power l2 = tvp') as Tl2' by lia.
  (* members of l2 have positive powers *)
  destruct (apply_removals_sub _ _ _ Happly (strict_sorted_nodup _ Smerged)) as [Nl2 Sub2].
  assert (forall v, In v l2 -> 0 < v_power v) as Pl2.
  { intros v Hv. apply Sub2 in Hv. unfold merged in Hv. apply merge_in in Hv. destruct Hv as [Hv|Hv].
    - apply Ppv. eapply Permutation_in; [exact Psv|exact Hv].
    - assert (In (v_power v) (map v_power ups')) as Hin by now apply in_map.
      rewrite Pup in Hin. apply in_map_iff in Hin. destruct Hin as (u & <- & Hu). now apply Pups. }
  unfold update_total. cbn [with_vals vs_vals].
  rewrite (sum_clip_exact l2 0 Pl2 ltac:(lia) ltac:(lia)). rewrite Z.add_0_l.
  (* not empty *)
  assert (l2 <> []) as NE2.
  { apply andb_false_iff in Hne. destruct Hne as [Hn|Hl].
    - (* a newcomer *)
      apply Nat.eqb_neq in Hn. unfold num_new in Hn.
      destruct (filter (fun u => negb (has_addr (v_addr u) vals)) ups) as [|u t] eqn:F; [cbn in Hn; lia|].
      assert (In u (u :: t)) as Hu by now left. rewrite <- F in Hu. apply filter_In in Hu. destruct Hu as [Hu Hn'].
      assert (In (v_addr u) (map v_addr ups')) as Ha by (rewrite Aup; now apply in_map).
      apply in_map_iff in Ha. destruct Ha as (u' & Eu' & Hu').
      assert (In u' l2) as Hl2.
      { eapply removal_keeps; [exact Happly|unfold merged; now apply merge_has_ups|].
        rewrite Eu'. intros Hd. rewrite map_app in Nud.
        assert (In (v_addr u) (map v_addr ups)) as H1 by now apply in_map.
        clear - Nud H1 Hd. induction (map v_addr ups) as [|a r IH]; [destruct H1|].
        cbn [app] in Nud. inversion Nud as [|? ? Na Nt]; subst.
        destruct H1 as [->|H1]; [apply Na, in_or_app; now right|now apply IH]. }
      intros ->. destruct Hl2.
    - apply Nat.eqb_neq in Hl.
      destruct (exists_not_in vals dels Nv ltac:(lia)) as (v & Hv & NI).
      assert (In (v_addr v) (map v_addr merged)) as Hm.
      { apply merge_keeps_addr. eapply Permutation_in; [apply Permutation_map, Permutation_sym, Psv|now apply in_map]. }
      apply in_map_iff in Hm. destruct Hm as (x & Ex & Hx).
      assert (In x l2) as Hl2 by (eapply removal_keeps; [exact Happly|exact Hx|now rewrite Ex]).
      intros ->. destruct Hl2. }
  destruct l2 as [|h2 t2] eqn:EL2; [congruence|]. rewrite <- EL2 in *.
  set (s1 := with_total (with_vals s l2) (total_power l2)).
  assert (wf_set s1) as Ws1.
  { split; cbn [s1 with_total with_vals vs_vals vs_total]; [|reflexivity].
    repeat split; [exact NE2|exact Nl2|exact Pl2|lia]. }
  rewrite (wf_total_voting_power _ Ws1). cbn [s1 with_total with_vals vs_vals].
  assert (bounded B0 l2) as Bl2.
  { intros v Hv. apply Sub2 in Hv. unfold merged in Hv. apply merge_in in Hv. destruct Hv as [Hv|Hv].
    - apply HB. eapply Permutation_in; [exact Psv|exact Hv].
    - unfold ups', new_priorities in Hv. apply in_map_iff in Hv. destruct Hv as (u & <- & Hu).
      destruct (get_by_addr (v_addr u) vals) as [v0|] eqn:G; cbn [set_prio v_prio].
      + apply HB. now apply get_by_addr_in in G.
      + assert (0 <= tvp <= 2 * max_total_voting_power) as Btvp2 by (unfold tvp; lia).
        assert (0 <= Z.shiftr tvp 3 /\ Z.shiftr tvp 3 * 8 <= tvp) as [S0 S8].
        { rewrite Z.shiftr_div_pow2 by lia. change (2 ^ 3) with 8.
          pose proof (Z.div_mod tvp 8 ltac:(lia)). pose proof (Z.mod_pos_bound tvp 8 ltac:(lia)). lia. }
        rewrite (wrap64_id (tvp + Z.shiftr tvp 3)) by i64. rewrite wrap64_id by i64. i64. }
  pose proof (wf_total_pos _ (proj1 Ws1)) as T2pos. cbn [s1 with_total with_vals vs_vals] in T2pos.
  destruct (model_renormalise l2 (total_power l2) NE2 ltac:(lia) Bl2) as (l3 & l4 & E3 & E4 & SR & SC & _). rewrite E3, E4.
  intros X. inversion X; subst s'. clear X. cbn [with_vals vs_vals].
  assert (Permutation scs cs) as Pscs' by apply sort_by_perm.
  assert (Permutation (ups ++ dels) cs) as Pud.
  { rewrite Eu, Ed. rewrite filter_split_perm. exact Pscs'. }
  assert (forall a, lookup a cs = None <-> ~ In a (map v_addr ups) /\ ~ In a (map v_addr dels)) as LkNone.
  { intros a. rewrite lookup_get, get_none_iff.
    assert (In a (map v_addr cs) <-> In a (map v_addr (ups ++ dels))) as I.
    { split; apply Permutation_in, Permutation_map; [now apply Permutation_sym|exact Pud]. }
    rewrite I, map_app, in_app_iff. tauto. }
  assert (forall c, In c ups <-> In c cs /\ 0 < v_power c) as InUps.
  { intros c. rewrite Eu, filter_In. split.
    - intros [Hc Hz]. split; [eapply Permutation_in; [exact Pscs'|exact Hc]|].
      specialize (Pscs c Hc). destruct (Z.eqb_spec (v_power c) 0); [discriminate|lia].
    - intros [Hc Hp]. split; [eapply Permutation_in; [apply Permutation_sym, Pscs'|exact Hc]|].
      destruct (Z.eqb_spec (v_power c) 0); [lia|reflexivity]. }
  assert (total_after_updates vals cs = tvp) as ETau.
  { rewrite total_after_updates_dsum. unfold tvp. rewrite Etvp. fold T.
    assert (Permutation (filter (fun c => 0 <? v_power c) cs) ups) as PF.
    { rewrite Eu. etransitivity; [apply permutation_filter, Permutation_sym, Pscs'|].
      erewrite filter_ext_in; [reflexivity|]. intros c Hc. specialize (Pscs c Hc). cbn beta.
      destruct (Z.ltb_spec 0 (v_power c)), (Z.eqb_spec (v_power c) 0); cbn; try reflexivity; lia. }
    rewrite (dsum_perm vals _ _ PF). lia. }
  split.
  - (* the change set is valid *)
    split; [exact Ncs|]. split.
    + intros c Hc. rewrite Forall_forall in Fcs. apply Fcs, Hc.
    + intros c Hc P0. rewrite lookup_get. intros G. apply get_none_iff in G. apply G, DelIn.
      rewrite Ed. apply filter_In. split; [eapply Permutation_in; [apply Permutation_sym, Pscs'|exact Hc]|].
      rewrite P0. reflexivity.
  - exists l2, l3, l4. split; [|split; [exact NE2|split; [lia|split; [exact SR|split; [exact SC|split]]]]].
    + (* membership *)
      split; [exact Nl2|]. intros v. rewrite ETau. split.
      * intros Hv. pose proof (removal_removes _ _ _ _ Smerged Sdels Happly Hv) as NIdel.
        apply Sub2 in Hv. unfold merged in Hv. apply (merge_in_strong svals ups' v Ssv Sup') in Hv.
        destruct Hv as [[Hv NIup]|Hv].
        -- left. split; [eapply Permutation_in; [exact Psv|exact Hv]|]. apply LkNone.
           split; [rewrite <- Aup; exact NIup|exact NIdel].
        -- right. unfold ups', new_priorities in Hv. apply in_map_iff in Hv. destruct Hv as (u & Ev & Hu).
           exists u. apply InUps in Hu. destruct Hu as [Hu Hp]. split; [exact Hu|]. split; [exact Hp|].
           rewrite lookup_get. destruct (get_by_addr (v_addr u) vals) as [old|] eqn:G; subst v; cbn [set_prio v_addr v_power v_prio].
           ++ repeat split.
           ++ repeat split.
              assert (0 <= tvp <= 2 * max_total_voting_power) as Btvp2 by (unfold tvp; lia).
              assert (0 <= Z.shiftr tvp 3 /\ Z.shiftr tvp 3 * 8 <= tvp) as [S0 S8].
              { rewrite Z.shiftr_div_pow2 by lia. change (2 ^ 3) with 8.
                pose proof (Z.div_mod tvp 8 ltac:(lia)). pose proof (Z.mod_pos_bound tvp 8 ltac:(lia)). lia. }
              rewrite (wrap64_id (tvp + Z.shiftr tvp 3)) by i64. rewrite wrap64_id by i64.
              rewrite Z.shiftr_div_pow2 by lia. reflexivity.
      * intros [[Hv Hn]|(c & Hc & Hp & Ea & Epw & Epr)].
        -- apply LkNone in Hn. destruct Hn as [NIup NIdel].
           eapply removal_keeps; [exact Happly| |exact NIdel].
           unfold merged. apply merge_has_ex; [eapply Permutation_in; [apply Permutation_sym, Psv|exact Hv]|].
           rewrite Aup. exact NIup.
        -- assert (In c ups) as Hu by (apply InUps; split; assumption).
           set (u' := match get_by_addr (v_addr c) vals with
                      | None => set_prio c (wrap64 (- wrap64 (tvp + Z.shiftr tvp 3)))
                      | Some v0 => set_prio c (v_prio v0)
                      end).
           assert (In u' ups') as Hu'.
           { unfold ups', new_priorities. apply in_map_iff. exists c. split; [reflexivity|exact Hu]. }
           assert (v = u') as ->.
           { rewrite lookup_get in Epr. unfold u'.
             destruct (get_by_addr (v_addr c) vals) as [old|] eqn:G; apply validator_eq; cbn [set_prio v_addr v_power v_prio]; try assumption.
             rewrite Epr.
             assert (0 <= tvp <= 2 * max_total_voting_power) as Btvp2 by (unfold tvp; lia).
             assert (0 <= Z.shiftr tvp 3 /\ Z.shiftr tvp 3 * 8 <= tvp) as [S0 S8].
             { rewrite Z.shiftr_div_pow2 by lia. change (2 ^ 3) with 8.
               pose proof (Z.div_mod tvp 8 ltac:(lia)). pose proof (Z.mod_pos_bound tvp 8 ltac:(lia)). lia. }
             rewrite (wrap64_id (tvp + Z.shiftr tvp 3)) by i64. rewrite wrap64_id by i64.
             rewrite Z.shiftr_div_pow2 by lia. reflexivity. }
           eapply removal_keeps; [exact Happly|unfold merged; now apply merge_has_ups|].
           assert (v_addr u' = v_addr c) as -> by (unfold u'; destruct (get_by_addr (v_addr c) vals); reflexivity).
           intros Hd. rewrite map_app in Nud.
           assert (In (v_addr c) (map v_addr ups)) as H1 by now apply in_map.
           clear - Nud H1 Hd. induction (map v_addr ups) as [|a r IH]; [destruct H1|].
           cbn [app] in Nud. inversion Nud as [|? ? Na Nt]; subst.
           destruct H1 as [->|H1]; [apply Na, in_or_app; now right|now apply IH].
    + apply Permutation_sym, sort_by_perm.
    + (* final order: strict because addresses are distinct *)
      assert (NoDup (map v_addr (sort_by power_lt l4))) as N4.
      { eapply Permutation_NoDup; [apply Permutation_map, Permutation_sym, sort_by_perm|].
        destruct (shift_map _ _ E4) as [A4 _]. destruct (rescale_map _ _ _ E3) as [A3 _]. rewrite A4, A3. exact Nl2. }
      assert (StronglySorted (fun a b => power_lt b a = false) (sort_by power_lt l4)) as SS by apply sort_power_sorted.
      clear - N4 SS. induction SS as [|a r Sr IH Fa]; [constructor|].
      cbn [map] in N4. inversion N4 as [|? ? Na Nr]; subst. constructor; [now apply IH|].
      rewrite Forall_forall in *. intros b Hb. specialize (Fa b Hb).
      assert (v_addr a <> v_addr b) as D by (intros E; apply Na; rewrite E; now apply in_map).
      unfold power_lt in Fa. unfold by_power_then_address.
      destruct (Z.eqb_spec (v_power b) (v_power a)) as [E|E].
      * apply N.ltb_ge in Fa. right. split; [lia|lia].
      * apply Z.ltb_ge in Fa. left. lia.
Qed.
