(** C12 — (a) verifyUpdates decides exactly "final total <= cap", and none of its running
    totals wraps; (b) the cstate path: an invalid validator report is rejected as a whole. *)
From Coq Require Import List ZArith NArith Bool Lia Permutation Sorted.
From Kardia Require Import Base.Int64 Base.ListX C12.Model C12.Spec C12.ProofsSort C12.ProofsUpdate
     C12.ProofsSpec C12.ProofsFair C12.ProofsRefine C12.ProofsUpdate2 C12.ProofsUpdate3 C12.ProofsUpdate4
     C12.ProofsUpdate5 Generated.C12Facts.
Import ListNotations.
Local Open Scope Z_scope.

(* ------------------------------------------------------------------ *)
(** * verifyUpdates *)

(** every value the running total takes while the deltas are added (in the order given) *)
Fixpoint running (vals us : list validator) (acc : Z) : list Z :=
  match us with
  | [] => []
  | u :: t => (acc + (v_power u - look vals u)) :: running vals t (acc + (v_power u - look vals u))
  end.

(** On a well-formed set, for updates with distinct addresses disjoint from the removals and
    legal powers: verifyUpdates accepts iff the final total (updates applied, removals
    subtracted) is at most the cap, whatever the order in which the change set was given;
    when it accepts it returns the exact total before removals.  The sort by delta is what
    makes this true without wrap: the running total never leaves [0, cap] before the verdict
    (in particular it never exceeds 2^63 and comes back). *)
Theorem verify_updates_decides vals ups dels :
  NoDup (map v_addr (ups ++ dels)) ->
  (forall v, In v vals -> 0 < v_power v) -> total_power vals <= max_total_voting_power ->
  (forall u, In u ups -> 0 < v_power u <= max_total_voting_power) ->
  let T := total_power vals in
  let removed := lsum vals dels in
  verify_updates ups vals T removed =
    (if T - removed + dsum vals ups <=? max_total_voting_power then Some (T + dsum vals ups) else None).
Proof.
  intros Nud Ppv Cv Pups T removed.
  assert (forall v, In v vals -> 0 < v_power v <= max_total_voting_power) as Pvals.
  { intros v Hv. split; [now apply Ppv|]. pose proof (power_le_total _ _ Ppv Hv). fold T in H. lia. }
  assert (NoDup (map v_addr ups) /\ NoDup (map v_addr dels)) as [Nu Nd].
  { rewrite map_app in Nud. now apply nodup_app_inv in Nud. }
  pose proof (lsum_le_total vals dels Nd Ppv) as Ldel. fold T removed in Ldel.
  pose proof (lsum_nonneg vals dels Ppv) as Lrem0. fold removed in Lrem0.
  unfold verify_updates.
  set (sups := sort_by (fun a b => delta vals a <? delta vals b) ups).
  assert (Permutation sups ups) as Psups by apply sort_by_perm.
  rewrite (wrap64_id (T - removed)) by i64.
  assert (forall u, In u sups -> 0 <= v_power u <= max_total_voting_power) as Psu.
  { intros u Hu. apply (Permutation_in _ Psups) in Hu. specialize (Pups u Hu). lia. }
  assert (lsum vals sups <= T - removed <= max_total_voting_power) as Hacc.
  { split; [|lia]. rewrite (lsum_perm vals _ _ Psups).
    pose proof (lsum_le_total vals (ups ++ dels) Nud Ppv) as L. rewrite lsum_app in L. fold T removed in L. lia. }
  destruct (Z.leb_spec (T - removed + dsum vals ups) max_total_voting_power) as [Le|Gt].
  - destruct (add_deltas_some vals sups (T - removed) Pvals Psu Hacc) as (r & AD).
    { apply (sort_key_sorted (delta vals)). }
    { rewrite (dsum_perm vals _ _ Psups). exact Le. }
    rewrite AD. pose proof (add_deltas_exact vals sups _ _ Pvals Psu Hacc AD) as E.
    pose proof (add_deltas_bounds vals sups _ _ Pvals Psu Hacc AD) as B.
    rewrite (dsum_perm vals _ _ Psups) in E. rewrite wrap64_id by i64. f_equal. lia.
  - destruct (add_deltas vals sups (T - removed)) as [r|] eqn:AD; [|reflexivity]. exfalso.
    pose proof (add_deltas_exact vals sups _ _ Pvals Psu Hacc AD) as E.
    pose proof (add_deltas_bounds vals sups _ _ Pvals Psu Hacc AD) as B.
    rewrite (dsum_perm vals _ _ Psups) in E. lia.
Qed.

(** the running totals of the accepted (sorted) order stay within [0, cap] *)
Lemma add_deltas_running vals us : forall acc r,
  (forall v, In v vals -> 0 < v_power v <= max_total_voting_power) ->
  (forall u, In u us -> 0 <= v_power u <= max_total_voting_power) ->
  lsum vals us <= acc <= max_total_voting_power ->
  add_deltas vals us acc = Some r ->
  Forall (fun x => 0 <= x <= max_total_voting_power) (running vals us acc).
Proof.
  induction us as [|u t IH]; intros acc r Pp Pu Hacc H; cbn [add_deltas running] in *; [constructor|].
  cbn [lsum fold_right] in Hacc. fold (lsum vals t) in Hacc.
  rewrite (delta_exact vals u Pp (Pu u (or_introl eq_refl))) in H.
  pose proof (look_nonneg vals u (fun v Hv => proj1 (Pp v Hv))) as L0.
  pose proof (lsum_nonneg vals t (fun v Hv => proj1 (Pp v Hv))) as L1.
  pose proof (Pu u (or_introl eq_refl)) as Pu0.
  rewrite wrap64_id in H by i64.
  destruct (Z.ltb_spec max_total_voting_power (acc + (v_power u - look vals u))) as [L|L]; [discriminate|].
  constructor; [lia|].
  apply (IH _ r Pp (fun x Hx => Pu x (or_intror Hx))); [lia|exact H].
Qed.

(* ------------------------------------------------------------------ *)
(** * the validator report (calculateValidatorSetUpdates + updateState) *)

Lemma has_addr_in a l : has_addr a l = true <-> In a (map v_addr l).
Proof.
  unfold has_addr. destruct (get_by_addr a l) eqn:G.
  - split; [intros _|reflexivity]. apply get_by_addr_in in G. destruct G as [Hv <-]. now apply in_map.
  - split; [discriminate|]. intros H. apply get_none_iff in G. contradiction.
Qed.

Lemma has_dup_false l : has_dup l = false <-> NoDup (map v_addr l).
Proof.
  induction l as [|h t IH]; cbn [has_dup map]; [split; [constructor|reflexivity]|].
  rewrite orb_false_iff, IH. split.
  - intros [H N]. constructor; [|exact N]. intros Hin. apply has_addr_in in Hin. congruence.
  - intros N. inversion N as [|? ? Nh Nt]; subst. split; [|exact Nt].
    destruct (has_addr (v_addr h) t) eqn:E; [|reflexivity]. apply has_addr_in in E. contradiction.
Qed.

Definition report_invalid (last report : list validator) : Prop :=
  ~ NoDup (map v_addr report) \/
  exists c, In c report /\
            (v_power c < 0 \/ max_total_voting_power < v_power c \/
             (v_power c = 0 /\ get_by_addr (v_addr c) last = None)).

Lemma update_rejects_member s cs c :
  In c cs ->
  (v_power c < 0 \/ max_total_voting_power < v_power c \/
   (v_power c = 0 /\ get_by_addr (v_addr c) (vs_vals s) = None)) ->
  exists e, e <> UOk /\ update_with_change_set s cs true = Some (s, e).
Proof.
  intros Hc Bad.
  assert (cs <> []) as NE by (intros ->; destruct Hc).
  destruct (process_changes cs) as [e|ups dels] eqn:P.
  - assert (~ valid_changes cs) as NV.
    { intros V. destruct (process_valid_ok _ V) as (u & d & E). congruence. }
    destruct (update_rejects_invalid s cs true NE NV) as (e' & E & N). eauto.
  - destruct (process_ok_valid _ _ _ P) as (V & _ & _).
    destruct Bad as [B|[B|[B G]]].
    + exfalso. destruct V as [_ F]. rewrite Forall_forall in F. destruct (F c Hc) as [_ R]. lia.
    + exfalso. destruct V as [_ F]. rewrite Forall_forall in F. destruct (F c Hc) as [_ R]. lia.
    + exists UUnknown. split; [discriminate|]. eapply update_rejects_unknown; eassumption.
Qed.

(** an invalid report (an address twice; a negative power; a power above the cap; power 0 for
    an address that is not a member) is rejected as a whole: error, state as it was *)
Theorem report_invalid_rejected s report :
  good s -> report_invalid (vs_vals s) report ->
  exists e, e <> UOk /\ apply_report s report = Some (s, e).
Proof.
  intros [W HB] Inv. pose proof W as [(NEv & Nv & Ppv & Cv) ET].
  assert (exists c cs, calculate_updates (vs_vals s) report = cs /\ In c cs /\
            (~ valid_changes cs \/
             (v_power c < 0 \/ max_total_voting_power < v_power c \/
              (v_power c = 0 /\ get_by_addr (v_addr c) (vs_vals s) = None)))) as (c & cs & E & Hc & Bad).
  { destruct Inv as [ND|(c & Hc & Bad)].
    - destruct report as [|r0 rt]; [exfalso; apply ND; constructor|].
      assert (has_dup (r0 :: rt) = true) as HD.
      { destruct (has_dup (r0 :: rt)) eqn:E; [reflexivity|]. apply has_dup_false in E. contradiction. }
      exists r0, (r0 :: rt). unfold calculate_updates. rewrite HD. split; [reflexivity|]. split; [now left|].
      left. intros [N _]. contradiction.
    - destruct report as [|r0 rt]; [destruct Hc|].
      destruct (has_dup (r0 :: rt)) eqn:HD.
      + exists c, (r0 :: rt). unfold calculate_updates. rewrite HD. split; [reflexivity|]. split; [exact Hc|].
        left. intros [N _]. apply has_dup_false in N. congruence.
      + exists c. eexists. unfold calculate_updates. rewrite HD. split; [reflexivity|]. split; [|now right].
        apply in_or_app. left. apply filter_In. split; [exact Hc|].
        assert (get_by_addr (v_addr c) (rev (vs_vals s)) = get_by_addr (v_addr c) (vs_vals s)) as ->
            by (symmetry; apply get_perm; [exact Nv|apply Permutation_rev]).
        destruct (get_by_addr (v_addr c) (vs_vals s)) as [o|] eqn:G; [|reflexivity].
        apply get_by_addr_in in G. destruct G as [Ho _].
        pose proof (Ppv o Ho). pose proof (power_le_total _ _ Ppv Ho).
        destruct (Z.eqb_spec (v_power o) (v_power c)) as [Eq|]; [|reflexivity].
        destruct Bad as [B|[B|[B G']]]; try lia. }
  assert (exists e, e <> UOk /\ update_with_change_set s cs true = Some (s, e)) as (e & Ne & U).
  { destruct Bad as [NV|Bad].
    - assert (cs <> []) as NE by (intros ->; destruct Hc).
      destruct (update_rejects_invalid s cs true NE NV) as (e' & E' & N). eauto.
    - eapply update_rejects_member; eassumption. }
  exists e. split; [exact Ne|]. unfold apply_report. rewrite E.
  destruct cs as [|c0 ct]; [destruct Hc|]. rewrite U. destruct e; try reflexivity. congruence.
Qed.

(** a report accepted by the cstate path moves the set exactly as UpdateWithChangeSet on the
    computed change set followed by one round does; in particular the state stays good *)
Theorem report_ok_good s report s' :
  good s -> apply_report s report = Some (s', UOk) -> good s'.
Proof.
  intros G H. unfold apply_report in H.
  destruct (calculate_updates (vs_vals s) report) as [|c0 ct] eqn:E.
  - destruct (increment s 1) as [s1|] eqn:I; [|discriminate]. inversion H; subst.
    pose proof (hop_preserves_good s (HInc 1) G) as P. cbn [hop_ok] in P.
    destruct P as (s2 & props & I2 & G2 & _).
    { destruct G as [[(_ & _ & _ & C) _] _]. i64. }
    change (Z.pos 1) with 1 in I2. congruence.
  - destruct (update_with_change_set s (c0 :: ct) true) as [[s1 e]|] eqn:U; [|discriminate].
    destruct e; try discriminate.
    pose proof (hop_preserves_good s (HUpd (c0 :: ct)) G I s1 UOk U) as [G1 _].
    destruct (increment s1 1) as [s2|] eqn:I2; [|discriminate]. inversion H; subst.
    pose proof (hop_preserves_good s1 (HInc 1) G1) as P. cbn [hop_ok] in P.
    destruct P as (s3 & props & I3 & G3 & _).
    { destruct G1 as [[(_ & _ & _ & C) _] _]. i64. }
    change (Z.pos 1) with 1 in I3. congruence.
Qed.
