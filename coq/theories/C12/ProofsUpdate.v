(** C12 — updateWithChangeSet: atomicity on error, order independence, rejections,
    shape of the successful path. *)
From Coq Require Import List ZArith NArith Bool Lia Permutation Sorted.
From Kardia Require Import Base.Int64 Base.ListX C12.Model C12.ProofsSort Generated.C12Facts.
Import ListNotations.
Local Open Scope Z_scope.

Ltac break_in H :=
  match type of H with
  | context [match ?x with _ => _ end] => destruct x eqn:?
  end.

(* ------------------------------------------------------------------ *)
(** * the cached total *)

Lemma total_voting_power_cases s s0 t :
  total_voting_power s = Some (s0, t) ->
  (s0 = s /\ t = vs_total s /\ vs_total s <> 0) \/
  (vs_total s = 0 /\ update_total s = Some s0 /\ t = vs_total s0).
Proof.
  unfold total_voting_power. destruct (Z.eqb_spec (vs_total s) 0) as [E|E].
  - destruct (update_total s) as [s1|] eqn:U; [|discriminate].
    intros H; inversion H; subst. right. auto.
  - intros H; inversion H; subst. left. auto.
Qed.

Lemma update_total_fields s s' : update_total s = Some s' ->
  vs_vals s' = vs_vals s /\ vs_proposer s' = vs_proposer s /\ sum_clip (vs_vals s) 0 = Some (vs_total s').
Proof.
  unfold update_total. destruct (sum_clip (vs_vals s) 0) eqn:E; [|discriminate].
  intros H; inversion H; subst. cbn. auto.
Qed.

Lemma total_voting_power_fields s s0 t :
  total_voting_power s = Some (s0, t) -> vs_vals s0 = vs_vals s /\ vs_proposer s0 = vs_proposer s /\ t = vs_total s0.
Proof.
  intros H. destruct (total_voting_power_cases _ _ _ H) as [(-> & -> & _)|(_ & U & ->)]; [auto|].
  destruct (update_total_fields _ _ U) as (A & B & _). auto.
Qed.

(* ------------------------------------------------------------------ *)
(** * atomicity *)

Lemma scan_err_not_ok l : forall prev, process_scan prev l <> ScanErr UOk.
Proof.
  induction l as [|c t IH]; intros prev; cbn [process_scan]; [discriminate|].
  destruct (N.eqb (v_addr c) prev); [discriminate|].
  destruct (v_power c <? 0); [discriminate|].
  destruct (max_total_voting_power <? v_power c); [discriminate|].
  specialize (IH (v_addr c)). destruct (process_scan (v_addr c) t); [congruence|].
  destruct (v_power c =? 0); discriminate.
Qed.

(** On every error return the set is the one the caller passed, except that
    [TotalVotingPower()] may have filled a zero cache (which no accessor can tell apart). *)
Lemma update_atomic s cs b s' e :
  update_with_change_set s cs b = Some (s', e) -> e <> UOk ->
  s' = s \/ (vs_total s = 0 /\ update_total s = Some s').
Proof.
  unfold update_with_change_set. intros H NE.
  destruct cs as [|c0 cs0]; [inversion H; subst; congruence|].
  repeat (break_in H; try discriminate);
    try (inversion H; subst; auto; fail);
    try (inversion H; subst;
         match goal with Ht : total_voting_power s = Some _ |- _ =>
           destruct (total_voting_power_cases _ _ _ Ht) as [(-> & _)|(Z0 & U & _)]; auto end; fail).
  all: inversion H; subst; congruence.
Qed.

Lemma update_atomic_fields s cs b s' e :
  update_with_change_set s cs b = Some (s', e) -> e <> UOk ->
  vs_vals s' = vs_vals s /\ vs_proposer s' = vs_proposer s.
Proof.
  intros H NE. destruct (update_atomic _ _ _ _ _ H NE) as [->|(_ & U)]; [auto|].
  destruct (update_total_fields _ _ U) as (A & B & _). auto.
Qed.

(* ------------------------------------------------------------------ *)
(** * order independence *)

Lemma update_perm s cs cs' b :
  Permutation cs cs' ->
  update_with_change_set s cs b = update_with_change_set s cs' b \/
  (exists e e', update_with_change_set s cs b = Some (s, e) /\
                update_with_change_set s cs' b = Some (s, e') /\ e <> UOk /\ e' <> UOk).
Proof.
  intros P.
  destruct cs as [|c t].
  { apply Permutation_nil in P. subst. now left. }
  destruct cs' as [|c' t'].
  { apply Permutation_sym, Permutation_nil in P. discriminate. }
  unfold update_with_change_set.
  destruct (process_changes (c :: t)) as [e|ups rems] eqn:E.
  - destruct (process_changes (c' :: t')) as [e'|ups' rems'] eqn:E'.
    + right. exists e, e'. repeat split; try reflexivity.
      * intros ->. unfold process_changes in E. now apply scan_err_not_ok in E.
      * intros ->. unfold process_changes in E'. now apply scan_err_not_ok in E'.
    + apply (process_perm _ _ _ _ (Permutation_sym P)) in E'. congruence.
  - rewrite (process_perm _ _ _ _ P E). now left.
Qed.

(* ------------------------------------------------------------------ *)
(** * rejections *)

Lemma update_rejects_invalid s cs b :
  cs <> [] -> ~ valid_changes cs ->
  exists e, update_with_change_set s cs b = Some (s, e) /\ e <> UOk.
Proof.
  intros NE NV. destruct cs as [|c t]; [congruence|].
  unfold update_with_change_set.
  destruct (process_changes (c :: t)) as [e|ups rems] eqn:E.
  - exists e. split; [reflexivity|]. intros ->. unfold process_changes in E. now apply scan_err_not_ok in E.
  - exfalso. apply NV. now destruct (process_ok_valid _ _ _ E).
Qed.

Lemma removed_power_unknown dels vals : forall acc d,
  In d dels -> get_by_addr (v_addr d) vals = None -> snd (removed_power dels vals acc) = false.
Proof.
  induction dels as [|x t IH]; intros acc d Hd Hn; [destruct Hd|].
  cbn [removed_power]. destruct (get_by_addr (v_addr x) vals) eqn:G; [|reflexivity].
  destruct Hd as [->|Hd]; [congruence|]. eapply IH; eassumption.
Qed.

Lemma update_rejects_unknown s cs c :
  valid_changes cs -> In c cs -> v_power c = 0 -> get_by_addr (v_addr c) (vs_vals s) = None ->
  update_with_change_set s cs true = Some (s, UUnknown).
Proof.
  intros V Hc P0 G.
  destruct (process_valid_ok cs V) as (ups & rems & E).
  destruct (process_ok_valid _ _ _ E) as (_ & _ & Er).
  assert (In c rems) as Hr.
  { rewrite Er. apply filter_In. split.
    - eapply Permutation_in; [apply Permutation_sym, sort_by_perm|exact Hc].
    - rewrite P0. reflexivity. }
  unfold update_with_change_set. destruct cs as [|c0 t]; [destruct Hc|].
  rewrite E. cbn [negb andb].
  unfold verify_removals.
  pose proof (removed_power_unknown rems (vs_vals s) 0 c Hr G) as F.
  destruct (removed_power rems (vs_vals s) 0) as [p ok]. cbn in F. subst ok. reflexivity.
Qed.

(* ------------------------------------------------------------------ *)
(** * shape of the successful path *)

Inductive update_path (s : vset) (cs : list validator) (s' : vset) : Prop :=
| UpdatePath (ups dels : list validator) (removed : Z) (s0 : vset) (total tvp : Z)
    (l2 : list validator) (s1 s2 : vset) (t2 : Z) (l3 l4 : list validator)
    (Hprocess : process_changes cs = ScanOk ups dels)
    (Hverify_rem : verify_removals dels (vs_vals s) = Some (removed, true))
    (Htot : total_voting_power s = Some (s0, total))
    (Hverify_upd : verify_updates ups (vs_vals s0) total removed = Some tvp)
    (Hnonempty : (Nat.eqb (num_new ups (vs_vals s0)) 0 && Nat.eqb (length (vs_vals s0)) (length dels)) = false)
    (Happly : apply_removals (apply_updates (vs_vals s0) (new_priorities ups (vs_vals s0) tvp)) dels = Some l2)
    (Hl2_ne : l2 <> [])
    (Hupd_total : update_total (with_vals s0 l2) = Some s1)
    (Htot2 : total_voting_power s1 = Some (s2, t2))
    (Hrescale : rescale (vs_vals s2) (wrap64 (priority_window_size_factor * t2)) = Some l3)
    (Hshift : shift_by_avg l3 = Some l4)
    (Hresult : s' = with_vals s2 (sort_by power_lt l4)).

Ltac destruct_path P :=
  destruct P as [ups dels removed s0 total tvp l2 s1 s2 t2 l3 l4 Hprocess Hverify_rem Htot
                 Hverify_upd Hnonempty Happly Hl2_ne Hupd_total Htot2 Hrescale Hshift Hresult].

Lemma update_ok_path s cs b s' :
  cs <> [] -> update_with_change_set s cs b = Some (s', UOk) -> update_path s cs s'.
Proof.
  intros NE H. unfold update_with_change_set in H.
  destruct cs as [|c0 cs0]; [congruence|].
  repeat (break_in H; try discriminate); try (inversion H; fail).
  all: inversion H; subst; clear H.
  all: try (exfalso; unfold process_changes in *; eapply scan_err_not_ok; eassumption).
  all: econstructor; try eassumption; try reflexivity; try discriminate.
Qed.

Lemma rescale_map l d l' : rescale l d = Some l' ->
  map v_addr l' = map v_addr l /\ map v_power l' = map v_power l.
Proof.
  unfold rescale. intros H. repeat (break_in H; try discriminate); inversion H; subst; auto.
  all: rewrite !map_map; cbn; auto.
Qed.

Lemma shift_map l l' : shift_by_avg l = Some l' ->
  map v_addr l' = map v_addr l /\ map v_power l' = map v_power l.
Proof.
  unfold shift_by_avg. intros H. break_in H; [|discriminate]. inversion H; subst.
  rewrite !map_map; cbn; auto.
Qed.

(** a successful update never leaves the set empty *)
Lemma update_ok_nonempty s cs b s' :
  cs <> [] -> update_with_change_set s cs b = Some (s', UOk) -> vs_vals s' <> [].
Proof.
  intros NE H. pose proof (update_ok_path _ _ _ _ NE H) as P. destruct_path P.
  subst s'. cbn [with_vals vs_vals]. intros E. apply sort_by_nil_inv in E. subst.
  destruct (shift_map _ _ Hshift) as [A _]. destruct (rescale_map _ _ _ Hrescale) as [B _].
  destruct (total_voting_power_fields _ _ _ Htot2) as (V2 & _).
  destruct (update_total_fields _ _ Hupd_total) as (V1 & _).
  rewrite V2, V1 in B. cbn [with_vals vs_vals] in B. rewrite B in A. cbn in A.
  destruct l2; [congruence|discriminate].
Qed.
