(** C12 — UpdateWithChangeSet never panics on a good state: the total predicted by
    verifyUpdates is the total of the merged set, every validator to remove is found by
    applyRemovals, the emptiness test is exact. *)
From Coq Require Import List ZArith NArith Bool Lia Permutation Sorted.
From Kardia Require Import Base.Int64 Base.ListX C12.Model C12.Spec C12.ProofsSort C12.ProofsUpdate
     C12.ProofsSpec C12.ProofsFair C12.ProofsRefine C12.ProofsUpdate2 Generated.C12Facts.
Import ListNotations.
Local Open Scope Z_scope.

(* ------------------------------------------------------------------ *)
(** * lookups *)

Lemma get_some_iff l a v : NoDup (map v_addr l) ->
  (get_by_addr a l = Some v <-> In v l /\ v_addr v = a).
Proof.
  intros N. split; [apply get_by_addr_in|]. intros [Hv <-].
  induction l as [|h t IH]; [destruct Hv|]. cbn [map] in N. inversion N as [|? ? Nh Nt]; subst.
  cbn [get_by_addr]. destruct Hv as [->|Hv]; [now rewrite N.eqb_refl|].
  destruct (N.eqb_spec (v_addr v) (v_addr h)) as [E|E]; [|now apply IH].
  exfalso. apply Nh. rewrite <- E. now apply in_map.
Qed.

Lemma get_none_iff l a : get_by_addr a l = None <-> ~ In a (map v_addr l).
Proof.
  induction l as [|h t IH]; cbn [get_by_addr map In]; [tauto|].
  destruct (N.eqb_spec a (v_addr h)) as [E|E]; [split; [discriminate|intros H; exfalso; apply H; now left]|].
  rewrite IH. split; [intros H [H'|H']; [congruence|tauto]|tauto].
Qed.

Lemma get_perm l l' a : NoDup (map v_addr l) -> Permutation l l' -> get_by_addr a l = get_by_addr a l'.
Proof.
  intros N P.
  assert (NoDup (map v_addr l')) as N' by (eapply Permutation_NoDup; [apply Permutation_map, P|exact N]).
  destruct (get_by_addr a l) as [v|] eqn:G.
  - symmetry. apply (get_some_iff _ _ _ N'). apply (get_some_iff _ _ _ N) in G. destruct G as [Hv E].
    split; [eapply Permutation_in; eassumption|exact E].
  - symmetry. apply get_none_iff. apply get_none_iff in G. intros H. apply G.
    eapply Permutation_in; [apply Permutation_map, Permutation_sym, P|exact H].
Qed.

Lemma look_perm l l' x : NoDup (map v_addr l) -> Permutation l l' -> look l x = look l' x.
Proof. intros N P. unfold look. now rewrite (get_perm l l' _ N P). Qed.

(** sum of (new power - old power) over a list of updates *)
Definition dsum (ex ups : list validator) : Z := fold_right (fun u a => (v_power u - look ex u) + a) 0 ups.

Lemma dsum_perm ex a b : Permutation a b -> dsum ex a = dsum ex b.
Proof. intros P. induction P; cbn [dsum fold_right]; try fold (dsum ex l) (dsum ex l'); lia. Qed.

Lemma dsum_ext ex ex' ups : (forall u, In u ups -> look ex u = look ex' u) -> dsum ex ups = dsum ex' ups.
Proof.
  induction ups as [|u t IH]; intros H; [reflexivity|]. cbn [dsum fold_right]. fold (dsum ex t) (dsum ex' t).
  rewrite IH by (intros; apply H; now right). rewrite (H u (or_introl eq_refl)). reflexivity.
Qed.

Lemma dsum_fields ex a : forall b, map v_addr a = map v_addr b -> map v_power a = map v_power b -> dsum ex a = dsum ex b.
Proof.
  induction a as [|x t IH]; intros [|y r] A P; try discriminate; [reflexivity|].
  cbn [map] in A, P. inversion A as [[A1 A2]]. inversion P as [[P1 P2]].
  cbn [dsum fold_right]. fold (dsum ex t) (dsum ex r).
  rewrite (IH r A2 P2). unfold look. rewrite A1, P1. reflexivity.
Qed.

Lemma look_cons_ne e ex x : v_addr x <> v_addr e -> look (e :: ex) x = look ex x.
Proof. intros D. unfold look. cbn [get_by_addr]. destruct (N.eqb_spec (v_addr x) (v_addr e)); [congruence|reflexivity]. Qed.

Lemma look_cons_eq e ex x : v_addr x = v_addr e -> look (e :: ex) x = v_power e.
Proof. intros D. unfold look. cbn [get_by_addr]. rewrite D, N.eqb_refl. reflexivity. Qed.

Lemma look_lt e ex x : StronglySorted addr_slt (e :: ex) -> (v_addr x < v_addr e)%N -> look (e :: ex) x = 0.
Proof.
  intros S L. unfold look. replace (get_by_addr (v_addr x) (e :: ex)) with (@None validator); [reflexivity|].
  symmetry. apply get_none_iff. cbn [map In]. inversion S as [|? ? _ F]; subst. rewrite Forall_forall in F.
  intros [E|Hin]; [lia|]. apply in_map_iff in Hin. destruct Hin as (y & Ey & Hy). specialize (F y Hy).
  unfold addr_slt in F. lia.
Qed.

(* ------------------------------------------------------------------ *)
(** * applyUpdates: total, membership *)

Lemma merge_cons_cons e ex' u ups' :
  merge_updates (e :: ex') (u :: ups') =
  if N.ltb (v_addr e) (v_addr u) then e :: merge_updates ex' (u :: ups')
  else if N.eqb (v_addr e) (v_addr u) then u :: merge_updates ex' ups'
       else u :: merge_updates (e :: ex') ups'.
Proof. reflexivity. Qed.

Lemma merge_nil_l ups : merge_updates [] ups = ups.
Proof. destruct ups; reflexivity. Qed.
Lemma merge_nil_r ex : merge_updates ex [] = ex.
Proof. destruct ex; reflexivity. Qed.

Lemma total_as_dsum ups : total_power ups = dsum [] ups.
Proof.
  induction ups as [|u t IH]; [reflexivity|]. cbn [total_power dsum fold_right]. fold (total_power t) (dsum [] t).
  rewrite IH. unfold look. cbn. lia.
Qed.

Lemma merge_total ex : forall ups,
  StronglySorted addr_slt ex -> StronglySorted addr_slt ups ->
  total_power (merge_updates ex ups) = total_power ex + dsum ex ups.
Proof.
  induction ex as [|e ex' IHe]; intros ups Se Su.
  - rewrite merge_nil_l. cbn [total_power fold_right]. rewrite total_as_dsum. lia.
  - induction ups as [|u ups' IHu]; [rewrite merge_nil_r; cbn [dsum fold_right]; lia|].
    inversion Se as [|? ? Se' Fe]; subst. inversion Su as [|? ? Su' Fu]; subst.
    rewrite Forall_forall in Fe, Fu. rewrite merge_cons_cons.
    cbn [dsum fold_right]. fold (dsum (e :: ex') ups').
    destruct (N.ltb_spec (v_addr e) (v_addr u)) as [L|L].
    + cbn [total_power fold_right]. fold (total_power (merge_updates ex' (u :: ups'))) (total_power ex').
      rewrite (IHe (u :: ups') Se' Su). cbn [dsum fold_right]. fold (dsum ex' ups').
      rewrite look_cons_ne by lia.
      rewrite (dsum_ext (e :: ex') ex' ups'); [lia|].
      intros x Hx. apply look_cons_ne. specialize (Fu x Hx). unfold addr_slt in Fu. lia.
    + destruct (N.eqb_spec (v_addr e) (v_addr u)) as [E|E].
      * cbn [total_power fold_right]. fold (total_power (merge_updates ex' ups')) (total_power ex').
        rewrite (IHe ups' Se' Su'). rewrite look_cons_eq by congruence.
        rewrite (dsum_ext (e :: ex') ex' ups'); [lia|].
        intros x Hx. apply look_cons_ne. specialize (Fu x Hx). unfold addr_slt in Fu. lia.
      * cbn [total_power fold_right]. fold (total_power (merge_updates (e :: ex') ups')) (total_power ex').
        rewrite (IHu Su'). cbn [total_power fold_right]. fold (total_power ex').
        rewrite look_lt by (try assumption; lia). lia.
Qed.

Lemma merge_has_ups ex : forall ups u, In u ups -> In u (merge_updates ex ups).
Proof.
  induction ex as [|e ex' IHe]; intros ups u Hu; [now rewrite merge_nil_l|].
  induction ups as [|u0 ups' IHu]; [destruct Hu|]. rewrite merge_cons_cons.
  destruct (N.ltb (v_addr e) (v_addr u0)); [right; now apply IHe|].
  destruct (N.eqb (v_addr e) (v_addr u0)).
  - destruct Hu as [->|Hu]; [now left|right; now apply IHe].
  - destruct Hu as [->|Hu]; [now left|right; now apply IHu].
Qed.

Lemma merge_keeps_addr ex : forall ups a, In a (map v_addr ex) -> In a (map v_addr (merge_updates ex ups)).
Proof.
  induction ex as [|e ex' IHe]; intros ups a Ha; [destruct Ha|].
  induction ups as [|u0 ups' IHu]; [now rewrite merge_nil_r|]. rewrite merge_cons_cons.
  cbn [map In] in Ha.
  destruct (N.ltb (v_addr e) (v_addr u0)).
  - cbn [map In]. destruct Ha as [<-|Ha]; [now left|right; now apply IHe].
  - destruct (N.eqb_spec (v_addr e) (v_addr u0)) as [E|E]; cbn [map In].
    + destruct Ha as [<-|Ha]; [left; congruence|right; now apply IHe].
    + right. apply IHu.
Qed.

(* ------------------------------------------------------------------ *)
(** * applyRemovals: succeeds, total, survivors *)

Lemma removal_head_in ex : forall d dt r, apply_removals ex (d :: dt) = Some r -> In (v_addr d) (map v_addr ex).
Proof.
  induction ex as [|e et IH]; intros d dt r H; [discriminate|].
  cbn [apply_removals] in H. cbn [map In].
  destruct (N.eqb_spec (v_addr e) (v_addr d)) as [E|E]; [now left|].
  destruct (apply_removals et (d :: dt)) eqn:R; [|discriminate]. right. eapply IH; exact R.
Qed.

Lemma removal_some ex : forall dels,
  StronglySorted addr_slt ex -> StronglySorted addr_slt dels ->
  (forall d, In d dels -> In (v_addr d) (map v_addr ex)) ->
  exists r, apply_removals ex dels = Some r.
Proof.
  induction ex as [|e et IH]; intros dels Se Sd Hin.
  - destruct dels as [|d dt]; [eexists; reflexivity|]. destruct (Hin d (or_introl eq_refl)).
  - destruct dels as [|d dt]; [eexists; reflexivity|].
    inversion Se as [|? ? Se' Fe]; subst. inversion Sd as [|? ? Sd' Fd]; subst.
    rewrite Forall_forall in Fe, Fd. cbn [apply_removals].
    destruct (N.eqb_spec (v_addr e) (v_addr d)) as [E|E].
    + apply IH; try assumption. intros d' Hd'. specialize (Hin d' (or_intror Hd')). cbn [map In] in Hin.
      destruct Hin as [E'|Hin]; [|exact Hin]. specialize (Fd d' Hd'). unfold addr_slt in Fd. lia.
    + assert ((v_addr e < v_addr d)%N) as Led.
      { pose proof (Hin d (or_introl eq_refl)) as H0. cbn [map In] in H0. destruct H0 as [H0|H0]; [congruence|].
        apply in_map_iff in H0. destruct H0 as (y & Ey & Hy). specialize (Fe y Hy). unfold addr_slt in Fe. lia. }
      destruct (IH (d :: dt) Se' Sd) as (r & ->); [|eexists; reflexivity].
      intros d' Hd'. specialize (Hin d' Hd'). cbn [map In] in Hin. destruct Hin as [E'|Hin]; [|exact Hin].
      destruct Hd' as [<-|Hd']; [congruence|]. specialize (Fd d' Hd'). unfold addr_slt in Fd. lia.
Qed.

Lemma removal_total ex : forall dels r,
  StronglySorted addr_slt ex -> StronglySorted addr_slt dels ->
  apply_removals ex dels = Some r -> total_power r = total_power ex - lsum ex dels.
Proof.
  induction ex as [|e et IH]; intros dels r Se Sd H.
  - destruct dels; [|discriminate]. inversion H; subst. cbn. lia.
  - destruct dels as [|d dt]; [inversion H; subst; cbn [lsum fold_right]; lia|].
    inversion Se as [|? ? Se' Fe]; subst. inversion Sd as [|? ? Sd' Fd]; subst.
    rewrite Forall_forall in Fe, Fd. cbn [apply_removals] in H.
    cbn [total_power fold_right lsum]. fold (total_power et) (lsum (e :: et) dt).
    destruct (N.eqb_spec (v_addr e) (v_addr d)) as [E|E].
    + rewrite (IH _ _ Se' Sd' H). rewrite look_cons_eq by congruence.
      rewrite lsum_cons_not_in; [lia|]. intros Hin. apply in_map_iff in Hin. destruct Hin as (y & Ey & Hy).
      specialize (Fd y Hy). unfold addr_slt in Fd. lia.
    + destruct (apply_removals et (d :: dt)) as [r'|] eqn:R; [|discriminate]. inversion H; subst.
      cbn [total_power fold_right]. fold (total_power r').
      rewrite (IH _ _ Se' Sd R). cbn [lsum fold_right]. fold (lsum et dt).
      pose proof (removal_head_in _ _ _ _ R) as Hd. apply in_map_iff in Hd. destruct Hd as (y & Ey & Hy).
      specialize (Fe y Hy). unfold addr_slt in Fe.
      rewrite look_cons_ne by lia.
      rewrite lsum_cons_not_in; [lia|]. intros Hin. apply in_map_iff in Hin. destruct Hin as (z & Ez & Hz).
      specialize (Fd z Hz). unfold addr_slt in Fd. lia.
Qed.

Lemma removal_keeps ex : forall dels r x,
  apply_removals ex dels = Some r -> In x ex -> ~ In (v_addr x) (map v_addr dels) -> In x r.
Proof.
  induction ex as [|e et IH]; intros dels r x H Hx NI; [destruct Hx|].
  destruct dels as [|d dt]; [inversion H; subst; exact Hx|].
  cbn [apply_removals] in H. cbn [map In] in NI.
  destruct (N.eqb_spec (v_addr e) (v_addr d)) as [E|E].
  - destruct Hx as [->|Hx]; [exfalso; apply NI; now left|]. eapply IH; [exact H|exact Hx|tauto].
  - destruct (apply_removals et (d :: dt)) as [r'|] eqn:R; [|discriminate]. inversion H; subst.
    destruct Hx as [->|Hx]; [now left|right]. eapply IH; [exact R|exact Hx|]. cbn [map In]. tauto.
Qed.

(* ------------------------------------------------------------------ *)
(** * verifyUpdates computes the exact predicted total *)

Lemma add_deltas_exact vals us : forall acc r,
  (forall v, In v vals -> 0 < v_power v <= max_total_voting_power) ->
  (forall u, In u us -> 0 <= v_power u <= max_total_voting_power) ->
  lsum vals us <= acc <= max_total_voting_power ->
  add_deltas vals us acc = Some r -> r = acc + dsum vals us.
Proof.
  induction us as [|u t IH]; intros acc r Pp Pu Hacc H; cbn [add_deltas] in H.
  - inversion H; subst. cbn. lia.
  - cbn [lsum fold_right] in Hacc. fold (lsum vals t) in Hacc.
    rewrite (delta_exact vals u Pp (Pu u (or_introl eq_refl))) in H.
    pose proof (look_nonneg vals u (fun v Hv => proj1 (Pp v Hv))) as L0.
    pose proof (lsum_nonneg vals t (fun v Hv => proj1 (Pp v Hv))) as L1.
    pose proof (Pu u (or_introl eq_refl)) as Pu0.
    rewrite wrap64_id in H by i64.
    destruct (Z.ltb_spec max_total_voting_power (acc + (v_power u - look vals u))) as [L|L]; [discriminate|].
    apply (IH _ _ Pp (fun x Hx => Pu x (or_intror Hx))) in H; [|lia].
    cbn [dsum fold_right]. fold (dsum vals t). lia.
Qed.

(* ------------------------------------------------------------------ *)
(** * pigeonhole: somebody is not removed *)

Lemma exists_not_in (vals dels : list validator) :
  NoDup (map v_addr vals) -> (length dels < length vals)%nat ->
  exists v, In v vals /\ ~ In (v_addr v) (map v_addr dels).
Proof.
  intros N L.
  destruct (filter (fun v => negb (existsb (N.eqb (v_addr v)) (map v_addr dels))) vals) as [|v t] eqn:F.
  - exfalso.
    assert (incl (map v_addr vals) (map v_addr dels)) as I.
    { intros a Ha. apply in_map_iff in Ha. destruct Ha as (v & <- & Hv).
      destruct (existsb (N.eqb (v_addr v)) (map v_addr dels)) eqn:E.
      - apply existsb_exists in E. destruct E as (b & Hb & Eb). apply N.eqb_eq in Eb. now rewrite Eb.
      - assert (In v (filter (fun v => negb (existsb (N.eqb (v_addr v)) (map v_addr dels))) vals)) as Hf
            by (apply filter_In; split; [exact Hv|now rewrite E]).
        rewrite F in Hf. destruct Hf. }
    pose proof (NoDup_incl_length N I) as LL. rewrite !map_length in LL. lia.
  - assert (In v (v :: t)) as Hv by now left. rewrite <- F in Hv. apply filter_In in Hv. destruct Hv as [Hv E].
    exists v. split; [exact Hv|]. intros Hin. apply negb_true_iff in E.
    assert (existsb (N.eqb (v_addr v)) (map v_addr dels) = true) as E'
        by (apply existsb_exists; exists (v_addr v); split; [exact Hin|apply N.eqb_refl]).
    congruence.
Qed.

(* ------------------------------------------------------------------ *)
(** * no panic *)

Theorem update_no_panic s cs allow :
  good s -> update_with_change_set s cs allow <> None.
Proof.
  intros [W HB]. pose proof W as [(NEv & Nv & Ppv & Cv) ET].
  unfold update_with_change_set. destruct cs as [|c0 ct]; [discriminate|].
  destruct (process_changes (c0 :: ct)) as [e|ups dels] eqn:Hprocess; [discriminate|].
  destruct (negb allow && negb (length dels =? 0)%nat); [discriminate|].
  set (cs := c0 :: ct) in *. set (vals := vs_vals s) in *. set (T := total_power vals) in *.
  destruct (process_ok_valid _ _ _ Hprocess) as ([Ncs Fcs] & Eu & Ed).
  set (scs := sort_by addr_lt cs) in *.
  assert (StronglySorted addr_slt scs) as Sscs.
  { apply sorted_nodup_strict; [apply sort_addr_sorted|].
    eapply Permutation_NoDup; [apply Permutation_map, Permutation_sym, sort_by_perm|exact Ncs]. }
  assert (forall c, In c scs -> 0 <= v_power c <= max_total_voting_power) as Pscs.
  { intros c Hc. rewrite Forall_forall in Fcs. apply Fcs. eapply Permutation_in; [apply sort_by_perm|exact Hc]. }
  assert (forall u, In u ups -> 0 < v_power u <= max_total_voting_power) as Pups.
  { intros u Hu. rewrite Eu in Hu. apply filter_In in Hu. destruct Hu as [Hu Hz].
    specialize (Pscs u Hu). destruct (Z.eqb_spec (v_power u) 0); [discriminate|lia]. }
  assert (forall v, In v vals -> 0 < v_power v <= max_total_voting_power) as Pvals.
  { intros v Hv. split; [now apply Ppv|]. pose proof (power_le_total _ _ Ppv Hv). fold T in H. lia. }
  assert (NoDup (map v_addr (ups ++ dels))) as Nud.
  { eapply Permutation_NoDup; [apply Permutation_map, Permutation_sym|apply strict_sorted_nodup, Sscs].
    rewrite Eu, Ed. apply filter_split_perm. }
  assert (NoDup (map v_addr ups) /\ NoDup (map v_addr dels)) as [Nu Nd].
  { rewrite map_app in Nud. now apply nodup_app_inv in Nud. }
  assert (StronglySorted addr_slt ups) as Sups by (rewrite Eu; now apply filter_sorted).
  assert (StronglySorted addr_slt dels) as Sdels by (rewrite Ed; now apply filter_sorted).
  (* removals *)
  unfold verify_removals. destruct (removed_power dels vals 0) as [removed ok] eqn:RP.
  destruct ok; cbn [negb]; [|discriminate].
  pose proof (lsum_le_total vals dels Nd Ppv) as Ldel. fold T in Ldel.
  destruct (removed_power_exact vals dels 0 removed Ppv ltac:(lia) ltac:(i64) RP) as [Erem Found].
  assert (removed = lsum vals dels) as Erem' by lia. clear Erem. rename Erem' into Erem.
  pose proof (lsum_nonneg vals dels Ppv) as Lrem0.
  assert (forall d, In d dels -> In (v_addr d) (map v_addr vals)) as DelIn.
  { intros d Hd. specialize (Found d Hd). destruct (get_by_addr (v_addr d) vals) as [v|] eqn:G; [|congruence].
    apply get_by_addr_in in G. destruct G as [Hv <-]. now apply in_map. }
  assert ((length dels <= length vals)%nat) as LenD.
  { assert (incl (map v_addr dels) (map v_addr vals)) as I
        by (intros a Ha; apply in_map_iff in Ha; destruct Ha as (d & <- & Hd); now apply DelIn).
    pose proof (NoDup_incl_length Nd I) as LL. now rewrite !map_length in LL. }
  destruct (Nat.ltb_spec (length vals) (length dels)) as [LL|_]; [lia|].
  rewrite (wf_total_voting_power _ W). fold vals T.
  (* updates *)
  unfold verify_updates.
  set (sups := sort_by (fun a b => delta vals a <? delta vals b) ups) in *.
  assert (Permutation sups ups) as Psups by apply sort_by_perm.
  rewrite (wrap64_id (T - removed)) by i64.
  assert (forall u, In u sups -> 0 <= v_power u <= max_total_voting_power) as Psu.
  { intros u Hu. apply (Permutation_in _ Psups) in Hu. specialize (Pups u Hu). lia. }
  assert (lsum vals sups <= T - removed <= max_total_voting_power) as Hacc.
  { split; [|lia]. rewrite (lsum_perm vals _ _ Psups).
    pose proof (lsum_le_total vals (ups ++ dels) Nud Ppv) as L. rewrite lsum_app in L. fold T in L. lia. }
  destruct (add_deltas vals sups (T - removed)) as [tvp'|] eqn:AD; [|discriminate].
  pose proof (add_deltas_bounds vals sups _ _ Pvals Psu Hacc AD) as Btvp.
  pose proof (add_deltas_exact vals sups _ _ Pvals Psu Hacc AD) as Etvp.
  rewrite (dsum_perm vals _ _ Psups) in Etvp.
  rewrite (wrap64_id (tvp' + removed)) by i64.
  set (tvp := tvp' + removed) in *.
  destruct ((num_new ups vals =? 0)%nat && (length vals =? length dels)%nat) eqn:Hne; [discriminate|].
  (* merge and removal *)
  set (ups' := new_priorities ups vals tvp) in *.
  assert (map v_addr ups' = map v_addr ups /\ map v_power ups' = map v_power ups) as [Aup Pup].
  { unfold ups', new_priorities. rewrite !map_map. split; apply map_ext; intros u;
      destruct (get_by_addr (v_addr u) vals); reflexivity. }
  unfold apply_updates. set (svals := sort_by addr_lt vals) in *.
  assert (Permutation svals vals) as Psv by apply sort_by_perm.
  assert (NoDup (map v_addr svals)) as Nsv
      by (eapply Permutation_NoDup; [apply Permutation_map, Permutation_sym, Psv|exact Nv]).
  assert (StronglySorted addr_slt svals) as Ssv by (apply sorted_nodup_strict; [apply sort_addr_sorted|exact Nsv]).
  assert (StronglySorted addr_slt ups') as Sup'.
  { clear - Sups Aup. revert Aup. generalize ups'. induction Sups as [|u t St IH Fu]; intros [|u' t'] A; try discriminate; [constructor|].
    cbn [map] in A. inversion A as [[A1 A2]]. constructor; [now apply IH|].
    rewrite Forall_forall in *. intros x Hx.
    assert (In (v_addr x) (map v_addr t)) as Hin by (rewrite <- A2; now apply in_map).
    apply in_map_iff in Hin. destruct Hin as (y & Ey & Hy). specialize (Fu y Hy). unfold addr_slt in *. lia. }
  set (merged := merge_updates svals ups') in *.
  pose proof (merge_sorted svals ups' Ssv Sup') as Smerged. fold merged in Smerged.
  assert (forall d, In d dels -> In (v_addr d) (map v_addr merged)) as DelInM.
  { intros d Hd. apply merge_keeps_addr.
    eapply Permutation_in; [apply Permutation_map, Permutation_sym, Psv|now apply DelIn]. }
  destruct (removal_some merged dels Smerged Sdels DelInM) as (l2 & Happly). rewrite Happly.
  (* the recomputed total is the predicted one *)
  assert (total_power merged = T + dsum vals ups) as Tm.
  { unfold merged. rewrite (merge_total svals ups' Ssv Sup').
    rewrite (total_power_perm _ _ Psv). fold T. f_equal.
    rewrite (dsum_fields svals ups' ups Aup Pup). apply dsum_ext. intros u _.
    symmetry. apply look_perm; [exact Nv|now apply Permutation_sym]. }
  assert (lsum merged dels = removed) as Lm.
  { rewrite Erem. clear - Nud DelIn DelInM Smerged Psv Nv Aup.
    assert (forall d, In d dels -> look merged d = look vals d) as LK.
    { intros d Hd. unfold look.
      pose proof (DelInM d Hd) as Hm. apply in_map_iff in Hm. destruct Hm as (x & Ex & Hx).
      assert (get_by_addr (v_addr d) merged = Some x) as Gm
          by (apply get_some_iff; [now apply strict_sorted_nodup|split; assumption]).
      rewrite Gm.
      (* x is not an update (addresses of updates and removals are disjoint), so it is a member *)
      unfold merged in Hx. apply merge_in in Hx. destruct Hx as [Hx|Hx].
      - assert (get_by_addr (v_addr d) vals = Some x) as Gv.
        { apply get_some_iff; [exact Nv|]. split; [|exact Ex]. eapply Permutation_in; [exact Psv|exact Hx]. }
        now rewrite Gv.
      - exfalso. rewrite map_app in Nud.
        assert (In (v_addr d) (map v_addr ups)) as H1 by (rewrite <- Aup, <- Ex; now apply in_map).
        assert (In (v_addr d) (map v_addr dels)) as H2 by now apply in_map.
        clear - Nud H1 H2. induction (map v_addr ups) as [|a t IH]; [destruct H1|].
        cbn [app] in Nud. inversion Nud as [|? ? Na Nt]; subst.
        destruct H1 as [->|H1]; [apply Na, in_or_app; now right|now apply IH]. }
    clear - LK. induction dels as [|d t IH]; [reflexivity|]. cbn [lsum fold_right]. fold (lsum merged t) (lsum vals t).
    rewrite IH by (intros; apply LK; now right). now rewrite (LK d (or_introl eq_refl)). }
  pose proof (removal_total merged dels l2 Smerged Sdels Happly) as Tl2. rewrite Tm, Lm in Tl2.
  assert (total_power l2 = tvp') as Tl2' by lia.
  (* members of l2 have positive powers *)
  destruct (apply_removals_sub _ _ _ Happly (strict_sorted_nodup _ Smerged)) as [Nl2 Sub2].
  assert (forall v, In v l2 -> 0 < v_power v) as Pl2.
  { intros v Hv. apply Sub2 in Hv. unfold merged in Hv. apply merge_in in Hv. destruct Hv as [Hv|Hv].
    - apply Ppv. eapply Permutation_in; [exact Psv|exact Hv].
    - assert (In (v_power v) (map v_power ups')) as Hin by now apply in_map.
      rewrite Pup in Hin. apply in_map_iff in Hin. destruct Hin as (u & <- & Hu). now apply Pups. }
  unfold update_total. cbn [with_vals vs_vals].
  rewrite (sum_clip_exact l2 0 Pl2 ltac:(lia) ltac:(lia)). rewrite Z.add_0_l.
  (* not empty *)
  assert (l2 <> []) as NE2.
  { apply andb_false_iff in Hne. destruct Hne as [Hn|Hl].
    - (* a newcomer *)
      apply Nat.eqb_neq in Hn. unfold num_new in Hn.
      destruct (filter (fun u => negb (has_addr (v_addr u) vals)) ups) as [|u t] eqn:F; [cbn in Hn; lia|].
      assert (In u (u :: t)) as Hu by now left. rewrite <- F in Hu. apply filter_In in Hu. destruct Hu as [Hu Hn'].
      assert (In (v_addr u) (map v_addr ups')) as Ha by (rewrite Aup; now apply in_map).
      apply in_map_iff in Ha. destruct Ha as (u' & Eu' & Hu').
      assert (In u' l2) as Hl2.
      { eapply removal_keeps; [exact Happly|unfold merged; now apply merge_has_ups|].
        rewrite Eu'. intros Hd. rewrite map_app in Nud.
        assert (In (v_addr u) (map v_addr ups)) as H1 by now apply in_map.
        clear - Nud H1 Hd. induction (map v_addr ups) as [|a r IH]; [destruct H1|].
        cbn [app] in Nud. inversion Nud as [|? ? Na Nt]; subst.
        destruct H1 as [->|H1]; [apply Na, in_or_app; now right|now apply IH]. }
      intros ->. destruct Hl2.
    - apply Nat.eqb_neq in Hl.
      destruct (exists_not_in vals dels Nv ltac:(lia)) as (v & Hv & NI).
      assert (In (v_addr v) (map v_addr merged)) as Hm.
      { apply merge_keeps_addr. eapply Permutation_in; [apply Permutation_map, Permutation_sym, Psv|now apply in_map]. }
      apply in_map_iff in Hm. destruct Hm as (x & Ex & Hx).
      assert (In x l2) as Hl2 by (eapply removal_keeps; [exact Happly|exact Hx|now rewrite Ex]).
      intros ->. destruct Hl2. }
  destruct l2 as [|h2 t2] eqn:EL2; [congruence|]. rewrite <- EL2 in *.
  set (s1 := with_total (with_vals s l2) (total_power l2)).
  assert (wf_set s1) as Ws1.
  { split; cbn [s1 with_total with_vals vs_vals vs_total]; [|reflexivity].
    repeat split; [exact NE2|exact Nl2|exact Pl2|lia]. }
  rewrite (wf_total_voting_power _ Ws1). cbn [s1 with_total with_vals vs_vals].
  assert (bounded B0 l2) as Bl2.
  { intros v Hv. apply Sub2 in Hv. unfold merged in Hv. apply merge_in in Hv. destruct Hv as [Hv|Hv].
    - apply HB. eapply Permutation_in; [exact Psv|exact Hv].
    - unfold ups', new_priorities in Hv. apply in_map_iff in Hv. destruct Hv as (u & <- & Hu).
      destruct (get_by_addr (v_addr u) vals) as [v0|] eqn:G; cbn [set_prio v_prio].
      + apply HB. now apply get_by_addr_in in G.
      + assert (0 <= tvp <= 2 * max_total_voting_power) as Btvp2 by (unfold tvp; lia).
        assert (0 <= Z.shiftr tvp 3 /\ Z.shiftr tvp 3 * 8 <= tvp) as [S0 S8].
        { rewrite Z.shiftr_div_pow2 by lia. change (2 ^ 3) with 8.
          pose proof (Z.div_mod tvp 8 ltac:(lia)). pose proof (Z.mod_pos_bound tvp 8 ltac:(lia)). lia. }
        rewrite (wrap64_id (tvp + Z.shiftr tvp 3)) by i64. rewrite wrap64_id by i64. i64. }
  pose proof (wf_total_pos _ (proj1 Ws1)) as T2pos. cbn [s1 with_total with_vals vs_vals] in T2pos.
  destruct (model_renormalise l2 (total_power l2) NE2 ltac:(lia) Bl2) as (l3 & l4 & -> & -> & _).
  discriminate.
Qed.

(* ------------------------------------------------------------------ *)
(** * whole histories *)

Fixpoint run_hops (s : vset) (ops : list hop) : option vset :=
  match ops with
  | [] => Some s
  | HInc k :: r => match increment s (Z.pos k) with Some s' => run_hops s' r | None => None end
  | HUpd cs :: r => match update_with_change_set s cs true with Some (s', _) => run_hops s' r | None => None end
  end.

(** a state-independent sufficient condition for [hop_ok]: it holds for times = 1 *)
Definition times_ok (o : hop) : Prop :=
  match o with HInc k => (Z.pos k + 2) * max_total_voting_power <= B0 | HUpd _ => True end.

Lemma times_ok_one : times_ok (HInc 1).
Proof. vm_compute. discriminate. Qed.

Theorem histories_good s ops :
  good s -> Forall times_ok ops -> exists s', run_hops s ops = Some s' /\ good s'.
Proof.
  revert s. induction ops as [|o r IH]; intros s G F; [exists s; split; [reflexivity|exact G]|].
  inversion F as [|? ? Fo Fr]; subst.
  assert (hop_ok s o) as OK.
  { destruct o as [k|cs]; [|exact I]. cbn [hop_ok times_ok] in *.
    destruct G as [[(_ & _ & _ & C) _] _].
    assert (0 < Z.pos k + 2) by lia.
    assert ((Z.pos k + 2) * total_power (vs_vals s) <= (Z.pos k + 2) * max_total_voting_power)
      by (apply Z.mul_le_mono_nonneg_l; lia). lia. }
  pose proof (hop_preserves_good s o G OK) as H. destruct o as [k|cs]; cbn [run_hops].
  - destruct H as (s' & props & -> & G' & _). now apply IH.
  - destruct (update_with_change_set s cs true) as [[s' e]|] eqn:U.
    + specialize (H s' e eq_refl). apply IH; [|exact Fr].
      destruct e; try (subst s'; exact G). apply H.
    + exfalso. revert U. now apply update_no_panic.
Qed.
