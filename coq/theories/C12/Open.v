(** C12 — statements that are NOT proved (kept in full; nothing here is used by a proof). *)
From Coq Require Import List ZArith NArith Bool Lia Permutation.
From Kardia Require Import Base.Int64 C12.Model C12.Spec C12.ProofsRefine C12.ProofsUpdate2 Generated.C12Facts.
Import ListNotations.
Local Open Scope Z_scope.

(** Unconditional absence of overflow for IncrementProposerPriority(times): for every
    well-formed set below the cap and priorities within B0, whatever [times].  Proved only
    under the side condition (times + 2) * T <= 3 * 2^60 (which always holds for times = 1);
    the general statement needs a bound on priorities during the inner loop that does not
    grow with [times] and is O(T) independently of the number of validators ("tricky, left
    to the reader" in the source); the bound that is proved (ProofsSpec.spec_rounds_bounds)
    is (2n-1) * 2T + n, which exceeds int64 for n = 10000 validators and T near the cap.
    Proved for any [times] under n + (2n + 1) T <= 3 * 2^60 (Properties.C12_increment_any_times_partial,
    ProofsAnyTimes.v): what is still missing is exactly a bound on the priorities that is
    independent of the number of validators. *)
Definition C12_no_overflow_any_times_statement : Prop :=
  forall s (times : positive),
    wf_set s -> bounded B0 (vs_vals s) ->
    exists s' props,
      increment s (Z.pos times) = Some s' /\
      spec_increment (vs_vals s) (Pos.to_nat times) (vs_vals s') props.

(** Proportional share across calls: k successive calls of IncrementProposerPriority(1) on a
    static set (what the chain does, one call per block).  Inside one call with k rounds the
    bound is proved (C12_share_within_call); across calls it additionally needs that the
    window step never has to divide in steady state (spread stays <= 2T), which is the same
    missing O(T) bound. *)
Definition C12_share_across_calls_statement : Prop :=
  forall s k s' seq,
    wf_set s -> bounded B0 (vs_vals s) ->
    rounds_run s k [] = Some (s', seq) ->
    forall v, In v (vs_vals s) ->
      Z.abs (total_power (vs_vals s) * ProofsSpec.count (v_addr v) seq - Z.of_nat k * v_power v)
      <= 2 * (Z.of_nat (length (vs_vals s)) + 1) * total_power (vs_vals s) + Z.of_nat (length (vs_vals s)).
