(** C12 — the validator part of ApplyBlock as a whole (calculateValidatorSetUpdates +
    updateState on the LatestBlockState carried from block to block): the change set derived
    from a report, the pipeline LastValidators <- Validators <- NextValidators, all-or-nothing
    for the whole state, absence of panics over histories of blocks, refinement of the
    specification by an accepted report, and the proposer of round k of a height. *)
From Coq Require Import List ZArith NArith Bool Lia Permutation Sorted.
From Kardia Require Import Base.Int64 Base.ListX C12.Model C12.Spec C12.ProofsSort C12.ProofsUpdate
     C12.ProofsSpec C12.ProofsFair C12.ProofsRefine C12.ProofsUpdate2 C12.ProofsUpdate3 C12.ProofsUpdate4
     C12.ProofsUpdate5 C12.ProofsReport C12.ProofsAnyTimes C12.ProofsExamples Generated.C12Facts.
Import ListNotations.
Local Open Scope Z_scope.

(* ------------------------------------------------------------------ *)
(** * one round on a good set *)

Lemma increment_one_good s :
  good s ->
  exists s' props p, increment s 1 = Some s' /\ good s' /\
    spec_increment (vs_vals s) 1 (vs_vals s') props /\ vs_proposer s' = Some (last props 0%N, p).
Proof.
  intros G. pose proof (hop_preserves_good s (HInc 1) G) as P. cbn [hop_ok] in P.
  destruct P as (s' & props & I1 & G' & SI & p & Pr).
  { destruct G as [[(_ & _ & _ & C) _] _]. i64. }
  exists s', props, p. change (Z.pos 1) with 1 in I1. change (Pos.to_nat 1) with 1%nat in SI. auto.
Qed.

(* ------------------------------------------------------------------ *)
(** * the change set that calculateValidatorSetUpdates derives from a report *)

Definition removal_of (o : validator) : validator := {| v_addr := v_addr o; v_power := 0; v_prio := 0 |}.

(** For a report without repeated addresses over a set with distinct addresses: the change set
    consists of exactly (a) the report's entries that are not members or whose power differs
    from the member's — whatever that power is, 0 included — and (b) a removal for every member
    the report leaves out.  In particular nothing the report says about a non-member is dropped. *)
Theorem calculate_updates_exact last report c :
  report <> [] -> NoDup (map v_addr report) -> NoDup (map v_addr last) ->
  (In c (calculate_updates last report) <->
   (In c report /\ forall o, get_by_addr (v_addr c) last = Some o -> v_power o <> v_power c) \/
   (exists o, In o last /\ ~ In (v_addr o) (map v_addr report) /\ c = removal_of o)).
Proof.
  intros NE Nr Nl. unfold calculate_updates.
  destruct report as [|r0 rt]; [congruence|].
  assert (has_dup (r0 :: rt) = false) as -> by (now apply has_dup_false).
  set (rep := r0 :: rt) in *.
  rewrite in_app_iff, filter_In, in_map_iff.
  assert (forall a, get_by_addr a (rev last) = get_by_addr a last) as GR
      by (intros a; symmetry; apply get_perm; [exact Nl|apply Permutation_rev]).
  split.
  - intros [[Hc F]|(a & <- & Ha)].
    + left. split; [exact Hc|]. intros o Go. rewrite GR, Go in F.
      destruct (Z.eqb_spec (v_power o) (v_power c)); [discriminate|assumption].
    + right. apply nodup_In in Ha. apply filter_In in Ha. destruct Ha as [Ha Hn].
      apply in_map_iff in Ha. destruct Ha as (o & <- & Ho).
      exists o. split; [exact Ho|]. split; [|reflexivity].
      intros Hin. apply has_addr_in in Hin. rewrite Hin in Hn. discriminate.
  - intros [[Hc F]|(o & Ho & Hn & ->)].
    + left. split; [exact Hc|]. rewrite GR.
      destruct (get_by_addr (v_addr c) last) as [o|] eqn:Go; [|reflexivity].
      specialize (F o eq_refl). destruct (Z.eqb_spec (v_power o) (v_power c)); [contradiction|reflexivity].
    + right. exists (v_addr o). split; [reflexivity|].
      apply nodup_In. apply filter_In. split; [now apply in_map|].
      destruct (has_addr (v_addr o) rep) eqn:E; [|reflexivity].
      apply has_addr_in in E. contradiction.
Qed.

(** the clause a report relies on: "remove this address" for an address that is not a member
    reaches UpdateWithChangeSet (which rejects it) — it is never dropped on the way *)
Corollary calculate_updates_keeps_unknown_removal last report c :
  NoDup (map v_addr report) -> NoDup (map v_addr last) ->
  In c report -> v_power c = 0 -> get_by_addr (v_addr c) last = None ->
  In c (calculate_updates last report).
Proof.
  intros Nr Nl Hc P0 G.
  apply calculate_updates_exact; [intros ->; destruct Hc|exact Nr|exact Nl|].
  left. split; [exact Hc|]. intros o Go. congruence.
Qed.

(* ------------------------------------------------------------------ *)
(** * an accepted report refines the specification *)

Theorem report_refines_spec s report s' :
  good s -> apply_report s report = Some (s', UOk) ->
  let cs := calculate_updates (vs_vals s) report in
  exists mid props p,
    ((cs = [] /\ mid = vs_vals s) \/ (cs <> [] /\ spec_update max_total_voting_power (vs_vals s) cs mid)) /\
    spec_increment mid 1 (vs_vals s') props /\
    vs_proposer s' = Some (last props 0%N, p).
Proof.
  intros G H cs. unfold apply_report in H. fold cs in H.
  destruct cs as [|c0 ct] eqn:E.
  - destruct (increment_one_good s G) as (s1 & props & p & I1 & _ & SI & Pr).
    rewrite I1 in H. inversion H; subst s1.
    exists (vs_vals s), props, p. split; [left; split; reflexivity|]. split; assumption.
  - destruct (update_with_change_set s (c0 :: ct) true) as [[s1 e]|] eqn:U; [|discriminate].
    destruct e; try discriminate.
    assert (c0 :: ct <> []) as NE by discriminate.
    pose proof (update_refines_spec s (c0 :: ct) true s1 G NE U) as SU.
    pose proof (hop_preserves_good s (HUpd (c0 :: ct)) G I s1 UOk U) as [G1 _].
    destruct (increment_one_good s1 G1) as (s2 & props & p & I2 & _ & SI & Pr).
    rewrite I2 in H. inversion H; subst s2.
    exists (vs_vals s1), props, p. split; [right; split; [exact NE|exact SU]|]. split; assumption.
Qed.

(** the cstate path never panics on a good set *)
Theorem report_no_panic s report : good s -> apply_report s report <> None.
Proof.
  intros G. unfold apply_report.
  destruct (calculate_updates (vs_vals s) report) as [|c0 ct].
  - destruct (increment_one_good s G) as (s1 & ? & ? & -> & _). discriminate.
  - destruct (update_with_change_set s (c0 :: ct) true) as [[s1 e]|] eqn:U.
    + destruct e; try discriminate.
      pose proof (hop_preserves_good s (HUpd (c0 :: ct)) G I s1 UOk U) as [G1 _].
      destruct (increment_one_good s1 G1) as (s2 & ? & ? & -> & _). discriminate.
    + exfalso. revert U. now apply update_no_panic.
Qed.

(** an error of the cstate path leaves the set as it was *)
Lemma report_error_unchanged s report s' e :
  apply_report s report = Some (s', e) -> e <> UOk -> s' = s.
Proof.
  unfold apply_report. intros H Ne.
  destruct (calculate_updates (vs_vals s) report) as [|c0 ct].
  - destruct (increment s 1); inversion H; subst; congruence.
  - destruct (update_with_change_set s (c0 :: ct) true) as [[s1 e1]|]; [|discriminate].
    destruct e1; try (inversion H; subst; reflexivity).
    destruct (increment s1 1); inversion H; subst; congruence.
Qed.

(* ------------------------------------------------------------------ *)
(** * updateState on the whole state *)

(** apply_block is apply_report on NextValidators, plus the bookkeeping *)
Lemma block_as_report st report :
  apply_block st report =
  match apply_report (ch_next st) report with
  | None => None
  | Some (n2, UOk) =>
    Some ({| ch_last := ch_cur st; ch_cur := ch_next st; ch_next := n2;
             ch_height := wrapu64 (ch_height st + 1);
             ch_changed := match calculate_updates (vs_vals (ch_next st)) report with
                           | [] => ch_changed st
                           | _ => wrapu64 (wrapu64 (ch_height st + 1) + 2)
                           end |}, UOk)
  | Some (_, e) => Some (st, e)
  end.
Proof.
  unfold apply_block, update_state, apply_report.
  destruct (calculate_updates (vs_vals (ch_next st)) report) as [|c0 ct].
  - destruct (increment (ch_next st) 1); reflexivity.
  - destruct (update_with_change_set (ch_next st) (c0 :: ct) true) as [[n1 e]|]; [|reflexivity].
    destruct e; try reflexivity. destruct (increment n1 1); reflexivity.
Qed.

(** all-or-nothing for the whole state: an error returns the state that was passed in *)
Theorem block_atomic st report st' e :
  apply_block st report = Some (st', e) -> e <> UOk -> st' = st.
Proof.
  rewrite block_as_report. intros H Ne.
  destruct (apply_report (ch_next st) report) as [[n2 e2]|]; [|discriminate].
  destruct e2; inversion H; subst; try reflexivity. congruence.
Qed.

(** the pipeline: after an accepted block the set in force is the previous NextValidators,
    LastValidators is the previous Validators, NextValidators is the report applied to the
    previous NextValidators, the height advances by one and LastHeightValidatorsChanged moves to
    height + 2 exactly when the report changed something *)
Theorem block_pipeline st report st' :
  apply_block st report = Some (st', UOk) ->
  ch_cur st' = ch_next st /\ ch_last st' = ch_cur st /\
  apply_report (ch_next st) report = Some (ch_next st', UOk) /\
  ch_height st' = wrapu64 (ch_height st + 1) /\
  ch_changed st' = match calculate_updates (vs_vals (ch_next st)) report with
                   | [] => ch_changed st
                   | _ => wrapu64 (ch_height st' + 2)
                   end.
Proof.
  rewrite block_as_report. intros H.
  destruct (apply_report (ch_next st) report) as [[n2 e2]|]; [|discriminate].
  destruct e2; try (inversion H; fail). inversion H; subst st'. cbn. repeat split; reflexivity.
Qed.

(** two accepted blocks later, a NextValidators has become LastValidators *)
Corollary pipeline_lag st r1 r2 st1 st2 :
  apply_block st r1 = Some (st1, UOk) -> apply_block st1 r2 = Some (st2, UOk) ->
  ch_cur st1 = ch_next st /\ ch_cur st2 = ch_next st1 /\ ch_last st2 = ch_next st.
Proof.
  intros H1 H2. apply block_pipeline in H1. apply block_pipeline in H2.
  destruct H1 as (C1 & L1 & _). destruct H2 as (C2 & L2 & _). repeat split; congruence.
Qed.

(** a state is good when Validators and NextValidators are good sets and LastValidators is
    good or still the nil set of genesis *)
Definition chain_good (st : chain) : Prop :=
  (ch_last st = empty_vset \/ good (ch_last st)) /\ good (ch_cur st) /\ good (ch_next st).

(** a block on a good state never panics and ends in a good state *)
Theorem block_good st report :
  chain_good st -> exists st' e, apply_block st report = Some (st', e) /\ chain_good st'.
Proof.
  intros (GL & GC & GN). rewrite block_as_report.
  destruct (apply_report (ch_next st) report) as [[n2 e2]|] eqn:R.
  - destruct e2; try (eexists; eexists; split; [reflexivity|]; exact (conj GL (conj GC GN))).
    eexists; eexists. split; [reflexivity|]. unfold chain_good; cbn.
    split; [right; exact GC|]. split; [exact GN|]. eapply report_ok_good; eassumption.
  - exfalso. revert R. now apply report_no_panic.
Qed.

Fixpoint run_blocks (st : chain) (reports : list (list validator)) : option chain :=
  match reports with
  | [] => Some st
  | r :: t => match apply_block st r with Some (st', _) => run_blocks st' t | None => None end
  end.

(** whole histories of blocks, whatever the reports (valid or not) *)
Theorem blocks_good st reports :
  chain_good st -> exists st', run_blocks st reports = Some st' /\ chain_good st'.
Proof.
  revert st. induction reports as [|r t IH]; intros st G; [exists st; split; [reflexivity|exact G]|].
  cbn [run_blocks]. destruct (block_good st r G) as (st1 & e & -> & G1). now apply IH.
Qed.

(** the genesis arrangement over a good set is a good state *)
Theorem genesis_good s c : good s -> chain_genesis s = Some c -> chain_good c.
Proof.
  intros G H. unfold chain_genesis in H.
  destruct (increment_one_good s G) as (s1 & props & p & I1 & G1 & _).
  rewrite I1 in H. inversion H; subst c. unfold chain_good; cbn.
  split; [now left|]. split; assumption.
Qed.

Theorem genesis_no_panic s : good s -> chain_genesis s <> None.
Proof.
  intros G. unfold chain_genesis.
  destruct (increment_one_good s G) as (s1 & ? & ? & -> & _). discriminate.
Qed.

Theorem genesis_exists_good s : good s -> exists c, chain_genesis s = Some c /\ chain_good c.
Proof.
  intros G. destruct (chain_genesis s) as [c|] eqn:E; [|now apply genesis_no_panic in E].
  exists c. split; [reflexivity|]. eapply genesis_good; eassumption.
Qed.

(* ------------------------------------------------------------------ *)
(** * the proposer of round k of a height *)

(** CopyIncrementProposerPriority(k).GetProposer() on the set of a height is the proposer of the
    k-th round of the specified round-robin started from that set (under the side condition of
    the overflow proof, always true for k = 1) *)
Theorem proposer_at_refines_spec s (k : positive) :
  good s -> (Z.pos k + 2) * total_power (vs_vals s) <= B0 ->
  exists l' props,
    spec_increment (vs_vals s) (Pos.to_nat k) l' props /\
    proposer_at s (Z.pos k) = Some (last props 0%N) /\
    In (last props 0%N) (map v_addr (vs_vals s)).
Proof.
  intros [W HB] Side.
  destruct (increment_refines s k W HB Side) as (s' & props & a & p & I1 & SI & La & Pr & (m0 & Hm & Ha & _) & _).
  exists (vs_vals s'), props. split; [exact SI|].
  unfold proposer_at. rewrite I1, Pr. split; [now rewrite La|].
  rewrite La.
  (* the members of the set do not change during a call *)
  destruct SI as (l1 & l2 & R1 & C1 & RS).
  assert (map v_addr (vs_vals s') = map v_addr (vs_vals s)) as <-.
  { assert (map v_addr l1 = map v_addr (vs_vals s)) as E1.
    { destruct R1 as (mx & mn & _ & _ & R1). cbn zeta in R1.
      destruct (2 * total_power (vs_vals s) <? mx - mn); subst l1; [|reflexivity].
      rewrite map_map. reflexivity. }
    assert (map v_addr l2 = map v_addr l1) as E2.
    { unfold spec_centre in C1. subst l2. rewrite map_map. reflexivity. }
    rewrite <- E1, <- E2. clear - RS.
    induction RS as [|k0 l la lb a0 props0 R _ IH]; [reflexivity|].
    rewrite IH. destruct R as (p0 & _ & _ & ->). unfold pay, advance. rewrite !map_map.
    apply map_ext. intros v. cbn. destruct (N.eqb (v_addr v) a0); reflexivity. }
  rewrite <- Ha. now apply in_map.
Qed.

(* ------------------------------------------------------------------ *)
(** * non-vacuity *)

(** the genesis arrangement over the example set is a good state; a block whose report raises
    validator 2, leaves out validator 3 and adds validator 4 is accepted: the set in force is the
    previous NextValidators, the change is recorded for height 3, and the three sets differ *)
Definition ex_genesis : chain :=
  match chain_genesis ex_set with Some c => c | None => init_chain end.

Lemma ex_genesis_eq : chain_genesis ex_set = Some ex_genesis.
Proof. vm_compute. reflexivity. Qed.

Example ex_chain :
  exists c',
    chain_good ex_genesis /\
    apply_block ex_genesis [mkv 1 10; mkv 2 7; mkv 4 2] = Some (c', UOk) /\
    ch_cur c' = ch_next ex_genesis /\ ch_last c' = ex_set /\ ch_height c' = 1 /\ ch_changed c' = 3 /\
    map v_addr (vs_vals (ch_next c')) = [1%N; 2%N; 4%N] /\
    co_rounds (snd (chain_observe c' true false UOk)) = [Some 1%N; Some 1%N; Some 2%N].
Proof.
  eexists. split; [exact (genesis_good _ _ ex_good ex_genesis_eq)|].
  split; [vm_compute; reflexivity|]. vm_compute. repeat split.
Qed.

(** a report naming an unknown validator for removal next to a real change is rejected as a
    whole and the state is the one passed in *)
Example ex_chain_reject :
  apply_block ex_genesis [mkv 1 10; mkv 2 7; mkv 3 1; mkv 9 0] = Some (ex_genesis, UUnknown).
Proof. vm_compute. reflexivity. Qed.

(** the side condition of the any-times theorem holds for the example set (3 validators, T = 16) *)
Example ex_any_times_ok : round_bound (vs_vals ex_set) + total_power (vs_vals ex_set) <= B0.
Proof. vm_compute. discriminate. Qed.
