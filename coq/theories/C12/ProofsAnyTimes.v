(** C12 — IncrementProposerPriority(times) for ANY [times]: refinement of the specification
    and absence of overflow under a side condition that does not mention [times] (it bounds
    the number of validators times the total power instead).  The bound on the priorities
    during the rounds is the one of ProofsSpec.spec_rounds_bounds (constant sum + lower bound
    -2T), which does not grow with the number of rounds. *)
From Coq Require Import List ZArith NArith Bool Lia Permutation Sorted.
From Kardia Require Import Base.Int64 Base.ListX C12.Model C12.Spec C12.ProofsSort C12.ProofsUpdate
     C12.ProofsSpec C12.ProofsFair C12.ProofsRefine Generated.C12Facts.
Import ListNotations.
Local Open Scope Z_scope.

(** the bound that holds after any number of rounds from a renormalised set *)
Definition round_bound (l : list validator) : Z :=
  Z.of_nat (length l) + 2 * Z.of_nat (length l) * total_power l.

Lemma spec_rounds_length k l l' props : spec_rounds k l l' props -> length l' = length l.
Proof.
  intros R. induction R as [|k l l1 l2 a props R1 R IH]; [reflexivity|].
  destruct (spec_round_fields _ _ _ R1) as (A & _ & _). rewrite IH.
  rewrite <- (map_length v_addr l1), A. apply map_length.
Qed.

Lemma bounds_after_rounds k l l' props :
  wf_vals l -> bounded (2 * total_power l) l ->
  0 <= sum_priorities l < Z.of_nat (length l) ->
  spec_rounds k l l' props -> bounded (round_bound l) l'.
Proof.
  intros (NE & N & Pp & C) HB [S0 S1] R.
  pose proof (wf_total_pos l (conj NE (conj N (conj Pp C)))) as Tpos.
  assert (1 <= Z.of_nat (length l)) as Hn by (destruct l; [congruence|cbn [length]; lia]).
  assert (forall v, In v l' -> - (2 * total_power l) <= v_prio v <=
                                sum_priorities l + (Z.of_nat (length l) - 1) * (2 * total_power l)) as Bd.
  { apply (spec_rounds_bounds (2 * total_power l) k l l' props N NE Pp S0); [lia| |exact R].
    intros v Hv. specialize (HB v Hv). lia. }
  assert (total_power l <= Z.of_nat (length l) * total_power l) as M.
  { replace (total_power l) with (1 * total_power l) at 1 by lia.
    apply Z.mul_le_mono_nonneg_r; lia. }
  intros v Hv. specialize (Bd v Hv). unfold round_bound. lia.
Qed.

Lemma rounds_refine_const (k : nat) : forall s,
  wf_set s -> bounded (2 * total_power (vs_vals s)) (vs_vals s) ->
  0 <= sum_priorities (vs_vals s) < Z.of_nat (length (vs_vals s)) ->
  round_bound (vs_vals s) + total_power (vs_vals s) <= max_int64 ->
  exists s' m props,
    nat_rect (fun _ => iter_state) (Some (s, None)) (fun _ => iter_step) (S k) = Some (s', Some m) /\
    spec_rounds (S k) (vs_vals s) (vs_vals s') props /\ last props 0%N = v_addr m /\
    (exists m0, In m0 (vs_vals s) /\ v_addr m0 = v_addr m /\ v_power m0 = v_power m) /\
    wf_set s' /\ vs_total s' = vs_total s /\ vs_proposer s' = vs_proposer s /\
    bounded (round_bound (vs_vals s)) (vs_vals s').
Proof.
  induction k as [|k IH]; intros s W HB HS BM.
  - pose proof (wf_total_pos _ (proj1 W)) as Tpos.
    assert (0 <= 2 * total_power (vs_vals s)) as B0' by lia.
    assert (1 <= Z.of_nat (length (vs_vals s))) as Hn.
    { destruct W as [(NE & _) _]. destruct (vs_vals s); [congruence|cbn [length]; lia]. }
    assert (total_power (vs_vals s) <= Z.of_nat (length (vs_vals s)) * total_power (vs_vals s)) as M.
    { replace (total_power (vs_vals s)) with (1 * total_power (vs_vals s)) at 1 by lia.
      apply Z.mul_le_mono_nonneg_r; lia. }
    cbn [nat_rect iter_step].
    destruct (increment_once_refines s (2 * total_power (vs_vals s)) W HB B0') as
        (s' & m & -> & R & M0 & W' & T' & P' & _); [unfold round_bound in BM; lia|].
    assert (spec_rounds 1 (vs_vals s) (vs_vals s') [v_addr m]) as RS by (econstructor; [exact R|constructor]).
    exists s', m, [v_addr m].
    split; [reflexivity|]. split; [exact RS|]. split; [reflexivity|].
    split; [exact M0|]. split; [exact W'|]. split; [exact T'|]. split; [exact P'|].
    eapply bounds_after_rounds; [exact (proj1 W)|exact HB|exact HS|exact RS].
  - destruct (IH s W HB HS BM) as (s1 & m1 & props & E & R & L & M0 & W1 & T1 & P1 & HB1).
    change (nat_rect (fun _ => iter_state) (Some (s, None)) (fun _ => iter_step) (S (S k)))
      with (iter_step (nat_rect (fun _ => iter_state) (Some (s, None)) (fun _ => iter_step) (S k))).
    rewrite E. cbn [iter_step].
    assert (total_power (vs_vals s1) = total_power (vs_vals s)) as ET.
    { destruct W as [_ E0], W1 as [_ E1]. lia. }
    pose proof (wf_total_pos _ (proj1 W)) as Tpos.
    assert (0 <= round_bound (vs_vals s)) as RB0 by (unfold round_bound; nia).
    destruct (increment_once_refines s1 (round_bound (vs_vals s)) W1 HB1 RB0) as
        (s' & m & -> & R' & M0' & W' & T' & P' & _); [rewrite ET; exact BM|].
    pose proof (spec_rounds_snoc _ _ _ _ _ _ R R') as RS.
    exists s', m, (props ++ [v_addr m]).
    split; [reflexivity|]. split; [exact RS|]. split; [now rewrite last_last|].
    split.
    { destruct M0' as (m0 & Hm0 & A0 & P0).
      destruct (spec_rounds_accounted _ _ _ _ R) as [F _].
      destruct (accounted_in_bwd _ _ _ _ _ _ F Hm0) as (x & Hx & Ax & Px).
      exists x. split; [exact Hx|]. split; congruence. }
    split; [exact W'|]. split; [congruence|]. split; [congruence|].
    eapply bounds_after_rounds; [exact (proj1 W)|exact HB|exact HS|exact RS].
Qed.

(** IncrementProposerPriority(times), any [times]: no panic, no wrap, no clip; the result is
    exactly the specified round-robin; it is well formed and its priorities are within
    n + 2nT whatever the number of rounds — provided n + (2n + 1) T <= 3 * 2^60 *)
Theorem increment_refines_any_times s (times : positive) :
  wf_set s -> bounded B0 (vs_vals s) ->
  round_bound (vs_vals s) + total_power (vs_vals s) <= B0 ->
  exists s' props a p,
    increment s (Z.pos times) = Some s' /\
    spec_increment (vs_vals s) (Pos.to_nat times) (vs_vals s') props /\
    last props 0%N = a /\ vs_proposer s' = Some (a, p) /\
    (exists m0, In m0 (vs_vals s') /\ v_addr m0 = a /\ v_power m0 = p) /\
    wf_set s' /\ vs_total s' = vs_total s /\
    bounded (round_bound (vs_vals s)) (vs_vals s') /\ bounded B0 (vs_vals s').
Proof.
  intros W HB HK. pose proof W as [Wv ET]. pose proof Wv as (NE & N & Pp & C).
  pose proof (wf_total_pos _ Wv) as Tpos.
  unfold increment. destruct (vs_vals s) as [|v0 vt] eqn:EV; [congruence|]. rewrite <- EV in *.
  rewrite (wf_total_voting_power _ W).
  set (T := total_power (vs_vals s)) in *.
  destruct (rescale_refines (vs_vals s) T NE ltac:(lia) HB) as (l1 & -> & SR & HB1).
  assert (l1 <> []) as NE1.
  { destruct SR as (mx & mn & _ & _ & H). cbn zeta in H.
    destruct (2 * T <? mx - mn); subst l1; [|exact NE]. destruct (vs_vals s); [congruence|discriminate]. }
  destruct (shift_refines l1 NE1 HB1) as (l2 & -> & SC).
  destruct (spec_renormalise T _ _ _ Tpos NE SR SC) as (Win & Sum & Bnd).
  assert (map v_addr l2 = map v_addr (vs_vals s) /\ map v_power l2 = map v_power (vs_vals s)) as [A2 P2].
  { assert (map v_addr l1 = map v_addr (vs_vals s) /\ map v_power l1 = map v_power (vs_vals s)) as [A1 P1].
    { destruct SR as (mx & mn & _ & _ & H). cbn zeta in H.
      destruct (2 * T <? mx - mn); subst l1; [|auto]. rewrite !map_map. cbn. auto. }
    rewrite SC, !map_map. cbn [set_prio v_addr v_power]. auto. }
  assert (wf_set (with_vals s l2)) as W2.
  { split; cbn [with_vals vs_vals vs_total].
    - eapply wf_vals_fields; eassumption.
    - rewrite ET. symmetry. now apply total_power_map. }
  assert (total_power l2 = T) as ET2 by now apply total_power_map.
  assert (length l2 = length (vs_vals s)) as EL2.
  { rewrite <- (map_length v_addr l2), A2. apply map_length. }
  assert (round_bound l2 = round_bound (vs_vals s)) as ERB by (unfold round_bound; rewrite EL2, ET2; reflexivity).
  destruct (Pos2Nat.is_succ times) as (k & EK).
  rewrite Pos2Nat.inj_iter, EK.
  destruct (rounds_refine_const k (with_vals s l2) W2) as
      (s' & m & props & -> & R & L & M0 & W' & T' & P' & HB'); cbn [with_vals vs_vals] in *.
  { rewrite ET2. intros v Hv. specialize (Bnd v Hv). lia. }
  { exact Sum. }
  { rewrite ERB, ET2. pose proof facts_fit as (_ & _ & _ & _ & EB0 & FF). clear - HK FF EB0 Tpos C. fold T in HK. i64. }
  exists (with_proposer s' (Some (v_addr m, v_power m))), props, (v_addr m), (v_power m).
  cbn [with_proposer vs_vals vs_total vs_proposer].
  split; [reflexivity|]. split; [|split; [exact L|split; [reflexivity|split; [|split; [|split; [|split]]]]]].
  - exists l1, l2. auto.
  - destruct M0 as (m0 & Hm0 & A0 & P0).
    destruct (spec_rounds_accounted _ _ _ _ R) as [F _].
    destruct (accounted_in_fwd _ _ _ _ _ _ F Hm0) as (y & Hy & Ay & Py).
    exists y. split; [exact Hy|]. split; congruence.
  - destruct W' as [Wv' E']. split; [exact Wv'|exact E'].
  - exact T'.
  - rewrite <- ERB. exact HB'.
  - intros v Hv. specialize (HB' v Hv). rewrite ERB in HB'. fold T in HK. lia.
Qed.
