(** C12 — completeness of the validation: every change set the specification accepts is
    accepted by updateWithChangeSet (so the rejected ones are exactly the specified ones). *)
From Coq Require Import List ZArith NArith Bool Lia Permutation Sorted.
From Kardia Require Import Base.Int64 Base.ListX C12.Model C12.Spec C12.ProofsSort C12.ProofsUpdate
     C12.ProofsSpec C12.ProofsFair C12.ProofsRefine C12.ProofsUpdate2 C12.ProofsUpdate3 C12.ProofsUpdate4
     Generated.C12Facts.
Import ListNotations.
Local Open Scope Z_scope.

Lemma removed_power_found dels vals : forall acc,
  (forall d, In d dels -> get_by_addr (v_addr d) vals <> None) -> snd (removed_power dels vals acc) = true.
Proof.
  induction dels as [|d t IH]; intros acc H; [reflexivity|]. cbn [removed_power].
  destruct (get_by_addr (v_addr d) vals) eqn:G; [|exfalso; now apply (H d (or_introl eq_refl))].
  apply IH. intros x Hx. apply H. now right.
Qed.

Lemma insert_key_sorted (key : validator -> Z) x l :
  StronglySorted (fun a b => key a <= key b) l ->
  StronglySorted (fun a b => key a <= key b) (insert_by (fun a b => key a <? key b) x l).
Proof.
  induction l as [|h t IH]; intros S; cbn [insert_by]; [repeat constructor|].
  inversion S as [|? ? St Fh]; subst.
  destruct (Z.ltb_spec (key h) (key x)) as [L|L].
  - constructor; [now apply IH|]. rewrite Forall_forall. intros y Hy.
    apply (Permutation_in _ (insert_by_perm _ x t)) in Hy. destruct Hy as [<-|Hy]; [lia|].
    rewrite Forall_forall in Fh. now apply Fh.
  - constructor; [assumption|]. constructor; [exact L|].
    rewrite Forall_forall in *. intros y Hy. specialize (Fh y Hy). lia.
Qed.

Lemma sort_key_sorted (key : validator -> Z) l :
  StronglySorted (fun a b => key a <= key b) (sort_by (fun a b => key a <? key b) l).
Proof.
  induction l as [|h t IH]; cbn [sort_by fold_right]; [constructor|]. apply insert_key_sorted, IH.
Qed.

(** verifyUpdates succeeds whenever the final total is below the cap: the deltas are added in
    ascending order, so no running total exceeds the larger of the first and the last *)
Lemma add_deltas_some vals us : forall acc,
  (forall v, In v vals -> 0 < v_power v <= max_total_voting_power) ->
  (forall u, In u us -> 0 <= v_power u <= max_total_voting_power) ->
  lsum vals us <= acc <= max_total_voting_power ->
  StronglySorted (fun a b => delta vals a <= delta vals b) us ->
  acc + dsum vals us <= max_total_voting_power ->
  exists r, add_deltas vals us acc = Some r.
Proof.
  induction us as [|u t IH]; intros acc Pp Pu Hacc S Hfin; cbn [add_deltas]; [eauto|].
  cbn [lsum fold_right] in Hacc. fold (lsum vals t) in Hacc.
  cbn [dsum fold_right] in Hfin. fold (dsum vals t) in Hfin.
  inversion S as [|? ? St Fu]; subst. rewrite Forall_forall in Fu.
  pose proof (delta_exact vals u Pp (Pu u (or_introl eq_refl))) as Du. rewrite Du.
  pose proof (look_nonneg vals u (fun v Hv => proj1 (Pp v Hv))) as L0.
  pose proof (lsum_nonneg vals t (fun v Hv => proj1 (Pp v Hv))) as L1.
  pose proof (Pu u (or_introl eq_refl)) as Pu0.
  rewrite wrap64_id by i64.
  assert (0 < v_power u - look vals u -> 0 <= dsum vals t) as Pos.
  { intros Hd. clear - Hd Fu Du Pp Pu. induction t as [|x r IHr]; [cbn; lia|].
    cbn [dsum fold_right]. fold (dsum vals r).
    pose proof (Fu x (or_introl eq_refl)) as Lx.
    rewrite Du, (delta_exact vals x Pp (Pu x (or_intror (or_introl eq_refl)))) in Lx.
    assert (0 <= dsum vals r); [|lia].
    apply IHr; [intros u0 H0; apply Pu; destruct H0; [now left|right; now right]|intros; apply Fu; now right]. }
  destruct (Z.ltb_spec max_total_voting_power (acc + (v_power u - look vals u))) as [L|L].
  { exfalso. destruct (Z.le_gt_cases (v_power u - look vals u) 0) as [D|D]; [lia|]. specialize (Pos D). lia. }
  apply IH; try assumption; [intros; apply Pu; now right|lia|lia].
Qed.

Theorem update_accepts_valid s cs :
  good s -> cs <> [] -> valid_changes cs ->
  (forall c, In c cs -> v_power c = 0 -> get_by_addr (v_addr c) (vs_vals s) <> None) ->
  total_after_updates (vs_vals s) cs - lsum (vs_vals s) (filter (fun c => v_power c =? 0) cs)
    <= max_total_voting_power ->
  ((exists c, In c cs /\ 0 < v_power c /\ get_by_addr (v_addr c) (vs_vals s) = None) \/
   (exists v, In v (vs_vals s) /\ ~ In (v_addr v) (map v_addr (filter (fun c => v_power c =? 0) cs)))) ->
  exists s', update_with_change_set s cs true = Some (s', UOk).
Proof.
  intros [W HB] NEcs Hvalid Hfound Hcap Hnonempty. pose proof W as [(NEv & Nv & Ppv & Cv) ET].
  unfold update_with_change_set. destruct cs as [|c0 ct]; [congruence|].
  destruct (process_valid_ok _ Hvalid) as (ups & dels & Hprocess). rewrite Hprocess.
  cbn [negb andb].
  set (cs := c0 :: ct) in *. set (vals := vs_vals s) in *. set (T := total_power vals) in *.
  destruct (process_ok_valid _ _ _ Hprocess) as ([Ncs Fcs] & Eu & Ed).
  set (scs := sort_by addr_lt cs) in *.
  assert (StronglySorted addr_slt scs) as Sscs.
  { apply sorted_nodup_strict; [apply sort_addr_sorted|].
    eapply Permutation_NoDup; [apply Permutation_map, Permutation_sym, sort_by_perm|exact Ncs]. }
  assert (forall c, In c scs -> 0 <= v_power c <= max_total_voting_power) as Pscs.
  { intros c Hc. rewrite Forall_forall in Fcs. apply Fcs. eapply Permutation_in; [apply sort_by_perm|exact Hc]. }
  assert (forall u, In u ups -> 0 < v_power u <= max_total_voting_power) as Pups.
  { intros u Hu. rewrite Eu in Hu. apply filter_In in Hu. destruct Hu as [Hu Hz].
    specialize (Pscs u Hu). destruct (Z.eqb_spec (v_power u) 0); [discriminate|lia]. }
  assert (forall v, In v vals -> 0 < v_power v <= max_total_voting_power) as Pvals.
  { intros v Hv. split; [now apply Ppv|]. pose proof (power_le_total _ _ Ppv Hv). fold T in H. lia. }
  assert (NoDup (map v_addr (ups ++ dels))) as Nud.
  { eapply Permutation_NoDup; [apply Permutation_map, Permutation_sym|apply strict_sorted_nodup, Sscs].
    rewrite Eu, Ed. apply filter_split_perm. }
  assert (NoDup (map v_addr ups) /\ NoDup (map v_addr dels)) as [Nu Nd].
  { rewrite map_app in Nud. now apply nodup_app_inv in Nud. }
  assert (StronglySorted addr_slt ups) as Sups by (rewrite Eu; now apply filter_sorted).
  assert (StronglySorted addr_slt dels) as Sdels by (rewrite Ed; now apply filter_sorted).
  assert (forall d, In d dels -> get_by_addr (v_addr d) vals <> None) as Hfound'.
  { intros d Hd. rewrite Ed in Hd. apply filter_In in Hd. destruct Hd as [Hd Hz].
    apply Hfound; [eapply Permutation_in; [apply sort_by_perm|exact Hd]|]. now apply Z.eqb_eq. }
  assert (T + dsum vals ups - lsum vals dels <= max_total_voting_power) as Hcap'.
  { rewrite total_after_updates_dsum in Hcap. fold vals T in Hcap.
    assert (Permutation (filter (fun c => 0 <? v_power c) cs) ups) as PF.
    { rewrite Eu. etransitivity; [apply permutation_filter, Permutation_sym, (sort_by_perm addr_lt cs)|]. fold scs.
      erewrite filter_ext_in; [reflexivity|]. intros c Hc. specialize (Pscs c Hc). cbn beta.
      destruct (Z.ltb_spec 0 (v_power c)), (Z.eqb_spec (v_power c) 0); cbn; try reflexivity; lia. }
    assert (Permutation (filter (fun c => v_power c =? 0) cs) dels) as PD.
    { rewrite Ed. apply permutation_filter, Permutation_sym, (sort_by_perm addr_lt cs). }
    rewrite (dsum_perm vals _ _ PF), (lsum_perm vals _ _ PD) in Hcap. lia. }
  (* removals *)
  unfold verify_removals. destruct (removed_power dels vals 0) as [removed ok] eqn:RP.
  destruct ok; cbn [negb];
    [|exfalso; pose proof (removed_power_found dels vals 0 Hfound') as F; rewrite RP in F; discriminate F].
  pose proof (lsum_le_total vals dels Nd Ppv) as Ldel. fold T in Ldel.
  destruct (removed_power_exact vals dels 0 removed Ppv ltac:(lia) ltac:(i64) RP) as [Erem Found].
  assert (removed = lsum vals dels) as Erem' by lia. clear Erem. rename Erem' into Erem.
  pose proof (lsum_nonneg vals dels Ppv) as Lrem0.
  assert (forall d, In d dels -> In (v_addr d) (map v_addr vals)) as DelIn.
  { intros d Hd. specialize (Found d Hd). destruct (get_by_addr (v_addr d) vals) as [v|] eqn:G; [|congruence].
    apply get_by_addr_in in G. destruct G as [Hv <-]. now apply in_map. }
  assert ((length dels <= length vals)%nat) as LenD.
  { assert (incl (map v_addr dels) (map v_addr vals)) as I
        by (intros a Ha; apply in_map_iff in Ha; destruct Ha as (d & <- & Hd); now apply DelIn).
    pose proof (NoDup_incl_length Nd I) as LL. now rewrite !map_length in LL. }
  destruct (Nat.ltb_spec (length vals) (length dels)) as [LL|_]; [lia|].
  rewrite (wf_total_voting_power _ W). fold vals T.
  (* updates *)
  unfold verify_updates.
  set (sups := sort_by (fun a b => delta vals a <? delta vals b) ups) in *.
  assert (Permutation sups ups) as Psups by apply sort_by_perm.
  rewrite (wrap64_id (T - removed)) by i64.
  assert (forall u, In u sups -> 0 <= v_power u <= max_total_voting_power) as Psu.
  { intros u Hu. apply (Permutation_in _ Psups) in Hu. specialize (Pups u Hu). lia. }
  assert (lsum vals sups <= T - removed <= max_total_voting_power) as Hacc.
  { split; [|lia]. rewrite (lsum_perm vals _ _ Psups).
    pose proof (lsum_le_total vals (ups ++ dels) Nud Ppv) as L. rewrite lsum_app in L. fold T in L. lia. }
  destruct (add_deltas_some vals sups (T - removed) Pvals Psu Hacc) as (tvp' & AD).
  { apply (sort_key_sorted (delta vals)). }
  { rewrite (dsum_perm vals _ _ Psups). rewrite Erem. lia. }
  rewrite AD.
  pose proof (add_deltas_bounds vals sups _ _ Pvals Psu Hacc AD) as Btvp.
  pose proof (add_deltas_exact vals sups _ _ Pvals Psu Hacc AD) as Etvp.
  rewrite (dsum_perm vals _ _ Psups) in Etvp.
  rewrite (wrap64_id (tvp' + removed)) by i64.
  set (tvp := tvp' + removed) in *.
  destruct ((num_new ups vals =? 0)%nat && (length vals =? length dels)%nat) eqn:Hne.
  { exfalso. apply andb_true_iff in Hne. destruct Hne as [Hn Hl]. apply Nat.eqb_eq in Hn, Hl.
    destruct Hnonempty as [(c & Hc & Hp & Gc)|(v & Hv & NIv)].
    - assert (In c (filter (fun u => negb (has_addr (v_addr u) vals)) ups)) as Hf.
      { apply filter_In. split; [|unfold has_addr; now rewrite Gc].
        rewrite Eu. apply filter_In. split; [eapply Permutation_in; [apply Permutation_sym, sort_by_perm|exact Hc]|].
        destruct (Z.eqb_spec (v_power c) 0); [lia|reflexivity]. }
      unfold num_new in Hn. destruct (filter (fun u => negb (has_addr (v_addr u) vals)) ups); [destruct Hf|discriminate Hn].
    - assert (incl (v_addr v :: map v_addr dels) (map v_addr vals)) as I.
      { intros a [<-|Ha]; [now apply in_map|]. apply in_map_iff in Ha. destruct Ha as (d & <- & Hd). now apply DelIn. }
      assert (NoDup (v_addr v :: map v_addr dels)) as N1.
      { constructor; [|exact Nd]. intros Hin. apply NIv. rewrite Ed in Hin.
        apply in_map_iff in Hin. destruct Hin as (d & Ed' & Hd). apply filter_In in Hd. destruct Hd as [Hd Hz].
        apply in_map_iff. exists d. split; [exact Ed'|]. apply filter_In. split; [|exact Hz].
        eapply Permutation_in; [apply sort_by_perm|exact Hd]. }
      pose proof (NoDup_incl_length N1 I) as LL. cbn [length] in LL. rewrite !map_length in LL. lia. }
  (* merge and removal *)
  set (ups' := new_priorities ups vals tvp) in *.
  assert (map v_addr ups' = map v_addr ups /\ map v_power ups' = map v_power ups) as [Aup Pup].
  { unfold ups', new_priorities. rewrite !map_map. split; apply map_ext; intros u;
      destruct (get_by_addr (v_addr u) vals); reflexivity. }
  unfold apply_updates. set (svals := sort_by addr_lt vals) in *.
  assert (Permutation svals vals) as Psv by apply sort_by_perm.
  assert (NoDup (map v_addr svals)) as Nsv
      by (eapply Permutation_NoDup; [apply Permutation_map, Permutation_sym, Psv|exact Nv]).
  assert (StronglySorted addr_slt svals) as Ssv by (apply sorted_nodup_strict; [apply sort_addr_sorted|exact Nsv]).
  assert (StronglySorted addr_slt ups') as Sup'.
  { clear - Sups Aup. revert Aup. generalize ups'. induction Sups as [|u t St IH Fu]; intros [|u' t'] A; try discriminate; [constructor|].
    cbn [map] in A. inversion A as [[A1 A2]]. constructor; [now apply IH|].
    rewrite Forall_forall in *. intros x Hx.
    assert (In (v_addr x) (map v_addr t)) as Hin by (rewrite <- A2; now apply in_map).
    apply in_map_iff in Hin. destruct Hin as (y & Ey & Hy). specialize (Fu y Hy). unfold addr_slt in *. lia. }
  set (merged := merge_updates svals ups') in *.
  pose proof (merge_sorted svals ups' Ssv Sup') as Smerged. fold merged in Smerged.
  assert (forall d, In d dels -> In (v_addr d) (map v_addr merged)) as DelInM.
  { intros d Hd. apply merge_keeps_addr.
    eapply Permutation_in; [apply Permutation_map, Permutation_sym, Psv|now apply DelIn]. }
  destruct (removal_some merged dels Smerged Sdels DelInM) as (l2 & Happly). rewrite Happly.
  (* the recomputed total is the predicted one *)
  assert (total_power merged = T + dsum vals ups) as Tm.
  { unfold merged. rewrite (merge_total svals ups' Ssv Sup').
    rewrite (total_power_perm _ _ Psv). fold T. f_equal.
    rewrite (dsum_fields svals ups' ups Aup Pup). apply dsum_ext. intros u _.
    symmetry. apply look_perm; [exact Nv|now apply Permutation_sym]. }
  assert (lsum merged dels = removed) as Lm.
  { rewrite Erem. clear - Nud DelIn DelInM Smerged Psv Nv Aup.
    assert (forall d, In d dels -> look merged d = look vals d) as LK.
    { intros d Hd. unfold look.
      pose proof (DelInM d Hd) as Hm. apply in_map_iff in Hm. destruct Hm as (x & Ex & Hx).
      assert (get_by_addr (v_addr d) merged = Some x) as Gm
          by (apply get_some_iff; [now apply strict_sorted_nodup|split; assumption]).
      rewrite Gm.
      (* x is not an update (addresses of updates and removals are disjoint), so it is a member *)
      unfold merged in Hx. apply merge_in in Hx. destruct Hx as [Hx|Hx].
      - assert (get_by_addr (v_addr d) vals = Some x) as Gv.
        { apply get_some_iff; [exact Nv|]. split; [|exact Ex]. eapply Permutation_in; [exact Psv|exact Hx]. }
        now rewrite Gv.
      - exfalso. rewrite map_app in Nud.
        assert (In (v_addr d) (map v_addr ups)) as H1 by (rewrite <- Aup, <- Ex; now apply in_map).
        assert (In (v_addr d) (map v_addr dels)) as H2 by now apply in_map.
        clear - Nud H1 H2. induction (map v_addr ups) as [|a t IH]; [destruct H1|].
        cbn [app] in Nud. inversion Nud as [|? ? Na Nt]; subst.
        destruct H1 as [->|H1]; [apply Na, in_or_app; now right|now apply IH]. }
    clear - LK. induction dels as [|d t IH]; [reflexivity|]. cbn [lsum fold_right]. fold (lsum merged t) (lsum vals t).
    rewrite IH by (intros; apply LK; now right). now rewrite (LK d (or_introl eq_refl)). }
  pose proof (removal_total merged dels l2 Smerged Sdels Happly) as Tl2. rewrite Tm, Lm in Tl2.
  assert (total_power l2 = tvp') as Tl2' by lia.
  (* members of l2 have positive powers *)
  destruct (apply_removals_sub _ _ _ Happly (strict_sorted_nodup _ Smerged)) as [Nl2 Sub2].
  assert (forall v, In v l2 -> 0 < v_power v) as Pl2.
  { intros v Hv. apply Sub2 in Hv. unfold merged in Hv. apply merge_in in Hv. destruct Hv as [Hv|Hv].
    - apply Ppv. eapply Permutation_in; [exact Psv|exact Hv].
    - assert (In (v_power v) (map v_power ups')) as Hin by now apply in_map.
      rewrite Pup in Hin. apply in_map_iff in Hin. destruct Hin as (u & <- & Hu). now apply Pups. }
  unfold update_total. cbn [with_vals vs_vals].
  rewrite (sum_clip_exact l2 0 Pl2 ltac:(lia) ltac:(lia)). rewrite Z.add_0_l.
  (* not empty *)
  assert (l2 <> []) as NE2.
  { apply andb_false_iff in Hne. destruct Hne as [Hn|Hl].
    - (* a newcomer *)
      apply Nat.eqb_neq in Hn. unfold num_new in Hn.
      destruct (filter (fun u => negb (has_addr (v_addr u) vals)) ups) as [|u t] eqn:F; [cbn in Hn; lia|].
      assert (In u (u :: t)) as Hu by now left. rewrite <- F in Hu. apply filter_In in Hu. destruct Hu as [Hu Hn'].
      assert (In (v_addr u) (map v_addr ups')) as Ha by (rewrite Aup; now apply in_map).
      apply in_map_iff in Ha. destruct Ha as (u' & Eu' & Hu').
      assert (In u' l2) as Hl2.
      { eapply removal_keeps; [exact Happly|unfold merged; now apply merge_has_ups|].
        rewrite Eu'. intros Hd. rewrite map_app in Nud.
        assert (In (v_addr u) (map v_addr ups)) as H1 by now apply in_map.
        clear - Nud H1 Hd. induction (map v_addr ups) as [|a r IH]; [destruct H1|].
        cbn [app] in Nud. inversion Nud as [|? ? Na Nt]; subst.
        destruct H1 as [->|H1]; [apply Na, in_or_app; now right|now apply IH]. }
      intros ->. destruct Hl2.
    - apply Nat.eqb_neq in Hl.
      destruct (exists_not_in vals dels Nv ltac:(lia)) as (v & Hv & NI).
      assert (In (v_addr v) (map v_addr merged)) as Hm.
      { apply merge_keeps_addr. eapply Permutation_in; [apply Permutation_map, Permutation_sym, Psv|now apply in_map]. }
      apply in_map_iff in Hm. destruct Hm as (x & Ex & Hx).
      assert (In x l2) as Hl2 by (eapply removal_keeps; [exact Happly|exact Hx|now rewrite Ex]).
      intros ->. destruct Hl2. }
  destruct l2 as [|h2 t2] eqn:EL2; [congruence|]. rewrite <- EL2 in *.
  set (s1 := with_total (with_vals s l2) (total_power l2)).
  assert (wf_set s1) as Ws1.
  { split; cbn [s1 with_total with_vals vs_vals vs_total]; [|reflexivity].
    repeat split; [exact NE2|exact Nl2|exact Pl2|lia]. }
  rewrite (wf_total_voting_power _ Ws1). cbn [s1 with_total with_vals vs_vals].
  assert (bounded B0 l2) as Bl2.
  { intros v Hv. apply Sub2 in Hv. unfold merged in Hv. apply merge_in in Hv. destruct Hv as [Hv|Hv].
    - apply HB. eapply Permutation_in; [exact Psv|exact Hv].
    - unfold ups', new_priorities in Hv. apply in_map_iff in Hv. destruct Hv as (u & <- & Hu).
      destruct (get_by_addr (v_addr u) vals) as [v0|] eqn:G; cbn [set_prio v_prio].
      + apply HB. now apply get_by_addr_in in G.
      + assert (0 <= tvp <= 2 * max_total_voting_power) as Btvp2 by (unfold tvp; lia).
        assert (0 <= Z.shiftr tvp 3 /\ Z.shiftr tvp 3 * 8 <= tvp) as [S0 S8].
        { rewrite Z.shiftr_div_pow2 by lia. change (2 ^ 3) with 8.
          pose proof (Z.div_mod tvp 8 ltac:(lia)). pose proof (Z.mod_pos_bound tvp 8 ltac:(lia)). lia. }
        rewrite (wrap64_id (tvp + Z.shiftr tvp 3)) by i64. rewrite wrap64_id by i64. i64. }
  pose proof (wf_total_pos _ (proj1 Ws1)) as T2pos. cbn [s1 with_total with_vals vs_vals] in T2pos.
  destruct (model_renormalise l2 (total_power l2) NE2 ltac:(lia) Bl2) as (l3 & l4 & -> & -> & _).
  eexists. reflexivity.
Qed.
