(** C12 — tie of the model's arithmetic and guards to the Go SOURCE.
    [Generated/C12Source.v] is produced on every check by /verif/go2coq from /repo's working tree:
    the bodies of safeAdd/safeSub/safeAddClip/safeSubClip, the constants MaxTotalVotingPower and
    PriorityWindowSizeFactor, and every guard / integer expression (in the translator's subset) of
    ValidatorSet.IncrementProposerPriority, RescalePriorities, incrementProposerPriority,
    computeMaxMinPriorityDiff, updateTotalVotingPower, TotalVotingPower, processChanges,
    verifyUpdates, verifyRemovals, computeNewPriorities, numNewValidators, updateWithChangeSet,
    applyUpdates, Validator.CompareProposerPriority, ValidatorsByVotingPower.Less,
    ValidatorsByAddress.Less (types) and calculateValidatorSetUpdates / updateState (cstate), as
    Gallina over [Z] with explicit int64/uint64 wraps (Base/GoSem.v).

    The lemmas below state that the hand-written model of C12/Model.v computes exactly those
    expressions on exactly those operands: wherever possible as an equality between a definition of
    the model and the same function written with the SOURCE expressions ([.._src] below), otherwise
    guard by guard; the [_atoms] lists (the Go operands) are pinned by [reflexivity].  An edit of
    the Go source that changes a comparison, a constant, an operand or the text of one of these
    guards changes the generated file and re-opens these obligations. *)
From Coq Require Import List ZArith NArith Bool Lia String.
From Kardia Require Import Base.Int64 Base.ListX Base.GoSem.
From Kardia Require Import Generated.C12Source.
From Kardia Require Import Generated.C12Facts C12.Model.
Import ListNotations.
Local Open Scope Z_scope.

(* ------------------------------------------------------------------ *)
(** ** safe arithmetic: the model's literal transcriptions ARE the source functions (all operands) *)

Lemma src_safe_add a b : types__safeAdd a b = safe_add a b.
Proof. unfold types__safeAdd, safe_add, go_add, go_sub. rewrite !Z.gtb_ltb. reflexivity. Qed.
Lemma src_safe_sub a b : types__safeSub a b = safe_sub a b.
Proof. unfold types__safeSub, safe_sub, go_add, go_sub. rewrite !Z.gtb_ltb. reflexivity. Qed.
Lemma src_safe_add_clip a b : types__safeAddClip a b = safe_add_clip' a b.
Proof. unfold types__safeAddClip, safe_add_clip'. rewrite src_safe_add. reflexivity. Qed.
Lemma src_safe_sub_clip a b : types__safeSubClip a b = safe_sub_clip' a b.
Proof. unfold types__safeSubClip, safe_sub_clip'. rewrite src_safe_sub, Z.gtb_ltb. reflexivity. Qed.

(** the constants the facts translator prints are the ones the type checker evaluates *)
Lemma src_consts :
  types__MaxTotalVotingPower = max_total_voting_power /\ types__PriorityWindowSizeFactor = priority_window_size_factor.
Proof. split; reflexivity. Qed.

(* ------------------------------------------------------------------ *)
(** ** updateTotalVotingPower / TotalVotingPower *)

Fixpoint sum_clip_src (l : list validator) (sum : Z) : option Z :=
  match l with
  | [] => Some sum
  | v :: t =>
    let sum' := types__safeAddClip sum (v_power v) in
    if types__ValidatorSet_updateTotalVotingPower__if_sum_gt_MaxTotalVotingPower sum' then None else sum_clip_src t sum'
  end.
Lemma src_sum_clip l : forall s, sum_clip l s = sum_clip_src l s.
Proof.
  induction l as [|v t IH]; intros s; [reflexivity|]. cbn [sum_clip sum_clip_src].
  rewrite src_safe_add_clip. unfold types__ValidatorSet_updateTotalVotingPower__if_sum_gt_MaxTotalVotingPower.
  rewrite Z.gtb_ltb. change 1152921504606846975 with max_total_voting_power. rewrite IH. reflexivity.
Qed.
Lemma src_sum_clip_atoms :
  types__ValidatorSet_updateTotalVotingPower__if_sum_gt_MaxTotalVotingPower_atoms = ["sum : int64"]%string.
Proof. reflexivity. Qed.

(** the cache is recomputed exactly when it is 0 *)
Lemma src_total_cache s :
  total_voting_power s =
  if types__ValidatorSet_TotalVotingPower__if_vs_totalVotingPower_eq_0 (vs_total s)
  then match update_total s with None => None | Some s' => Some (s', vs_total s') end
  else Some (s, vs_total s).
Proof. reflexivity. Qed.
Lemma src_total_cache_atoms :
  types__ValidatorSet_TotalVotingPower__if_vs_totalVotingPower_eq_0_atoms = ["vs.totalVotingPower : int64"]%string.
Proof. reflexivity. Qed.

(* ------------------------------------------------------------------ *)
(** ** IncrementProposerPriority, RescalePriorities, computeMaxMinPriorityDiff, incrementProposerPriority *)

(** "times <= 0" panics: the model runs rounds exactly for a positive [times] *)
Lemma src_times_guard t :
  types__ValidatorSet_IncrementProposerPriority__if_times_le_0 t = match t with Zpos _ => false | _ => true end.
Proof. destruct t; reflexivity. Qed.
Lemma src_times_guard_atoms :
  types__ValidatorSet_IncrementProposerPriority__if_times_le_0_atoms = ["times : int64"]%string.
Proof. reflexivity. Qed.

(** diffMax = PriorityWindowSizeFactor * TotalVotingPower(), an int64 product *)
Lemma src_diff_max t :
  wrap64 (priority_window_size_factor * t) = types__ValidatorSet_IncrementProposerPriority__set_diffMax t.
Proof. reflexivity. Qed.
Lemma src_diff_max_atoms :
  types__ValidatorSet_IncrementProposerPriority__set_diffMax_atoms = ["vs.TotalVotingPower() : int64"]%string.
Proof. reflexivity. Qed.

(** RescalePriorities: the early return "diffMax <= 0" and the window test "diff > diffMax" *)
Lemma src_rescale l diff_max :
  rescale l diff_max =
  if types__ValidatorSet_RescalePriorities__if_diffMax_le_0 diff_max then Some l
  else
    let diff := max_min_diff l in
    let ratio := div64 (wrap64 (wrap64 (diff + diff_max) - 1)) diff_max in
    if types__ValidatorSet_RescalePriorities__if_diff_gt_diffMax diff diff_max then
      if ratio =? 0 then None
      else Some (map (fun v => set_prio v (div64 (v_prio v) ratio)) l)
    else Some l.
Proof.
  unfold rescale, types__ValidatorSet_RescalePriorities__if_diffMax_le_0, types__ValidatorSet_RescalePriorities__if_diff_gt_diffMax.
  rewrite Z.gtb_ltb. reflexivity.
Qed.
Lemma src_rescale_atoms :
  types__ValidatorSet_RescalePriorities__if_diffMax_le_0_atoms = ["diffMax : int64"]%string /\
  types__ValidatorSet_RescalePriorities__if_diff_gt_diffMax_atoms = ["diff : int64"; "diffMax : int64"]%string.
Proof. split; reflexivity. Qed.

(** computeMaxMinPriorityDiff: the two running comparisons, the int64 difference, its sign test
    and the negation "-1 * diff" *)
Fixpoint max_min_src (l : list validator) (mx mn : Z) : Z * Z :=
  match l with
  | [] => (mx, mn)
  | v :: t =>
    let mn' := if types__computeMaxMinPriorityDiff__if_v_ProposerPriority_lt_min (v_prio v) mn then v_prio v else mn in
    let mx' := if types__computeMaxMinPriorityDiff__if_v_ProposerPriority_gt_max (v_prio v) mx then v_prio v else mx in
    max_min_src t mx' mn'
  end.
Lemma src_max_min l : forall mx mn, max_min l mx mn = max_min_src l mx mn.
Proof.
  induction l as [|v t IH]; intros mx mn; [reflexivity|]. cbn [max_min max_min_src].
  unfold types__computeMaxMinPriorityDiff__if_v_ProposerPriority_lt_min, types__computeMaxMinPriorityDiff__if_v_ProposerPriority_gt_max.
  rewrite Z.gtb_ltb. apply IH.
Qed.
Lemma src_max_min_diff l :
  max_min_diff l =
  let '(mx, mn) := max_min_src l min_int64 max_int64 in
  let diff := types__computeMaxMinPriorityDiff__set_diff mx mn in
  if types__computeMaxMinPriorityDiff__if_diff_lt_0 diff then types__computeMaxMinPriorityDiff__ret_minus_1_mul_diff diff else diff.
Proof. unfold max_min_diff. rewrite src_max_min. reflexivity. Qed.
Lemma src_max_min_atoms :
  types__computeMaxMinPriorityDiff__if_v_ProposerPriority_lt_min_atoms = ["v.ProposerPriority : int64"; "min : int64"]%string /\
  types__computeMaxMinPriorityDiff__if_v_ProposerPriority_gt_max_atoms = ["v.ProposerPriority : int64"; "max : int64"]%string /\
  types__computeMaxMinPriorityDiff__set_diff_atoms = ["max : int64"; "min : int64"]%string /\
  types__computeMaxMinPriorityDiff__if_diff_lt_0_atoms = ["diff : int64"]%string /\
  types__computeMaxMinPriorityDiff__ret_minus_1_mul_diff_atoms = ["diff : int64"]%string.
Proof. repeat split; reflexivity. Qed.

(** one round: every priority advances by the validator's power (unchecked int64 addition), the
    winner pays the total through safeSubClip *)
Lemma src_increment_once s :
  increment_once s =
  let l1 := map (fun v => set_prio v (types__ValidatorSet_incrementProposerPriority__set_newPriority (v_prio v) (v_power v))) (vs_vals s) in
  match most_priority l1 with
  | None => None
  | Some (i, m) =>
    match total_voting_power (with_vals s l1) with
    | None => None
    | Some (s1, t) =>
      let m' := set_prio m (types__safeSubClip (v_prio m) t) in
      Some (with_vals s1 (set_nth i m' l1), m')
    end
  end.
Proof.
  unfold increment_once. cbn zeta.
  change (fun v => set_prio v (types__ValidatorSet_incrementProposerPriority__set_newPriority (v_prio v) (v_power v)))
    with (fun v => set_prio v (wrap64 (v_prio v + v_power v))).
  destruct (most_priority _) as [[i m]|]; [|reflexivity].
  destruct (total_voting_power _) as [[s1 t]|]; [|reflexivity].
  rewrite src_safe_sub_clip. reflexivity.
Qed.
Lemma src_increment_once_atoms :
  types__ValidatorSet_incrementProposerPriority__set_newPriority_atoms = ["val.ProposerPriority : int64"; "val.VotingPower : int64"]%string.
Proof. reflexivity. Qed.

(* ------------------------------------------------------------------ *)
(** ** Validator.CompareProposerPriority and the two sort orders *)

(** bytes.Compare on the 20-byte big-endian addresses, as the model reads them *)
Definition bytes_compare (a b : N) : Z :=
  match N.compare a b with Lt => -1 | Eq => 0 | Gt => 1 end.
Lemma bytes_compare_lt a b : (bytes_compare a b <? 0) = N.ltb a b.
Proof. unfold bytes_compare, N.ltb. destruct (N.compare a b); reflexivity. Qed.
Lemma bytes_compare_gt a b : (bytes_compare a b >? 0) = N.ltb b a.
Proof. unfold bytes_compare, N.ltb. rewrite (N.compare_antisym a b). destruct (N.compare a b); reflexivity. Qed.
Lemma bytes_compare_m1 a b : (bytes_compare a b =? -1) = N.ltb a b.
Proof. unfold bytes_compare, N.ltb. destruct (N.compare a b); reflexivity. Qed.

Lemma src_compare_prio v other :
  compare_prio v other =
  if types__Validator_CompareProposerPriority__case_v_ProposerPriority_gt_other_ProposerPriority (v_prio v) (v_prio other) then Some true
  else if types__Validator_CompareProposerPriority__case_v_ProposerPriority_lt_other_ProposerPriority (v_prio v) (v_prio other) then Some false
  else if types__Validator_CompareProposerPriority__case_result_lt_0 (bytes_compare (v_addr v) (v_addr other)) then Some true
  else if types__Validator_CompareProposerPriority__case_result_gt_0 (bytes_compare (v_addr v) (v_addr other)) then Some false
  else None.
Proof.
  unfold compare_prio, types__Validator_CompareProposerPriority__case_v_ProposerPriority_gt_other_ProposerPriority,
    types__Validator_CompareProposerPriority__case_v_ProposerPriority_lt_other_ProposerPriority,
    types__Validator_CompareProposerPriority__case_result_lt_0, types__Validator_CompareProposerPriority__case_result_gt_0.
  rewrite bytes_compare_lt, bytes_compare_gt, Z.gtb_ltb. reflexivity.
Qed.
Lemma src_compare_prio_atoms :
  types__Validator_CompareProposerPriority__case_v_ProposerPriority_gt_other_ProposerPriority_atoms = ["v.ProposerPriority : int64"; "other.ProposerPriority : int64"]%string /\
  types__Validator_CompareProposerPriority__case_v_ProposerPriority_lt_other_ProposerPriority_atoms = ["v.ProposerPriority : int64"; "other.ProposerPriority : int64"]%string /\
  types__Validator_CompareProposerPriority__case_result_lt_0_atoms = ["result : int"]%string /\
  types__Validator_CompareProposerPriority__case_result_gt_0_atoms = ["result : int"]%string.
Proof. repeat split; reflexivity. Qed.

(** ValidatorsByVotingPower.Less: power descending, address ascending on equal power *)
Lemma src_power_lt a b :
  power_lt a b =
  if types__ValidatorsByVotingPower_Less__if_valz_at_i__VotingPower_eq_valz_at_j__VotingPower (v_power a) (v_power b)
  then types__ValidatorsByVotingPower_Less__ret_bytes_Compare_valz_at_i__Address_Bytes_valz_at_j__Address_By_6fabe8cb (bytes_compare (v_addr a) (v_addr b))
  else types__ValidatorsByVotingPower_Less__ret_valz_at_i__VotingPower_gt_valz_at_j__VotingPower (v_power a) (v_power b).
Proof.
  unfold power_lt, types__ValidatorsByVotingPower_Less__if_valz_at_i__VotingPower_eq_valz_at_j__VotingPower,
    types__ValidatorsByVotingPower_Less__ret_bytes_Compare_valz_at_i__Address_Bytes_valz_at_j__Address_By_6fabe8cb,
    types__ValidatorsByVotingPower_Less__ret_valz_at_i__VotingPower_gt_valz_at_j__VotingPower.
  rewrite bytes_compare_m1, Z.gtb_ltb. reflexivity.
Qed.
Lemma src_power_lt_atoms :
  types__ValidatorsByVotingPower_Less__if_valz_at_i__VotingPower_eq_valz_at_j__VotingPower_atoms = ["valz[i].VotingPower : int64"; "valz[j].VotingPower : int64"]%string /\
  types__ValidatorsByVotingPower_Less__ret_valz_at_i__VotingPower_gt_valz_at_j__VotingPower_atoms = ["valz[i].VotingPower : int64"; "valz[j].VotingPower : int64"]%string.
Proof. split; reflexivity. Qed.

(** ValidatorsByAddress.Less *)
Lemma src_addr_lt a b :
  addr_lt a b = types__ValidatorsByAddress_Less__ret_bytes_Compare_vals_at_i__Address_Bytes_vals_at_j__Address_By_71373ed1 (bytes_compare (v_addr a) (v_addr b)).
Proof.
  unfold addr_lt, types__ValidatorsByAddress_Less__ret_bytes_Compare_vals_at_i__Address_Bytes_vals_at_j__Address_By_71373ed1.
  now rewrite bytes_compare_m1.
Qed.

(** applyUpdates: "existing[0] < updates[0]" keeps the existing validator *)
Lemma src_merge_guard e u :
  N.ltb (v_addr e) (v_addr u) =
  types__ValidatorSet_applyUpdates__if_bytes_Compare_existing_at_0__Address_Bytes_updates_at_0__Add_01f06aa7 (bytes_compare (v_addr e) (v_addr u)).
Proof.
  unfold types__ValidatorSet_applyUpdates__if_bytes_Compare_existing_at_0__Address_Bytes_updates_at_0__Add_01f06aa7.
  now rewrite bytes_compare_lt.
Qed.

(* ------------------------------------------------------------------ *)
(** ** processChanges: the per-entry checks, in the order of the source's switch *)

Fixpoint process_scan_src (prev : N) (chs : list validator) : scan_res :=
  match chs with
  | [] => ScanOk [] []
  | c :: t =>
    if N.eqb (v_addr c) prev then ScanErr UDup
    else if types__processChanges__case_valUpdate_VotingPower_lt_0 (v_power c) then ScanErr UNegative
    else if types__processChanges__case_valUpdate_VotingPower_gt_MaxTotalVotingPower (v_power c) then ScanErr UTooBig
    else match process_scan_src (v_addr c) t with
         | ScanErr e => ScanErr e
         | ScanOk ups rems =>
           if types__processChanges__case_valUpdate_VotingPower_eq_0 (v_power c) then ScanOk ups (c :: rems) else ScanOk (c :: ups) rems
         end
  end.
Lemma src_process_scan chs : forall prev, process_scan prev chs = process_scan_src prev chs.
Proof.
  induction chs as [|c t IH]; intros prev; [reflexivity|]. cbn [process_scan process_scan_src].
  unfold types__processChanges__case_valUpdate_VotingPower_lt_0, types__processChanges__case_valUpdate_VotingPower_gt_MaxTotalVotingPower,
    types__processChanges__case_valUpdate_VotingPower_eq_0.
  rewrite Z.gtb_ltb. change 1152921504606846975 with max_total_voting_power. rewrite IH. reflexivity.
Qed.
Lemma src_process_atoms :
  types__processChanges__case_valUpdate_VotingPower_lt_0_atoms = ["valUpdate.VotingPower : int64"]%string /\
  types__processChanges__case_valUpdate_VotingPower_gt_MaxTotalVotingPower_atoms = ["valUpdate.VotingPower : int64"]%string /\
  types__processChanges__case_valUpdate_VotingPower_eq_0_atoms = ["valUpdate.VotingPower : int64"]%string.
Proof. repeat split; reflexivity. Qed.

(* ------------------------------------------------------------------ *)
(** ** verifyRemovals *)

Fixpoint removed_power_src (dels vals : list validator) (acc : Z) : Z * bool :=
  match dels with
  | [] => (acc, true)
  | d :: t =>
    match get_by_addr (v_addr d) vals with
    | None => (acc, false)
    | Some v => removed_power_src t vals (types__verifyRemovals__set_removedVotingPower_op acc (v_power v))
    end
  end.
Lemma src_removed_power dels vals : forall acc, removed_power dels vals acc = removed_power_src dels vals acc.
Proof.
  induction dels as [|d t IH]; intros acc; [reflexivity|]. cbn [removed_power removed_power_src].
  destruct (get_by_addr (v_addr d) vals); [|reflexivity]. apply IH.
Qed.
Lemma src_more_deletes (vals dels : list validator) :
  Nat.ltb (List.length vals) (List.length dels) =
  types__verifyRemovals__if_len_deletes_gt_len_vs_Validators (Z.of_nat (List.length dels)) (Z.of_nat (List.length vals)).
Proof.
  unfold types__verifyRemovals__if_len_deletes_gt_len_vs_Validators. rewrite Z.gtb_ltb.
  destruct (Nat.ltb_spec (List.length vals) (List.length dels)); destruct (Z.ltb_spec (Z.of_nat (List.length vals)) (Z.of_nat (List.length dels))); try reflexivity; lia.
Qed.
Lemma src_removals_atoms :
  types__verifyRemovals__set_removedVotingPower_op_atoms = ["removedVotingPower : int64"; "val.VotingPower : int64"]%string /\
  types__verifyRemovals__if_len_deletes_gt_len_vs_Validators_atoms = ["len(deletes) : int"; "len(vs.Validators) : int"]%string.
Proof. split; reflexivity. Qed.

(* ------------------------------------------------------------------ *)
(** ** verifyUpdates: delta, the order of the additions, the running total and the cap test after
       every addition *)

Definition delta_src (vals : list validator) (u : validator) : Z :=
  match get_by_addr (v_addr u) vals with
  | Some v => types__verifyUpdates__ret_int64_update_VotingPower_minus_int64_val_VotingPower (v_power u) (v_power v)
  | None => v_power u
  end.
(** int64(x) - int64(y) on values that are int64 already (every power is) *)
Lemma src_delta_expr x y :
  in_range I64 x -> in_range I64 y ->
  types__verifyUpdates__ret_int64_update_VotingPower_minus_int64_val_VotingPower x y = wrap64 (x - y).
Proof.
  intros Hx Hy. unfold types__verifyUpdates__ret_int64_update_VotingPower_minus_int64_val_VotingPower, go_sub, go_conv.
  rewrite (wrap_id I64 x Hx), (wrap_id I64 y Hy). reflexivity.
Qed.
Lemma src_delta vals u :
  in_range I64 (v_power u) -> (forall v, In v vals -> in_range I64 (v_power v)) ->
  delta vals u = delta_src vals u.
Proof.
  intros Hu Hv. unfold delta, delta_src. destruct (get_by_addr (v_addr u) vals) as [v|] eqn:G; [|reflexivity].
  rewrite src_delta_expr; [reflexivity|exact Hu|]. apply Hv.
  clear - G. induction vals as [|h t IH]; [discriminate|]. cbn [get_by_addr] in G.
  destruct (N.eqb (v_addr u) (v_addr h)); [inversion G; now left|right; now apply IH].
Qed.

Fixpoint add_deltas_src (vals ups : list validator) (tvp : Z) : option Z :=
  match ups with
  | [] => Some tvp
  | u :: t =>
    let tvp' := types__verifyUpdates__set_tvpAfterRemovals_op tvp (delta vals u) in
    if types__verifyUpdates__if_tvpAfterRemovals_gt_MaxTotalVotingPower tvp' then None else add_deltas_src vals t tvp'
  end.
Lemma src_add_deltas vals ups : forall tvp, add_deltas vals ups tvp = add_deltas_src vals ups tvp.
Proof.
  induction ups as [|u t IH]; intros tvp; [reflexivity|]. cbn [add_deltas add_deltas_src].
  unfold types__verifyUpdates__if_tvpAfterRemovals_gt_MaxTotalVotingPower. rewrite Z.gtb_ltb.
  change 1152921504606846975 with max_total_voting_power.
  change (types__verifyUpdates__set_tvpAfterRemovals_op tvp (delta vals u)) with (wrap64 (tvp + delta vals u)).
  rewrite IH. reflexivity.
Qed.
Lemma src_verify_updates ups vals total removed :
  verify_updates ups vals total removed =
  let sorted := sort_by (fun a b => types__verifyUpdates__ret_delta_updatesCopy_at_i_vals_lt_delta_updatesCopy_at_j_vals (delta vals a) (delta vals b)) ups in
  match add_deltas_src vals sorted (types__verifyUpdates__set_tvpAfterRemovals total removed) with
  | None => None
  | Some tvp => Some (types__verifyUpdates__ret_tvpAfterRemovals_plus_removedPower tvp removed)
  end.
Proof. unfold verify_updates. rewrite src_add_deltas. reflexivity. Qed.
Lemma src_verify_updates_atoms :
  types__verifyUpdates__ret_int64_update_VotingPower_minus_int64_val_VotingPower_atoms = ["update.VotingPower : int64"; "val.VotingPower : int64"]%string /\
  types__verifyUpdates__ret_delta_updatesCopy_at_i_vals_lt_delta_updatesCopy_at_j_vals_atoms = ["delta(updatesCopy[i], vals) : int64"; "delta(updatesCopy[j], vals) : int64"]%string /\
  types__verifyUpdates__set_tvpAfterRemovals_atoms = ["vals.TotalVotingPower() : int64"; "removedPower : int64"]%string /\
  types__verifyUpdates__set_tvpAfterRemovals_op_atoms = ["tvpAfterRemovals : int64"; "delta(upd, vals) : int64"]%string /\
  types__verifyUpdates__if_tvpAfterRemovals_gt_MaxTotalVotingPower_atoms = ["tvpAfterRemovals : int64"]%string /\
  types__verifyUpdates__ret_tvpAfterRemovals_plus_removedPower_atoms = ["tvpAfterRemovals : int64"; "removedPower : int64"]%string.
Proof. repeat split; reflexivity. Qed.

(* ------------------------------------------------------------------ *)
(** ** computeNewPriorities: newcomers start at -(T + T>>3) *)

Lemma src_newcomer_priority tvp :
  in_range I64 tvp ->
  wrap64 (- wrap64 (tvp + Z.shiftr tvp 3)) = types__computeNewPriorities__set_proposerPriority tvp.
Proof.
  intros H. unfold types__computeNewPriorities__set_proposerPriority, go_neg, go_add, go_shr.
  rewrite Z.shiftr_div_pow2 by lia.
  rewrite (wrap_id I64 (tvp / 2 ^ 3)); [reflexivity|].
  unfold in_range in *. change (2 ^ 3) with 8.
  pose proof (Z.div_mod tvp 8 ltac:(lia)). pose proof (Z.mod_pos_bound tvp 8 ltac:(lia)). lia.
Qed.
Lemma src_new_priorities ups vals tvp :
  in_range I64 tvp ->
  new_priorities ups vals tvp =
  map (fun u => match get_by_addr (v_addr u) vals with
                | None => set_prio u (types__computeNewPriorities__set_proposerPriority tvp)
                | Some v => set_prio u (v_prio v)
                end) ups.
Proof. intros H. unfold new_priorities. rewrite (src_newcomer_priority tvp H). reflexivity. Qed.
Lemma src_newcomer_atoms :
  types__computeNewPriorities__set_proposerPriority_atoms = ["updatedTotalVotingPower : int64"]%string.
Proof. reflexivity. Qed.

(* ------------------------------------------------------------------ *)
(** ** numNewValidators and the guards of updateWithChangeSet *)

Lemma src_num_new ups vals :
  num_new ups vals = List.length (filter (fun u => types__numNewValidators__if_not_vals_HasAddress_valUpdate_Address (has_addr (v_addr u) vals)) ups).
Proof. reflexivity. Qed.
Lemma src_num_new_atoms :
  types__numNewValidators__if_not_vals_HasAddress_valUpdate_Address_atoms = ["vals.HasAddress(valUpdate.Address) : bool"]%string.
Proof. reflexivity. Qed.

Lemma nat_eqb_Z n m : Nat.eqb n m = (Z.of_nat n =? Z.of_nat m).
Proof. destruct (Nat.eqb_spec n m); destruct (Z.eqb_spec (Z.of_nat n) (Z.of_nat m)); try reflexivity; lia. Qed.

Lemma src_no_changes (changes : list validator) :
  types__ValidatorSet_updateWithChangeSet__if_len_changes_eq_0 (Z.of_nat (List.length changes)) =
  match changes with [] => true | _ => false end.
Proof. destruct changes; reflexivity. Qed.
Lemma src_deletes_guard allow (dels : list validator) :
  (negb allow && negb (Nat.eqb (List.length dels) 0))%bool =
  types__ValidatorSet_updateWithChangeSet__if_not_allowDeletes_and_len_deletes_ne_0 allow (Z.of_nat (List.length dels)).
Proof.
  unfold types__ValidatorSet_updateWithChangeSet__if_not_allowDeletes_and_len_deletes_ne_0, go_neqb.
  rewrite (nat_eqb_Z (List.length dels) 0). reflexivity.
Qed.
Lemma src_empty_guard (nn : nat) (vals dels : list validator) :
  (Nat.eqb nn 0 && Nat.eqb (List.length vals) (List.length dels))%bool =
  types__ValidatorSet_updateWithChangeSet__if_numNewValidators_updates_vs_eq_0_and_len_vs_Validators_eq_len_deletes
    (Z.of_nat nn) (Z.of_nat (List.length vals)) (Z.of_nat (List.length dels)).
Proof.
  unfold types__ValidatorSet_updateWithChangeSet__if_numNewValidators_updates_vs_eq_0_and_len_vs_Validators_eq_len_deletes.
  rewrite (nat_eqb_Z nn 0), (nat_eqb_Z (List.length vals) (List.length dels)). reflexivity.
Qed.
Lemma src_update_atoms :
  types__ValidatorSet_updateWithChangeSet__if_len_changes_eq_0_atoms = ["len(changes) : int"]%string /\
  types__ValidatorSet_updateWithChangeSet__if_not_allowDeletes_and_len_deletes_ne_0_atoms = ["allowDeletes : bool"; "len(deletes) : int"]%string /\
  types__ValidatorSet_updateWithChangeSet__if_numNewValidators_updates_vs_eq_0_and_len_vs_Validators_eq_len_deletes_atoms
    = ["numNewValidators(updates, vs) : int"; "len(vs.Validators) : int"; "len(deletes) : int"]%string.
Proof. repeat split; reflexivity. Qed.

(* ------------------------------------------------------------------ *)
(** ** kai/state/cstate/execution.go *)

(** calculateValidatorSetUpdates: an entry of the report goes into the change set iff
    "!found || oldPower != val.VotingPower", where (oldPower, found) is the two-valued map read
    last[val.Address] (0, false for a missing key) *)
Definition last_read (a : N) (last_vals : list validator) : Z * bool :=
  match get_by_addr a (rev last_vals) with Some o => (v_power o, true) | None => (0, false) end.
Lemma src_calculate_updates last_vals report :
  calculate_updates last_vals report =
  if kai_state_cstate__calculateValidatorSetUpdates__if_len_vals_eq_0 (Z.of_nat (List.length report)) then []
  else if has_dup report then report
  else
    filter (fun v => let '(oldPower, found) := last_read (v_addr v) last_vals in
                     kai_state_cstate__calculateValidatorSetUpdates__if_not_found_or_oldPower_ne_val_VotingPower found oldPower (v_power v)) report
    ++ map (fun a => {| v_addr := a; v_power := 0; v_prio := 0 |})
           (nodup N.eq_dec (filter (fun a => negb (has_addr a report)) (map v_addr last_vals))).
Proof.
  unfold calculate_updates. destruct report as [|r0 rt]; [reflexivity|].
  change (kai_state_cstate__calculateValidatorSetUpdates__if_len_vals_eq_0 (Z.of_nat (List.length (r0 :: rt)))) with false.
  cbv iota. destruct (has_dup (r0 :: rt)); [reflexivity|]. f_equal.
  apply filter_ext. intros v. unfold last_read.
  destruct (get_by_addr (v_addr v) (rev last_vals)); reflexivity.
Qed.
Lemma src_calculate_updates_atoms :
  kai_state_cstate__calculateValidatorSetUpdates__if_len_vals_eq_0_atoms = ["len(vals) : int"]%string /\
  kai_state_cstate__calculateValidatorSetUpdates__if_not_found_or_oldPower_ne_val_VotingPower_atoms
    = ["found : bool"; "oldPower : int64"; "val.VotingPower : int64"]%string.
Proof. split; reflexivity. Qed.

(** updateState: the change set is applied iff it is non-empty, and then the change is recorded
    for header.Height + 2 (uint64) *)
Lemma src_update_state_guard (ups : list validator) :
  kai_state_cstate__updateState__if_len_validatorUpdates_gt_0 (Z.of_nat (List.length ups)) =
  match ups with [] => false | _ => true end.
Proof. destruct ups; reflexivity. Qed.
Lemma src_update_state st height ups :
  update_state st height ups =
  match (if kai_state_cstate__updateState__if_len_validatorUpdates_gt_0 (Z.of_nat (List.length ups))
         then update_with_change_set (ch_next st) ups true
         else Some (ch_next st, UOk)) with
  | None => None
  | Some (n1, UOk) =>
    match increment n1 1 with
    | None => None
    | Some n2 =>
      Some ({| ch_last := ch_cur st; ch_cur := ch_next st; ch_next := n2; ch_height := height;
               ch_changed := if kai_state_cstate__updateState__if_len_validatorUpdates_gt_0 (Z.of_nat (List.length ups))
                             then kai_state_cstate__updateState__set_lastHeightValsChanged height
                             else ch_changed st |}, UOk)
    end
  | Some (_, e) => Some (st, e)
  end.
Proof. unfold update_state. rewrite src_update_state_guard. destruct ups; reflexivity. Qed.
Lemma src_update_state_atoms :
  kai_state_cstate__updateState__if_len_validatorUpdates_gt_0_atoms = ["len(validatorUpdates) : int"]%string /\
  kai_state_cstate__updateState__set_lastHeightValsChanged_atoms = ["header.Height : uint64"]%string.
Proof. split; reflexivity. Qed.

(* ------------------------------------------------------------------ *)
(** ** the whole tie, as one statement (quoted by Properties.v) *)

Definition C12_source_tie_statement : Prop :=
  (forall a b, types__safeAdd a b = safe_add a b) /\ (forall a b, types__safeSub a b = safe_sub a b) /\
  (forall a b, types__safeAddClip a b = safe_add_clip' a b) /\ (forall a b, types__safeSubClip a b = safe_sub_clip' a b) /\
  types__MaxTotalVotingPower = max_total_voting_power /\ types__PriorityWindowSizeFactor = priority_window_size_factor /\
  (forall l s, sum_clip l s = sum_clip_src l s) /\
  (forall t, types__ValidatorSet_IncrementProposerPriority__if_times_le_0 t = match t with Zpos _ => false | _ => true end) /\
  (forall t, wrap64 (priority_window_size_factor * t) = types__ValidatorSet_IncrementProposerPriority__set_diffMax t) /\
  (forall l dm, rescale l dm =
     if types__ValidatorSet_RescalePriorities__if_diffMax_le_0 dm then Some l
     else let diff := max_min_diff l in
          let ratio := div64 (wrap64 (wrap64 (diff + dm) - 1)) dm in
          if types__ValidatorSet_RescalePriorities__if_diff_gt_diffMax diff dm then
            if ratio =? 0 then None else Some (map (fun v => set_prio v (div64 (v_prio v) ratio)) l)
          else Some l) /\
  (forall l, max_min_diff l =
     let '(mx, mn) := max_min_src l min_int64 max_int64 in
     let diff := types__computeMaxMinPriorityDiff__set_diff mx mn in
     if types__computeMaxMinPriorityDiff__if_diff_lt_0 diff then types__computeMaxMinPriorityDiff__ret_minus_1_mul_diff diff else diff) /\
  (forall v, wrap64 (v_prio v + v_power v) = types__ValidatorSet_incrementProposerPriority__set_newPriority (v_prio v) (v_power v)) /\
  (forall v o, compare_prio v o =
     if types__Validator_CompareProposerPriority__case_v_ProposerPriority_gt_other_ProposerPriority (v_prio v) (v_prio o) then Some true
     else if types__Validator_CompareProposerPriority__case_v_ProposerPriority_lt_other_ProposerPriority (v_prio v) (v_prio o) then Some false
     else if types__Validator_CompareProposerPriority__case_result_lt_0 (bytes_compare (v_addr v) (v_addr o)) then Some true
     else if types__Validator_CompareProposerPriority__case_result_gt_0 (bytes_compare (v_addr v) (v_addr o)) then Some false
     else None) /\
  (forall a b, power_lt a b =
     if types__ValidatorsByVotingPower_Less__if_valz_at_i__VotingPower_eq_valz_at_j__VotingPower (v_power a) (v_power b)
     then types__ValidatorsByVotingPower_Less__ret_bytes_Compare_valz_at_i__Address_Bytes_valz_at_j__Address_By_6fabe8cb (bytes_compare (v_addr a) (v_addr b))
     else types__ValidatorsByVotingPower_Less__ret_valz_at_i__VotingPower_gt_valz_at_j__VotingPower (v_power a) (v_power b)) /\
  (forall chs prev, process_scan prev chs = process_scan_src prev chs) /\
  (forall dels vals acc, removed_power dels vals acc = removed_power_src dels vals acc) /\
  (forall vals u, in_range I64 (v_power u) -> (forall v, In v vals -> in_range I64 (v_power v)) -> delta vals u = delta_src vals u) /\
  (forall vals ups tvp, add_deltas vals ups tvp = add_deltas_src vals ups tvp) /\
  (forall ups vals total removed, verify_updates ups vals total removed =
     let sorted := sort_by (fun a b => types__verifyUpdates__ret_delta_updatesCopy_at_i_vals_lt_delta_updatesCopy_at_j_vals (delta vals a) (delta vals b)) ups in
     match add_deltas_src vals sorted (types__verifyUpdates__set_tvpAfterRemovals total removed) with
     | None => None
     | Some tvp => Some (types__verifyUpdates__ret_tvpAfterRemovals_plus_removedPower tvp removed)
     end) /\
  (forall tvp, in_range I64 tvp -> wrap64 (- wrap64 (tvp + Z.shiftr tvp 3)) = types__computeNewPriorities__set_proposerPriority tvp) /\
  (forall allow (dels : list validator), (negb allow && negb (Nat.eqb (List.length dels) 0))%bool =
     types__ValidatorSet_updateWithChangeSet__if_not_allowDeletes_and_len_deletes_ne_0 allow (Z.of_nat (List.length dels))) /\
  (forall nn (vals dels : list validator), (Nat.eqb nn 0 && Nat.eqb (List.length vals) (List.length dels))%bool =
     types__ValidatorSet_updateWithChangeSet__if_numNewValidators_updates_vs_eq_0_and_len_vs_Validators_eq_len_deletes
       (Z.of_nat nn) (Z.of_nat (List.length vals)) (Z.of_nat (List.length dels))) /\
  (forall last_vals report, calculate_updates last_vals report =
     if kai_state_cstate__calculateValidatorSetUpdates__if_len_vals_eq_0 (Z.of_nat (List.length report)) then []
     else if has_dup report then report
     else filter (fun v => let '(oldPower, found) := last_read (v_addr v) last_vals in
                           kai_state_cstate__calculateValidatorSetUpdates__if_not_found_or_oldPower_ne_val_VotingPower found oldPower (v_power v)) report
          ++ map (fun a => {| v_addr := a; v_power := 0; v_prio := 0 |})
                 (nodup N.eq_dec (filter (fun a => negb (has_addr a report)) (map v_addr last_vals)))) /\
  (forall height, wrapu64 (height + 2) = kai_state_cstate__updateState__set_lastHeightValsChanged height) /\
  (forall (ups : list validator), kai_state_cstate__updateState__if_len_validatorUpdates_gt_0 (Z.of_nat (List.length ups)) =
     match ups with [] => false | _ => true end) /\
  (types__ValidatorSet_RescalePriorities__if_diff_gt_diffMax_atoms = ["diff : int64"; "diffMax : int64"]%string /\
   types__ValidatorSet_updateTotalVotingPower__if_sum_gt_MaxTotalVotingPower_atoms = ["sum : int64"]%string /\
   types__processChanges__case_valUpdate_VotingPower_gt_MaxTotalVotingPower_atoms = ["valUpdate.VotingPower : int64"]%string /\
   types__verifyUpdates__if_tvpAfterRemovals_gt_MaxTotalVotingPower_atoms = ["tvpAfterRemovals : int64"]%string /\
   types__verifyUpdates__set_tvpAfterRemovals_op_atoms = ["tvpAfterRemovals : int64"; "delta(upd, vals) : int64"]%string /\
   types__computeNewPriorities__set_proposerPriority_atoms = ["updatedTotalVotingPower : int64"]%string /\
   kai_state_cstate__calculateValidatorSetUpdates__if_not_found_or_oldPower_ne_val_VotingPower_atoms
     = ["found : bool"; "oldPower : int64"; "val.VotingPower : int64"]%string /\
   kai_state_cstate__updateState__set_lastHeightValsChanged_atoms = ["header.Height : uint64"]%string).

Lemma C12_source_tie_proof : C12_source_tie_statement.
Proof.
  unfold C12_source_tie_statement.
  split; [exact src_safe_add|]. split; [exact src_safe_sub|]. split; [exact src_safe_add_clip|].
  split; [exact src_safe_sub_clip|]. split; [reflexivity|]. split; [reflexivity|].
  split; [exact src_sum_clip|]. split; [exact src_times_guard|]. split; [exact src_diff_max|].
  split; [exact src_rescale|]. split; [exact src_max_min_diff|]. split; [reflexivity|].
  split; [exact src_compare_prio|]. split; [exact src_power_lt|]. split; [exact src_process_scan|].
  split; [exact src_removed_power|]. split; [exact src_delta|]. split; [exact src_add_deltas|].
  split; [exact src_verify_updates|]. split; [exact src_newcomer_priority|]. split; [exact src_deletes_guard|].
  split; [exact src_empty_guard|]. split; [exact src_calculate_updates|]. split; [reflexivity|].
  split; [exact src_update_state_guard|]. repeat split; reflexivity.
Qed.
