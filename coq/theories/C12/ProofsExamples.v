(** C12 — non-vacuity: the hypotheses of the theorems are satisfiable and the model computes
    what the implementation printed on the same inputs. *)
From Coq Require Import List ZArith NArith Bool Lia Permutation.
From Kardia Require Import Base.Int64 C12.Model C12.Spec C12.ProofsSort C12.ProofsUpdate C12.ProofsRefine
     C12.ProofsUpdate2 Generated.C12Facts.
Import ListNotations.
Local Open Scope Z_scope.

Definition mkv (a : N) (p : Z) : validator := {| v_addr := a; v_power := p; v_prio := 0 |}.
Definition ex_vals : list validator := [mkv 1 10; mkv 2 5; mkv 3 1].
Definition ex_set : vset :=
  {| vs_vals := [ {| v_addr := 1; v_power := 10; v_prio := -6 |};
                  {| v_addr := 2; v_power := 5; v_prio := 5 |};
                  {| v_addr := 3; v_power := 1; v_prio := 1 |} ];
     vs_proposer := Some (1%N, 10); vs_total := 16 |}.

(** NewValidatorSet on three validators: the state the Go code prints *)
Example ex_new : new_validator_set ex_vals = Some ex_set.
Proof. vm_compute. reflexivity. Qed.

Example ex_good : good ex_set.
Proof.
  destruct (new_validator_set_good ex_vals ex_set ltac:(discriminate) ex_new) as (W & B & _).
  split; assumption.
Qed.

(** the side condition of the no-overflow theorem holds for 2^16 rounds on this set *)
Example ex_hop_ok : hop_ok ex_set (HInc 65536).
Proof. vm_compute. discriminate. Qed.

(** the witness of the defect repaired by eb47a62: {A:1000, B:1}, then A := 1.  With the
    repaired computeMaxMinPriorityDiff the update rescales: spread 2 <= 2*T = 4 *)
Definition ex_skew : list validator := [mkv 1 1000; mkv 2 1].
Example ex_collapse :
  exists s s', new_validator_set ex_skew = Some s /\
    update_with_change_set s [mkv 1 1] true = Some (s', UOk) /\
    map v_prio (vs_vals s') = [-1; 1] /\ vs_total s' = 2.
Proof. eexists. eexists. split; [vm_compute; reflexivity|]. vm_compute. repeat split. Qed.

(** rejections, each leaving the set as it was *)
Example ex_reject_dup : update_with_change_set ex_set [mkv 4 3; mkv 4 5] true = Some (ex_set, UDup).
Proof. vm_compute. reflexivity. Qed.
Example ex_reject_neg : update_with_change_set ex_set [mkv 4 (-3)] true = Some (ex_set, UNegative).
Proof. vm_compute. reflexivity. Qed.
Example ex_reject_unknown : update_with_change_set ex_set [mkv 9 0] true = Some (ex_set, UUnknown).
Proof. vm_compute. reflexivity. Qed.
Example ex_reject_empty : update_with_change_set ex_set [mkv 1 0; mkv 2 0; mkv 3 0] true = Some (ex_set, UEmpty).
Proof. vm_compute. reflexivity. Qed.
Example ex_reject_cap :
  update_with_change_set ex_set [mkv 4 (max_total_voting_power - 15)] true = Some (ex_set, UOverflow).
Proof. vm_compute. reflexivity. Qed.
Example ex_accept_cap_exact :
  exists s', update_with_change_set ex_set [mkv 4 (max_total_voting_power - 16)] true = Some (s', UOk) /\
             vs_total s' = max_total_voting_power.
Proof. eexists. vm_compute. split; reflexivity. Qed.

(** order independence on a mixed change set (removal, power change, two newcomers) *)
Example ex_perm :
  update_with_change_set ex_set [mkv 3 0; mkv 2 7; mkv 5 4; mkv 4 2] true =
  update_with_change_set ex_set [mkv 4 2; mkv 5 4; mkv 2 7; mkv 3 0] true /\
  exists s', update_with_change_set ex_set [mkv 3 0; mkv 2 7; mkv 5 4; mkv 4 2] true = Some (s', UOk).
Proof. split; [vm_compute; reflexivity|]. eexists. vm_compute. reflexivity. Qed.

(** the zero address is reported as a duplicate (quirk of processChanges: prevAddr starts as
    the zero address) *)
Example ex_zero_address : update_with_change_set ex_set [mkv 0 3] true = Some (ex_set, UDup).
Proof. vm_compute. reflexivity. Qed.

(** after an update GetProposer still answers with the previous proposer, even if that
    validator has just been removed (vs.Proposer is only refreshed by the next increment) *)
Example ex_stale_proposer :
  exists s', update_with_change_set ex_set [mkv 1 0] true = Some (s', UOk) /\
             map v_addr (vs_vals s') = [2%N; 3%N] /\
             get_proposer s' = Some (s', Some (1%N, 10)).
Proof. eexists. vm_compute. repeat split. Qed.
