(** C12 — the int64 model of IncrementProposerPriority computes exactly what the
    specification (unbounded integers) prescribes, as long as the priorities are within
    B0 = 3 * 2^60 at the start of the call and (times + 2) * T <= B0; the result is again
    within that bound.  Hence no wrapped operation differs from the exact one. *)
From Coq Require Import List ZArith NArith Bool Lia Permutation PeanoNat.
From Kardia Require Import Base.Int64 Base.ListX C12.Model C12.Spec C12.ProofsSort C12.ProofsUpdate C12.ProofsSpec
     Generated.C12Facts.
Import ListNotations.
Local Open Scope Z_scope.

Definition B0 : Z := 3458764513820540928.   (* 3 * 2^60 *)

Lemma facts_fit :
  max_total_voting_power = Z.quot max_int64 8 /\ priority_window_size_factor = 2 /\
  go_max_int64 = max_int64 /\ go_min_int64 = min_int64 /\ B0 = 3 * 2 ^ 60 /\
  2 * B0 + 2 * max_total_voting_power <= max_int64.
Proof. vm_compute. repeat split; congruence. Qed.

Definition bounded (B : Z) (l : list validator) : Prop := forall v, In v l -> - B <= v_prio v <= B.

Definition wf_vals (l : list validator) : Prop :=
  l <> [] /\ NoDup (map v_addr l) /\ (forall v, In v l -> 0 < v_power v) /\
  total_power l <= max_total_voting_power.
Definition wf_set (s : vset) : Prop := wf_vals (vs_vals s) /\ vs_total s = total_power (vs_vals s).

Ltac i64 := unfold in_int64, min_int64, max_int64, two63, B0, max_total_voting_power in *; lia.

(* ------------------------------------------------------------------ *)
(** * the literal safe arithmetic is clipping of the exact result *)

Lemma safe_sub_clip'_exact a b :
  in_int64 a -> in_int64 b -> in_int64 (a - b) -> safe_sub_clip' a b = a - b.
Proof.
  intros Ha Hb Hc. unfold safe_sub_clip', safe_sub.
  destruct (Z.ltb_spec 0 b) as [B1|B1]; cbn [andb].
  - rewrite (wrap64_id (min_int64 + b)) by i64.
    destruct (Z.ltb_spec a (min_int64 + b)) as [L|L]; [i64|].
    destruct (Z.ltb_spec b 0) as [B2|B2]; [lia|]. cbn [andb]. apply wrap64_id, Hc.
  - destruct (Z.ltb_spec b 0) as [B2|B2]; cbn [andb].
    + rewrite (wrap64_id (max_int64 + b)) by i64.
      destruct (Z.ltb_spec (max_int64 + b) a) as [L|L]; [i64|]. apply wrap64_id, Hc.
    + apply wrap64_id, Hc.
Qed.

Lemma safe_add_clip'_exact a b :
  in_int64 a -> in_int64 b -> in_int64 (a + b) -> safe_add_clip' a b = a + b.
Proof.
  intros Ha Hb Hc. unfold safe_add_clip', safe_add.
  destruct (Z.ltb_spec 0 b) as [B1|B1]; cbn [andb].
  - rewrite (wrap64_id (max_int64 - b)) by i64.
    destruct (Z.ltb_spec (max_int64 - b) a) as [L|L]; [i64|].
    destruct (Z.ltb_spec b 0) as [B2|B2]; [lia|]. cbn [andb]. apply wrap64_id, Hc.
  - destruct (Z.ltb_spec b 0) as [B2|B2]; cbn [andb].
    + rewrite (wrap64_id (min_int64 - b)) by i64.
      destruct (Z.ltb_spec a (min_int64 - b)) as [L|L]; [i64|]. apply wrap64_id, Hc.
    + apply wrap64_id, Hc.
Qed.

(** in general: the clip of the exact result (the definition in Base/Int64.v) *)
Lemma safe_sub_clip'_clip a b : in_int64 a -> in_int64 b -> safe_sub_clip' a b = safe_sub_clip a b.
Proof.
  intros Ha Hb. unfold safe_sub_clip', safe_sub, safe_sub_clip.
  destruct (Z.ltb_spec 0 b) as [B1|B1]; cbn [andb].
  - rewrite (wrap64_id (min_int64 + b)) by i64.
    destruct (Z.ltb_spec a (min_int64 + b)) as [L|L].
    + destruct (Z.ltb_spec max_int64 (a - b)); [i64|]. destruct (Z.ltb_spec (a - b) min_int64); [reflexivity|i64].
    + destruct (Z.ltb_spec b 0) as [B2|B2]; [lia|]. cbn [andb].
      destruct (Z.ltb_spec max_int64 (a - b)); [i64|]. destruct (Z.ltb_spec (a - b) min_int64); [i64|].
      apply wrap64_id. i64.
  - destruct (Z.ltb_spec b 0) as [B2|B2]; cbn [andb].
    + rewrite (wrap64_id (max_int64 + b)) by i64.
      destruct (Z.ltb_spec (max_int64 + b) a) as [L|L].
      * destruct (Z.ltb_spec 0 b); [lia|]. destruct (Z.ltb_spec max_int64 (a - b)); [reflexivity|i64].
      * destruct (Z.ltb_spec max_int64 (a - b)); [i64|]. destruct (Z.ltb_spec (a - b) min_int64); [i64|].
        apply wrap64_id. i64.
    + assert (b = 0) by lia. subst b.
      destruct (Z.ltb_spec max_int64 (a - 0)); [i64|]. destruct (Z.ltb_spec (a - 0) min_int64); [i64|].
      apply wrap64_id. i64.
Qed.

(* ------------------------------------------------------------------ *)
(** * totals *)

Lemma sum_clip_exact l : forall acc,
  (forall v, In v l -> 0 < v_power v) -> 0 <= acc -> acc + total_power l <= max_total_voting_power ->
  sum_clip l acc = Some (acc + total_power l).
Proof.
  induction l as [|h t IH]; intros acc Pp A0 Hc; cbn [sum_clip total_power fold_right] in *.
  - f_equal. lia.
  - fold (total_power t) in *.
    pose proof (Pp h (or_introl eq_refl)) as Ph.
    pose proof (total_power_nonneg t (fun v Hv => Pp v (or_intror Hv))) as T0.
    rewrite safe_add_clip'_exact by i64.
    destruct (Z.ltb_spec max_total_voting_power (acc + v_power h)) as [L|L]; [lia|].
    rewrite IH; [f_equal; lia|intros; apply Pp; now right|lia|lia].
Qed.

Lemma wf_total_pos l : wf_vals l -> 0 < total_power l.
Proof.
  intros (NE & _ & Pp & _). destruct l as [|h t]; [congruence|].
  cbn [total_power fold_right]. fold (total_power t).
  pose proof (total_power_nonneg t (fun v Hv => Pp v (or_intror Hv))).
  specialize (Pp h (or_introl eq_refl)). lia.
Qed.

Lemma wf_total_voting_power s : wf_set s -> total_voting_power s = Some (s, total_power (vs_vals s)).
Proof.
  intros [W E]. pose proof (wf_total_pos _ W). unfold total_voting_power.
  destruct (Z.eqb_spec (vs_total s) 0); [lia|]. now rewrite E.
Qed.

(* ------------------------------------------------------------------ *)
(** * computeMaxMinPriorityDiff *)

Lemma max_min_spec l : forall mx0 mn0 mx mn, max_min l mx0 mn0 = (mx, mn) ->
  (mx0 <= mx /\ (forall v, In v l -> v_prio v <= mx) /\ (mx = mx0 \/ exists v, In v l /\ v_prio v = mx)) /\
  (mn <= mn0 /\ (forall v, In v l -> mn <= v_prio v) /\ (mn = mn0 \/ exists v, In v l /\ v_prio v = mn)).
Proof.
  induction l as [|h t IH]; intros mx0 mn0 mx mn H; cbn [max_min] in H.
  - inversion H; subst. repeat split; try lia; try (intros v []); now left.
  - apply IH in H. destruct H as ((A1 & A2 & A3) & (B1 & B2 & B3)).
    destruct (Z.ltb_spec (v_prio h) mn0) as [Ln|Ln]; destruct (Z.ltb_spec mx0 (v_prio h)) as [Lx|Lx].
    all: split; [split; [lia|split]|split; [lia|split]].
    all: try (intros v [<-|Hv]; [lia|auto]).
    all: try (destruct A3 as [->|(v & Hv & E)]; [first [now left|right; exists h; split; [now left|reflexivity]]|right; exists v; split; [now right|exact E]]).
    all: try (destruct B3 as [->|(v & Hv & E)]; [first [now left|right; exists h; split; [now left|reflexivity]]|right; exists v; split; [now right|exact E]]).
Qed.

Lemma max_min_is l mx mn :
  l <> [] -> (forall v, In v l -> in_int64 (v_prio v)) ->
  max_min l min_int64 max_int64 = (mx, mn) -> is_max l mx /\ is_min l mn.
Proof.
  intros NE R H. apply max_min_spec in H. destruct H as ((A1 & A2 & A3) & (B1 & B2 & B3)).
  destruct l as [|h t]; [congruence|].
  pose proof (R h (or_introl eq_refl)) as Rh.
  split; split; try assumption.
  - destruct A3 as [->|?]; [|assumption]. exists h. split; [now left|].
    specialize (A2 h (or_introl eq_refl)). i64.
  - destruct B3 as [->|?]; [|assumption]. exists h. split; [now left|].
    specialize (B2 h (or_introl eq_refl)). i64.
Qed.

(* ------------------------------------------------------------------ *)
(** * RescalePriorities refines the specification's window step *)

Lemma is_max_min_bounded B l mx mn : bounded B l -> is_max l mx -> is_min l mn ->
  - B <= mx <= B /\ - B <= mn <= B /\ mn <= mx.
Proof.
  intros HB [(v & Hv & <-) Mx] [(w & Hw & <-) Mn].
  pose proof (HB v Hv). pose proof (HB w Hw). specialize (Mx w Hw). lia.
Qed.

Lemma quot_abs_le p r : 1 <= r -> - Z.abs p <= Z.quot p r <= Z.abs p.
Proof.
  intros Hr. pose proof (Z.quot_rem' p r) as E.
  destruct (Z.le_gt_cases 0 p) as [P|P].
  - pose proof (Z.quot_pos p r P ltac:(lia)). pose proof (Z.rem_bound_pos p r P ltac:(lia)).
    assert (r * Z.quot p r >= 1 * Z.quot p r) by (apply Z.le_ge, Z.mul_le_mono_nonneg_r; lia). lia.
  - pose proof (Z.rem_bound_pos_neg p r ltac:(lia) ltac:(lia)).
    assert (Z.quot p r <= 0).
    { destruct (Z.le_gt_cases (Z.quot p r) 0); [assumption|].
      assert (r * 1 <= r * Z.quot p r) by (apply Z.mul_le_mono_nonneg_l; lia). lia. }
    assert (r * Z.quot p r <= 1 * Z.quot p r) by (apply Z.mul_le_mono_nonpos_r; lia). lia.
Qed.

Lemma rescale_refines l T :
  l <> [] -> 0 < T <= max_total_voting_power -> bounded B0 l ->
  exists l1, rescale l (wrap64 (priority_window_size_factor * T)) = Some l1 /\
             spec_rescale T l l1 /\ bounded B0 l1.
Proof.
  intros NE HT HB. unfold priority_window_size_factor.
  rewrite (wrap64_id (2 * T)) by i64.
  unfold rescale. destruct (Z.leb_spec (2 * T) 0) as [L0|L0]; [lia|].
  unfold max_min_diff. destruct (max_min l min_int64 max_int64) as [mx mn] eqn:MM.
  destruct (max_min_is l mx mn NE) as [IMx IMn]; [intros v Hv; specialize (HB v Hv); i64|exact MM|].
  destruct (is_max_min_bounded _ _ _ _ HB IMx IMn) as (Bx & Bn & Lnx).
  rewrite (wrap64_id (mx - mn)) by i64.
  destruct (Z.ltb_spec (mx - mn) 0) as [Ld|Ld]; [lia|].
  rewrite (wrap64_id (mx - mn + 2 * T)) by i64.
  rewrite (wrap64_id (mx - mn + 2 * T - 1)) by i64.
  unfold div64. rewrite Z.quot_div_nonneg by lia.
  set (r := (mx - mn + 2 * T - 1) / (2 * T)).
  destruct (Z.ltb_spec (2 * T) (mx - mn)) as [Lw|Lw].
  - destruct (ceil_div_bounds (mx - mn) (2 * T) ltac:(lia) Lw) as [R2 RW]. fold r in R2, RW.
    assert (r <= mx - mn + 2 * T - 1) as Rle.
    { unfold r. apply Z.div_le_upper_bound; [lia|].
      assert (1 * (mx - mn + 2 * T - 1) <= 2 * T * (mx - mn + 2 * T - 1)) by (apply Z.mul_le_mono_nonneg_r; lia). lia. }
    rewrite (wrap64_id r) by i64.
    destruct (Z.eqb_spec r 0) as [|_]; [lia|].
    eexists. split; [reflexivity|]. split.
    + exists mx, mn. split; [exact IMx|]. split; [exact IMn|]. cbn zeta.
      destruct (Z.ltb_spec (2 * T) (mx - mn)); [|lia]. fold r.
      apply map_ext_in. intros v Hv. f_equal. apply wrap64_id.
      pose proof (quot_abs_le (v_prio v) r ltac:(lia)). specialize (HB v Hv). i64.
    + intros v' Hv'. apply in_map_iff in Hv'. destruct Hv' as (v & <- & Hv). cbn [set_prio v_prio].
      pose proof (quot_abs_le (v_prio v) r ltac:(lia)). specialize (HB v Hv).
      rewrite wrap64_id by i64. lia.
  - eexists. split; [reflexivity|]. split; [|exact HB].
    exists mx, mn. split; [exact IMx|]. split; [exact IMn|]. cbn zeta.
    destruct (Z.ltb_spec (2 * T) (mx - mn)); [lia|reflexivity].
Qed.

(* ------------------------------------------------------------------ *)
(** * shiftByAvgProposerPriority refines the centring step *)

Lemma sum_prio_eq l : sum_prio l = sum_priorities l.
Proof. reflexivity. Qed.

Lemma shift_refines l :
  l <> [] -> bounded B0 l ->
  exists l2, shift_by_avg l = Some l2 /\ spec_centre l l2.
Proof.
  intros NE HB. unfold shift_by_avg, avg_prio. rewrite sum_prio_eq.
  assert (0 < Z.of_nat (length l)) as Hn by (destruct l; [congruence|cbn [length]; lia]).
  pose proof (sum_le_max l B0 (fun v Hv => proj2 (HB v Hv))) as U.
  pose proof (sum_ge_min l (- B0) (fun v Hv => proj1 (HB v Hv))) as L.
  set (n := Z.of_nat (length l)) in *. set (S := sum_priorities l) in *.
  assert (- B0 <= S / n <= B0) as A.
  { split.
    - apply Z.div_le_lower_bound; lia.
    - apply Z.div_le_upper_bound; lia. }
  destruct (Z.leb_spec min_int64 (S / n)) as [A1|A1]; [|i64].
  destruct (Z.leb_spec (S / n) max_int64) as [A2|A2]; [|i64]. cbn [andb].
  eexists. split; [reflexivity|]. unfold spec_centre. fold n S.
  apply map_ext_in. intros v Hv. f_equal. specialize (HB v Hv).
  apply safe_sub_clip'_exact; i64.
Qed.

(* ------------------------------------------------------------------ *)
(** * getValWithMostPriority picks the specification's proposer *)

Lemma beats_trans a b c : beats a b -> beats b c -> beats a c.
Proof. unfold beats. intros [H1|[H1 H1']] [H2|[H2 H2']]; [left; lia|left; lia|left; lia|right; split; lia]. Qed.

Lemma compare_prio_true a b : compare_prio a b = Some true -> beats a b.
Proof.
  unfold compare_prio, beats. destruct (Z.ltb_spec (v_prio b) (v_prio a)); [auto|].
  destruct (Z.ltb_spec (v_prio a) (v_prio b)); [discriminate|].
  destruct (N.ltb_spec (v_addr a) (v_addr b)); [intros _; right; split; lia|].
  destruct (N.ltb (v_addr b) (v_addr a)); discriminate.
Qed.

Lemma compare_prio_false a b : compare_prio a b = Some false -> beats b a.
Proof.
  unfold compare_prio, beats. destruct (Z.ltb_spec (v_prio b) (v_prio a)); [discriminate|].
  destruct (Z.ltb_spec (v_prio a) (v_prio b)); [auto|].
  destruct (N.ltb_spec (v_addr a) (v_addr b)); [discriminate|].
  destruct (N.ltb_spec (v_addr b) (v_addr a)); [intros _; right; split; lia|discriminate].
Qed.

Lemma compare_prio_some a b : v_addr a <> v_addr b -> compare_prio a b <> None.
Proof.
  intros D. unfold compare_prio. destruct (v_prio b <? v_prio a); [discriminate|].
  destruct (v_prio a <? v_prio b); [discriminate|].
  destruct (N.ltb_spec (v_addr a) (v_addr b)); [discriminate|].
  destruct (N.ltb_spec (v_addr b) (v_addr a)); [discriminate|]. lia.
Qed.

Lemma nodup_addr_eq l a b : NoDup (map v_addr l) -> In a l -> In b l -> v_addr a = v_addr b -> a = b.
Proof.
  induction l as [|h t IH]; intros N Ha Hb E; [destruct Ha|].
  cbn [map] in N. inversion N as [|? ? Nh Nt]; subst.
  destruct Ha as [->|Ha], Hb as [->|Hb]; try reflexivity.
  - exfalso. apply Nh. rewrite E. now apply in_map.
  - exfalso. apply Nh. rewrite <- E. now apply in_map.
  - now apply IH.
Qed.

Lemma most_from_spec l : forall pre res,
  NoDup (map v_addr (pre ++ l)) ->
  nth_error (pre ++ l) (fst res) = Some (snd res) -> In (snd res) pre ->
  (forall w, In w pre -> v_addr w <> v_addr (snd res) -> beats (snd res) w) ->
  exists r, most_from res (length pre) l = Some r /\
            nth_error (pre ++ l) (fst r) = Some (snd r) /\
            (forall w, In w (pre ++ l) -> v_addr w <> v_addr (snd r) -> beats (snd r) w).
Proof.
  induction l as [|v t IH]; intros pre res N Hn Hin Hb; cbn [most_from].
  - exists res. rewrite app_nil_r in *. auto.
  - assert (pre ++ v :: t = (pre ++ [v]) ++ t) as EQ by (rewrite <- app_assoc; reflexivity).
    assert (v_addr (snd res) <> v_addr v) as D.
    { intros E. rewrite map_app in N. cbn [map] in N. apply NoDup_remove_2 in N.
      apply N. rewrite in_app_iff. left. rewrite <- E. now apply in_map. }
    destruct (compare_prio (snd res) v) as [[|]|] eqn:C; [| |now apply compare_prio_some in C].
    + rewrite EQ in *.
      replace (S (length pre)) with (length (pre ++ [v])) by (rewrite app_length; cbn; lia).
      apply IH; try assumption.
      * rewrite in_app_iff. now left.
      * intros w Hw Dw. rewrite in_app_iff in Hw. destruct Hw as [Hw|[<-|[]]]; [now apply Hb|].
        now apply compare_prio_true.
    + rewrite EQ in *.
      replace (S (length pre)) with (length (pre ++ [v])) by (rewrite app_length; cbn; lia).
      apply IH; cbn [fst snd]; try assumption.
      * rewrite nth_error_app1 by (rewrite app_length; cbn; lia).
        rewrite nth_error_app2 by lia. now rewrite Nat.sub_diag.
      * rewrite in_app_iff. right. now left.
      * intros w Hw Dw. rewrite in_app_iff in Hw. cbn [snd] in Dw. destruct Hw as [Hw|[<-|[]]]; [|congruence].
        apply compare_prio_false in C.
        destruct (N.eq_dec (v_addr w) (v_addr (snd res))) as [E|E].
        -- assert (w = snd res) as ->; [|exact C].
           apply (nodup_addr_eq ((pre ++ [v]) ++ t)); try assumption.
           ++ rewrite !in_app_iff. now left; left.
           ++ rewrite !in_app_iff. now left; left.
        -- eapply beats_trans; [exact C|now apply Hb].
Qed.

Lemma most_priority_spec l :
  l <> [] -> NoDup (map v_addr l) ->
  exists i m, most_priority l = Some (i, m) /\ nth_error l i = Some m /\ is_proposer l m.
Proof.
  intros NE N. destruct l as [|h t]; [congruence|]. cbn [most_priority].
  destruct (most_from_spec t [h] (O, h) N eq_refl (or_introl eq_refl)) as ([i m] & H & Hn & Hb).
  { intros w [<-|[]] D. cbn [snd] in D. congruence. }
  cbn [length] in H. exists i, m. split; [exact H|]. split; [exact Hn|].
  split; [eapply nth_error_In; exact Hn|exact Hb].
Qed.

Lemma set_nth_pay T l : forall i m,
  NoDup (map v_addr l) -> nth_error l i = Some m ->
  set_nth i (set_prio m (v_prio m - T)) l = pay T (v_addr m) l.
Proof.
  induction l as [|h t IH]; intros i m N Hn; [destruct i; discriminate|].
  cbn [map] in N. inversion N as [|? ? Nh Nt]; subst.
  destruct i as [|i]; cbn [nth_error] in Hn; cbn [set_nth pay map].
  - inversion Hn; subst. rewrite N.eqb_refl. f_equal. symmetry. now apply pay_not_in.
  - fold (pay T (v_addr m) t). rewrite (IH i m Nt Hn).
    destruct (N.eqb_spec (v_addr h) (v_addr m)) as [E|E]; [|reflexivity].
    exfalso. apply Nh. rewrite E. apply in_map. eapply nth_error_In; exact Hn.
Qed.

(* ------------------------------------------------------------------ *)
(** * one round *)

Lemma wf_vals_fields l l' :
  map v_addr l' = map v_addr l -> map v_power l' = map v_power l -> wf_vals l -> wf_vals l'.
Proof.
  intros A P (NE & N & Pp & C). repeat split.
  - intros ->. destruct l; [congruence|discriminate].
  - rewrite A. exact N.
  - intros v Hv. assert (In (v_power v) (map v_power l')) as Hin by now apply in_map.
    rewrite P in Hin. apply in_map_iff in Hin. destruct Hin as (u & <- & Hu). now apply Pp.
  - rewrite (total_power_map _ _ P). exact C.
Qed.

Lemma increment_once_refines s B :
  wf_set s -> bounded B (vs_vals s) -> 0 <= B -> B + total_power (vs_vals s) <= max_int64 ->
  exists s' m, increment_once s = Some (s', m) /\
    spec_round (vs_vals s) (vs_vals s') (v_addr m) /\
    (exists m0, In m0 (vs_vals s) /\ v_addr m0 = v_addr m /\ v_power m0 = v_power m) /\
    wf_set s' /\ vs_total s' = vs_total s /\ vs_proposer s' = vs_proposer s /\
    bounded (B + total_power (vs_vals s)) (vs_vals s').
Proof.
  intros [W ET] HB B0' BM. pose proof W as (NE & N & Pp & C).
  pose proof (wf_total_pos _ W) as Tpos.
  unfold increment_once.
  assert (map (fun v => set_prio v (wrap64 (v_prio v + v_power v))) (vs_vals s) = advance (vs_vals s)) as EA.
  { unfold advance. apply map_ext_in. intros v Hv. f_equal. apply wrap64_id.
    specialize (HB v Hv). pose proof (power_le_total _ _ Pp Hv). specialize (Pp v Hv). i64. }
  rewrite EA. destruct (advance_fields (vs_vals s)) as [AA AP].
  assert (wf_vals (advance (vs_vals s))) as WA by (eapply wf_vals_fields; eassumption).
  destruct (most_priority_spec (advance (vs_vals s))) as (i & m & HM & Hn & HP);
    [apply WA|apply WA|]. rewrite HM.
  assert (wf_set (with_vals s (advance (vs_vals s)))) as WS.
  { split; [exact WA|]. cbn [with_vals vs_vals vs_total]. rewrite ET. symmetry. now apply total_power_map. }
  rewrite (wf_total_voting_power _ WS). cbn [with_vals vs_vals].
  rewrite (total_power_map _ _ AP).
  set (T := total_power (vs_vals s)) in *.
  assert (In m (advance (vs_vals s))) as Hm by (eapply nth_error_In; exact Hn).
  assert (- B <= v_prio m <= B + T) as Bm.
  { unfold advance in Hm. apply in_map_iff in Hm. destruct Hm as (u & <- & Hu). cbn [set_prio v_prio].
    specialize (HB u Hu). pose proof (power_le_total _ _ Pp Hu). specialize (Pp u Hu). lia. }
  rewrite safe_sub_clip'_exact by i64.
  rewrite (set_nth_pay T _ i m (proj1 (proj2 WA)) Hn).
  eexists. eexists. split; [reflexivity|]. cbn [with_vals vs_vals vs_total vs_proposer set_prio v_addr v_power].
  destruct (pay_fields T (v_addr m) (advance (vs_vals s))) as [PA PP].
  split; [|split; [|split; [|split; [|split]]]].
  - exists m. split; [exact HP|]. split; reflexivity.
  - unfold advance in Hm. apply in_map_iff in Hm. destruct Hm as (u & <- & Hu). exists u. auto.
  - split; cbn [with_vals vs_vals vs_total].
    + eapply wf_vals_fields; [| |exact W]; [rewrite PA; exact AA|rewrite PP; exact AP].
    + rewrite ET. symmetry. apply total_power_map. rewrite PP. exact AP.
  - reflexivity.
  - reflexivity.
  - intros v' Hv'. unfold pay in Hv'. apply in_map_iff in Hv'. destruct Hv' as (w & <- & Hw).
    assert (- (B + T) <= v_prio w <= B + T /\ v_prio w <= v_prio m \/ True) as _ by now right.
    assert (- B <= v_prio w - 0 /\ v_prio w <= B + T) as Bw.
    { unfold advance in Hw. apply in_map_iff in Hw. destruct Hw as (u & <- & Hu). cbn [set_prio v_prio].
      specialize (HB u Hu). pose proof (power_le_total _ _ Pp Hu). specialize (Pp u Hu). lia. }
    destruct (N.eqb (v_addr w) (v_addr m)); cbn [set_prio v_prio]; lia.
Qed.

Lemma accounted_in_fwd T k props l l' x :
  Forall2 (accounted T k props) l l' -> In x l ->
  exists y, In y l' /\ v_addr y = v_addr x /\ v_power y = v_power x.
Proof.
  intros F. induction F as [|a b t t' Hab F IHF]; intros Hx; [destruct Hx|].
  destruct Hx as [->|Hx].
  - exists b. destruct Hab as (A & P & _). split; [now left|]. split; congruence.
  - destruct (IHF Hx) as (z & Hz & ?). exists z. split; [now right|assumption].
Qed.

Lemma accounted_in_bwd T k props l l' y :
  Forall2 (accounted T k props) l l' -> In y l' ->
  exists x, In x l /\ v_addr x = v_addr y /\ v_power x = v_power y.
Proof.
  intros F. induction F as [|a b t t' Hab F IHF]; intros Hy; [destruct Hy|].
  destruct Hy as [->|Hy].
  - exists a. destruct Hab as (A & P & _). split; [now left|]. split; congruence.
  - destruct (IHF Hy) as (z & Hz & ?). exists z. split; [now right|assumption].
Qed.

(* ------------------------------------------------------------------ *)
(** * the rounds of one call *)

Lemma spec_rounds_snoc k l l1 l2 props a :
  spec_rounds k l l1 props -> spec_round l1 l2 a -> spec_rounds (S k) l l2 (props ++ [a]).
Proof.
  intros R. revert l2 a. induction R as [l|k l l1' l2' a' props R1 R IH]; intros l3 a R3.
  - cbn. econstructor; [exact R3|constructor].
  - cbn [app]. econstructor; [exact R1|]. now apply IH.
Qed.

Lemma rounds_refine (k : nat) : forall s B,
  wf_set s -> bounded B (vs_vals s) -> 0 <= B ->
  B + Z.of_nat (S k) * total_power (vs_vals s) <= max_int64 ->
  exists s' m props,
    nat_rect (fun _ => iter_state) (Some (s, None)) (fun _ => iter_step) (S k) = Some (s', Some m) /\
    spec_rounds (S k) (vs_vals s) (vs_vals s') props /\ last props 0%N = v_addr m /\
    (exists m0, In m0 (vs_vals s) /\ v_addr m0 = v_addr m /\ v_power m0 = v_power m) /\
    wf_set s' /\ vs_total s' = vs_total s /\ vs_proposer s' = vs_proposer s /\
    bounded (B + Z.of_nat (S k) * total_power (vs_vals s)) (vs_vals s').
Proof.
  induction k as [|k IH]; intros s B W HB B0' BM.
  - cbn [nat_rect iter_step].
    destruct (increment_once_refines s B W HB B0' ltac:(lia)) as (s' & m & -> & R & M0 & W' & T' & P' & HB').
    exists s', m, [v_addr m].
    split; [reflexivity|]. split; [econstructor; [exact R|constructor]|]. split; [reflexivity|].
    split; [exact M0|]. split; [exact W'|]. split; [exact T'|]. split; [exact P'|].
    intros v Hv. specialize (HB' v Hv). lia.
  - destruct (IH s B W HB B0') as (s1 & m1 & props & E & R & L & M0 & W1 & T1 & P1 & HB1);
      [pose proof (wf_total_pos _ (proj1 W)); lia|].
    change (nat_rect (fun _ => iter_state) (Some (s, None)) (fun _ => iter_step) (S (S k)))
      with (iter_step (nat_rect (fun _ => iter_state) (Some (s, None)) (fun _ => iter_step) (S k))).
    rewrite E. cbn [iter_step].
    assert (total_power (vs_vals s1) = total_power (vs_vals s)) as ET.
    { destruct W as [_ E0], W1 as [_ E1]. lia. }
    pose proof (proj2 (proj2 (proj2 (proj1 W)))) as Cap.
    pose proof (wf_total_pos _ (proj1 W)) as Tpos.
    assert (0 <= Z.of_nat (S k) * total_power (vs_vals s)) as MP by (apply Z.mul_nonneg_nonneg; lia).
    destruct (increment_once_refines s1 (B + Z.of_nat (S k) * total_power (vs_vals s)) W1 HB1) as
        (s' & m & -> & R' & M0' & W' & T' & P' & HB'); [lia|rewrite ET; lia|].
    exists s', m, (props ++ [v_addr m]).
    split; [reflexivity|]. split; [eapply spec_rounds_snoc; eassumption|]. split; [now rewrite last_last|].
    split.
    { destruct M0' as (m0 & Hm0 & A0 & P0).
      destruct (spec_rounds_accounted _ _ _ _ R) as [F _].
      destruct (accounted_in_bwd _ _ _ _ _ _ F Hm0) as (x & Hx & Ax & Px).
      exists x. split; [exact Hx|]. split; congruence. }
    split; [exact W'|]. split; [congruence|]. split; [congruence|].
    intros v Hv. specialize (HB' v Hv). rewrite ET in HB'. lia.
Qed.

(* ------------------------------------------------------------------ *)
(** * IncrementProposerPriority(times) *)

Theorem increment_refines s (times : positive) :
  wf_set s -> bounded B0 (vs_vals s) ->
  (Z.pos times + 2) * total_power (vs_vals s) <= B0 ->
  exists s' props a p,
    increment s (Z.pos times) = Some s' /\
    spec_increment (vs_vals s) (Pos.to_nat times) (vs_vals s') props /\
    last props 0%N = a /\ vs_proposer s' = Some (a, p) /\
    (exists m0, In m0 (vs_vals s') /\ v_addr m0 = a /\ v_power m0 = p) /\
    wf_set s' /\ vs_total s' = vs_total s /\
    bounded ((Z.pos times + 2) * total_power (vs_vals s)) (vs_vals s').
Proof.
  intros W HB HK. pose proof W as [Wv ET]. pose proof Wv as (NE & N & Pp & C).
  pose proof (wf_total_pos _ Wv) as Tpos.
  unfold increment. destruct (vs_vals s) as [|v0 vt] eqn:EV; [congruence|]. rewrite <- EV in *.
  rewrite (wf_total_voting_power _ W).
  set (T := total_power (vs_vals s)) in *.
  destruct (rescale_refines (vs_vals s) T NE ltac:(lia) HB) as (l1 & -> & SR & HB1).
  assert (l1 <> []) as NE1.
  { destruct SR as (mx & mn & _ & _ & H). cbn zeta in H.
    destruct (2 * T <? mx - mn); subst l1; [|exact NE]. destruct (vs_vals s); [congruence|discriminate]. }
  destruct (shift_refines l1 NE1 HB1) as (l2 & -> & SC).
  destruct (spec_renormalise T _ _ _ Tpos NE SR SC) as (Win & Sum & Bnd).
  (* the renormalised set is well formed and within 2T *)
  assert (map v_addr l2 = map v_addr (vs_vals s) /\ map v_power l2 = map v_power (vs_vals s)) as [A2 P2].
  { assert (map v_addr l1 = map v_addr (vs_vals s) /\ map v_power l1 = map v_power (vs_vals s)) as [A1 P1].
    { destruct SR as (mx & mn & _ & _ & H). cbn zeta in H.
      destruct (2 * T <? mx - mn); subst l1; [|auto]. rewrite !map_map. cbn. auto. }
    rewrite SC, !map_map. cbn [set_prio v_addr v_power]. auto. }
  assert (wf_set (with_vals s l2)) as W2.
  { split; cbn [with_vals vs_vals vs_total].
    - eapply wf_vals_fields; eassumption.
    - rewrite ET. symmetry. now apply total_power_map. }
  assert (total_power l2 = T) as ET2 by now apply total_power_map.
  destruct (Pos2Nat.is_succ times) as (k & EK).
  rewrite Pos2Nat.inj_iter, EK.
  destruct (rounds_refine k (with_vals s l2) (2 * T) W2) as
      (s' & m & props & -> & R & L & M0 & W' & T' & P' & HB'); cbn [with_vals vs_vals] in *.
  { exact Bnd. }
  { lia. }
  { assert (Z.of_nat (S k) = Z.pos times) as -> by (rewrite <- EK; apply positive_nat_Z).
    rewrite ET2. clear - HK Tpos C. i64. }
  exists (with_proposer s' (Some (v_addr m, v_power m))), props, (v_addr m), (v_power m).
  cbn [with_proposer vs_vals vs_total vs_proposer].
  split; [reflexivity|]. split; [|split; [exact L|split; [reflexivity|split; [|split; [|split]]]]].
  - exists l1, l2. auto.
  - destruct M0 as (m0 & Hm0 & A0 & P0).
    destruct (spec_rounds_accounted _ _ _ _ R) as [F _].
    destruct (accounted_in_fwd _ _ _ _ _ _ F Hm0) as (y & Hy & Ay & Py).
    exists y. split; [exact Hy|]. split; congruence.
  - destruct W' as [Wv' E']. split; [exact Wv'|exact E'].
  - exact T'.
  - intros v Hv. specialize (HB' v Hv). rewrite ET2 in HB'.
    assert (Z.of_nat (S k) = Z.pos times) as EZ by (rewrite <- EK; apply positive_nat_Z).
    rewrite EZ in HB'. lia.
Qed.

(* ------------------------------------------------------------------ *)
(** * corollaries at the level of the model *)

(** the renormalisation at the start of every call (and at the end of every update) *)
Theorem model_renormalise l T :
  l <> [] -> 0 < T <= max_total_voting_power -> bounded B0 l ->
  exists l1 l2,
    rescale l (wrap64 (priority_window_size_factor * T)) = Some l1 /\ shift_by_avg l1 = Some l2 /\
    spec_rescale T l l1 /\ spec_centre l1 l2 /\
    within_window (2 * T) l2 /\ 0 <= sum_prio l2 < Z.of_nat (length l2) /\ bounded (2 * T) l2 /\
    map v_addr l2 = map v_addr l /\ map v_power l2 = map v_power l.
Proof.
  intros NE HT HB.
  destruct (rescale_refines l T NE HT HB) as (l1 & R & SR & HB1).
  assert (l1 <> []) as NE1.
  { destruct (rescale_map _ _ _ R) as [A _]. intros ->. destruct l; [congruence|discriminate]. }
  destruct (shift_refines l1 NE1 HB1) as (l2 & S & SC).
  destruct (spec_renormalise T _ _ _ (proj1 HT) NE SR SC) as (Win & Sum & Bnd).
  exists l1, l2. repeat split; try assumption; try apply Sum; try (apply Bnd; assumption).
  - destruct (rescale_map _ _ _ R) as [A _]. destruct (shift_map _ _ S) as [A' _]. congruence.
  - destruct (rescale_map _ _ _ R) as [_ A]. destruct (shift_map _ _ S) as [_ A']. congruence.
Qed.

(** one round of the inner loop keeps the sum of the priorities *)
Theorem increment_once_sum s B s' m :
  wf_set s -> bounded B (vs_vals s) -> 0 <= B -> B + total_power (vs_vals s) <= max_int64 ->
  increment_once s = Some (s', m) -> sum_prio (vs_vals s') = sum_prio (vs_vals s).
Proof.
  intros W HB B0' BM H.
  destruct (increment_once_refines s B W HB B0' BM) as (s1 & m1 & E & R & _).
  rewrite E in H. inversion H; subst. rewrite !sum_prio_eq.
  eapply spec_round_sum; [apply W|exact R].
Qed.
