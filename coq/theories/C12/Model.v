(** C12 — executable model of types/validator_set.go (NewValidatorSet,
    IncrementProposerPriority, RescalePriorities, shiftByAvgProposerPriority,
    incrementProposerPriority, computeAvgProposerPriority, computeMaxMinPriorityDiff,
    getValWithMostPriority, GetProposer/findProposer, TotalVotingPower,
    updateWithChangeSet and its helpers, Copy, CopyIncrementProposerPriority) and of Validator.CompareProposerPriority
    (types/validator.go), and of calculateValidatorSetUpdates / the validator part of updateState
    (kai/state/cstate/execution.go: the three validator sets, LastBlockHeight and
    LastHeightValidatorsChanged of LatestBlockState), transcribed branch by branch from the code as it is today
    (computeMaxMinPriorityDiff as repaired by eb47a62).

    Conventions.  An address is the number whose 20-byte big-endian encoding it is, so
    bytes.Compare on addresses is the order of [N].  Every int64 expression goes through
    [wrap64]; the clipping helpers are transcribed literally.  A run-time panic of the Go
    code (explicit [panic], division by zero, index out of range) is the outcome [None]
    of the corresponding function.  Pointer structure: [vs.Proposer] points to a
    [Validator] object whose Address and VotingPower are never mutated (only priorities
    are), and the harness observes only those two fields of [GetProposer()], so the
    proposer is stored by value as (address, power); this also makes [Copy] (which shares
    the proposer pointer with the original; its nil-receiver check added by ae9277c is outside
    the histories) a plain value copy.  No proofs in this file. *)
From Coq Require Import List ZArith NArith Bool Lia.
From Kardia Require Import Base.Int64 Base.ListX Generated.C12Facts.
Import ListNotations.
Local Open Scope Z_scope.

(* ------------------------------------------------------------------ *)
(** * Data *)

Record validator := { v_addr : N; v_power : Z; v_prio : Z }.

Definition set_prio (v : validator) (p : Z) : validator :=
  {| v_addr := v_addr v; v_power := v_power v; v_prio := p |}.

Record vset := {
  vs_vals : list validator;          (* vs.Validators, in slice order *)
  vs_proposer : option (N * Z);      (* vs.Proposer: (Address, VotingPower) of the object *)
  vs_total : Z }.                    (* cached totalVotingPower *)

Definition empty_vset : vset := {| vs_vals := []; vs_proposer := None; vs_total := 0 |}.

Definition with_vals (s : vset) (l : list validator) : vset :=
  {| vs_vals := l; vs_proposer := vs_proposer s; vs_total := vs_total s |}.
Definition with_total (s : vset) (t : Z) : vset :=
  {| vs_vals := vs_vals s; vs_proposer := vs_proposer s; vs_total := t |}.
Definition with_proposer (s : vset) (p : option (N * Z)) : vset :=
  {| vs_vals := vs_vals s; vs_proposer := p; vs_total := vs_total s |}.

(** error classes of updateWithChangeSet *)
Inductive uerr := UOk | UDup | UNegative | UTooBig | UZeroPower | UUnknown | UOverflow | UEmpty.

(* ------------------------------------------------------------------ *)
(** * Safe maths (literal) *)

Definition safe_add (a b : Z) : Z * bool :=
  if (0 <? b) && (wrap64 (max_int64 - b) <? a) then (-1, true)
  else if (b <? 0) && (a <? wrap64 (min_int64 - b)) then (-1, true)
  else (wrap64 (a + b), false).

Definition safe_sub (a b : Z) : Z * bool :=
  if (0 <? b) && (a <? wrap64 (min_int64 + b)) then (-1, true)
  else if (b <? 0) && (wrap64 (max_int64 + b) <? a) then (-1, true)
  else (wrap64 (a - b), false).

Definition safe_add_clip' (a b : Z) : Z :=
  let '(c, overflow) := safe_add a b in
  if overflow then (if b <? 0 then min_int64 else max_int64) else c.

Definition safe_sub_clip' (a b : Z) : Z :=
  let '(c, overflow) := safe_sub a b in
  if overflow then (if 0 <? b then min_int64 else max_int64) else c.

(* ------------------------------------------------------------------ *)
(** * Sorting (sort.Sort on at most 12 elements is Go's stable insertion sort; on longer
      slices the code only sorts lists whose keys are pairwise distinct or whose tie order
      cannot influence the result, see the comments at each use) *)

Fixpoint insert_by {A} (lt : A -> A -> bool) (x : A) (l : list A) : list A :=
  match l with
  | [] => [x]
  | h :: t => if lt h x then h :: insert_by lt x t else x :: l
  end.
Definition sort_by {A} (lt : A -> A -> bool) (l : list A) : list A :=
  fold_right (insert_by lt) [] l.

(** ValidatorsByAddress.Less *)
Definition addr_lt (a b : validator) : bool := N.ltb (v_addr a) (v_addr b).
(** ValidatorsByVotingPower.Less *)
Definition power_lt (a b : validator) : bool :=
  if Z.eqb (v_power a) (v_power b) then N.ltb (v_addr a) (v_addr b)
  else Z.ltb (v_power b) (v_power a).

(* ------------------------------------------------------------------ *)
(** * Lookups *)

(** GetByAddress (first match) *)
Fixpoint get_by_addr (a : N) (l : list validator) : option validator :=
  match l with
  | [] => None
  | v :: t => if N.eqb a (v_addr v) then Some v else get_by_addr a t
  end.
Definition has_addr (a : N) (l : list validator) : bool :=
  match get_by_addr a l with Some _ => true | None => false end.

(* ------------------------------------------------------------------ *)
(** * Total voting power *)

(** updateTotalVotingPower: [None] is the panic "Total voting power should be guarded" *)
Fixpoint sum_clip (l : list validator) (sum : Z) : option Z :=
  match l with
  | [] => Some sum
  | v :: t =>
    let sum' := safe_add_clip' sum (v_power v) in
    if max_total_voting_power <? sum' then None else sum_clip t sum'
  end.
Definition update_total (s : vset) : option vset :=
  match sum_clip (vs_vals s) 0 with
  | None => None
  | Some t => Some (with_total s t)
  end.
(** TotalVotingPower(): recomputes when the cache is 0 *)
Definition total_voting_power (s : vset) : option (vset * Z) :=
  if vs_total s =? 0 then
    match update_total s with None => None | Some s' => Some (s', vs_total s') end
  else Some (s, vs_total s).

(* ------------------------------------------------------------------ *)
(** * Priorities: rescale, centre, increment *)

(** computeMaxMinPriorityDiff (on a non-empty list), as repaired by eb47a62 *)
Fixpoint max_min (l : list validator) (mx mn : Z) : Z * Z :=
  match l with
  | [] => (mx, mn)
  | v :: t =>
    let mn' := if v_prio v <? mn then v_prio v else mn in
    let mx' := if mx <? v_prio v then v_prio v else mx in
    max_min t mx' mn'
  end.
Definition max_min_diff (l : list validator) : Z :=
  let '(mx, mn) := max_min l min_int64 max_int64 in
  let diff := wrap64 (mx - mn) in
  if diff <? 0 then wrap64 (-1 * diff) else diff.

(** RescalePriorities(diffMax) on a non-empty set; [None]: integer division by zero *)
Definition rescale (l : list validator) (diff_max : Z) : option (list validator) :=
  if diff_max <=? 0 then Some l
  else
    let diff := max_min_diff l in
    let ratio := div64 (wrap64 (wrap64 (diff + diff_max) - 1)) diff_max in
    if diff_max <? diff then
      if ratio =? 0 then None
      else Some (map (fun v => set_prio v (div64 (v_prio v) ratio)) l)
    else Some l.

(** computeAvgProposerPriority: big.Int sum, Euclidean division by n > 0 (= floor);
    [None] is the panic "Cannot represent avg ProposerPriority as an int64" *)
Definition sum_prio (l : list validator) : Z := fold_right (fun v acc => v_prio v + acc) 0 l.
Definition avg_prio (l : list validator) : option Z :=
  let avg := sum_prio l / Z.of_nat (length l) in
  if (min_int64 <=? avg) && (avg <=? max_int64) then Some avg else None.

(** shiftByAvgProposerPriority on a non-empty set *)
Definition shift_by_avg (l : list validator) : option (list validator) :=
  match avg_prio l with
  | None => None
  | Some avg => Some (map (fun v => set_prio v (safe_sub_clip' (v_prio v) avg)) l)
  end.

(** Validator.CompareProposerPriority; [None] is the panic "Cannot compare identical validators" *)
Definition compare_prio (v other : validator) : option bool :=   (* Some true: v wins *)
  if v_prio other <? v_prio v then Some true
  else if v_prio v <? v_prio other then Some false
  else if N.ltb (v_addr v) (v_addr other) then Some true
  else if N.ltb (v_addr other) (v_addr v) then Some false
  else None.

(** getValWithMostPriority: the position of the winner (the code keeps a pointer) *)
Fixpoint most_from (res : nat * validator) (i : nat) (l : list validator) : option (nat * validator) :=
  match l with
  | [] => Some res
  | v :: t =>
    match compare_prio (snd res) v with
    | None => None
    | Some true => most_from res (S i) t
    | Some false => most_from (i, v) (S i) t
    end
  end.
Definition most_priority (l : list validator) : option (nat * validator) :=
  match l with
  | [] => None                         (* nil pointer dereference in the caller *)
  | v :: t => most_from (O, v) 1%nat t
  end.

(** incrementProposerPriority (one round): returns the new set and the proposer *)
Definition increment_once (s : vset) : option (vset * validator) :=
  let l1 := map (fun v => set_prio v (wrap64 (v_prio v + v_power v))) (vs_vals s) in
  match most_priority l1 with
  | None => None
  | Some (i, m) =>
    match total_voting_power (with_vals s l1) with
    | None => None
    | Some (s1, t) =>
      let m' := set_prio m (safe_sub_clip' (v_prio m) t) in
      Some (with_vals s1 (set_nth i m' l1), m')
    end
  end.

Definition iter_state := option (vset * option validator).
Definition iter_step (st : iter_state) : iter_state :=
  match st with
  | None => None
  | Some (s, _) =>
    match increment_once s with
    | None => None
    | Some (s', p) => Some (s', Some p)
    end
  end.

(** IncrementProposerPriority(times) *)
Definition increment (s : vset) (times : Z) : option vset :=
  match vs_vals s with
  | [] => None                                           (* panic("empty validator set") *)
  | _ =>
    match times with
    | Zpos n =>
      match total_voting_power s with
      | None => None
      | Some (s0, t) =>
        let diff_max := wrap64 (priority_window_size_factor * t) in
        match rescale (vs_vals s0) diff_max with
        | None => None
        | Some l1 =>
          match shift_by_avg l1 with
          | None => None
          | Some l2 =>
            match Pos.iter iter_step (Some (with_vals s0 l2, None)) n with
            | Some (s', Some p) => Some (with_proposer s' (Some (v_addr p, v_power p)))
            | _ => None
            end
          end
        end
      end
    | _ => None                                          (* panic: non-positive times *)
    end
  end.

(* ------------------------------------------------------------------ *)
(** * GetProposer / findProposer *)

Fixpoint find_proposer_from (res : option validator) (l : list validator) : option (option validator) :=
  match l with
  | [] => Some res
  | v :: t =>
    match res with
    | None => find_proposer_from (Some v) t
    | Some p =>
      if N.eqb (v_addr v) (v_addr p) then find_proposer_from res t
      else match compare_prio p v with
           | None => None
           | Some true => find_proposer_from res t
           | Some false => find_proposer_from (Some v) t
           end
    end
  end.

(** GetProposer(): result and the (possibly updated) set; outer [None] = panic *)
Definition get_proposer (s : vset) : option (vset * option (N * Z)) :=
  match vs_vals s with
  | [] => Some (s, None)
  | _ =>
    match vs_proposer s with
    | Some p => Some (s, Some p)
    | None =>
      match find_proposer_from None (vs_vals s) with
      | None => None
      | Some None => None                               (* nil.Copy() is nil: cannot happen on a non-empty list *)
      | Some (Some p) =>
        let pr := Some (v_addr p, v_power p) in Some (with_proposer s pr, pr)
      end
    end
  end.

(* ------------------------------------------------------------------ *)
(** * updateWithChangeSet *)

(** processChanges after the sort: scan with prevAddr (initially the zero address) *)
Inductive scan_res := ScanErr (e : uerr) | ScanOk (updates removals : list validator).
Fixpoint process_scan (prev : N) (chs : list validator) : scan_res :=
  match chs with
  | [] => ScanOk [] []
  | c :: t =>
    if N.eqb (v_addr c) prev then ScanErr UDup
    else if v_power c <? 0 then ScanErr UNegative
    else if max_total_voting_power <? v_power c then ScanErr UTooBig
    else match process_scan (v_addr c) t with
         | ScanErr e => ScanErr e
         | ScanOk ups rems =>
           if v_power c =? 0 then ScanOk ups (c :: rems) else ScanOk (c :: ups) rems
         end
  end.
Definition process_changes (changes : list validator) : scan_res :=
  process_scan 0%N (sort_by addr_lt changes).

(** verifyRemovals; outer [None] = panic("more deletes than validators") *)
Fixpoint removed_power (dels vals : list validator) (acc : Z) : Z * bool :=   (* (power, found all) *)
  match dels with
  | [] => (acc, true)
  | d :: t =>
    match get_by_addr (v_addr d) vals with
    | None => (acc, false)
    | Some v => removed_power t vals (wrap64 (acc + v_power v))
    end
  end.
Definition verify_removals (dels vals : list validator) : option (Z * bool) :=
  let '(p, ok) := removed_power dels vals 0 in
  if negb ok then Some (p, false)
  else if Nat.ltb (length vals) (length dels) then None
  else Some (p, true).

(** verifyUpdates: [delta], sort by delta (sort.Slice; ties have equal deltas so their
    order cannot change any partial sum), running total against the cap *)
Definition delta (vals : list validator) (u : validator) : Z :=
  match get_by_addr (v_addr u) vals with
  | Some v => wrap64 (v_power u - v_power v)
  | None => v_power u
  end.
Fixpoint add_deltas (vals ups : list validator) (tvp : Z) : option Z :=   (* None: ErrTotalVotingPowerOverflow *)
  match ups with
  | [] => Some tvp
  | u :: t =>
    let tvp' := wrap64 (tvp + delta vals u) in
    if max_total_voting_power <? tvp' then None else add_deltas vals t tvp'
  end.
Definition verify_updates (ups vals : list validator) (total removed : Z) : option Z :=
  let sorted := sort_by (fun a b => delta vals a <? delta vals b) ups in
  match add_deltas vals sorted (wrap64 (total - removed)) with
  | None => None
  | Some tvp => Some (wrap64 (tvp + removed))
  end.

(** numNewValidators *)
Definition num_new (ups vals : list validator) : nat :=
  length (filter (fun u => negb (has_addr (v_addr u) vals)) ups).

(** computeNewPriorities *)
Definition new_priorities (ups vals : list validator) (tvp : Z) : list validator :=
  map (fun u =>
         match get_by_addr (v_addr u) vals with
         | None => set_prio u (wrap64 (- wrap64 (tvp + Z.shiftr tvp 3)))
         | Some v => set_prio u (v_prio v)
         end) ups.

(** applyUpdates: merge of the address-sorted existing list with the sorted updates *)
Fixpoint merge_updates (ex : list validator) : list validator -> list validator :=
  fix inner (ups : list validator) : list validator :=
    match ex, ups with
    | [], _ => ups
    | _, [] => ex
    | e :: ex', u :: ups' =>
      if N.ltb (v_addr e) (v_addr u) then e :: merge_updates ex' ups
      else if N.eqb (v_addr e) (v_addr u) then u :: merge_updates ex' ups'
      else u :: inner ups'
    end.
Definition apply_updates (vals ups : list validator) : list validator :=
  merge_updates (sort_by addr_lt vals) ups.

(** applyRemovals; [None]: existing[0] on an empty slice (index out of range) *)
Fixpoint apply_removals (ex dels : list validator) {struct ex} : option (list validator) :=
  match dels with
  | [] => Some ex
  | d :: dt =>
    match ex with
    | [] => None
    | e :: et =>
      if N.eqb (v_addr e) (v_addr d) then apply_removals et dt
      else match apply_removals et dels with
           | None => None
           | Some r => Some (e :: r)
           end
    end
  end.

(** result of updateWithChangeSet: panic, or (new set, error class); on error the set is
    returned as the code leaves it *)
Definition update_with_change_set (s : vset) (changes : list validator) (allow_deletes : bool)
  : option (vset * uerr) :=
  match changes with
  | [] => Some (s, UOk)
  | _ =>
    match process_changes changes with
    | ScanErr e => Some (s, e)
    | ScanOk ups dels =>
      if negb allow_deletes && negb (Nat.eqb (length dels) 0) then Some (s, UZeroPower)
      else
      match verify_removals dels (vs_vals s) with
      | None => None
      | Some (_, false) => Some (s, UUnknown)
      | Some (removed, true) =>
        match total_voting_power s with
        | None => None
        | Some (s0, total) =>
          match verify_updates ups (vs_vals s0) total removed with
          | None => Some (s0, UOverflow)
          | Some tvp =>
            if Nat.eqb (num_new ups (vs_vals s0)) 0 && Nat.eqb (length (vs_vals s0)) (length dels)
            then Some (s0, UEmpty)
            else
              let ups' := new_priorities ups (vs_vals s0) tvp in
              let l1 := apply_updates (vs_vals s0) ups' in
              match apply_removals l1 dels with
              | None => None
              | Some l2 =>
                match update_total (with_vals s0 l2) with
                | None => None
                | Some s1 =>
                  match l2 with
                  | [] => None                    (* RescalePriorities panics on an empty set *)
                  | _ =>
                  match total_voting_power s1 with
                  | None => None
                  | Some (s2, t2) =>
                    match rescale (vs_vals s2) (wrap64 (priority_window_size_factor * t2)) with
                    | None => None
                    | Some l3 =>
                      match shift_by_avg l3 with
                      | None => None
                      | Some l4 => Some (with_vals s2 (sort_by power_lt l4), UOk)
                      end
                    end
                  end
                  end
                end
              end
          end
        end
      end
    end
  end.

(** NewValidatorSet(val): [None] = panic (invalid input) *)
Definition new_validator_set (vals : list validator) : option vset :=
  match update_with_change_set empty_vset vals false with
  | Some (s, UOk) =>
    match vals with
    | [] => Some s
    | _ => increment s 1
    end
  | _ => None
  end.

(* ------------------------------------------------------------------ *)
(** * kai/state/cstate/execution.go: calculateValidatorSetUpdates and the validator part of
      updateState (the path by which the application's validator report reaches the set) *)

Fixpoint has_dup (l : list validator) : bool :=
  match l with
  | [] => false
  | v :: t => has_addr (v_addr v) t || has_dup t
  end.

(** [last] is a Go map filled in slice order (a later entry overwrites an earlier one); the
    keys that remain after the report has been scanned are appended as removals in map order,
    which is unspecified: the model uses slice order (UpdateWithChangeSet sorts by address). *)
Definition calculate_updates (last_vals report : list validator) : list validator :=
  match report with
  | [] => []
  | _ =>
    if has_dup report then report
    else
      filter (fun v => match get_by_addr (v_addr v) (rev last_vals) with
                       | None => true
                       | Some o => negb (v_power o =? v_power v)
                       end) report
      ++ map (fun a => {| v_addr := a; v_power := 0; v_prio := 0 |})
             (nodup N.eq_dec (filter (fun a => negb (has_addr a report)) (map v_addr last_vals)))
  end.

(** updateState restricted to NextValidators: works on a copy, so on error the state is the one
    passed in; [None] = panic *)
Definition apply_report (s : vset) (report : list validator) : option (vset * uerr) :=
  match calculate_updates (vs_vals s) report with
  | [] => match increment s 1 with Some s' => Some (s', UOk) | None => None end
  | ups =>
    match update_with_change_set s ups true with
    | None => None
    | Some (s1, UOk) => match increment s1 1 with Some s' => Some (s', UOk) | None => None end
    | Some (_, e) => Some (s, e)
    end
  end.

(* ------------------------------------------------------------------ *)
(** * updateState as a whole: the three validator sets that LatestBlockState carries from block
      to block (LastValidators, Validators, NextValidators), LastBlockHeight and
      LastHeightValidatorsChanged (both uint64).  A nil set (LastValidators at genesis) is the
      empty set; the Copy() calls are value copies (see the conventions at the top). *)

Record chain := {
  ch_last : vset;        (* LastValidators *)
  ch_cur : vset;         (* Validators: the set of the next block *)
  ch_next : vset;        (* NextValidators: the set of the block after it *)
  ch_height : Z;         (* LastBlockHeight *)
  ch_changed : Z }.      (* LastHeightValidatorsChanged *)

(** updateState(state, header{Height = height}, validatorUpdates = ups): on error the state
    passed in is returned; [None] = panic *)
Definition update_state (st : chain) (height : Z) (ups : list validator) : option (chain * uerr) :=
  match (match ups with
         | [] => Some (ch_next st, UOk)
         | _ => update_with_change_set (ch_next st) ups true
         end) with
  | None => None
  | Some (n1, UOk) =>
    match increment n1 1 with
    | None => None
    | Some n2 =>
      Some ({| ch_last := ch_cur st; ch_cur := ch_next st; ch_next := n2; ch_height := height;
               ch_changed := match ups with
                             | [] => ch_changed st
                             | _ => wrapu64 (height + 2)
                             end |}, UOk)
    end
  | Some (_, e) => Some (st, e)
  end.

(** the validator part of ApplyBlock for the block at height LastBlockHeight + 1 *)
Definition apply_block (st : chain) (report : list validator) : option (chain * uerr) :=
  update_state st (wrapu64 (ch_height st + 1)) (calculate_updates (vs_vals (ch_next st)) report).

(** the genesis arrangement (MakeGenesisState): Validators is the set, NextValidators is
    CopyIncrementProposerPriority(1) of it, LastValidators is nil, heights 0 and 1 *)
Definition chain_genesis (s : vset) : option chain :=
  match increment s 1 with
  | None => None
  | Some n => Some {| ch_last := empty_vset; ch_cur := s; ch_next := n; ch_height := 0; ch_changed := 1 |}
  end.

(** the proposer of round [k] >= 1 of a height, as consensus derives it from the height's set:
    CopyIncrementProposerPriority(k).GetProposer() *)
Definition proposer_at (s : vset) (k : Z) : option N :=
  match increment s k with
  | Some s' => match vs_proposer s' with Some (a, _) => Some a | None => None end
  | None => None
  end.

(* ------------------------------------------------------------------ *)
(** * Histories over a few named sets (slots), as the harness drives them *)

Inductive op :=
| OpNew (slot : nat) (vals : list validator)
| OpInc (slot : nat) (times : Z)
| OpUpd (slot : nat) (changes : list validator)
| OpCopy (src dst : nat)
| OpRounds (slot : nat) (rounds : nat)       (* rounds x IncrementProposerPriority(1), proposer read each round *)
| OpReport (slot : nat) (report : list validator)    (* calculateValidatorSetUpdates + updateState *)
| OpCopyInc (src dst : nat) (times : Z)              (* dst := src.CopyIncrementProposerPriority(times) *)
| OpRaw (slot : nat) (vals : list validator).        (* &ValidatorSet{Validators: vals}: priorities as given, no proposer recorded, nothing cached *)

(** observation of a slot: TotalVotingPower(), GetProposer() (when asked), the validators *)
Record obs := {
  o_panic : bool;                  (* the operation panicked (set left as it was before the call) *)
  o_err : uerr;
  o_seq : list N;                  (* OpRounds: proposer address per round *)
  o_total : option Z;              (* None: TotalVotingPower() panicked *)
  o_proposer : option (option (option (N * Z)));   (* None: not asked; Some None: GetProposer panicked *)
  o_vals : list validator }.

Definition observe (s : vset) (ask : bool) (panic : bool) (e : uerr) (seq : list N) : vset * obs :=
  let '(s1, tot) := match total_voting_power s with
                    | None => (s, None)
                    | Some (s', t) => (s', Some t)
                    end in
  let '(s2, pr) := if ask then
                     match get_proposer s1 with
                     | None => (s1, Some None)
                     | Some (s', p) => (s', Some (Some p))
                     end
                   else (s1, None) in
  (s2, {| o_panic := panic; o_err := e; o_seq := seq; o_total := tot; o_proposer := pr; o_vals := vs_vals s2 |}).

Fixpoint rounds_run (s : vset) (n : nat) (acc : list N) : option (vset * list N) :=
  match n with
  | O => Some (s, rev acc)
  | S n' =>
    match increment s 1 with
    | None => None
    | Some s' =>
      match get_proposer s' with
      | Some (s'', Some (a, _)) => rounds_run s'' n' (a :: acc)
      | _ => None
      end
    end
  end.

Definition slot_get (st : list vset) (i : nat) : vset := nth i st empty_vset.

(** one step of a history; [ask] = read GetProposer() after the call *)
Definition step (st : list vset) (o : op) (ask : bool) : list vset * obs :=
  match o with
  | OpNew i vals =>
    match new_validator_set vals with
    | None => let '(s', ob) := observe (slot_get st i) ask true UOk [] in (set_nth i s' st, ob)
    | Some s => let '(s', ob) := observe s ask false UOk [] in (set_nth i s' st, ob)
    end
  | OpInc i k =>
    match increment (slot_get st i) k with
    | None => let '(s', ob) := observe (slot_get st i) ask true UOk [] in (set_nth i s' st, ob)
    | Some s => let '(s', ob) := observe s ask false UOk [] in (set_nth i s' st, ob)
    end
  | OpUpd i cs =>
    match update_with_change_set (slot_get st i) cs true with
    | None => let '(s', ob) := observe (slot_get st i) ask true UOk [] in (set_nth i s' st, ob)
    | Some (s, e) => let '(s', ob) := observe s ask false e [] in (set_nth i s' st, ob)
    end
  | OpCopy i j =>
    let '(s', ob) := observe (slot_get st i) ask false UOk [] in (set_nth j s' st, ob)
  | OpReport i rep =>
    match apply_report (slot_get st i) rep with
    | None => let '(s', ob) := observe (slot_get st i) ask true UOk [] in (set_nth i s' st, ob)
    | Some (s, e) => let '(s', ob) := observe s ask false e [] in (set_nth i s' st, ob)
    end
  | OpCopyInc i j k =>
    match increment (slot_get st i) k with
    | None => let '(s', ob) := observe (slot_get st j) ask true UOk [] in (set_nth j s' st, ob)
    | Some s => let '(s', ob) := observe s ask false UOk [] in (set_nth j s' st, ob)
    end
  | OpRaw i vals =>
    let '(s', ob) := observe {| vs_vals := vals; vs_proposer := None; vs_total := 0 |} ask false UOk [] in
    (set_nth i s' st, ob)
  | OpRounds i n =>
    match rounds_run (slot_get st i) n [] with
    | None => let '(s', ob) := observe (slot_get st i) ask true UOk [] in (set_nth i s' st, ob)
    | Some (s, seq) => let '(s', ob) := observe s ask false UOk seq in (set_nth i s' st, ob)
    end
  end.

Definition init_slots : list vset := [empty_vset; empty_vset; empty_vset; empty_vset].

(* ------------------------------------------------------------------ *)
(** * Histories of blocks over one chain state *)

Inductive cop :=
| CGenesis (slot : nat)                    (* start the chain from the set in a slot *)
| CBlock (report : list validator).        (* calculateValidatorSetUpdates + updateState, all of the state observed *)

Record cobs := {
  co_panic : bool; co_err : uerr; co_height : Z; co_changed : Z;
  co_last : obs; co_cur : obs; co_next : obs;
  co_rounds : list (option N) }.           (* proposers of rounds 1, 2, 3 of the next block *)

Definition chain_observe (c : chain) (ask panic : bool) (e : uerr) : chain * cobs :=
  let '(l, ol) := observe (ch_last c) ask false UOk [] in
  let '(m, om) := observe (ch_cur c) ask false UOk [] in
  let '(n, on) := observe (ch_next c) ask false UOk [] in
  ({| ch_last := l; ch_cur := m; ch_next := n; ch_height := ch_height c; ch_changed := ch_changed c |},
   {| co_panic := panic; co_err := e; co_height := ch_height c; co_changed := ch_changed c;
      co_last := ol; co_cur := om; co_next := on;
      co_rounds := map (proposer_at m) [1; 2; 3] |}).

Definition chain_step (slots : list vset) (c : chain) (o : cop) (ask : bool) : chain * cobs :=
  match o with
  | CGenesis i =>
    match chain_genesis (slot_get slots i) with
    | None => chain_observe c ask true UOk
    | Some c' => chain_observe c' ask false UOk
    end
  | CBlock rep =>
    match apply_block c rep with
    | None => chain_observe c ask true UOk
    | Some (c', e) => chain_observe c' ask false e
    end
  end.

Definition init_chain : chain :=
  {| ch_last := empty_vset; ch_cur := empty_vset; ch_next := empty_vset; ch_height := 0; ch_changed := 0 |}.
