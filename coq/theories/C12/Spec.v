(** C12 — the specification, transcribed from the property text and the proposer-selection
    specification it refers to, over unbounded integers and as relations (no machine
    arithmetic, no sorting algorithm, no pointer).  Only the record type of a validator is
    shared with the model.

      * every round each validator's priority advances by its voting power; the validator
        with the highest priority (lowest address on ties) proposes and pays the total T;
      * before the rounds of a call the priorities are brought into a window of 2*T
        (dividing by ceil(spread / 2T), toward zero) and centred on their average (floor);
      * a change set is applied as a whole: no duplicate addresses, powers in 0..cap,
        removals (power 0) only of members, result non-empty, total at most cap; members keep
        their priority, newcomers start at -(T' + T'/8) where T' is the total with the
        updates applied and the removals not yet; then window and centring for the new
        total, and the list is kept by (power descending, address ascending). *)
From Coq Require Import List ZArith NArith Bool Lia Permutation Sorted.
From Kardia Require Import C12.Model.
Import ListNotations.
Local Open Scope Z_scope.

Definition total_power (l : list validator) : Z := fold_right (fun v a => v_power v + a) 0 l.
Definition sum_priorities (l : list validator) : Z := fold_right (fun v a => v_prio v + a) 0 l.

Definition is_max (l : list validator) (m : Z) : Prop :=
  (exists v, In v l /\ v_prio v = m) /\ forall v, In v l -> v_prio v <= m.
Definition is_min (l : list validator) (m : Z) : Prop :=
  (exists v, In v l /\ v_prio v = m) /\ forall v, In v l -> m <= v_prio v.

Definition within_window (W : Z) (l : list validator) : Prop :=
  forall v w, In v l -> In w l -> v_prio v - v_prio w <= W.

(** window: divide by ceil(spread / W) when the spread exceeds W = 2T *)
Definition spec_rescale (T : Z) (l l' : list validator) : Prop :=
  exists mx mn, is_max l mx /\ is_min l mn /\
    let d := mx - mn in
    let W := 2 * T in
    if W <? d
    then l' = map (fun v => set_prio v (Z.quot (v_prio v) ((d + W - 1) / W))) l
    else l' = l.

(** centring on the (floor) average *)
Definition spec_centre (l l' : list validator) : Prop :=
  l' = map (fun v => set_prio v (v_prio v - sum_priorities l / Z.of_nat (length l))) l.

(** [a] is ahead of [b]: higher priority, lower address on ties *)
Definition beats (a b : validator) : Prop :=
  v_prio b < v_prio a \/ (v_prio a = v_prio b /\ (v_addr a < v_addr b)%N).
Definition is_proposer (l : list validator) (p : validator) : Prop :=
  In p l /\ forall w, In w l -> v_addr w <> v_addr p -> beats p w.

Definition advance (l : list validator) : list validator :=
  map (fun v => set_prio v (v_prio v + v_power v)) l.
Definition pay (T : Z) (a : N) (l : list validator) : list validator :=
  map (fun v => if N.eqb (v_addr v) a then set_prio v (v_prio v - T) else v) l.

(** one round; [a] is the proposer's address *)
Definition spec_round (l l' : list validator) (a : N) : Prop :=
  exists p, is_proposer (advance l) p /\ a = v_addr p /\ l' = pay (total_power l) a (advance l).

(** [k] rounds; the list of proposers, first round first *)
Inductive spec_rounds : nat -> list validator -> list validator -> list N -> Prop :=
| SR0 l : spec_rounds O l l []
| SRS k l l1 l2 a props : spec_round l l1 a -> spec_rounds k l1 l2 props -> spec_rounds (S k) l l2 (a :: props).

(** IncrementProposerPriority(k), k >= 1: window, centre, k rounds; the proposer of the set
    is the proposer of the last round *)
Definition spec_increment (l : list validator) (k : nat) (l' : list validator) (props : list N) : Prop :=
  exists l1 l2, spec_rescale (total_power l) l l1 /\ spec_centre l1 l2 /\ spec_rounds k l2 l' props.

(** change sets *)
Definition lookup (a : N) (l : list validator) : option validator :=
  find (fun v => N.eqb (v_addr v) a) l.

Definition spec_valid_changes (cap : Z) (l cs : list validator) : Prop :=
  NoDup (map v_addr cs) /\
  (forall c, In c cs -> 0 <= v_power c <= cap) /\
  (forall c, In c cs -> v_power c = 0 -> lookup (v_addr c) l <> None).

(** total power once the updates (power changes and additions) are applied and the removals
    are not yet: every entry with a positive power replaces the old power of that address *)
Definition old_power (l : list validator) (a : N) : Z :=
  match lookup a l with Some o => v_power o | None => 0 end.
Definition total_after_updates (l cs : list validator) : Z :=
  total_power l +
  fold_right (fun c acc => (if 0 <? v_power c then v_power c - old_power l (v_addr c) else 0) + acc) 0 cs.

(** [m] is the membership after the change set, with the priorities the specification assigns *)
Definition spec_members (l cs m : list validator) : Prop :=
  let T' := total_after_updates l cs in
  NoDup (map v_addr m) /\
  forall v, In v m <->
    (In v l /\ lookup (v_addr v) cs = None) \/
    (exists c, In c cs /\ 0 < v_power c /\ v_addr v = v_addr c /\ v_power v = v_power c /\
               v_prio v = match lookup (v_addr c) l with
                          | Some old => v_prio old
                          | None => - (T' + T' / 8)
                          end).

Definition by_power_then_address (a b : validator) : Prop :=
  v_power b < v_power a \/ (v_power a = v_power b /\ (v_addr a < v_addr b)%N).

Definition spec_update (cap : Z) (l cs l' : list validator) : Prop :=
  spec_valid_changes cap l cs /\
  exists m m1 m2, spec_members l cs m /\ m <> [] /\ total_power m <= cap /\
    spec_rescale (total_power m) m m1 /\ spec_centre m1 m2 /\
    Permutation m2 l' /\ StronglySorted by_power_then_address l'.
