(** C12 — the successful path of updateWithChangeSet on a well-formed set: no int64
    operation wraps, the result is well-formed (distinct addresses, positive powers, total
    below the cap, consistent cache), centred, within the window, sorted by the final sort. *)
From Coq Require Import List ZArith NArith Bool Lia Permutation Sorted.
From Kardia Require Import Base.Int64 Base.ListX C12.Model C12.Spec C12.ProofsSort C12.ProofsUpdate
     C12.ProofsSpec C12.ProofsFair C12.ProofsRefine Generated.C12Facts.
Import ListNotations.
Local Open Scope Z_scope.

(* ------------------------------------------------------------------ *)
(** * sums of looked-up powers *)

Definition look (vals : list validator) (x : validator) : Z :=
  match get_by_addr (v_addr x) vals with Some v => v_power v | None => 0 end.
Definition lsum (vals xs : list validator) : Z := fold_right (fun x a => look vals x + a) 0 xs.

Lemma look_nonneg vals x : (forall v, In v vals -> 0 < v_power v) -> 0 <= look vals x.
Proof.
  intros Pp. unfold look. induction vals as [|h t IH]; cbn [get_by_addr]; [lia|].
  destruct (N.eqb (v_addr x) (v_addr h)).
  - specialize (Pp h (or_introl eq_refl)). lia.
  - apply IH. intros v Hv. apply Pp. now right.
Qed.

Lemma lsum_nonneg vals xs : (forall v, In v vals -> 0 < v_power v) -> 0 <= lsum vals xs.
Proof.
  intros Pp. induction xs as [|x t IH]; cbn [lsum fold_right]; [lia|].
  fold (lsum vals t). pose proof (look_nonneg vals x Pp). lia.
Qed.

Lemma lsum_app vals xs ys : lsum vals (xs ++ ys) = lsum vals xs + lsum vals ys.
Proof.
  induction xs as [|x t IH]; cbn [app lsum fold_right]; [reflexivity|].
  fold (lsum vals (t ++ ys)) (lsum vals t). lia.
Qed.

Lemma lsum_perm vals xs ys : Permutation xs ys -> lsum vals xs = lsum vals ys.
Proof.
  intros P. induction P; cbn [lsum fold_right]; try fold (lsum vals l) (lsum vals l'); lia.
Qed.

Lemma lsum_cons_not_in h t xs :
  ~ In (v_addr h) (map v_addr xs) -> lsum (h :: t) xs = lsum t xs.
Proof.
  induction xs as [|x r IH]; intros NI; [reflexivity|].
  cbn [lsum fold_right]. fold (lsum (h :: t) r) (lsum t r). cbn [map In] in NI.
  rewrite IH by tauto. f_equal. unfold look. cbn [get_by_addr].
  destruct (N.eqb_spec (v_addr x) (v_addr h)) as [E|E]; [exfalso; apply NI; now left|reflexivity].
Qed.

Lemma lsum_cons_le h t xs :
  NoDup (map v_addr xs) -> (forall v, In v (h :: t) -> 0 < v_power v) ->
  lsum (h :: t) xs <= v_power h + lsum t xs.
Proof.
  intros N Pp. induction xs as [|x r IH]; cbn [lsum fold_right].
  - specialize (Pp h (or_introl eq_refl)). lia.
  - fold (lsum (h :: t) r) (lsum t r). cbn [map] in N. inversion N as [|? ? Nx Nr]; subst.
    pose proof (look_nonneg t x (fun v Hv => Pp v (or_intror Hv))) as L.
    unfold look in *. cbn [get_by_addr].
    destruct (N.eqb_spec (v_addr x) (v_addr h)) as [E|E].
    + rewrite lsum_cons_not_in by (rewrite <- E; exact Nx). lia.
    + specialize (IH Nr). lia.
Qed.

Lemma lsum_le_total vals xs :
  NoDup (map v_addr xs) -> (forall v, In v vals -> 0 < v_power v) -> lsum vals xs <= total_power vals.
Proof.
  intros N. induction vals as [|h t IH]; intros Pp.
  - induction xs as [|x r IHx]; cbn [lsum fold_right total_power]; [lia|].
    cbn [map] in N. inversion N; subst. fold (lsum [] r). specialize (IHx H2). unfold look. cbn. cbn in IHx. lia.
  - cbn [total_power fold_right]. fold (total_power t).
    pose proof (lsum_cons_le h t xs N Pp). specialize (IH (fun v Hv => Pp v (or_intror Hv))). lia.
Qed.

(* ------------------------------------------------------------------ *)
(** * verifyRemovals *)

Lemma removed_power_exact vals dels : forall acc r,
  (forall v, In v vals -> 0 < v_power v) -> 0 <= acc -> acc + lsum vals dels <= max_int64 ->
  removed_power dels vals acc = (r, true) ->
  r = acc + lsum vals dels /\ forall d, In d dels -> get_by_addr (v_addr d) vals <> None.
Proof.
  induction dels as [|d t IH]; intros acc r Pp A0 Hb H; cbn [removed_power] in H.
  - inversion H; subst. cbn. split; [lia|intros ? []].
  - cbn [lsum fold_right] in Hb. fold (lsum vals t) in Hb.
    pose proof (look_nonneg vals d Pp) as L0. pose proof (lsum_nonneg vals t Pp) as L1.
    unfold look in Hb, L0. destruct (get_by_addr (v_addr d) vals) as [v|] eqn:G; [|discriminate].
    rewrite wrap64_id in H by i64.
    destruct (IH (acc + v_power v) r Pp ltac:(lia) ltac:(lia) H) as [-> F]. split.
    + cbn [lsum fold_right]. fold (lsum vals t). unfold look. rewrite G. lia.
    + intros x [<-|Hx]; [congruence|now apply F].
Qed.

(* ------------------------------------------------------------------ *)
(** * verifyUpdates: every running total is exact and non-negative *)

Lemma delta_exact vals u :
  (forall v, In v vals -> 0 < v_power v <= max_total_voting_power) ->
  0 <= v_power u <= max_total_voting_power ->
  delta vals u = v_power u - look vals u.
Proof.
  intros Pp Pu. unfold delta, look. destruct (get_by_addr (v_addr u) vals) as [v|] eqn:G; [|lia].
  assert (In v vals) as Hv.
  { clear - G. induction vals as [|h t IH]; [discriminate|]. cbn [get_by_addr] in G.
    destruct (N.eqb (v_addr u) (v_addr h)); [inversion G; now left|right; now apply IH]. }
  specialize (Pp v Hv). apply wrap64_id. i64.
Qed.

Lemma add_deltas_bounds vals us : forall acc r,
  (forall v, In v vals -> 0 < v_power v <= max_total_voting_power) ->
  (forall u, In u us -> 0 <= v_power u <= max_total_voting_power) ->
  lsum vals us <= acc <= max_total_voting_power ->
  add_deltas vals us acc = Some r -> 0 <= r <= max_total_voting_power.
Proof.
  induction us as [|u t IH]; intros acc r Pp Pu Hacc H; cbn [add_deltas] in H.
  - inversion H; subst. cbn in Hacc. lia.
  - cbn [lsum fold_right] in Hacc. fold (lsum vals t) in Hacc.
    rewrite (delta_exact vals u Pp (Pu u (or_introl eq_refl))) in H.
    pose proof (look_nonneg vals u (fun v Hv => proj1 (Pp v Hv))) as L0.
    pose proof (lsum_nonneg vals t (fun v Hv => proj1 (Pp v Hv))) as L1.
    pose proof (Pu u (or_introl eq_refl)) as Pu0.
    rewrite wrap64_id in H by i64.
    destruct (Z.ltb_spec max_total_voting_power (acc + (v_power u - look vals u))) as [L|L]; [discriminate|].
    apply (IH _ _ Pp (fun x Hx => Pu x (or_intror Hx))) in H; [exact H|lia].
Qed.

(* ------------------------------------------------------------------ *)
(** * merge and removal keep the addresses distinct *)

Lemma merge_in ex : forall ups x, In x (merge_updates ex ups) -> In x ex \/ In x ups.
Proof.
  induction ex as [|e ex' IHe]; intros ups x H.
  - destruct ups; cbn in H; auto.
  - induction ups as [|u ups' IHu]; [cbn in H; auto|].
    cbn [merge_updates] in H.
    destruct (N.ltb (v_addr e) (v_addr u)).
    + destruct H as [<-|H]; [left; now left|]. apply IHe in H. destruct H; [left; now right|now right].
    + destruct (N.eqb (v_addr e) (v_addr u)).
      * destruct H as [<-|H]; [right; now left|]. apply IHe in H. destruct H; [left; now right|right; now right].
      * destruct H as [<-|H]; [right; now left|].
        apply IHu in H. destruct H; [now left|right; now right].
Qed.

Lemma merge_sorted ex : forall ups,
  StronglySorted addr_slt ex -> StronglySorted addr_slt ups -> StronglySorted addr_slt (merge_updates ex ups).
Proof.
  induction ex as [|e ex' IHe]; intros ups Se Su.
  - destruct ups; cbn; assumption.
  - induction ups as [|u ups' IHu]; [cbn; assumption|].
    inversion Se as [|? ? Se' Fe]; subst. inversion Su as [|? ? Su' Fu]; subst.
    rewrite Forall_forall in Fe, Fu.
    cbn [merge_updates].
    destruct (N.ltb_spec (v_addr e) (v_addr u)) as [L|L].
    + constructor; [apply IHe; assumption|]. rewrite Forall_forall. intros x Hx.
      apply merge_in in Hx. destruct Hx as [Hx|[<-|Hx]]; [now apply Fe|exact L|].
      specialize (Fu x Hx). unfold addr_slt in *. lia.
    + destruct (N.eqb_spec (v_addr e) (v_addr u)) as [E|E].
      * constructor; [apply IHe; assumption|]. rewrite Forall_forall. intros x Hx.
        apply merge_in in Hx. destruct Hx as [Hx|Hx].
        -- specialize (Fe x Hx). unfold addr_slt in *. lia.
        -- now apply Fu.
      * constructor; [apply IHu; assumption|]. rewrite Forall_forall. intros x Hx.
        change ((fix inner (ups : list validator) : list validator :=
                   match ups with
                   | [] => e :: ex'
                   | u0 :: ups'0 =>
                     if (v_addr e <? v_addr u0)%N then e :: merge_updates ex' ups
                     else if (v_addr e =? v_addr u0)%N then u0 :: merge_updates ex' ups'0
                          else u0 :: inner ups'0
                   end) ups') with (merge_updates (e :: ex') ups') in Hx.
        apply merge_in in Hx. destruct Hx as [[<-|Hx]|Hx].
        -- unfold addr_slt. lia.
        -- specialize (Fe x Hx). unfold addr_slt in *. lia.
        -- now apply Fu.
Qed.

Lemma apply_removals_sub ex : forall dels r,
  apply_removals ex dels = Some r -> NoDup (map v_addr ex) ->
  NoDup (map v_addr r) /\ (forall x, In x r -> In x ex).
Proof.
  induction ex as [|e et IH]; intros dels r H N.
  - destruct dels; cbn in H; [inversion H; subst; split; [constructor|auto]|discriminate].
  - destruct dels as [|d dt]; [cbn in H; inversion H; subst; auto|].
    cbn [apply_removals] in H. cbn [map] in N. inversion N as [|? ? Ne Nt]; subst.
    destruct (N.eqb (v_addr e) (v_addr d)).
    + destruct (IH _ _ H Nt) as [N' S']. split; [exact N'|]. intros x Hx. right. now apply S'.
    + destruct (apply_removals et (d :: dt)) as [r'|] eqn:R; [|discriminate]. inversion H; subst.
      destruct (IH _ _ R Nt) as [N' S']. split.
      * cbn [map]. constructor; [|exact N']. intros Hin. apply Ne.
        apply in_map_iff in Hin. destruct Hin as (y & Ey & Hy). rewrite <- Ey. apply in_map. now apply S'.
      * intros x [<-|Hx]; [now left|right; now apply S'].
Qed.

(* ------------------------------------------------------------------ *)
(** * well-formedness is invariant under permutation *)

Lemma total_power_perm l l' : Permutation l l' -> total_power l = total_power l'.
Proof.
  intros P. induction P; cbn [total_power fold_right]; try fold (total_power l) (total_power l'); lia.
Qed.

Lemma wf_vals_perm l l' : Permutation l l' -> wf_vals l -> wf_vals l'.
Proof.
  intros P (NE & N & Pp & C). repeat split.
  - intros ->. apply Permutation_sym, Permutation_nil in P. congruence.
  - eapply Permutation_NoDup; [apply Permutation_map, P|exact N].
  - intros v Hv. apply Pp. eapply Permutation_in; [apply Permutation_sym, P|exact Hv].
  - rewrite <- (total_power_perm _ _ P). exact C.
Qed.

Lemma sum_clip_some l : forall acc t,
  (forall v, In v l -> 0 < v_power v <= max_total_voting_power) -> 0 <= acc <= max_total_voting_power ->
  sum_clip l acc = Some t -> t = acc + total_power l /\ t <= max_total_voting_power.
Proof.
  induction l as [|h r IH]; intros acc t Pp A H; cbn [sum_clip] in H.
  - inversion H; subst. cbn. lia.
  - pose proof (Pp h (or_introl eq_refl)) as Ph.
    rewrite safe_add_clip'_exact in H by i64.
    destruct (Z.ltb_spec max_total_voting_power (acc + v_power h)) as [L|L]; [discriminate|].
    apply IH in H; [|intros; apply Pp; now right|lia].
    cbn [total_power fold_right]. fold (total_power r). lia.
Qed.

Lemma get_by_addr_in a l v : get_by_addr a l = Some v -> In v l /\ v_addr v = a.
Proof.
  induction l as [|h t IH]; [discriminate|]. cbn [get_by_addr].
  destruct (N.eqb_spec a (v_addr h)) as [E|E].
  - intros H; inversion H; subst. split; [now left|reflexivity].
  - intros H. destruct (IH H). split; [now right|assumption].
Qed.

Lemma filter_sorted {A} (R : A -> A -> Prop) f l : StronglySorted R l -> StronglySorted R (filter f l).
Proof.
  induction l as [|h t IH]; intros S; [constructor|]. inversion S as [|? ? St Fh]; subst.
  cbn [filter]. destruct (f h); [|now apply IH]. constructor; [now apply IH|].
  rewrite Forall_forall in *. intros x Hx. apply filter_In in Hx. now apply Fh.
Qed.

Lemma filter_split_perm {A} (f : A -> bool) l :
  Permutation (filter (fun x => negb (f x)) l ++ filter f l) l.
Proof.
  induction l as [|h t IH]; [reflexivity|]. cbn [filter].
  destruct (f h); cbn [negb app].
  - apply Permutation_sym. apply Permutation_cons_app. now apply Permutation_sym.
  - now constructor.
Qed.

Lemma nodup_app_inv {A} (l1 l2 : list A) : NoDup (l1 ++ l2) -> NoDup l1 /\ NoDup l2.
Proof.
  induction l1 as [|h t IH]; cbn [app]; intros N; [split; [constructor|exact N]|].
  inversion N as [|? ? Nh Nt]; subst. destruct (IH Nt) as [N1 N2]. split; [|exact N2].
  constructor; [|exact N1]. intros Hin. apply Nh. apply in_or_app. now left.
Qed.

(* ------------------------------------------------------------------ *)
(** * the theorem *)

Lemma update_preserves_gen s cs allow s' :
  NoDup (map v_addr (vs_vals s)) -> (forall v, In v (vs_vals s) -> 0 < v_power v) ->
  total_power (vs_vals s) <= max_total_voting_power ->
  total_voting_power s = Some (s, total_power (vs_vals s)) ->
  bounded B0 (vs_vals s) -> cs <> [] ->
  update_with_change_set s cs allow = Some (s', UOk) ->
  wf_set s' /\ vs_proposer s' = vs_proposer s /\
  within_window (2 * total_power (vs_vals s')) (vs_vals s') /\
  0 <= sum_prio (vs_vals s') < Z.of_nat (length (vs_vals s')) /\
  bounded (2 * total_power (vs_vals s')) (vs_vals s') /\
  StronglySorted (fun a b => power_lt b a = false) (vs_vals s').
Proof.
  intros Nv Ppv Cv Htv HB NE H. pose proof (update_ok_path _ _ _ _ NE H) as P. destruct_path P.
  rewrite Htv in Htot. inversion Htot; subst s0 total. clear Htot.
  set (vals := vs_vals s) in *. set (T := total_power vals) in *.
  destruct (process_ok_valid _ _ _ Hprocess) as ([Ncs Fcs] & Eu & Ed).
  set (scs := sort_by addr_lt cs) in *.
  assert (StronglySorted addr_slt scs) as Sscs.
  { apply sorted_nodup_strict; [apply sort_addr_sorted|].
    eapply Permutation_NoDup; [apply Permutation_map, Permutation_sym, sort_by_perm|exact Ncs]. }
  assert (forall c, In c scs -> 0 <= v_power c <= max_total_voting_power) as Pscs.
  { intros c Hc. rewrite Forall_forall in Fcs. apply Fcs.
    eapply Permutation_in; [apply sort_by_perm|exact Hc]. }
  assert (forall u, In u ups -> 0 < v_power u <= max_total_voting_power) as Pups.
  { intros u Hu. rewrite Eu in Hu. apply filter_In in Hu. destruct Hu as [Hu Hz].
    specialize (Pscs u Hu). destruct (Z.eqb_spec (v_power u) 0); [discriminate|lia]. }
  assert (forall v, In v vals -> 0 < v_power v <= max_total_voting_power) as Pvals.
  { intros v Hv. split; [now apply Ppv|]. pose proof (power_le_total _ _ Ppv Hv). lia. }
  assert (NoDup (map v_addr (ups ++ dels))) as Nud.
  { eapply Permutation_NoDup; [apply Permutation_map, Permutation_sym|apply strict_sorted_nodup, Sscs].
    rewrite Eu, Ed. apply filter_split_perm. }
  (* removals *)
  unfold verify_removals in Hverify_rem.
  destruct (removed_power dels vals 0) as [rp ok] eqn:RP.
  destruct ok; cbn [negb] in Hverify_rem; [|discriminate].
  destruct (Nat.ltb (length vals) (length dels)); [discriminate|]. inversion Hverify_rem; subst rp. clear Hverify_rem.
  assert (NoDup (map v_addr ups) /\ NoDup (map v_addr dels)) as [Nu Nd].
  { rewrite map_app in Nud. now apply nodup_app_inv in Nud. }
  pose proof (lsum_le_total vals dels Nd Ppv) as Ldel.
  destruct (removed_power_exact vals dels 0 removed Ppv ltac:(lia) ltac:(fold T in Ldel; i64) RP) as [Erem _].
  assert (removed = lsum vals dels) as Erem' by lia. clear Erem. rename Erem' into Erem.
  pose proof (lsum_nonneg vals dels Ppv) as Lrem0.
  (* updates *)
  unfold verify_updates in Hverify_upd.
  set (sups := sort_by (fun a b => delta vals a <? delta vals b) ups) in *.
  assert (Permutation sups ups) as Psups by apply sort_by_perm.
  destruct (add_deltas vals sups (wrap64 (T - removed))) as [tvp'|] eqn:AD; [|discriminate].
  inversion Hverify_upd; subst tvp. clear Hverify_upd.
  rewrite wrap64_id in AD by (fold T in Ldel; i64).
  assert (0 <= tvp' <= max_total_voting_power) as Btvp.
  { eapply add_deltas_bounds; [exact Pvals| |split|exact AD].
    - intros u Hu. apply (Permutation_in _ Psups) in Hu. specialize (Pups u Hu). lia.
    - rewrite (lsum_perm vals _ _ Psups).
      pose proof (lsum_le_total vals (ups ++ dels) Nud Ppv) as L. rewrite lsum_app in L. fold T in L. lia.
    - fold T in Cv. lia. }
  rewrite wrap64_id in * by (fold T in Ldel; i64).
  set (tvp := tvp' + removed) in *.
  assert (0 <= tvp <= 2 * max_total_voting_power) as Btvp2 by (fold T in Ldel, Cv; unfold tvp; lia).
  (* new priorities *)
  set (ups' := new_priorities ups vals tvp) in *.
  assert (map v_addr ups' = map v_addr ups /\ map v_power ups' = map v_power ups) as [Aup Pup].
  { unfold ups', new_priorities. rewrite !map_map. split; apply map_ext; intros u;
      destruct (get_by_addr (v_addr u) vals); reflexivity. }
  assert (bounded B0 ups') as Bups.
  { intros u' Hu'. unfold ups', new_priorities in Hu'. apply in_map_iff in Hu'. destruct Hu' as (u & <- & Hu).
    destruct (get_by_addr (v_addr u) vals) as [v|] eqn:G; cbn [set_prio v_prio].
    - apply HB. now apply get_by_addr_in in G.
    - assert (0 <= Z.shiftr tvp 3 <= tvp) as Bs.
      { rewrite Z.shiftr_div_pow2 by lia. change (2 ^ 3) with 8.
        pose proof (Z.div_mod tvp 8 ltac:(lia)). pose proof (Z.mod_pos_bound tvp 8 ltac:(lia)). lia. }
      rewrite (wrap64_id (tvp + Z.shiftr tvp 3)) by i64.
      rewrite wrap64_id by i64.
      assert (Z.shiftr tvp 3 * 8 <= tvp) as S8.
      { rewrite Z.shiftr_div_pow2 by lia. change (2 ^ 3) with 8.
        pose proof (Z.div_mod tvp 8 ltac:(lia)). pose proof (Z.mod_pos_bound tvp 8 ltac:(lia)). lia. }
      i64. }
  (* membership after merge and removal *)
  unfold apply_updates in Happly.
  set (svals := sort_by addr_lt vals) in *.
  assert (Permutation svals vals) as Psv by apply sort_by_perm.
  assert (StronglySorted addr_slt svals) as Ssv.
  { apply sorted_nodup_strict; [apply sort_addr_sorted|].
    eapply Permutation_NoDup; [apply Permutation_map, Permutation_sym, Psv|exact Nv]. }
  assert (StronglySorted addr_slt ups') as Sup'.
  { assert (StronglySorted addr_slt ups) as Sup by (rewrite Eu; now apply filter_sorted).
    clear - Sup Aup. revert Aup. generalize ups'. induction Sup as [|u t St IH Fu]; intros [|u' t'] A; try discriminate; [constructor|].
    cbn [map] in A. inversion A as [[A1 A2]]. constructor; [now apply IH|].
    rewrite Forall_forall in *. intros x Hx.
    assert (In (v_addr x) (map v_addr t)) as Hin by (rewrite <- A2; now apply in_map).
    apply in_map_iff in Hin. destruct Hin as (y & Ey & Hy). specialize (Fu y Hy). unfold addr_slt in *. lia. }
  pose proof (merge_sorted svals ups' Ssv Sup') as Smerged.
  destruct (apply_removals_sub _ _ _ Happly (strict_sorted_nodup _ Smerged)) as [Nl2 Sub2].
  assert (forall x, In x l2 -> In x vals \/ In x ups') as Mem2.
  { intros x Hx. apply Sub2, merge_in in Hx. destruct Hx as [Hx|Hx]; [left|now right].
    eapply Permutation_in; [exact Psv|exact Hx]. }
  assert (forall v, In v l2 -> 0 < v_power v <= max_total_voting_power) as Pl2.
  { intros v Hv. destruct (Mem2 v Hv) as [Hx|Hx]; [now apply Pvals|].
    assert (In (v_power v) (map v_power ups')) as Hin by now apply in_map.
    rewrite Pup in Hin. apply in_map_iff in Hin. destruct Hin as (u & <- & Hu). now apply Pups. }
  assert (bounded B0 l2) as Bl2.
  { intros v Hv. destruct (Mem2 v Hv) as [Hx|Hx]; [now apply HB|now apply Bups]. }
  (* recomputed total *)
  destruct (update_total_fields _ _ Hupd_total) as (V1 & Pr1 & SC). cbn [with_vals vs_vals vs_proposer] in V1, Pr1, SC.
  destruct (sum_clip_some l2 0 (vs_total s1) Pl2 ltac:(i64) SC) as [Et1 Ct1]. rewrite Z.add_0_l in Et1.
  assert (wf_vals l2) as Wl2.
  { repeat split; [exact Hl2_ne|exact Nl2|intros v Hv; apply Pl2, Hv|lia]. }
  assert (wf_set s1) as Ws1 by (split; [rewrite V1; exact Wl2|rewrite V1; exact Et1]).
  rewrite (wf_total_voting_power _ Ws1) in Htot2. inversion Htot2; subst s2 t2. clear Htot2.
  rewrite V1 in *.
  pose proof (wf_total_pos _ Wl2) as T2pos.
  destruct (model_renormalise l2 (total_power l2) Hl2_ne ltac:(lia) Bl2) as
      (l3' & l4' & R3 & R4 & _ & _ & Win & Sum & Bnd & A4 & P4).
  rewrite Hrescale in R3. inversion R3; subst l3'. rewrite Hshift in R4. inversion R4; subst l4'.
  subst s'. cbn [with_vals vs_vals vs_proposer vs_total].
  assert (Permutation (sort_by power_lt l4) l4) as Ps4 by apply sort_by_perm.
  assert (wf_vals l4) as Wl4 by (eapply wf_vals_fields; eassumption).
  assert (total_power (sort_by power_lt l4) = total_power l2) as ET4.
  { rewrite (total_power_perm _ _ Ps4). now apply total_power_map. }
  rewrite ET4.
  split; [|split; [|split; [|split; [|split]]]].
  - split; cbn [vs_vals vs_total].
    + eapply wf_vals_perm; [apply Permutation_sym, Ps4|exact Wl4].
    + cbn [with_vals vs_vals vs_total]. rewrite ET4. exact Et1.
  - rewrite Pr1. reflexivity.
  - intros v w Hv Hw. apply Win; eapply Permutation_in; try exact Ps4; assumption.
  - rewrite sum_prio_eq in *. rewrite (Permutation_length Ps4).
    assert (sum_priorities (sort_by power_lt l4) = sum_priorities l4) as ->; [|exact Sum].
    clear - Ps4. induction Ps4; cbn [sum_priorities fold_right];
      try fold (sum_priorities l) (sum_priorities l'); lia.
  - intros v Hv. apply Bnd. eapply Permutation_in; [exact Ps4|exact Hv].
  - (* the final insertion sort orders by (power descending, address ascending) *)
    clear. induction l4 as [|h t IH]; cbn [sort_by fold_right]; [constructor|].
    fold (sort_by power_lt t).
    assert (forall x l, StronglySorted (fun a b => power_lt b a = false) l ->
                        StronglySorted (fun a b => power_lt b a = false) (insert_by power_lt x l)) as INS.
    { clear. intros x l S. induction S as [|a r Sr IHr Fa]; cbn [insert_by]; [repeat constructor|].
      destruct (power_lt a x) eqn:Lax.
      - constructor; [exact IHr|]. rewrite Forall_forall in *. intros y Hy.
        apply (Permutation_in _ (insert_by_perm power_lt x r)) in Hy. destruct Hy as [<-|Hy]; [|now apply Fa].
        (* power_lt a x = true -> power_lt x a = false *)
        unfold power_lt in *. destruct (Z.eqb_spec (v_power a) (v_power x)) as [E|E].
        + rewrite E, Z.eqb_refl. apply N.ltb_lt in Lax. apply N.ltb_ge. lia.
        + destruct (Z.eqb_spec (v_power x) (v_power a)); [congruence|].
          apply Z.ltb_lt in Lax. apply Z.ltb_ge. lia.
      - constructor; [constructor; assumption|]. constructor; [exact Lax|].
        rewrite Forall_forall in *. intros y Hy. specialize (Fa y Hy).
        (* not (a < x), not (y < a) -> not (y < x): transitivity of the total preorder *)
        unfold power_lt in *.
        destruct (Z.eqb_spec (v_power a) (v_power x)) as [E1|E1];
          destruct (Z.eqb_spec (v_power y) (v_power a)) as [E2|E2];
          destruct (Z.eqb_spec (v_power y) (v_power x)) as [E3|E3]; try lia.
        all: repeat match goal with
                    | Hh : Z.ltb _ _ = false |- _ => apply Z.ltb_ge in Hh
                    | Hh : N.ltb _ _ = false |- _ => apply N.ltb_ge in Hh
                    end;
          first [apply Z.ltb_ge; lia | apply N.ltb_ge; lia | lia]. }
    apply INS, IH.
Qed.

Theorem update_preserves s cs allow s' :
  wf_set s -> bounded B0 (vs_vals s) -> cs <> [] ->
  update_with_change_set s cs allow = Some (s', UOk) ->
  wf_set s' /\ vs_proposer s' = vs_proposer s /\
  within_window (2 * total_power (vs_vals s')) (vs_vals s') /\
  0 <= sum_prio (vs_vals s') < Z.of_nat (length (vs_vals s')) /\
  bounded (2 * total_power (vs_vals s')) (vs_vals s') /\
  StronglySorted (fun a b => power_lt b a = false) (vs_vals s').
Proof.
  intros W HB NE H. pose proof W as [(NEv & Nv & Ppv & Cv) ET].
  exact (update_preserves_gen s cs allow s' Nv Ppv Cv (wf_total_voting_power _ W) HB NE H).
Qed.

Lemma two_T_le_B0 l : wf_vals l -> 2 * total_power l <= B0.
Proof. intros (_ & _ & _ & C). i64. Qed.

(** NewValidatorSet: on success (no panic) a non-empty input gives a well-formed set within
    the bounds, with a proposer that is a member *)
Theorem new_validator_set_good vals s :
  vals <> [] -> new_validator_set vals = Some s ->
  wf_set s /\ bounded B0 (vs_vals s) /\
  exists a p, vs_proposer s = Some (a, p) /\ exists m, In m (vs_vals s) /\ v_addr m = a /\ v_power m = p.
Proof.
  intros NE H. unfold new_validator_set in H.
  destruct (update_with_change_set empty_vset vals false) as [[s1 e]|] eqn:U; [|discriminate].
  destruct e; try discriminate. destruct vals as [|v0 vt]; [congruence|].
  assert (total_power (vs_vals empty_vset) <= max_total_voting_power) as C0
    by (unfold max_total_voting_power; cbn; lia).
  destruct (update_preserves_gen empty_vset (v0 :: vt) false s1 (NoDup_nil _)
              (fun v (Hv : In v []) => match Hv with end) C0 eq_refl
              (fun v (Hv : In v []) => match Hv with end) ltac:(discriminate) U)
    as (W1 & _ & _ & _ & B1 & _).
  pose proof (two_T_le_B0 _ (proj1 W1)) as TB.
  assert (bounded B0 (vs_vals s1)) as B1' by (intros v Hv; specialize (B1 v Hv); lia).
  destruct (increment_refines s1 1%positive W1 B1') as (s' & props & a & p & E & _ & _ & Pr & Mem & W' & _ & B').
  { destruct W1 as [(_ & _ & _ & C) _]. i64. }
  change 1 with (Z.pos 1) in H. rewrite E in H. inversion H; subst s'.
  split; [exact W'|]. split.
  - intros v Hv. specialize (B' v Hv). destruct W1 as [(_ & _ & _ & C) _].
    assert ((1 + 2) * total_power (vs_vals s1) <= B0) by i64. lia.
  - exists a, p. split; [exact Pr|exact Mem].
Qed.

(* ------------------------------------------------------------------ *)
(** * histories *)

Inductive hop := HInc (times : positive) | HUpd (changes : list validator).

(** the side condition under which absence of overflow is proved for a call *)
Definition hop_ok (s : vset) (o : hop) : Prop :=
  match o with
  | HInc times => (Z.pos times + 2) * total_power (vs_vals s) <= B0
  | HUpd _ => True
  end.

Definition good (s : vset) : Prop := wf_set s /\ bounded B0 (vs_vals s).

(** one operation on a good set: no panic; an increment computes the specified round-robin
    exactly, an update either is rejected and leaves the set as it is, or yields a
    well-formed, centred set within the window; the result is good again *)
Theorem hop_preserves_good s o :
  good s -> hop_ok s o ->
  match o with
  | HInc times =>
    exists s' props, increment s (Z.pos times) = Some s' /\ good s' /\
      spec_increment (vs_vals s) (Pos.to_nat times) (vs_vals s') props /\
      exists p, vs_proposer s' = Some (last props 0%N, p)
  | HUpd cs =>
    forall s' e, update_with_change_set s cs true = Some (s', e) ->
      match e with
      | UOk => good s' /\
          (cs <> [] -> within_window (2 * total_power (vs_vals s')) (vs_vals s') /\
                       0 <= sum_prio (vs_vals s') < Z.of_nat (length (vs_vals s')))
      | _ => s' = s
      end
  end.
Proof.
  intros [W HB] OK. destruct o as [times|cs].
  - cbn [hop_ok] in OK.
    destruct (increment_refines s times W HB OK) as (s' & props & a & p & E & SI & L & Pr & _ & W' & _ & B').
    exists s', props. split; [exact E|]. split; [|split; [exact SI|]].
    + split; [exact W'|]. intros v Hv. specialize (B' v Hv). lia.
    + exists p. now rewrite L.
  - intros s' e U.
    assert (e <> UOk -> s' = s) as AT.
    { intros NEe. destruct (update_atomic _ _ _ _ _ U NEe) as [->|[Z0 _]]; [reflexivity|].
      exfalso. destruct W as [Wv E]. pose proof (wf_total_pos _ Wv). lia. }
    destruct e; try (apply AT; discriminate).
    destruct cs as [|c0 ct].
    { cbn in U. inversion U; subst. split; [split; assumption|congruence]. }
    destruct (update_preserves s (c0 :: ct) true s' W HB ltac:(discriminate) U) as (W' & _ & Win & Sum & B' & _).
    pose proof (two_T_le_B0 _ (proj1 W')) as TB.
    split; [split; [exact W'|intros v Hv; specialize (B' v Hv); lia]|]. intros _. split; assumption.
Qed.

(** the final insertion sort orders by (power descending, address ascending) *)
Lemma sort_power_sorted l : StronglySorted (fun a b => power_lt b a = false) (sort_by power_lt l).
Proof.
  induction l as [|h t IH]; cbn [sort_by fold_right]; [constructor|]. fold (sort_by power_lt t).
  revert IH. generalize (sort_by power_lt t). clear. intros l S.
  induction S as [|a r Sr IHr Fa]; cbn [insert_by]; [repeat constructor|].
  destruct (power_lt a h) eqn:Lax.
  - constructor; [exact IHr|]. rewrite Forall_forall in *. intros y Hy.
    apply (Permutation_in _ (insert_by_perm power_lt h r)) in Hy. destruct Hy as [<-|Hy]; [|now apply Fa].
    unfold power_lt in *. destruct (Z.eqb_spec (v_power a) (v_power h)) as [E|E].
    + rewrite E, Z.eqb_refl. apply N.ltb_lt in Lax. apply N.ltb_ge. lia.
    + destruct (Z.eqb_spec (v_power h) (v_power a)); [congruence|].
      apply Z.ltb_lt in Lax. apply Z.ltb_ge. lia.
  - constructor; [constructor; assumption|]. constructor; [exact Lax|].
    rewrite Forall_forall in *. intros y Hy. specialize (Fa y Hy).
    unfold power_lt in *.
    destruct (Z.eqb_spec (v_power a) (v_power h)) as [E1|E1];
      destruct (Z.eqb_spec (v_power y) (v_power a)) as [E2|E2];
      destruct (Z.eqb_spec (v_power y) (v_power h)) as [E3|E3]; try lia.
    all: repeat match goal with
                | Hh : Z.ltb _ _ = false |- _ => apply Z.ltb_ge in Hh
                | Hh : N.ltb _ _ = false |- _ => apply N.ltb_ge in Hh
                end;
      first [apply Z.ltb_ge; lia | apply N.ltb_ge; lia | lia].
Qed.
