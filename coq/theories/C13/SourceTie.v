(** C13 — tie of the model's guards and arithmetic to the Go SOURCE.
    [Generated/C13Source.v] is produced on every check by /verif/go2coq from /repo's working tree:
    every guard / integer expression of lib/merkle (getSplitPoint, SimpleProof.Verify, ValidateBasic,
    computeHashFromAunts), types/part_set.go (AddPart, Part.ValidateBasic, PartSetHeader.Equals/IsZero,
    IsComplete, GetReader, PartSetReader.Read, NewPartSetFromData), types/block.go and commit.go
    (Block.ValidateBasic, BlockID.Equal/IsZero/IsComplete, Commit.ValidateBasic, CommitSig.ValidateBasic),
    Proposal.ValidateBasic, DeriveSha's loop bounds, VerifyCommit, cstate validateBlock and the part
    loops of rawdb WriteBlock/ReadBlock, as Gallina over [Z] (Base/GoSem.v), with the [_atoms] lists
    naming the Go operands.  The lemmas below are, wherever the model has the function, EQUATIONS of
    the model's own definition: the model function equals the cascade of the source guards applied to
    the model's operands.  An edit of the Go source that changes a comparison, a constant, an operand
    or a guard's text changes the generated file and re-opens these obligations. *)
From Coq Require Import List ZArith NArith Bool Lia String.
From Kardia Require Import Base.Int64 Base.ListX Base.GoSem.
From Kardia Require Import Generated.C13Source.
From Kardia Require Import Generated.C13Facts C13.Model C13.ProofsMerkle.
Import ListNotations.
Local Open Scope Z_scope.

Local Ltac Zify.zify_post_hook ::= Z.div_mod_to_equations.

(* ------------------------------------------------------------------ conversions *)

Lemma Zeqb_N a b : Z.eqb (Z.of_N a) (Z.of_N b) = N.eqb a b.
Proof. destruct (N.eqb_spec a b); destruct (Z.eqb_spec (Z.of_N a) (Z.of_N b)); try reflexivity; lia. Qed.
Lemma Zltb_N a b : Z.ltb (Z.of_N a) (Z.of_N b) = N.ltb a b.
Proof. destruct (N.ltb_spec a b); destruct (Z.ltb_spec (Z.of_N a) (Z.of_N b)); try reflexivity; lia. Qed.
Lemma Zleb_N a b : Z.leb (Z.of_N a) (Z.of_N b) = N.leb a b.
Proof. destruct (N.leb_spec a b); destruct (Z.leb_spec (Z.of_N a) (Z.of_N b)); try reflexivity; lia. Qed.
Lemma forallb_ext' {A} (f g : A -> bool) l : (forall a, f a = g a) -> forallb f l = forallb g l.
Proof. intros E. induction l as [|x l IH]; [reflexivity|]. cbn [forallb]. rewrite E, IH. reflexivity. Qed.
Lemma Zeqb_nat a b : Z.eqb (Z.of_nat a) (Z.of_nat b) = Nat.eqb a b.
Proof. destruct (Nat.eqb_spec a b); destruct (Z.eqb_spec (Z.of_nat a) (Z.of_nat b)); try reflexivity; lia. Qed.

(* ------------------------------------------------------------------ constants *)

Lemma src_consts :
  types__BlockPartSizeBytes = Z.of_N block_part_size_bytes /\
  types__MaxBlockPartsCount = Z.of_N max_block_parts_count /\
  types__MaxBlockSizeBytes = Z.of_N max_block_size_bytes.
Proof. repeat split; reflexivity. Qed.

(* ------------------------------------------------------------------ lib/merkle *)

(** getSplitPoint: with k = 1 << (bits.Len(length)-1) (the largest power of two not above length; the
    non-constant shift itself is outside the translated subset), the result is [k >> 1] when
    [k == length] and [k] otherwise — the model's [split_point] *)
Lemma src_split_point n : (n < 4611686018427387904)%N ->
  Z.of_N (split_point n) =
  let k := Z.of_N (2 ^ N.log2 n) in
  if lib_merkle__getSplitPoint__if_k_eq_length k (Z.of_N n) then lib_merkle__getSplitPoint__set_k_op k else k.
Proof.
  intros Hn. unfold split_point, lib_merkle__getSplitPoint__if_k_eq_length, lib_merkle__getSplitPoint__set_k_op. cbv zeta.
  rewrite Zeqb_N. destruct (N.eqb_spec (2 ^ N.log2 n) n) as [E|_]; [|reflexivity].
  unfold go_shr. rewrite wrap_id.
  - rewrite N2Z.inj_div. reflexivity.
  - unfold in_range. rewrite E. change (2 ^ 1) with 2. lia.
Qed.
Lemma src_split_point_atoms :
  lib_merkle__getSplitPoint__if_k_eq_length_atoms = ["k : int"; "length : int"]%string /\
  lib_merkle__getSplitPoint__set_k_op_atoms = ["k : int"]%string /\
  lib_merkle__getSplitPoint__if_length_lt_1_atoms = ["length : int"]%string.
Proof. repeat split; reflexivity. Qed.

(** computeHashFromAunts: the range test on (index, total) and the left/right decision *)
Lemma src_compute_rev_nil H i t lh :
  compute_rev H i t lh [] =
  if lib_merkle__computeHashFromAunts__if_index_ge_total_or_index_lt_0_or_total_le_0 i t then None
  else if Z.eqb t 1 then Some lh else None.
Proof. reflexivity. Qed.
Lemma src_compute_rev_cons H i t lh a ra :
  compute_rev H i t lh (a :: ra) =
  if lib_merkle__computeHashFromAunts__if_index_ge_total_or_index_lt_0_or_total_le_0 i t then None
  else if Z.eqb t 1 then None
  else let numLeft := Z.of_N (split_point (Z.to_N t)) in
       if lib_merkle__computeHashFromAunts__if_index_lt_numLeft i numLeft then
         match compute_rev H i numLeft lh ra with None => None | Some l => Some (inner_hash H l a) end
       else match compute_rev H (i - numLeft) (t - numLeft) lh ra with
            | None => None | Some r => Some (inner_hash H a r) end.
Proof. reflexivity. Qed.
(** (the [switch total] arms: total = 1 wants no aunts left, otherwise at least one) *)
Lemma src_compute_len_guards n :
  lib_merkle__computeHashFromAunts__if_len_innerHashes_ne_0 (Z.of_nat n) = negb (Nat.eqb n 0) /\
  lib_merkle__computeHashFromAunts__if_len_innerHashes_eq_0 (Z.of_nat n) = Nat.eqb n 0.
Proof.
  unfold lib_merkle__computeHashFromAunts__if_len_innerHashes_ne_0, lib_merkle__computeHashFromAunts__if_len_innerHashes_eq_0, go_neqb.
  change 0 with (Z.of_nat 0). rewrite Zeqb_nat. split; reflexivity.
Qed.
Lemma src_compute_atoms :
  lib_merkle__computeHashFromAunts__if_index_ge_total_or_index_lt_0_or_total_le_0_atoms = ["index : int"; "total : int"]%string /\
  lib_merkle__computeHashFromAunts__if_index_lt_numLeft_atoms = ["index : int"; "numLeft : int"]%string /\
  lib_merkle__computeHashFromAunts__if_len_innerHashes_ne_0_atoms = ["len(innerHashes) : int"]%string /\
  lib_merkle__computeHashFromAunts__if_len_innerHashes_eq_0_atoms = ["len(innerHashes) : int"]%string.
Proof. repeat split; reflexivity. Qed.

(** SimpleProof.Verify: leaf-hash comparison first, then the computed root against the given root *)
Lemma src_verify H r leaf p :
  verify H r leaf p =
  if lib_merkle__SimpleProof_Verify__if_not_bytes_Equal_sp_LeafHash_leafHash (bytes_eqb (p_leaf p) (leaf_hash H leaf)) then VLeafHash
  else if lib_merkle__SimpleProof_Verify__if_not_bytes_Equal_computedHash_rootHash
            (bytes_eqb (match compute_from_aunts H (to_int (p_index p)) (to_int (p_total p)) (p_leaf p) (p_aunts p) with
                        | Some h => h | None => [] end) r)
       then VRootHash else VOk.
Proof.
  unfold verify, lib_merkle__SimpleProof_Verify__if_not_bytes_Equal_sp_LeafHash_leafHash,
    lib_merkle__SimpleProof_Verify__if_not_bytes_Equal_computedHash_rootHash.
  destruct (bytes_eqb (p_leaf p) (leaf_hash H leaf)); cbn [negb]; [|reflexivity].
  match goal with |- context [bytes_eqb ?c r] => destruct (bytes_eqb c r) end; reflexivity.
Qed.
Lemma src_verify_atoms :
  lib_merkle__SimpleProof_Verify__if_not_bytes_Equal_sp_LeafHash_leafHash_atoms = ["bytes.Equal(sp.LeafHash, leafHash) : bool"]%string /\
  lib_merkle__SimpleProof_Verify__if_not_bytes_Equal_computedHash_rootHash_atoms = ["bytes.Equal(computedHash, rootHash) : bool"]%string /\
  (* dead on uint64, as the model says *)
  (forall t, (0 <= t)%Z -> lib_merkle__SimpleProof_Verify__if_sp_Total_lt_0 t = false) /\
  (forall i, (0 <= i)%Z -> lib_merkle__SimpleProof_Verify__if_sp_Index_lt_0 i = false).
Proof.
  repeat split; try reflexivity; intros z Hz;
    unfold lib_merkle__SimpleProof_Verify__if_sp_Total_lt_0, lib_merkle__SimpleProof_Verify__if_sp_Index_lt_0;
    apply Z.ltb_ge; exact Hz.
Qed.

(** SimpleProof.ValidateBasic: leaf hash and every aunt are [Size] = 32 bytes *)
Lemma src_proof_validate_basic p :
  proof_validate_basic p =
  (negb (lib_merkle__SimpleProof_ValidateBasic__if_len_sp_LeafHash_ne_Size (Z.of_nat (List.length (p_leaf p)))) &&
   forallb (fun a => negb (lib_merkle__SimpleProof_ValidateBasic__if_len_auntHash_ne_Size (Z.of_nat (List.length a)))) (p_aunts p))%bool.
Proof.
  unfold proof_validate_basic, lib_merkle__SimpleProof_ValidateBasic__if_len_sp_LeafHash_ne_Size,
    lib_merkle__SimpleProof_ValidateBasic__if_len_auntHash_ne_Size, go_neqb.
  change 32 with (Z.of_nat 32). rewrite Zeqb_nat, negb_involutive. f_equal.
  apply forallb_ext'. intros a. rewrite Zeqb_nat, negb_involutive. reflexivity.
Qed.
Lemma src_proof_validate_basic_atoms :
  lib_merkle__SimpleProof_ValidateBasic__if_len_sp_LeafHash_ne_Size_atoms = ["len(sp.LeafHash) : int"]%string /\
  lib_merkle__SimpleProof_ValidateBasic__if_len_auntHash_ne_Size_atoms = ["len(auntHash) : int"]%string.
Proof. split; reflexivity. Qed.

(* ------------------------------------------------------------------ types/part_set.go *)

Definition u64N (n : N) : Prop := (n < 18446744073709551616)%N.

Lemma src_addpart_index_guard i t :
  types__PartSet_AddPart__if_part_Index_ge_ps_total (Z.of_N i) (Z.of_N t) = N.leb t i.
Proof. unfold types__PartSet_AddPart__if_part_Index_ge_ps_total. rewrite Z.geb_leb. apply Zleb_N. Qed.

Lemma src_addpart_proof_guard pi i pt t : u64N i -> u64N t ->
  types__PartSet_AddPart__if_part_Proof_Index_ne_uint64_part_Index_or_part_Proof_Total_ne_9efbf145 (Z.of_N pi) (Z.of_N i) (Z.of_N pt) (Z.of_N t)
  = (negb (N.eqb pi i) || negb (N.eqb pt t))%bool.
Proof.
  unfold u64N. intros Hi Ht.
  unfold types__PartSet_AddPart__if_part_Proof_Index_ne_uint64_part_Index_or_part_Proof_Total_ne_9efbf145, go_neqb, go_conv.
  rewrite !wrap_id by (unfold in_range; lia). rewrite !Zeqb_N. reflexivity.
Qed.

(** PartSet.AddPart, whole: the model's [add_part] is the cascade of the source guards on the model's
    operands (index range; slot taken; proof index/total against part index / set total; Verify) *)
Lemma src_add_part H ps p : u64N (pt_index p) -> u64N (ps_total ps) ->
  add_part H ps p =
  if types__PartSet_AddPart__if_part_Index_ge_ps_total (Z.of_N (pt_index p)) (Z.of_N (ps_total ps))
  then (ps, (false, EUnexpectedIndex))
  else match nth_error (ps_parts ps) (N.to_nat (pt_index p)) with
       | None => (ps, (false, ECrash))
       | Some (Some _) => (ps, (false, ENone))
       | Some None =>
         if types__PartSet_AddPart__if_part_Proof_Index_ne_uint64_part_Index_or_part_Proof_Total_ne_9efbf145
              (Z.of_N (p_index (pt_proof p))) (Z.of_N (pt_index p)) (Z.of_N (p_total (pt_proof p))) (Z.of_N (ps_total ps))
         then (ps, (false, EInvalidProof))
         else match verify H (ps_hash ps) (pt_bytes p) (pt_proof p) with
              | VOk => ({| ps_total := ps_total ps; ps_hash := ps_hash ps;
                           ps_parts := set_nth (N.to_nat (pt_index p)) (Some p) (ps_parts ps);
                           ps_count := (ps_count ps + 1)%N |}, (true, ENone))
              | _ => (ps, (false, EInvalidProof))
              end
       end.
Proof.
  intros Hi Ht. rewrite src_addpart_index_guard, (src_addpart_proof_guard _ _ _ _ Hi Ht). reflexivity.
Qed.
Lemma src_add_part_atoms :
  types__PartSet_AddPart__if_part_Index_ge_ps_total_atoms = ["part.Index : uint32"; "ps.total : uint32"]%string /\
  types__PartSet_AddPart__if_part_Proof_Index_ne_uint64_part_Index_or_part_Proof_Total_ne_9efbf145_atoms
  = ["part.Proof.Index : uint64"; "part.Index : uint32"; "part.Proof.Total : uint64"; "ps.total : uint32"]%string.
Proof. split; reflexivity. Qed.

(** Part.ValidateBasic: at most BlockPartSizeBytes bytes — with the model's real limit *)
Lemma src_part_validate_basic bz :
  part_validate_basic block_part_size_bytes bz =
  negb (types__Part_ValidateBasic__if_len_part_Bytes_gt_BlockPartSizeBytes (Z.of_nat (List.length bz))).
Proof.
  unfold part_validate_basic, types__Part_ValidateBasic__if_len_part_Bytes_gt_BlockPartSizeBytes, block_part_size_bytes.
  rewrite Z.gtb_ltb, <- Z.leb_antisym. rewrite <- nat_N_Z. change 65536 with (Z.of_N 65536). rewrite Zleb_N. reflexivity.
Qed.
Lemma src_part_validate_basic_atoms :
  types__Part_ValidateBasic__if_len_part_Bytes_gt_BlockPartSizeBytes_atoms = ["len(part.Bytes) : int"]%string.
Proof. reflexivity. Qed.

(** PartSetHeader.Equals / IsZero, BlockID.Equal / IsZero *)
Lemma src_psheader_eqb a b :
  psheader_eqb a b =
  types__PartSetHeader_Equals__ret_psh_Total_eq_other_Total_and_common_Hash_Equal_psh_Hash_other_Hash
    (Z.of_N (psh_total a)) (Z.of_N (psh_total b)) (bytes_eqb (psh_hash a) (psh_hash b)).
Proof.
  unfold psheader_eqb, types__PartSetHeader_Equals__ret_psh_Total_eq_other_Total_and_common_Hash_Equal_psh_Hash_other_Hash.
  rewrite Zeqb_N. reflexivity.
Qed.
Lemma src_blockid_eqb a b :
  blockid_eqb a b =
  types__BlockID_Equal__ret_blockID_Hash_Equal_other_Hash_and_blockID_PartsHeader_Equals_d815eb38
    (bytes_eqb (bid_hash a) (bid_hash b)) (psheader_eqb (bid_parts a) (bid_parts b)).
Proof. reflexivity. Qed.
Lemma src_blockid_is_zero b :
  blockid_is_zero b =
  types__BlockID_IsZero__ret_blockID_Hash_IsZero_and_blockID_PartsHeader_IsZero (is_zero_hash (bid_hash b))
    (types__PartSetHeader_IsZero__ret_psh_Total_eq_0_and_psh_Hash_IsZero (Z.of_N (psh_total (bid_parts b))) (is_zero_hash (psh_hash (bid_parts b)))).
Proof.
  unfold blockid_is_zero, types__BlockID_IsZero__ret_blockID_Hash_IsZero_and_blockID_PartsHeader_IsZero,
    types__PartSetHeader_IsZero__ret_psh_Total_eq_0_and_psh_Hash_IsZero.
  change 0 with (Z.of_N 0). rewrite Zeqb_N, andb_assoc. reflexivity.
Qed.
Lemma src_blockid_atoms :
  types__PartSetHeader_Equals__ret_psh_Total_eq_other_Total_and_common_Hash_Equal_psh_Hash_other_Hash_atoms
  = ["psh.Total : uint32"; "other.Total : uint32"; "common.Hash.Equal(psh.Hash, other.Hash) : bool"]%string /\
  types__PartSetHeader_IsZero__ret_psh_Total_eq_0_and_psh_Hash_IsZero_atoms = ["psh.Total : uint32"; "psh.Hash.IsZero() : bool"]%string /\
  types__BlockID_Equal__ret_blockID_Hash_Equal_other_Hash_and_blockID_PartsHeader_Equals_d815eb38_atoms
  = ["blockID.Hash.Equal(other.Hash) : bool"; "blockID.PartsHeader.Equals(other.PartsHeader) : bool"]%string /\
  types__BlockID_IsZero__ret_blockID_Hash_IsZero_and_blockID_PartsHeader_IsZero_atoms
  = ["blockID.Hash.IsZero() : bool"; "blockID.PartsHeader.IsZero() : bool"]%string /\
  types__BlockID_IsComplete__ret_not_blockID_Hash_IsZero_and_not_blockID_PartsHeader_IsZero_atoms
  = ["blockID.Hash.IsZero() : bool"; "blockID.PartsHeader.IsZero() : bool"]%string /\
  (forall x y, types__BlockID_IsComplete__ret_not_blockID_Hash_IsZero_and_not_blockID_PartsHeader_IsZero x y = (negb x && negb y)%bool).
Proof. repeat split; reflexivity. Qed.

(** IsComplete and the reader's precondition *)
Lemma src_is_complete ps :
  is_complete ps = types__PartSet_IsComplete__ret_ps_count_eq_ps_total (Z.of_N (ps_count ps)) (Z.of_N (ps_total ps)).
Proof. unfold is_complete, types__PartSet_IsComplete__ret_ps_count_eq_ps_total. rewrite Zeqb_N. reflexivity. Qed.
Lemma src_read_all ps :
  read_all ps =
  if types__PartSet_GetReader__if_not_ps_IsComplete (is_complete ps) then None
  else match ps_parts ps with [] => None | _ => concat_parts (ps_parts ps) end.
Proof. reflexivity. Qed.
Lemma src_reader_atoms :
  types__PartSet_IsComplete__ret_ps_count_eq_ps_total_atoms = ["ps.count : uint32"; "ps.total : uint32"]%string /\
  types__PartSet_GetReader__if_not_ps_IsComplete_atoms = ["ps.IsComplete() : bool"]%string /\
  (* the reader walks the parts in index order until [psr.i >= len(psr.parts)] *)
  types__PartSetReader_Read__if_psr_i_ge_len_psr_parts_atoms = ["psr.i : int"; "len(psr.parts) : int"]%string /\
  (forall i n, types__PartSetReader_Read__if_psr_i_ge_len_psr_parts (Z.of_nat i) (Z.of_nat n) = negb (Nat.ltb i n)) /\
  types__PartSetReader_Read__if_readerLen_ge_len_p_atoms = ["readerLen : int"; "len(p) : int"]%string /\
  types__PartSetReader_Read__if_readerLen_gt_0_atoms = ["readerLen : int"]%string /\
  (forall a b, types__PartSetReader_Read__if_readerLen_ge_len_p a b = Z.geb a b) /\
  (forall a, types__PartSetReader_Read__if_readerLen_gt_0 a = Z.gtb a 0) /\
  (forall a b, types__PartSetReader_Read__ret_n1_plus_n2 a b = wrap64 (a + b)).
Proof.
  repeat split; try reflexivity. intros i n.
  unfold types__PartSetReader_Read__if_psr_i_ge_len_psr_parts. rewrite Z.geb_leb.
  destruct (Nat.ltb_spec i n); destruct (Z.leb_spec (Z.of_nat n) (Z.of_nat i)); try reflexivity; lia.
Qed.

(** NewPartSetFromData: total = (uint32(len(data)) + partSize - 1) / partSize in uint32 arithmetic — the
    model's total on its (wrap-free) domain, i.e. wherever [from_data] is defined *)
Lemma src_from_data_total (len psz : N) : psz <> 0%N -> (N.of_nat (N.to_nat len) + psz - 1 < two32)%N ->
  types__NewPartSetFromData__set_total (Z.of_N len) (Z.of_N psz) = Z.of_N ((len + psz - 1) / psz).
Proof.
  rewrite N2Nat.id. unfold two32. intros Hp Hl.
  unfold types__NewPartSetFromData__set_total, go_quot, go_sub, go_add, go_conv.
  rewrite (wrap_id U32 (Z.of_N len)) by (unfold in_range; lia).
  assert (E : wrap U32 (wrap U32 (Z.of_N len + Z.of_N psz) - 1) = Z.of_N len + Z.of_N psz - 1).
  { unfold wrap. rewrite Zminus_mod_idemp_l. apply Z.mod_small. lia. }
  rewrite E. rewrite Z.quot_div_nonneg by lia.
  assert (Hq : 0 <= (Z.of_N len + Z.of_N psz - 1) / Z.of_N psz <= Z.of_N len + Z.of_N psz - 1).
  { split; [apply Z.div_pos; lia|]. apply Z.div_le_upper_bound; [lia|]. nia. }
  rewrite wrap_id by (unfold in_range; lia).
  rewrite N2Z.inj_div, N2Z.inj_sub, N2Z.inj_add by lia. reflexivity.
Qed.
Lemma src_from_data H data psz full : from_data H data psz = Some full ->
  Z.of_N (ps_total full) = types__NewPartSetFromData__set_total (Z.of_nat (List.length data)) (Z.of_N psz).
Proof.
  unfold from_data. cbv zeta. intros Hf.
  destruct (N.eqb_spec psz 0) as [|Hp]; [discriminate|].
  destruct (N.leb_spec two32 (N.of_nat (List.length data) + psz - 1)) as [|Hl]; [discriminate|].
  destruct (proofs_from H (chunks_of data psz)) as [[r prs]|]; [|discriminate].
  inversion Hf. cbn [ps_total]. rewrite <- nat_N_Z. symmetry. apply src_from_data_total; [exact Hp|].
  rewrite N2Nat.id. exact Hl.
Qed.
Lemma src_from_data_atoms :
  types__NewPartSetFromData__set_total_atoms = ["len(data) : int"; "partSize : uint32"]%string /\
  types__NewPartSetFromData__forinit_i = 0 /\ types__NewPartSetFromData__forinit_i_2 = 0.
Proof. repeat split; reflexivity. Qed.

(** AddPart's remaining (single-operand) conditions and the counter *)
Lemma src_add_part_count c : (c < 4294967295)%N ->
  types__PartSet_AddPart__set_count_op (Z.of_N c) = Z.of_N (c + 1).
Proof.
  intros Hc. unfold types__PartSet_AddPart__set_count_op, go_add. rewrite wrap_id by (unfold in_range; lia). lia.
Qed.
Lemma src_add_part_bare_atoms :
  types__PartSet_AddPart__if_ps_parts_at_part_Index_ne_nil_atoms = ["ps.parts[part.Index] != nil : untyped bool"]%string /\
  types__PartSet_AddPart__if_part_Proof_Verify_ps_Hash__Bytes_part_Bytes_ne_nil_atoms = ["part.Proof.Verify(ps.Hash().Bytes(), part.Bytes) != nil : untyped bool"]%string /\
  types__PartSet_AddPart__set_count_op_atoms = ["ps.count : uint32"]%string /\
  (forall x, types__PartSet_AddPart__if_ps_parts_at_part_Index_ne_nil x = x) /\
  (forall x, types__PartSet_AddPart__if_part_Proof_Verify_ps_Hash__Bytes_part_Bytes_ne_nil x = x).
Proof. repeat split; reflexivity. Qed.

(** NewPartSetFromData fills parts 0 .. total-1 (both loops) — the index list of the model's [chunks_of] *)
Lemma src_from_data_loops i total :
  (In i (seq 0 total) <-> types__NewPartSetFromData__for_i_lt_total (Z.of_nat i) (Z.of_nat total) = true) /\
  (In i (seq 0 total) <-> types__NewPartSetFromData__for_i_lt_total_2 (Z.of_nat i) (Z.of_nat total) = true).
Proof.
  unfold types__NewPartSetFromData__for_i_lt_total, types__NewPartSetFromData__for_i_lt_total_2.
  rewrite in_seq, Z.ltb_lt. split; split; lia.
Qed.

(* ------------------------------------------------------------------ types/block.go, types/commit.go *)

Lemma src_height_gt_1 h : types__Block_ValidateBasic__if_b_header_Height_gt_1 (Z.of_N h) = N.ltb 1 h.
Proof.
  unfold types__Block_ValidateBasic__if_b_header_Height_gt_1. rewrite Z.gtb_ltb. change 1 with (Z.of_N 1). apply Zltb_N.
Qed.

(** Block.ValidateBasic, whole (the model's [validate_basic] as the cascade of the source guards) *)
Lemma src_validate_basic H K TxRoot b :
  validate_basic H K TxRoot b =
  let h := b_header b in
  let pre :=
    if types__Block_ValidateBasic__if_b_header_Height_gt_1 (Z.of_N (h_height h)) then
      match b_last b with None => VbNilLastCommit | Some c => commit_validate c end
    else VbOk in
  match pre with
  | VbOk =>
    let lc :=
      match b_last b with
      | None => if types__Block_ValidateBasic__if_b_lastCommit_eq_nil_and_not_b_header_LastCommitHash_IsZero true (is_zero_hash (h_lastcommit h))
                then VbLastCommitHash else VbOk
      | Some c => match commit_hash H c with
                  | None => VbPanic
                  | Some ch => if types__Block_ValidateBasic__if_b_lastCommit_ne_nil_and_not_b_header_LastCommitHash_Equal_b__cf547c83 true (bytes_eqb (h_lastcommit h) ch)
                               then VbLastCommitHash else VbOk
                  end
      end in
    match lc with
    | VbOk =>
      if types__Block_ValidateBasic__if_not_w_Equal_g (bytes_eqb (TxRoot (b_txs b)) (h_txhash h)) then VbDataHash
      else if negb (forallb (fun e => snd e) (b_evs b)) then VbEvidenceInvalid
      else if types__Block_ValidateBasic__if_not_w_Equal_g_2 (bytes_eqb (evidence_hash H K (map fst (b_evs b))) (h_evidence h)) then VbEvidenceHash
      else VbOk
    | e => e
    end
  | e => e
  end.
Proof. unfold validate_basic. cbv zeta. rewrite src_height_gt_1. reflexivity. Qed.
Lemma src_validate_basic_atoms :
  types__Block_ValidateBasic__if_b_header_Height_gt_1_atoms = ["b.header.Height : uint64"]%string /\
  types__Block_ValidateBasic__if_b_lastCommit_eq_nil_and_not_b_header_LastCommitHash_IsZero_atoms
  = ["b.lastCommit == nil : bool"; "b.header.LastCommitHash.IsZero() : bool"]%string /\
  types__Block_ValidateBasic__if_b_lastCommit_ne_nil_and_not_b_header_LastCommitHash_Equal_b__cf547c83_atoms
  = ["b.lastCommit != nil : bool"; "b.header.LastCommitHash.Equal(b.lastCommit.Hash()) : bool"]%string /\
  types__Block_ValidateBasic__if_not_w_Equal_g_atoms = ["w.Equal(g) : bool"]%string /\
  types__Block_ValidateBasic__if_not_w_Equal_g_2_atoms = ["w.Equal(g) : bool"]%string.
Proof. repeat split; reflexivity. Qed.

(** Commit.ValidateBasic, whole *)
Lemma src_commit_validate c :
  commit_validate c =
  if types__Commit_ValidateBasic__if_commit_Height_ge_1 (Z.of_N (c_height c)) then
    if blockid_is_zero (c_bid c) then VbCommitNilBlock
    else if types__Commit_ValidateBasic__if_len_commit_Signatures_eq_0 (Z.of_nat (List.length (c_sigs c))) then VbCommitNoSigs
    else if forallb commit_sig_ok (c_sigs c) then VbOk else VbCommitSig
  else VbOk.
Proof.
  unfold commit_validate, types__Commit_ValidateBasic__if_commit_Height_ge_1, types__Commit_ValidateBasic__if_len_commit_Signatures_eq_0.
  rewrite Z.geb_leb. change 1 with (Z.of_N 1). rewrite Zleb_N.
  destruct (c_sigs c); reflexivity.
Qed.

(** CommitSig.ValidateBasic: an absent slot carries no address, no time, no signature; any other slot
    carries a signature (the [switch cs.BlockIDFlag] itself is outside the translated subset) *)
Lemma src_commit_sig_ok c :
  commit_sig_ok c =
  if N.eqb (cs_flag c) 1 then
    (negb (types__CommitSig_ValidateBasic__if_not_cs_ValidatorAddress_Equal_common_Address (bytes_eqb (cs_addr c) (repeat 0%N 20))) &&
     negb (types__CommitSig_ValidateBasic__if_not_cs_Timestamp_IsZero
             (Z.eqb (t_secs (cs_time c)) min_valid_seconds && Z.eqb (t_nanos (cs_time c)) 0)) &&
     negb (types__CommitSig_ValidateBasic__if_len_cs_Signature_ne_0 (Z.of_nat (List.length (cs_sig c)))))%bool
  else if (N.eqb (cs_flag c) 2 || N.eqb (cs_flag c) 3)%bool then
    negb (types__CommitSig_ValidateBasic__if_len_cs_Signature_eq_0 (Z.of_nat (List.length (cs_sig c))))
  else false.
Proof.
  unfold commit_sig_ok, types__CommitSig_ValidateBasic__if_not_cs_ValidatorAddress_Equal_common_Address,
    types__CommitSig_ValidateBasic__if_not_cs_Timestamp_IsZero, types__CommitSig_ValidateBasic__if_len_cs_Signature_ne_0,
    types__CommitSig_ValidateBasic__if_len_cs_Signature_eq_0, go_neqb.
  rewrite !negb_involutive.
  destruct (N.eqb (cs_flag c) 1); [|destruct (N.eqb (cs_flag c) 2 || N.eqb (cs_flag c) 3)%bool; [|reflexivity]];
    destruct (cs_sig c); reflexivity.
Qed.
Lemma src_commit_atoms :
  types__Commit_ValidateBasic__if_commit_Height_ge_1_atoms = ["commit.Height : uint64"]%string /\
  types__Commit_ValidateBasic__if_len_commit_Signatures_eq_0_atoms = ["len(commit.Signatures) : int"]%string /\
  types__CommitSig_ValidateBasic__if_not_cs_ValidatorAddress_Equal_common_Address_atoms = ["cs.ValidatorAddress.Equal(common.Address{}) : bool"]%string /\
  types__CommitSig_ValidateBasic__if_not_cs_Timestamp_IsZero_atoms = ["cs.Timestamp.IsZero() : bool"]%string /\
  types__CommitSig_ValidateBasic__if_len_cs_Signature_ne_0_atoms = ["len(cs.Signature) : int"]%string /\
  types__CommitSig_ValidateBasic__if_len_cs_Signature_eq_0_atoms = ["len(cs.Signature) : int"]%string.
Proof. repeat split; reflexivity. Qed.

(** Proposal.ValidateBasic: the part count of the proposed block id is at most MaxBlockPartsCount *)
Lemma src_proposal_parts_ok total :
  proposal_parts_ok total = negb (types__Proposal_ValidateBasic__if_p_POLBlockID_PartsHeader_Total_gt_MaxBlockPartsCount (Z.of_N total)).
Proof.
  unfold proposal_parts_ok, types__Proposal_ValidateBasic__if_p_POLBlockID_PartsHeader_Total_gt_MaxBlockPartsCount, max_block_parts_count.
  rewrite Z.gtb_ltb, <- Z.leb_antisym. change 1601 with (Z.of_N 1601). rewrite Zleb_N. reflexivity.
Qed.
Lemma src_proposal_atoms :
  types__Proposal_ValidateBasic__if_p_POLBlockID_PartsHeader_Total_gt_MaxBlockPartsCount_atoms = ["p.POLBlockID.PartsHeader.Total : uint32"]%string /\
  types__Proposal_ValidateBasic__if_not_p_POLBlockID_IsComplete_atoms = ["p.POLBlockID.IsComplete() : bool"]%string /\
  types__Proposal_ValidateBasic__if_len_p_Signature_eq_0_atoms = ["len(p.Signature) : int"]%string.
Proof. repeat split; reflexivity. Qed.

(* ------------------------------------------------------------------ types/hashing.go DeriveSha *)

(** The transaction root is a parameter of the model ([TxRoot], C07).  What C13 needs from DeriveSha is
    that the header commits to EVERY transaction: the three insertion loops (i from 1 while
    [i < Len && i <= 0x7f]; index 0 if [Len > 0]; i from 0x80 while [i < Len] — the start values 1 and
    0x80 are loop initialisers, outside the translated guards) insert every index of the list exactly
    once.  The loops start at their translated initialisers and step by [i + 1]. *)
Definition derive_inserted (n i : Z) : nat :=
  ((if (Z.leb types__DeriveSha__forinit_i i && types__DeriveSha__for_i_lt_list_Len_and_i_le_0x7f i n)%bool then 1 else 0) +
   (if (Z.eqb i 0 && types__DeriveSha__if_list_Len_gt_0 n)%bool then 1 else 0) +
   (if (Z.leb types__DeriveSha__forinit_i_2 i && types__DeriveSha__for_i_lt_list_Len i n)%bool then 1 else 0))%nat.

Lemma src_derive_sha_steps i : 0 <= i < 9223372036854775807 ->
  types__DeriveSha__set_i_op i = i + 1 /\ types__DeriveSha__set_i_op_2 i = i + 1.
Proof.
  intros Hi. unfold types__DeriveSha__set_i_op, types__DeriveSha__set_i_op_2, go_add.
  rewrite wrap_id by (unfold in_range; lia). split; reflexivity.
Qed.

Lemma src_derive_sha_covers n i : 0 <= i < n -> derive_inserted n i = 1%nat.
Proof.
  intros Hi. unfold derive_inserted, types__DeriveSha__for_i_lt_list_Len_and_i_le_0x7f, types__DeriveSha__if_list_Len_gt_0,
    types__DeriveSha__for_i_lt_list_Len, types__DeriveSha__forinit_i, types__DeriveSha__forinit_i_2.
  rewrite Z.gtb_ltb.
  destruct (Z.leb_spec 1 i), (Z.ltb_spec i n), (Z.leb_spec i 127), (Z.eqb_spec i 0), (Z.ltb_spec 0 n), (Z.leb_spec 128 i);
    cbn [andb Nat.add]; try reflexivity; lia.
Qed.
Lemma src_derive_sha_nothing_else n i : ~ (0 <= i < n) -> derive_inserted n i = 0%nat.
Proof.
  intros Hi. unfold derive_inserted, types__DeriveSha__for_i_lt_list_Len_and_i_le_0x7f, types__DeriveSha__if_list_Len_gt_0,
    types__DeriveSha__for_i_lt_list_Len, types__DeriveSha__forinit_i, types__DeriveSha__forinit_i_2.
  rewrite Z.gtb_ltb.
  destruct (Z.leb_spec 1 i), (Z.ltb_spec i n), (Z.leb_spec i 127), (Z.eqb_spec i 0), (Z.ltb_spec 0 n), (Z.leb_spec 128 i);
    cbn [andb Nat.add]; try reflexivity; lia.
Qed.
Lemma src_derive_sha_atoms :
  types__DeriveSha__for_i_lt_list_Len_and_i_le_0x7f_atoms = ["i : int"; "list.Len() : int"]%string /\
  types__DeriveSha__if_list_Len_gt_0_atoms = ["list.Len() : int"]%string /\
  types__DeriveSha__for_i_lt_list_Len_atoms = ["i : int"; "list.Len() : int"]%string.
Proof. repeat split; reflexivity. Qed.

(* ------------------------------------------------------------------ VerifyCommit, validateBlock *)

(** VerifyCommit up to its signature loop, whole *)
Lemma src_verify_commit size bid height sigs_ok c :
  verify_commit size bid height sigs_ok c =
  match commit_validate c with
  | VbOk =>
    if types__ValidatorSet_VerifyCommit__if_vs_Size_ne_len_commit_Signatures (Z.of_N size) (Z.of_nat (List.length (c_sigs c))) then VcSize
    else if types__ValidatorSet_VerifyCommit__if_height_ne_commit_GetHeight (Z.of_N height) (Z.of_N (c_height c)) then VcHeight
    else if types__ValidatorSet_VerifyCommit__if_not_blockID_Equal_commit_BlockID (blockid_eqb bid (c_bid c)) then VcBlockID
    else if negb sigs_ok then VcSigs else VcOk
  | e => VcBasic e
  end.
Proof.
  unfold verify_commit, types__ValidatorSet_VerifyCommit__if_vs_Size_ne_len_commit_Signatures,
    types__ValidatorSet_VerifyCommit__if_height_ne_commit_GetHeight, types__ValidatorSet_VerifyCommit__if_not_blockID_Equal_commit_BlockID, go_neqb.
  rewrite <- nat_N_Z, !Zeqb_N. reflexivity.
Qed.
Lemma src_verify_commit_atoms :
  types__ValidatorSet_VerifyCommit__if_vs_Size_ne_len_commit_Signatures_atoms = ["vs.Size() : int"; "len(commit.Signatures) : int"]%string /\
  types__ValidatorSet_VerifyCommit__if_height_ne_commit_GetHeight_atoms = ["height : uint64"; "commit.GetHeight() : uint64"]%string /\
  types__ValidatorSet_VerifyCommit__if_not_blockID_Equal_commit_BlockID_atoms = ["blockID.Equal(commit.BlockID) : bool"]%string.
Proof. repeat split; reflexivity. Qed.

Lemma src_u64_succ n : u64N n -> go_add U64 (Z.of_N n) 1 = Z.of_N (u64_succ n).
Proof.
  unfold u64N, go_add, wrap, u64_succ, two64N. intros Hn.
  rewrite N2Z.inj_mod. rewrite N2Z.inj_add. reflexivity.
Qed.

(** the third height test of validateBlock is implied by the first (the model leaves it out) *)
Lemma src_validate_block_dead_guard l h :
  kai_state_cstate__validateBlock__if_block_Height_ne_state_LastBlockHeight_plus_1 h l = false ->
  kai_state_cstate__validateBlock__if_state_LastBlockHeight_gt_0_and_block_Height_ne_state_LastBlo_85dde98c l h = false.
Proof.
  unfold kai_state_cstate__validateBlock__if_block_Height_ne_state_LastBlockHeight_plus_1,
    kai_state_cstate__validateBlock__if_state_LastBlockHeight_gt_0_and_block_Height_ne_state_LastBlo_85dde98c.
  intros E. rewrite E. apply andb_false_r.
Qed.

(** validateBlock, whole: the model's [validate_block] is the cascade of the source guards on the
    model's operands, in the order of the code *)
Lemma src_validate_block H K TxRoot st x b : u64N (st_last_height st) ->
  validate_block H K TxRoot st x b =
  let h := b_header b in
  match validate_basic H K TxRoot b with
  | VbOk =>
    if kai_state_cstate__validateBlock__if_block_Height_ne_state_LastBlockHeight_plus_1 (Z.of_N (h_height h)) (Z.of_N (st_last_height st)) then VsHeight
    else if kai_state_cstate__validateBlock__if_state_LastBlockHeight_eq_0_and_block_Height_ne_state_InitialHeight
              (Z.of_N (st_last_height st)) (Z.of_N (h_height h)) (Z.of_N (st_initial st)) then VsHeight
    else if kai_state_cstate__validateBlock__if_not_block_Header__LastBlockID_Equal_state_LastBlockID (blockid_eqb (h_last h) (st_last_bid st)) then VsLastBlockID
    else if kai_state_cstate__validateBlock__if_not_block_AppHash__Equal_state_AppHash (bytes_eqb (h_app h) (st_app st)) then VsAppHash
    else if kai_state_cstate__validateBlock__if_not_block_Header__ValidatorsHash_Equal_state_Validators_Hash (bytes_eqb (h_valhash h) (st_valhash st)) then VsValHash
    else if kai_state_cstate__validateBlock__if_not_block_Header__NextValidatorsHash_Equal_state_NextValidators_Hash (bytes_eqb (h_nextval h) (st_nextvalhash st)) then VsNextValHash
    else
      match b_last b with
      | None => VsNilLastCommit
      | Some c =>
        let cm :=
          if kai_state_cstate__validateBlock__if_block_Height_eq_state_InitialHeight (Z.of_N (h_height h)) (Z.of_N (st_initial st)) then
            if kai_state_cstate__validateBlock__if_len_block_LastCommit__Signatures_ne_0 (Z.of_nat (List.length (c_sigs c))) then VsInitialSigs else VsOk
          else
            match verify_commit (st_lastvals_size st) (st_last_bid st) (u64_pred (h_height h)) (x_sigs_ok x) c with
            | VcOk => VsOk
            | e => VsCommit e
            end in
        match cm with
        | VsOk =>
          let tm :=
            if kai_state_cstate__validateBlock__case_block_Height_gt_state_InitialHeight (Z.of_N (h_height h)) (Z.of_N (st_initial st)) then
              if kai_state_cstate__validateBlock__if_not_block_Time__After_state_LastBlockTime (time_ltb (st_last_time st) (h_time h)) then VsTimeNotAfter
              else if kai_state_cstate__validateBlock__if_not_block_Time__Equal_medianTime (time_eqb (h_time h) (x_median x)) then VsTimeMedian
              else VsOk
            else if kai_state_cstate__validateBlock__case_block_Height_eq_state_InitialHeight (Z.of_N (h_height h)) (Z.of_N (st_initial st)) then
              if kai_state_cstate__validateBlock__if_not_block_Time__Equal_genesisTime (time_eqb (h_time h) (st_last_time st)) then VsTimeGenesis else VsOk
            else VsBelowInitial in
          match tm with
          | VsOk =>
            if kai_state_cstate__validateBlock__if_numEvidence_gt_maxNumEvidence (Z.of_nat (List.length (b_evs b))) (st_max_evidence st) then VsEvidenceOverflow
            else if kai_state_cstate__validateBlock__if_not_state_Validators_HasAddress_block_ProposerAddress (x_proposer_known x) then VsProposer
            else if negb (x_evpool_ok x) then VsEvidencePool
            else VsOk
          | e => e
          end
        | e => e
        end
      end
  | e => VsBasic e
  end.
Proof.
  intros Hl. unfold validate_block. cbv zeta.
  unfold kai_state_cstate__validateBlock__if_block_Height_ne_state_LastBlockHeight_plus_1,
    kai_state_cstate__validateBlock__if_state_LastBlockHeight_eq_0_and_block_Height_ne_state_InitialHeight,
    kai_state_cstate__validateBlock__if_not_block_Header__LastBlockID_Equal_state_LastBlockID,
    kai_state_cstate__validateBlock__if_not_block_AppHash__Equal_state_AppHash,
    kai_state_cstate__validateBlock__if_not_block_Header__ValidatorsHash_Equal_state_Validators_Hash,
    kai_state_cstate__validateBlock__if_not_block_Header__NextValidatorsHash_Equal_state_NextValidators_Hash,
    kai_state_cstate__validateBlock__if_block_Height_eq_state_InitialHeight,
    kai_state_cstate__validateBlock__if_len_block_LastCommit__Signatures_ne_0,
    kai_state_cstate__validateBlock__case_block_Height_gt_state_InitialHeight,
    kai_state_cstate__validateBlock__if_not_block_Time__After_state_LastBlockTime,
    kai_state_cstate__validateBlock__if_not_block_Time__Equal_medianTime,
    kai_state_cstate__validateBlock__case_block_Height_eq_state_InitialHeight,
    kai_state_cstate__validateBlock__if_not_block_Time__Equal_genesisTime,
    kai_state_cstate__validateBlock__if_numEvidence_gt_maxNumEvidence,
    kai_state_cstate__validateBlock__if_not_state_Validators_HasAddress_block_ProposerAddress.
  rewrite (src_u64_succ _ Hl). unfold go_neqb. change 0 with (Z.of_N 0) at 1.
  rewrite !Zeqb_N, !Z.gtb_ltb, Zltb_N.
  destruct (validate_basic H K TxRoot b); try reflexivity.
  destruct (b_last b) as [c|]; [|reflexivity].
  replace (negb (Z.of_nat (List.length (c_sigs c)) =? 0)) with (match c_sigs c with [] => false | _ => true end)
    by (destruct (c_sigs c); reflexivity).
  destruct (c_sigs c); reflexivity.
Qed.
Lemma src_validate_block_atoms :
  kai_state_cstate__validateBlock__if_block_Height_ne_state_LastBlockHeight_plus_1_atoms = ["block.Height() : uint64"; "state.LastBlockHeight : uint64"]%string /\
  kai_state_cstate__validateBlock__if_state_LastBlockHeight_eq_0_and_block_Height_ne_state_InitialHeight_atoms
  = ["state.LastBlockHeight : uint64"; "block.Height() : uint64"; "state.InitialHeight : uint64"]%string /\
  kai_state_cstate__validateBlock__if_not_block_Header__LastBlockID_Equal_state_LastBlockID_atoms = ["block.Header().LastBlockID.Equal(state.LastBlockID) : bool"]%string /\
  kai_state_cstate__validateBlock__if_not_block_AppHash__Equal_state_AppHash_atoms = ["block.AppHash().Equal(state.AppHash) : bool"]%string /\
  kai_state_cstate__validateBlock__if_not_block_Header__ValidatorsHash_Equal_state_Validators_Hash_atoms
  = ["block.Header().ValidatorsHash.Equal(state.Validators.Hash()) : bool"]%string /\
  kai_state_cstate__validateBlock__if_not_block_Header__NextValidatorsHash_Equal_state_NextValidators_Hash_atoms
  = ["block.Header().NextValidatorsHash.Equal(state.NextValidators.Hash()) : bool"]%string /\
  kai_state_cstate__validateBlock__if_block_Height_eq_state_InitialHeight_atoms = ["block.Height() : uint64"; "state.InitialHeight : uint64"]%string /\
  kai_state_cstate__validateBlock__if_len_block_LastCommit__Signatures_ne_0_atoms = ["len(block.LastCommit().Signatures) : int"]%string /\
  kai_state_cstate__validateBlock__case_block_Height_gt_state_InitialHeight_atoms = ["block.Height() : uint64"; "state.InitialHeight : uint64"]%string /\
  kai_state_cstate__validateBlock__if_not_block_Time__After_state_LastBlockTime_atoms = ["block.Time().After(state.LastBlockTime) : bool"]%string /\
  kai_state_cstate__validateBlock__if_not_block_Time__Equal_medianTime_atoms = ["block.Time().Equal(medianTime) : bool"]%string /\
  kai_state_cstate__validateBlock__case_block_Height_eq_state_InitialHeight_atoms = ["block.Height() : uint64"; "state.InitialHeight : uint64"]%string /\
  kai_state_cstate__validateBlock__if_not_block_Time__Equal_genesisTime_atoms = ["block.Time().Equal(genesisTime) : bool"]%string /\
  kai_state_cstate__validateBlock__if_numEvidence_gt_maxNumEvidence_atoms = ["numEvidence : int64"; "maxNumEvidence : int64"]%string /\
  kai_state_cstate__validateBlock__if_not_state_Validators_HasAddress_block_ProposerAddress_atoms = ["state.Validators.HasAddress(block.ProposerAddress()) : bool"]%string.
Proof. repeat split; reflexivity. Qed.

(** BlockExecutor.ValidateBlock: the cache lookup decides between the hit path and the full validation,
    and only a full validation WITHOUT error fills the cache — the model's [exec_validate] *)
Lemma src_exec_validate H K TxRoot cache st x b :
  exec_validate H K TxRoot cache st x b =
  if kai_state_cstate__BlockExecutor_ValidateBlock__if_ok (existsb (vkey_eqb (validation_key K b)) cache) then
    (match validate_basic H K TxRoot b with VbOk => VsOk | e => VsBasic e end, cache)
  else
    let r := validate_block H K TxRoot st x b in
    if kai_state_cstate__BlockExecutor_ValidateBlock__if_err_ne_nil (match r with VsOk => false | _ => true end)
    then (r, cache) else (VsOk, validation_key K b :: cache).
Proof.
  unfold exec_validate, kai_state_cstate__BlockExecutor_ValidateBlock__if_ok, kai_state_cstate__BlockExecutor_ValidateBlock__if_err_ne_nil.
  destruct (existsb (vkey_eqb (validation_key K b)) cache); [reflexivity|].
  cbv zeta. destruct (validate_block H K TxRoot st x b); reflexivity.
Qed.
Lemma src_validation_key K b :
  vk_meta (validation_key K b) =
  if kai_state_cstate__validationKey__if_lc_eq_nil (match b_last b with None => true | Some _ => false end) then None
  else match b_last b with None => None | Some c => Some (c_height c, c_round c, c_bid c) end.
Proof. unfold validation_key, kai_state_cstate__validationKey__if_lc_eq_nil. cbn [vk_meta]. destruct (b_last b); reflexivity. Qed.
Lemma src_exec_validate_atoms :
  kai_state_cstate__BlockExecutor_ValidateBlock__if_ok_atoms = ["ok : bool"]%string /\
  kai_state_cstate__BlockExecutor_ValidateBlock__if_err_ne_nil_atoms = ["err != nil : untyped bool"]%string /\
  kai_state_cstate__validationKey__if_lc_eq_nil_atoms = ["lc == nil : untyped bool"]%string.
Proof. repeat split; reflexivity. Qed.

(* ------------------------------------------------------------------ kai/rawdb *)

(** the part loops of WriteBlock and ReadBlock visit exactly the indices 0 .. Total-1 — the index list
    of the model's [put_parts] / [read_parts] *)
Lemma src_store_loops i total : (Z.of_nat total < 4294967296) ->
  (In i (seq 0 total) <-> kai_rawdb__WriteBlock__for_i_lt_int_blockParts_Total (Z.of_nat i) (Z.of_nat total) = true) /\
  (In i (seq 0 total) <-> kai_rawdb__ReadBlock__for_i_lt_int_blockMeta_BlockID_PartsHeader_Total (Z.of_nat i) (Z.of_nat total) = true).
Proof.
  intros Ht. unfold kai_rawdb__WriteBlock__for_i_lt_int_blockParts_Total, kai_rawdb__ReadBlock__for_i_lt_int_blockMeta_BlockID_PartsHeader_Total, go_conv.
  rewrite wrap_id by (unfold in_range; lia). rewrite in_seq, Z.ltb_lt. split; split; lia.
Qed.
Lemma src_store_loop_steps i : 0 <= i < 9223372036854775807 ->
  kai_rawdb__WriteBlock__forinit_i = 0 /\ kai_rawdb__ReadBlock__forinit_i = 0 /\
  kai_rawdb__WriteBlock__set_i_op i = i + 1 /\ kai_rawdb__ReadBlock__set_i_op i = i + 1.
Proof.
  intros Hi. unfold kai_rawdb__WriteBlock__set_i_op, kai_rawdb__ReadBlock__set_i_op, go_add.
  rewrite wrap_id by (unfold in_range; lia). repeat split; reflexivity.
Qed.
Lemma src_store_atoms :
  kai_rawdb__WriteBlock__for_i_lt_int_blockParts_Total_atoms = ["i : int"; "blockParts.Total() : uint32"]%string /\
  kai_rawdb__ReadBlock__for_i_lt_int_blockMeta_BlockID_PartsHeader_Total_atoms = ["i : int"; "blockMeta.BlockID.PartsHeader.Total : uint32"]%string.
Proof. split; reflexivity. Qed.

(* ------------------------------------------------------------------ the whole tie, as one statement *)

Definition C13_source_tie_statement : Prop :=
  (types__BlockPartSizeBytes = Z.of_N block_part_size_bytes /\ types__MaxBlockPartsCount = Z.of_N max_block_parts_count /\
   types__MaxBlockSizeBytes = Z.of_N max_block_size_bytes)
  /\ (forall n, (n < 4611686018427387904)%N ->
        Z.of_N (split_point n) =
        let k := Z.of_N (2 ^ N.log2 n) in
        if lib_merkle__getSplitPoint__if_k_eq_length k (Z.of_N n) then lib_merkle__getSplitPoint__set_k_op k else k)
  /\ (forall H i t lh a ra,
        compute_rev H i t lh (a :: ra) =
        if lib_merkle__computeHashFromAunts__if_index_ge_total_or_index_lt_0_or_total_le_0 i t then None
        else if Z.eqb t 1 then None
        else let numLeft := Z.of_N (split_point (Z.to_N t)) in
             if lib_merkle__computeHashFromAunts__if_index_lt_numLeft i numLeft then
               match compute_rev H i numLeft lh ra with None => None | Some l => Some (inner_hash H l a) end
             else match compute_rev H (i - numLeft) (t - numLeft) lh ra with
                  | None => None | Some r => Some (inner_hash H a r) end)
  /\ (forall H r leaf p,
        verify H r leaf p =
        if lib_merkle__SimpleProof_Verify__if_not_bytes_Equal_sp_LeafHash_leafHash (bytes_eqb (p_leaf p) (leaf_hash H leaf)) then VLeafHash
        else if lib_merkle__SimpleProof_Verify__if_not_bytes_Equal_computedHash_rootHash
                  (bytes_eqb (match compute_from_aunts H (to_int (p_index p)) (to_int (p_total p)) (p_leaf p) (p_aunts p) with
                              | Some h => h | None => [] end) r)
             then VRootHash else VOk)
  /\ (forall p, proof_validate_basic p =
        (negb (lib_merkle__SimpleProof_ValidateBasic__if_len_sp_LeafHash_ne_Size (Z.of_nat (List.length (p_leaf p)))) &&
         forallb (fun a => negb (lib_merkle__SimpleProof_ValidateBasic__if_len_auntHash_ne_Size (Z.of_nat (List.length a)))) (p_aunts p))%bool)
  /\ (forall H ps p, u64N (pt_index p) -> u64N (ps_total ps) ->
        add_part H ps p =
        if types__PartSet_AddPart__if_part_Index_ge_ps_total (Z.of_N (pt_index p)) (Z.of_N (ps_total ps))
        then (ps, (false, EUnexpectedIndex))
        else match nth_error (ps_parts ps) (N.to_nat (pt_index p)) with
             | None => (ps, (false, ECrash))
             | Some (Some _) => (ps, (false, ENone))
             | Some None =>
               if types__PartSet_AddPart__if_part_Proof_Index_ne_uint64_part_Index_or_part_Proof_Total_ne_9efbf145
                    (Z.of_N (p_index (pt_proof p))) (Z.of_N (pt_index p)) (Z.of_N (p_total (pt_proof p))) (Z.of_N (ps_total ps))
               then (ps, (false, EInvalidProof))
               else match verify H (ps_hash ps) (pt_bytes p) (pt_proof p) with
                    | VOk => ({| ps_total := ps_total ps; ps_hash := ps_hash ps;
                                 ps_parts := set_nth (N.to_nat (pt_index p)) (Some p) (ps_parts ps);
                                 ps_count := (ps_count ps + 1)%N |}, (true, ENone))
                    | _ => (ps, (false, EInvalidProof))
                    end
             end)
  /\ (forall bz, part_validate_basic block_part_size_bytes bz =
        negb (types__Part_ValidateBasic__if_len_part_Bytes_gt_BlockPartSizeBytes (Z.of_nat (List.length bz))))
  /\ (forall a b, psheader_eqb a b =
        types__PartSetHeader_Equals__ret_psh_Total_eq_other_Total_and_common_Hash_Equal_psh_Hash_other_Hash
          (Z.of_N (psh_total a)) (Z.of_N (psh_total b)) (bytes_eqb (psh_hash a) (psh_hash b)))
  /\ (forall a b, blockid_eqb a b =
        types__BlockID_Equal__ret_blockID_Hash_Equal_other_Hash_and_blockID_PartsHeader_Equals_d815eb38
          (bytes_eqb (bid_hash a) (bid_hash b)) (psheader_eqb (bid_parts a) (bid_parts b)))
  /\ (forall b, blockid_is_zero b =
        types__BlockID_IsZero__ret_blockID_Hash_IsZero_and_blockID_PartsHeader_IsZero (is_zero_hash (bid_hash b))
          (types__PartSetHeader_IsZero__ret_psh_Total_eq_0_and_psh_Hash_IsZero (Z.of_N (psh_total (bid_parts b))) (is_zero_hash (psh_hash (bid_parts b)))))
  /\ (forall ps, is_complete ps = types__PartSet_IsComplete__ret_ps_count_eq_ps_total (Z.of_N (ps_count ps)) (Z.of_N (ps_total ps)))
  /\ (forall ps, read_all ps =
        if types__PartSet_GetReader__if_not_ps_IsComplete (is_complete ps) then None
        else match ps_parts ps with [] => None | _ => concat_parts (ps_parts ps) end)
  /\ (forall c, commit_validate c =
        if types__Commit_ValidateBasic__if_commit_Height_ge_1 (Z.of_N (c_height c)) then
          if blockid_is_zero (c_bid c) then VbCommitNilBlock
          else if types__Commit_ValidateBasic__if_len_commit_Signatures_eq_0 (Z.of_nat (List.length (c_sigs c))) then VbCommitNoSigs
          else if forallb commit_sig_ok (c_sigs c) then VbOk else VbCommitSig
        else VbOk)
  /\ (forall total, proposal_parts_ok total =
        negb (types__Proposal_ValidateBasic__if_p_POLBlockID_PartsHeader_Total_gt_MaxBlockPartsCount (Z.of_N total)))
  /\ (forall n i, (0 <= i < n -> derive_inserted n i = 1%nat) /\ (~ (0 <= i < n) -> derive_inserted n i = 0%nat))
  /\ (forall size bid height sigs_ok c,
        verify_commit size bid height sigs_ok c =
        match commit_validate c with
        | VbOk =>
          if types__ValidatorSet_VerifyCommit__if_vs_Size_ne_len_commit_Signatures (Z.of_N size) (Z.of_nat (List.length (c_sigs c))) then VcSize
          else if types__ValidatorSet_VerifyCommit__if_height_ne_commit_GetHeight (Z.of_N height) (Z.of_N (c_height c)) then VcHeight
          else if types__ValidatorSet_VerifyCommit__if_not_blockID_Equal_commit_BlockID (blockid_eqb bid (c_bid c)) then VcBlockID
          else if negb sigs_ok then VcSigs else VcOk
        | e => VcBasic e
        end)
  (* the three long cascades, as stated in full above: Block.ValidateBasic, CommitSig.ValidateBasic, validateBlock *)
  /\ ltac:(let t := type of src_validate_basic in exact t)
  /\ ltac:(let t := type of src_commit_sig_ok in exact t)
  /\ ltac:(let t := type of src_validate_block in exact t)
  /\ ltac:(let t := type of src_validate_block_atoms in exact t)
  (* the cache-hit path of BlockExecutor.ValidateBlock and the key's last-commit part *)
  /\ ltac:(let t := type of src_exec_validate in exact t)
  /\ ltac:(let t := type of src_validation_key in exact t)
  /\ ltac:(let t := type of src_exec_validate_atoms in exact t)
  (* NewPartSetFromData's total, AddPart's counter, loop steps *)
  /\ ltac:(let t := type of src_from_data in exact t)
  /\ ltac:(let t := type of src_add_part_count in exact t)
  /\ ltac:(let t := type of src_add_part_bare_atoms in exact t)
  /\ ltac:(let t := type of src_derive_sha_steps in exact t)
  /\ ltac:(let t := type of src_store_loop_steps in exact t)
  /\ (types__PartSet_AddPart__if_part_Index_ge_ps_total_atoms = ["part.Index : uint32"; "ps.total : uint32"]%string
      /\ types__PartSet_AddPart__if_part_Proof_Index_ne_uint64_part_Index_or_part_Proof_Total_ne_9efbf145_atoms
         = ["part.Proof.Index : uint64"; "part.Index : uint32"; "part.Proof.Total : uint64"; "ps.total : uint32"]%string
      /\ types__Part_ValidateBasic__if_len_part_Bytes_gt_BlockPartSizeBytes_atoms = ["len(part.Bytes) : int"]%string
      /\ lib_merkle__computeHashFromAunts__if_index_ge_total_or_index_lt_0_or_total_le_0_atoms = ["index : int"; "total : int"]%string
      /\ types__DeriveSha__for_i_lt_list_Len_and_i_le_0x7f_atoms = ["i : int"; "list.Len() : int"]%string
      /\ types__Proposal_ValidateBasic__if_p_POLBlockID_PartsHeader_Total_gt_MaxBlockPartsCount_atoms = ["p.POLBlockID.PartsHeader.Total : uint32"]%string
      /\ types__Block_ValidateBasic__if_b_header_Height_gt_1_atoms = ["b.header.Height : uint64"]%string
      /\ kai_state_cstate__validateBlock__if_block_Height_ne_state_LastBlockHeight_plus_1_atoms = ["block.Height() : uint64"; "state.LastBlockHeight : uint64"]%string
      /\ kai_state_cstate__validateBlock__if_block_Height_eq_state_InitialHeight_atoms = ["block.Height() : uint64"; "state.InitialHeight : uint64"]%string).

Lemma C13_source_tie_proof : C13_source_tie_statement.
Proof.
  unfold C13_source_tie_statement.
  split; [exact src_consts|]. split; [exact src_split_point|]. split; [exact src_compute_rev_cons|].
  split; [exact src_verify|]. split; [exact src_proof_validate_basic|]. split; [exact src_add_part|].
  split; [exact src_part_validate_basic|]. split; [exact src_psheader_eqb|]. split; [exact src_blockid_eqb|].
  split; [exact src_blockid_is_zero|]. split; [exact src_is_complete|]. split; [exact src_read_all|].
  split; [exact src_commit_validate|]. split; [exact src_proposal_parts_ok|].
  split; [intros n i; split; [apply src_derive_sha_covers|apply src_derive_sha_nothing_else]|].
  split; [exact src_verify_commit|]. split; [exact src_validate_basic|]. split; [exact src_commit_sig_ok|].
  split; [exact src_validate_block|]. split; [exact src_validate_block_atoms|].
  split; [exact src_exec_validate|]. split; [exact src_validation_key|]. split; [exact src_exec_validate_atoms|].
  split; [exact src_from_data|]. split; [exact src_add_part_count|]. split; [exact src_add_part_bare_atoms|].
  split; [exact src_derive_sha_steps|]. split; [exact src_store_loop_steps|]. repeat split; reflexivity.
Qed.
