(** C13 — the block store (kai/rawdb WriteBlock and the Read functions): the keys of different kinds, heights and part
    indices never coincide, what WriteBlock files is found again, and a write at one height leaves
    every other height alone (except the slot of the previous height's commit, by design). *)
From Coq Require Import List ZArith NArith Bool Lia Arith.
From Kardia Require Import Base.Int64 Base.ListX C13.Model C13.ProofsMerkle C13.ProofsSound C13.ProofsPartSet.
Import ListNotations.
Local Open Scope N_scope.

Local Ltac Zify.zify_post_hook ::= Z.div_mod_to_equations.

(* ------------------------------------------------------------------ big-endian fields *)

Lemma be_length n : forall v, length (be n v) = n.
Proof.
  induction n as [|n IH]; intros v; cbn [be]; [reflexivity|].
  rewrite app_length, IH. simpl. lia.
Qed.

Lemma app_last_inj {A} (a b : list A) x y : a ++ [x] = b ++ [y] -> a = b /\ x = y.
Proof.
  intros He. apply app_inj_tail in He. exact He.
Qed.

Lemma be_inj n : forall a b, a < 256 ^ N.of_nat n -> b < 256 ^ N.of_nat n -> be n a = be n b -> a = b.
Proof.
  induction n as [|n IH]; intros a b Ha Hb He.
  - change (256 ^ N.of_nat 0) with 1 in *. lia.
  - cbn [be] in He. apply app_last_inj in He. destruct He as [E1 E2].
    rewrite Nat2N.inj_succ, N.pow_succ_r' in Ha, Hb.
    assert (Ea : a / 256 = b / 256).
    { apply IH; [| |exact E1].
      - apply N.div_lt_upper_bound; lia.
      - apply N.div_lt_upper_bound; lia. }
    rewrite (N.div_mod a 256), (N.div_mod b 256) by lia. rewrite Ea, E2. reflexivity.
Qed.

Definition u64h (h : N) : Prop := h < 18446744073709551616.
Definition u32i (i : N) : Prop := i < 4294967296.

Lemma be8_inj a b : u64h a -> u64h b -> be 8 a = be 8 b -> a = b.
Proof. unfold u64h. intros; apply (be_inj 8); auto. Qed.
Lemma be4_inj a b : u32i a -> u32i b -> be 4 a = be 4 b -> a = b.
Proof. unfold u32i. intros; apply (be_inj 4); auto. Qed.

Local Opaque be.

Lemma cons_inj_tl {A} (x y : A) l l' : x :: l = y :: l' -> l = l'.
Proof. congruence. Qed.

(* ------------------------------------------------------------------ keys *)

Inductive key_kind :=
  | KMeta (h : N) | KPart (h i : N) | KCommit (h : N) | KSeen (h : N) | KCanon (h : N) | KHeight (hash : bytes).

Definition key_of (k : key_kind) : bytes :=
  match k with
  | KMeta h => key_meta h | KPart h i => key_part h i | KCommit h => key_commit h
  | KSeen h => key_seen h | KCanon h => key_canon h | KHeight x => key_height x
  end.

Definition wf_key (k : key_kind) : Prop :=
  match k with
  | KMeta h | KCommit h | KSeen h | KCanon h => u64h h
  | KPart h i => u64h h /\ u32i i
  | KHeight _ => True
  end.

(** the byte encoding of the store keys is injective: two well-formed keys (height a uint64, part
    index a uint32) with the same bytes are the same key *)
Lemma key_of_inj k k' : wf_key k -> wf_key k' -> key_of k = key_of k' -> k = k'.
Proof.
  intros W W' He.
  assert (Hlen := f_equal (@length N) He).
  destruct k, k'; cbn [key_of wf_key] in *;
    unfold key_meta, key_part, key_commit, key_seen, key_canon, key_height in *;
    try discriminate;
    repeat rewrite ?app_length, ?be_length in Hlen; cbn [length] in Hlen; try lia.
  - apply cons_inj_tl in He. f_equal. apply be8_inj; auto.
  - apply cons_inj_tl in He. destruct W, W'.
    apply app_inj_len in He; [|rewrite !be_length; reflexivity]. destruct He as [E1 E2].
    f_equal; [apply be8_inj|apply be4_inj]; auto.
  - apply cons_inj_tl in He. f_equal. apply be8_inj; auto.
  - do 2 apply cons_inj_tl in He. f_equal. apply be8_inj; auto.
  - apply cons_inj_tl in He. apply app_last_inj in He. destruct He as [E _]. f_equal. apply be8_inj; auto.
  - apply cons_inj_tl in He. subst. reflexivity.
Qed.

Lemma key_of_neq k k' : wf_key k -> wf_key k' -> k <> k' -> key_of k <> key_of k'.
Proof. intros W W' Hn He. apply Hn. apply key_of_inj; auto. Qed.

(* ------------------------------------------------------------------ the finite map *)

Section Store.
  Variable V : Type.
  Notation db := (db V).

  Lemma bytes_eqb_neq a b : a <> b -> bytes_eqb a b = false.
  Proof.
    intros Hn. destruct (bytes_eqb a b) eqn:E; [|reflexivity]. apply bytes_eqb_eq in E. contradiction.
  Qed.

  Lemma db_get_filter (d : db) k k' : k <> k' ->
    db_get V (filter (fun e => negb (bytes_eqb (fst e) k)) d) k' = db_get V d k'.
  Proof.
    intros Hn. induction d as [|[k0 v0] d IH]; [reflexivity|].
    cbn [filter fst db_get]. destruct (bytes_eqb k0 k) eqn:E0; cbn [negb].
    - apply bytes_eqb_eq in E0. subst k0. rewrite (bytes_eqb_neq _ _ Hn). exact IH.
    - cbn [db_get]. destruct (bytes_eqb k0 k'); [reflexivity|exact IH].
  Qed.

  Lemma db_get_put_same (d : db) k v : db_get V (db_put V d k v) k = Some v.
  Proof. unfold db_put. cbn [db_get]. rewrite bytes_eqb_refl. reflexivity. Qed.

  Lemma db_get_put_other (d : db) k k' v : k <> k' -> db_get V (db_put V d k v) k' = db_get V d k'.
  Proof.
    intros Hn. unfold db_put. cbn [db_get]. rewrite (bytes_eqb_neq _ _ Hn). apply db_get_filter. exact Hn.
  Qed.

  (** a key is stored at most once: the dump of the map is a function of its contents *)
  Definition keys (d : db) : list bytes := map fst d.

  Lemma filter_keys_notin (d : db) k : ~ In k (keys (filter (fun e => negb (bytes_eqb (fst e) k)) d)).
  Proof.
    unfold keys. intros Hin. apply in_map_iff in Hin. destruct Hin as [[k0 v0] [E Hin]].
    apply filter_In in Hin. destruct Hin as [_ Hf]. cbn [fst] in *. subst k0.
    rewrite bytes_eqb_refl in Hf. discriminate.
  Qed.

  Lemma filter_keys_nodup (d : db) f : NoDup (keys d) -> NoDup (keys (filter f d)).
  Proof.
    unfold keys. induction d as [|[k0 v0] d IH]; intros Hnd; [constructor|].
    inversion Hnd as [|? ? Hni Hnd']; subst. cbn [filter]. destruct (f (k0, v0)).
    - cbn [map fst]. constructor; [|apply IH; exact Hnd'].
      intros Hin. apply Hni. apply in_map_iff in Hin. destruct Hin as [e [E Hin]].
      apply filter_In in Hin. apply in_map_iff. exists e. tauto.
    - apply IH; exact Hnd'.
  Qed.

  Lemma db_put_nodup (d : db) k v : NoDup (keys d) -> NoDup (keys (db_put V d k v)).
  Proof.
    intros Hnd. unfold db_put. change (keys ((k, v) :: ?l)) with (k :: keys l).
    constructor; [apply filter_keys_notin|apply filter_keys_nodup; exact Hnd].
  Qed.

  (* ---------------------------------------------------------------- the parts of one height *)

  Lemma put_parts_other h : forall vs i (d : db) k,
    (forall j, i <= j < i + N.of_nat (length vs) -> key_part h j <> k) ->
    db_get V (put_parts V d h i vs) k = db_get V d k.
  Proof.
    induction vs as [|v vs IH]; intros i d k Hk; [reflexivity|].
    cbn [put_parts]. rewrite IH.
    - apply db_get_put_other. apply Hk. cbn [length]. lia.
    - intros j Hj. apply Hk. cbn [length]. lia.
  Qed.

  Lemma put_parts_get h (Hh : u64h h) : forall vs i (d : db) j v,
    i + N.of_nat (length vs) <= 4294967296 ->
    nth_error vs j = Some v ->
    db_get V (put_parts V d h i vs) (key_part h (i + N.of_nat j)) = Some v.
  Proof.
    induction vs as [|v0 vs IH]; intros i d j v Hb Hn; [destruct j; discriminate|].
    cbn [put_parts]. cbn [length] in Hb. destruct j as [|j]; cbn [nth_error] in Hn.
    - inversion Hn; subst v0. change (N.of_nat 0) with 0. rewrite N.add_0_r.
      rewrite put_parts_other; [apply db_get_put_same|].
      intros j' Hj' He.
      assert (E : KPart h j' = KPart h i).
      { apply key_of_inj; cbn [wf_key key_of]; unfold u32i; try split; auto; lia. }
      inversion E. lia.
    - replace (i + N.of_nat (S j)) with (i + 1 + N.of_nat j) by lia.
      apply IH; [lia|exact Hn].
  Qed.

  Lemma put_parts_nodup h : forall vs i (d : db), NoDup (keys d) -> NoDup (keys (put_parts V d h i vs)).
  Proof.
    induction vs as [|v vs IH]; intros i d Hnd; [exact Hnd|]. cbn [put_parts]. apply IH. apply db_put_nodup. exact Hnd.
  Qed.

  (* ---------------------------------------------------------------- WriteBlock *)

  Lemma u64_pred_u64 h : u64h (u64_pred h).
  Proof. unfold u64h, u64_pred, two64N. apply N.mod_lt. lia. Qed.

  Section Write.
    Variables (d : db) (h : N) (hash : bytes) (vmeta : V) (vparts : list V) (vcommit vseen vheight vhash : V).
    Hypothesis Hh : u64h h.
    Hypothesis Hparts : N.of_nat (length vparts) <= 4294967296.

    Let d' := write_block V d h hash vmeta vparts vcommit vseen vheight vhash.

    (** lookup of a key that is none of the keys written *)
    Lemma write_block_other k :
      k <> key_meta h -> (forall j, j < N.of_nat (length vparts) -> k <> key_part h j) ->
      k <> key_commit (u64_pred h) -> k <> key_seen h -> k <> key_height hash -> k <> key_canon h ->
      db_get V d' k = db_get V d k.
    Proof.
      intros N1 N2 N3 N4 N5 N6. unfold d', write_block.
      rewrite !db_get_put_other by congruence.
      rewrite put_parts_other; [apply db_get_put_other; congruence|].
      intros j Hj He. apply (N2 j); [lia|congruence].
    Qed.

    Ltac key_neq :=
      let He := fresh in
      intros He;
      match type of He with
      | ?a = ?b =>
        let Hl := fresh in
        assert (Hl := f_equal (@length N) He);
        unfold key_meta, key_part, key_commit, key_seen, key_canon, key_height in Hl, He;
        repeat rewrite ?app_length, ?be_length in Hl; cbn [length] in Hl;
        first [lia | discriminate He]
      end.

    Lemma write_block_meta : db_get V d' (key_meta h) = Some vmeta.
    Proof.
      unfold d', write_block.
      rewrite !db_get_put_other by key_neq.
      rewrite put_parts_other; [apply db_get_put_same|]. intros j _. key_neq.
    Qed.

    Lemma write_block_part j v : nth_error vparts j = Some v -> db_get V d' (key_part h (N.of_nat j)) = Some v.
    Proof.
      intros Hn. unfold d', write_block.
      rewrite !db_get_put_other by key_neq.
      change (N.of_nat j) with (N.of_nat j). replace (N.of_nat j) with (0 + N.of_nat j) by lia.
      apply put_parts_get; [exact Hh|lia|exact Hn].
    Qed.

    Lemma write_block_commit : db_get V d' (key_commit (u64_pred h)) = Some vcommit.
    Proof.
      unfold d', write_block.
      rewrite !db_get_put_other by key_neq. apply db_get_put_same.
    Qed.

    Lemma write_block_seen : db_get V d' (key_seen h) = Some vseen.
    Proof.
      unfold d', write_block.
      rewrite !db_get_put_other by key_neq. apply db_get_put_same.
    Qed.

    Lemma write_block_height : db_get V d' (key_height hash) = Some vheight.
    Proof.
      unfold d', write_block.
      rewrite !db_get_put_other by key_neq. apply db_get_put_same.
    Qed.

    Lemma write_block_canon : db_get V d' (key_canon h) = Some vhash.
    Proof. unfold d', write_block. apply db_get_put_same. Qed.

    Lemma all_some_map_nth {B} (f : nat -> option B) (l : list B) :
      (forall j v, nth_error l j = Some v -> f j = Some v) ->
      forall k, all_some (map f (seq k (length l - k))) = Some (skipn k l).
    Proof.
      intros Hf k. remember (length l - k)%nat as m eqn:Em. revert k Em.
      induction m as [|m IH]; intros k Em.
      - cbn [seq map all_some]. rewrite skipn_all2 by lia. reflexivity.
      - cbn [seq map all_some].
        destruct (nth_error l k) as [v|] eqn:En; [|apply nth_error_None in En; lia].
        rewrite (Hf _ _ En). rewrite (IH (S k)) by lia.
        f_equal. clear - En. revert k En. induction l as [|x l IHl]; intros k En; [destruct k; discriminate|].
        destruct k as [|k]; cbn [nth_error] in En.
        + inversion En. reflexivity.
        + cbn [skipn]. rewrite <- (IHl _ En). reflexivity.
    Qed.

    (** the part loop of ReadBlock finds exactly the parts that were written, in order *)
    Lemma write_block_read_parts : read_parts V d' h (length vparts) = Some vparts.
    Proof.
      unfold read_parts.
      pose proof (all_some_map_nth (B:=V) (fun i => db_get V d' (key_part h (N.of_nat i))) vparts write_block_part 0%nat) as E.
      rewrite Nat.sub_0_r in E. exact E.
    Qed.

    (** the map stays a function: no key is stored twice *)
    Lemma write_block_nodup : NoDup (keys d) -> NoDup (keys d').
    Proof.
      intros Hnd. unfold d', write_block.
      repeat apply db_put_nodup. apply put_parts_nodup. apply db_put_nodup. exact Hnd.
    Qed.

    (** a write at height [h] leaves every other height alone — except the commit slot of height
        h-1, which WriteBlock fills with the block's LastCommit *)
    Lemma write_block_frame h' : u64h h' -> h' <> h ->
      db_get V d' (key_meta h') = db_get V d (key_meta h') /\
      (forall i, u32i i -> db_get V d' (key_part h' i) = db_get V d (key_part h' i)) /\
      db_get V d' (key_seen h') = db_get V d (key_seen h') /\
      db_get V d' (key_canon h') = db_get V d (key_canon h') /\
      (h' <> u64_pred h -> db_get V d' (key_commit h') = db_get V d (key_commit h')).
    Proof.
      intros Hh' Hne.
      assert (K8 : be 8 h' <> be 8 h) by (intros E; apply Hne; apply be8_inj; auto).
      repeat split.
      - apply write_block_other; try key_neq.
        + intros E; apply cons_inj_tl in E; contradiction.
        + intros j _. key_neq.
      - intros i Hi. apply write_block_other; try key_neq.
        + intros j Hj E.
          assert (E' : KPart h' i = KPart h j).
          { apply key_of_inj; cbn [wf_key key_of]; unfold u32i in *; try split; auto; lia. }
          inversion E'. contradiction.
      - apply write_block_other; try key_neq.
        + intros j _. key_neq.
        + intros E; do 2 apply cons_inj_tl in E; contradiction.
      - apply write_block_other; try key_neq.
        + intros j _. key_neq.
        + intros E. apply cons_inj_tl in E. apply app_last_inj in E. destruct E; contradiction.
      - intros Hp. apply write_block_other; try key_neq.
        + intros j _. key_neq.
        + intros E. apply cons_inj_tl in E. apply Hp. apply be8_inj; auto. apply u64_pred_u64.
    Qed.

    Lemma write_block_frame_hash hash' : hash' <> hash ->
      db_get V d' (key_height hash') = db_get V d (key_height hash').
    Proof.
      intros Hne. apply write_block_other; try key_neq.
      - intros j _. key_neq.
      - intros E; apply cons_inj_tl in E; contradiction.
    Qed.

    (** everything WriteBlock files is found again under its key *)
    Lemma write_block_readback :
      db_get V d' (key_meta h) = Some vmeta /\
      read_parts V d' h (length vparts) = Some vparts /\
      (forall j v, nth_error vparts j = Some v -> db_get V d' (key_part h (N.of_nat j)) = Some v) /\
      db_get V d' (key_commit (u64_pred h)) = Some vcommit /\
      db_get V d' (key_seen h) = Some vseen /\
      db_get V d' (key_height hash) = Some vheight /\
      db_get V d' (key_canon h) = Some vhash /\
      (NoDup (keys d) -> NoDup (keys d')).
    Proof.
      split; [exact write_block_meta|]. split; [exact write_block_read_parts|]. split; [exact write_block_part|].
      split; [exact write_block_commit|]. split; [exact write_block_seen|]. split; [exact write_block_height|].
      split; [exact write_block_canon|exact write_block_nodup].
    Qed.

    Lemma write_block_frame_all h' : u64h h' -> h' <> h ->
      db_get V d' (key_meta h') = db_get V d (key_meta h') /\
      (forall i, u32i i -> db_get V d' (key_part h' i) = db_get V d (key_part h' i)) /\
      db_get V d' (key_seen h') = db_get V d (key_seen h') /\
      db_get V d' (key_canon h') = db_get V d (key_canon h') /\
      (h' <> u64_pred h -> db_get V d' (key_commit h') = db_get V d (key_commit h')) /\
      (forall hash', hash' <> hash -> db_get V d' (key_height hash') = db_get V d (key_height hash')).
    Proof.
      intros Hh' Hne. destruct (write_block_frame h' Hh' Hne) as [A [B [C [D E]]]].
      repeat split; auto. intros hash' Hn. apply write_block_frame_hash. exact Hn.
    Qed.
  End Write.
End Store.

(* ------------------------------------------------------------------ a stored block reads back as its bytes *)

Section Reassemble.
  Variable H : bytes -> bytes.
  Hypothesis H_len : forall x, length (H x) = 32%nat.
  Variables (data : bytes) (psz : N) (full : partset).
  Hypothesis Hfull : from_data H data psz = Some full.

  Lemma concat_parts_mk : forall cs prs j, length prs = length cs ->
    concat_parts (mk_parts j cs prs) = Some (concat cs).
  Proof.
    induction cs as [|c cs IH]; intros prs j Hl; destruct prs as [|pr prs]; try discriminate; [reflexivity|].
    cbn [mk_parts concat_parts concat pt_bytes]. rewrite IH by (simpl in Hl; lia). reflexivity.
  Qed.

  (** the full set produced by NewPartSetFromData reads exactly the data *)
  Lemma full_parts_concat : concat_parts (ps_parts full) = Some data /\
                            length (ps_parts full) = N.to_nat (ps_total full) /\ (ps_total full < 4294967296)%N.
  Proof.
    destruct (full_facts H H_len data psz full Hfull) as [Hp [_ [_ [Ht [_ [_ [Hcat [prs [_ [Hparts Hpl]]]]]]]]]].
    split; [|split].
    - rewrite Hparts, concat_parts_mk by exact Hpl. rewrite Hcat. reflexivity.
    - rewrite Ht, Nat2N.id, Hparts.
      clear - Hpl. revert Hpl. generalize 0%N. generalize prs.
      induction (chunks_of data psz) as [|c cs IH]; intros prs0 j Hl; destruct prs0; try discriminate; [reflexivity|].
      cbn [mk_parts length]. rewrite (IH prs0) by (simpl in Hl; lia). reflexivity.
    - unfold from_data in Hfull. cbv zeta in Hfull.
      destruct (N.eqb_spec psz 0) as [|Hp0]; [discriminate|].
      destruct (N.leb_spec two32 (N.of_nat (length data) + psz - 1)) as [|Hlt]; [discriminate|].
      destruct (proofs_from H (chunks_of data psz)) as [[r prs']|]; [|discriminate].
      inversion Hfull. cbn [ps_total]. unfold two32 in Hlt.
      assert (Hd : ((N.of_nat (length data) + psz - 1) / psz <= N.of_nat (length data) + psz - 1)%N).
      { apply N.div_le_upper_bound; [exact Hp0|]. nia. }
      lia.
  Qed.

  (** WriteBlock of the parts of NewPartSetFromData(data) under any codec with decode (encode p) = p,
      into any store, at any height: the part loop of ReadBlock finds all of them and their bytes
      concatenate to exactly the data *)
  Lemma store_reassembles (V : Type) (enc : option part -> V) (dec : V -> option part) :
    (forall p, dec (enc p) = p) ->
    forall (d : db V) h hash vmeta vcommit vseen vheight vhash, u64h h ->
    exists vs,
      read_parts V (write_block V d h hash vmeta (map enc (ps_parts full)) vcommit vseen vheight vhash)
                 h (N.to_nat (ps_total full)) = Some vs /\
      concat_parts (map dec vs) = Some data.
  Proof.
    intros Hcodec d h hash vmeta vcommit vseen vheight vhash Hh.
    destruct full_parts_concat as [Hc [Hl Ht]].
    exists (map enc (ps_parts full)). split.
    - rewrite <- Hl, <- (map_length enc). apply write_block_read_parts; [exact Hh|].
      rewrite map_length, Hl, N2Nat.id. lia.
    - rewrite map_map. rewrite (map_ext _ (fun p => p)) by exact Hcodec. rewrite map_id. exact Hc.
  Qed.
End Reassemble.
