(** C13 — what validation against the chain state (validateBlock + the non-signature checks of
    VerifyCommit) binds, and the uniqueness of the block id among the blocks acceptable at a height. *)
From Coq Require Import List ZArith NArith Bool Lia Arith.
From Kardia Require Import Base.Int64 Base.ListX C13.Model C13.ProofsMerkle C13.ProofsSound C13.ProofsPartSet
  C13.ProofsHeader C13.ProofsCommit Generated.C13Facts.
Import ListNotations.
Local Open Scope N_scope.

Local Ltac Zify.zify_post_hook ::= Z.div_mod_to_equations.

Lemma psheader_eqb_eq a b : psheader_eqb a b = true -> a = b.
Proof.
  unfold psheader_eqb. intros He. apply andb_prop in He. destruct He as [E1 E2].
  apply N.eqb_eq in E1. apply bytes_eqb_eq in E2. destruct a as [ta ha], b as [tb hb]; cbn [psh_total psh_hash] in *. subst. reflexivity.
Qed.

Lemma blockid_eqb_eq a b : blockid_eqb a b = true -> a = b.
Proof.
  unfold blockid_eqb. intros He. apply andb_prop in He. destruct He as [E1 E2].
  apply bytes_eqb_eq in E1. apply psheader_eqb_eq in E2. destruct a as [ha pa], b as [hb pb]; cbn [bid_hash bid_parts] in *. subst. reflexivity.
Qed.

Lemma time_eqb_eq a b : time_eqb a b = true -> a = b.
Proof.
  unfold time_eqb. intros He. apply andb_prop in He. destruct He as [E1 E2].
  apply Z.eqb_eq in E1, E2. destruct a as [sa na], b as [sb nb]; cbn [t_secs t_nanos] in *. subst. reflexivity.
Qed.

Lemma negb_if_true (c : bool) {A} (x y : A) : x <> y -> (if negb c then x else y) = y -> c = true.
Proof. destruct c; cbn [negb]; intros Hn He; [reflexivity|contradiction]. Qed.

(** the part count of any admissible block (at most MaxBlockSizeBytes bytes) cut with the real part
    size is within the bound that Proposal.ValidateBasic puts on a proposal's part-set header
    (constants regenerated from the source) *)
Lemma real_total_within_limit (H : bytes -> bytes) data full :
  from_data H data block_part_size_bytes = Some full ->
  N.of_nat (length data) <= max_block_size_bytes ->
  proposal_parts_ok (ps_total full) = true.
Proof.
  intros Hf Hl. unfold from_data in Hf. cbv zeta in Hf.
  destruct (N.eqb block_part_size_bytes 0); [discriminate|].
  destruct (two32 <=? N.of_nat (length data) + block_part_size_bytes - 1); [discriminate|].
  destruct (proofs_from H (chunks_of data block_part_size_bytes)) as [[r prs]|]; [|discriminate].
  inversion Hf. cbn [ps_total]. unfold proposal_parts_ok. apply N.leb_le.
  unfold max_block_parts_count, max_block_size_bytes, block_part_size_bytes in *. lia.
Qed.

Section Validate.
  Variable H K : bytes -> bytes.
  Variable TxRoot : list bytes -> bytes.
  Hypothesis H_len : forall x, length (H x) = 32%nat.

  Lemma verify_commit_ok size bid height sigs_ok c :
    verify_commit size bid height sigs_ok c = VcOk ->
    commit_validate c = VbOk /\ size = N.of_nat (length (c_sigs c)) /\ height = c_height c /\
    bid = c_bid c /\ sigs_ok = true.
  Proof.
    unfold verify_commit. destruct (commit_validate c); try discriminate.
    destruct (N.eqb size (N.of_nat (length (c_sigs c)))) eqn:E1; cbn [negb]; [|discriminate].
    destruct (N.eqb height (c_height c)) eqn:E2; cbn [negb]; [|discriminate].
    destruct (blockid_eqb bid (c_bid c)) eqn:E3; cbn [negb]; [|discriminate].
    destruct sigs_ok; cbn [negb]; [|discriminate].
    intros _. apply N.eqb_eq in E1, E2. apply blockid_eqb_eq in E3. auto.
  Qed.

  (** what a block accepted by validateBlock has in common with the chain state *)
  Lemma validate_block_binds st x b : validate_block H K TxRoot st x b = VsOk ->
    validate_basic H K TxRoot b = VbOk /\
    h_height (b_header b) = u64_succ (st_last_height st) /\
    (st_last_height st = 0 -> h_height (b_header b) = st_initial st) /\
    h_last (b_header b) = st_last_bid st /\
    h_app (b_header b) = st_app st /\ h_valhash (b_header b) = st_valhash st /\
    h_nextval (b_header b) = st_nextvalhash st /\
    (Z.of_nat (length (b_evs b)) <= st_max_evidence st)%Z /\
    x_proposer_known x = true /\ x_evpool_ok x = true /\
    exists c, b_last b = Some c /\
      ((h_height (b_header b) = st_initial st /\ c_sigs c = [] /\ h_time (b_header b) = st_last_time st) \/
       (st_initial st < h_height (b_header b) /\
        commit_validate c = VbOk /\ N.of_nat (length (c_sigs c)) = st_lastvals_size st /\
        c_height c = u64_pred (h_height (b_header b)) /\ c_bid c = st_last_bid st /\ x_sigs_ok x = true /\
        time_ltb (st_last_time st) (h_time (b_header b)) = true /\ h_time (b_header b) = x_median x)).
  Proof.
    unfold validate_block. cbv zeta.
    destruct (validate_basic H K TxRoot b) eqn:Evb; try discriminate.
    destruct (N.eqb (h_height (b_header b)) (u64_succ (st_last_height st))) eqn:E1; cbn [negb]; [|discriminate].
    destruct (N.eqb (st_last_height st) 0 && negb (N.eqb (h_height (b_header b)) (st_initial st)))%bool eqn:E2; [discriminate|].
    destruct (blockid_eqb (h_last (b_header b)) (st_last_bid st)) eqn:E3; cbn [negb]; [|discriminate].
    destruct (bytes_eqb (h_app (b_header b)) (st_app st)) eqn:E4; cbn [negb]; [|discriminate].
    destruct (bytes_eqb (h_valhash (b_header b)) (st_valhash st)) eqn:E5; cbn [negb]; [|discriminate].
    destruct (bytes_eqb (h_nextval (b_header b)) (st_nextvalhash st)) eqn:E6; cbn [negb]; [|discriminate].
    destruct (b_last b) as [c|] eqn:El; [|discriminate].
    apply N.eqb_eq in E1. apply blockid_eqb_eq in E3. apply bytes_eqb_eq in E4, E5, E6.
    intros Hv.
    assert (Hinit : st_last_height st = 0 -> h_height (b_header b) = st_initial st).
    { intros Hz. rewrite Hz in E2. cbn [N.eqb andb] in E2.
      destruct (N.eqb_spec (h_height (b_header b)) (st_initial st)); [assumption|discriminate]. }
    split; [reflexivity|]. split; [exact E1|]. split; [exact Hinit|].
    split; [exact E3|]. split; [exact E4|]. split; [exact E5|]. split; [exact E6|].
    (* the three nested stages: commit, time, tail *)
    set (cm := if N.eqb (h_height (b_header b)) (st_initial st)
               then match c_sigs c with [] => VsOk | _ => VsInitialSigs end
               else match verify_commit (st_lastvals_size st) (st_last_bid st) (u64_pred (h_height (b_header b))) (x_sigs_ok x) c with
                    | VcOk => VsOk | e => VsCommit e end) in Hv.
    destruct cm eqn:Ecm; try discriminate.
    set (tm := if st_initial st <? h_height (b_header b)
               then if negb (time_ltb (st_last_time st) (h_time (b_header b))) then VsTimeNotAfter
                    else if negb (time_eqb (h_time (b_header b)) (x_median x)) then VsTimeMedian else VsOk
               else if N.eqb (h_height (b_header b)) (st_initial st)
                    then if negb (time_eqb (h_time (b_header b)) (st_last_time st)) then VsTimeGenesis else VsOk
                    else VsBelowInitial) in Hv.
    destruct tm eqn:Etm; try discriminate.
    destruct (Z.ltb_spec (st_max_evidence st) (Z.of_nat (length (b_evs b)))) as [|Hev]; [discriminate|].
    destruct (x_proposer_known x); cbn [negb] in Hv; [|discriminate].
    destruct (x_evpool_ok x); cbn [negb] in Hv; [|discriminate].
    split; [exact Hev|]. split; [reflexivity|]. split; [reflexivity|].
    exists c. split; [reflexivity|].
    subst cm tm.
    destruct (N.eqb_spec (h_height (b_header b)) (st_initial st)) as [Ei|Ni].
    - left. split; [exact Ei|].
      destruct (c_sigs c); [|discriminate]. split; [reflexivity|].
      destruct (N.ltb_spec (st_initial st) (h_height (b_header b))) as [Hlt|_]; [lia|].
      destruct (time_eqb (h_time (b_header b)) (st_last_time st)) eqn:Et; cbn [negb] in Etm; [|discriminate].
      apply time_eqb_eq. exact Et.
    - right.
      destruct (N.ltb_spec (st_initial st) (h_height (b_header b))) as [Hlt|_]; [|discriminate].
      split; [exact Hlt|].
      destruct (verify_commit (st_lastvals_size st) (st_last_bid st) (u64_pred (h_height (b_header b))) (x_sigs_ok x) c) eqn:Evc;
        try discriminate.
      destruct (verify_commit_ok _ _ _ _ _ Evc) as [A [B [C [D E]]]].
      destruct (time_ltb (st_last_time st) (h_time (b_header b))) eqn:Et1; cbn [negb] in Etm; [|discriminate].
      destruct (time_eqb (h_time (b_header b)) (x_median x)) eqn:Et2; cbn [negb] in Etm; [|discriminate].
      apply time_eqb_eq in Et2. repeat split; auto.
  Qed.

  (* ---------------------------------------------------------------- uniqueness of the block id *)

  (** an explicit preimage of the all-zero hash (the code reads the zero hash as "no evidence") *)
  Definition zero_preimage : Prop := exists x, H x = zero_hash.

  Lemma root_is_hash items : items <> [] -> exists x, root H items = H x.
  Proof.
    destruct items as [|a [|b l]]; intros Hn; [congruence| |].
    - rewrite root_single. eexists. reflexivity.
    - rewrite root_unfold by (simpl; lia). eexists. reflexivity.
  Qed.

  Lemma map_hash_inj : forall l l' : list bytes, map K l = map K l' -> l = l' \/ collision K.
  Proof.
    induction l as [|a l IH]; destruct l' as [|a' l']; cbn [map]; intros He; try discriminate; [left; reflexivity|].
    inversion He as [[E1 E2]].
    destruct (hash_inj K _ _ E1) as [Ea|C]; [|right; exact C].
    destruct (IH _ E2) as [El|C]; [|right; exact C]. left. congruence.
  Qed.

  Lemma evidence_hash_binds evs evs' : evidence_hash H K evs = evidence_hash H K evs' ->
    evs = evs' \/ collision H \/ collision K \/ zero_preimage.
  Proof.
    unfold evidence_hash. intros He.
    destruct evs as [|e evs], evs' as [|e' evs'].
    - left; reflexivity.
    - right; right; right.
      assert (Hn : map K (e' :: evs') <> []) by discriminate.
      rewrite bytes_to_hash_32 in He by (apply root_len; auto).
      destruct (root_is_hash _ Hn) as [x Ex]. exists x. congruence.
    - right; right; right.
      assert (Hn : map K (e :: evs) <> []) by discriminate.
      rewrite bytes_to_hash_32 in He by (apply root_len; auto).
      destruct (root_is_hash _ Hn) as [x Ex]. exists x. congruence.
    - assert (Hn : map K (e :: evs) <> []) by discriminate.
      assert (Hn' : map K (e' :: evs') <> []) by discriminate.
      rewrite !bytes_to_hash_32 in He by (apply root_len; auto).
      destruct (root_inj H H_len _ _ He) as [Em|C]; [|right; left; exact C].
      destruct (map_hash_inj _ _ Em) as [E|C]; [left; exact E|right; right; left; exact C].
  Qed.

  Lemma commit_validate_nonempty c : commit_validate c = VbOk -> 1 <= c_height c -> c_sigs c <> [].
  Proof.
    unfold commit_validate. intros Hv Hh. destruct (N.leb_spec 1 (c_height c)); [|lia].
    destruct (blockid_is_zero (c_bid c)); [discriminate|].
    destruct (c_sigs c); [discriminate|discriminate].
  Qed.

  Lemma u64_pred_ge2 h : 2 <= h -> u64 h -> u64_pred h = h - 1.
  Proof.
    unfold u64, u64_pred, two64N. intros H2 Hu.
    replace (h + 18446744073709551616 - 1) with ((h - 1) + 1 * 18446744073709551616) by lia.
    rewrite N.mod_add by lia. apply N.mod_small. lia.
  Qed.

  (** Two blocks that are acceptable against the same chain state and share the block hash.  They
      have the same header, the same transactions (given that the transaction root determines the
      list — C07 — up to collisions), the same evidence and the same commit signatures; above the
      initial height also the height and the block id of the last commit agree.  Otherwise an explicit
      collision of one of the hashes (or a preimage of the zero hash) is exhibited.
      Not covered: the ROUND of the last commit (bound only by the signatures, C02/C11), and at the
      initial height round and block id of the empty commit (C13_commit_meta_bound_refuted). *)
  Lemma unique_id st x x' b b' :
    (forall l l', TxRoot l = TxRoot l' -> l = l' \/ collision K) ->
    u64 (st_last_height st) ->
    wf_header (b_header b) -> wf_header (b_header b') ->
    (forall c, b_last b = Some c -> Forall wf_commit_sig (c_sigs c)) ->
    (forall c, b_last b' = Some c -> Forall wf_commit_sig (c_sigs c)) ->
    validate_block H K TxRoot st x b = VsOk -> validate_block H K TxRoot st x' b' = VsOk ->
    header_hash K (b_header b) = header_hash K (b_header b') ->
    collision K \/ collision H \/ zero_preimage \/
    (b_header b = b_header b' /\ b_txs b = b_txs b' /\ map fst (b_evs b) = map fst (b_evs b') /\
     exists c c', b_last b = Some c /\ b_last b' = Some c' /\ c_sigs c = c_sigs c' /\
       (h_height (b_header b) <> st_initial st -> c_height c = c_height c' /\ c_bid c = c_bid c')).
  Proof.
    intros Htx Wst W W' Ws Ws' V V' Hh.
    destruct (validate_block_binds _ _ _ V) as [Vb [Hht [Hi0 [_ [_ [_ [_ [_ [_ [_ [c [Lc Cc]]]]]]]]]]]].
    destruct (validate_block_binds _ _ _ V') as [Vb' [Hht' [_ [_ [_ [_ [_ [_ [_ [_ [c' [Lc' Cc']]]]]]]]]]]].
    destruct (header_hash_binds K _ _ W W' Hh) as [Eh|C]; [|left; exact C].
    destruct (validate_basic_binds H K TxRoot _ Vb) as [T [Ev [_ L]]].
    destruct (validate_basic_binds H K TxRoot _ Vb') as [T' [Ev' [_ L']]].
    rewrite Lc in L. rewrite Lc' in L'. destruct L as [L Lv], L' as [L' Lv'].
    (* transactions *)
    assert (Et : TxRoot (b_txs b) = TxRoot (b_txs b')) by (rewrite <- T, <- T', Eh; reflexivity).
    destruct (Htx _ _ Et) as [Etx|C]; [|left; exact C].
    (* evidence *)
    assert (Ee : evidence_hash H K (map fst (b_evs b)) = evidence_hash H K (map fst (b_evs b')))
      by (rewrite <- Ev, <- Ev', Eh; reflexivity).
    destruct (evidence_hash_binds _ _ Ee) as [Eev|[C|[C|Z]]];
      [|right; left; exact C|left; exact C|right; right; left; exact Z].
    (* last commit *)
    assert (Ec : commit_hash H c = commit_hash H c') by (rewrite L, L', Eh; reflexivity).
    assert (Hsig : (c_sigs c = c_sigs c' /\
                    (h_height (b_header b) <> st_initial st -> c_height c = c_height c' /\ c_bid c = c_bid c')) \/ collision H).
    { destruct Cc as [[Ci [Cs _]]|[Clt [Cv [_ [Chh [Cbid _]]]]]].
      - destruct Cc' as [[_ [Cs' _]]|[Clt' _]]; [|rewrite <- Eh in Clt'; lia].
        left. split; [congruence|]. intros Hn; contradiction.
      - destruct Cc' as [[Ci' _]|[Clt' [Cv' [_ [Chh' [Cbid' _]]]]]]; [rewrite <- Eh in Ci'; lia|].
        assert (H2 : 2 <= h_height (b_header b)).
        { destruct (N.eq_dec (st_last_height st) 0) as [Z0|NZ]; [specialize (Hi0 Z0); lia|].
          destruct (N.eq_dec (h_height (b_header b)) 0); [lia|].
          destruct (N.eq_dec (h_height (b_header b)) 1) as [E1|]; [|lia].
          exfalso. rewrite E1 in Hht. unfold u64_succ, two64N in Hht.
          unfold u64 in Wst.
          destruct (N.eq_dec (st_last_height st + 1) 18446744073709551616) as [Hs|Hs].
          - rewrite Hs in Hht. rewrite N.mod_same in Hht by lia. discriminate.
          - rewrite N.mod_small in Hht by lia. lia. }
        assert (Hp : u64_pred (h_height (b_header b)) = h_height (b_header b) - 1)
          by (apply u64_pred_ge2; [exact H2|apply W]).
        assert (Hn : c_sigs c <> []) by (apply commit_validate_nonempty; [exact Cv|rewrite Chh, Hp; lia]).
        assert (Hn' : c_sigs c' <> []).
        { apply commit_validate_nonempty; [exact Cv'|]. rewrite Chh', <- Eh, Hp. lia. }
        assert (Hs : commit_hash H c <> None) by (rewrite L; discriminate).
        destruct (commit_hash_binds_sigs H H_len c c' Hn Hn' (Ws _ Lc) (Ws' _ Lc') Hs Ec) as [Es|C]; [|right; exact C].
        left. split; [exact Es|]. intros _. split; [rewrite Chh, Chh', Eh; reflexivity|congruence]. }
    destruct Hsig as [[Es Em]|C]; [|right; left; exact C].
    right; right; right. split; [exact Eh|]. split; [exact Etx|]. split; [exact Eev|].
    exists c, c'. auto.
  Qed.
End Validate.

(* ------------------------------------------------------------------ the validation cache *)

Definition wf_block (b : block) : Prop :=
  wf_header (b_header b) /\ forall c, b_last b = Some c -> Forall wf_commit_sig (c_sigs c).

Lemma vkey_eqb_eq a b : vkey_eqb a b = true -> a = b.
Proof.
  unfold vkey_eqb. intros He. apply andb_prop in He. destruct He as [E1 E2].
  destruct a as [ha ma], b as [hb mb]; cbn [vk_hash vk_meta] in *.
  assert (ha = hb).
  { destruct ha, hb; cbn [opt_bytes_eqb] in E1; try discriminate; [|reflexivity]. apply bytes_eqb_eq in E1. congruence. }
  subst hb. f_equal.
  destruct ma as [[[h r] i]|], mb as [[[h' r'] i']|]; try discriminate; [|reflexivity].
  apply andb_prop in E2. destruct E2 as [E2 E3]. apply andb_prop in E2. destruct E2 as [E2 E4].
  apply N.eqb_eq in E2, E4. apply blockid_eqb_eq in E3. subst. reflexivity.
Qed.

Section Executor.
  Variable H K : bytes -> bytes.
  Variable TxRoot : list bytes -> bytes.
  Hypothesis H_len : forall x, length (H x) = 32%nat.
  Hypothesis Htx : forall l l', TxRoot l = TxRoot l' -> l = l' \/ collision K.

  Notation zero_preimage := (zero_preimage H).

  (** equal commit hashes: equal signature lists (also when one of them is empty: then the other
      one's Merkle root is a preimage of the zero hash) *)
  Lemma sigs_bind c c' : Forall wf_commit_sig (c_sigs c) -> Forall wf_commit_sig (c_sigs c') ->
    commit_hash H c <> None -> commit_hash H c = commit_hash H c' ->
    c_sigs c = c_sigs c' \/ collision H \/ zero_preimage.
  Proof.
    intros W W' Hs He.
    destruct (c_sigs c) as [|s l] eqn:Es, (c_sigs c') as [|s' l'] eqn:Es'.
    - left; reflexivity.
    - right; right. unfold commit_hash in He. rewrite Es, Es' in He. cbn [map all_some] in He.
      destruct (encode_commit_sig s') as [e|]; [|discriminate].
      destruct (all_some (map encode_commit_sig l')) as [r|]; [|discriminate].
      inversion He as [E]. rewrite root_nil in E. change (bytes_to_hash []) with zero_hash in E.
      assert (Hn : e :: r <> []) by discriminate.
      rewrite bytes_to_hash_32 in E by (apply root_len; auto).
      destruct (root_is_hash H K TxRoot H_len _ Hn) as [x Ex]. exists x. congruence.
    - right; right. unfold commit_hash in He. rewrite Es, Es' in He. cbn [map all_some] in He.
      destruct (encode_commit_sig s) as [e|]; [|unfold commit_hash in Hs; rewrite Es in Hs; cbn [map all_some] in Hs; destruct (encode_commit_sig s); [discriminate|congruence]].
      destruct (all_some (map encode_commit_sig l)) as [r|].
      + inversion He as [E]. rewrite root_nil in E. change (bytes_to_hash []) with zero_hash in E.
        assert (Hn : e :: r <> []) by discriminate.
        rewrite bytes_to_hash_32 in E by (apply root_len; auto).
        destruct (root_is_hash H K TxRoot H_len _ Hn) as [x Ex]. exists x. congruence.
      + discriminate.
    - rewrite <- Es, <- Es'.
      assert (Hn : c_sigs c <> []) by (rewrite Es; discriminate).
      assert (Hn' : c_sigs c' <> []) by (rewrite Es'; discriminate).
      rewrite <- Es in W. rewrite <- Es' in W'.
      destruct (commit_hash_binds_sigs H H_len c c' Hn Hn' W W' Hs He) as [E|C]; [left; exact E|right; left; exact C].
  Qed.

  (** two blocks that pass Block.ValidateBasic and share the block hash have the same header, the same
      transactions, the same evidence and the same commit signatures — or an explicit collision *)
  Lemma same_hash_same_body b b' : wf_block b -> wf_block b' ->
    validate_basic H K TxRoot b = VbOk -> validate_basic H K TxRoot b' = VbOk ->
    header_hash K (b_header b) = header_hash K (b_header b') ->
    collision K \/ collision H \/ zero_preimage \/
    (b_header b = b_header b' /\ b_txs b = b_txs b' /\ b_evs b = b_evs b' /\
     forall c c', b_last b = Some c -> b_last b' = Some c' -> c_sigs c = c_sigs c').
  Proof.
    intros [W Ws] [W' Ws'] Vb Vb' Hh.
    destruct (header_hash_binds K _ _ W W' Hh) as [Eh|C]; [|left; exact C].
    destruct (validate_basic_binds H K TxRoot _ Vb) as [T [Ev [Fl L]]].
    destruct (validate_basic_binds H K TxRoot _ Vb') as [T' [Ev' [Fl' L']]].
    assert (Et : TxRoot (b_txs b) = TxRoot (b_txs b')) by (rewrite <- T, <- T', Eh; reflexivity).
    destruct (Htx _ _ Et) as [Etx|C]; [|left; exact C].
    assert (Ee : evidence_hash H K (map fst (b_evs b)) = evidence_hash H K (map fst (b_evs b')))
      by (rewrite <- Ev, <- Ev', Eh; reflexivity).
    destruct (evidence_hash_binds H K TxRoot H_len _ _ Ee) as [Eev|[C|[C|Z]]];
      [|right; left; exact C|left; exact C|right; right; left; exact Z].
    assert (Eevs : b_evs b = b_evs b').
    { clear - Eev Fl Fl'. revert Eev Fl Fl'. generalize (b_evs b') as l'. induction (b_evs b) as [|[e f] l IH]; intros [|[e' f'] l'];
        cbn [map fst forallb snd]; intros Em F F'; try discriminate; [reflexivity|].
      apply andb_prop in F, F'. destruct F as [F1 F2], F' as [F1' F2']. inversion Em. subst. f_equal. apply IH; auto. }
    assert (Hsig : (forall c c', b_last b = Some c -> b_last b' = Some c' -> c_sigs c = c_sigs c') \/ collision H \/ zero_preimage).
    { destruct (b_last b) as [c|] eqn:Lc, (b_last b') as [c'|] eqn:Lc'; try (left; intros; discriminate).
      destruct L as [L _], L' as [L' _].
      assert (Ec : commit_hash H c = commit_hash H c') by (rewrite L, L', Eh; reflexivity).
      assert (Hs : commit_hash H c <> None) by (rewrite L; discriminate).
      destruct (sigs_bind c c' (Ws _ eq_refl) (Ws' _ eq_refl) Hs Ec) as [E|[C|Z]]; [|right; left; exact C|right; right; exact Z].
      left. intros c0 c0' E0 E0'. inversion E0; inversion E0'; subst. exact E. }
    destruct Hsig as [Es|[C|Z]]; [|right; left; exact C|right; right; left; exact Z].
    right; right; right. auto.
  Qed.

  (** every cached key belongs to a well-formed block that passed the full validation for this state *)
  Definition cache_ok (st : vstate) (cache : list vkey) : Prop :=
    forall k, In k cache -> exists x0 b0, wf_block b0 /\ validate_block H K TxRoot st x0 b0 = VsOk /\
                                        validation_key K b0 = k.

  Lemma exec_validate_inv st cache x b : wf_block b -> cache_ok st cache ->
    cache_ok st (snd (exec_validate H K TxRoot cache st x b)).
  Proof.
    intros Wb Hc. unfold exec_validate.
    destruct (existsb (vkey_eqb (validation_key K b)) cache); [exact Hc|].
    destruct (validate_block H K TxRoot st x b) eqn:Ev; try exact Hc.
    cbn [snd]. intros k [Ek|Hin]; [|apply Hc; exact Hin].
    exists x, b. auto.
  Qed.

  Lemma exec_run_inv st : forall calls cache, Forall (fun xb => wf_block (snd xb)) calls -> cache_ok st cache ->
    cache_ok st (exec_run H K TxRoot cache st calls).
  Proof.
    induction calls as [|[x b] calls IH]; intros cache Hw Hc; [exact Hc|].
    inversion Hw; subst. cbn [exec_run]. apply IH; [assumption|]. apply exec_validate_inv; assumption.
  Qed.

  (** a block that ValidateBlock accepts — through the cache or not, after any history of calls
      against the same chain state — is a block that the full validation accepts for that state (with
      the external facts of the call that filled the cache), or a collision is exhibited: a tampered
      body cannot ride on a cached header *)
  Lemma cache_sound st calls x b :
    Forall (fun xb => wf_block (snd xb)) calls -> wf_block b ->
    fst (exec_validate H K TxRoot (exec_run H K TxRoot [] st calls) st x b) = VsOk ->
    collision K \/ collision H \/ zero_preimage \/ exists x0, validate_block H K TxRoot st x0 b = VsOk.
  Proof.
    intros Hw Wb Hok.
    assert (Hc : cache_ok st (exec_run H K TxRoot [] st calls)).
    { apply exec_run_inv; [exact Hw|]. intros k []. }
    set (cache := exec_run H K TxRoot [] st calls) in *.
    unfold exec_validate in Hok.
    destruct (existsb (vkey_eqb (validation_key K b)) cache) eqn:Eh.
    - apply existsb_exists in Eh. destruct Eh as [k [Hin Ek]]. apply vkey_eqb_eq in Ek. subst k.
      destruct (Hc _ Hin) as [x0 [b0 [W0 [V0 K0]]]].
      cbn [fst] in Hok. destruct (validate_basic H K TxRoot b) eqn:Vb; try discriminate.
      destruct (validate_block_binds H K TxRoot _ _ _ V0) as [Vb0 _].
      unfold validation_key in K0. inversion K0 as [[Ehash Emeta]].
      destruct (same_hash_same_body b0 b W0 Wb Vb0 Vb Ehash) as [C|[C|[Z|[E1 [E2 [E3 E4]]]]]];
        [left; exact C|right; left; exact C|right; right; left; exact Z|].
      right; right; right. exists x0.
      assert (Eb : b0 = b).
      { destruct b0 as [h0 t0 l0 e0], b as [h1 t1 l1 e1]; cbn [b_header b_txs b_last b_evs] in *. subst.
        f_equal. destruct l0 as [c0|], l1 as [c1|]; try discriminate; [|reflexivity].
        specialize (E4 _ _ eq_refl eq_refl). inversion Emeta.
        destruct c0 as [a1 a2 a3 a4], c1 as [d1 d2 d3 d4]; cbn [c_height c_round c_bid c_sigs] in *. subst. reflexivity. }
      rewrite <- Eb. exact V0.
    - destruct (validate_block H K TxRoot st x b) eqn:Ev; try discriminate.
      right; right; right. exists x. exact Ev.
  Qed.
End Executor.

(** the hypotheses of [unique_id] are satisfiable: the initial block of ProofsHeader is accepted by the
    state that expects it *)
Definition genesis_state : vstate :=
  {| st_initial := 1; st_last_height := 0;
     st_last_bid := {| bid_hash := zero_hash; bid_parts := {| psh_total := 0; psh_hash := zero_hash |} |};
     st_app := zero_hash; st_valhash := zero_hash; st_nextvalhash := zero_hash; st_lastvals_size := 0;
     st_last_time := {| t_secs := 1600000000; t_nanos := 0 |}; st_max_evidence := 10 |}.
Definition ext_ok : vext :=
  {| x_sigs_ok := true; x_median := {| t_secs := 0; t_nanos := 0 |}; x_proposer_known := true; x_evpool_ok := true |}.

Example validate_block_satisfiable (H K : bytes -> bytes) (TxRoot : list bytes -> bytes) :
  validate_block H K TxRoot genesis_state ext_ok (genesis_block TxRoot 0) = VsOk.
Proof.
  unfold validate_block.
  destruct (commit_meta_unbound_at_initial_height H K TxRoot) as [_ [V _]]. rewrite V.
  cbv zeta. unfold genesis_block, genesis_header, genesis_state, ext_ok.
  cbn [b_header b_last b_evs h_height h_last h_app h_valhash h_nextval h_time st_last_height st_initial st_last_bid
       st_app st_valhash st_nextvalhash st_last_time st_max_evidence c_sigs x_proposer_known x_evpool_ok].
  change (u64_succ 0) with 1. change (N.eqb 1 1) with true. change (N.eqb 0 0) with true. cbn [negb andb].
  unfold blockid_eqb, psheader_eqb. cbn [bid_hash bid_parts psh_total psh_hash].
  rewrite !bytes_eqb_refl. change (N.eqb 0 0) with true. cbn [negb andb].
  change (1 <? 1) with false. cbv iota.
  unfold time_eqb. cbn [t_secs t_nanos]. rewrite !Z.eqb_refl. cbn [negb andb length Z.of_nat].
  reflexivity.
Qed.
