(** C13 — Merkle tree lemmas: fuel independence, unfolding, completeness and soundness of proofs. *)
From Coq Require Import List ZArith NArith Bool Lia Arith.
From Kardia Require Import Base.Int64 Base.ListX C13.Model.
Import ListNotations.

Lemma bytes_eqb_eq a b : bytes_eqb a b = true <-> a = b.
Proof.
  revert b; induction a as [|x a IH]; destruct b as [|y b]; simpl; split; intros Hh; try congruence; auto.
  - apply andb_true_iff in Hh. destruct Hh as [H1 H2]. apply N.eqb_eq in H1. apply IH in H2. congruence.
  - inversion Hh; subst. apply andb_true_iff. split; [apply N.eqb_refl | apply IH; reflexivity].
Qed.

Lemma bytes_eqb_refl a : bytes_eqb a a = true.
Proof. apply bytes_eqb_eq. reflexivity. Qed.

Lemma bytes_eq_dec (a b : bytes) : {a = b} + {a <> b}.
Proof. apply list_eq_dec. apply N.eq_dec. Qed.

(* ------------------------------------------------------------------ split point *)

Lemma split_point_bounds n : (2 <= n)%N -> (1 <= split_point n < n)%N.
Proof.
  intros Hn. unfold split_point.
  assert (Hpos : (0 < n)%N) by lia.
  pose proof (N.log2_spec n Hpos) as [Hlo Hhi].
  destruct (N.eqb_spec (2 ^ N.log2 n) n) as [He|Hne].
  - (* n is a power of two: k/2 *)
    assert (Hl : (1 <= N.log2 n)%N).
    { destruct (N.log2 n) eqn:El; [|lia]. simpl in He. lia. }
    replace (N.log2 n) with (N.succ (N.log2 n - 1)) in * by lia.
    rewrite N.pow_succ_r' in *.
    set (m := (2 ^ (N.log2 n - 1))%N) in *.
    assert (0 < m)%N by (apply N.neq_0_lt_0; apply N.pow_nonzero; lia).
    replace (2 * m / 2)%N with m by (rewrite N.mul_comm, N.div_mul; lia). lia.
  - assert (0 < 2 ^ N.log2 n)%N by (apply N.neq_0_lt_0; apply N.pow_nonzero; lia). lia.
Qed.

Definition splitk (n : nat) : nat := N.to_nat (split_point (N.of_nat n)).

Lemma splitk_bounds n : 2 <= n -> 1 <= splitk n < n.
Proof. intros Hn. unfold splitk. pose proof (split_point_bounds (N.of_nat n)). lia. Qed.

(** induction along the tree shape *)
Lemma items_ind (P : list bytes -> Prop) :
  P [] -> (forall x, P [x]) ->
  (forall items, 2 <= length items ->
     P (firstn (splitk (length items)) items) -> P (skipn (splitk (length items)) items) -> P items) ->
  forall items, P items.
Proof.
  intros H0 H1 Hs items.
  remember (length items) as n eqn:En. revert items En.
  induction n as [n IH] using lt_wf_ind. intros items En.
  destruct items as [|x [|y l]]; auto.
  assert (Hl2 : 2 <= length (x :: y :: l)) by (simpl; lia).
  pose proof (splitk_bounds _ Hl2) as Hk.
  apply Hs; [exact Hl2| |].
  - eapply IH; [|reflexivity]. rewrite firstn_length. subst n. lia.
  - eapply IH; [|reflexivity]. rewrite skipn_length. subst n. lia.
Qed.

Section Merkle.
  Variable H : bytes -> bytes.

  Notation root := (root H).
  Notation leaf_hash := (leaf_hash H).
  Notation inner_hash := (inner_hash H).

  (* ---------------------------------------------------------------- fuel *)

  Lemma root_fuel_indep f1 : forall f2 items, length items <= f1 -> length items <= f2 ->
    root_fuel H f1 items = root_fuel H f2 items.
  Proof.
    induction f1 as [|f1 IH]; intros f2 items H1 H2.
    - destruct items; [|simpl in H1; lia]. destruct f2; reflexivity.
    - destruct items as [|x [|y l]].
      + destruct f2; reflexivity.
      + destruct f2; [simpl in H2; lia|reflexivity].
      + destruct f2 as [|f2]; [simpl in H2; lia|].
        change (root_fuel H (S f1) (x :: y :: l)) with
          (inner_hash (root_fuel H f1 (firstn (splitk (length (x :: y :: l))) (x :: y :: l)))
                      (root_fuel H f1 (skipn (splitk (length (x :: y :: l))) (x :: y :: l)))).
        change (root_fuel H (S f2) (x :: y :: l)) with
          (inner_hash (root_fuel H f2 (firstn (splitk (length (x :: y :: l))) (x :: y :: l)))
                      (root_fuel H f2 (skipn (splitk (length (x :: y :: l))) (x :: y :: l)))).
        pose proof (splitk_bounds (length (x :: y :: l)) ltac:(simpl; lia)) as Hk.
        f_equal; apply IH; rewrite ?firstn_length, ?skipn_length; lia.
  Qed.

  Lemma root_nil : root [] = [].
  Proof. reflexivity. Qed.
  Lemma root_single x : root [x] = leaf_hash x.
  Proof. reflexivity. Qed.

  Lemma root_unfold items : 2 <= length items ->
    root items = inner_hash (root (firstn (splitk (length items)) items)) (root (skipn (splitk (length items)) items)).
  Proof.
    intros Hl. destruct items as [|x [|y l]]; try (simpl in Hl; lia).
    unfold Model.root at 1.
    change (root_fuel H (length (x :: y :: l)) (x :: y :: l)) with
      (inner_hash (root_fuel H (S (length l)) (firstn (splitk (length (x :: y :: l))) (x :: y :: l)))
                  (root_fuel H (S (length l)) (skipn (splitk (length (x :: y :: l))) (x :: y :: l)))).
    pose proof (splitk_bounds (length (x :: y :: l)) Hl) as Hk.
    unfold Model.root. f_equal; apply root_fuel_indep; rewrite ?firstn_length, ?skipn_length; cbn [length] in *; lia.
  Qed.

  Lemma trails_fuel_indep f1 : forall f2 items, length items <= f1 -> length items <= f2 ->
    trails_fuel H f1 items = trails_fuel H f2 items.
  Proof.
    induction f1 as [|f1 IH]; intros f2 items H1 H2.
    - destruct items; [|simpl in H1; lia]. destruct f2; reflexivity.
    - destruct items as [|x [|y l]].
      + destruct f2; reflexivity.
      + destruct f2; [simpl in H2; lia|reflexivity].
      + destruct f2 as [|f2]; [simpl in H2; lia|].
        pose proof (splitk_bounds (length (x :: y :: l)) ltac:(simpl; lia)) as Hk.
        assert (E1 : trails_fuel H f1 (firstn (splitk (length (x :: y :: l))) (x :: y :: l)) =
                     trails_fuel H f2 (firstn (splitk (length (x :: y :: l))) (x :: y :: l)))
          by (apply IH; rewrite firstn_length; lia).
        assert (E2 : trails_fuel H f1 (skipn (splitk (length (x :: y :: l))) (x :: y :: l)) =
                     trails_fuel H f2 (skipn (splitk (length (x :: y :: l))) (x :: y :: l)))
          by (apply IH; rewrite skipn_length; lia).
        change (trails_fuel H (S f1) (x :: y :: l)) with
          (let l0 := trails_fuel H f1 (firstn (splitk (length (x :: y :: l))) (x :: y :: l)) in
           let r0 := trails_fuel H f1 (skipn (splitk (length (x :: y :: l))) (x :: y :: l)) in
           (map (fun t => (fst t, snd t ++ [snd r0])) (fst l0) ++ map (fun t => (fst t, snd t ++ [snd l0])) (fst r0),
            inner_hash (snd l0) (snd r0))).
        change (trails_fuel H (S f2) (x :: y :: l)) with
          (let l0 := trails_fuel H f2 (firstn (splitk (length (x :: y :: l))) (x :: y :: l)) in
           let r0 := trails_fuel H f2 (skipn (splitk (length (x :: y :: l))) (x :: y :: l)) in
           (map (fun t => (fst t, snd t ++ [snd r0])) (fst l0) ++ map (fun t => (fst t, snd t ++ [snd l0])) (fst r0),
            inner_hash (snd l0) (snd r0))).
        cbv zeta. rewrite E1, E2. reflexivity.
  Qed.

  Lemma trails_unfold items : 2 <= length items ->
    trails H items =
    let l0 := trails H (firstn (splitk (length items)) items) in
    let r0 := trails H (skipn (splitk (length items)) items) in
    (map (fun t => (fst t, snd t ++ [snd r0])) (fst l0) ++ map (fun t => (fst t, snd t ++ [snd l0])) (fst r0),
     inner_hash (snd l0) (snd r0)).
  Proof.
    intros Hl. destruct items as [|x [|y l]]; try (simpl in Hl; lia).
    pose proof (splitk_bounds (length (x :: y :: l)) Hl) as Hk.
    unfold trails at 1.
    change (trails_fuel H (length (x :: y :: l)) (x :: y :: l)) with
      (let l0 := trails_fuel H (S (length l)) (firstn (splitk (length (x :: y :: l))) (x :: y :: l)) in
       let r0 := trails_fuel H (S (length l)) (skipn (splitk (length (x :: y :: l))) (x :: y :: l)) in
       (map (fun t => (fst t, snd t ++ [snd r0])) (fst l0) ++ map (fun t => (fst t, snd t ++ [snd l0])) (fst r0),
        inner_hash (snd l0) (snd r0))).
    cbv zeta. unfold trails.
    rewrite (trails_fuel_indep (S (length l)) (length (firstn (splitk (length (x :: y :: l))) (x :: y :: l)))
                               (firstn (splitk (length (x :: y :: l))) (x :: y :: l)))
      by (rewrite ?firstn_length, ?skipn_length; cbn [length] in *; lia).
    rewrite (trails_fuel_indep (S (length l)) (length (skipn (splitk (length (x :: y :: l))) (x :: y :: l)))
                               (skipn (splitk (length (x :: y :: l))) (x :: y :: l)))
      by (rewrite ?firstn_length, ?skipn_length; cbn [length] in *; lia).
    reflexivity.
  Qed.

  (* ---------------------------------------------------------------- compute_rev unfolding *)

  Lemma compute_rev_nil i t lh :
    compute_rev H i t lh [] =
    if (Z.geb i t || Z.ltb i 0 || Z.leb t 0)%bool then None else if Z.eqb t 1 then Some lh else None.
  Proof. reflexivity. Qed.

  Lemma compute_rev_cons i t lh a ra :
    compute_rev H i t lh (a :: ra) =
    if (Z.geb i t || Z.ltb i 0 || Z.leb t 0)%bool then None
    else if Z.eqb t 1 then None
    else let numLeft := Z.of_N (split_point (Z.to_N t)) in
         if Z.ltb i numLeft then
           match compute_rev H i numLeft lh ra with None => None | Some l => Some (inner_hash l a) end
         else match compute_rev H (i - numLeft)%Z (t - numLeft)%Z lh ra with
              | None => None | Some r => Some (inner_hash a r) end.
  Proof. reflexivity. Qed.

  Lemma split_z n : Z.of_N (split_point (Z.to_N (Z.of_nat n))) = Z.of_nat (splitk n).
  Proof. unfold splitk. rewrite N_nat_Z. rewrite <- (nat_N_Z n). rewrite N2Z.id. reflexivity. Qed.

  (* ---------------------------------------------------------------- completeness *)

  Lemma trails_spec : forall items,
    snd (trails H items) = root items /\
    length (fst (trails H items)) = length items /\
    forall i x, nth_error items i = Some x ->
      exists a, nth_error (fst (trails H items)) i = Some (leaf_hash x, a) /\
                compute_rev H (Z.of_nat i) (Z.of_nat (length items)) (leaf_hash x) (rev a) = Some (root items).
  Proof.
    apply (items_ind (fun items =>
      snd (trails H items) = root items /\
      length (fst (trails H items)) = length items /\
      forall i x, nth_error items i = Some x ->
        exists a, nth_error (fst (trails H items)) i = Some (leaf_hash x, a) /\
                  compute_rev H (Z.of_nat i) (Z.of_nat (length items)) (leaf_hash x) (rev a) = Some (root items))).
    - repeat split; auto. intros i x Hn. destruct i; discriminate.
    - intros x. repeat split; auto. intros i y Hn. destruct i as [|i]; [|destruct i; discriminate].
      inversion Hn; subst. exists []. split; reflexivity.
    - intros items Hl [IL1 [IL2 IL3]] [IR1 [IR2 IR3]].
      pose proof (splitk_bounds (length items) Hl) as Hk.
      set (k := splitk (length items)) in *.
      rewrite (trails_unfold items Hl). cbv zeta. fold k.
      rewrite (root_unfold items Hl). fold k.
      assert (HLl : length (firstn k items) = k) by (rewrite firstn_length; lia).
      assert (HRl : length (skipn k items) = length items - k) by (rewrite skipn_length; lia).
      cbn [fst snd]. rewrite IL1, IR1.
      split; [reflexivity|]. split.
      { rewrite app_length, !map_length, IL2, IR2. lia. }
      intros i x Hn.
      assert (Hi : i < length items) by (apply nth_error_Some; congruence).
      destruct (lt_dec i k) as [Hlt|Hge].
      + assert (HnL : nth_error (firstn k items) i = Some x).
        { rewrite <- (firstn_skipn k items) in Hn. rewrite nth_error_app1 in Hn by lia. exact Hn. }
        destruct (IL3 i x HnL) as [a [Ha Hc]].
        exists (a ++ [root (skipn k items)]). split.
        * rewrite nth_error_app1 by (rewrite map_length; lia).
          rewrite nth_error_map, Ha. reflexivity.
        * rewrite rev_app_distr. cbn [rev app].
          rewrite compute_rev_cons.
          replace (Z.of_nat i >=? Z.of_nat (length items))%Z with false by lia.
          replace (Z.of_nat i <? 0)%Z with false by lia.
          replace (Z.of_nat (length items) <=? 0)%Z with false by lia.
          replace (Z.of_nat (length items) =? 1)%Z with false by lia.
          cbn [orb]. cbv zeta. rewrite split_z. fold k.
          replace (Z.of_nat i <? Z.of_nat k)%Z with true by lia.
          rewrite HLl in Hc. rewrite Hc. reflexivity.
      + assert (HnR : nth_error (skipn k items) (i - k) = Some x).
        { rewrite <- (firstn_skipn k items) in Hn. rewrite nth_error_app2 in Hn by lia.
          rewrite HLl in Hn. exact Hn. }
        destruct (IR3 (i - k) x HnR) as [a [Ha Hc]].
        exists (a ++ [root (firstn k items)]). split.
        * rewrite nth_error_app2 by (rewrite map_length; lia).
          rewrite map_length, IL2, HLl, nth_error_map, Ha. reflexivity.
        * rewrite rev_app_distr. cbn [rev app].
          rewrite compute_rev_cons.
          replace (Z.of_nat i >=? Z.of_nat (length items))%Z with false by lia.
          replace (Z.of_nat i <? 0)%Z with false by lia.
          replace (Z.of_nat (length items) <=? 0)%Z with false by lia.
          replace (Z.of_nat (length items) =? 1)%Z with false by lia.
          cbn [orb]. cbv zeta. rewrite split_z. fold k.
          replace (Z.of_nat i <? Z.of_nat k)%Z with false by lia.
          rewrite HRl in Hc.
          replace (Z.of_nat i - Z.of_nat k)%Z with (Z.of_nat (i - k)) by lia.
          replace (Z.of_nat (length items) - Z.of_nat k)%Z with (Z.of_nat (length items - k)) by lia.
          rewrite Hc. reflexivity.
  Qed.
End Merkle.
