(** C13 — statements that are NOT proved (kept as definitions; nothing depends on them). *)
From Coq Require Import List ZArith NArith Bool.
From Kardia Require Import Base.Int64 C13.Model C13.ProofsSound C13.ProofsHeader.
Import ListNotations.

(** Full uniqueness of the block id: two blocks that pass ValidateBasic and share the block hash have
    equal transaction lists, equal commit signatures and equal evidence (up to collisions of H, K and
    of the transaction trie).  Proved so far: equality of the header and of the three commitments
    (C13_same_hash_same_commitments_partial) and injectivity of the Merkle root
    (C13_merkle_root_injective); missing: injectivity of the CommitSig encoder, of DeriveSha (C07),
    and the binding of the commit's height/round/block id, which needs VerifyCommit (C02) and the
    chain state and is false at the initial height (C13_commit_meta_bound_refuted). *)
Definition C13_unique_id_statement : Prop :=
  forall (H K : bytes -> bytes) (TxRoot : list bytes -> bytes),
    (forall x, length (H x) = 32) ->
    (forall l l', TxRoot l = TxRoot l' -> l = l' \/ collision K) ->
    forall b b',
      wf_header (b_header b) -> wf_header (b_header b') ->
      validate_basic H K TxRoot b = VbOk -> validate_basic H K TxRoot b' = VbOk ->
      header_hash K (b_header b) = header_hash K (b_header b') ->
      collision K \/ collision H \/
      (b_header b = b_header b' /\ b_txs b = b_txs b' /\ map fst (b_evs b) = map fst (b_evs b') /\
       forall c c', b_last b = Some c -> b_last b' = Some c' -> c_sigs c = c_sigs c').

(** Wire round trip of the modelled encoders: no decoder is modelled; the harness checks
    BlockFromProto(ToProto), Part/Commit/Vote/Proposal and the block store read-back directly on the
    implementation. *)
Definition C13_wire_roundtrip_statement : Prop :=
  exists decode_header : bytes -> option header,
    forall h bz, wf_header h -> encode_header h = Some bz -> decode_header bz = Some h.
