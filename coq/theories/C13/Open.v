(** C13 — statements that are NOT proved (kept as definitions; nothing depends on them). *)
From Coq Require Import List ZArith NArith Bool.
From Kardia Require Import Base.Int64 C13.Model C13.ProofsSound C13.ProofsHeader.
Import ListNotations.

(** Full uniqueness of the block id, unconditionally: two blocks that pass ValidateBasic and share the
    block hash have equal transaction lists, equal commit signatures and equal evidence (up to
    collisions of H, K and of the transaction trie).
    Proved in Properties.v under the well-formedness side conditions (wf_block: what the Go types can
    hold) and with "or a preimage of the all-zero hash" among the alternatives:
    C13_same_hash_same_body (header, transactions, evidence, signatures), C13_unique_id_partial (for two
    blocks acceptable against one chain state also the height and block id of the last commit),
    C13_cache_sound (the same through the executor's cache).
    Still missing for the statement below as it stands: it has no well-formedness hypotheses and no
    zero-preimage alternative (an empty evidence / signature list hashes to the zero hash by
    convention, so a list whose Merkle root is all-zero would be a counterexample that is not a
    collision); the injectivity of DeriveSha is a hypothesis (C07); the ROUND of the last commit is
    bound only by the signatures (VerifyCommit, C02/C11) and at the initial height nothing binds round
    and block id of the empty commit (C13_commit_meta_bound_refuted). *)
Definition C13_unique_id_statement : Prop :=
  forall (H K : bytes -> bytes) (TxRoot : list bytes -> bytes),
    (forall x, length (H x) = 32) ->
    (forall l l', TxRoot l = TxRoot l' -> l = l' \/ collision K) ->
    forall b b',
      wf_header (b_header b) -> wf_header (b_header b') ->
      validate_basic H K TxRoot b = VbOk -> validate_basic H K TxRoot b' = VbOk ->
      header_hash K (b_header b) = header_hash K (b_header b') ->
      collision K \/ collision H \/
      (b_header b = b_header b' /\ b_txs b = b_txs b' /\ map fst (b_evs b) = map fst (b_evs b') /\
       forall c c', b_last b = Some c -> b_last b' = Some c' -> c_sigs c = c_sigs c').

(** Wire round trip of the modelled encoders: no decoder is modelled; the harness checks
    BlockFromProto(ToProto), Part/Commit/Vote/Proposal and the block store read-back directly on the
    implementation. *)
Definition C13_wire_roundtrip_statement : Prop :=
  exists decode_header : bytes -> option header,
    forall h bz, wf_header h -> encode_header h = Some bz -> decode_header bz = Some h.
