(** C13 — the commit-signature encoder is injective; equal commit hashes mean equal signature lists
    (or a collision of the Merkle hash). *)
From Coq Require Import List ZArith NArith Bool Lia Arith ZifyBool.
From Kardia Require Import Base.Int64 Base.ListX C13.Model C13.ProofsMerkle C13.ProofsSound C13.ProofsPartSet C13.ProofsHeader.
Import ListNotations.
Local Open Scope N_scope.
Ltac Zify.zify_post_hook ::= Z.to_euclidean_division_equations.

Lemma bytes_field_end_inj t b b' : u64 (N.of_nat (length b)) -> u64 (N.of_nat (length b')) ->
  bytes_field t b = bytes_field t b' -> b = b'.
Proof.
  intros Hb Hb' He. unfold bytes_field in He.
  destruct b as [|x b], b' as [|x' b']; try discriminate; [reflexivity|].
  inversion He as [E]. apply varint_inj in E; tauto.
Qed.

Lemma starts_not_bytes_field t t' b (k : nat) r : length b = k -> (0 < k < 128)%nat -> t <> t' ->
  starts_not t' (bytes_field t b ++ r).
Proof. intros Hl Hk Ht. rewrite (bytes_field_fixed t b k) by assumption. simpl. exact Ht. Qed.

(** the values a types.CommitSig can hold and gogo can marshal *)
Definition wf_commit_sig (c : commit_sig) : Prop :=
  u64 (cs_flag c) /\ length (cs_addr c) = 20%nat /\ wf_time (cs_time c) /\ u64 (N.of_nat (length (cs_sig c))).

Lemma encode_commit_sig_inj c c' bz : wf_commit_sig c -> wf_commit_sig c' ->
  encode_commit_sig c = Some bz -> encode_commit_sig c' = Some bz -> c = c'.
Proof.
  intros [F [A [T S]]] [F' [A' [T' S']]] He He'. unfold encode_commit_sig in *.
  rewrite (encode_time_some _ T) in He. rewrite (encode_time_some _ T') in He'.
  inversion He as [E]. inversion He' as [E']. rewrite <- E' in E. clear He He' E'.
  fold (time_body (cs_time c)) in E. fold (time_body (cs_time c')) in E.
  apply varint_field1_inj in E; auto.
  2,3: apply (starts_not_bytes_field 18 8 _ 20); auto; lia.
  destruct E as [Ef E].
  apply (bytes_field_fixed_inj 18 _ _ _ _ 20) in E; [|auto|auto|lia]. destruct E as [Ea E].
  apply msg_field_inj in E.
  2,3: unfold u64; pose proof (time_body_length (cs_time c)); pose proof (time_body_length (cs_time c')); lia.
  destruct E as [Et Es]. apply time_body_inj in Et; auto.
  apply bytes_field_end_inj in Es; auto.
  destruct c, c'; simpl in *; congruence.
Qed.

Lemma all_some_encode_inj : forall l l' bs,
  Forall wf_commit_sig l -> Forall wf_commit_sig l' ->
  all_some (map encode_commit_sig l) = Some bs -> all_some (map encode_commit_sig l') = Some bs -> l = l'.
Proof.
  induction l as [|c l IH]; intros l' bs W W' He He'.
  - simpl in He. inversion He; subst. destruct l' as [|c' l']; [reflexivity|].
    simpl in He'. destruct (encode_commit_sig c'); [|discriminate]. destruct (all_some _); discriminate.
  - destruct l' as [|c' l'].
    + simpl in He'. inversion He'; subst. simpl in He. destruct (encode_commit_sig c); [|discriminate]. destruct (all_some _); discriminate.
    + cbn [map all_some] in He, He'.
      destruct (encode_commit_sig c) as [b|] eqn:Eb; [|discriminate].
      destruct (encode_commit_sig c') as [b'|] eqn:Eb'; [|discriminate].
      destruct (all_some (map encode_commit_sig l)) as [r|] eqn:Er; [|discriminate].
      destruct (all_some (map encode_commit_sig l')) as [r'|] eqn:Er'; [|discriminate].
      inversion He; subst. inversion He' as [[E1 E2]]. subst.
      inversion W; inversion W'; subst.
      f_equal; [eapply encode_commit_sig_inj; eauto|eapply IH; eauto].
Qed.

Lemma all_some_nonempty {A} (l : list (option A)) r : l <> [] -> all_some l = Some r -> r <> [].
Proof.
  destruct l as [|[x|] l]; intros Hn He; [congruence| |discriminate].
  simpl in He. destruct (all_some l); inversion He. discriminate.
Qed.

Section Commit.
  Variable H : bytes -> bytes.
  Hypothesis H_len : forall x, length (H x) = 32%nat.

  (** the hash of a commit with at least one signature determines the list of its signatures (flag,
      validator address, timestamp, signature bytes of every entry), or a collision of H.
      (Height, round and block id of the commit are not covered: C13_commit_meta_bound_refuted.) *)
  Lemma commit_hash_binds_sigs c c' :
    c_sigs c <> [] -> c_sigs c' <> [] ->
    Forall wf_commit_sig (c_sigs c) -> Forall wf_commit_sig (c_sigs c') ->
    commit_hash H c <> None -> commit_hash H c = commit_hash H c' ->
    c_sigs c = c_sigs c' \/ collision H.
  Proof.
    intros Hn Hn' W W' Hs He. unfold commit_hash in *.
    destruct (all_some (map encode_commit_sig (c_sigs c))) as [bs|] eqn:Eb; [|congruence].
    destruct (all_some (map encode_commit_sig (c_sigs c'))) as [bs'|] eqn:Eb'; [|discriminate].
    inversion He as [E].
    assert (Hb : bs <> []) by (eapply all_some_nonempty; [|exact Eb]; destruct (c_sigs c); [congruence|discriminate]).
    assert (Hb' : bs' <> []) by (eapply all_some_nonempty; [|exact Eb']; destruct (c_sigs c'); [congruence|discriminate]).
    rewrite !bytes_to_hash_32 in E by (apply root_len; auto).
    destruct (root_inj H H_len _ _ E) as [Ebs|C]; [|right; exact C].
    left. subst bs'. eapply all_some_encode_inj; eauto.
  Qed.
End Commit.
