(** C13 — the byte encoding hashed by Header.Hash is injective in every header field; what
    Block.ValidateBasic binds; the initial-height counterexample for the commit's height/round/id. *)
From Coq Require Import List ZArith NArith Bool Lia Arith ZifyBool.
From Kardia Require Import Base.Int64 Base.ListX C13.Model C13.ProofsMerkle C13.ProofsSound Generated.C13Facts.
Import ListNotations.
Local Open Scope N_scope.
Ltac Zify.zify_post_hook ::= Z.to_euclidean_division_equations.

(** the constants of the code keep NewPartSetFromData inside the modelled (wrap-free) domain for
    every block the node accepts; re-proved against the regenerated facts on every run *)
Lemma part_size_in_domain :
  block_part_size_bytes <> 0 /\ max_block_size_bytes + block_part_size_bytes - 1 < two32 /\
  max_block_parts_count = max_block_size_bytes / block_part_size_bytes + 1.
Proof. vm_compute. repeat split; congruence. Qed.

(* ---------------------------------------------------------------- varint *)

Lemma varint_fuel_inj : forall f a b r1 r2, a < 128 ^ N.of_nat f -> b < 128 ^ N.of_nat f ->
  varint_fuel f a ++ r1 = varint_fuel f b ++ r2 -> a = b /\ r1 = r2.
Proof.
  induction f as [|f IH]; intros a b r1 r2 Ha Hb He.
  - change (128 ^ N.of_nat 0) with 1 in *. simpl in He. split; [lia|exact He].
  - replace (N.of_nat (S f)) with (N.succ (N.of_nat f)) in * by lia. rewrite N.pow_succ_r' in *.
    set (P := 128 ^ N.of_nat f) in *.
    assert (HP : 0 < P) by (apply N.neq_0_lt_0, N.pow_nonzero; lia). clearbody P.
    cbn [varint_fuel] in He.
    destruct (N.ltb_spec a 128) as [Hsa|Hba]; destruct (N.ltb_spec b 128) as [Hsb|Hbb]; cbn [app] in He.
    + inversion He. auto.
    + inversion He as [[E1 E2]]. exfalso. pose proof (N.mod_lt b 128 ltac:(lia)). lia.
    + inversion He as [[E1 E2]]. exfalso. pose proof (N.mod_lt a 128 ltac:(lia)). lia.
    + inversion He as [[E1 E2]].
      destruct (IH (a / 128) (b / 128) r1 r2) as [Ed Er]; auto.
      * apply N.div_lt_upper_bound; lia.
      * apply N.div_lt_upper_bound; lia.
      * split; [|exact Er].
        rewrite (N.div_mod a 128), (N.div_mod b 128) by lia. rewrite Ed. lia.
Qed.

Definition u64 (v : N) : Prop := v < 18446744073709551616.

Lemma varint_inj a b r1 r2 : u64 a -> u64 b -> varint a ++ r1 = varint b ++ r2 -> a = b /\ r1 = r2.
Proof.
  unfold u64, varint. intros Ha Hb. apply varint_fuel_inj.
  - change (128 ^ N.of_nat 10) with 1180591620717411303424. lia.
  - change (128 ^ N.of_nat 10) with 1180591620717411303424. lia.
Qed.

Lemma varint_fuel_length f : forall a, (length (varint_fuel f a) <= f)%nat.
Proof. induction f; intros a; cbn [varint_fuel]; [simpl; lia|]. destruct (a <? 128); simpl; [lia|]. specialize (IHf (a / 128)). lia. Qed.

Lemma varint_length a : (length (varint a) <= 10)%nat.
Proof. apply varint_fuel_length. Qed.

Lemma varint_small a : a < 128 -> varint a = [a].
Proof. intros Ha. unfold varint. cbn [varint_fuel]. destruct (N.ltb_spec a 128); [reflexivity|lia]. Qed.

(* ---------------------------------------------------------------- fields *)

Definition starts_not (t : N) (r : bytes) : Prop := match r with [] => True | x :: _ => x <> t end.

Lemma varint_field1_inj t v v' r r' : u64 v -> u64 v' -> starts_not t r -> starts_not t r' ->
  varint_field [t] v ++ r = varint_field [t] v' ++ r' -> v = v' /\ r = r'.
Proof.
  unfold varint_field. intros Hv Hv' Hr Hr' He.
  destruct (N.eqb_spec v 0) as [E|E]; destruct (N.eqb_spec v' 0) as [E'|E']; cbn [app] in He.
  - split; [congruence|exact He].
  - exfalso. subst r. simpl in Hr. congruence.
  - exfalso. subst r'. simpl in Hr'. congruence.
  - inversion He as [E2]. apply varint_inj; assumption.
Qed.

Lemma varint_field2_end_inj t1 t2 v v' : u64 v -> u64 v' ->
  varint_field [t1; t2] v = varint_field [t1; t2] v' -> v = v'.
Proof.
  unfold varint_field. intros Hv Hv' He.
  destruct (N.eqb_spec v 0) as [E|E]; destruct (N.eqb_spec v' 0) as [E'|E']; cbn [app] in He; try discriminate; [congruence|].
  inversion He as [E2]. rewrite <- (app_nil_r (varint v)), <- (app_nil_r (varint v')) in E2.
  apply varint_inj in E2; tauto.
Qed.

Lemma bytes_field_fixed t b (k : nat) : length b = k -> (0 < k < 128)%nat -> bytes_field t b = t :: N.of_nat k :: b.
Proof.
  intros Hl Hk. unfold bytes_field. destruct b as [|x b]; [simpl in Hl; lia|].
  rewrite Hl, varint_small by lia. reflexivity.
Qed.

Lemma bytes_field_fixed_inj t b b' r r' (k : nat) : length b = k -> length b' = k -> (0 < k < 128)%nat ->
  bytes_field t b ++ r = bytes_field t b' ++ r' -> b = b' /\ r = r'.
Proof.
  intros Hl Hl' Hk He. rewrite (bytes_field_fixed t b k), (bytes_field_fixed t b' k) in He by assumption.
  cbn [app] in He. inversion He as [E]. apply app_inj_len in E; [exact E|congruence].
Qed.

Lemma bytes_field_fixed_head t b (k : nat) r : length b = k -> (0 < k < 128)%nat -> exists tl, bytes_field t b ++ r = t :: tl.
Proof. intros Hl Hk. rewrite (bytes_field_fixed t b k) by assumption. eexists. reflexivity. Qed.

Lemma msg_field_inj t body body' r r' : u64 (N.of_nat (length body)) -> u64 (N.of_nat (length body')) ->
  msg_field t body ++ r = msg_field t body' ++ r' -> body = body' /\ r = r'.
Proof.
  unfold msg_field. intros Hb Hb' He. cbn [app] in He. inversion He as [E]. rewrite <- !app_assoc in E.
  apply varint_inj in E; auto. destruct E as [El E]. apply app_inj_len in E; [exact E|lia].
Qed.

(* ---------------------------------------------------------------- time *)

Definition wf_time (t : timestamp) : Prop :=
  (min_valid_seconds <= t_secs t < max_valid_seconds)%Z /\ (0 <= t_nanos t < 1000000000)%Z.

Lemma encode_time_some t : wf_time t ->
  encode_time t = Some (varint_field [8] (u64_of_z (t_secs t)) ++ varint_field [16] (u64_of_z (t_nanos t))).
Proof.
  unfold wf_time, encode_time, min_valid_seconds, max_valid_seconds. intros [[A B] [C D]].
  replace (t_secs t <? -62135596800)%Z with false by lia.
  replace (253402300800 <=? t_secs t)%Z with false by lia.
  replace (t_nanos t <? 0)%Z with false by lia.
  replace (1000000000 <=? t_nanos t)%Z with false by lia. reflexivity.
Qed.

Lemma u64_of_z_u64 z : u64 (u64_of_z z).
Proof. unfold u64, u64_of_z. lia. Qed.

Lemma u64_of_z_inj a b : (- 9223372036854775808 <= a < 9223372036854775808)%Z ->
  (- 9223372036854775808 <= b < 9223372036854775808)%Z -> u64_of_z a = u64_of_z b -> a = b.
Proof. unfold u64_of_z. intros Ha Hb He. apply Z2N.inj in He; lia. Qed.

Definition time_body (t : timestamp) : bytes :=
  varint_field [8] (u64_of_z (t_secs t)) ++ varint_field [16] (u64_of_z (t_nanos t)).

Lemma varint_field_length tag v : (length (varint_field tag v) <= length tag + 10)%nat.
Proof. unfold varint_field. destruct (v =? 0); [simpl; lia|]. rewrite app_length. pose proof (varint_length v). lia. Qed.

Lemma time_body_length t : (length (time_body t) <= 22)%nat.
Proof.
  unfold time_body. rewrite app_length.
  pose proof (varint_field_length [8] (u64_of_z (t_secs t))). pose proof (varint_field_length [16] (u64_of_z (t_nanos t))).
  simpl in *. lia.
Qed.

Lemma time_body_inj t t' : wf_time t -> wf_time t' -> time_body t = time_body t' -> t = t'.
Proof.
  unfold wf_time, time_body, min_valid_seconds, max_valid_seconds. intros [A B] [A' B'] He.
  apply varint_field1_inj in He; try apply u64_of_z_u64.
  2,3: unfold varint_field; destruct (_ =? 0); simpl; auto; discriminate.
  destruct He as [Es En].
  rewrite <- (app_nil_r (varint_field [16] _)), <- (app_nil_r (varint_field [16] (u64_of_z (t_nanos t')))) in En.
  apply varint_field1_inj in En; try apply u64_of_z_u64; simpl; auto.
  destruct En as [En _].
  apply u64_of_z_inj in Es; [|lia|lia]. apply u64_of_z_inj in En; [|lia|lia].
  destruct t, t'; simpl in *; congruence.
Qed.

(* ---------------------------------------------------------------- block id *)

Definition u32 (v : N) : Prop := v < 4294967296.
Definition wf_blockid (b : blockid) : Prop :=
  length (bid_hash b) = 32%nat /\ length (psh_hash (bid_parts b)) = 32%nat /\ u32 (psh_total (bid_parts b)).

Lemma u32_u64 v : u32 v -> u64 v.
Proof. unfold u32, u64. lia. Qed.

Lemma encode_psheader_inj p p' : u32 (psh_total p) -> u32 (psh_total p') ->
  length (psh_hash p) = 32%nat -> length (psh_hash p') = 32%nat ->
  encode_psheader p = encode_psheader p' -> p = p'.
Proof.
  unfold encode_psheader. intros Ht Ht' Hh Hh' He.
  destruct (bytes_field_fixed_head 18 (psh_hash p) 32 [] Hh ltac:(lia)) as [tl Etl].
  destruct (bytes_field_fixed_head 18 (psh_hash p') 32 [] Hh' ltac:(lia)) as [tl' Etl'].
  rewrite app_nil_r in Etl, Etl'.
  apply varint_field1_inj in He; auto using u32_u64.
  2: rewrite Etl; simpl; discriminate. 2: rewrite Etl'; simpl; discriminate.
  destruct He as [E1 E2].
  rewrite <- (app_nil_r (bytes_field 18 (psh_hash p))), <- (app_nil_r (bytes_field 18 (psh_hash p'))) in E2.
  apply (bytes_field_fixed_inj 18 _ _ [] [] 32) in E2; auto; [|lia].
  destruct p, p'; simpl in *. destruct E2. congruence.
Qed.

Lemma encode_psheader_length p : length (psh_hash p) = 32%nat -> (length (encode_psheader p) <= 45)%nat.
Proof.
  intros Hh. unfold encode_psheader. rewrite app_length, (bytes_field_fixed 18 _ 32) by (auto; lia).
  pose proof (varint_field_length [8] (psh_total p)). simpl in *. lia.
Qed.

Lemma encode_blockid_inj b b' : wf_blockid b -> wf_blockid b' -> encode_blockid b = encode_blockid b' -> b = b'.
Proof.
  unfold wf_blockid, encode_blockid. intros [A [B C]] [A' [B' C']] He.
  apply (bytes_field_fixed_inj 10 _ _ _ _ 32) in He; auto; [|lia]. destruct He as [E1 E2].
  rewrite <- (app_nil_r (msg_field 18 _)), <- (app_nil_r (msg_field 18 (encode_psheader (bid_parts b')))) in E2.
  apply msg_field_inj in E2.
  2,3: unfold u64; pose proof (encode_psheader_length _ B); pose proof (encode_psheader_length _ B'); lia.
  destruct E2 as [E2 _]. apply encode_psheader_inj in E2; auto.
  destruct b, b'; simpl in *; congruence.
Qed.

Lemma encode_blockid_length b : wf_blockid b -> (length (encode_blockid b) <= 100)%nat.
Proof.
  intros [A [B C]]. unfold encode_blockid, msg_field. rewrite app_length, (bytes_field_fixed 10 _ 32) by (auto; lia).
  cbn [length]. rewrite app_length. pose proof (varint_length (N.of_nat (length (encode_psheader (bid_parts b))))).
  pose proof (encode_psheader_length _ B). lia.
Qed.

(* ---------------------------------------------------------------- header *)

(** the values a types.Header can hold *)
Record wf_header (h : header) : Prop := {
  wf_height : u64 (h_height h); wf_numtxs : u64 (h_numtxs h); wf_gas : u64 (h_gaslimit h);
  wf_htime : wf_time (h_time h); wf_last : wf_blockid (h_last h);
  wf_proposer : length (h_proposer h) = 20%nat;
  wf_lastcommit : length (h_lastcommit h) = 32%nat; wf_txhash : length (h_txhash h) = 32%nat;
  wf_valhash : length (h_valhash h) = 32%nat; wf_nextval : length (h_nextval h) = 32%nat;
  wf_cons : length (h_cons h) = 32%nat; wf_app : length (h_app h) = 32%nat;
  wf_evidence : length (h_evidence h) = 32%nat }.

Lemma encode_header_some h : wf_header h -> exists bz, encode_header h = Some bz.
Proof. intros W. unfold encode_header. rewrite (encode_time_some _ (wf_htime _ W)). eexists. reflexivity. Qed.

Ltac strip32 He t :=
  apply (bytes_field_fixed_inj t _ _ _ _ 32) in He; [|auto|auto|lia]; let E := fresh "E" in destruct He as [E He].

(** all 13 fields (16 scalar components) of the header can be read back from the hashed bytes *)
Lemma encode_header_inj h h' : wf_header h -> wf_header h' -> encode_header h = encode_header h' -> h = h'.
Proof.
  intros W W' He. unfold encode_header in He.
  rewrite (encode_time_some _ (wf_htime _ W)), (encode_time_some _ (wf_htime _ W')) in He.
  inversion He as [E]. clear He. fold (time_body (h_time h)) in E. fold (time_body (h_time h')) in E.
  destruct W as [a1 a2 a3 a4 a5 a6 a7 a8 a9 a10 a11 a12 a13], W' as [b1 b2 b3 b4 b5 b6 b7 b8 b9 b10 b11 b12 b13].
  apply varint_field1_inj in E; auto; try (simpl; discriminate).
  destruct E as [Eheight E].
  apply msg_field_inj in E.
  2,3: unfold u64; pose proof (time_body_length (h_time h)); pose proof (time_body_length (h_time h')); lia.
  destruct E as [Etime E]. apply time_body_inj in Etime; auto.
  apply msg_field_inj in E.
  2,3: unfold u64; pose proof (encode_blockid_length _ a5); pose proof (encode_blockid_length _ b5); lia.
  destruct E as [Elast E]. apply encode_blockid_inj in Elast; auto.
  strip32 E 50. strip32 E 58. strip32 E 66. strip32 E 74. strip32 E 82. strip32 E 90. strip32 E 106.
  apply (bytes_field_fixed_inj 114 _ _ _ _ 20) in E; [|auto|auto|lia]. destruct E as [Eprop E].
  apply varint_field1_inj in E; auto.
  2,3: unfold varint_field; destruct (_ =? 0); simpl; auto; discriminate.
  destruct E as [Egas E]. apply varint_field2_end_inj in E; auto.
  destruct h, h'; simpl in *; congruence.
Qed.

Section Block.
  Variable H K : bytes -> bytes.
  Variable TxRoot : list bytes -> bytes.

  (** equal block hashes: equal headers, or a Keccak collision *)
  Lemma header_hash_binds h h' : wf_header h -> wf_header h' ->
    header_hash K h = header_hash K h' -> h = h' \/ collision K.
  Proof.
    intros W W' He. unfold header_hash in He.
    destruct (encode_header_some h W) as [bz Eb], (encode_header_some h' W') as [bz' Eb'].
    rewrite Eb, Eb' in He. inversion He as [Ek].
    destruct (hash_inj K _ _ Ek) as [E|C]; [|right; exact C].
    left. apply encode_header_inj; auto. congruence.
  Qed.

  (** what Block.ValidateBasic ties to the header *)
  Lemma validate_basic_binds b : validate_basic H K TxRoot b = VbOk ->
    h_txhash (b_header b) = TxRoot (b_txs b) /\
    h_evidence (b_header b) = evidence_hash H K (map fst (b_evs b)) /\
    forallb (fun e => snd e) (b_evs b) = true /\
    match b_last b with
    | None => h_lastcommit (b_header b) = zero_hash /\ (h_height (b_header b) <= 1)
    | Some c => commit_hash H c = Some (h_lastcommit (b_header b)) /\
                (1 < h_height (b_header b) -> commit_validate c = VbOk)
    end.
  Proof.
    unfold validate_basic. intros Hv.
    set (pre := if 1 <? h_height (b_header b) then match b_last b with None => VbNilLastCommit | Some c => commit_validate c end else VbOk) in *.
    destruct pre eqn:Epre; try discriminate.
    set (lc := match b_last b with
               | None => if negb (is_zero_hash (h_lastcommit (b_header b))) then VbLastCommitHash else VbOk
               | Some c => match commit_hash H c with None => VbPanic | Some ch => if negb (bytes_eqb (h_lastcommit (b_header b)) ch) then VbLastCommitHash else VbOk end
               end) in *.
    destruct lc eqn:Elc; try discriminate.
    destruct (bytes_eqb (TxRoot (b_txs b)) (h_txhash (b_header b))) eqn:Et; cbn [negb] in Hv; [|discriminate].
    destruct (forallb (fun e => snd e) (b_evs b)) eqn:Ef; cbn [negb] in Hv; [|discriminate].
    destruct (bytes_eqb (evidence_hash H K (map fst (b_evs b))) (h_evidence (b_header b))) eqn:Ee; cbn [negb] in Hv; [|discriminate].
    apply bytes_eqb_eq in Et, Ee.
    split; [auto|]. split; [auto|]. split; [reflexivity|].
    subst pre lc. destruct (b_last b) as [c|].
    - destruct (commit_hash H c) as [ch|]; [|discriminate].
      destruct (bytes_eqb (h_lastcommit (b_header b)) ch) eqn:Ec; cbn [negb] in Elc; [|discriminate].
      apply bytes_eqb_eq in Ec. split; [congruence|].
      intros Hh. destruct (N.ltb_spec 1 (h_height (b_header b))); [exact Epre|lia].
    - destruct (is_zero_hash (h_lastcommit (b_header b))) eqn:Ez; cbn [negb] in Elc; [|discriminate].
      apply bytes_eqb_eq in Ez. split; [exact Ez|].
      destruct (N.ltb_spec 1 (h_height (b_header b))); [discriminate|lia].
  Qed.

  (** two blocks that pass ValidateBasic and share the block hash: same header, same transaction
      root, same commit-signature hash, same evidence hash — or a Keccak collision *)
  Lemma same_hash_same_commitments b b' :
    wf_header (b_header b) -> wf_header (b_header b') ->
    validate_basic H K TxRoot b = VbOk -> validate_basic H K TxRoot b' = VbOk ->
    header_hash K (b_header b) = header_hash K (b_header b') ->
    collision K \/
    (b_header b = b_header b' /\ TxRoot (b_txs b) = TxRoot (b_txs b') /\
     evidence_hash H K (map fst (b_evs b)) = evidence_hash H K (map fst (b_evs b')) /\
     forall c c', b_last b = Some c -> b_last b' = Some c' -> commit_hash H c = commit_hash H c').
  Proof.
    intros W W' V V' Hh.
    destruct (header_hash_binds _ _ W W' Hh) as [E|C]; [|left; exact C]. right.
    destruct (validate_basic_binds _ V) as [T [Ev [_ L]]], (validate_basic_binds _ V') as [T' [Ev' [_ L']]].
    split; [exact E|]. rewrite <- T, <- T', <- Ev, <- Ev', E. split; [reflexivity|]. split; [reflexivity|].
    intros c c' Ec Ec'. rewrite Ec in L. rewrite Ec' in L'. destruct L as [L _], L' as [L' _]. rewrite L, L', E. reflexivity.
  Qed.

  (** REFUTED for the initial height: height, round and block id of the last commit are not covered
      by Commit.Hash (signatures only); above the initial height VerifyCommit binds them (C02), at the
      initial height nothing does: two different blocks pass ValidateBasic with one block hash. *)
  Definition genesis_header : header :=
    {| h_height := 1; h_time := {| t_secs := 1600000000; t_nanos := 0 |}; h_numtxs := 0; h_gaslimit := 0;
       h_last := {| bid_hash := zero_hash; bid_parts := {| psh_total := 0; psh_hash := zero_hash |} |};
       h_proposer := repeat 0 20; h_lastcommit := zero_hash; h_txhash := TxRoot []; h_valhash := zero_hash;
       h_nextval := zero_hash; h_cons := zero_hash; h_app := zero_hash; h_evidence := zero_hash |}.
  Definition genesis_block (round : N) : block :=
    {| b_header := genesis_header; b_txs := [];
       b_last := Some {| c_height := 0; c_round := round;
                         c_bid := {| bid_hash := zero_hash; bid_parts := {| psh_total := 0; psh_hash := zero_hash |} |};
                         c_sigs := [] |};
       b_evs := [] |}.

  Lemma commit_meta_unbound_at_initial_height :
    genesis_block 0 <> genesis_block 7 /\
    validate_basic H K TxRoot (genesis_block 0) = VbOk /\ validate_basic H K TxRoot (genesis_block 7) = VbOk /\
    header_hash K (b_header (genesis_block 0)) = header_hash K (b_header (genesis_block 7)).
  Proof.
    split; [discriminate|].
    assert (V : forall r, validate_basic H K TxRoot (genesis_block r) = VbOk).
    { intros r. unfold validate_basic, genesis_block, genesis_header.
      cbn [b_header b_last b_txs b_evs h_height h_lastcommit h_txhash h_evidence c_sigs].
      change (1 <? 1) with false. cbv iota.
      unfold commit_hash. cbn [c_sigs map all_some]. rewrite root_nil.
      change (bytes_to_hash []) with zero_hash. rewrite !bytes_eqb_refl. cbn [negb map forallb].
      reflexivity. }
    split; [apply V|]. split; [apply V|reflexivity].
  Qed.
End Block.

Example wf_header_satisfiable : exists h, wf_header h.
Proof.
  exists (genesis_header (fun _ => zero_hash)).
  constructor; unfold u64, wf_time, wf_blockid, u32, min_valid_seconds, max_valid_seconds; simpl; repeat split; lia.
Qed.
