(** C13 — soundness of Merkle proofs up to an explicit hash collision. *)
From Coq Require Import List ZArith NArith Bool Lia Arith ZifyBool.
From Kardia Require Import Base.Int64 Base.ListX C13.Model C13.ProofsMerkle.
Import ListNotations.

Section Sound.
  Variable H : bytes -> bytes.
  (** the only assumption on the hash: fixed output length (SHA-256: 32 bytes) *)
  Hypothesis H_len : forall x, length (H x) = 32.

  (** an explicit collision of [H] *)
  Definition collision : Prop := exists x y : bytes, x <> y /\ H x = H y.

  Notation root := (root H).
  Notation leaf_hash := (leaf_hash H).
  Notation inner_hash := (inner_hash H).

  Lemma hash_inj x y : H x = H y -> x = y \/ collision.
  Proof.
    intros He. destruct (bytes_eq_dec x y) as [E|N]; [left; exact E|].
    right. exists x, y. split; assumption.
  Qed.

  Lemma leaf_hash_inj x y : leaf_hash x = leaf_hash y -> x = y \/ collision.
  Proof.
    unfold Model.leaf_hash. intros He. destruct (hash_inj _ _ He) as [E|C]; [|right; exact C].
    left. inversion E. reflexivity.
  Qed.

  Lemma app_inj_len {A} (a b c d : list A) : length a = length c -> a ++ b = c ++ d -> a = c /\ b = d.
  Proof.
    revert c; induction a as [|x a IH]; destruct c as [|y c]; simpl; intros Hl He; try discriminate.
    - auto.
    - inversion He; subst. destruct (IH c) as [E1 E2]; auto. subst. auto.
  Qed.

  Lemma app_inj_len_r {A} (a b c d : list A) : length b = length d -> a ++ b = c ++ d -> a = c /\ b = d.
  Proof.
    intros Hl He. apply app_inj_len; [|exact He].
    apply (f_equal (@length A)) in He. rewrite !app_length in He. lia.
  Qed.

  Lemma inner_hash_inj l r l' r' : length l = length l' \/ length r = length r' ->
    inner_hash l r = inner_hash l' r' -> (l = l' /\ r = r') \/ collision.
  Proof.
    unfold Model.inner_hash. intros Hl He. destruct (hash_inj _ _ He) as [E|C]; [|right; exact C].
    left. inversion E as [E']. destruct Hl; [apply app_inj_len|apply app_inj_len_r]; assumption.
  Qed.

  Lemma leaf_inner_neq x l r : leaf_hash x = inner_hash l r -> collision.
  Proof.
    unfold Model.leaf_hash, Model.inner_hash. intros He.
    exists (0%N :: x), (1%N :: l ++ r). split; [discriminate|exact He].
  Qed.

  Lemma root_len items : items <> [] -> length (root items) = 32.
  Proof.
    destruct items as [|x [|y l]]; intros Hn; [congruence| |].
    - apply H_len.
    - rewrite root_unfold by (simpl; lia). apply H_len.
  Qed.

  Lemma compute_rev_len : forall ra i t lh h, length lh = 32 -> compute_rev H i t lh ra = Some h -> length h = 32.
  Proof.
    induction ra as [|a ra IH]; intros i t lh h Hl Hc.
    - rewrite compute_rev_nil in Hc.
      destruct (Z.geb i t || Z.ltb i 0 || Z.leb t 0)%bool; [discriminate|].
      destruct (Z.eqb t 1); inversion Hc; subst; assumption.
    - rewrite compute_rev_cons in Hc.
      destruct (Z.geb i t || Z.ltb i 0 || Z.leb t 0)%bool; [discriminate|].
      destruct (Z.eqb t 1); [discriminate|]. cbv zeta in Hc.
      destruct (Z.ltb i (Z.of_N (split_point (Z.to_N t)))).
      + destruct (compute_rev H i _ lh ra); inversion Hc. apply H_len.
      + destruct (compute_rev H _ _ lh ra); inversion Hc. apply H_len.
  Qed.

  (** the heart of soundness: a hash chain that ends in [root items] starts at the leaf hash of the
      item at that index — or exhibits a collision *)
  Lemma compute_sound : forall items i lh ra,
    items <> [] -> length lh = 32 ->
    compute_rev H i (Z.of_nat (length items)) lh ra = Some (root items) ->
    collision \/ ((0 <= i)%Z /\ exists x, nth_error items (Z.to_nat i) = Some x /\ lh = leaf_hash x).
  Proof.
    intros items. pattern items. apply items_ind; clear items.
    - intros; congruence.
    - intros x i lh ra _ Hl Hc. right.
      destruct ra as [|a ra].
      + rewrite compute_rev_nil in Hc. cbn [length] in Hc.
        destruct (Z.geb i (Z.of_nat 1) || Z.ltb i 0 || Z.leb (Z.of_nat 1) 0)%bool eqn:Eb; [discriminate|].
        apply orb_false_iff in Eb. destruct Eb as [Eb _]. apply orb_false_iff in Eb. destruct Eb as [E1 E2].
        assert (i = 0%Z) by lia. subst i.
        change (Z.of_nat 1 =? 1)%Z with true in Hc. inversion Hc as [E].
        split; [lia|]. exists x. split; reflexivity.
      + rewrite compute_rev_cons in Hc. cbn [length] in Hc.
        destruct (Z.geb i (Z.of_nat 1) || Z.ltb i 0 || Z.leb (Z.of_nat 1) 0)%bool; [discriminate|].
        change (Z.of_nat 1 =? 1)%Z with true in Hc. discriminate.
    - intros items Hl2 IL IR i lh ra _ Hlh Hc.
      pose proof (splitk_bounds (length items) Hl2) as Hk.
      set (k := splitk (length items)) in *.
      assert (HLl : length (firstn k items) = k) by (rewrite firstn_length; lia).
      assert (HRl : length (skipn k items) = length items - k) by (rewrite skipn_length; lia).
      assert (HLn : firstn k items <> []) by (intros E; rewrite E in HLl; simpl in HLl; lia).
      assert (HRn : skipn k items <> []) by (intros E; rewrite E in HRl; simpl in HRl; lia).
      destruct ra as [|a ra].
      { rewrite compute_rev_nil in Hc.
        destruct (Z.geb i _ || Z.ltb i 0 || Z.leb _ 0)%bool; [discriminate|].
        replace (Z.of_nat (length items) =? 1)%Z with false in Hc by lia. discriminate. }
      rewrite compute_rev_cons in Hc.
      destruct (Z.geb i (Z.of_nat (length items)) || Z.ltb i 0 || Z.leb (Z.of_nat (length items)) 0)%bool eqn:Eb; [discriminate|].
      apply orb_false_iff in Eb. destruct Eb as [Eb _]. apply orb_false_iff in Eb. destruct Eb as [E1 E2].
      replace (Z.of_nat (length items) =? 1)%Z with false in Hc by lia.
      cbv zeta in Hc. rewrite split_z in Hc. fold k in Hc.
      rewrite (root_unfold H items Hl2) in Hc. fold k in Hc.
      destruct (Z.ltb_spec i (Z.of_nat k)) as [Hlt|Hge].
      + destruct (compute_rev H i (Z.of_nat k) lh ra) as [l|] eqn:Ec; [|discriminate].
        inversion Hc as [Hi].
        pose proof (compute_rev_len _ _ _ _ _ Hlh Ec) as Hll.
        destruct (inner_hash_inj l a (root (firstn k items)) (root (skipn k items))) as [[El Ea]|C]; auto.
        { left. rewrite Hll, root_len; auto. }
        subst l. rewrite <- HLl in Ec at 1.
        destruct (IL i lh ra HLn Hlh Ec) as [C|[Hi0 [x [Hn Hx]]]]; [left; exact C|].
        right. split; [exact Hi0|]. exists x. split; [|exact Hx].
        rewrite <- (firstn_skipn k items). rewrite nth_error_app1 by lia. exact Hn.
      + destruct (compute_rev H (i - Z.of_nat k) (Z.of_nat (length items) - Z.of_nat k) lh ra) as [r|] eqn:Ec; [|discriminate].
        inversion Hc as [Hi].
        pose proof (compute_rev_len _ _ _ _ _ Hlh Ec) as Hrl.
        destruct (inner_hash_inj a r (root (firstn k items)) (root (skipn k items))) as [[Ea Er]|C]; auto.
        { right. rewrite Hrl, root_len; auto. }
        subst r.
        replace (Z.of_nat (length items) - Z.of_nat k)%Z with (Z.of_nat (length (skipn k items))) in Ec by lia.
        destruct (IR (i - Z.of_nat k)%Z lh ra HRn Hlh Ec) as [C|[Hi0 [x [Hn Hx]]]]; [left; exact C|].
        right. split; [lia|]. exists x. split; [|exact Hx].
        rewrite <- (firstn_skipn k items). rewrite nth_error_app2 by lia.
        rewrite HLl. replace (Z.to_nat i - k) with (Z.to_nat (i - Z.of_nat k)) by lia. exact Hn.
  Qed.

  (** two item lists with the same root are equal, or a collision is exhibited (used for the commit
      signatures and the evidence list) *)
  Lemma root_inj : forall items items', root items = root items' -> items = items' \/ collision.
  Proof.
    intros items. pattern items. apply items_ind; clear items.
    - intros items' He. destruct items' as [|x [|y l]]; [left; reflexivity| |].
      + exfalso. rewrite root_nil, root_single in He. pose proof (H_len (0%N :: x)) as Hl.
        unfold Model.leaf_hash in He. rewrite <- He in Hl. discriminate.
      + exfalso. rewrite root_nil, root_unfold in He by (simpl; lia). unfold Model.inner_hash in He.
        match type of He with [] = H ?z => pose proof (H_len z) as Hl; rewrite <- He in Hl; discriminate end.
    - intros x items' He. destruct items' as [|x' [|y l]].
      + exfalso. rewrite root_nil, root_single in He. pose proof (H_len (0%N :: x)) as Hl.
        unfold Model.leaf_hash in He. rewrite He in Hl. discriminate.
      + rewrite !root_single in He. destruct (leaf_hash_inj _ _ He) as [E|C]; [left; congruence|right; exact C].
      + right. rewrite root_single, root_unfold in He by (simpl; lia). eapply leaf_inner_neq; exact He.
    - intros items Hl2 IL IR items' He.
      pose proof (splitk_bounds (length items) Hl2) as Hk.
      rewrite (root_unfold H items Hl2) in He.
      destruct items' as [|x' [|y' l']].
      + exfalso. rewrite root_nil in He. unfold Model.inner_hash in He.
        match type of He with H ?z = [] => pose proof (H_len z) as Hl; rewrite He in Hl; discriminate end.
      + right. rewrite root_single in He. symmetry in He. eapply leaf_inner_neq; exact He.
      + set (items' := x' :: y' :: l') in *.
        assert (Hl2' : 2 <= length items') by (simpl; lia).
        pose proof (splitk_bounds (length items') Hl2') as Hk'.
        rewrite (root_unfold H items' Hl2') in He.
        assert (Hn1 : firstn (splitk (length items)) items <> []).
        { intros E. apply (f_equal (@length bytes)) in E. rewrite firstn_length in E. simpl in E. lia. }
        assert (Hn1' : firstn (splitk (length items')) items' <> []).
        { intros E. apply (f_equal (@length bytes)) in E. rewrite firstn_length in E. simpl length at 3 in E. lia. }
        destruct (inner_hash_inj _ _ _ _ (or_introl (eq_trans (root_len _ Hn1) (eq_sym (root_len _ Hn1')))) He) as [[E1 E2]|C];
          [|right; exact C].
        destruct (IL _ E1) as [EL|C]; [|right; exact C].
        destruct (IR _ E2) as [ER|C]; [|right; exact C].
        left. rewrite <- (firstn_skipn (splitk (length items)) items), <- (firstn_skipn (splitk (length items')) items').
        rewrite EL, ER. reflexivity.
  Qed.
End Sound.
